/-
  Helper lemmas for C07 (and C06): the run of the client machine on three replies as one case
  distinction over the three stages; what a successful stage implies about its reply (inversion);
  marshalling succeeds under `HsReg`; bounds that follow from the decoder invariant; no stage ends in a
  panic under `ClientSane`.
-/
import Mtv.Handshake.Checks
import Mtv.Lemmas.C07Decoder
import Mtv.Props.C15
namespace Mtv.Handshake
open Mtv Mtv.TL Mtv.Ige

/-! ### once `makeAuthKey` has returned, replies change nothing -/

theorem hsStep_done (c : Cfg) (st : HsState) (r : Bytes) (o : Outcome Unit) (h : st.result = some o) :
    hsStep c st r = (st, []) := by
  unfold hsStep; simp [h]

theorem hsFeed_done (c : Cfg) : ∀ (rs : List Bytes) (st : HsState) (acts : List Action) (o : Outcome Unit),
    st.result = some o → hsFeed c (st, acts) rs = (st, acts)
  | [], st, acts, o, h => rfl
  | r :: rs, st, acts, o, h => by
    simp only [hsFeed, hsStep_done c st r o h, List.append_nil]
    exact hsFeed_done c rs st acts o h

/-! ### the run on three (or more) replies, as one case distinction over the three stages -/

/-- state after `n` replies with nothing decided yet -/
def stAfter1 (s1 : S1) : HsState := { stage := 1, serviceMode := true, serverNonce := s1.serverNonce }
def stAfter2 (s1 : S1) (s2 : S2) : HsState :=
  { stage := 2, serviceMode := true, serverNonce := s1.serverNonce, authKey := s2.authKey,
    authKeyHash := s2.authKeyHash, salt := s2.salt, nonceHash1 := s2.nonceHash1 }

def run3 (c : Cfg) (r1 r2 r3 : Bytes) : HsState × List Action :=
  match marshalSend c.R (vReqPQ (fromBE c.d.nonce)) with
  | .error a => ({ serviceMode := true, result := some a.toOutcome }, [])
  | .ok req1 =>
    match stage1 c r1 with
    | .error a => ({ stage := 1, serviceMode := true, result := some a.toOutcome }, [.sendPlain req1])
    | .ok s1 =>
      match stage2 c s1.serverNonce r2 with
      | .error a => ({ stAfter1 s1 with stage := 2, result := some a.toOutcome }, [.sendPlain req1, .sendPlain s1.req])
      | .ok s2 =>
        match stage3 c s1.serverNonce s2.nonceHash1 r3 with
        | .error a => ({ stAfter2 s1 s2 with stage := 3, result := some a.toOutcome },
                        [.sendPlain req1, .sendPlain s1.req, .sendPlain s2.req])
        | .ok _ => ({ stAfter2 s1 s2 with stage := 3, serviceMode := false, encrypted := true, result := some (.ok ()) },
                    [.sendPlain req1, .sendPlain s1.req, .sendPlain s2.req, .setEncrypted,
                     .saveSession s2.authKey s2.authKeyHash s2.salt])

theorem hsRun_three (c : Cfg) (r1 r2 r3 : Bytes) (rest : List Bytes) :
    hsRun c (r1 :: r2 :: r3 :: rest) = run3 c r1 r2 r3 := by
  unfold hsRun run3 hsStart
  cases h0 : marshalSend c.R (vReqPQ (fromBE c.d.nonce)) with
  | error a =>
    simp only [finish]
    exact hsFeed_done c _ _ _ _ rfl
  | ok req1 =>
    simp only [hsFeed, hsStep, sendAction]
    cases h1 : stage1 c r1 with
    | error a =>
      simp only [finish, List.append_nil]
      exact hsFeed_done c _ _ _ _ rfl
    | ok s1 =>
      simp only [sendAction]
      cases h2 : stage2 c s1.serverNonce r2 with
      | error a =>
        simp only [finish, List.append_nil]
        rw [hsFeed_done c _ _ _ _ rfl]
        rfl
      | ok s2 =>
        simp only [sendAction]
        cases h3 : stage3 c s1.serverNonce s2.nonceHash1 r3 with
        | error a =>
          simp only [finish, List.append_nil]
          rw [hsFeed_done c _ _ _ _ rfl]
          rfl
        | ok u =>
          simp only []
          rw [hsFeed_done c _ _ _ _ rfl]
          rfl

theorem recvService_ok {c : Cfg} {r : Bytes} {v : Val} (h : recvService c r = .ok v) :
    decodeReply c r = .ok v ∧ objId v ≠ some idRpcError := by
  unfold recvService at h
  unfold decodeReply
  split at h
  · cases h
  · cases h
  · split at h
    · cases h
    · cases h; exact ⟨by assumption, by assumption⟩

theorem liftPanic_bigIntBytes_ok {x w : Nat} {v : Bytes} (h : liftPanic (bigIntBytes x w) = .ok v) :
    v = beBytes x w ∧ x < 256 ^ w := by
  unfold bigIntBytes at h
  split at h
  · simp only [liftPanic] at h; cases h; exact ⟨rfl, by assumption⟩
  · simp [liftPanic] at h

theorem decryptDHAnswer_ok {c : Cfg} {enc : Bytes} {nn sn : Nat} {a : Bytes}
    (h : decryptDHAnswer c enc nn sn = .ok a) : decryptTemp c.P.H c.P.D enc nn sn = .ok a := by
  unfold decryptDHAnswer at h
  split at h
  · cases h; assumption
  · cases h
  · cases h

theorem stage2_ok {c : Cfg} {sn : Nat} {r : Bytes} {s : S2} (h : stage2 c sn r = .ok s) :
    ∃ v x answer vi xi, decodeReply c r = .ok v ∧ asDHOk v = some x ∧
      x.nonce = fromBE c.d.nonce ∧ x.serverNonce = sn ∧
      decryptTemp c.P.H c.P.D x.enc (fromBE c.d.newNonce) sn = .ok answer ∧
      decodeUnknown c.R c.P.gunzip (fuelFor answer) [] answer = .ok vi ∧ asInner vi = some xi ∧
      xi.nonce = fromBE c.d.nonce ∧ xi.serverNonce = sn ∧
      s.nonceHash1 = expectedHash1 c xi := by
  unfold stage2 at h
  simp only [bind, Except.bind, pure, Except.pure, throw, throwThe, MonadExceptOf.throw] at h
  split at h
  · cases h
  · rename_i v hv
    split at h
    · cases h
    · split at h
      · rename_i x hx
        split at h
        · cases h
        · rename_i hn
          split at h
          · cases h
          · rename_i hsn
            split at h
            · cases h
            · rename_i answer hans
              split at h
              · rename_i vi hvi
                split at h
                · rename_i xi hxi
                  split at h
                  · cases h
                  · rename_i hn2
                    split at h
                    · cases h
                    · rename_i hsn2
                      split at h
                      · cases h
                      · split at h
                        · cases h
                        · rename_i nnB hnnB
                          split at h
                          · cases h
                          · split at h
                            · cases h
                            · split at h
                              · cases h
                              · split at h
                                · cases h
                                · cases h
                                  simp only [ne_eq, Decidable.not_not] at hn hsn hn2 hsn2
                                  refine ⟨v, x, answer, vi, xi, (recvService_ok hv).1, hx, hn.symm, hsn.symm,
                                    decryptDHAnswer_ok hans, hvi, hxi, hn2.symm, hsn2.symm, ?_⟩
                                  simp only [expectedHash1, (liftPanic_bigIntBytes_ok hnnB).1]
                · cases h
              · cases h
              · cases h
      · cases h

theorem stage3_ok {c : Cfg} {sn : Nat} {nh r : Bytes} {u : Unit} (h : stage3 c sn nh r = .ok u) :
    ∃ v x, decodeReply c r = .ok v ∧ asDHGenOk v = some x ∧
      x.nonce = fromBE c.d.nonce ∧ x.serverNonce = sn ∧ beBytes x.hash 16 = nh := by
  unfold stage3 at h
  simp only [bind, Except.bind, pure, Except.pure, throw, throwThe, MonadExceptOf.throw] at h
  split at h
  · cases h
  · rename_i v hv
    split at h
    · cases h
    · split at h
      · rename_i x hx
        split at h
        · cases h
        · rename_i hn
          split at h
          · cases h
          · rename_i hsn
            split at h
            · cases h
            · rename_i got hgot
              split at h
              · cases h
              · rename_i hh
                simp only [ne_eq, Decidable.not_not] at hn hsn hh
                exact ⟨v, x, (recvService_ok hv).1, hx, hn.symm, hsn.symm,
                  by rw [← (liftPanic_bigIntBytes_ok hgot).1]; exact hh.symm⟩
      · cases h

theorem stage1_ok {c : Cfg} {r : Bytes} {s : S1} (h : stage1 c r = .ok s) :
    ∃ v x, decodeReply c r = .ok v ∧ asResPQ v = some x ∧
      x.nonce = fromBE c.d.nonce ∧ rsaFingerprint c.P.H c.key ∈ x.fps ∧ s.serverNonce = x.serverNonce := by
  unfold stage1 at h
  simp only [bind, Except.bind, pure, Except.pure, throw, throwThe, MonadExceptOf.throw] at h
  split at h
  · cases h
  · rename_i v hv
    split at h
    · rename_i x hx
      split at h
      · cases h
      · rename_i hn
        split at h
        · cases h
        · rename_i hfp
          split at h
          · split at h
            · cases h
            · split at h
              · cases h
              · split at h
                · cases h
                · cases h
                  refine ⟨v, x, (recvService_ok hv).1, hx, ?_, ?_, rfl⟩
                  · simp only [ne_eq, Decidable.not_not] at hn; exact hn.symm
                  · simpa using hfp
          · cases h
    · cases h

theorem putMessage_ok (bs : Bytes) (h : bs.length < 2 ^ 24) : ∃ out, putMessage bs = .ok out := by
  unfold putMessage
  by_cases h1 : bs.length < 254
  · simp [h1]
  · have h2 : ¬ 2 ^ 24 ≤ bs.length := by omega
    simp [h1, h2]

theorem marshal_pqInner {R : Registry} (hR : HsReg R) (pq p q : Bytes) (nonce sn nn : Nat)
    (h1 : pq.length < 2 ^ 24) (h2 : p.length < 2 ^ 24) (h3 : q.length < 2 ^ 24)
    (h4 : nonce < 256 ^ 16) (h5 : sn < 256 ^ 16) (h6 : nn < 256 ^ 32) :
    ∃ bs, marshal R (vPQInner pq p q nonce sn nn) = .ok bs := by
  have hf : R.find idPQInner = some dPQInner := hR dPQInner (by simp [hsDescs])
  obtain ⟨o1, e1⟩ := putMessage_ok pq h1
  obtain ⟨o2, e2⟩ := putMessage_ok p h2
  obtain ⟨o3, e3⟩ := putMessage_ok q h3
  simp [marshal, vPQInner, encVal, hf, dPQInner, fI128, fBytes, wfDesc, encFields, e1, e2, e3, h4, h5, h6]

theorem marshal_reqDH {R : Registry} (hR : HsReg R) (nonce sn : Nat) (p q : Bytes) (fp : Nat) (enc : Bytes)
    (h2 : p.length < 2 ^ 24) (h3 : q.length < 2 ^ 24) (h1 : enc.length < 2 ^ 24)
    (h4 : nonce < 256 ^ 16) (h5 : sn < 256 ^ 16) :
    ∃ bs, marshal R (vReqDH nonce sn p q fp enc) = .ok bs := by
  have hf : R.find idReqDH = some dReqDH := hR dReqDH (by simp [hsDescs])
  obtain ⟨o1, e1⟩ := putMessage_ok enc h1
  obtain ⟨o2, e2⟩ := putMessage_ok p h2
  obtain ⟨o3, e3⟩ := putMessage_ok q h3
  simp [marshal, vReqDH, encVal, hf, dReqDH, fI128, fBytes, wfDesc, encFields, e1, e2, e3, h4, h5]

theorem marshal_clientInner {R : Registry} (hR : HsReg R) (nonce sn retry : Nat) (gb : Bytes)
    (h1 : gb.length < 2 ^ 24) (h4 : nonce < 256 ^ 16) (h5 : sn < 256 ^ 16) :
    ∃ bs, marshal R (vClientInner nonce sn retry gb) = .ok bs := by
  have hf : R.find idClientInner = some dClientInner := hR dClientInner (by simp [hsDescs])
  obtain ⟨o1, e1⟩ := putMessage_ok gb h1
  simp [marshal, vClientInner, encVal, hf, dClientInner, fI128, fBytes, wfDesc, encFields, e1, h4, h5]

/-- `set_client_DH_params` is marshalled or refused with an error (an `encrypted_data` of 2^24 bytes
or more), never with a panic -/
theorem marshal_setClientDH_no_panic {R : Registry} (hR : HsReg R) (nonce sn : Nat) (enc : Bytes)
    (h4 : nonce < 256 ^ 16) (h5 : sn < 256 ^ 16) (s : String) :
    marshal R (vSetClientDH nonce sn enc) ≠ .panic s := by
  have hf : R.find idSetClientDH = some dSetClientDH := hR dSetClientDH (by simp [hsDescs])
  have hp : ∀ t, putMessage enc ≠ .panic t := by
    intro t; unfold putMessage; split
    · simp
    · split <;> simp
  cases e1 : putMessage enc with
  | ok o => simp [marshal, vSetClientDH, encVal, hf, dSetClientDH, fI128, fBytes, wfDesc, encFields, e1, h4, h5]
  | err e => simp [marshal, vSetClientDH, encVal, hf, dSetClientDH, fI128, fBytes, wfDesc, encFields, e1, h4, h5]
  | panic t => exact absurd e1 (hp t)

theorem marshal_reqPQ {R : Registry} (hR : HsReg R) (n : Nat) (h : n < 256 ^ 16) :
    ∃ bs, marshal R (vReqPQ n) = .ok bs := by
  have hf : R.find idReqPQ = some dReqPQ := hR dReqPQ (by simp [hsDescs])
  simp [marshal, vReqPQ, encVal, hf, dReqPQ, fI128, wfDesc, encFields, h]

theorem asResPQ_bigok {v : Val} {x : ResPQ} (hb : BigOK v) (h : asResPQ v = some x) :
    x.nonce < 256 ^ 16 ∧ x.serverNonce < 256 ^ 16 ∧ x.pq.length < 2 ^ 24 := by
  unfold asResPQ at h
  split at h
  · split at h
    · rename_i hid
      cases h
      subst hid
      simp only [BigOK, BigOKL, idResPQ] at hb
      dsimp only
      omega
    · cases h
  · cases h

theorem asInner_bigok {v : Val} {x : Inner} (hb : BigOK v) (h : asInner v = some x) :
    x.dhPrime.length < 2 ^ 24 := by
  unfold asInner at h
  split at h
  · split at h
    · rename_i hid
      cases h
      subst hid
      simp only [BigOK, BigOKL, idInner] at hb
      dsimp only
      omega
    · cases h
  · cases h

theorem asDHGenOk_bigok {v : Val} {x : DHGen} (hb : BigOK v) (h : asDHGenOk v = some x) :
    x.hash < 256 ^ 16 := by
  unfold asDHGenOk at h
  split at h
  · split at h
    · rename_i hid
      cases h
      subst hid
      simp only [BigOK, BigOKL, idDHGenOk] at hb
      dsimp only
      omega
    · cases h
  · cases h

theorem recvService_error {c : Cfg} {r : Bytes} {a : Abort} (h : recvService c r = .error a) :
    ∃ k, a = .err k := by
  unfold recvService at h
  have hp := decodeUnknown_no_panic c.R c.P.gunzip (fuelFor r) [] r (by intro h hh; simp at hh)
  split at h
  · cases h; exact ⟨_, rfl⟩
  · rename_i hd; rw [hd] at hp; simp [Outcome.isPanic] at hp
  · split at h
    · cases h; exact ⟨_, rfl⟩
    · cases h

theorem marshalCheck_ok {R : Registry} {v : Val} (h : ∃ bs, marshal R v = .ok bs) :
    ∃ bs, marshalCheck R v = .ok bs := by
  obtain ⟨bs, e⟩ := h
  exact ⟨bs, by simp [marshalCheck, e]⟩

theorem marshalSend_ok {R : Registry} {v : Val} (h : ∃ bs, marshal R v = .ok bs) :
    ∃ bs, marshalSend R v = .ok bs := by
  obtain ⟨bs, e⟩ := h
  exact ⟨bs, by simp [marshalSend, e]⟩

theorem marshalSend_error {R : Registry} {v : Val} {a : Abort} (hp : ∀ s, marshal R v ≠ .panic s)
    (h : marshalSend R v = .error a) : ∃ k, a = .err k := by
  unfold marshalSend at h
  split at h
  · cases h
  · cases h; exact ⟨_, rfl⟩
  · rename_i s hs; exact absurd hs (hp s)

theorem doRSAencrypt_ok (block : Bytes) (n e : Nat) (hb : block.length = 255) (h0 : 0 < n) (h1 : n ≤ 256 ^ 256) :
    ∃ out, doRSAencrypt block n e = .ok out ∧ out.length = 256 := by
  have := powMod_lt (fromBE block) e n h0
  have h2 : powMod (fromBE block) e n < 256 ^ 256 := by omega
  refine ⟨beBytes (powMod (fromBE block) e n) 256, ?_, by simp⟩
  simp [doRSAencrypt, hb, h2]

theorem bigBytes_len_of_le {p n k : Nat} (h : p ≤ n) (hn : n < 256 ^ k) : (bigBytes p).length ≤ k :=
  bigBytes_length_le p k (by omega)

theorem stage1_error {c : Cfg} (hs : ClientSane c) {r : Bytes} {a : Abort} (h : stage1 c r = .error a) :
    ∃ k, a = .err k := by
  unfold stage1 at h
  simp only [bind, Except.bind, pure, Except.pure, throw, throwThe, MonadExceptOf.throw] at h
  have hnonce : fromBE c.d.nonce < 256 ^ 16 := by have := fromBE_lt c.d.nonce; rwa [hs.nonce] at this
  have hnn : fromBE c.d.newNonce < 256 ^ 32 := by have := fromBE_lt c.d.newNonce; rwa [hs.newNonce] at this
  split at h
  · rename_i e he; cases h; exact recvService_error he
  · rename_i v hv
    have hb : BigOK v := decodeUnknown_bigok _ _ _ _ _ _ (recvService_ok hv).1
    split at h
    · rename_i x hx
      obtain ⟨hxn, hxs, hpq⟩ := asResPQ_bigok hb hx
      split at h
      · cases h; exact ⟨_, rfl⟩
      · split at h
        · cases h; exact ⟨_, rfl⟩
        · split at h
          · rename_i pqf hsp
            obtain ⟨hp, hq⟩ := hs.split _ pqf.1 pqf.2 hsp
            have hfb := fromBE_lt x.pq
            have hpl : (bigBytes pqf.1).length < 2 ^ 24 := by
              have := bigBytes_len_of_le hp hfb; omega
            have hql : (bigBytes pqf.2).length < 2 ^ 24 := by
              have := bigBytes_len_of_le hq hfb; omega
            obtain ⟨m, hm⟩ := marshalCheck_ok (marshal_pqInner hs.reg x.pq (bigBytes pqf.1) (bigBytes pqf.2)
              (fromBE c.d.nonce) x.serverNonce (fromBE c.d.newNonce) hpq hpl hql hnonce hxs hnn)
            rw [hm] at h
            simp only at h
            obtain ⟨enc, henc, hel⟩ := doRSAencrypt_ok (copyAt (zeros 255) 0 (c.P.H m ++ m)) c.key.n c.key.e
              (by rw [copyAt_length] <;> simp) hs.keyPos hs.keyFit
            rw [henc] at h
            simp only [liftPanic] at h
            obtain ⟨rq, hrq⟩ := marshalSend_ok (marshal_reqDH hs.reg (fromBE c.d.nonce) x.serverNonce (bigBytes pqf.1)
              (bigBytes pqf.2) (rsaFingerprint c.P.H c.key) enc hpl hql (by omega) hnonce hxs)
            rw [hrq] at h
            cases h
          · cases h; exact ⟨_, rfl⟩
    · cases h; exact ⟨_, rfl⟩

/-- what a successful first stage hands to the second: a server_nonce that fits 16 bytes -/
theorem stage1_serverNonce_lt {c : Cfg} {r : Bytes} {s : S1} (h : stage1 c r = .ok s) : s.serverNonce < 256 ^ 16 := by
  obtain ⟨v, x, hd, hx, _, _, hsn⟩ := stage1_ok h
  have hb : BigOK v := decodeUnknown_bigok _ _ _ _ _ _ hd
  rw [hsn]; exact (asResPQ_bigok hb hx).2.1

theorem encryptTemp_ok (H : Bytes → Bytes) (E : Bytes → Bytes → Bytes) (hH : ∀ x, (H x).length = 20)
    (msg : Bytes) (n s : Nat) (rnd : Bytes) (hr : 15 ≤ rnd.length) :
    ∃ ct, encryptTemp H E msg n s rnd = .ok ct := by
  have hpad := tempPadLen_spec (20 + msg.length)
  have hplen : (rnd.take (tempPadLen (20 + msg.length))).length = tempPadLen (20 + msg.length) := by
    simp; omega
  have hdl : (H msg ++ msg ++ rnd.take (tempPadLen (20 + msg.length))).length
      = 20 + msg.length + tempPadLen (20 + msg.length) := by
    rw [List.length_append, List.length_append, hH, hplen]
  refine ⟨igeEncBytes (E (generateTempKeys H n s).1) (generateTempKeys H n s).2
    (H msg ++ msg ++ rnd.take (tempPadLen (20 + msg.length))), ?_⟩
  simp only [encryptTemp, encryptTempNoPad, hH]
  rw [doEncrypt_spec _ _ _ _ (by rw [hdl]; omega) (by rw [hdl]; omega) (by simp)]

theorem decryptDHAnswer_error {c : Cfg} {enc : Bytes} {nn sn : Nat} {a : Abort}
    (h : decryptDHAnswer c enc nn sn = .error a) : ∃ k, a = .err k := by
  unfold decryptDHAnswer at h
  split at h
  · cases h
  · cases h; exact ⟨_, rfl⟩
  · cases h; exact ⟨_, rfl⟩

theorem stage2_error {c : Cfg} (hs : ClientSane c) {sn : Nat} (hsn : sn < 256 ^ 16) {r : Bytes} {a : Abort}
    (h : stage2 c sn r = .error a) : ∃ k, a = .err k := by
  unfold stage2 at h
  simp only [bind, Except.bind, pure, Except.pure, throw, throwThe, MonadExceptOf.throw] at h
  have hnonce : fromBE c.d.nonce < 256 ^ 16 := by have := fromBE_lt c.d.nonce; rwa [hs.nonce] at this
  have hnn : fromBE c.d.newNonce < 256 ^ 32 := by have := fromBE_lt c.d.newNonce; rwa [hs.newNonce] at this
  split at h
  · rename_i e he; cases h; exact recvService_error he
  · rename_i v hv
    split at h
    · cases h; exact ⟨_, rfl⟩
    · split at h
      · rename_i x hx
        split at h
        · cases h; exact ⟨_, rfl⟩
        · split at h
          · cases h; exact ⟨_, rfl⟩
          · split at h
            · rename_i e he; cases h; exact decryptDHAnswer_error he
            · rename_i answer hans
              split at h
              · rename_i vi hvi
                have hbi : BigOK vi := decodeUnknown_bigok _ _ _ _ _ _ hvi
                split at h
                · rename_i xi hxi
                  have hdp := asInner_bigok hbi hxi
                  split at h
                  · cases h; exact ⟨_, rfl⟩
                  · split at h
                    · cases h; exact ⟨_, rfl⟩
                    · split at h
                      · cases h; exact ⟨_, rfl⟩
                      · rename_i hP
                        rw [bigIntBytes_ok _ _ hnn, bigIntBytes_ok _ _ hsn] at h
                        simp only [liftPanic] at h
                        have hPpos : 0 < fromBE xi.dhPrime := Nat.pos_of_ne_zero hP
                        have hgb := powMod_lt (baseOfG xi.g (fromBE xi.dhPrime)) (fromBE c.d.b) (fromBE xi.dhPrime) hPpos
                        have hPl := fromBE_lt xi.dhPrime
                        have hgl : (bigBytes (powMod (baseOfG xi.g (fromBE xi.dhPrime)) (fromBE c.d.b) (fromBE xi.dhPrime))).length < 2 ^ 24 := by
                          have := bigBytes_length_le _ xi.dhPrime.length (Nat.lt_trans hgb hPl); omega
                        obtain ⟨m, hm⟩ := marshalCheck_ok (marshal_clientInner hs.reg (fromBE c.d.nonce) sn 0 _ hgl hnonce hsn)
                        rw [hm] at h
                        simp only at h
                        obtain ⟨ct, hct⟩ := encryptTemp_ok c.P.H c.P.E hs.hlen m (fromBE c.d.newNonce) sn c.d.rnd hs.rnd
                        rw [hct] at h
                        simp only at h
                        split at h
                        · rename_i e he
                          cases h
                          exact marshalSend_error (marshal_setClientDH_no_panic hs.reg _ _ _ hnonce hsn) he
                        · cases h
                · cases h; exact ⟨_, rfl⟩
              · cases h; exact ⟨_, rfl⟩
              · rename_i s hpanic
                have hp := decodeUnknown_no_panic c.R c.P.gunzip (fuelFor answer) [] answer (by intro h hh; simp at hh)
                rw [hpanic] at hp; simp [Outcome.isPanic] at hp
      · cases h; exact ⟨_, rfl⟩

theorem stage3_error {c : Cfg} {sn : Nat} {nh r : Bytes} {a : Abort}
    (h : stage3 c sn nh r = .error a) : ∃ k, a = .err k := by
  unfold stage3 at h
  simp only [bind, Except.bind, pure, Except.pure, throw, throwThe, MonadExceptOf.throw] at h
  split at h
  · rename_i e he; cases h; exact recvService_error he
  · rename_i v hv
    have hb : BigOK v := decodeUnknown_bigok _ _ _ _ _ _ (recvService_ok hv).1
    split at h
    · cases h; exact ⟨_, rfl⟩
    · split at h
      · rename_i x hx
        split at h
        · cases h; exact ⟨_, rfl⟩
        · split at h
          · cases h; exact ⟨_, rfl⟩
          · rw [bigIntBytes_ok _ _ (asDHGenOk_bigok hb hx)] at h
            simp only [liftPanic] at h
            split at h
            · cases h; exact ⟨_, rfl⟩
            · cases h
      · cases h; exact ⟨_, rfl⟩

/-- nothing irrevocable has happened: not encrypted, `makeAuthKey` has not returned success, nothing
stored, nothing sent encrypted, `encrypted` not switched on -/
def Quiet (sa : HsState × List Action) : Prop :=
  sa.1.encrypted = false ∧ sa.1.result ≠ some (.ok ()) ∧
  ∀ a ∈ sa.2, a.isSave = false ∧ a.isSendEnc = false ∧ a ≠ .setEncrypted

theorem allChecks_of_stages {c : Cfg} {r1 r2 r3 : Bytes} {s1 : S1} {s2 : S2} {u : Unit}
    (h1 : stage1 c r1 = .ok s1) (h2 : stage2 c s1.serverNonce r2 = .ok s2)
    (h3 : stage3 c s1.serverNonce s2.nonceHash1 r3 = .ok u) : AllChecks c r1 r2 r3 := by
  obtain ⟨v1, x1, d1, a1, n1, f1, e1⟩ := stage1_ok h1
  obtain ⟨v2, x2, ans, vi, xi, d2, a2, n2, sn2, dec, dvi, ai, ni, sni, hh⟩ := stage2_ok h2
  obtain ⟨v3, x3, d3, a3, n3, sn3, hh3⟩ := stage3_ok h3
  refine ⟨v1, x1, v2, x2, ans, vi, xi, v3, x3, d1, a1, d2, a2, d3, a3, ?_, dvi, ai, n1, n2, ?_, ni, ?_, n3, ?_, f1, ?_⟩
  · rw [← e1]; exact dec
  · rw [sn2, e1]
  · rw [sni, e1]
  · rw [sn3, e1]
  · rw [hh3, hh]

/-- a run on three replies that is not quiet passed all checks -/
theorem run3_allChecks (c : Cfg) (r1 r2 r3 : Bytes) (h : ¬ Quiet (run3 c r1 r2 r3)) : AllChecks c r1 r2 r3 := by
  unfold run3 at h
  cases h0 : marshalSend c.R (vReqPQ (fromBE c.d.nonce)) with
  | error a => exact absurd (by cases a <;> simp [h0, Quiet, Abort.toOutcome]) h
  | ok req1 =>
    simp only [h0] at h
    cases h1 : stage1 c r1 with
    | error a => exact absurd (by cases a <;> simp [h1, Quiet, Abort.toOutcome, Action.isSave, Action.isSendEnc]) h
    | ok s1 =>
      simp only [h1] at h
      cases h2 : stage2 c s1.serverNonce r2 with
      | error a => exact absurd (by cases a <;> simp [h2, Quiet, stAfter1, Abort.toOutcome, Action.isSave, Action.isSendEnc]) h
      | ok s2 =>
        simp only [h2] at h
        cases h3 : stage3 c s1.serverNonce s2.nonceHash1 r3 with
        | error a => exact absurd (by cases a <;> simp [h3, Quiet, stAfter2, Abort.toOutcome, Action.isSave, Action.isSendEnc]) h
        | ok u => exact allChecks_of_stages h1 h2 h3

/-- under `ClientSane`, a run on three replies ends with success or an error -/
theorem run3_result (c : Cfg) (hs : ClientSane c) (r1 r2 r3 : Bytes) :
    (run3 c r1 r2 r3).1.result = some (.ok ()) ∨ ∃ k, (run3 c r1 r2 r3).1.result = some (.err k) := by
  have hnonce : fromBE c.d.nonce < 256 ^ 16 := by have := fromBE_lt c.d.nonce; rwa [hs.nonce] at this
  obtain ⟨req1, h0⟩ := marshalSend_ok (marshal_reqPQ hs.reg _ hnonce)
  unfold run3
  simp only [h0]
  cases h1 : stage1 c r1 with
  | error a =>
    obtain ⟨k, rfl⟩ := stage1_error hs h1
    exact Or.inr ⟨k, rfl⟩
  | ok s1 =>
    simp only
    cases h2 : stage2 c s1.serverNonce r2 with
    | error a =>
      obtain ⟨k, rfl⟩ := stage2_error hs (stage1_serverNonce_lt h1) h2
      exact Or.inr ⟨k, rfl⟩
    | ok s2 =>
      simp only
      cases h3 : stage3 c s1.serverNonce s2.nonceHash1 r3 with
      | error a =>
        obtain ⟨k, rfl⟩ := stage3_error h3
        exact Or.inr ⟨k, rfl⟩
      | ok u => exact Or.inl rfl

theorem hsRun_short (c : Cfg) (replies : List Bytes) (h : replies.length < 3) : Quiet (hsRun c replies) := by
  match replies, h with
  | [], _ =>
    unfold hsRun hsStart
    cases marshalSend c.R (vReqPQ (fromBE c.d.nonce)) <;>
      simp [hsFeed, Quiet, finish, sendAction, Action.isSave, Action.isSendEnc, Abort.toOutcome]
    rename_i a; cases a <;> simp
  | [r1], _ =>
    unfold hsRun hsStart
    cases marshalSend c.R (vReqPQ (fromBE c.d.nonce)) with
    | error a =>
      cases a <;> simp [hsFeed, hsStep, Quiet, finish, Abort.toOutcome]
    | ok rq =>
      simp only [hsFeed, hsStep, sendAction]
      cases stage1 c r1 with
      | error a => cases a <;> simp [Quiet, finish, Action.isSave, Action.isSendEnc, Abort.toOutcome]
      | ok s1 => simp [Quiet, sendAction, Action.isSave, Action.isSendEnc]
  | [r1, r2], _ =>
    unfold hsRun hsStart
    cases marshalSend c.R (vReqPQ (fromBE c.d.nonce)) with
    | error a =>
      cases a <;> simp [hsFeed, hsStep, Quiet, finish, Abort.toOutcome]
    | ok rq =>
      simp only [hsFeed, hsStep, sendAction]
      cases stage1 c r1 with
      | error a => cases a <;> simp [Quiet, finish, hsStep, Action.isSave, Action.isSendEnc, Abort.toOutcome]
      | ok s1 =>
        simp only [sendAction]
        cases stage2 c s1.serverNonce r2 with
        | error a => cases a <;> simp [Quiet, finish, Action.isSave, Action.isSendEnc, Abort.toOutcome]
        | ok s2 => simp [Quiet, sendAction, Action.isSave, Action.isSendEnc]

end Mtv.Handshake
