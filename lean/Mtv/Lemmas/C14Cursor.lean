/-
  Lemmas about the cursor model (Mtv/Tlgen/Cursor.lean): what each cursor operation does when the
  runes in front of the cursor are known. `Cursor.atRem rev rem` is the cursor with `rev` behind it
  and `rem ≠ []` in front.
-/
import Mtv.Tlgen.Cursor
namespace Mtv.Tlgen
namespace Cursor

@[simp] theorem atRem_cons (rev : Str) (x : Char) (xs : Str) : atRem rev (x :: xs) = ⟨rev, x, xs⟩ := rfl

theorem eq_atRem (c : Cursor) : c = atRem c.rev (c.cur :: c.rest) := rfl

/-! ### index arithmetic of cursor.go, for the zipper representation -/

theorem source_length (c : Cursor) : c.source.length = c.pos + 1 + c.rest.length := by
  simp [source, pos]; omega

/-- `next()` fails exactly at `pos = len-1`, else `pos++`; the source is unchanged -/
theorem next_none_iff (c : Cursor) : c.next = none ↔ c.pos + 1 = c.source.length := by
  cases c with | mk rev cur rest =>
  cases rest <;> simp [next, source, pos]

theorem next_pos (c c' : Cursor) (h : c.next = some c') : c'.pos = c.pos + 1 ∧ c'.source = c.source := by
  cases c with | mk rev cur rest =>
  cases rest with
  | nil => simp [next] at h
  | cons r rs =>
    simp only [next, Option.some.injEq] at h
    subst h
    simp [pos, source]

/-- `Unread(n)`: `pos = max(pos - n, 0)` -/
theorem unread_pos (n : Nat) (c : Cursor) : (c.unread n).pos = c.pos - n ∧ (c.unread n).source = c.source := by
  induction n generalizing c with
  | zero => simp [unread]
  | succ n ih =>
    cases c with | mk rev cur rest =>
    cases rev with
    | nil => simp [unread, pos]
    | cons p ps =>
      simp only [unread]
      have := ih ⟨ps, p, cur :: rest⟩
      simp only [pos, source, List.length_cons, List.reverse_cons, List.append_assoc, List.cons_append,
        List.nil_append] at this ⊢
      constructor
      · omega
      · exact this.2

/-- `Skip(n)`: `pos = min(pos + n, len-1)` -/
theorem skip_pos (n : Nat) (c : Cursor) :
    (c.skip n).pos = min (c.pos + n) (c.source.length - 1) ∧ (c.skip n).source = c.source := by
  induction n generalizing c with
  | zero => simp [skip, source_length]
  | succ n ih =>
    cases c with | mk rev cur rest =>
    cases rest with
    | nil => simp [skip, pos, source]
    | cons r rs =>
      simp only [skip]
      have := ih ⟨cur :: rev, r, rs⟩
      simp only [pos, source, List.length_cons, List.reverse_cons, List.append_assoc, List.cons_append,
        List.nil_append, List.length_append, List.length_reverse] at this ⊢
      constructor
      · omega
      · exact this.2

/-! ### operations on a known text -/

theorem skip_append (w : Str) (rev : Str) (x : Char) (tl : Str) :
    skip w.length (atRem rev (w ++ x :: tl)) = atRem (w.reverse ++ rev) (x :: tl) := by
  induction w generalizing rev with
  | nil => simp [skip]
  | cons a w ih =>
    cases w with
    | nil => simp [skip]
    | cons b w =>
      have := ih (a :: rev)
      simp only [List.cons_append, atRem_cons, List.length_cons, skip] at this ⊢
      rw [this]; simp

theorem unread_rev (v : Str) (rev : Str) (x : Char) (tl : Str) :
    unread v.length (atRem (v ++ rev) (x :: tl)) = atRem rev (v.reverse ++ x :: tl) := by
  induction v generalizing x tl with
  | nil => simp [unread]
  | cons p ps ih =>
    have := ih p (x :: tl)
    simp only [atRem_cons, List.cons_append, List.length_cons, unread, List.reverse_cons,
      List.append_assoc, List.nil_append] at this ⊢
    exact this

theorem unread_append (w : Str) (rev : Str) (x : Char) (tl : Str) :
    unread w.length (atRem (w.reverse ++ rev) (x :: tl)) = atRem rev (w ++ x :: tl) := by
  have := unread_rev w.reverse rev x tl
  simpa using this

/-- one step forward over a known rune -/
theorem nextOrStay_cons (rev : Str) (a x : Char) (tl : Str) :
    nextOrStay (atRem rev (a :: x :: tl)) = atRem (a :: rev) (x :: tl) := rfl

theorem skipSpacesGo_space (rev : Str) (a x : Char) (tl : Str) (h : isSpace a = true) :
    skipSpacesGo rev a (x :: tl) = skipSpacesGo (a :: rev) x tl := by
  simp [skipSpacesGo, h]

theorem skipSpacesGo_nonspace (rev : Str) (a : Char) (tl : Str) (h : isSpace a = false) :
    skipSpacesGo rev a tl = ⟨rev, a, tl⟩ := by
  cases tl <;> simp [skipSpacesGo, h]

theorem skipSpaces_append (w : Str) (rev : Str) (x : Char) (tl : Str)
    (hw : ∀ c ∈ w, isSpace c = true) (hx : isSpace x = false) :
    skipSpaces (atRem rev (w ++ x :: tl)) = atRem (w.reverse ++ rev) (x :: tl) := by
  induction w generalizing rev with
  | nil => simp [skipSpaces, skipSpacesGo_nonspace _ _ _ hx]
  | cons a w ih =>
    have ha : isSpace a = true := hw a (by simp)
    have ih' := ih (a :: rev) (fun c hc => hw c (by simp [hc]))
    cases w with
    | nil =>
      simp only [List.cons_append, List.nil_append, atRem_cons, skipSpaces] at ih' ⊢
      rw [skipSpacesGo_space _ _ _ _ ha, ih']; simp
    | cons b w =>
      simp only [List.cons_append, atRem_cons, skipSpaces] at ih' ⊢
      rw [skipSpacesGo_space _ _ _ _ ha, ih']; simp

/-- `SkipSpaces` on a cursor that stands on a non-space rune does nothing -/
theorem skipSpaces_id (rev : Str) (x : Char) (tl : Str) (hx : isSpace x = false) :
    skipSpaces (atRem rev (x :: tl)) = atRem rev (x :: tl) := by
  simpa using skipSpaces_append [] rev x tl (by simp) hx

/-- `SkipSpaces` when only spaces are left: the cursor ends on the last rune -/
theorem skipSpaces_all (w : Str) (rev : Str) (x : Char)
    (hw : ∀ c ∈ w, isSpace c = true) :
    skipSpaces (atRem rev (w ++ [x])) = atRem (w.reverse ++ rev) [x] := by
  induction w generalizing rev with
  | nil => simp [skipSpaces, skipSpacesGo]
  | cons a w ih =>
    have ha : isSpace a = true := hw a (by simp)
    have ih' := ih (a :: rev) (fun c hc => hw c (by simp [hc]))
    cases w with
    | nil =>
      simp only [List.cons_append, List.nil_append, atRem_cons, skipSpaces] at ih' ⊢
      rw [skipSpacesGo_space _ _ _ _ ha, ih']; simp
    | cons b w =>
      simp only [List.cons_append, atRem_cons, skipSpaces] at ih' ⊢
      rw [skipSpacesGo_space _ _ _ _ ha, ih']; simp

theorem readAtGo_append (stop : Char) (w : Str) (acc rev : Str) (tl : Str) (hw : stop ∉ w) :
    ∀ cur rest, cur :: rest = w ++ stop :: tl →
      readAtGo stop acc rev cur rest = some (acc.reverse ++ w, atRem (w.reverse ++ rev) (stop :: tl)) := by
  induction w generalizing acc rev with
  | nil =>
    intro cur rest h
    simp only [List.nil_append, List.cons.injEq] at h
    obtain ⟨rfl, rfl⟩ := h
    cases rest <;> simp [readAtGo]
  | cons a w ih =>
    intro cur rest h
    simp only [List.cons_append, List.cons.injEq] at h
    obtain ⟨rfl, rfl⟩ := h
    have hne : cur ≠ stop := fun e => hw (by simp [e])
    have hw' : stop ∉ w := fun e => hw (by simp [e])
    cases hrest : w ++ stop :: tl with
    | nil => cases w <;> simp at hrest
    | cons r rs =>
      simp only [readAtGo, hne, if_false]
      rw [ih (cur :: acc) (cur :: rev) hw' r rs hrest.symm]
      simp

theorem readAt_append (stop : Char) (w : Str) (rev : Str) (tl : Str) (hw : stop ∉ w) :
    readAt stop (atRem rev (w ++ stop :: tl)) = some (w, atRem (w.reverse ++ rev) (stop :: tl)) := by
  cases h : w ++ stop :: tl with
  | nil => cases w <;> simp at h
  | cons c r =>
    simp only [atRem_cons, readAt]
    rw [readAtGo_append stop w [] rev tl hw c r h.symm]
    simp

/-- `ReadAt` fails (io.EOF) when the stop rune does not occur in what is left -/
theorem readAtGo_none (stop : Char) (acc rev : Str) (cur : Char) (rest : Str)
    (h : stop ∉ cur :: rest) : readAtGo stop acc rev cur rest = none := by
  induction rest generalizing acc rev cur with
  | nil => simp at h; simp [readAtGo, Ne.symm h]
  | cons r rs ih =>
    have hne : cur ≠ stop := fun e => h (by simp [e])
    simp only [readAtGo, hne, if_false]
    exact ih _ _ r (fun e => h (by simp only [List.mem_cons] at e ⊢; exact Or.inr e))

theorem readAt_none (stop : Char) (rev : Str) (x : Char) (tl : Str) (h : stop ∉ x :: tl) :
    readAt stop (atRem rev (x :: tl)) = none := readAtGo_none stop [] rev x tl h

theorem readDigitsGo_append (w : Str) (acc rev : Str) (x : Char) (tl : Str)
    (hw : ∀ c ∈ w, isDigit c = true) (hx : isDigit x = false) :
    ∀ cur rest, cur :: rest = w ++ x :: tl →
      readDigitsGo acc rev cur rest = some (acc.reverse ++ w, atRem (w.reverse ++ rev) (x :: tl)) := by
  induction w generalizing acc rev with
  | nil =>
    intro cur rest h
    simp only [List.nil_append, List.cons.injEq] at h
    obtain ⟨rfl, rfl⟩ := h
    cases rest <;> simp [readDigitsGo, hx]
  | cons a w ih =>
    intro cur rest h
    simp only [List.cons_append, List.cons.injEq] at h
    obtain ⟨rfl, rfl⟩ := h
    have ha : isDigit cur = true := hw cur (by simp)
    cases hrest : w ++ x :: tl with
    | nil => cases w <;> simp at hrest
    | cons r rs =>
      simp only [readDigitsGo, ha, if_true]
      rw [ih (cur :: acc) (cur :: rev) (fun c hc => hw c (by simp [hc])) r rs hrest.symm]
      simp

theorem readDigits_append (w : Str) (rev : Str) (x : Char) (tl : Str)
    (hw : ∀ c ∈ w, isDigit c = true) (hx : isDigit x = false) :
    readDigits (atRem rev (w ++ x :: tl)) = some (w, atRem (w.reverse ++ rev) (x :: tl)) := by
  cases h : w ++ x :: tl with
  | nil => cases w <;> simp at h
  | cons c r =>
    simp only [atRem_cons, readDigits]
    rw [readDigitsGo_append w [] rev x tl hw hx c r h.symm]
    simp

/-- `IsNext(s)` when `s` is in front and at least one more rune follows: true, cursor behind `s` -/
theorem isNextGo_true (s : Str) (c0 : Cursor) (rev : Str) (x : Char) (tl : Str) :
    isNextGo s c0 (atRem rev (s ++ x :: tl)) = (true, atRem (s.reverse ++ rev) (x :: tl)) := by
  induction s generalizing rev with
  | nil => simp [isNextGo]
  | cons e es ih =>
    have h : (atRem rev ((e :: es) ++ x :: tl)).nextOrStay = atRem (e :: rev) (es ++ x :: tl) := by
      cases es <;> rfl
    simp only [isNextGo]
    rw [if_pos (by simp), h, ih]
    simp

theorem isNext_true (s : Str) (rev : Str) (x : Char) (tl : Str) :
    isNext s (atRem rev (s ++ x :: tl)) = (true, atRem (s.reverse ++ rev) (x :: tl)) :=
  isNextGo_true s _ rev x tl

/-- `IsNext(s)` when the text agrees with `s` on `p` and then differs (with the differing rune
present in the text): false, and the cursor is back where it started. -/
theorem isNextGo_mismatch (p : Str) (y : Char) (s' : Str) (x : Char) (tl : Str) (hxy : x ≠ y)
    (c0 : Cursor) (rev : Str) :
    isNextGo (p ++ y :: s') c0 (atRem rev (p ++ x :: tl)) = (false, c0) := by
  induction p generalizing rev with
  | nil => simp [isNextGo, hxy]
  | cons a p ih =>
    have h : (atRem rev ((a :: p) ++ x :: tl)).nextOrStay = atRem (a :: rev) (p ++ x :: tl) := by
      cases p <;> rfl
    simp only [List.cons_append, isNextGo]
    rw [if_pos (by simp)]
    have h' := h
    simp only [List.cons_append] at h'
    rw [h', ih]

theorem isNext_mismatch (p : Str) (y : Char) (s' : Str) (x : Char) (tl : Str) (hxy : x ≠ y) (rev : Str) :
    isNext (p ++ y :: s') (atRem rev (p ++ x :: tl)) = (false, atRem rev (p ++ x :: tl)) :=
  isNextGo_mismatch p y s' x tl hxy _ rev

/-- the first rune already differs -/
theorem isNext_head_ne (e : Char) (es : Str) (x : Char) (tl : Str) (h : x ≠ e) (rev : Str) :
    isNext (e :: es) (atRem rev (x :: tl)) = (false, atRem rev (x :: tl)) := by
  simpa using isNext_mismatch [] e es x tl h rev

theorem exists_mismatch_token (s ty : Str) (sep : Char) (tl : Str) (hp : ¬ s <+: ty) (hsep : sep ∉ s) :
    ∃ p y s' x tl', s = p ++ y :: s' ∧ ty ++ sep :: tl = p ++ x :: tl' ∧ x ≠ y := by
  induction s generalizing ty with
  | nil => exact absurd (List.nil_prefix) hp
  | cons a s ih =>
    have ha : sep ≠ a := fun e => hsep (by simp [e])
    cases ty with
    | nil => exact ⟨[], a, s, sep, tl, by simp, by simp, ha⟩
    | cons b ty =>
      by_cases hab : b = a
      · subst hab
        have h' : ¬ s <+: ty := fun hpre => hp (by simpa using hpre)
        obtain ⟨p, y, s', x, tl', hs, ht, hne⟩ := ih ty h' (fun e => hsep (by simp [e]))
        exact ⟨b :: p, y, s', x, tl', by simp [hs], by simp [ht], hne⟩
      · exact ⟨[], a, s, b, ty ++ sep :: tl, by simp, by simp, hab⟩

/-- `IsNext(s)` on a token `ty` that does not start with `s`, followed by a separator that does not
occur in `s`: false, cursor unchanged. -/
theorem isNext_token (s ty : Str) (sep : Char) (tl : Str) (rev : Str)
    (hp : ¬ s <+: ty) (hsep : sep ∉ s) :
    isNext s (atRem rev (ty ++ sep :: tl)) = (false, atRem rev (ty ++ sep :: tl)) := by
  obtain ⟨p, y, s', x, tl', hs, ht, hne⟩ := exists_mismatch_token s ty sep tl hp hsep
  rw [hs, ht]
  exact isNext_mismatch p y s' x tl' hne rev

/-! ### the same with "something follows" stated as `rem ≠ []` -/

theorem skip_one (rev : Str) (a : Char) (rem : Str) (h : rem ≠ []) :
    skip 1 (atRem rev (a :: rem)) = atRem (a :: rev) rem := by
  cases rem with
  | nil => exact absurd rfl h
  | cons x tl => rfl

theorem skip_two (rev : Str) (a b : Char) (rem : Str) (h : rem ≠ []) :
    skip 2 (atRem rev (a :: b :: rem)) = atRem (b :: a :: rev) rem := by
  cases rem with
  | nil => exact absurd rfl h
  | cons x tl => rfl

theorem isNext_true' (s : Str) (rev : Str) (rem : Str) (h : rem ≠ []) :
    isNext s (atRem rev (s ++ rem)) = (true, atRem (s.reverse ++ rev) rem) := by
  cases rem with
  | nil => exact absurd rfl h
  | cons x tl => exact isNext_true s rev x tl

theorem skipSpaces_head (rev : Str) (rem : Str) (x : Char) (h : rem.head? = some x) (hx : isSpace x = false) :
    skipSpaces (atRem rev rem) = atRem rev rem := by
  cases rem with
  | nil => simp at h
  | cons y tl =>
    simp only [List.head?_cons, Option.some.injEq] at h
    subst h
    exact skipSpaces_id rev y tl hx

theorem isNext_head_ne' (e : Char) (es : Str) (rem : Str) (x : Char) (h : rem.head? = some x) (hne : x ≠ e)
    (rev : Str) : isNext (e :: es) (atRem rev rem) = (false, atRem rev rem) := by
  cases rem with
  | nil => simp at h
  | cons y tl =>
    simp only [List.head?_cons, Option.some.injEq] at h
    subst h
    exact isNext_head_ne e es y tl hne rev

end Cursor
end Mtv.Tlgen
