/-
  The parser model on rendered text: `parseParam`, the parameter loop and `parseDefinition` read a
  rendered definition back exactly (Mtv/Tlgen/Parser.lean against Mtv/Tlgen/Render.lean).
-/
import Mtv.Lemmas.C14Cursor
import Mtv.Lemmas.C14Digits
namespace Mtv.Tlgen
open Cursor

/-! ### what the well-formedness predicates give -/

theorem nameChar_facts {c : Char} (h : nameChar c = true) :
    isSpace c = false ∧ c ≠ '#' ∧ c ≠ ':' ∧ c ≠ '=' ∧ c ≠ '/' ∧ c ≠ '-' := by
  simp only [nameChar, Bool.and_eq_true, Bool.not_eq_true', bne_iff_ne, ne_eq] at h
  obtain ⟨⟨⟨⟨⟨h1, h2⟩, h3⟩, h4⟩, h5⟩, h6⟩ := h
  exact ⟨h1, h2, h3, h4, h5, h6⟩

theorem typeChar_facts {c : Char} (h : typeChar c = true) : isSpace c = false ∧ c ≠ '>' ∧ c ≠ ';' := by
  simp only [typeChar, Bool.and_eq_true, Bool.not_eq_true', bne_iff_ne, ne_eq] at h
  obtain ⟨⟨h1, h2⟩, h3⟩ := h
  exact ⟨h1, h2, h3⟩

theorem isSpace_blank : isSpace ' ' = true := by decide
theorem isSpace_nl : isSpace '\n' = true := by decide

theorem NameOk.head {s : Str} (h : NameOk s) :
    ∃ a s', s = a :: s' ∧ isSpace a = false ∧ a ≠ '=' ∧ a ≠ '/' ∧ a ≠ '-' := by
  obtain ⟨hne, hc⟩ := h
  cases s with
  | nil => exact absurd rfl hne
  | cons a s' =>
    have := nameChar_facts (hc a (by simp))
    exact ⟨a, s', rfl, this.1, this.2.2.2.1, this.2.2.2.2.1, this.2.2.2.2.2⟩

theorem NameOk.not_mem {s : Str} (h : NameOk s) : ':' ∉ s ∧ '#' ∉ s ∧ ' ' ∉ s := by
  refine ⟨fun hm => ?_, fun hm => ?_, fun hm => ?_⟩
  · exact (nameChar_facts (h.2 _ hm)).2.2.1 rfl
  · exact (nameChar_facts (h.2 _ hm)).2.1 rfl
  · have := (nameChar_facts (h.2 _ hm)).1; rw [isSpace_blank] at this; cases this

theorem TypeOk.not_mem {s : Str} (h : TypeOk s) : ' ' ∉ s ∧ '>' ∉ s ∧ ';' ∉ s := by
  refine ⟨fun hm => ?_, fun hm => ?_, fun hm => ?_⟩
  · have := (typeChar_facts (h.2 _ hm)).1; rw [isSpace_blank] at this; cases this
  · exact (typeChar_facts (h.2 _ hm)).2.1 rfl
  · exact (typeChar_facts (h.2 _ hm)).2.2 rfl

theorem TypeOk.head {s : Str} (h : TypeOk s) : ∃ a s', s = a :: s' ∧ isSpace a = false := by
  obtain ⟨hne, hc⟩ := h
  cases s with
  | nil => exact absurd rfl hne
  | cons a s' => exact ⟨a, s', rfl, (typeChar_facts (hc a (by simp))).1⟩

/-! ### parseParam -/

/-- what `parseParam` returns for a rendered parameter: the parameter with its type as written
(the rewriting of `flags:#` to `bitflags` happens in the loop of `parseDefinition`) -/
def Param.asRead (p : Param) : Param := { p with type := tyText p.type }

def renderType (t : Str) (vec : Bool) : Str := if vec then kwVectorLt ++ t ++ ['>'] else t

theorem kwVectorLt_eq : kwVectorLt = kwVector ++ ['<'] := by decide

theorem parseParamType_render (name : Str) (isOpt : Bool) (bit : Nat) (t : Str) (vec : Bool)
    (ht : TypeOk t) (hv : vec = false → ¬ kwVector <+: t) (R tl : Str) :
    parseParamType name isOpt bit (atRem R (renderType t vec ++ ' ' :: tl)) =
      .ok { name, type := t, isVector := vec, isOptional := isOpt, bit }
        (atRem ((renderType t vec).reverse ++ R) (' ' :: tl)) := by
  obtain ⟨hsp, hgt, -⟩ := ht.not_mem
  cases vec with
  | false =>
    simp only [renderType, Bool.false_eq_true, if_false]
    obtain ⟨c2, hc2⟩ : ∃ c, c = atRem R (t ++ ' ' :: tl) := ⟨_, rfl⟩
    obtain ⟨c3, hc3⟩ : ∃ c, c = atRem (t.reverse ++ R) (' ' :: tl) := ⟨_, rfl⟩
    have h5 : c2.isNext kwVector = (false, c2) := by
      rw [hc2]; exact isNext_token kwVector _ ' ' tl _ (hv rfl) (by decide)
    have h6 : c2.readAt ' ' = some (t, c3) := by
      rw [hc2, hc3]; exact readAt_append ' ' _ _ tl hsp
    rw [← hc2, ← hc3]
    simp only [parseParamType, h5, h6, Bool.false_eq_true, if_false]
  | true =>
    simp only [renderType, if_true, kwVectorLt_eq, List.append_assoc, List.cons_append, List.nil_append]
    obtain ⟨c2, hc2⟩ : ∃ c, c = atRem R (kwVector ++ '<' :: (t ++ '>' :: ' ' :: tl)) := ⟨_, rfl⟩
    obtain ⟨c3, hc3⟩ : ∃ c, c = atRem (kwVector.reverse ++ R) ('<' :: (t ++ '>' :: ' ' :: tl)) := ⟨_, rfl⟩
    obtain ⟨c4, hc4⟩ : ∃ c, c = atRem ('<' :: (kwVector.reverse ++ R)) (t ++ '>' :: ' ' :: tl) := ⟨_, rfl⟩
    obtain ⟨c5, hc5⟩ : ∃ c, c = atRem (t.reverse ++ ('<' :: (kwVector.reverse ++ R))) ('>' :: ' ' :: tl) := ⟨_, rfl⟩
    obtain ⟨c6, hc6⟩ : ∃ c, c = atRem ('>' :: (t.reverse ++ ('<' :: (kwVector.reverse ++ R)))) (' ' :: tl) := ⟨_, rfl⟩
    have h5 : c2.isNext kwVector = (true, c3) := by
      rw [hc2, hc3]; exact isNext_true' kwVector _ _ (by simp)
    have h6 : c3.skip 1 = c4 := by
      rw [hc3, hc4]; exact skip_one _ _ _ (by simp)
    have h7 : c4.readAt '>' = some (t, c5) := by
      rw [hc4, hc5]; exact readAt_append '>' _ _ _ hgt
    have h8 : c5.skip 1 = c6 := by
      rw [hc5, hc6]; exact skip_one _ _ _ (by simp)
    rw [← hc2]
    simp only [parseParamType, h5, h6, h7, h8, if_true]
    rw [hc6]
    simp

theorem renderParam_eq (p : Param) :
    renderParam p = p.name ++ ':' ::
      ((if p.isOptional then kwFlags ++ natToDigits 10 p.bit ++ ['?'] else []) ++ renderType (tyText p.type) p.isVector) := by
  simp [renderParam, renderType]

theorem parseParam_render (p : Param) (wf : WFParam p) (rev tl : Str) :
    parseParam (atRem rev (renderParam p ++ ' ' :: tl)) =
      .ok p.asRead (atRem ((renderParam p).reverse ++ rev) (' ' :: tl)) := by
  obtain ⟨a, n', hn, ha, -, -, -⟩ := wf.name_ok.head
  have hcolon : ':' ∉ p.name := wf.name_ok.not_mem.1
  have hcomment := wf.no_comment
  obtain ⟨ty, hty⟩ : ∃ ty, ty = renderType (tyText p.type) p.isVector := ⟨_, rfl⟩
  have htyne : ty ≠ [] := by
    rw [hty, renderType]; split
    · simp
    · exact wf.type_ok.1
  -- the text behind "name:"
  obtain ⟨body, hbody⟩ : ∃ body, body =
      (if p.isOptional then kwFlags ++ natToDigits 10 p.bit ++ ['?'] else []) ++ (ty ++ ' ' :: tl) := ⟨_, rfl⟩
  have htext : renderParam p ++ ' ' :: tl = p.name ++ ':' :: body := by
    rw [renderParam_eq, hbody, hty]; simp
  have hbne : body ≠ [] := by
    rw [hbody]; simp
  obtain ⟨c0, hc0⟩ : ∃ c, c = atRem rev (p.name ++ ':' :: body) := ⟨_, rfl⟩
  obtain ⟨c1, hc1⟩ : ∃ c, c = atRem (p.name.reverse ++ rev) (':' :: body) := ⟨_, rfl⟩
  obtain ⟨c2, hc2⟩ : ∃ c, c = atRem (':' :: (p.name.reverse ++ rev)) body := ⟨_, rfl⟩
  have h1 : c0.skipSpaces = c0 := by
    rw [hc0]; exact skipSpaces_head _ _ a (by simp [hn]) ha
  have h2 : c0.readAt ':' = some (p.name, c1) := by
    rw [hc0, hc1]; exact readAt_append ':' p.name rev body hcolon
  have h3 : c1.skip 1 = c2 := by
    rw [hc1, hc2]; exact skip_one _ _ _ hbne
  rw [htext, ← hc0]
  have hres : ∀ (isOpt : Bool) (bit : Nat), isOpt = p.isOptional → bit = p.bit →
      ({ name := p.name, type := tyText p.type, isVector := p.isVector, isOptional := isOpt, bit := bit } : Param)
        = p.asRead := by
    intro isOpt bit h1 h2; subst h1 h2; cases p; simp_all [Param.asRead]
  cases hopt : p.isOptional with
  | false =>
    have hbit : p.bit = 0 := wf.bit_zero hopt
    simp only [hopt, Bool.false_eq_true, if_false, List.nil_append] at hbody
    have h4 : c2.isNext kwFlags = (false, c2) := by
      rw [hc2, hbody, hty]
      cases hvec : p.isVector with
      | false =>
        simp only [renderType, Bool.false_eq_true, if_false]
        exact isNext_token kwFlags _ ' ' tl _ (wf.no_flags_prefix hopt hvec) (by decide)
      | true =>
        simp only [renderType, if_true, kwVectorLt_eq, List.append_assoc]
        exact isNext_head_ne' 'f' _ _ 'V' (by rw [show kwVector = 'V' :: ['e','c','t','o','r'] from rfl]; rfl) (by decide) _
    simp only [parseParam, h1, h2, h3, h4, Bool.false_eq_true, if_false]
    rw [hc2, hbody, hty, parseParamType_render _ _ _ _ _ wf.type_ok wf.no_vector_prefix]
    rw [hres false 0 hopt.symm hbit.symm]
    congr 1
    rw [renderParam_eq, hopt]; simp
  | true =>
    simp only [hopt, if_true, List.append_assoc, List.cons_append, List.nil_append] at hbody
    obtain ⟨R3, hR3⟩ : ∃ R, R = kwFlags.reverse ++ (':' :: (p.name.reverse ++ rev)) := ⟨_, rfl⟩
    obtain ⟨c3, hc3⟩ : ∃ c, c = atRem R3 (natToDigits 10 p.bit ++ '?' :: (ty ++ ' ' :: tl)) := ⟨_, rfl⟩
    obtain ⟨c4, hc4⟩ : ∃ c, c = atRem ((natToDigits 10 p.bit).reverse ++ R3) ('?' :: (ty ++ ' ' :: tl)) := ⟨_, rfl⟩
    obtain ⟨c5, hc5⟩ : ∃ c, c = atRem ('?' :: ((natToDigits 10 p.bit).reverse ++ R3)) (ty ++ ' ' :: tl) := ⟨_, rfl⟩
    have h4 : c2.isNext kwFlags = (true, c3) := by
      rw [hc2, hc3, hbody, hR3]; exact isNext_true' kwFlags _ _ (by simp)
    have h5 : c3.readDigits = some (natToDigits 10 p.bit, c4) := by
      rw [hc3, hc4]; exact readDigits_append _ _ '?' _ (natToDigits10_isDigit _) (by decide)
    have h6 : atoi? (natToDigits 10 p.bit) = some p.bit := atoi_natToDigits _ wf.bit_lt
    have h7 : c4.isNext kwQuestion = (true, c5) := by
      rw [hc4, hc5]
      exact isNext_true' kwQuestion _ _ (by simp)
    simp only [parseParam, h1, h2, h3, h4, h5, h6, h7, if_true]
    rw [hc5, hty, parseParamType_render _ _ _ _ _ wf.type_ok wf.no_vector_prefix]
    rw [hres true p.bit hopt.symm rfl]
    congr 1
    rw [renderParam_eq, hopt, hR3]; simp

/-! ### the parameter loop -/

/-- the rewriting of the `flags:#` word done by `parseDefinition` restores the parameter -/
theorem flagsRewrite_asRead (p : Param) (wf : WFParam p) :
    (if p.asRead.name = kwFlagsWord ∧ p.asRead.type = kwHash then { p.asRead with type := kwBitflags } else p.asRead) = p := by
  by_cases hb : p.type = kwBitflags
  · have hn := wf.flags_word hb
    have : p.asRead.name = kwFlagsWord ∧ p.asRead.type = kwHash := by
      simp [Param.asRead, tyText, hb, hn]
    rw [if_pos this]
    cases p; simp_all [Param.asRead]
  · have : ¬ (p.asRead.name = kwFlagsWord ∧ p.asRead.type = kwHash) := by
      simp only [Param.asRead, tyText, hb, if_false]
      exact wf.not_hash
    rw [if_neg this]
    cases p; simp_all [Param.asRead, tyText]

theorem renderParam_head (p : Param) (wf : WFParam p) (tl : Str) :
    ∃ x r, renderParam p ++ tl = x :: r ∧ isSpace x = false ∧ x ≠ '=' := by
  obtain ⟨a, n', hn, ha, hne, -, -⟩ := wf.name_ok.head
  refine ⟨a, n' ++ (renderParam p ++ tl).drop p.name.length, ?_, ha, hne⟩
  rw [renderParam, hn]; simp

theorem renderParams_head (ps : List Param) (wf : ∀ p ∈ ps, WFParam p) (tl : Str) :
    ∃ x r, renderParams ps ++ '=' :: tl = x :: r ∧ isSpace x = false := by
  cases ps with
  | nil => exact ⟨'=', tl, by simp [renderParams], by decide⟩
  | cons p ps =>
    obtain ⟨x, r, h, hx, -⟩ := renderParam_head p (wf p (by simp)) (' ' :: (renderParams ps ++ '=' :: tl))
    exact ⟨x, r, by simp only [renderParams, List.append_assoc, List.cons_append]; exact h, hx⟩

theorem parseParams_render (ps : List Param) (wf : ∀ p ∈ ps, WFParam p) :
    ∀ (fuel : Nat), ps.length < fuel → ∀ (rev tl : Str) (acc : List Param), tl ≠ [] →
      parseParams fuel (atRem rev (renderParams ps ++ '=' :: tl)) acc =
        .ok (acc.reverse ++ ps) (atRem ('=' :: ((renderParams ps).reverse ++ rev)) tl) := by
  induction ps with
  | nil =>
    intro fuel hf rev tl acc htl
    cases fuel with
    | zero => simp at hf
    | succ fuel =>
      have h : (atRem rev ('=' :: tl)).isNext kwEq = (true, atRem ('=' :: rev) tl) :=
        isNext_true' kwEq rev tl htl
      simp only [renderParams, List.nil_append, parseParams, h, if_true]
      simp
  | cons p ps ih =>
    intro fuel hf rev tl acc htl
    cases fuel with
    | zero => simp at hf
    | succ fuel =>
      have wfp := wf p (by simp)
      obtain ⟨rest, hrest⟩ : ∃ r, r = renderParams ps ++ '=' :: tl := ⟨_, rfl⟩
      have htext : renderParams (p :: ps) ++ '=' :: tl = renderParam p ++ ' ' :: rest := by
        simp [renderParams, hrest]
      obtain ⟨x, r, hx, hxs, hxe⟩ := renderParam_head p wfp (' ' :: rest)
      obtain ⟨y, r', hy, hys⟩ := renderParams_head ps (fun q hq => wf q (by simp [hq])) tl
      obtain ⟨c0, hc0⟩ : ∃ c, c = atRem rev (renderParam p ++ ' ' :: rest) := ⟨_, rfl⟩
      obtain ⟨c1, hc1⟩ : ∃ c, c = atRem ((renderParam p).reverse ++ rev) (' ' :: rest) := ⟨_, rfl⟩
      obtain ⟨c2, hc2⟩ : ∃ c, c = atRem (' ' :: ((renderParam p).reverse ++ rev)) rest := ⟨_, rfl⟩
      have h1 : c0.isNext kwEq = (false, c0) := by
        rw [hc0]; exact isNext_head_ne' '=' [] _ x (by rw [hx]; rfl) hxe _
      have h2 : parseParam c0 = .ok p.asRead c1 := by
        rw [hc0, hc1]; exact parseParam_render p wfp rev rest
      have h3 : c1.skipSpaces = c2 := by
        rw [hc1, hc2, hrest, hy]
        have := skipSpaces_append [' '] ((renderParam p).reverse ++ rev) y r' (by simp [isSpace_blank]) hys
        simpa using this
      rw [htext, ← hc0]
      simp only [parseParams, h1, h2, h3, Bool.false_eq_true, if_false]
      rw [flagsRewrite_asRead p wfp, hc2, hrest]
      rw [ih (fun q hq => wf q (by simp [hq])) fuel (by simp at hf; omega) _ tl _ htl]
      simp [renderParams]

theorem renderParams_length (ps : List Param) : ps.length ≤ (renderParams ps).length := by
  induction ps with
  | nil => simp [renderParams]
  | cons p ps ih => simp only [renderParams, List.length_append, List.length_cons]; omega

/-! ### the result type -/

theorem kwGtSemi_eq : kwGtSemi = ['>', ';'] := by decide

theorem parseResult_render (t : Str) (vec : Bool) (ht : TypeOk t) (hv : vec = false → ¬ kwVector <+: t)
    (R : Str) (x : Char) (tl : Str) :
    parseResult (atRem R (renderResult t vec ++ x :: tl)) =
      some (t, vec, atRem ((renderResult t vec).reverse ++ R) (x :: tl)) := by
  obtain ⟨-, hgt, hsemi⟩ := ht.not_mem
  cases vec with
  | false =>
    simp only [renderResult, Bool.false_eq_true, if_false, List.append_assoc, List.cons_append, List.nil_append]
    obtain ⟨c2, hc2⟩ : ∃ c, c = atRem R (t ++ ';' :: x :: tl) := ⟨_, rfl⟩
    obtain ⟨c3, hc3⟩ : ∃ c, c = atRem (t.reverse ++ R) (';' :: x :: tl) := ⟨_, rfl⟩
    have h5 : c2.isNext kwVector = (false, c2) := by
      rw [hc2]; exact isNext_token kwVector _ ';' _ _ (hv rfl) (by decide)
    have h6 : c2.readAt ';' = some (t, c3) := by
      rw [hc2, hc3]; exact readAt_append ';' _ _ _ hsemi
    have h7 : c3.skip 1 = atRem (';' :: (t.reverse ++ R)) (x :: tl) := by
      rw [hc3]; exact skip_one _ _ _ (by simp)
    rw [← hc2]
    simp only [parseResult, h5, h6, h7, Bool.false_eq_true, if_false]
    simp
  | true =>
    simp only [renderResult, if_true, kwVectorLt_eq, kwGtSemi_eq, List.append_assoc, List.cons_append, List.nil_append]
    obtain ⟨c2, hc2⟩ : ∃ c, c = atRem R (kwVector ++ '<' :: (t ++ '>' :: ';' :: x :: tl)) := ⟨_, rfl⟩
    obtain ⟨c3, hc3⟩ : ∃ c, c = atRem (kwVector.reverse ++ R) ('<' :: (t ++ '>' :: ';' :: x :: tl)) := ⟨_, rfl⟩
    obtain ⟨c4, hc4⟩ : ∃ c, c = atRem ('<' :: (kwVector.reverse ++ R)) (t ++ '>' :: ';' :: x :: tl) := ⟨_, rfl⟩
    obtain ⟨c5, hc5⟩ : ∃ c, c = atRem (t.reverse ++ ('<' :: (kwVector.reverse ++ R))) ('>' :: ';' :: x :: tl) := ⟨_, rfl⟩
    have h5 : c2.isNext kwVector = (true, c3) := by
      rw [hc2, hc3]; exact isNext_true' kwVector _ _ (by simp)
    have h6 : c3.skip 1 = c4 := by
      rw [hc3, hc4]; exact skip_one _ _ _ (by simp)
    have h7 : c4.readAt '>' = some (t, c5) := by
      rw [hc4, hc5]; exact readAt_append '>' _ _ _ hgt
    have h8 : c5.skip 2 = atRem (';' :: '>' :: (t.reverse ++ ('<' :: (kwVector.reverse ++ R)))) (x :: tl) := by
      rw [hc5]; exact skip_two _ _ _ _ (by simp)
    rw [← hc2]
    simp only [parseResult, h5, h6, h7, h8, if_true]
    simp

/-! ### parseDefinition -/

theorem not_excludedType_of_hash (w : Str) (h : '#' ∈ w) : excludedTypes.contains w = false := by
  have : ∀ e ∈ excludedTypes, '#' ∉ e := by decide
  cases hc : excludedTypes.contains w with
  | false => rfl
  | true =>
    have hm : w ∈ excludedTypes := by simpa using hc
    exact absurd h (this w hm)

theorem parseDefinition_render (d : Def) (wf : WFDef d) (rev : Str) (x : Char) (tl : Str) :
    parseDefinition (atRem rev (renderDef d ++ x :: tl)) =
      .ok d (atRem ((renderDef d).reverse ++ rev) (x :: tl)) := by
  obtain ⟨a, n', hn, ha, -, -, -⟩ := wf.name_ok.head
  obtain ⟨-, hhash, hnsp⟩ := wf.name_ok.not_mem
  obtain ⟨hex, hhex⟩ : ∃ h, h = natToDigits 16 d.crc := ⟨_, rfl⟩
  have hhexne : hex ≠ [] := by rw [hhex]; exact natToDigits_ne_nil _ _
  have hhexsp : ' ' ∉ hex := by rw [hhex]; exact natToDigits16_no_space _
  obtain ⟨res, hres⟩ : ∃ r, r = renderResult d.eqType d.isEqVector ++ x :: tl := ⟨_, rfl⟩
  obtain ⟨rest1, hrest1⟩ : ∃ r, r = renderParams d.params ++ '=' :: (' ' :: res) := ⟨_, rfl⟩
  obtain ⟨word, hword⟩ : ∃ w, w = d.name ++ '#' :: hex := ⟨_, rfl⟩
  have htext : renderDef d ++ x :: tl = word ++ ' ' :: rest1 := by
    simp [renderDef, hword, hrest1, hres, hhex]
  have hwsp : ' ' ∉ word := by
    rw [hword]; simp only [List.mem_append, List.mem_cons, not_or]
    exact ⟨hnsp, by decide, hhexsp⟩
  obtain ⟨y, r', hy, hys⟩ := renderParams_head d.params wf.params_ok (' ' :: res)
  rw [← hrest1] at hy
  obtain ⟨c0, hc0⟩ : ∃ c, c = atRem rev (word ++ ' ' :: rest1) := ⟨_, rfl⟩
  obtain ⟨cW, hcW⟩ : ∃ c, c = atRem (word.reverse ++ rev) (' ' :: rest1) := ⟨_, rfl⟩
  obtain ⟨c1, hc1⟩ : ∃ c, c = atRem (d.name.reverse ++ rev) ('#' :: (hex ++ ' ' :: rest1)) := ⟨_, rfl⟩
  obtain ⟨c2, hc2⟩ : ∃ c, c = atRem ('#' :: (d.name.reverse ++ rev)) (hex ++ ' ' :: rest1) := ⟨_, rfl⟩
  obtain ⟨c3, hc3⟩ : ∃ c, c = atRem (hex.reverse ++ ('#' :: (d.name.reverse ++ rev))) (' ' :: rest1) := ⟨_, rfl⟩
  obtain ⟨R4, hR4⟩ : ∃ R, R = ' ' :: (hex.reverse ++ ('#' :: (d.name.reverse ++ rev))) := ⟨_, rfl⟩
  obtain ⟨c4, hc4⟩ : ∃ c, c = atRem R4 rest1 := ⟨_, rfl⟩
  obtain ⟨c5, hc5⟩ : ∃ c, c = atRem ('=' :: ((renderParams d.params).reverse ++ R4)) (' ' :: res) := ⟨_, rfl⟩
  obtain ⟨c6, hc6⟩ : ∃ c, c = atRem (' ' :: ('=' :: ((renderParams d.params).reverse ++ R4))) res := ⟨_, rfl⟩
  have hc0' : c0 = atRem rev (d.name ++ '#' :: (hex ++ ' ' :: rest1)) := by
    rw [hc0, hword]; simp
  have h1 : c0.skipSpaces = c0 := by
    rw [hc0, hword]; exact skipSpaces_head _ _ a (by simp [hn]) ha
  have h2 : c0.readAt ' ' = some (word, cW) := by
    rw [hc0, hcW]; exact readAt_append ' ' word rev rest1 hwsp
  have h3 : excludedTypes.contains word = false :=
    not_excludedType_of_hash word (by rw [hword]; simp)
  have h4 : cW.unread word.length = c0 := by
    rw [hcW, hc0]; exact unread_append word rev ' ' rest1
  have h5 : c0.readAt '#' = some (d.name, c1) := by
    rw [hc0', hc1]; exact readAt_append '#' d.name rev _ hhash
  have h6 : excludedDefinitions.contains d.name = false := by
    cases hc : excludedDefinitions.contains d.name with
    | false => rfl
    | true => exact absurd (by simpa using hc) wf.not_excluded
  have h7 : c1.skip 1 = c2 := by
    rw [hc1, hc2]; exact skip_one _ _ _ (by simp)
  have h8 : c2.readAt ' ' = some (hex, c3) := by
    rw [hc2, hc3]; exact readAt_append ' ' hex _ rest1 hhexsp
  have h9 : c3.skipSpaces = c4 := by
    rw [hc3, hc4, hR4, hy]
    have := skipSpaces_append [' '] (hex.reverse ++ ('#' :: (d.name.reverse ++ rev))) y r' (by simp [isSpace_blank]) hys
    simpa using this
  have hfuel : d.params.length < c4.rest.length + 2 := by
    have hl := renderParams_length d.params
    have : c4.rest.length + 1 = rest1.length := by rw [hc4, hy]; simp
    have : (renderParams d.params).length ≤ rest1.length := by rw [hrest1]; simp
    omega
  have h10 : parseParams (c4.rest.length + 2) c4 [] = .ok d.params c5 := by
    rw [hc4, hc5, hrest1]
    have := parseParams_render d.params wf.params_ok (c4.rest.length + 2) hfuel R4 (' ' :: res) [] (by simp)
    rw [hc4, hrest1] at this
    simpa using this
  obtain ⟨b, t', hb, hbs⟩ := wf.result_ok.head
  have hreshead : ∃ z r, res = z :: r ∧ isSpace z = false := by
    rw [hres, renderResult]
    split
    · exact ⟨'V', _, by rw [kwVectorLt_eq, show kwVector = 'V' :: ['e','c','t','o','r'] from rfl]; simp; rfl, by decide⟩
    · exact ⟨b, t' ++ ';' :: x :: tl, by rw [hb]; simp, hbs⟩
  obtain ⟨z, rz, hz, hzs⟩ := hreshead
  have h11 : c5.skipSpaces = c6 := by
    rw [hc5, hc6, hz]
    have := skipSpaces_append [' '] ('=' :: ((renderParams d.params).reverse ++ R4)) z rz (by simp [isSpace_blank]) hzs
    simpa using this
  have h12 : parseResult c6 = some (d.eqType, d.isEqVector,
      atRem ((renderResult d.eqType d.isEqVector).reverse ++ (' ' :: ('=' :: ((renderParams d.params).reverse ++ R4)))) (x :: tl)) := by
    rw [hc6, hres]; exact parseResult_render _ _ wf.result_ok wf.no_vector_prefix _ _ _
  have h13 : parseHex32? hex = some d.crc := by rw [hhex]; exact parseHex32_natToDigits _ wf.crc_lt
  rw [htext, ← hc0]
  simp only [parseDefinition, h1, h2, h3, h4, h5, h6, h7, h8, h9, h10, h11, h12, h13, Bool.false_eq_true, if_false]
  congr 1
  rw [hR4, renderDef, ← hhex]
  simp

end Mtv.Tlgen
