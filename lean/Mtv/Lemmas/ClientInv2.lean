/-
  More invariants of the client machine: one call in progress per caller (C11: an accepted request is
  never sent twice), request ids are distinct (C09), adopted salts are saved in order (C11).
-/
import Mtv.Lemmas.ClientInv
namespace Mtv.Client

/-! ### counting the places where a caller is "in progress" -/

def cntP (c : Nat) : List (Nat × Nat) → Nat
  | [] => 0
  | e :: p => (if e.2 == c then 1 else 0) + cntP c p
def cntD (c : Nat) : List (Nat × Nat × String) → Nat
  | [] => 0
  | e :: d => (if e.1 == c then 1 else 0) + cntD c d
def cntR (c : Nat) : List Nat → Nat
  | [] => 0
  | x :: r => (if x == c then 1 else 0) + cntR c r

/-- how many calls of caller `c` are in progress: registered, handed over but not returned, or told
to repeat -/
def inProgress (s : St) (c : Nat) : Nat := cntP c s.pending + cntD c s.owedDeliver + cntR c s.owedResend

theorem erasePending_cons (e : Nat × Nat) (p : List (Nat × Nat)) (id : Nat) :
    erasePending (e :: p) id = if (e.1 != id) = true then e :: erasePending p id else erasePending p id := by
  simp only [erasePending, List.filter_cons]

theorem cntP_erase_le (c id : Nat) (p : List (Nat × Nat)) : cntP c (erasePending p id) ≤ cntP c p := by
  induction p with
  | nil => simp [cntP, erasePending]
  | cons e p ih =>
    rw [erasePending_cons]
    split
    · simp only [cntP]; omega
    · simp only [cntP]; omega

theorem cntP_erase_lt (c id : Nat) (p : List (Nat × Nat)) (h : (id, c) ∈ p) :
    cntP c (erasePending p id) + 1 ≤ cntP c p := by
  induction p with
  | nil => simp at h
  | cons e p ih =>
    simp only [List.mem_cons] at h
    have hle := cntP_erase_le c id p
    rw [erasePending_cons]
    rcases h with rfl | h
    · simp [cntP]; omega
    · have := ih h
      split
      · simp only [cntP]; omega
      · simp only [cntP]; omega

theorem cntD_append (c : Nat) (a b : List (Nat × Nat × String)) : cntD c (a ++ b) = cntD c a + cntD c b := by
  induction a with
  | nil => simp [cntD]
  | cons e a ih => simp only [List.cons_append, cntD, ih]; omega

theorem cntR_append (c : Nat) (a b : List Nat) : cntR c (a ++ b) = cntR c a + cntR c b := by
  induction a with
  | nil => simp [cntR]
  | cons e a ih => simp only [List.cons_append, cntR, ih]; omega

theorem cntR_pos_of_mem {c : Nat} {r : List Nat} (h : c ∈ r) : 1 ≤ cntR c r := by
  induction r with
  | nil => simp at h
  | cons x r ih =>
    simp only [List.mem_cons] at h
    simp only [cntR]
    rcases h with rfl | h
    · simp
    · have := ih h; omega

theorem cntR_zero_of_not_mem {c : Nat} {r : List Nat} (h : c ∉ r) : cntR c r = 0 := by
  induction r with
  | nil => simp [cntR]
  | cons x r ih =>
    simp only [List.mem_cons, not_or] at h
    have : (x == c) = false := by simp; exact fun hh => h.1 hh.symm
    simp [cntR, this, ih h.2]

theorem cntR_erase_self {c : Nat} {r : List Nat} (h : c ∈ r) : cntR c (r.erase c) + 1 = cntR c r := by
  induction r with
  | nil => simp at h
  | cons x r ih =>
    by_cases hx : x = c
    · subst hx; simp [cntR]; omega
    · simp only [List.mem_cons] at h
      rcases h with rfl | h
      · exact absurd rfl hx
      · have hne : (x == c) = false := by simp [hx]
        rw [List.erase_cons_tail (by simpa using hx)]
        simp only [cntR, hne]
        have := ih h
        omega

theorem cntR_erase_other {c d : Nat} {r : List Nat} (h : d ≠ c) : cntR d (r.erase c) = cntR d r := by
  induction r with
  | nil => simp
  | cons x r ih =>
    by_cases hx : x = c
    · subst hx
      have : (x == d) = false := by simp; exact fun hh => h hh.symm
      simp [cntR, this]
    · rw [List.erase_cons_tail (by simpa using hx)]
      simp only [cntR, ih]

theorem cntP_zero_of_not_any {c : Nat} {p : List (Nat × Nat)} (h : (p.any fun e => e.2 == c) = false) : cntP c p = 0 := by
  induction p with
  | nil => simp [cntP]
  | cons e p ih =>
    simp only [List.any_cons, Bool.or_eq_false_iff] at h
    simp [cntP, h.1, ih h.2]

theorem cntD_zero_of_not_any {c : Nat} {d : List (Nat × Nat × String)} (h : (d.any fun e => e.1 == c) = false) :
    cntD c d = 0 := by
  induction d with
  | nil => simp [cntD]
  | cons e d ih =>
    simp only [List.any_cons, Bool.or_eq_false_iff] at h
    simp [cntD, h.1, ih h.2]

theorem cntD_erase_le (c : Nat) (x : Nat × Nat × String) (d : List (Nat × Nat × String)) :
    cntD c (d.erase x) ≤ cntD c d := by
  induction d with
  | nil => simp
  | cons e d ih =>
    by_cases hx : e = x
    · subst hx; simp [cntD]
    · rw [List.erase_cons_tail (by simpa using hx)]
      simp only [cntD]; omega

theorem not_any_of_cntP_zero {c : Nat} : ∀ {p : List (Nat × Nat)}, cntP c p = 0 → (p.any fun e => e.2 == c) = false
  | [], _ => rfl
  | e :: p, h => by
    simp only [cntP] at h
    simp only [List.any_cons, Bool.or_eq_false_iff]
    by_cases he : (e.2 == c) = true
    · simp [he] at h
    · exact ⟨by simpa using he, not_any_of_cntP_zero (by omega)⟩

theorem not_any_of_cntD_zero {c : Nat} : ∀ {d : List (Nat × Nat × String)}, cntD c d = 0 → (d.any fun e => e.1 == c) = false
  | [], _ => rfl
  | e :: d, h => by
    simp only [cntD] at h
    simp only [List.any_cons, Bool.or_eq_false_iff]
    by_cases he : (e.1 == c) = true
    · simp [he] at h
    · exact ⟨by simpa using he, not_any_of_cntD_zero (by omega)⟩

theorem cntP_pos_of_mem {c id : Nat} : ∀ {p : List (Nat × Nat)}, (id, c) ∈ p → 1 ≤ cntP c p
  | [], h => by simp at h
  | e :: p, h => by
    simp only [List.mem_cons] at h
    simp only [cntP]
    rcases h with rfl | h
    · simp
    · have := cntP_pos_of_mem h; omega

/-- **one call in progress per caller** -/
def CallerOnce (s : St) : Prop := ∀ c, inProgress s c ≤ 1

theorem callerOnce_reachable : ∀ s, Reachable s → CallerOnce s := by
  apply invariant_of_steps CallerOnce
  · intro c; simp [inProgress, cntP, cntD, cntR]
  · -- send
    intro s c id seq salt s' h hst
    obtain ⟨_, _, _, _, hmay, _, rfl⟩ := step_send_some hst
    intro d
    have hd := h d
    unfold inProgress at *
    simp only
    by_cases hdc : d = c
    · subst hdc
      unfold mayCall at hmay
      simp only [Bool.or_eq_true, Bool.and_eq_true, Bool.not_eq_true'] at hmay
      by_cases hin : d ∈ s.owedResend
      · have h1 := cntR_erase_self hin
        have h2 : cntP d ((id, d) :: s.pending) = cntP d s.pending + 1 := by simp [cntP]; omega
        omega
      · have hmay' : (s.pending.any fun e => e.2 == d) = false ∧ (s.owedDeliver.any fun e => e.1 == d) = false := by
          rcases hmay with hm | hm
          · exact absurd (by simpa using hm) hin
          · exact hm
        have h1 := cntP_zero_of_not_any hmay'.1
        have h2 := cntD_zero_of_not_any hmay'.2
        have h3 := cntR_zero_of_not_mem hin
        have h4 : s.owedResend.erase d = s.owedResend := List.erase_of_not_mem hin
        have h5 : cntP d ((id, d) :: s.pending) = cntP d s.pending + 1 := by simp [cntP]; omega
        rw [h4]; omega
    · have h1 : cntP d ((id, c) :: s.pending) = cntP d s.pending := by
        have : (c == d) = false := by simp; exact fun hh => hdc hh.symm
        simp [cntP, this]
      have h2 := cntR_erase_other (r := s.owedResend) hdc
      omega
  · intro s id seq ids s' h hst
    obtain ⟨_, _, _, _, _, _, rfl⟩ := step_ack_some hst
    exact h
  · -- deliver
    intro s c v s' h hst
    obtain ⟨rid, _, rfl⟩ := step_deliver_some hst
    intro d
    have hd := h d
    unfold inProgress at *
    simp only
    have := cntD_erase_le d (c, rid, v) s.owedDeliver
    omega
  · intro s x s' h hst
    obtain ⟨rest, _, rfl⟩ := step_store_some hst
    exact h
  · intro s ids s' h hst
    obtain ⟨_, _, rfl⟩ := step_ackLost_some hst
    exact h
  · intro s x s' h hst
    obtain ⟨rest, _, rfl⟩ := step_storeLost_some hst
    exact h
  · -- rpc_result
    intro s rid v h
    simp only [resStep]
    split
    · rename_i c hc
      have hmem := lookupPending_mem hc
      intro d
      have hd := h d
      unfold inProgress at *
      simp only [cntD_append]
      by_cases hdc : d = c
      · subst hdc
        have h1 := cntP_erase_lt d rid s.pending hmem
        have h2 : cntD d [(d, rid, v)] = 1 := by simp [cntD]
        omega
      · have h1 := cntP_erase_le d rid s.pending
        have h2 : cntD d [(c, rid, v)] = 0 := by
          have : (c == d) = false := by simp; exact fun hh => hdc hh.symm
          simp [cntD, this]
        omega
    · exact h
  · -- bad_server_salt
    intro s bad ns h
    simp only [saltStep]
    split
    · rename_i c hc
      have hmem := lookupPending_mem hc
      intro d
      have hd := h d
      unfold inProgress at *
      simp only [cntR_append]
      by_cases hdc : d = c
      · subst hdc
        have h1 := cntP_erase_lt d bad s.pending hmem
        have h2 : cntR d [d] = 1 := by simp [cntR]
        omega
      · have h1 := cntP_erase_le d bad s.pending
        have h2 : cntR d [c] = 0 := by
          have : (c == d) = false := by simp; exact fun hh => hdc hh.symm
          simp [cntR, this]
        omega
    · exact h
  · intro s ns h; exact h
  · -- bad_msg_notification
    intro s bad h
    unfold badStep
    split
    · rename_i c hc
      have hmem := lookupPending_mem hc
      intro d
      have hd := h d
      unfold inProgress at *
      simp only [cntD_append]
      by_cases hdc : d = c
      · subst hdc
        have h1 := cntP_erase_lt d bad s.pending hmem
        have h2 : cntD d [(d, bad, "badmsg")] = 1 := by simp [cntD]
        omega
      · have h1 := cntP_erase_le d bad s.pending
        have h2 : cntD d [(c, bad, "badmsg")] = 0 := by
          have : (c == d) = false := by simp; exact fun hh => hdc hh.symm
          simp [cntD, this]
        omega
    · exact h
  · intro s h; exact h
  · intro s mid seq h; unfold oweAck; split <;> exact h

/-! ### request ids are distinct -/

/-- requests were written with strictly increasing msg_ids (newest first in `sent`) -/
def SentSorted (s : St) : Prop :=
  (∀ e ∈ s.sent, e.1 ≤ s.lastId) ∧ s.sent.Pairwise (fun a b => b.1 < a.1)

theorem sentSorted_reachable : ∀ s, Reachable s → SentSorted s := by
  apply invariant_of_steps SentSorted
  · exact ⟨by simp, by simp⟩
  · intro s c id seq salt s' h hst
    obtain ⟨_, hid, _, _, _, _, rfl⟩ := step_send_some hst
    refine ⟨?_, ?_⟩
    · intro e he
      simp only [List.mem_cons] at he
      rcases he with rfl | he
      · exact Nat.le_refl _
      · have := h.1 e he
        show e.1 ≤ id
        omega
    · simp only [List.pairwise_cons]
      refine ⟨?_, h.2⟩
      intro e he
      have := h.1 e he
      show e.1 < id
      omega
  · intro s id seq ids s' h hst
    obtain ⟨_, hid, _, _, _, _, rfl⟩ := step_ack_some hst
    refine ⟨?_, h.2⟩
    intro e he
    have := h.1 e he
    show e.1 ≤ id
    omega
  · intro s c v s' h hst
    obtain ⟨rid, _, rfl⟩ := step_deliver_some hst
    exact h
  · intro s x s' h hst
    obtain ⟨rest, _, rfl⟩ := step_store_some hst
    exact h
  · intro s ids s' h hst
    obtain ⟨_, _, rfl⟩ := step_ackLost_some hst
    exact h
  · intro s x s' h hst
    obtain ⟨rest, _, rfl⟩ := step_storeLost_some hst
    exact h
  · intro s rid v h; simp only [resStep]; split <;> exact h
  · intro s bad ns h; simp only [saltStep]; split <;> exact h
  · intro s ns h; exact h
  · intro s bad h; unfold badStep; split <;> exact h
  · intro s h; exact h
  · intro s mid seq h; unfold oweAck; split <;> exact h

/-- a msg_id names one request of one caller -/
theorem sent_id_unique {s : St} (h : SentSorted s) {id q q' c c' : Nat}
    (h1 : (id, q, c) ∈ s.sent) (h2 : (id, q', c') ∈ s.sent) : q = q' ∧ c = c' := by
  have hp := h.2
  generalize s.sent = l at *
  induction l with
  | nil => simp at h1
  | cons e l ih =>
    simp only [List.pairwise_cons] at hp
    simp only [List.mem_cons] at h1 h2
    rcases h1 with rfl | h1 <;> rcases h2 with h2 | h2
    · simp at h2; exact ⟨h2.1.symm ▸ rfl, h2.2.symm ▸ rfl⟩
    · have := hp.1 _ h2; simp at this
    · subst h2; have := hp.1 _ h1; simp at this
    · exact ih h1 h2 hp.2

/-! ### adopted salts are saved, in order -/

def StoreOk (s : St) : Prop :=
  s.storeLog.reverse ++ s.owedStore = s.adopted ∧ (s.failedStore = [] → s.stored = s.storeLog)

theorem storeOk_reachable : ∀ s, Reachable s → StoreOk s := by
  apply invariant_of_steps StoreOk
  · simp [StoreOk]
  · intro s c id seq salt s' h hst
    obtain ⟨_, _, _, _, _, _, rfl⟩ := step_send_some hst
    exact h
  · intro s id seq ids s' h hst
    obtain ⟨_, _, _, _, _, _, rfl⟩ := step_ack_some hst
    exact h
  · intro s c v s' h hst
    obtain ⟨rid, _, rfl⟩ := step_deliver_some hst
    exact h
  · intro s x s' h hst
    obtain ⟨rest, hrest, rfl⟩ := step_store_some hst
    unfold StoreOk at *
    refine ⟨?_, ?_⟩
    · simp only [List.reverse_cons, List.append_assoc, List.singleton_append]
      rw [← h.1, hrest]
    · intro hf
      simp only [h.2 hf]
  · intro s ids s' h hst
    obtain ⟨_, _, rfl⟩ := step_ackLost_some hst
    exact h
  · intro s x s' h hst
    obtain ⟨rest, hrest, rfl⟩ := step_storeLost_some hst
    unfold StoreOk at *
    refine ⟨?_, ?_⟩
    · simp only [List.reverse_cons, List.append_assoc, List.singleton_append]
      rw [← h.1, hrest]
    · intro hf
      simp at hf
  · intro s rid v h; simp only [resStep]; split <;> exact h
  · intro s bad ns h
    unfold StoreOk at *
    simp only [saltStep]
    split <;> exact ⟨by simp [← h.1], h.2⟩
  · intro s ns h
    unfold StoreOk at *
    exact ⟨by simp [newsStep, ← h.1], h.2⟩
  · intro s bad h; unfold badStep; split <;> exact h
  · intro s h; exact h
  · intro s mid seq h; unfold oweAck; split <;> exact h

end Mtv.Client
