/-
  Published test vectors for the executable hash functions, evaluated by the Lean kernel
  (`decide +kernel`: plain kernel reduction, no compiler trust). These are tests, not proofs of
  correctness of the algorithms. FIPS 180-4 / NIST CSRC example values.
-/
import Mtv.Crypto.Sha1
import Mtv.Crypto.Sha256
import Mtv.Crypto.Crc32
namespace Mtv.Crypto.Vectors
open Mtv Mtv.Crypto

/-- "abc" -/
def abc : Bytes := [0x61, 0x62, 0x63]

/-- "abcdbcdecdefdefgefghfghighijhijkijkljklmklmnlmnomnopnopq" (56 bytes: padding spills into a
    second block) -/
def abc56 : Bytes := "abcdbcdecdefdefgefghfghighijhijkijkljklmklmnlmnomnopnopq".toUTF8.toList

theorem sha1_empty : toHex (sha1 []) = "da39a3ee5e6b4b0d3255bfef95601890afd80709" := by decide +kernel
theorem sha1_abc : toHex (sha1 abc) = "a9993e364706816aba3e25717850c26c9cd0d89d" := by decide +kernel
theorem sha1_abc56 : toHex (sha1 abc56) = "84983e441c3bd26ebaae4aa1f95129e5e54670f1" := by
  decide +kernel

theorem sha256_empty :
    toHex (sha256 []) = "e3b0c44298fc1c149afbf4c8996fb92427ae41e4649b934ca495991b7852b855" := by
  decide +kernel
theorem sha256_abc :
    toHex (sha256 abc) = "ba7816bf8f01cfea414140de5dae2223b00361a396177a9cb410ff61f20015ad" := by
  decide +kernel
theorem sha256_abc56 :
    toHex (sha256 abc56) = "248d6a61d20638b8e5c026930c3e6039a33ce45964ff2167f6ecedd419db06c1" := by
  decide +kernel

/-- the CRC-32 "check" value of the catalogue of parametrised CRC algorithms: crc32("123456789") -/
theorem crc32_check : crc32 [0x31, 0x32, 0x33, 0x34, 0x35, 0x36, 0x37, 0x38, 0x39] = 0xCBF43926 := by
  decide +kernel
theorem crc32_empty : crc32 [] = 0 := by decide +kernel

end Mtv.Crypto.Vectors
