/-
  `createInternalSchema` (Mtv/Tlgen/Classify.lean): the groups are the constructors of each type in
  schema order, and each type lands in exactly the class its constructors determine.
-/
import Mtv.Tlgen.Classify
namespace Mtv.Tlgen

def groupGet (m : List (Str × List Obj)) (k : Str) : List Obj :=
  match m with
  | [] => []
  | (k', os) :: r => if k' = k then os else groupGet r k

theorem groupGet_groupAdd (m : List (Str × List Obj)) (o : Obj) (k : Str) :
    groupGet (groupAdd m o) k = if k = o.iface then groupGet m k ++ [o] else groupGet m k := by
  induction m with
  | nil =>
    by_cases h : o.iface = k
    · simp [groupAdd, groupGet, h]
    · have h' : ¬ k = o.iface := fun e => h e.symm
      simp [groupAdd, groupGet, h, h']
  | cons e m ih =>
    obtain ⟨k0, os0⟩ := e
    by_cases h0 : k0 = o.iface
    · by_cases h : k0 = k
      · subst h; simp [groupAdd, groupGet, h0]
      · have h1 : ¬ k = o.iface := fun e => h (h0.trans e.symm)
        have h2 : ¬ o.iface = k := fun e => h (h0.trans e)
        simp [groupAdd, groupGet, h0, h1, h2]
    · by_cases h : k0 = k
      · subst h
        simp [groupAdd, groupGet, h0]
      · simp [groupAdd, groupGet, h0, h, ih]

theorem groupGet_foldl (objs : List Obj) (m : List (Str × List Obj)) (k : Str) :
    groupGet (objs.foldl groupAdd m) k = groupGet m k ++ objs.filter (·.iface = k) := by
  induction objs generalizing m with
  | nil => simp
  | cons o objs ih =>
    simp only [List.foldl_cons, ih, groupGet_groupAdd, List.filter_cons]
    by_cases h : o.iface = k
    · simp [h]
    · have h' : ¬ k = o.iface := fun e => h e.symm
      simp [h, h']

/-- the group of a type is the list of its constructors, in schema order -/
theorem groupGet_groupByIface (objs : List Obj) (k : Str) :
    groupGet (groupByIface objs) k = objs.filter (·.iface = k) := by
  simp [groupByIface, groupGet_foldl, groupGet]

def groupKeys (m : List (Str × List Obj)) : List Str := m.map (·.1)

theorem groupKeys_groupAdd (m : List (Str × List Obj)) (o : Obj) :
    groupKeys (groupAdd m o) = if o.iface ∈ groupKeys m then groupKeys m else groupKeys m ++ [o.iface] := by
  induction m with
  | nil => simp [groupAdd, groupKeys]
  | cons e m ih =>
    obtain ⟨k0, os0⟩ := e
    by_cases h0 : k0 = o.iface
    · simp [groupAdd, groupKeys, h0]
    · have h0' : ¬ o.iface = k0 := fun e => h0 e.symm
      simp only [groupKeys] at ih
      by_cases hm : o.iface ∈ List.map (·.1) m
      · simp [groupAdd, groupKeys, h0, h0', ih, hm]
      · simp [groupAdd, groupKeys, h0, h0', ih, hm]

theorem groupKeys_nodup_foldl (objs : List Obj) (m : List (Str × List Obj)) (h : (groupKeys m).Nodup) :
    (groupKeys (objs.foldl groupAdd m)).Nodup := by
  induction objs generalizing m with
  | nil => exact h
  | cons o objs ih =>
    apply ih
    rw [groupKeys_groupAdd]
    split
    · exact h
    · rename_i hn
      exact List.nodup_append.mpr ⟨h, by simp, by
        intro a ha b hb; simp at hb; subst hb; intro e; subst e; exact hn ha⟩

theorem groupKeys_nodup (objs : List Obj) : (groupKeys (groupByIface objs)).Nodup :=
  groupKeys_nodup_foldl objs [] (by simp [groupKeys])

/-- with distinct keys, membership is lookup -/
theorem mem_iff_groupGet (m : List (Str × List Obj)) (hnd : (groupKeys m).Nodup) (k : Str) (os : List Obj) :
    (k, os) ∈ m ↔ k ∈ groupKeys m ∧ groupGet m k = os := by
  induction m with
  | nil => simp [groupKeys]
  | cons e m ih =>
    obtain ⟨k0, os0⟩ := e
    simp only [groupKeys, List.map_cons, List.nodup_cons] at hnd
    have ih' := ih hnd.2
    simp only [groupKeys] at ih'
    by_cases h : k0 = k
    · subst h
      simp only [List.mem_cons, Prod.mk.injEq, true_and, groupKeys, List.map_cons, groupGet, if_true, true_or]
      constructor
      · rintro (h | h)
        · exact h.symm
        · exact absurd (ih'.mp h).1 hnd.1
      · intro h; exact Or.inl h.symm
    · have h' : ¬ k = k0 := fun e => h e.symm
      simp only [List.mem_cons, Prod.mk.injEq, h', false_and, false_or, groupKeys, List.map_cons, groupGet, h, if_false]
      exact ih'

/-! ### the fold of `createInternalSchema` -/

def entryOf (g : Str × List Obj) : Str × List Str := (g.1, g.2.map (·.name))

theorem classify_fold (gs : List (Str × List Obj)) (c : Classified) :
    (gs.foldl Classified.add c).enums = c.enums ++ (gs.filter fun g => kindOf g.2 = .enum).map entryOf ∧
    (gs.foldl Classified.add c).singles = c.singles ++ (gs.filter fun g => kindOf g.2 = .single).map entryOf ∧
    (gs.foldl Classified.add c).types = c.types ++ (gs.filter fun g => kindOf g.2 = .iface).map entryOf := by
  induction gs generalizing c with
  | nil => simp
  | cons g gs ih =>
    simp only [List.foldl_cons]
    obtain ⟨h1, h2, h3⟩ := ih (c.add g)
    rw [h1, h2, h3]
    cases hk : kindOf g.2 <;> simp [Classified.add, hk, entryOf]

theorem mem_groupKeys_foldl (objs : List Obj) (m : List (Str × List Obj)) (k : Str) :
    k ∈ groupKeys (objs.foldl groupAdd m) ↔ k ∈ groupKeys m ∨ ∃ o ∈ objs, o.iface = k := by
  induction objs generalizing m with
  | nil => simp
  | cons o objs ih =>
    simp only [List.foldl_cons, ih, groupKeys_groupAdd, List.mem_cons, exists_eq_or_imp]
    by_cases hm : o.iface ∈ groupKeys m
    · simp only [hm, if_true]
      constructor
      · rintro (h | h)
        · exact Or.inl h
        · exact Or.inr (Or.inr h)
      · rintro (h | h | h)
        · exact Or.inl h
        · exact Or.inl (h ▸ hm)
        · exact Or.inr h
    · simp only [hm, if_false, List.mem_append, List.mem_singleton]
      constructor
      · rintro ((h | h) | h)
        · exact Or.inl h
        · exact Or.inr (Or.inl h.symm)
        · exact Or.inr (Or.inr h)
      · rintro (h | h | h)
        · exact Or.inl (Or.inl h)
        · exact Or.inl (Or.inr h.symm)
        · exact Or.inr h

theorem mem_groupKeys (objs : List Obj) (k : Str) :
    k ∈ groupKeys (groupByIface objs) ↔ objs.filter (·.iface = k) ≠ [] := by
  rw [groupByIface, mem_groupKeys_foldl]
  simp [groupKeys, List.filter_eq_nil_iff]

/-- the groups are exactly: each type that has a constructor, with its constructors in schema order -/
theorem mem_groupByIface (objs : List Obj) (k : Str) (os : List Obj) :
    (k, os) ∈ groupByIface objs ↔ os ≠ [] ∧ os = objs.filter (·.iface = k) := by
  rw [mem_iff_groupGet _ (groupKeys_nodup objs), mem_groupKeys, groupGet_groupByIface]
  constructor
  · rintro ⟨h1, h2⟩; subst h2; exact ⟨h1, rfl⟩
  · rintro ⟨h1, h2⟩; subst h2; exact ⟨h1, rfl⟩

theorem kindOf_enum_iff (os : List Obj) : kindOf os = .enum ↔ ∀ o ∈ os, o.params = [] := by
  simp only [kindOf, interfaceIsEnum]
  by_cases ha : (os.all fun o => o.params.isEmpty) = true
  · have h1 : ∀ o ∈ os, o.params = [] := by simpa [List.all_eq_true] using ha
    simp only [ha, if_true, true_iff]
    exact h1
  · have h1 : ∃ o ∈ os, o.params ≠ [] := by
      simp only [List.all_eq_true, List.isEmpty_iff] at ha
      simpa using ha
    obtain ⟨o, ho, hp⟩ := h1
    simp only [ha]
    constructor
    · intro h
      by_cases hl : os.length = 1 <;> simp [hl] at h
    · intro h; exact absurd (h o ho) hp

theorem kindOf_single_iff (os : List Obj) :
    kindOf os = .single ↔ (∃ o ∈ os, o.params ≠ []) ∧ os.length = 1 := by
  have he := kindOf_enum_iff os
  simp only [kindOf, interfaceIsEnum] at he ⊢
  by_cases ha : (os.all fun o => o.params.isEmpty) = true
  · have h1 : ∀ o ∈ os, o.params = [] := by simpa [List.all_eq_true] using ha
    simp only [ha, if_true]
    constructor
    · intro h; cases h
    · rintro ⟨⟨o, ho, hp⟩, -⟩; exact absurd (h1 o ho) hp
  · have h1 : ∃ o ∈ os, o.params ≠ [] := by
      simp only [List.all_eq_true, List.isEmpty_iff] at ha
      simpa using ha
    simp only [ha]
    by_cases hl : os.length = 1
    · simp [hl, h1]
    · simp [hl]

theorem kindOf_iface_iff (os : List Obj) :
    kindOf os = .iface ↔ (∃ o ∈ os, o.params ≠ []) ∧ os.length ≠ 1 := by
  simp only [kindOf, interfaceIsEnum]
  by_cases ha : (os.all fun o => o.params.isEmpty) = true
  · have h1 : ∀ o ∈ os, o.params = [] := by simpa [List.all_eq_true] using ha
    simp only [ha, if_true]
    constructor
    · intro h; cases h
    · rintro ⟨⟨o, ho, hp⟩, -⟩; exact absurd (h1 o ho) hp
  · have h1 : ∃ o ∈ os, o.params ≠ [] := by
      simp only [List.all_eq_true, List.isEmpty_iff] at ha
      simpa using ha
    simp only [ha]
    by_cases hl : os.length = 1
    · simp [hl]
    · simp [hl, h1]

/-- membership in one of the three classes of `classify` -/
theorem mem_classify (objs : List Obj) (k : Kind) (t : Str) (names : List Str) :
    (t, names) ∈ (match k with
        | .enum => (classify objs).enums | .single => (classify objs).singles | .iface => (classify objs).types) ↔
      objs.filter (·.iface = t) ≠ [] ∧ names = (objs.filter (·.iface = t)).map (·.name) ∧
        kindOf (objs.filter (·.iface = t)) = k := by
  obtain ⟨h1, h2, h3⟩ := classify_fold (groupByIface objs) { enums := [], singles := [], types := [] }
  have key : ∀ k' : Kind, (t, names) ∈ ((groupByIface objs).filter fun g => kindOf g.2 = k').map entryOf ↔
      objs.filter (·.iface = t) ≠ [] ∧ names = (objs.filter (·.iface = t)).map (·.name) ∧
        kindOf (objs.filter (·.iface = t)) = k' := by
    intro k'
    simp only [List.mem_map, List.mem_filter, decide_eq_true_eq, entryOf, Prod.mk.injEq]
    constructor
    · rintro ⟨⟨k0, os⟩, ⟨hm, hk⟩, rfl, rfl⟩
      obtain ⟨hne, hos⟩ := (mem_groupByIface objs k0 os).mp hm
      simp only at hk ⊢
      rw [← hos]; exact ⟨hne, rfl, hk⟩
    · rintro ⟨hne, hn, hk⟩
      exact ⟨(t, objs.filter (·.iface = t)), ⟨(mem_groupByIface objs t _).mpr ⟨hne, rfl⟩, hk⟩, rfl, hn.symm⟩
  cases k
  · simp only [classify, h1, List.nil_append]; exact key .enum
  · simp only [classify, h2, List.nil_append]; exact key .single
  · simp only [classify, h3, List.nil_append]; exact key .iface

end Mtv.Tlgen
