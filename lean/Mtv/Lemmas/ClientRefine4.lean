/-
  Part 4: forward simulation, the receive loop's steps; the refinement theorem for runs.
-/
import Mtv.Lemmas.ClientRefine3
namespace Mtv.Impl
open Mtv.Client

theorem oweAck_eq (g : St) (mid seq : Nat) :
    oweAck g mid seq = { g with owedAck := g.owedAck ++ (if seq % 2 = 1 then [mid] else []),
                                gotOdd := if seq % 2 = 1 then mid :: g.gotOdd else g.gotOdd } := by
  unfold oweAck; split <;> simp

theorem ackOf_ackIf (mid seq : Nat) : ackOf [.ackIf mid seq] = if seq % 2 = 1 then [mid] else [] := by
  by_cases h : seq % 2 = 1 <;> simp [ackOf, h]

theorem ackOf_sendVal (id c : Nat) (v : Val) (k : List Op) : ackOf (.sendVal id c v :: k) = ackOf k := by simp [ackOf]
theorem ackOf_delete (id : Nat) (k : List Op) : ackOf (.delete id :: k) = ackOf k := by simp [ackOf]
theorem ackOf_store (k : List Op) : ackOf (.store :: k) = ackOf k := by simp [ackOf]
theorem ackOf_lookupSalt (id : Nat) (k : List Op) : ackOf (.lookupSalt id :: k) = ackOf k := by simp [ackOf]

/-- a step of the loop (the callers do not move) -/
theorem sim_loop {s s' : ISt} {g g' : St} (hm : Sim s g) (hcs : s'.cs = s.cs)
    (hpA : ∀ id, id ∈ curIds s'.cur → lookupPending g'.pending id = none)
    (hpW : ∀ id, InWin s id → lookupPending g'.pending id = none)
    (hpB : ∀ id, ¬ InWin s id → id ∉ curIds s'.cur → lookupPending g'.pending id = lookupPending s'.chans id)
    (hp1 : ∀ e ∈ g'.pending, e ∈ g.pending)
    (hd : g'.owedDeliver = delivOf s'.cur) (ha : g'.owedAck = ackOf s'.cur)
    (ho : g'.owedStore = storeOf s'.cur s'.salt)
    (hres : ∀ c ∈ g.owedResend, c ∈ g'.owedResend)
    (hr2 : ∀ id c, Op.sendVal id c .retry ∈ s'.cur → c ∈ g'.owedResend)
    (hr3 : ∀ bad c, Op.lookupSalt bad ∈ s'.cur → lookupPending s'.chans bad = some c → c ∈ g'.owedResend)
    (hl1 : g'.lastId ≤ s'.lastMsgID) (hl1r : ∀ c id, regOf (s.cs c) = some id → g'.lastId < id)
    (hl1a : ∀ mid id k, s'.cur = .ackWrite mid id :: k → g'.lastId < id)
    (hl2 : g'.lastSeq ≤ s'.seqNo) (hl3 : g'.salt = s'.salt)
    (hw : g'.wire = s'.wire.map (fun e => (e.1, e.2.1))) (hs : g'.stored = s'.stored) : Sim s' g' := by
  have hwin : ∀ id, InWin s' id ↔ InWin s id := by
    intro id; unfold InWin; rw [hcs]
  refine ⟨?_, ?_, ?_, hd, ha, ho, ?_, hr2, hr3, hl1, ?_, hl1a, hl2, hl3, hw, hs⟩
  · intro id h
    rcases h with h | h
    · exact hpW id ((hwin id).1 h)
    · exact hpA id h
  · intro id h1 h2; exact hpB id (fun h => h1 ((hwin id).2 h)) h2
  · intro e he; rw [hcs]; exact hm.p1 e (hp1 e he)
  · intro c hc; rw [hcs] at hc; exact hres c (hm.r1 c hc)
  · intro c id h; rw [hcs] at h; exact hl1r c id h

/-- the facts about a fresh message (nothing of the previous one is left) -/
theorem sim_at_dispatch {s : ISt} {g : St} (hm : Sim s g) (hcur : s.cur = []) :
    g.owedDeliver = [] ∧ g.owedAck = [] ∧ g.owedStore = [] ∧
    (∀ id, ¬ InWin s id → lookupPending g.pending id = lookupPending s.chans id) := by
  refine ⟨by rw [hm.d1, hcur]; rfl, by rw [hm.a1, hcur]; rfl, by rw [hm.o1, hcur]; rfl, ?_⟩
  intro id h; exact hm.pB id h (by rw [hcur]; simp [curIds])

/-- dispatch: the specification's pending table loses exactly the entries named by the new `cur` -/
theorem sim_dispatch_core {s s' : ISt} {g g' : St} (hm : Sim s g) (hcur : s.cur = [])
    (hcs : s'.cs = s.cs) (hch : s'.chans = s.chans) (hl : s'.lastMsgID = s.lastMsgID) (hq : s'.seqNo = s.seqNo)
    (hwi : s'.wire = s.wire) (hst : s'.stored = s.stored)
    (hpend : ∀ id, lookupPending g'.pending id = if id ∈ curIds s'.cur then none else lookupPending g.pending id)
    (hp1 : ∀ e ∈ g'.pending, e ∈ g.pending)
    (hd : g'.owedDeliver = delivOf s'.cur) (ha : g'.owedAck = ackOf s'.cur)
    (ho : g'.owedStore = storeOf s'.cur s'.salt)
    (hres : ∀ c ∈ g.owedResend, c ∈ g'.owedResend)
    (hr2 : ∀ id c, Op.sendVal id c .retry ∉ s'.cur)
    (hr3 : ∀ bad c, Op.lookupSalt bad ∈ s'.cur → lookupPending s.chans bad = some c → c ∈ g'.owedResend)
    (hnw : ∀ mid id k, s'.cur ≠ .ackWrite mid id :: k)
    (e1 : g'.lastId = g.lastId) (e2 : g'.lastSeq = g.lastSeq) (e3 : g'.salt = s'.salt) (e4 : g'.wire = g.wire)
    (e5 : g'.stored = g.stored) : Sim s' g' := by
  obtain ⟨_, _, _, hB⟩ := sim_at_dispatch hm hcur
  refine sim_loop hm hcs ?_ ?_ ?_ hp1 hd ha ho hres ?_ ?_ ?_ ?_ ?_ ?_ e3 ?_ ?_
  · intro id h; rw [hpend, if_pos h]
  · intro id h; rw [hpend]; split
    · rfl
    · exact hm.pA id (Or.inl h)
  · intro id h1 h2; rw [hpend, if_neg h2, hch]; exact hB id h1
  · intro id c h; exact absurd h (hr2 id c)
  · intro bad c hb hl'; rw [hch] at hl'; exact hr3 bad c hb hl'
  · rw [e1, hl]; exact hm.l1
  · intro c id h; rw [e1]; exact hm.l1r c id h
  · intro mid id k h; exact absurd h (hnw mid id k)
  · rw [e2, hq]; exact hm.l2
  · rw [e4, hwi]; exact hm.hw
  · rw [e5, hst]; exact hm.hs

theorem mem_erasePending_sub {p : List (Nat × Nat)} {id : Nat} : ∀ e ∈ erasePending p id, e ∈ p :=
  fun _ he => mem_erasePending' he

theorem sim_dispatch {s : ISt} {g : St} (hi : Inv s) (h2 : Inv2 s) (hm : Sim s g) (hcur : s.cur = [])
    {it : Item} {rest : List Item} (htodo : s.todo = it :: rest) {now : Nat} {ok : Bool} :
    Simulates s (.lStep now ok) (dispatch { s with todo := rest } it) g := by
  obtain ⟨hD, hA, hS, hB⟩ := sim_at_dispatch hm hcur
  have settled : ∀ id, id ∈ itemIds it → ¬ InWin s id := by
    intro id hid ⟨x, hx⟩
    exact h2.q1 id (Or.inr (by rw [htodo]; simp only [todoIds, List.flatMap_cons, List.mem_append]; exact Or.inl hid))
      (reg_unwritten hi hx)
  unfold Simulates
  cases it with
  | endc mid seq =>
    refine ⟨oweAck g mid seq, by simp [evOf, hcur, htodo, Mtv.Client.run, Mtv.Client.step, process], ?_⟩
    rw [oweAck_eq]
    refine sim_dispatch_core hm hcur rfl rfl rfl rfl rfl rfl ?_ (fun e he => he) ?_ ?_ ?_ (fun c hc => hc) ?_ ?_ ?_
      rfl rfl hm.l3 rfl rfl
    · intro id; simp [dispatch, curIds, opIds]
    · simp [dispatch, delivOf, hD]
    · simp only [dispatch, hA, List.nil_append, ackOf_ackIf]
    · simp [dispatch, storeOf, hS]
    · intro id c; simp [dispatch]
    · intro bad c h; simp [dispatch] at h
    · intro mid' id k; simp [dispatch]
  | msg mid seq m =>
    cases m with
    | quiet =>
      refine ⟨oweAck g mid seq, by simp [evOf, hcur, htodo, Mtv.Client.run, Mtv.Client.step, process], ?_⟩
      rw [oweAck_eq]
      refine sim_dispatch_core hm hcur rfl rfl rfl rfl rfl rfl ?_ (fun e he => he) ?_ ?_ ?_ (fun c hc => hc) ?_ ?_ ?_
        rfl rfl hm.l3 rfl rfl
      · intro id; simp [dispatch, curIds, opIds]
      · simp [dispatch, delivOf, hD]
      · simp only [dispatch, hA, List.nil_append, ackOf_ackIf]
      · simp [dispatch, storeOf, hS]
      · intro id c; simp [dispatch]
      · intro bad c h; simp [dispatch] at h
      · intro mid' id k; simp [dispatch]
    | odd =>
      refine ⟨oweAck (warnStep g) mid seq, by simp [evOf, hcur, htodo, Mtv.Client.run, Mtv.Client.step, process], ?_⟩
      rw [oweAck_eq]
      refine sim_dispatch_core hm hcur rfl rfl rfl rfl rfl rfl ?_ (fun e he => he) ?_ ?_ ?_ (fun c hc => hc) ?_ ?_ ?_
        rfl rfl hm.l3 rfl rfl
      · intro id; simp [dispatch, curIds, opIds, warnStep]
      · simp [dispatch, delivOf, hD, warnStep]
      · simp only [dispatch, warnStep, hA, List.nil_append, ackOf_ackIf]
      · simp [dispatch, storeOf, hS, warnStep]
      · intro id c; simp [dispatch]
      · intro bad c h; simp [dispatch] at h
      · intro mid' id k; simp [dispatch]
    | news ns =>
      refine ⟨oweAck (newsStep g ns) mid seq, by simp [evOf, hcur, htodo, Mtv.Client.run, Mtv.Client.step, process], ?_⟩
      rw [oweAck_eq]
      refine sim_dispatch_core hm hcur rfl rfl rfl rfl rfl rfl ?_ (fun e he => he) ?_ ?_ ?_ (fun c hc => hc) ?_ ?_ ?_
        rfl rfl rfl rfl rfl
      · intro id; simp [dispatch, curIds, opIds, newsStep]
      · simp [dispatch, delivOf, hD, newsStep]
      · simp only [dispatch, newsStep, hA, List.nil_append]; simp only [ackOf_sendVal, ackOf_delete, ackOf_store, ackOf_lookupSalt, ackOf_ackIf]
      · simp [dispatch, storeOf, hS, newsStep]
      · intro id c; simp [dispatch]
      · intro bad c h; simp [dispatch] at h
      · intro mid' id k; simp [dispatch]
    | cont ms =>
      by_cases hdepth : s.depth < maxContainerDepth
      · refine ⟨g, by simp [evOf, hcur, htodo, hdepth, Mtv.Client.run], ?_⟩
        simp only [dispatch, hdepth, if_true]
        refine sim_dispatch_core hm hcur rfl rfl rfl rfl rfl rfl ?_ (fun e he => he) ?_ ?_ ?_ (fun c hc => hc) ?_ ?_ ?_
          rfl rfl hm.l3 rfl rfl
        · intro id; simp [hcur, curIds]
        · simp [hcur, delivOf, hD]
        · simp [hcur, ackOf, hA]
        · simp [hcur, storeOf, hS]
        · intro id c; simp [hcur]
        · intro bad c h; simp [hcur] at h
        · intro mid' id k; simp [hcur]
      · refine ⟨oweAck (warnStep g) mid seq,
          by simp [evOf, hcur, htodo, hdepth, Mtv.Client.run, Mtv.Client.step, process], ?_⟩
        rw [oweAck_eq]
        simp only [dispatch, hdepth, if_false]
        refine sim_dispatch_core hm hcur rfl rfl rfl rfl rfl rfl ?_ (fun e he => he) ?_ ?_ ?_ (fun c hc => hc) ?_ ?_ ?_
          rfl rfl hm.l3 rfl rfl
        · intro id; simp [curIds, opIds, warnStep]
        · simp [delivOf, hD, warnStep]
        · simp only [warnStep, hA, List.nil_append, ackOf_ackIf]
        · simp [storeOf, hS, warnStep]
        · intro id c; simp
        · intro bad c h; simp at h
        · intro mid' id k; simp
    | res rid v =>
      have hset := settled rid (by simp [itemIds, msgIds])
      have hlp := hB rid hset
      refine ⟨oweAck (resStep g rid v) mid seq, by simp [evOf, hcur, htodo, Mtv.Client.run, Mtv.Client.step, process], ?_⟩
      rw [oweAck_eq]
      cases hl : lookupPending s.chans rid with
      | some c =>
        rw [hl] at hlp
        simp only [dispatch, hl, resStep, hlp]
        refine sim_dispatch_core hm hcur rfl rfl rfl rfl rfl rfl ?_ mem_erasePending_sub ?_ ?_ ?_ (fun c hc => hc) ?_ ?_ ?_
          rfl rfl hm.l3 rfl rfl
        · intro id; simp only [lp_erase, curIds, List.flatMap_cons, List.flatMap_nil, opIds]
          by_cases h : id = rid <;> simp [h]
        · simp [delivOf, hD]
        · simp only [hA, List.nil_append]; simp only [ackOf_sendVal, ackOf_delete, ackOf_store, ackOf_lookupSalt, ackOf_ackIf]
        · simp [storeOf, hS]
        · intro id c; simp
        · intro bad c h; simp at h
        · intro mid' id k; simp
      | none =>
        rw [hl] at hlp
        simp only [dispatch, hl, resStep, hlp]
        refine sim_dispatch_core hm hcur rfl rfl rfl rfl rfl rfl ?_ (fun e he => he) ?_ ?_ ?_ (fun c hc => hc) ?_ ?_ ?_
          rfl rfl hm.l3 rfl rfl
        · intro id; simp [curIds, opIds]
        · simp [delivOf, hD]
        · simp only [hA, List.nil_append, ackOf_ackIf]
        · simp [storeOf, hS]
        · intro id c; simp
        · intro bad c h; simp at h
        · intro mid' id k; simp
    | badmsg bad =>
      have hset := settled bad (by simp [itemIds, msgIds])
      have hlp := hB bad hset
      refine ⟨oweAck (badStep g bad) mid seq, by simp [evOf, hcur, htodo, Mtv.Client.run, Mtv.Client.step, process], ?_⟩
      rw [oweAck_eq]
      cases hl : lookupPending s.chans bad with
      | some c =>
        rw [hl] at hlp
        simp only [dispatch, hl, badStep, hlp]
        refine sim_dispatch_core hm hcur rfl rfl rfl rfl rfl rfl ?_ mem_erasePending_sub ?_ ?_ ?_ (fun c hc => hc) ?_ ?_ ?_
          rfl rfl hm.l3 rfl rfl
        · intro id; simp only [lp_erase, curIds, List.flatMap_cons, List.flatMap_nil, opIds]
          by_cases h : id = bad <;> simp [h]
        · simp [delivOf, hD]
        · simp only [hA, List.nil_append]; simp only [ackOf_sendVal, ackOf_delete, ackOf_store, ackOf_lookupSalt, ackOf_ackIf]
        · simp [storeOf, hS]
        · intro id c; simp
        · intro bad' c h; simp at h
        · intro mid' id k; simp
      | none =>
        rw [hl] at hlp
        simp only [dispatch, hl, badStep, hlp]
        refine sim_dispatch_core hm hcur rfl rfl rfl rfl rfl rfl ?_ (fun e he => he) ?_ ?_ ?_ (fun c hc => hc) ?_ ?_ ?_
          rfl rfl hm.l3 rfl rfl
        · intro id; simp [curIds, opIds]
        · simp [delivOf, hD]
        · simp only [hA, List.nil_append, ackOf_ackIf]
        · simp [storeOf, hS]
        · intro id c; simp
        · intro bad' c h; simp at h
        · intro mid' id k; simp
    | salt bad ns =>
      have hset := settled bad (by simp [itemIds, msgIds])
      have hlp := hB bad hset
      refine ⟨oweAck (saltStep g bad ns) mid seq, by simp [evOf, hcur, htodo, Mtv.Client.run, Mtv.Client.step, process], ?_⟩
      rw [oweAck_eq]
      cases hl : lookupPending s.chans bad with
      | some c =>
        rw [hl] at hlp
        simp only [dispatch, saltStep, hlp]
        refine sim_dispatch_core hm hcur rfl rfl rfl rfl rfl rfl ?_ mem_erasePending_sub ?_ ?_ ?_ ?_ ?_ ?_ ?_
          rfl rfl rfl rfl rfl
        · intro id; simp only [lp_erase, curIds, List.flatMap_cons, List.flatMap_nil, opIds]
          by_cases h : id = bad <;> simp [h]
        · simp [delivOf, hD]
        · simp only [hA, List.nil_append]; simp only [ackOf_sendVal, ackOf_delete, ackOf_store, ackOf_lookupSalt, ackOf_ackIf]
        · simp [storeOf, hS]
        · intro c' hc'; simp [hc']
        · intro id c; simp
        · intro bad' c' h hl'
          simp at h; subst h; rw [hl] at hl'; simp only [Option.some.injEq] at hl'; subst hl'; simp
        · intro mid' id k; simp
      | none =>
        rw [hl] at hlp
        simp only [dispatch, saltStep, hlp]
        refine sim_dispatch_core hm hcur rfl rfl rfl rfl rfl rfl ?_ (fun e he => he) ?_ ?_ ?_ (fun c hc => hc) ?_ ?_ ?_
          rfl rfl rfl rfl rfl
        · intro id; simp only [curIds, List.flatMap_cons, List.flatMap_nil, opIds]
          by_cases h : id = bad
          · subst h; simp [hlp]
          · simp [h]
        · simp [delivOf, hD]
        · simp only [hA, List.nil_append]; simp only [ackOf_sendVal, ackOf_delete, ackOf_store, ackOf_lookupSalt, ackOf_ackIf]
        · simp [storeOf, hS]
        · intro id c; simp
        · intro bad' c' h hl'
          simp at h; subst h; rw [hl] at hl'; cases hl'
        · intro mid' id k; simp

theorem sim_lRead {s s' : ISt} {g : St} (hm : Sim s g) {mid seq : Nat} {m : Msg}
    (h : step s (.lRead mid seq m) = some s') : Simulates s (.lRead mid seq m) s' g := by
  obtain ⟨_, _, rfl⟩ := step_lRead h
  exact ⟨g, by simp [evOf, Mtv.Client.run],
    ⟨hm.pA, hm.pB, hm.p1, hm.d1, hm.a1, hm.o1, hm.r1, hm.r2, hm.r3, hm.l1, hm.l1r, hm.l1a, hm.l2, hm.l3, hm.hw, hm.hs⟩⟩

theorem no_reg_when_loop_holds {s : ISt} (hi : Inv s) (hh : headHolds s.cur = true) : ∀ c id, regOf (s.cs c) ≠ some id := by
  intro c id h
  have hc : holds (s.cs c) = true := by
    cases hcc : s.cs c <;> rw [hcc] at h <;> simp [regOf] at h <;> rfl
  have h1 := (hi.m1 c).1 hc
  have h2 := hi.m2.1 hh
  rw [h1] at h2; cases h2

theorem sim_lStep {s s' : ISt} {g : St} (hi : Inv s) (h2 : Inv2 s) (hm : Sim s g) {now : Nat} {ok : Bool}
    (h : step s (.lStep now ok) = some s') : Simulates s (.lStep now ok) s' g := by
  have h0 := h
  simp only [step, loopStep] at h
  split at h
  · rename_i hcur
    split at h
    · simp at h
    · rename_i it rest htodo
      simp only [Option.some.injEq] at h; subst h
      exact sim_dispatch hi h2 hm hcur htodo
  · simp at h
  · -- delete
    rename_i id k hcur
    simp only [Option.some.injEq] at h; subst h
    have hsh := h2.sh; rw [hcur] at hsh
    refine ⟨g, by simp [evOf, hcur, Mtv.Client.run], ?_⟩
    have hidcur : id ∈ curIds s.cur := mem_curIds (op := .delete id) (by rw [hcur]; simp) (by simp [opIds])
    have hcurids : ∀ id', id' ∈ curIds s.cur ↔ (id' = id ∨ id' ∈ curIds k) := by
      intro id'; rw [hcur]; simp [curIds, opIds]
    have hk : (∀ bad, Op.lookupSalt bad ∉ k) ∧ (∀ mid id' k', k ≠ .ackWrite mid id' :: k') := by
      cases hsh <;> simp
    refine sim_loop hm rfl ?_ ?_ ?_ (fun e he => he) ?_ ?_ ?_ (fun c hc => hc) ?_ ?_ hm.l1 hm.l1r ?_ hm.l2 hm.l3 hm.hw hm.hs
    · intro id' h; exact hm.pA id' (Or.inr ((hcurids id').2 (Or.inr h)))
    · intro id' h; exact hm.pA id' (Or.inl h)
    · intro id' h1 hnk
      show lookupPending g.pending id' = lookupPending (erasePending s.chans id) id'
      rw [lp_erase]
      split
      · rename_i he; subst he; exact hm.pA id' (Or.inr hidcur)
      · rename_i hne
        exact hm.pB id' h1 (fun hin => by rcases (hcurids id').1 hin with h | h; exact hne h; exact hnk h)
    · rw [hm.d1, hcur]; simp [delivOf]
    · rw [hm.a1, hcur]; exact ackOf_delete id k
    · rw [hm.o1, hcur]; simp [storeOf]
    · intro id0 c0 hs; exact hm.r2 id0 c0 (by rw [hcur]; exact List.mem_cons_of_mem _ hs)
    · intro bad c0 hb; exact absurd hb (hk.1 bad)
    · intro mid id' k' hk'; exact absurd hk' (hk.2 mid id' k')
  · -- store
    rename_i k hcur
    have hsh := h2.sh; rw [hcur] at hsh
    have hcurids : ∀ id', id' ∈ curIds s.cur ↔ id' ∈ curIds k := by
      intro id'; rw [hcur]; simp [curIds, opIds]
    have hk : (∀ id c v, Op.sendVal id c v ∉ k) ∧ (∀ mid id' k', k ≠ .ackWrite mid id' :: k') := by
      cases hsh <;> simp
    have hstore : g.owedStore = s.salt :: storeOf k s.salt := by rw [hm.o1, hcur]; simp [storeOf]
    have core : ∀ (g' : St) (st : List Int), g'.pending = g.pending → g'.owedDeliver = g.owedDeliver →
        g'.owedAck = g.owedAck → g'.owedStore = storeOf k s.salt → g'.owedResend = g.owedResend →
        g'.lastId = g.lastId → g'.lastSeq = g.lastSeq → g'.salt = g.salt → g'.wire = g.wire → g'.stored = st →
        ∀ (w : Nat), Sim { s with stored := st, warnings := w, cur := k } g' := by
      intro g' st e1 e2 e3 e4 e5 e6 e7 e8 e9 e10 w
      refine sim_loop hm rfl ?_ ?_ ?_ (by rw [e1]; exact fun e he => he) ?_ ?_ e4 (by rw [e5]; exact fun c hc => hc) ?_ ?_
        (by rw [e6]; exact hm.l1) (by rw [e6]; exact hm.l1r) ?_ (by rw [e7]; exact hm.l2) (by rw [e8]; exact hm.l3)
        (by rw [e9]; exact hm.hw) e10
      · intro id' h; rw [e1]; exact hm.pA id' (Or.inr ((hcurids id').2 h))
      · intro id' h; rw [e1]; exact hm.pA id' (Or.inl h)
      · intro id' h1 hnk; rw [e1]; exact hm.pB id' h1 (fun hin => hnk ((hcurids id').1 hin))
      · rw [e2, hm.d1, hcur]; simp [delivOf]
      · rw [e3, hm.a1, hcur]; exact ackOf_store k
      · intro id0 c0 hs; exact absurd hs (hk.1 id0 c0 _)
      · intro bad c0 hb hl; rw [e5]; exact hm.r3 bad c0 (by rw [hcur]; exact List.mem_cons_of_mem _ hb) hl
      · intro mid id' k' hk'; exact absurd hk' (hk.2 mid id' k')
    cases ok with
    | true =>
      simp only [if_true, Option.some.injEq] at h; subst h
      refine ⟨{ g with owedStore := storeOf k s.salt, stored := s.salt :: g.stored, storeLog := s.salt :: g.storeLog }, ?_, ?_⟩
      · simp [evOf, hcur, Mtv.Client.run, Mtv.Client.step, hstore]
      · exact core { g with owedStore := storeOf k s.salt, stored := s.salt :: g.stored, storeLog := s.salt :: g.storeLog }
          (s.salt :: s.stored) rfl rfl rfl rfl rfl rfl rfl rfl rfl (by simp [hm.hs]) s.warnings
    | false =>
      simp only [Bool.false_eq_true, if_false, Option.some.injEq] at h; subst h
      refine ⟨{ g with owedStore := storeOf k s.salt, storeLog := s.salt :: g.storeLog, failedStore := s.salt :: g.failedStore }, ?_, ?_⟩
      · simp [evOf, hcur, Mtv.Client.run, Mtv.Client.step, hstore]
      · exact core { g with owedStore := storeOf k s.salt, storeLog := s.salt :: g.storeLog, failedStore := s.salt :: g.failedStore }
          s.stored rfl rfl rfl rfl rfl rfl rfl rfl rfl hm.hs (s.warnings + 1)
  · -- lookupSalt
    rename_i bad k hcur
    have hsh := h2.sh; rw [hcur] at hsh
    obtain ⟨mid, seq, rfl⟩ : ∃ mid seq, k = [.ackIf mid seq] := by
      cases hsh with
      | saltL bad mid seq => exact ⟨mid, seq, rfl⟩
    have hbadcur : bad ∈ curIds s.cur := by rw [hcur]; simp [curIds, opIds]
    have hnw : ¬ InWin s bad := by
      intro ⟨x, hx⟩; exact h2.q1 bad (Or.inl hbadcur) (reg_unwritten hi hx)
    refine ⟨g, by simp [evOf, hcur, Mtv.Client.run], ?_⟩
    split at h <;> simp only [Option.some.injEq] at h <;> subst h
    · rename_i c0 hl
      refine sim_loop hm rfl ?_ ?_ ?_ (fun e he => he) ?_ ?_ ?_ (fun c hc => hc) ?_ ?_ hm.l1 hm.l1r ?_ hm.l2 hm.l3 hm.hw hm.hs
      · intro id' h; simp [curIds, opIds] at h; subst h; exact hm.pA id' (Or.inr hbadcur)
      · intro id' h; exact hm.pA id' (Or.inl h)
      · intro id' h1 hnk
        exact hm.pB id' h1 (fun hin => by rw [hcur] at hin; simp [curIds, opIds] at hin hnk; exact hnk hin)
      · rw [hm.d1, hcur]; simp [delivOf]
      · rw [hm.a1, hcur]; simp only [ackOf_lookupSalt, ackOf_delete, ackOf_sendVal]
      · rw [hm.o1, hcur]; simp [storeOf]
      · intro id0 c1 hs
        simp at hs; obtain ⟨rfl, rfl⟩ := hs
        exact hm.r3 id0 c1 (by rw [hcur]; simp) hl
      · intro bad' c1 hb; simp at hb
      · intro mid' id' k' hk'; simp at hk'
    · rename_i hl
      refine sim_loop hm rfl ?_ ?_ ?_ (fun e he => he) ?_ ?_ ?_ (fun c hc => hc) ?_ ?_ hm.l1 hm.l1r ?_ hm.l2 hm.l3 hm.hw hm.hs
      · intro id' h; simp [curIds, opIds] at h
      · intro id' h; exact hm.pA id' (Or.inl h)
      · intro id' h1 _
        by_cases hb : id' = bad
        · subst hb; rw [hm.pA id' (Or.inr hbadcur)]; exact hl.symm
        · exact hm.pB id' h1 (fun hin => by rw [hcur] at hin; simp [curIds, opIds] at hin; exact hb hin)
      · rw [hm.d1, hcur]; simp [delivOf]
      · rw [hm.a1, hcur]; simp only [ackOf_lookupSalt]
      · rw [hm.o1, hcur]; simp [storeOf]
      · intro id0 c1 hs; simp at hs
      · intro bad' c1 hb; simp at hb
      · intro mid' id' k' hk'; simp at hk'
  · -- ackIf
    rename_i mid seq k hcur
    have hsh := h2.sh; rw [hcur] at hsh
    obtain rfl : k = [] := by cases hsh; rfl
    refine ⟨g, by simp [evOf, hcur, Mtv.Client.run], ?_⟩
    have hids : ∀ id', id' ∉ curIds s.cur := by intro id'; rw [hcur]; simp [curIds, opIds]
    split at h <;> simp only [Option.some.injEq] at h <;> subst h
    all_goals
      rename_i hpar
      refine sim_loop hm rfl ?_ ?_ ?_ (fun e he => he) ?_ ?_ ?_ (fun c hc => hc) ?_ ?_ hm.l1 hm.l1r ?_ hm.l2 hm.l3 hm.hw hm.hs
      · intro id' h; simp [curIds, opIds] at h
      · intro id' h; exact hm.pA id' (Or.inl h)
      · intro id' h1 _; exact hm.pB id' h1 (hids id')
      · rw [hm.d1, hcur]; simp [delivOf]
      · rw [hm.a1, hcur, ackOf_ackIf]; simp [hpar, ackOf]
      · rw [hm.o1, hcur]; simp [storeOf]
      · intro id0 c1 hs; simp at hs
      · intro bad' c1 hb; simp at hb
      · intro mid' id' k' hk'; simp at hk'
  · -- ackLock
    rename_i mid k hcur
    have hsh := h2.sh; rw [hcur] at hsh
    obtain rfl : k = [] := by cases hsh; rfl
    refine ⟨g, by simp [evOf, hcur, Mtv.Client.run], ?_⟩
    have hids : ∀ id', id' ∉ curIds s.cur := by intro id'; rw [hcur]; simp [curIds, opIds]
    split at h
    · simp only [Option.some.injEq] at h; subst h
      refine sim_loop hm rfl ?_ ?_ ?_ (fun e he => he) ?_ ?_ ?_ (fun c hc => hc) ?_ ?_ hm.l1 hm.l1r ?_ hm.l2 hm.l3 hm.hw hm.hs
      · intro id' h; simp [curIds, opIds] at h
      · intro id' h; exact hm.pA id' (Or.inl h)
      · intro id' h1 _; exact hm.pB id' h1 (hids id')
      · rw [hm.d1, hcur]; simp [delivOf]
      · rw [hm.a1, hcur]; simp [ackOf]
      · rw [hm.o1, hcur]; simp [storeOf]
      · intro id0 c1 hs; simp at hs
      · intro bad' c1 hb; simp at hb
      · intro mid' id' k' hk'; simp at hk'
    · simp at h
  · -- ackId
    rename_i mid k hcur
    have hsh := h2.sh; rw [hcur] at hsh
    obtain rfl : k = [] := by cases hsh; rfl
    refine ⟨g, by simp [evOf, hcur, Mtv.Client.run], ?_⟩
    have hids : ∀ id', id' ∉ curIds s.cur := by intro id'; rw [hcur]; simp [curIds, opIds]
    simp only [Option.some.injEq] at h; subst h
    obtain ⟨hgt, hm4⟩ := nextId_gt s.lastMsgID now hi.n1
    clear h0
    generalize nextId s.lastMsgID now = n at hgt hm4 ⊢
    refine sim_loop hm rfl ?_ ?_ ?_ (fun e he => he) ?_ ?_ ?_ (fun c hc => hc) ?_ ?_ ?_ hm.l1r ?_ hm.l2 hm.l3 hm.hw hm.hs
    · intro id' h; simp [curIds, opIds] at h
    · intro id' h; exact hm.pA id' (Or.inl h)
    · intro id' h1 _; exact hm.pB id' h1 (hids id')
    · rw [hm.d1, hcur]; simp [delivOf]
    · rw [hm.a1, hcur]; simp [ackOf]
    · rw [hm.o1, hcur]; simp [storeOf]
    · intro id0 c1 hs; simp at hs
    · intro bad' c1 hb; simp at hb
    · have := hm.l1; show g.lastId ≤ n; omega
    · intro mid' id' k' hk'
      simp only [List.cons.injEq, Op.ackWrite.injEq] at hk'
      have := hm.l1; rw [← hk'.1.2]; omega
  · -- ackWrite
    rename_i mid id k hcur
    have hsh := h2.sh; rw [hcur] at hsh
    obtain rfl : k = [] := by cases hsh; rfl
    have hids : ∀ id', id' ∉ curIds s.cur := by intro id'; rw [hcur]; simp [curIds, opIds]
    have hnoreg := no_reg_when_loop_holds hi (by rw [hcur]; rfl)
    obtain ⟨hid, _⟩ := hi.w3 mid id [] hcur
    have howed : g.owedAck = [mid] := by rw [hm.a1, hcur]; simp [ackOf]
    have core : ∀ (g' : St) (sq : Nat) (wr : List (Nat × Nat × Int)) (w : Nat), g'.pending = g.pending →
        g'.owedDeliver = g.owedDeliver → g'.owedAck = [] → g'.owedStore = g.owedStore → g'.owedResend = g.owedResend →
        g'.lastId ≤ s.lastMsgID → g'.lastSeq ≤ sq → g'.salt = g.salt →
        g'.wire = wr.map (fun e => (e.1, e.2.1)) → g'.stored = g.stored →
        Sim { s with wire := wr, seqNo := sq, warnings := w, cur := [.ackUnlock] } g' := by
      intro g' sq wr w e1 e2 e3 e4 e5 e6 e7 e8 e9 e10
      refine sim_loop hm rfl ?_ ?_ ?_ (by rw [e1]; exact fun e he => he) ?_ ?_ ?_ (by rw [e5]; exact fun c hc => hc) ?_ ?_
        e6 ?_ ?_ e7 (by rw [e8]; exact hm.l3) e9 (by rw [e10]; exact hm.hs)
      · intro id' h; simp [curIds, opIds] at h
      · intro id' h; rw [e1]; exact hm.pA id' (Or.inl h)
      · intro id' h1 _; rw [e1]; exact hm.pB id' h1 (hids id')
      · rw [e2, hm.d1, hcur]; simp [delivOf]
      · rw [e3]; simp [ackOf]
      · rw [e4, hm.o1, hcur]; simp [storeOf]
      · intro id0 c1 hs; simp at hs
      · intro bad' c1 hb; simp at hb
      · intro c id' hr; exact absurd hr (hnoreg c id')
      · intro mid' id' k' hk'; simp at hk'
    cases ok with
    | true =>
      simp only [if_true, Option.some.injEq] at h; subst h
      have hcond : id % 4 = 0 ∧ g.lastId < id ∧ s.seqNo % 2 = 0 ∧ g.lastSeq ≤ s.seqNo ∧ [mid] ≠ [] ∧
          ([mid].all fun i => g.owedAck.contains i) = true := by
        refine ⟨by rw [hid]; exact hi.n1, hm.l1a mid id [] hcur, hi.n2, hm.l2, by simp, by simp [howed]⟩
      refine ⟨{ g with lastId := id, lastSeq := s.seqNo, owedAck := strike g.owedAck [mid], acked := [mid] ++ g.acked,
                       wire := (id, s.seqNo) :: g.wire }, ?_, ?_⟩
      · simp only [evOf, hcur, if_true, Mtv.Client.run, Mtv.Client.step, if_pos hcond]
      · refine core _ (s.seqNo + 2) ((id, s.seqNo, s.salt) :: s.wire) s.warnings rfl rfl ?_ rfl rfl ?_ ?_ rfl ?_ rfl
        · simp [strike, howed]
        · show id ≤ s.lastMsgID; omega
        · show s.seqNo ≤ s.seqNo + 2; omega
        · simp [hm.hw]
    | false =>
      simp only [Bool.false_eq_true, if_false, Option.some.injEq] at h; subst h
      have hcond : [mid] ≠ [] ∧ ([mid].all fun i => g.owedAck.contains i) = true := ⟨by simp, by simp [howed]⟩
      refine ⟨{ g with owedAck := strike g.owedAck [mid], lostAck := [mid] ++ g.lostAck }, ?_, ?_⟩
      · simp only [evOf, hcur, Bool.false_eq_true, if_false, Mtv.Client.run, Mtv.Client.step, if_pos hcond]
      · refine core _ s.seqNo s.wire (s.warnings + 1) rfl rfl ?_ rfl rfl hm.l1 hm.l2 rfl hm.hw rfl
        simp [strike, howed]
  · -- ackUnlock
    rename_i k hcur
    have hsh := h2.sh; rw [hcur] at hsh
    obtain rfl : k = [] := by cases hsh; rfl
    refine ⟨g, by simp [evOf, hcur, Mtv.Client.run], ?_⟩
    have hids : ∀ id', id' ∉ curIds s.cur := by intro id'; rw [hcur]; simp [curIds, opIds]
    simp only [Option.some.injEq] at h; subst h
    refine sim_loop hm rfl ?_ ?_ ?_ (fun e he => he) ?_ ?_ ?_ (fun c hc => hc) ?_ ?_ hm.l1 hm.l1r ?_ hm.l2 hm.l3 hm.hw hm.hs
    · intro id' h; simp [curIds] at h
    · intro id' h; exact hm.pA id' (Or.inl h)
    · intro id' h1 _; exact hm.pB id' h1 (hids id')
    · rw [hm.d1, hcur]; simp [delivOf]
    · rw [hm.a1, hcur]; simp [ackOf]
    · rw [hm.o1, hcur]; simp [storeOf]
    · intro id0 c1 hs; simp at hs
    · intro bad' c1 hb; simp at hb
    · intro mid' id' k' hk'; simp at hk'

theorem sim_step {s s' : ISt} {g : St} (hi : Inv s) (h2 : Inv2 s) (hm : Sim s g) :
    ∀ {e : IEv}, step s e = some s' → Simulates s e s' g
  | .cLock _, h => ⟨g, by simp [evOf, Mtv.Client.run], sim_cLock hm h⟩
  | .cIdReg _ _, h => ⟨g, by simp [evOf, Mtv.Client.run], sim_cIdReg hi h2 hm h⟩
  | .cWrite _ _, h => sim_cWrite hi h2 hm h
  | .cUnlock _, h => ⟨g, by simp [evOf, Mtv.Client.run], sim_cUnlock hm h⟩
  | .cRecv _, h => sim_cRecv h2 hm h
  | .lRead _ _ _, h => sim_lRead hm h
  | .lStep _ _, h => sim_lStep hi h2 hm h

theorem run_append {g g1 : St} {a b : List Ev} (h : Mtv.Client.run g a = some g1) :
    Mtv.Client.run g (a ++ b) = Mtv.Client.run g1 b := by
  induction a generalizing g with
  | nil => simp only [Mtv.Client.run, Option.some.injEq] at h; subst h; rfl
  | cons e a ih =>
    simp only [Mtv.Client.run, List.cons_append] at h ⊢
    cases hs : Mtv.Client.step g e with
    | none => rw [hs] at h; cases h
    | some g2 => rw [hs] at h; exact ih h

/-- forward simulation for whole runs -/
theorem sim_run : ∀ (es : List IEv) {s s' : ISt} {g : St}, Inv s → Inv2 s → Sim s g → CausalRun s es →
    run s es = some s' → ∃ g', Mtv.Client.run g (project s es) = some g' ∧ Sim s' g' ∧ Inv s' ∧ Inv2 s'
  | [], s, s', g, hi, h2, hm, _, h => by
    simp only [run, Option.some.injEq] at h; subst h
    exact ⟨g, rfl, hm, hi, h2⟩
  | e :: es, s, s', g, hi, h2, hm, hc, h => by
    simp only [run] at h
    split at h
    · rename_i s1 hs
      obtain ⟨g1, hr1, hm1⟩ := sim_step hi h2 hm hs
      obtain ⟨g', hr', hrest⟩ := sim_run es (inv_step hi hs) (inv2_step hi h2 hc.1 hs) hm1 (hc.2 s1 hs) h
      refine ⟨g', ?_, hrest⟩
      simp only [project, hs]
      rw [run_append hr1]; exact hr'
    · simp at h

end Mtv.Impl
