/-
  FIPS-197 Appendix C.3 (AES-256) example vector, decryption direction, evaluated by the Lean kernel.
  A test, not a correctness proof. (Separate file so that it builds in parallel with the encryption
  vector.)
-/
import Mtv.Crypto.Aes
namespace Mtv.Crypto.Vectors
open Mtv Mtv.Crypto

/-- decrypting 8ea2b7ca516745bfeafc49904b496089 under key 000102…1f gives 00112233…ff -/
theorem aes256_fips197_dec :
    (fromHex? "8ea2b7ca516745bfeafc49904b496089").map
        (aes256DecryptBlock (aes256Expand ((List.range 32).map UInt8.ofNat)))
      = some ((List.range 16).map fun i => UInt8.ofNat (i * 17)) := by
  decide +kernel

end Mtv.Crypto.Vectors
