/-
  Invariants of the client machine (Mtv/Client/Machine.lean), proved for every reachable state — any
  number of callers, any interleaving of their sends with the receive loop, any server history.
-/
import Mtv.Client.Machine
namespace Mtv.Client

inductive Reachable : St → Prop where
  | init : Reachable {}
  | step {s s' : St} {e : Ev} : Reachable s → step s e = some s' → Reachable s'

theorem reachable_run (t : List Ev) : ∀ (s s' : St), Reachable s → run s t = some s' → Reachable s' := by
  induction t with
  | nil => intro s s' h hr; simp [run] at hr; subst hr; exact h
  | cons e es ih =>
    intro s s' h hr
    simp only [run] at hr
    cases hs : step s e with
    | none => simp [hs] at hr
    | some s1 => simp only [hs] at hr; exact ih s1 s' (Reachable.step h hs) hr

/-! ### a generic way to prove invariants: one obligation per primitive transition -/

theorem invariant_of_steps (P : St → Prop) (h0 : P {})
    (hsend : ∀ s c id seq salt s', P s → step s (.send c id seq salt) = some s' → P s')
    (hack : ∀ s id seq ids s', P s → step s (.ack id seq ids) = some s' → P s')
    (hdel : ∀ s c v s', P s → step s (.deliver c v) = some s' → P s')
    (hstore : ∀ s x s', P s → step s (.store x) = some s' → P s')
    (hackLost : ∀ s ids s', P s → step s (.ackLost ids) = some s' → P s')
    (hstoreLost : ∀ s x s', P s → step s (.storeLost x) = some s' → P s')
    (h1 : ∀ s rid v, P s → P (resStep s rid v)) (h2 : ∀ s bad ns, P s → P (saltStep s bad ns))
    (h3 : ∀ s ns, P s → P (newsStep s ns)) (h4 : ∀ s bad, P s → P (badStep s bad))
    (h5 : ∀ s, P s → P (warnStep s)) (h6 : ∀ s mid seq, P s → P (oweAck s mid seq)) :
    ∀ s, Reachable s → P s := by
  intro s hr
  induction hr with
  | init => exact h0
  | @step s s' e _ hst ih =>
    cases e with
    | send c id seq salt => exact hsend s c id seq salt s' ih hst
    | ack id seq ids => exact hack s id seq ids s' ih hst
    | deliver c v => exact hdel s c v s' ih hst
    | store x => exact hstore s x s' ih hst
    | ackLost ids => exact hackLost s ids s' ih hst
    | storeLost x => exact hstoreLost s x s' ih hst
    | plain mid m =>
      simp only [Mtv.Client.step, Option.some.injEq] at hst
      subst hst
      exact h5 s ih
    | recv mid seq m =>
      simp only [Mtv.Client.step, Option.some.injEq] at hst
      subst hst
      exact process_preserves P h1 h2 h3 h4 h5 h6 m 0 s mid seq ih

/-! ### what the individual transitions do to the state (unfolding lemmas) -/

theorem step_send_some {s s' : St} {c id seq : Nat} {salt : Int} (h : step s (.send c id seq salt) = some s') :
    id % 4 = 0 ∧ s.lastId < id ∧ seq % 2 = 1 ∧ s.lastSeq ≤ seq ∧ mayCall s c = true ∧
    (s.owedResend.contains c = true → salt = s.salt) ∧
    s' = { s with lastId := id, lastSeq := seq, pending := (id, c) :: s.pending,
                  owedResend := s.owedResend.erase c,
                  sent := (id, seq, c) :: s.sent, wire := (id, seq) :: s.wire } := by
  simp only [Mtv.Client.step] at h
  split at h
  · rename_i hc
    simp only [Option.some.injEq] at h
    exact ⟨hc.1, hc.2.1, hc.2.2.1, hc.2.2.2.1, hc.2.2.2.2.1, hc.2.2.2.2.2, h.symm⟩
  · cases h

theorem step_ack_some {s s' : St} {id seq : Nat} {ids : List Nat} (h : step s (.ack id seq ids) = some s') :
    id % 4 = 0 ∧ s.lastId < id ∧ seq % 2 = 0 ∧ s.lastSeq ≤ seq ∧ ids ≠ [] ∧
    (ids.all fun i => s.owedAck.contains i) = true ∧
    s' = { s with lastId := id, lastSeq := seq, owedAck := strike s.owedAck ids,
                  acked := ids ++ s.acked, wire := (id, seq) :: s.wire } := by
  simp only [Mtv.Client.step] at h
  split at h
  · rename_i hc
    simp only [Option.some.injEq] at h
    exact ⟨hc.1, hc.2.1, hc.2.2.1, hc.2.2.2.1, hc.2.2.2.2.1, hc.2.2.2.2.2, h.symm⟩
  · cases h

theorem step_deliver_some {s s' : St} {c : Nat} {v : String} (h : step s (.deliver c v) = some s') :
    ∃ rid, (c, rid, v) ∈ s.owedDeliver ∧
      s' = { s with owedDeliver := s.owedDeliver.erase (c, rid, v), delivered := (c, rid, v) :: s.delivered } := by
  simp only [Mtv.Client.step] at h
  split at h
  · rename_i c' rid v' hf
    split at h
    · rename_i hv
      simp only [Option.some.injEq] at h
      have hmem := List.mem_of_find?_eq_some hf
      have hc : c' = c := by simpa using List.find?_some hf
      subst hc; subst hv
      exact ⟨rid, hmem, h.symm⟩
    · cases h
  · cases h

theorem step_store_some {s s' : St} {x : Int} (h : step s (.store x) = some s') :
    ∃ rest, s.owedStore = x :: rest ∧
      s' = { s with owedStore := rest, stored := x :: s.stored, storeLog := x :: s.storeLog } := by
  simp only [Mtv.Client.step] at h
  split at h
  · rename_i y rest hy
    split at h
    · rename_i hxy
      simp only [Option.some.injEq] at h
      subst hxy
      exact ⟨rest, hy, h.symm⟩
    · cases h
  · cases h

theorem step_ackLost_some {s s' : St} {ids : List Nat} (h : step s (.ackLost ids) = some s') :
    ids ≠ [] ∧ (ids.all fun i => s.owedAck.contains i) = true ∧
    s' = { s with owedAck := strike s.owedAck ids, lostAck := ids ++ s.lostAck } := by
  simp only [Mtv.Client.step] at h
  split at h
  · rename_i hc
    simp only [Option.some.injEq] at h
    exact ⟨hc.1, hc.2, h.symm⟩
  · cases h

theorem step_storeLost_some {s s' : St} {x : Int} (h : step s (.storeLost x) = some s') :
    ∃ rest, s.owedStore = x :: rest ∧
      s' = { s with owedStore := rest, storeLog := x :: s.storeLog, failedStore := x :: s.failedStore } := by
  simp only [Mtv.Client.step] at h
  split at h
  · rename_i y rest hy
    split at h
    · rename_i hxy
      simp only [Option.some.injEq] at h
      subst hxy
      exact ⟨rest, hy, h.symm⟩
    · cases h
  · cases h

theorem lookupPending_mem {p : List (Nat × Nat)} {id c : Nat} (h : lookupPending p id = some c) : (id, c) ∈ p := by
  unfold lookupPending at h
  cases hf : p.find? (fun e => e.1 == id) with
  | none => simp [hf] at h
  | some e =>
    simp only [hf, Option.map_some, Option.some.injEq] at h
    have h1 := List.mem_of_find?_eq_some hf
    have h2 : e.1 = id := by simpa using List.find?_some hf
    obtain ⟨a, b⟩ := e
    simp at h h2
    subst h; subst h2
    exact h1

theorem mem_erasePending {p : List (Nat × Nat)} {id : Nat} {e : Nat × Nat} (h : e ∈ erasePending p id) :
    e ∈ p ∧ e.1 ≠ id := by
  unfold erasePending at h
  simpa using List.mem_filter.mp h

/-! ### C10: the outgoing stream -/

/-- every message written: msg_id a multiple of four, not above the last one; newer messages have
larger msg_ids and seq_nos that are not smaller -/
def WireOk (s : St) : Prop :=
  (∀ p ∈ s.wire, p.1 ≤ s.lastId ∧ p.1 % 4 = 0 ∧ p.2 ≤ s.lastSeq) ∧
  s.wire.Pairwise (fun a b => b.1 < a.1 ∧ b.2 ≤ a.2)

theorem wireOk_reachable : ∀ s, Reachable s → WireOk s := by
  apply invariant_of_steps WireOk
  · exact ⟨by simp, by simp⟩
  · intro s c id seq salt s' h hst
    obtain ⟨h4, hid, _, hseq, _, _, rfl⟩ := step_send_some hst
    refine ⟨?_, ?_⟩
    · intro p hp
      simp only [List.mem_cons] at hp
      rcases hp with rfl | hp
      · exact ⟨Nat.le_refl _, h4, Nat.le_refl _⟩
      · have := h.1 p hp
        exact ⟨by show p.1 ≤ id; omega, this.2.1, by show p.2 ≤ seq; omega⟩
    · simp only [List.pairwise_cons]
      refine ⟨?_, h.2⟩
      intro p hp
      have := h.1 p hp
      exact ⟨by show p.1 < id; omega, by show p.2 ≤ seq; omega⟩
  · intro s id seq ids s' h hst
    obtain ⟨h4, hid, _, hseq, _, _, rfl⟩ := step_ack_some hst
    refine ⟨?_, ?_⟩
    · intro p hp
      simp only [List.mem_cons] at hp
      rcases hp with rfl | hp
      · exact ⟨Nat.le_refl _, h4, Nat.le_refl _⟩
      · have := h.1 p hp
        exact ⟨by show p.1 ≤ id; omega, this.2.1, by show p.2 ≤ seq; omega⟩
    · simp only [List.pairwise_cons]
      refine ⟨?_, h.2⟩
      intro p hp
      have := h.1 p hp
      exact ⟨by show p.1 < id; omega, by show p.2 ≤ seq; omega⟩
  · intro s c v s' h hst
    obtain ⟨rid, _, rfl⟩ := step_deliver_some hst
    exact h
  · intro s x s' h hst
    obtain ⟨rest, _, rfl⟩ := step_store_some hst
    exact h
  · intro s ids s' h hst
    obtain ⟨_, _, rfl⟩ := step_ackLost_some hst
    exact h
  · intro s x s' h hst
    obtain ⟨rest, _, rfl⟩ := step_storeLost_some hst
    exact h
  · intro s rid v h; simp only [resStep]; split <;> exact h
  · intro s bad ns h; simp only [saltStep]; split <;> exact h
  · intro s ns h; exact h
  · intro s bad h; unfold badStep; split <;> exact h
  · intro s h; exact h
  · intro s mid seq h; unfold oweAck; split <;> exact h

/-- requests are on the wire with odd seq_nos; everything else on the wire (acknowledgements) is even -/
def SentOk (s : St) : Prop :=
  (∀ e ∈ s.sent, (e.1, e.2.1) ∈ s.wire ∧ e.2.1 % 2 = 1) ∧
  (∀ p ∈ s.wire, p.2 % 2 = 1 → ∃ c, (p.1, p.2, c) ∈ s.sent)

theorem sentOk_reachable : ∀ s, Reachable s → SentOk s := by
  apply invariant_of_steps SentOk
  · exact ⟨by simp, by simp⟩
  · intro s c id seq salt s' h hst
    obtain ⟨_, _, hodd, _, _, _, rfl⟩ := step_send_some hst
    refine ⟨?_, ?_⟩
    · intro e he
      simp only [List.mem_cons] at he
      rcases he with rfl | he
      · exact ⟨by simp, hodd⟩
      · have := h.1 e he
        exact ⟨by simp [this.1], this.2⟩
    · intro p hp hpo
      simp only [List.mem_cons] at hp
      rcases hp with rfl | hp
      · exact ⟨c, by simp⟩
      · obtain ⟨c', hc'⟩ := h.2 p hp hpo
        exact ⟨c', by simp [hc']⟩
  · intro s id seq ids s' h hst
    obtain ⟨_, _, hev, _, _, _, rfl⟩ := step_ack_some hst
    refine ⟨?_, ?_⟩
    · intro e he
      have := h.1 e he
      exact ⟨by simp [this.1], this.2⟩
    · intro p hp hpo
      simp only [List.mem_cons] at hp
      rcases hp with rfl | hp
      · simp at hpo; omega
      · exact h.2 p hp hpo
  · intro s c v s' h hst
    obtain ⟨rid, _, rfl⟩ := step_deliver_some hst
    exact h
  · intro s x s' h hst
    obtain ⟨rest, _, rfl⟩ := step_store_some hst
    exact h
  · intro s ids s' h hst
    obtain ⟨_, _, rfl⟩ := step_ackLost_some hst
    exact h
  · intro s x s' h hst
    obtain ⟨rest, _, rfl⟩ := step_storeLost_some hst
    exact h
  · intro s rid v h; simp only [resStep]; split <;> exact h
  · intro s bad ns h; simp only [saltStep]; split <;> exact h
  · intro s ns h; exact h
  · intro s bad h; unfold badStep; split <;> exact h
  · intro s h; exact h
  · intro s mid seq h; unfold oweAck; split <;> exact h

theorem mem_strike_of_not_mem {x : Nat} : ∀ (ids owed : List Nat), x ∉ ids → x ∈ owed → x ∈ strike owed ids := by
  intro ids
  induction ids with
  | nil => intro owed _ h; exact h
  | cons i ids ih =>
    intro owed hx h
    simp only [List.mem_cons, not_or] at hx
    unfold strike
    simp only [List.foldl_cons]
    exact ih (owed.erase i) hx.2 ((List.mem_erase_of_ne hx.1).mpr h)

/-- every content-related message received is acknowledged, or its acknowledgement is owed, or the write of
its acknowledgement failed (an environment fault) -/
def AcksOk (s : St) : Prop := ∀ mid ∈ s.gotOdd, mid ∈ s.owedAck ∨ mid ∈ s.acked ∨ mid ∈ s.lostAck

theorem acksOk_reachable : ∀ s, Reachable s → AcksOk s := by
  apply invariant_of_steps AcksOk
  · intro mid h; simp at h
  · intro s c id seq salt s' h hst
    obtain ⟨_, _, _, _, _, _, rfl⟩ := step_send_some hst
    exact h
  · intro s id seq ids s' h hst
    obtain ⟨_, _, _, _, _, _, rfl⟩ := step_ack_some hst
    intro mid hm
    rcases h mid hm with ho | ha | hl
    · by_cases hin : mid ∈ ids
      · exact Or.inr (Or.inl (by simp [hin]))
      · exact Or.inl (mem_strike_of_not_mem ids s.owedAck hin ho)
    · exact Or.inr (Or.inl (by simp [ha]))
    · exact Or.inr (Or.inr hl)
  · intro s c v s' h hst
    obtain ⟨rid, _, rfl⟩ := step_deliver_some hst
    exact h
  · intro s x s' h hst
    obtain ⟨rest, _, rfl⟩ := step_store_some hst
    exact h
  · intro s ids s' h hst
    obtain ⟨_, _, rfl⟩ := step_ackLost_some hst
    intro mid hm
    rcases h mid hm with ho | ha | hl
    · by_cases hin : mid ∈ ids
      · exact Or.inr (Or.inr (by simp [hin]))
      · exact Or.inl (mem_strike_of_not_mem ids s.owedAck hin ho)
    · exact Or.inr (Or.inl ha)
    · exact Or.inr (Or.inr (by simp [hl]))
  · intro s x s' h hst
    obtain ⟨rest, _, rfl⟩ := step_storeLost_some hst
    exact h
  · intro s rid v h; simp only [resStep]; split <;> exact h
  · intro s bad ns h; simp only [saltStep]; split <;> exact h
  · intro s ns h; exact h
  · intro s bad h; unfold badStep; split <;> exact h
  · intro s h; exact h
  · intro s mid seq h
    unfold oweAck
    split
    · intro m hm
      simp only [List.mem_cons] at hm
      rcases hm with rfl | hm
      · exact Or.inl (by simp)
      · rcases h m hm with ho | ha
        · exact Or.inl (by simp [ho])
        · exact Or.inr ha
    · exact h

/-! ### C09: results go to the caller of the request they name -/

/-- every registered response channel belongs to a request that was written by that caller -/
def PendingOk (s : St) : Prop := ∀ e ∈ s.pending, ∃ seq, (e.1, seq, e.2) ∈ s.sent

theorem pendingOk_reachable : ∀ s, Reachable s → PendingOk s := by
  apply invariant_of_steps PendingOk
  · intro e h; simp at h
  · intro s c id seq salt s' h hst
    obtain ⟨_, _, _, _, _, _, rfl⟩ := step_send_some hst
    intro e he
    simp only [List.mem_cons] at he
    rcases he with rfl | he
    · exact ⟨seq, by simp⟩
    · obtain ⟨q, hq⟩ := h e he
      exact ⟨q, by simp [hq]⟩
  · intro s id seq ids s' h hst
    obtain ⟨_, _, _, _, _, _, rfl⟩ := step_ack_some hst
    exact h
  · intro s c v s' h hst
    obtain ⟨rid, _, rfl⟩ := step_deliver_some hst
    exact h
  · intro s x s' h hst
    obtain ⟨rest, _, rfl⟩ := step_store_some hst
    exact h
  · intro s ids s' h hst
    obtain ⟨_, _, rfl⟩ := step_ackLost_some hst
    exact h
  · intro s x s' h hst
    obtain ⟨rest, _, rfl⟩ := step_storeLost_some hst
    exact h
  · intro s rid v h
    simp only [resStep]
    split
    · intro e he; exact h e (mem_erasePending he).1
    · exact h
  · intro s bad ns h
    simp only [saltStep]
    split
    · intro e he; exact h e (mem_erasePending he).1
    · exact h
  · intro s ns h; exact h
  · intro s bad h
    unfold badStep
    split
    · intro e he; exact h e (mem_erasePending he).1
    · exact h
  · intro s h; exact h
  · intro s mid seq h; unfold oweAck; split <;> exact h

/-- a value handed over or returned to caller `c` for request `id`: `c` wrote request `id`, and `v` is
what an rpc_result naming `id` carried (or the error of a bad_msg_notification naming `id`) -/
def Justified (s : St) (e : Nat × Nat × String) : Prop :=
  (∃ seq, (e.2.1, seq, e.1) ∈ s.sent) ∧ ((e.2.1, e.2.2) ∈ s.results ∨ e.2.2 = "badmsg")

def DeliverOk (s : St) : Prop :=
  PendingOk s ∧ (∀ e ∈ s.owedDeliver, Justified s e) ∧ (∀ e ∈ s.delivered, Justified s e)

theorem justified_mono {s s' : St} {e : Nat × Nat × String}
    (hs : ∀ x ∈ s.sent, x ∈ s'.sent) (hr : ∀ x ∈ s.results, x ∈ s'.results) (h : Justified s e) : Justified s' e := by
  obtain ⟨⟨q, hq⟩, hv⟩ := h
  refine ⟨⟨q, hs _ hq⟩, ?_⟩
  rcases hv with hv | hv
  · exact Or.inl (hr _ hv)
  · exact Or.inr hv

theorem deliverOk_reachable : ∀ s, Reachable s → DeliverOk s := by
  apply invariant_of_steps DeliverOk
  · exact ⟨by intro e h; simp at h, by intro e h; simp at h, by intro e h; simp at h⟩
  · intro s c id seq salt s' h hst
    have hp := pendingOk_reachable
    obtain ⟨_, _, _, _, _, _, rfl⟩ := step_send_some hst
    obtain ⟨h1, h2, h3⟩ := h
    refine ⟨?_, ?_, ?_⟩
    · intro e he
      simp only [List.mem_cons] at he
      rcases he with rfl | he
      · exact ⟨seq, by simp⟩
      · obtain ⟨q, hq⟩ := h1 e he
        exact ⟨q, by simp [hq]⟩
    · intro e he
      exact justified_mono (s := s) (by intro x hx; simp [hx]) (by intro x hx; exact hx) (h2 e he)
    · intro e he
      exact justified_mono (s := s) (by intro x hx; simp [hx]) (by intro x hx; exact hx) (h3 e he)
  · intro s id seq ids s' h hst
    obtain ⟨_, _, _, _, _, _, rfl⟩ := step_ack_some hst
    exact h
  · intro s c v s' h hst
    obtain ⟨rid, hmem, rfl⟩ := step_deliver_some hst
    obtain ⟨h1, h2, h3⟩ := h
    refine ⟨h1, ?_, ?_⟩
    · intro e he
      exact h2 e (List.mem_of_mem_erase he)
    · intro e he
      simp only [List.mem_cons] at he
      rcases he with rfl | he
      · exact h2 _ hmem
      · exact h3 e he
  · intro s x s' h hst
    obtain ⟨rest, _, rfl⟩ := step_store_some hst
    exact h
  · intro s ids s' h hst
    obtain ⟨_, _, rfl⟩ := step_ackLost_some hst
    exact h
  · intro s x s' h hst
    obtain ⟨rest, _, rfl⟩ := step_storeLost_some hst
    exact h
  · -- rpc_result
    intro s rid v h
    obtain ⟨h1, h2, h3⟩ := h
    simp only [resStep]
    split
    · rename_i c hc
      have hmem := lookupPending_mem hc
      obtain ⟨q, hq⟩ := h1 _ hmem
      refine ⟨?_, ?_, ?_⟩
      · intro e he; exact h1 e (mem_erasePending he).1
      · intro e he
        simp only [List.mem_append, List.mem_singleton] at he
        rcases he with he | rfl
        · exact justified_mono (s := s) (by intro x hx; exact hx) (by intro x hx; simp [hx]) (h2 e he)
        · exact ⟨⟨q, hq⟩, Or.inl (by simp)⟩
      · intro e he
        exact justified_mono (s := s) (by intro x hx; exact hx) (by intro x hx; simp [hx]) (h3 e he)
    · refine ⟨h1, ?_, ?_⟩
      · intro e he
        exact justified_mono (s := s) (by intro x hx; exact hx) (by intro x hx; simp [hx]) (h2 e he)
      · intro e he
        exact justified_mono (s := s) (by intro x hx; exact hx) (by intro x hx; simp [hx]) (h3 e he)
  · -- bad_server_salt
    intro s bad ns h
    obtain ⟨h1, h2, h3⟩ := h
    simp only [saltStep]
    split
    · exact ⟨fun e he => h1 e (mem_erasePending he).1, h2, h3⟩
    · exact ⟨h1, h2, h3⟩
  · intro s ns h; exact h
  · -- bad_msg_notification
    intro s bad h
    obtain ⟨h1, h2, h3⟩ := h
    unfold badStep
    split
    · rename_i c hc
      have hmem := lookupPending_mem hc
      obtain ⟨q, hq⟩ := h1 _ hmem
      refine ⟨fun e he => h1 e (mem_erasePending he).1, ?_, h3⟩
      intro e he
      simp only [List.mem_append, List.mem_singleton] at he
      rcases he with he | rfl
      · exact h2 e he
      · exact ⟨⟨q, hq⟩, Or.inr rfl⟩
    · exact ⟨h1, h2, h3⟩
  · intro s h; exact h
  · intro s mid seq h; unfold oweAck; split <;> exact h

end Mtv.Client
