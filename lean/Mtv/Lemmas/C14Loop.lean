/-
  The loop of `ParseSchema` on a rendered document: it consumes the text line by line, and its state
  after the lines is what `denoteItems` says (Mtv/Tlgen/Render.lean).
-/
import Mtv.Lemmas.C14Parser
namespace Mtv.Tlgen
open Cursor

theorem kwFunctions_eq : kwFunctions = ['-','-','-'] ++ 'f' :: "unctions---".toList := by decide
theorem kwTypes_eq : kwTypes = ['-','-','-'] ++ 't' :: "ypes---".toList := by decide
theorem kwSlashes_eq : kwSlashes = ['/', '/'] := by decide

/-- the first rune of a line that is not blank -/
def Item.head : Item → Char
  | .types => '-'
  | .functions => '-'
  | .blank => '\n'
  | .comment _ => '/'
  | .defn d => d.name.headD ' '

theorem step_functions (ws : Str) (hws : ∀ c ∈ ws, isSpace c = true) (rev more : Str) (st : PState) :
    ∃ R, parseStep (atRem rev (ws ++ (kwFunctions ++ '\n' :: more))) st =
      .inr (atRem R ('\n' :: more), { st with isFunctions := true }) := by
  obtain ⟨c1, hc1⟩ : ∃ c, c = atRem (ws.reverse ++ rev) (kwFunctions ++ '\n' :: more) := ⟨_, rfl⟩
  have h1 : (atRem rev (ws ++ (kwFunctions ++ '\n' :: more))).skipSpaces = c1 := by
    rw [hc1, kwFunctions_eq]
    exact skipSpaces_append ws rev '-' _ hws (by decide)
  have h2 : c1.isNext kwFunctions = (true, atRem (kwFunctions.reverse ++ (ws.reverse ++ rev)) ('\n' :: more)) := by
    rw [hc1]; exact isNext_true' kwFunctions _ _ (by simp)
  refine ⟨kwFunctions.reverse ++ (ws.reverse ++ rev), ?_⟩
  simp only [parseStep, h1, h2, if_true]

theorem step_types (ws : Str) (hws : ∀ c ∈ ws, isSpace c = true) (rev more : Str) (st : PState) :
    ∃ R, parseStep (atRem rev (ws ++ (kwTypes ++ '\n' :: more))) st =
      .inr (atRem R ('\n' :: more), { st with isFunctions := false }) := by
  obtain ⟨c1, hc1⟩ : ∃ c, c = atRem (ws.reverse ++ rev) (kwTypes ++ '\n' :: more) := ⟨_, rfl⟩
  have h1 : (atRem rev (ws ++ (kwTypes ++ '\n' :: more))).skipSpaces = c1 := by
    rw [hc1, kwTypes_eq]
    exact skipSpaces_append ws rev '-' _ hws (by decide)
  have h2 : c1.isNext kwFunctions = (false, c1) := by
    rw [hc1, kwFunctions_eq, kwTypes_eq]
    simp only [List.append_assoc, List.cons_append]
    exact isNext_mismatch ['-','-','-'] 'f' _ 't' _ (by decide) _
  have h3 : c1.isNext kwTypes = (true, atRem (kwTypes.reverse ++ (ws.reverse ++ rev)) ('\n' :: more)) := by
    rw [hc1]; exact isNext_true' kwTypes _ _ (by simp)
  refine ⟨kwTypes.reverse ++ (ws.reverse ++ rev), ?_⟩
  simp only [parseStep, h1, h2, h3, if_true, Bool.false_eq_true, if_false]

/-- a comment line: the loop hands its text to the annotation logic; the cursor ends on the first
rune of the next line, or stays on the final newline when nothing follows -/
theorem step_comment (ws : Str) (hws : ∀ c ∈ ws, isSpace c = true) (rev more t : Str) (ht : '\n' ∉ t) (st : PState) :
    ∃ R ws', (∀ c ∈ ws', isSpace c = true) ∧ ws' ++ more ≠ [] ∧
      parseStep (atRem rev (ws ++ ('/' :: '/' :: t ++ '\n' :: more))) st =
        .inr (atRem R (ws' ++ more), st.comment t) := by
  obtain ⟨c1, hc1⟩ : ∃ c, c = atRem (ws.reverse ++ rev) ('/' :: '/' :: (t ++ '\n' :: more)) := ⟨_, rfl⟩
  obtain ⟨R2, hR2⟩ : ∃ R, R = kwSlashes.reverse ++ (ws.reverse ++ rev) := ⟨_, rfl⟩
  obtain ⟨c2, hc2⟩ : ∃ c, c = atRem R2 (t ++ '\n' :: more) := ⟨_, rfl⟩
  obtain ⟨c3, hc3⟩ : ∃ c, c = atRem (t.reverse ++ R2) ('\n' :: more) := ⟨_, rfl⟩
  have h1 : (atRem rev (ws ++ ('/' :: '/' :: t ++ '\n' :: more))).skipSpaces = c1 := by
    rw [hc1]
    have := skipSpaces_append ws rev '/' ('/' :: (t ++ '\n' :: more)) hws (by decide)
    simpa using this
  have h2 : c1.isNext kwFunctions = (false, c1) := by
    rw [hc1]; exact isNext_head_ne '-' _ '/' _ (by decide) _
  have h3 : c1.isNext kwTypes = (false, c1) := by
    rw [hc1]; exact isNext_head_ne '-' _ '/' _ (by decide) _
  have h4 : c1.isNext kwSlashes = (true, c2) := by
    rw [hc1, hc2, hR2]
    have := isNext_true' kwSlashes (ws.reverse ++ rev) (t ++ '\n' :: more) (by simp)
    rw [kwSlashes_eq] at this ⊢
    simpa using this
  have h5 : c2.readAt '\n' = some (t, c3) := by
    rw [hc2, hc3]; exact readAt_append '\n' t _ more ht
  cases more with
  | nil =>
    refine ⟨t.reverse ++ R2, ['\n'], by simp [isSpace_nl], by simp, ?_⟩
    have h6 : c3.skip 1 = c3 := by rw [hc3]; rfl
    simp only [parseStep, h1, h2, h3, h4, h5, h6, if_true, Bool.false_eq_true, if_false]
    rw [hc3]; simp
  | cons m ms =>
    refine ⟨'\n' :: (t.reverse ++ R2), [], by simp, by simp, ?_⟩
    have h6 : c3.skip 1 = atRem ('\n' :: (t.reverse ++ R2)) (m :: ms) := by rw [hc3]; rfl
    simp only [parseStep, h1, h2, h3, h4, h5, h6, if_true, Bool.false_eq_true, if_false]
    simp

/-- a definition line -/
theorem step_defn (ws : Str) (hws : ∀ c ∈ ws, isSpace c = true) (rev more : Str) (d : Def) (wf : WFDef d)
    (st st' : PState) (hdef : st.define d = some st') :
    ∃ R, parseStep (atRem rev (ws ++ (renderDef d ++ '\n' :: more))) st = .inr (atRem R ('\n' :: more), st') := by
  obtain ⟨a, n', hn, ha, -, hslash, hdash⟩ := wf.name_ok.head
  obtain ⟨r, hr⟩ : ∃ r, renderDef d ++ '\n' :: more = a :: r := by
    refine ⟨n' ++ (renderDef d ++ '\n' :: more).drop d.name.length, ?_⟩
    rw [renderDef, hn]; simp
  obtain ⟨c1, hc1⟩ : ∃ c, c = atRem (ws.reverse ++ rev) (renderDef d ++ '\n' :: more) := ⟨_, rfl⟩
  have h1 : (atRem rev (ws ++ (renderDef d ++ '\n' :: more))).skipSpaces = c1 := by
    rw [hc1, hr]; exact skipSpaces_append ws rev a r hws ha
  have h2 : c1.isNext kwFunctions = (false, c1) := by
    rw [hc1, hr]; exact isNext_head_ne '-' _ a _ hdash _
  have h3 : c1.isNext kwTypes = (false, c1) := by
    rw [hc1, hr]; exact isNext_head_ne '-' _ a _ hdash _
  have h4 : c1.isNext kwSlashes = (false, c1) := by
    rw [hc1, hr]; exact isNext_head_ne '/' _ a _ hslash _
  have h5 : parseDefinition c1 = .ok d (atRem ((renderDef d).reverse ++ (ws.reverse ++ rev)) ('\n' :: more)) := by
    rw [hc1]; exact parseDefinition_render d wf _ '\n' more
  refine ⟨(renderDef d).reverse ++ (ws.reverse ++ rev), ?_⟩
  simp only [parseStep, h1, h2, h3, h4, h5, hdef, Bool.false_eq_true, if_false]

/-- a definition with a vector result in the types section -/
theorem step_defn_vector (ws : Str) (hws : ∀ c ∈ ws, isSpace c = true) (rev more : Str) (d : Def) (wf : WFDef d)
    (st : PState) (hdef : st.define d = none) :
    parseStep (atRem rev (ws ++ (renderDef d ++ '\n' :: more))) st = .inl (.error .vectorType) := by
  obtain ⟨a, n', hn, ha, -, hslash, hdash⟩ := wf.name_ok.head
  obtain ⟨r, hr⟩ : ∃ r, renderDef d ++ '\n' :: more = a :: r := by
    refine ⟨n' ++ (renderDef d ++ '\n' :: more).drop d.name.length, ?_⟩
    rw [renderDef, hn]; simp
  obtain ⟨c1, hc1⟩ : ∃ c, c = atRem (ws.reverse ++ rev) (renderDef d ++ '\n' :: more) := ⟨_, rfl⟩
  have h1 : (atRem rev (ws ++ (renderDef d ++ '\n' :: more))).skipSpaces = c1 := by
    rw [hc1, hr]; exact skipSpaces_append ws rev a r hws ha
  have h2 : c1.isNext kwFunctions = (false, c1) := by
    rw [hc1, hr]; exact isNext_head_ne '-' _ a _ hdash _
  have h3 : c1.isNext kwTypes = (false, c1) := by
    rw [hc1, hr]; exact isNext_head_ne '-' _ a _ hdash _
  have h4 : c1.isNext kwSlashes = (false, c1) := by
    rw [hc1, hr]; exact isNext_head_ne '/' _ a _ hslash _
  have h5 : parseDefinition c1 = .ok d (atRem ((renderDef d).reverse ++ (ws.reverse ++ rev)) ('\n' :: more)) := by
    rw [hc1]; exact parseDefinition_render d wf _ '\n' more
  simp only [parseStep, h1, h2, h3, h4, h5, hdef, Bool.false_eq_true, if_false]

/-- only white space is left: the loop ends with what it has collected -/
theorem step_end (w : Str) (x : Char) (hw : ∀ c ∈ w, isSpace c = true) (hx : isSpace x = true) (rev : Str) (st : PState) :
    parseStep (atRem rev (w ++ [x])) st = .inl (.ok st.result) := by
  obtain ⟨c1, hc1⟩ : ∃ c, c = atRem (w.reverse ++ rev) [x] := ⟨_, rfl⟩
  have hxd : x ≠ '-' := by intro h; subst h; exact absurd hx (by decide)
  have hxs : x ≠ '/' := by intro h; subst h; exact absurd hx (by decide)
  have hxh : x ≠ '#' := by intro h; subst h; exact absurd hx (by decide)
  have h1 : (atRem rev (w ++ [x])).skipSpaces = c1 := by
    rw [hc1]; exact skipSpaces_all w rev x hw
  have h2 : c1.isNext kwFunctions = (false, c1) := by
    rw [hc1]; exact isNext_head_ne '-' _ x _ hxd _
  have h3 : c1.isNext kwTypes = (false, c1) := by
    rw [hc1]; exact isNext_head_ne '-' _ x _ hxd _
  have h4 : c1.isNext kwSlashes = (false, c1) := by
    rw [hc1]; exact isNext_head_ne '/' _ x _ hxs _
  have h5 : parseDefinition c1 = .eof := by
    have hs : c1.skipSpaces = c1 := by rw [hc1]; rfl
    by_cases hb : x = ' '
    · subst hb
      have hr : c1.readAt ' ' = some ([], c1) := by rw [hc1]; rfl
      have hu : c1.unread 0 = c1 := rfl
      have hr2 : c1.readAt '#' = none := by rw [hc1]; rfl
      have he : excludedTypes.contains ([] : Str) = false := by decide
      simp only [parseDefinition, hs, hr, he, List.length_nil, hu, hr2, Bool.false_eq_true, if_false]
    · have hr : c1.readAt ' ' = none := by
        rw [hc1]; exact readAt_none ' ' _ x [] (by simp; exact fun h => hb h.symm)
      simp only [parseDefinition, hs, hr]
  simp only [parseStep, h1, h2, h3, h4, h5, Bool.false_eq_true, if_false]

/-! ### the whole loop -/

theorem parseLoop_inr (fuel : Nat) (c c' : Cursor) (st st' : PState) (h : parseStep c st = .inr (c', st')) :
    parseLoop (fuel + 1) c st = parseLoop fuel c' st' := by
  simp only [parseLoop, h]

theorem parseLoop_inl (fuel : Nat) (c : Cursor) (st : PState) (r : Except PErr Schema) (h : parseStep c st = .inl r) :
    parseLoop (fuel + 1) c st = r := by
  simp only [parseLoop, h]

theorem parseLoop_items (items : List Item) (wf : WFItems items) :
    ∀ (fuel : Nat) (st st' : PState) (rev ws : Str), (∀ c ∈ ws, isSpace c = true) →
      denoteItems items st = some st' → ws ++ renderItems items ≠ [] → items.length < fuel →
      parseLoop fuel (atRem rev (ws ++ renderItems items)) st = .ok st'.result := by
  induction items with
  | nil =>
    intro fuel st st' rev ws hws hden hne hfuel
    simp only [denoteItems, Option.some.injEq] at hden
    subst hden
    simp only [renderItems, List.append_nil] at hne ⊢
    rcases List.eq_nil_or_concat ws with h | ⟨w, x, h⟩
    · exact absurd h hne
    · subst h
      cases fuel with
      | zero => simp at hfuel
      | succ fuel =>
        simp only [List.concat_eq_append] at hws ⊢
        exact parseLoop_inl _ _ _ _ (step_end w x (fun c hc => hws c (by simp [hc])) (hws x (by simp)) rev st)
  | cons it items ih =>
    intro fuel st st' rev ws hws hden hne hfuel
    have wfi : WFItem it := wf it (by simp)
    have wfr : WFItems items := fun i hi => wf i (by simp [hi])
    cases fuel with
    | zero => simp at hfuel
    | succ fuel =>
      have hfuel' : items.length < fuel := by simp at hfuel; omega
      cases it with
      | blank =>
        -- an empty line is white space in front of the next line
        simp only [denoteItems] at hden
        have := ih wfr (fuel + 1) st st' rev (ws ++ ['\n'])
          (by intro c hc; simp only [List.mem_append, List.mem_singleton] at hc
              rcases hc with hc | hc
              · exact hws c hc
              · subst hc; exact isSpace_nl)
          hden (by simp) (by omega)
        simpa [renderItems, Item.render] using this
      | types =>
        simp only [denoteItems] at hden
        obtain ⟨R, hstep⟩ := step_types ws hws rev (renderItems items) st
        have hrw : ws ++ renderItems (Item.types :: items) = ws ++ (kwTypes ++ '\n' :: renderItems items) := by
          simp [renderItems, Item.render]
        rw [hrw, parseLoop_inr _ _ _ _ _ hstep]
        have := ih wfr fuel _ st' R ['\n'] (by simp [isSpace_nl]) hden (by simp) hfuel'
        simpa using this
      | functions =>
        simp only [denoteItems] at hden
        obtain ⟨R, hstep⟩ := step_functions ws hws rev (renderItems items) st
        have hrw : ws ++ renderItems (Item.functions :: items) = ws ++ (kwFunctions ++ '\n' :: renderItems items) := by
          simp [renderItems, Item.render]
        rw [hrw, parseLoop_inr _ _ _ _ _ hstep]
        have := ih wfr fuel _ st' R ['\n'] (by simp [isSpace_nl]) hden (by simp) hfuel'
        simpa using this
      | comment t =>
        simp only [denoteItems] at hden
        obtain ⟨R, ws', hws', hne', hstep⟩ := step_comment ws hws rev (renderItems items) t wfi st
        have hrw : ws ++ renderItems (Item.comment t :: items) = ws ++ ('/' :: '/' :: t ++ '\n' :: renderItems items) := by
          simp [renderItems, Item.render]
        rw [hrw, parseLoop_inr _ _ _ _ _ hstep]
        exact ih wfr fuel _ st' R ws' hws' hden hne' hfuel'
      | defn d =>
        simp only [denoteItems] at hden
        cases hdef : st.define d with
        | none => simp [hdef] at hden
        | some st1 =>
          simp only [hdef] at hden
          obtain ⟨R, hstep⟩ := step_defn ws hws rev (renderItems items) d wfi st st1 hdef
          have hrw : ws ++ renderItems (Item.defn d :: items) = ws ++ (renderDef d ++ '\n' :: renderItems items) := by
            simp [renderItems, Item.render]
          rw [hrw, parseLoop_inr _ _ _ _ _ hstep]
          have := ih wfr fuel _ st' R ['\n'] (by simp [isSpace_nl]) hden (by simp) hfuel'
          simpa using this

theorem renderItems_length (items : List Item) : items.length ≤ (renderItems items).length := by
  induction items with
  | nil => simp [renderItems]
  | cons i is ih =>
    have : 1 ≤ i.render.length := by
      cases i <;> simp [Item.render]
    simp only [renderItems, List.length_cons, List.length_append]; omega

/-- **Reading a rendered document**: the parser's result on the text of the lines `items` is the
state `denoteItems` assigns to them. -/
theorem parseSchema_renderItems (items : List Item) (wf : WFItems items) (st : PState)
    (hden : denoteItems items {} = some st) :
    parseSchema (renderItems items) = .ok st.result := by
  cases hsrc : renderItems items with
  | nil =>
    have : items = [] := by
      cases items with
      | nil => rfl
      | cons i is =>
        have := renderItems_length (i :: is)
        rw [hsrc] at this; simp at this
    subst this
    simp only [denoteItems, Option.some.injEq] at hden
    subst hden
    rfl
  | cons x xs =>
    have hl := renderItems_length items
    have := parseLoop_items items wf (2 * (renderItems items).length + 2) {} st [] []
      (by simp) hden (by simp [hsrc]) (by omega)
    simp only [List.nil_append] at this
    rw [hsrc] at this
    simpa [parseSchema, Cursor.ofList] using this

end Mtv.Tlgen
