/-
  The generic TL round trip, by mutual structural recursion over values / item lists / field lists.
-/
import Mtv.Lemmas.TLRoundTrip
namespace Mtv.TL

theorem WTL_big (R : Registry) (e : Ty) : ∀ (items : List Val), WTL R e items →
    ∀ v ∈ items, ∀ w n, v = .big w n → 0 < w
  | [], _, v, hv, _, _, _ => by simp at hv
  | x :: xs, h, v, hv, w, n, hvb => by
    simp only [WTL] at h
    rcases List.mem_cons.mp hv with rfl | hin
    · subst hvb
      have := h.1
      simp only [WT] at this
      rcases this.1 with ⟨_, rfl⟩ | ⟨_, rfl⟩ <;> decide
    · exact WTL_big R e xs h.2 v hin w n hvb

theorem flagWord_untagged : ∀ (l : List FieldDesc) (fs : List Val),
    l.all (fun f => f.flag.isNone) = true → flagWord l fs = 0
  | [], _, _ => by simp [flagWord]
  | _ :: _, [], _ => by simp [flagWord]
  | a :: l, v :: vs, hall => by
    simp only [List.all_cons, Bool.and_eq_true] at hall
    have ha : a.flag = none := by
      cases h : a.flag with
      | none => rfl
      | some _ => simp [h] at hall
    simp only [flagWord, ha]
    exact flagWord_untagged l vs hall.2

theorem popRaw16 (n : Nat) (rest : Bytes) (h : n < 256 ^ 16) :
    popRaw 16 (beBytes n 16 ++ rest) = .ok (beBytes n 16, rest) := by
  simpa using (popRaw_be 16 n rest (by decide) h).1

theorem popRaw32 (n : Nat) (rest : Bytes) (h : n < 256 ^ 32) :
    popRaw 32 (beBytes n 32 ++ rest) = .ok (beBytes n 32, rest) := by
  simpa using (popRaw_be 32 n rest (by decide) h).1

/-- invariant between the position of the flags word and the bitset the decoder currently holds -/
def FlagInv (k : Option Nat) (W0 W : Nat) (fs : List FieldDesc) : Prop :=
  match k with
  | none => W0 = W
  | some j => (fs.take j).all (fun f => f.flag.isNone) = true

mutual
theorem rt_val (R : Registry) (gz : Bytes → Option Bytes) (dp : Nat) (hR : WFR R) :
    ∀ (v : Val) (ty : Ty) (bs rest : Bytes) (hs : List Ty) (fuel : Nat),
      WT R ty v → encVal R v = .ok bs → need v ≤ fuel →
      ∃ v', decVal R gz dp fuel ty (bs ++ rest) hs = .ok (v', rest, hs) ∧ erase v' = erase v
  | .word n, ty, bs, rest, hs, fuel, hwt, henc, hf => by
    simp only [need] at hf
    obtain ⟨f, rfl⟩ : ∃ f, fuel = f + 1 := ⟨fuel - 1, by omega⟩
    simp only [encVal] at henc; cases henc
    simp only [WT] at hwt
    obtain ⟨hty, hn⟩ := hwt
    refine ⟨.word n, ?_, rfl⟩
    rcases hty with rfl | rfl | ⟨nm, rfl⟩ <;> simp [decVal, popUint_le n rest hn]
  | .long n, ty, bs, rest, hs, fuel, hwt, henc, hf => by
    simp only [need] at hf
    obtain ⟨f, rfl⟩ : ∃ f, fuel = f + 1 := ⟨fuel - 1, by omega⟩
    simp only [encVal] at henc; cases henc
    simp only [WT] at hwt
    obtain ⟨rfl, hn⟩ := hwt
    exact ⟨.long n, by simp [decVal, popLong_le n rest hn], rfl⟩
  | .dbl n, ty, bs, rest, hs, fuel, hwt, henc, hf => by
    simp only [need] at hf
    obtain ⟨f, rfl⟩ : ∃ f, fuel = f + 1 := ⟨fuel - 1, by omega⟩
    simp only [encVal] at henc; cases henc
    simp only [WT] at hwt
    obtain ⟨rfl, hn⟩ := hwt
    exact ⟨.dbl n, by simp [decVal, popLong_le n rest hn], rfl⟩
  | .bool b, ty, bs, rest, hs, fuel, hwt, henc, hf => by
    simp only [need] at hf
    obtain ⟨f, rfl⟩ : ∃ f, fuel = f + 1 := ⟨fuel - 1, by omega⟩
    simp only [encVal] at henc; cases henc
    simp only [WT] at hwt
    subst hwt
    exact ⟨.bool b, by simp [decVal, popBool_le b rest], rfl⟩
  | .str s, ty, bs, rest, hs, fuel, hwt, henc, hf => by
    simp only [need] at hf
    obtain ⟨f, rfl⟩ : ∃ f, fuel = f + 1 := ⟨fuel - 1, by omega⟩
    simp only [encVal] at henc
    simp only [WT] at hwt
    subst hwt
    exact ⟨.str s, by simp [decVal, popMessage_putMessage s rest bs henc], rfl⟩
  | .bytes isNil s, ty, bs, rest, hs, fuel, hwt, henc, hf => by
    simp only [need] at hf
    obtain ⟨f, rfl⟩ : ∃ f, fuel = f + 1 := ⟨fuel - 1, by omega⟩
    simp only [encVal] at henc
    simp only [WT] at hwt
    subst hwt
    exact ⟨.bytes false s, by simp [decVal, popMessage_putMessage s rest bs henc], by simp [erase]⟩
  | .big w n, ty, bs, rest, hs, fuel, hwt, henc, hf => by
    simp only [need] at hf
    obtain ⟨f, rfl⟩ : ∃ f, fuel = f + 1 := ⟨fuel - 1, by omega⟩
    simp only [WT] at hwt
    obtain ⟨hty, hn⟩ := hwt
    simp only [encVal, hn, if_true] at henc; cases henc
    rcases hty with ⟨rfl, rfl⟩ | ⟨rfl, rfl⟩
    · exact ⟨.big 16 n, by simp [decVal, popRaw16 n rest hn, fromBE_beBytes 16 n hn], rfl⟩
    · exact ⟨.big 32 n, by simp [decVal, popRaw32 n rest hn, fromBE_beBytes 32 n hn], rfl⟩
  | .null, ty, bs, rest, hs, fuel, hwt, henc, hf => by
    simp [WT] at hwt
  | .vec isNil items, ty, bs, rest, hs, fuel, hwt, henc, hf => by
    simp only [need] at hf
    obtain ⟨f, rfl⟩ : ∃ f, fuel = f + 3 := ⟨fuel - 3, by omega⟩
    simp only [WT] at hwt
    obtain ⟨e, rfl, hitems, hlen⟩ := hwt
    simp only [encVal] at henc
    split at henc
    · rename_i body hbody
      cases henc
      have hcount := encList_length R items body (WTL_big R e items hitems) hbody
      obtain ⟨items', hdec, her⟩ := rt_list R gz dp hR items e body rest hs (f + 1) hitems hbody (by omega)
      refine ⟨.vec false items', ?_, by simp [erase, her]⟩
      have h1 := popUint_le crcVector (leBytes items.length 4 ++ body ++ rest) (by decide)
      have h2 := popUint_le items.length (body ++ rest) hlen
      have hg : ¬ ((body ++ rest).length < items.length) := by simp; omega
      simp only [List.append_assoc] at h1 ⊢
      simp only [decVal, h1, decVecBody, h2, hg, if_false, hdec, ne_eq, not_true_eq_false]
    · cases henc
    · cases henc
  | .obj id fs, ty, bs, rest, hs, fuel, hwt, henc, hf => by
    simp only [need] at hf
    obtain ⟨f, rfl⟩ : ∃ f, fuel = f + 3 := ⟨fuel - 3, by omega⟩
    simp only [WT] at hwt
    simp only [encVal] at henc
    cases hfind : R.find id with
    | none => simp [hfind] at hwt
    | some d =>
      simp only [hfind] at hwt henc
      obtain ⟨hkind, hid, hty, hfields⟩ := hwt
      obtain ⟨hmem, _⟩ := find_mem R id d hfind
      obtain ⟨hwf, hnv, hnt, hnf, hnn, hidlt⟩ := hR d hmem
      simp only [hkind, hwf, Bool.not_true, Bool.false_eq_true, if_false] at henc
      split at henc
      · rename_i body hbody
        cases henc
        have hinv : FlagInv d.flagIndex 0 (flagWord d.fields fs) d.fields := by
          unfold FlagInv
          cases hk : d.flagIndex with
          | none => 
            simp only
            have hall : d.fields.all (fun f => f.flag.isNone) = true := by
              unfold wfDesc at hwf; simp only [hk] at hwf
              simp only [Bool.and_eq_true] at hwf; exact hwf.1
            exact (flagWord_untagged d.fields fs hall).symm
          | some k =>
            simp only
            unfold wfDesc at hwf; simp only [hk] at hwf
            simp only [Bool.and_eq_true] at hwf
            exact hwf.1.1.2
        have hcrc := popUint_le d.id (body ++ rest) hidlt
        rcases hty with rfl | ⟨nm, rfl, himpl⟩
        · obtain ⟨fs', hdec, her⟩ := rt_fields R gz dp hR fs d.fields (flagWord d.fields fs) 0 d.flagIndex body rest hs (f + 1)
            hfields (flagWord_lt _ _) hinv hbody (by omega)
          refine ⟨.obj d.id fs', ?_, by simp [erase, her, hid]⟩
          simp only [List.append_assoc, decVal, hfind, hkind, hcrc, ne_eq, not_true_eq_false, if_false,
            decStruct, hwf, Bool.not_true, Bool.false_eq_true, hdec]
        · obtain ⟨fs', hdec, her⟩ := rt_fields R gz dp hR fs d.fields (flagWord d.fields fs) 0 d.flagIndex body rest hs f
            hfields (flagWord_lt _ _) hinv hbody (by omega)
          refine ⟨.obj d.id fs', ?_, by simp [erase, her, hid]⟩
          have hfind' : R.find d.id = some d := by rw [hid]; exact hfind
          have h3 : ¬ (d.id = crcFalse ∨ d.id = crcTrue ∨ d.id = crcNull) := by
            intro h; rcases h with h | h | h <;> contradiction
          simp only [List.append_assoc, decVal, decRegistered, hcrc, hnv, if_false, hfind', hkind,
            decStruct, hwf, Bool.not_true, Bool.false_eq_true, hdec, Bool.or_eq_true, decide_eq_true_eq, h3]
          simp [convertible, hnt, hnf, hnn, hfind', himpl]
      · cases henc
      · cases henc

theorem rt_list (R : Registry) (gz : Bytes → Option Bytes) (dp : Nat) (hR : WFR R) :
    ∀ (items : List Val) (e : Ty) (bs rest : Bytes) (hs : List Ty) (fuel : Nat),
      WTL R e items → encList R items = .ok bs → needL items ≤ fuel →
      ∃ items', decItems R gz dp fuel e items.length (bs ++ rest) hs = .ok (items', rest, hs) ∧
        eraseL items' = eraseL items
  | [], e, bs, rest, hs, fuel, hwt, henc, hf => by
    simp only [encList] at henc; cases henc
    exact ⟨[], by cases fuel <;> simp [decItems], rfl⟩
  | v :: vs, e, bs, rest, hs, fuel, hwt, henc, hf => by
    simp only [needL] at hf
    obtain ⟨f, rfl⟩ : ∃ f, fuel = f + 1 := ⟨fuel - 1, by omega⟩
    simp only [WTL] at hwt
    simp only [encList] at henc
    split at henc
    · rename_i a ha
      split at henc
      · rename_i b hb
        cases henc
        obtain ⟨v', hv, hev⟩ := rt_val R gz dp hR v e a (b ++ rest) hs f hwt.1 ha (by omega)
        obtain ⟨vs', hvs, hevs⟩ := rt_list R gz dp hR vs e b rest hs f hwt.2 hb (by omega)
        refine ⟨v' :: vs', ?_, by simp [eraseL, hev, hevs]⟩
        simp only [List.length_cons, decItems, List.append_assoc, hv, hvs]
      · cases henc
      · cases henc
    · cases henc
    · cases henc

theorem rt_fields (R : Registry) (gz : Bytes → Option Bytes) (dp : Nat) (hR : WFR R) :
    ∀ (vs : List Val) (fs : List FieldDesc) (W W0 : Nat) (k : Option Nat) (bs rest : Bytes) (hs : List Ty) (fuel : Nat),
      WTF R W fs vs → W < 2 ^ 32 → FlagInv k W0 W fs →
      encFields R W k fs vs = .ok bs → needL vs ≤ fuel →
      ∃ vs', decFields R gz dp fuel k W0 fs (bs ++ rest) hs = .ok (vs', rest, hs) ∧ eraseL vs' = eraseL vs
  | [], fs, W, W0, k, bs, rest, hs, fuel, hwt, hW, hinv, henc, hf => by
    cases fs with
    | nil =>
      simp only [encFields] at henc; cases henc
      exact ⟨[], by cases fuel <;> simp [decFields], rfl⟩
    | cons f fs => simp [WTF] at hwt
  | v :: vs, fs, W, W0, k, bs, rest, hs, fuel, hwt, hW, hinv, henc, hf => by
    cases fs with
    | nil => simp [WTF] at hwt
    | cons fd fs =>
      simp only [needL] at hf
      obtain ⟨f, rfl⟩ : ∃ f, fuel = f + 1 := ⟨fuel - 1, by omega⟩
      simp only [WTF] at hwt
      obtain ⟨hfield, hrest⟩ := hwt
      -- the header: flags word in front of this field, or not
      simp only [encFields] at henc
      simp only [decFields]
      generalize hk' : nextK k = k' at henc ⊢
      have hhdr : ∀ bs', ∃ w,
          (if k = some 0 then popUint (((if k = some 0 then leBytes W 4 else []) ++ bs') ++ rest)
            else Outcome.ok (W0, ((if k = some 0 then leBytes W 4 else []) ++ bs') ++ rest)) = .ok (w, bs' ++ rest) ∧
          (w = W ∨ fd.flag = none) ∧ FlagInv k' w W fs := by
        intro bs'
        cases k with
        | none =>
          simp only [FlagInv] at hinv
          subst hk'
          exact ⟨W0, by simp, Or.inl hinv, by simp [FlagInv, hinv]⟩
        | some j =>
          cases j with
          | zero =>
            subst hk'
            refine ⟨W, ?_, Or.inl rfl, by simp [FlagInv]⟩
            simp only [if_true, List.append_assoc]
            exact popUint_le W (bs' ++ rest) hW
          | succ j =>
            subst hk'
            simp only [FlagInv, List.take_succ_cons, List.all_cons, Bool.and_eq_true] at hinv
            have hnone : fd.flag = none := by
              cases h : fd.flag with
              | none => rfl
              | some _ => simp [h] at hinv
            refine ⟨W0, by simp, Or.inr hnone, by simpa [FlagInv] using hinv.2⟩
      cases hflag : fd.flag with
      | none =>
        simp only [hflag] at henc hfield ⊢
        simp only [if_true] at henc
        split at henc
        · rename_i b hb
          split at henc
          · rename_i c hc
            cases henc
            obtain ⟨w, hw1, hw2, hw3⟩ := hhdr (b ++ c)
            obtain ⟨v', hv, hev⟩ := rt_val R gz dp hR v fd.ty b (c ++ rest) hs f hfield hb (by omega)
            obtain ⟨vs', hvs, hevs⟩ := rt_fields R gz dp hR vs fs W w k' c rest hs f hrest hW hw3 hc (by omega)
            refine ⟨v' :: vs', ?_, by simp [eraseL, hev, hevs]⟩
            simp only [List.append_assoc] at hw1 hv ⊢
            simp only [hw1, Bool.false_eq_true, if_false, hv, hvs]
          · cases henc
          · cases henc
        · cases henc
        · cases henc
      | some fl =>
        simp only [hflag] at henc hfield ⊢
        have hbit : (W / 2 ^ fl.bit) % 2 = 0 ∨ (W / 2 ^ fl.bit) % 2 = 1 := by omega
        by_cases hin : fl.inBits = true
        · -- encoded in the flags word itself: nothing written
          simp only [hin, if_true] at hfield
          obtain ⟨hty, hvb⟩ := hfield
          simp only [hin, Bool.not_true, Bool.and_false, Bool.false_eq_true, if_false] at henc
          split at henc
          · rename_i c hc
            cases henc
            obtain ⟨w, hw1, hw2, hw3⟩ := hhdr c
            have hwW : w = W := by
              rcases hw2 with h | h
              · exact h
              · rw [hflag] at h; cases h
            subst hwW
            obtain ⟨vs', hvs, hevs⟩ := rt_fields R gz dp hR vs fs w w k' c rest hs f hrest hW hw3 hc (by omega)
            simp only [hw1]
            rcases hbit with h0 | h1
            · refine ⟨zeroOf fd.ty :: vs', ?_, ?_⟩
              · simp [h0, hvs]
              · simp [eraseL, hevs, hty, zeroOf, hvb, bitSet, h0, erase]
            · refine ⟨.bool true :: vs', ?_, ?_⟩
              · simp [h1, hin, hvs]
              · simp [eraseL, hevs, hvb, bitSet, h1, erase]
          · cases henc
          · cases henc
        · have hin' : fl.inBits = false := by simpa using hin
          simp only [hin', Bool.false_eq_true, if_false] at hfield
          simp only [hin', Bool.not_false, Bool.and_true] at henc
          rcases hbit with h0 | h1
          · -- group absent: not written, stays zero
            have hbs : bitSet W fl.bit = false := by simp [bitSet, h0]
            simp only [hbs, Bool.false_eq_true, if_false] at hfield
            simp only [h0] at henc
            simp only [show ((0 : Nat) = 1) = False by simp, decide_false, Bool.false_eq_true, if_false] at henc
            split at henc
            · rename_i c hc
              cases henc
              obtain ⟨w, hw1, hw2, hw3⟩ := hhdr c
              have hwW : w = W := by
                rcases hw2 with h | h
                · exact h
                · rw [hflag] at h; cases h
              subst hwW
              obtain ⟨vs', hvs, hevs⟩ := rt_fields R gz dp hR vs fs w w k' c rest hs f hrest hW hw3 hc (by omega)
              simp only [hw1]
              refine ⟨zeroOf fd.ty :: vs', by simp [h0, hvs], by simp [eraseL, hevs, hfield]⟩
            · cases henc
            · cases henc
          · -- group present: written and read back
            have hbs : bitSet W fl.bit = true := by simp [bitSet, h1]
            simp only [hbs, if_true] at hfield
            simp only [h1, decide_true, if_true] at henc
            split at henc
            · rename_i b hb
              split at henc
              · rename_i c hc
                cases henc
                obtain ⟨w, hw1, hw2, hw3⟩ := hhdr (b ++ c)
                have hwW : w = W := by
                  rcases hw2 with h | h
                  · exact h
                  · rw [hflag] at h; cases h
                subst hwW
                obtain ⟨v', hv, hev⟩ := rt_val R gz dp hR v fd.ty b (c ++ rest) hs f hfield hb (by omega)
                obtain ⟨vs', hvs, hevs⟩ := rt_fields R gz dp hR vs fs w w k' c rest hs f hrest hW hw3 hc (by omega)
                refine ⟨v' :: vs', ?_, by simp [eraseL, hev, hevs]⟩
                simp only [List.append_assoc] at hw1 hv ⊢
                simp only [hw1, h1, hin', Bool.false_eq_true, if_false, hv, hvs]
                simp
              · cases henc
              · cases henc
            · cases henc
            · cases henc
end

end Mtv.TL
