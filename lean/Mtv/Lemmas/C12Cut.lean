/-
  C12 — helper lemmas about a write that is cut after `k` bytes (`Mtv/Session/Cut.lean`).
-/
import Mtv.Lemmas.C12Loader
import Mtv.Session.Cut
namespace Mtv.Session

theorem cutWrite_prefix (old new : Bytes) (k : Nat) : cutWrite old new k <+: new :=
  List.take_prefix k new

theorem cutWrite_full (old new : Bytes) (k : Nat) (h : new.length ≤ k) : cutWrite old new k = new :=
  List.take_of_length_le h

theorem cutWrite_ne (old new : Bytes) (k : Nat) (h : k < new.length) : cutWrite old new k ≠ new := by
  intro e
  have := congrArg List.length e
  simp only [cutWrite, List.length_take] at this
  omega

/-- a write of a session file cut before its end leaves a file `Load` rejects — whatever was at the path before -/
theorem readSession_cutWrite (old : Bytes) (s : Session) (k : Nat) (h : k < (writeSession s).length) :
    readSession (cutWrite old (writeSession s) k) = .err "syntax" :=
  readSession_prefix s _ (cutWrite_prefix old _ k) (cutWrite_ne old _ k h)

theorem classifyCut_cutWrite (older newer : Session) (hn : newer.Good) (old : Bytes) (k : Nat) :
    classifyCut older newer (cutWrite old (writeSession newer) k) =
      (if k < (writeSession newer).length then CutClass.error else CutClass.newer) := by
  unfold classifyCut
  by_cases h : k < (writeSession newer).length
  · rw [readSession_cutWrite old newer k h]; simp [h]
  · rw [cutWrite_full old _ k (by omega), readSession_writeSession newer hn]; simp [h]

/-- the in-place overwrite on the ordinary update of a session file (the salt changes, everything else stays): a cut
two characters into the salt leaves the two new characters followed by the old ones -/
def cutOlder : Session := { key := [1], hash := [], salt := 0, hostname := [] }
def cutNewer : Session := { key := [1], hash := [], salt := -1, hostname := [] }

theorem inPlace_witness :
    readSession (cutWriteInPlace (writeSession cutOlder) (writeSession cutNewer) 34) =
      .ok { key := [1], hash := [], salt := 61695, hostname := [] } := by
  decide +kernel

end Mtv.Session
