/-
  Helper lemmas for C06: the five stages of an exchange between the client machine and the conformant
  server (`ServerSpec`), each proved separately under `ExchangeHyps`; number conversions
  (`fromBE_bigBytes`, RSA round trip, DH identity), the fingerprint, conformant messages.
-/
import Mtv.Lemmas.C06Wire
import Mtv.Lemmas.C07Stages
import Mtv.Props.C05
namespace Mtv.Handshake
open Mtv Mtv.TL Mtv.Ige

theorem fromLE_append_zeros : ∀ (l : Bytes) (j : Nat), fromLE (l ++ zeros j) = fromLE l
  | [], j => by
    induction j with
    | zero => simp [zeros, fromLE]
    | succ j ih => simp only [zeros, List.replicate_succ, List.nil_append, fromLE] at ih ⊢; simp [ih]
  | b :: l, j => by simp [fromLE, fromLE_append_zeros l j]

theorem fromBE_bigBytes (n : Nat) : fromBE (bigBytes n) = n := by
  have hk : n < 256 ^ n := Nat.lt_of_lt_of_le (Nat.lt_two_pow_self) (Nat.pow_le_pow_left (by decide) n)
  have hs := leMinF_spec n n n (Nat.le_refl n) hk
  have h1 := fromLE_leBytes n n hk
  rw [hs.2, fromLE_append_zeros] at h1
  simp [fromBE, bigBytes, h1]

theorem fromBE_fixedBytes (n w : Nat) : fromBE (fixedBytes n w) = n := by
  unfold fixedBytes
  simp only
  split
  · exact fromBE_bigBytes n
  · rename_i hw
    simp only [fromBE, List.reverse_append]
    have : (zeros (w - (bigBytes n).length)).reverse = zeros (w - (bigBytes n).length) := by simp [zeros]
    rw [this, fromLE_append_zeros]
    exact fromBE_bigBytes n

theorem fromBE_intBytes (m : Bool) (n : Nat) : fromBE (intBytes m n) = n := by
  unfold intBytes; split
  · exact fromBE_bigBytes n
  · exact fromBE_fixedBytes n 256

theorem pow_facts : (256 : Nat) ^ 16 = 2 ^ 128 ∧ (256 : Nat) ^ 32 = 2 ^ 256 ∧ (256 : Nat) ^ 256 = 2 ^ 2048 ∧
    (256 : Nat) ^ 255 = 2 ^ 2040 := by
  refine ⟨?_, ?_, ?_, ?_⟩ <;> (rw [show (256 : Nat) = 2 ^ 8 from rfl, ← Nat.pow_mul])

theorem hyp_nonce {c : Cfg} {s : Secrets} (h : ExchangeHyps c s) : fromBE c.d.nonce < 256 ^ 16 := by
  have := fromBE_lt c.d.nonce; rwa [h.nonce] at this
theorem hyp_nn {c : Cfg} {s : Secrets} (h : ExchangeHyps c s) : fromBE c.d.newNonce < 256 ^ 32 := by
  have := fromBE_lt c.d.newNonce; rwa [h.newNonce] at this
theorem hyp_sn {c : Cfg} {s : Secrets} (h : ExchangeHyps c s) : s.serverNonce < 256 ^ 16 := by
  rw [pow_facts.1]; exact h.serverNonce

theorem p256_8 : (256 : Nat) ^ 8 = 2 ^ 64 := by rw [show (256 : Nat) = 2 ^ 8 from rfl, ← Nat.pow_mul]

/-- the client's fingerprint of its key is the description's -/
theorem fingerprint_eq_spec (H : Bytes → Bytes) (k : PubKey) (hn : k.n < 2 ^ 2048) (he : k.e < 2 ^ 63) :
    rsaFingerprint H k = specFingerprint H k := by
  have h1 : (bigBytes k.n).length < 2 ^ 24 := by
    have := bigBytes_length_le k.n 256 (by rw [pow_facts.2.2.1]; exact hn)
    omega
  have h2 : (bigBytes k.e).length < 2 ^ 24 := by
    have h8 : k.e < 256 ^ 8 := by rw [p256_8]; omega
    have := bigBytes_length_le k.e 8 h8
    omega
  simp [rsaFingerprint, rsaFingerprintBytes, specFingerprint, putMessage_eq _ h1, putMessage_eq _ h2, slice]

theorem specFingerprint_lt (H : Bytes → Bytes) (k : PubKey) : specFingerprint H k < 2 ^ 64 := by
  unfold specFingerprint
  generalize hx : ((H (tlString (bigBytes k.n) ++ tlString (bigBytes k.e))).drop 12).take 8 = x
  have hl : x.length ≤ 8 := by rw [← hx, List.length_take]; omega
  have h1 := fromLE_lt x
  have hp : (256 : Nat) ^ x.length ≤ 256 ^ 8 := Nat.pow_le_pow_right (by decide) hl
  have := p256_8
  omega

/-- **Stage 1 (req_pq).** The client's first request is understood by the conformant server, which
answers `resPQ(nonce, server_nonce, pq, fingerprints)` with the client's nonce. -/
theorem stageA {c : Cfg} {s : Secrets} (h : ExchangeHyps c s) :
    ∃ req1 r1, marshalSend c.R (vReqPQ (fromBE c.d.nonce)) = .ok req1 ∧
      srvResPQ c.R c.P c.key s req1 = some (fromBE c.d.nonce, r1) ∧
      marshal c.R (vResPQ (fromBE c.d.nonce) s.serverNonce (bigBytes (s.p * s.q))
        (s.offered (specFingerprint c.P.H c.key))) = .ok r1 ∧
      (s.offered (specFingerprint c.P.H c.key)).length ≤ r1.length := by
  obtain ⟨req1, hreq1⟩ := marshal_reqPQ h.reg _ (hyp_nonce h)
  have hpq : (bigBytes (s.p * s.q)).length < 2 ^ 24 := by
    have hlt : s.p * s.q < 256 ^ 8 := by
      have h8 := p256_8
      have hm := Nat.mul_lt_mul'' h.p32 h.q32
      have e : (2:Nat)^32 * 2^32 = 2^64 := by rw [← Nat.pow_add]
      omega
    have := bigBytes_length_le _ 8 hlt; omega
  obtain ⟨r1, hr1, hlen⟩ := marshal_resPQ h.reg (fromBE c.d.nonce) s.serverNonce (bigBytes (s.p * s.q))
    (s.offered (specFingerprint c.P.H c.key)) (hyp_nonce h) (hyp_sn h) hpq
  refine ⟨req1, r1, by simp [marshalSend, hreq1], ?_, hr1, hlen⟩
  obtain ⟨v', hdec, her⟩ := decode_marshal c.R c.P.gunzip h.wfr _ req1 (wt_reqPQ h.reg _ (hyp_nonce h)) hreq1
    (by simp [vReqPQ, need, needL, fuelFor])
  rw [shape_reqPQ her] at hdec
  simp [srvResPQ, hdec, hr1]

theorem recvService_of_decode {c : Cfg} {r : Bytes} {v : Val}
    (h : decodeUnknown c.R c.P.gunzip (fuelFor r) [] r = .ok v) (hid : objId v ≠ some idRpcError) :
    recvService c r = .ok v := by
  simp [recvService, h, hid]

theorem pq_len {s : Secrets} (hp : s.p < 2 ^ 32) (hq : s.q < 2 ^ 32) :
    (bigBytes (s.p * s.q)).length ≤ 8 ∧ (bigBytes s.p).length ≤ 4 ∧ (bigBytes s.q).length ≤ 4 := by
  have h4 : (256 : Nat) ^ 4 = 2 ^ 32 := by rw [show (256 : Nat) = 2 ^ 8 from rfl, ← Nat.pow_mul]
  have hlt : s.p * s.q < 256 ^ 8 := by
    have h8 := p256_8
    have hm := Nat.mul_lt_mul'' hp hq
    have e : (2:Nat)^32 * 2^32 = 2^64 := by rw [← Nat.pow_add]
    omega
  exact ⟨bigBytes_length_le _ 8 hlt, bigBytes_length_le _ 4 (by omega), bigBytes_length_le _ 4 (by omega)⟩

/-- **Stage 2, client side.** `resPQ` passes the client's checks (nonce, fingerprint), `pq` is split,
`p_q_inner_data` is built and RSA-encrypted, `req_DH_params` goes out. -/
theorem stageB_client {c : Cfg} {s : Secrets} (h : ExchangeHyps c s) {r1 : Bytes}
    (hr1 : marshal c.R (vResPQ (fromBE c.d.nonce) s.serverNonce (bigBytes (s.p * s.q))
        (s.offered (specFingerprint c.P.H c.key))) = .ok r1)
    (hlen : (s.offered (specFingerprint c.P.H c.key)).length ≤ r1.length) :
    ∃ m req2, marshal c.R (vPQInner (bigBytes (s.p * s.q)) (bigBytes s.p) (bigBytes s.q) (fromBE c.d.nonce)
          s.serverNonce (fromBE c.d.newNonce)) = .ok m ∧ m.length ≤ 105 ∧
      marshal c.R (vReqDH (fromBE c.d.nonce) s.serverNonce (bigBytes s.p) (bigBytes s.q) (specFingerprint c.P.H c.key)
        (beBytes (powMod (fromBE (c.P.H m ++ m ++ zeros (255 - (c.P.H m ++ m).length))) c.key.e c.key.n) 256)) = .ok req2 ∧
      stage1 c r1 = .ok ⟨s.serverNonce, req2⟩ := by
  obtain ⟨l8, l4p, l4q⟩ := pq_len h.p32 h.q32
  have hfpl := specFingerprint_lt c.P.H c.key
  -- the client decodes resPQ
  obtain ⟨v', hdec, her⟩ := decode_marshal c.R c.P.gunzip h.wfr _ r1
    (wt_resPQ h.reg _ _ _ _ (hyp_nonce h) (hyp_sn h)
      (by intro f hf
          simp only [Secrets.offered, List.mem_append, List.mem_cons] at hf
          rcases hf with hf | hf | hf
          · exact h.fps f (List.mem_append.mpr (Or.inl hf))
          · rw [hf]; exact hfpl
          · exact h.fps f (List.mem_append.mpr (Or.inr hf)))
      (by have := h.fpsLen; simp only [Secrets.offered, List.length_append, List.length_cons]; omega)) hr1
    (by have := need_resPQ (fromBE c.d.nonce) s.serverNonce (bigBytes (s.p * s.q)) (s.offered (specFingerprint c.P.H c.key))
        unfold fuelFor; omega)
  obtain ⟨b1, b2, rfl⟩ := shape_resPQ her
  have hrecv := recvService_of_decode hdec (by simp [objId, idResPQ, idRpcError])
  -- p_q_inner_data
  obtain ⟨m, hm, hml⟩ := marshal_pqInner_len h.reg (bigBytes (s.p * s.q)) (bigBytes s.p) (bigBytes s.q)
    (fromBE c.d.nonce) s.serverNonce (fromBE c.d.newNonce) (by omega) (by omega) (by omega) (hyp_nonce h) (hyp_sn h) (hyp_nn h)
  have hm105 : m.length ≤ 105 := by omega
  have hblock : copyAt (zeros 255) 0 (c.P.H m ++ m) = c.P.H m ++ m ++ zeros (255 - (c.P.H m ++ m).length) :=
    copyAt_zeros_prefix 255 _ (by simp [h.hlen]; omega)
  have hbl : (c.P.H m ++ m ++ zeros (255 - (c.P.H m ++ m).length)).length = 255 := by
    simp [h.hlen]; omega
  have hn0 : 0 < c.key.n := Nat.lt_of_lt_of_le (Nat.two_pow_pos 2047) h.keyLo
  have hfit : c.key.n ≤ 256 ^ 256 := by rw [pow_facts.2.2.1]; exact Nat.le_of_lt h.keyHi
  have henc := doRSAencrypt_eq _ c.key.n c.key.e hbl hn0 hfit
  generalize henc' : beBytes (powMod (fromBE (c.P.H m ++ m ++ zeros (255 - (c.P.H m ++ m).length))) c.key.e c.key.n) 256 = enc at henc ⊢
  have hel : enc.length = 256 := by rw [← henc']; simp
  obtain ⟨req2, hreq2⟩ := marshal_reqDH h.reg (fromBE c.d.nonce) s.serverNonce (bigBytes s.p) (bigBytes s.q)
    (specFingerprint c.P.H c.key) enc (by omega) (by omega) (by omega) (hyp_nonce h) (hyp_sn h)
  refine ⟨m, req2, hm, hm105, by rw [henc']; exact hreq2, ?_⟩
  have hfp := fingerprint_eq_spec c.P.H c.key h.keyHi h.keyE
  have hview : asResPQ (Val.obj idResPQ [Val.big 16 (fromBE c.d.nonce), Val.big 16 s.serverNonce,
      Val.bytes b1 (bigBytes (s.p * s.q)), Val.vec b2 (List.map Val.long (s.offered (specFingerprint c.P.H c.key)))])
      = some ⟨fromBE c.d.nonce, s.serverNonce, bigBytes (s.p * s.q), s.offered (specFingerprint c.P.H c.key)⟩ := by
    simp only [asResPQ, longsOf_longs, if_true]
  have hcont : (s.offered (specFingerprint c.P.H c.key)).contains (rsaFingerprint c.P.H c.key) = true := by
    rw [hfp]; simp [Secrets.offered]
  have hmc : marshalCheck c.R (vPQInner (bigBytes (s.p * s.q)) (bigBytes s.p) (bigBytes s.q) (fromBE c.d.nonce)
      s.serverNonce (fromBE c.d.newNonce)) = .ok m := by simp [marshalCheck, hm]
  have hms : marshalSend c.R (vReqDH (fromBE c.d.nonce) s.serverNonce (bigBytes s.p) (bigBytes s.q)
      (rsaFingerprint c.P.H c.key) enc) = .ok req2 := by rw [hfp]; simp [marshalSend, hreq2]
  have hrsa : liftPanic (doRSAencrypt (copyAt (zeros 255) 0 (c.P.H m ++ m)) c.key.n c.key.e) = .ok enc := by
    rw [hblock, henc]; rfl
  unfold stage1
  simp only [bind, Except.bind, pure, Except.pure, throw, throwThe, MonadExceptOf.throw, hrecv, hview,
    ne_eq, not_true_eq_false, if_false, hcont, Bool.not_true, Bool.false_eq_true, fromBE_bigBytes, h.split,
    hmc, hrsa, hms]

theorem intBytes_length (m : Bool) (x : Nat) (hx : x < 2 ^ 2048) : (intBytes m x).length ≤ 256 := by
  have hx' : x < 256 ^ 256 := by rw [pow_facts.2.2.1]; exact hx
  unfold intBytes; split
  · exact bigBytes_length_le x 256 hx'
  · rw [fixedBytes_eq_beBytes x 256 hx']; simp
theorem tempKeySpec_iv_length (H : Bytes → Bytes) (hH : ∀ x, (H x).length = 20) (nn sn : Bytes) (hnn : nn.length = 32) :
    (tempKeySpec H nn sn).2.length = 32 := by
  simp [tempKeySpec, hH, hnn]
theorem conformantMsg_length (H : Bytes → Bytes) (E D : Bytes → Bytes → Bytes) (hc : ∀ k, IsBlockCipher (E k) (D k))
    (hH : ∀ x, (H x).length = 20) (nn sn a pad : Bytes) (hnn : nn.length = 32)
    (hal : (20 + a.length + pad.length) % 16 = 0) :
    (conformantMsg H E nn sn a pad).length = 20 + a.length + pad.length := by
  have hlen : (H a ++ a ++ pad).length = 20 + a.length + pad.length := by simp [hH]; omega
  unfold conformantMsg
  rw [igeEncBytes_length _ _ (hc _) _ _ (tempKeySpec_iv_length H hH nn sn hnn) (by rw [hlen]; exact hal), hlen]

/-- the RSA step: the server's private exponent recovers the client's 255-byte block -/
theorem rsa_roundtrip {c : Cfg} {s : Secrets} (h : ExchangeHyps c s) (block : Bytes) (hb : block.length = 255) :
    powMod (fromBE (beBytes (powMod (fromBE block) c.key.e c.key.n) 256)) s.d c.key.n = fromBE block ∧
    fromBE block < 256 ^ 255 := by
  have hz : fromBE block < 256 ^ 255 := by have := fromBE_lt block; rwa [hb] at this
  have hzn : fromBE block < c.key.n := by
    have h1 : (256 : Nat) ^ 255 = 2 ^ 2040 := pow_facts.2.2.2
    have h2 : (2 : Nat) ^ 2040 ≤ 2 ^ 2047 := Nat.pow_le_pow_right (by decide) (by decide)
    have := h.keyLo
    omega
  have hn0 : 0 < c.key.n := Nat.lt_of_le_of_lt (Nat.zero_le _) hzn
  have hc : powMod (fromBE block) c.key.e c.key.n < 256 ^ 256 := by
    have := powMod_lt (fromBE block) c.key.e c.key.n hn0
    have := h.keyHi
    rw [pow_facts.2.2.1]; omega
  refine ⟨?_, hz⟩
  rw [fromBE_beBytes 256 _ hc, powMod_eq, powMod_eq, ← Nat.pow_mod]
  exact h.rsa _ hzn

/-- **Stage 2, server side.** The conformant server decrypts the RSA block, finds `p_q_inner_data`
with the right SHA-1, takes `new_nonce` and answers `server_DH_params_ok`. -/
theorem stageB_server {c : Cfg} {s : Secrets} (h : ExchangeHyps c s) {m req2 : Bytes}
    (hm : marshal c.R (vPQInner (bigBytes (s.p * s.q)) (bigBytes s.p) (bigBytes s.q) (fromBE c.d.nonce)
          s.serverNonce (fromBE c.d.newNonce)) = .ok m) (hml : m.length ≤ 105)
    (hreq2 : marshal c.R (vReqDH (fromBE c.d.nonce) s.serverNonce (bigBytes s.p) (bigBytes s.q) (specFingerprint c.P.H c.key)
        (beBytes (powMod (fromBE (c.P.H m ++ m ++ zeros (255 - (c.P.H m ++ m).length))) c.key.e c.key.n) 256)) = .ok req2) :
    ∃ answer r2, marshal c.R (srvAnswerVal c s) = .ok answer ∧ answer.length ≤ 570 ∧
      marshal c.R (vDHOk (fromBE c.d.nonce) s.serverNonce
        (conformantMsg c.P.H c.P.E (beBytes (fromBE c.d.newNonce) 32) (beBytes s.serverNonce 16) answer
          (s.pad.take (tempPadLen (20 + answer.length))))) = .ok r2 ∧
      srvDH c.R c.P c.key s (fromBE c.d.nonce) req2 = some (fromBE c.d.newNonce, r2) := by
  have hfpl := specFingerprint_lt c.P.H c.key
  have hgaLt : powMod s.g s.a s.dhPrime < 2 ^ 2048 := Nat.lt_trans (powMod_lt _ _ _ h.dhPos) h.dhFit
  -- the server's answer
  obtain ⟨answer, hans, hansl⟩ := marshal_inner_len h.reg (fromBE c.d.nonce) s.serverNonce s.g
    (intBytes s.minimal s.dhPrime) (intBytes s.minimal (powMod s.g s.a s.dhPrime)) s.time
    (by have := intBytes_length s.minimal _ h.dhFit; omega) (by have := intBytes_length s.minimal _ hgaLt; omega)
    (hyp_nonce h) (hyp_sn h)
  have hans570 : answer.length ≤ 570 := by
    have a := intBytes_length s.minimal _ h.dhFit
    have b := intBytes_length s.minimal _ hgaLt
    omega
  have hpadspec := tempPadLen_spec (20 + answer.length)
  have hpadl : (s.pad.take (tempPadLen (20 + answer.length))).length = tempPadLen (20 + answer.length) := by
    have := h.pad; simp; omega
  have hencl := conformantMsg_length c.P.H c.P.E c.P.D h.cipher h.hlen (beBytes (fromBE c.d.newNonce) 32)
    (beBytes s.serverNonce 16) answer (s.pad.take (tempPadLen (20 + answer.length))) (by simp)
    (by rw [hpadl]; exact hpadspec.2)
  obtain ⟨r2, hr2⟩ := marshal_dhOk h.reg (fromBE c.d.nonce) s.serverNonce
    (conformantMsg c.P.H c.P.E (beBytes (fromBE c.d.newNonce) 32) (beBytes s.serverNonce 16) answer
      (s.pad.take (tempPadLen (20 + answer.length)))) (by rw [hencl, hpadl]; omega) (hyp_nonce h) (hyp_sn h)
  refine ⟨answer, r2, hans, hans570, hr2, ?_⟩
  -- the server reads req_DH_params
  obtain ⟨v', hdec, her⟩ := decode_marshal c.R c.P.gunzip h.wfr _ req2
    (wt_reqDH h.reg _ _ _ _ _ _ (hyp_nonce h) (hyp_sn h) hfpl) hreq2 (by simp [vReqDH, need, needL, fuelFor])
  obtain ⟨b1, b2, b3, rfl⟩ := shape_reqDH her
  -- RSA
  have hbl : (c.P.H m ++ m ++ zeros (255 - (c.P.H m ++ m).length)).length = 255 := by simp [h.hlen]; omega
  obtain ⟨hrt, hz⟩ := rsa_roundtrip h _ hbl
  have hblock : beBytes (fromBE (c.P.H m ++ m ++ zeros (255 - (c.P.H m ++ m).length))) 255
      = c.P.H m ++ m ++ zeros (255 - (c.P.H m ++ m).length) := beBytes_fromBE' _ 255 hbl
  have hdrop : (c.P.H m ++ m ++ zeros (255 - (c.P.H m ++ m).length)).drop 20 = m ++ zeros (255 - (c.P.H m ++ m).length) := by
    rw [List.append_assoc, List.drop_append_of_le_length (by rw [h.hlen]; omega), List.drop_of_length_le (by rw [h.hlen]; omega)]
    rfl
  have htake : (c.P.H m ++ m ++ zeros (255 - (c.P.H m ++ m).length)).take 20 = c.P.H m := by
    rw [List.append_assoc, List.take_append_of_le_length (by rw [h.hlen]; omega), List.take_of_length_le (by rw [h.hlen]; omega)]
  obtain ⟨vi, hhead, heri⟩ := headObject_marshal c.R c.P h.wfr _ m (zeros (255 - (c.P.H m ++ m).length))
    (wt_pqInner h.reg _ _ _ _ _ _ (hyp_nonce h) (hyp_sn h) (hyp_nn h)) hm (by simp [vPQInner, need, needL])
  obtain ⟨c1, c2, c3, rfl⟩ := shape_pqInner heri
  have hnn32 : fromBE c.d.newNonce < 256 ^ 32 := hyp_nn h
  unfold srvDH
  simp only [hdec, fromBE_bigBytes, hrt, hz, hblock, hdrop, htake, hhead, beBytes_length]
  simp only [ne_eq, not_true_eq_false, or_self, if_false, hans, hr2]

theorem baseOfG_small (g P : Nat) (hg : g < 2 ^ 31) : baseOfG g P = g % P := by
  unfold baseOfG toSigned
  have : g < 2 ^ (32 - 1) := hg
  rw [if_pos this]
  omega

theorem powMod_base_mod (g b P : Nat) : powMod (g % P) b P = powMod g b P := by
  rw [powMod_eq, powMod_eq, ← Nat.pow_mod]

theorem slice_eq (b : Bytes) (lo hi : Nat) : slice b lo hi = (b.drop lo).take (hi - lo) := rfl

/-- **Stage 3 (the DH answer).** The client checks `server_DH_params_ok`, decrypts the answer
(SHA-1 prefix matches at the right cut point), checks the inner data, computes `g_b`, the auth key
`g^(ab) mod dh_prime` as 256 bytes, `new_nonce_hash1`, the salt, and sends `set_client_DH_params`. -/
theorem stageC_client {c : Cfg} {s : Secrets} (h : ExchangeHyps c s) {answer r2 : Bytes}
    (hans : marshal c.R (srvAnswerVal c s) = .ok answer)
    (hr2 : marshal c.R (vDHOk (fromBE c.d.nonce) s.serverNonce
        (conformantMsg c.P.H c.P.E (beBytes (fromBE c.d.newNonce) 32) (beBytes s.serverNonce 16) answer
          (s.pad.take (tempPadLen (20 + answer.length))))) = .ok r2) :
    ∃ msg req3, marshal c.R (cliInnerVal c s) = .ok msg ∧ msg.length ≤ 320 ∧
      marshal c.R (vSetClientDH (fromBE c.d.nonce) s.serverNonce
        (conformantMsg c.P.H c.P.E (beBytes (fromBE c.d.newNonce) 32) (beBytes s.serverNonce 16) msg
          (c.d.rnd.take (tempPadLen (20 + msg.length))))) = .ok req3 ∧
      stage2 c s.serverNonce r2 = .ok
        ⟨beBytes (s.g ^ (s.a * fromBE c.d.b) % s.dhPrime) 256,
         slice (c.P.H (beBytes (s.g ^ (s.a * fromBE c.d.b) % s.dhPrime) 256)) 12 20,
         specSalt (beBytes (fromBE c.d.newNonce) 32) (beBytes s.serverNonce 16),
         specNonceHash c.P.H (beBytes (fromBE c.d.newNonce) 32) 1 (beBytes (s.g ^ (s.a * fromBE c.d.b) % s.dhPrime) 256),
         req3⟩ := by
  have hnn256 : fromBE c.d.newNonce < 2 ^ 256 := by have := hyp_nn h; rwa [pow_facts.2.1] at this
  have hgaLt : powMod s.g s.a s.dhPrime < 2 ^ 2048 := Nat.lt_trans (powMod_lt _ _ _ h.dhPos) h.dhFit
  have hgbLt : powMod s.g (fromBE c.d.b) s.dhPrime < 2 ^ 2048 := Nat.lt_trans (powMod_lt _ _ _ h.dhPos) h.dhFit
  have hgbl : (bigBytes (powMod s.g (fromBE c.d.b) s.dhPrime)).length ≤ 256 :=
    bigBytes_length_le _ 256 (by rw [pow_facts.2.2.1]; exact hgbLt)
  -- the client's DH message
  obtain ⟨msg, hmsg, hmsgl⟩ := marshal_clientInner_len h.reg (fromBE c.d.nonce) s.serverNonce 0
    (bigBytes (powMod s.g (fromBE c.d.b) s.dhPrime)) (by omega) (hyp_nonce h) (hyp_sn h)
  have hpadspec := tempPadLen_spec (20 + msg.length)
  have hpadl : (c.d.rnd.take (tempPadLen (20 + msg.length))).length = tempPadLen (20 + msg.length) := by
    have := h.rnd; simp; omega
  have hctl := conformantMsg_length c.P.H c.P.E c.P.D h.cipher h.hlen (beBytes (fromBE c.d.newNonce) 32)
    (beBytes s.serverNonce 16) msg (c.d.rnd.take (tempPadLen (20 + msg.length))) (by simp)
    (by rw [hpadl]; exact hpadspec.2)
  obtain ⟨req3, hreq3⟩ := marshal_setClientDH h.reg (fromBE c.d.nonce) s.serverNonce
    (conformantMsg c.P.H c.P.E (beBytes (fromBE c.d.newNonce) 32) (beBytes s.serverNonce 16) msg
      (c.d.rnd.take (tempPadLen (20 + msg.length)))) (by rw [hctl, hpadl]; omega) (hyp_nonce h) (hyp_sn h)
  refine ⟨msg, req3, hmsg, by omega, hreq3, ?_⟩
  -- the client decodes server_DH_params_ok
  have hpadA := tempPadLen_spec (20 + answer.length)
  have hpadAl : (s.pad.take (tempPadLen (20 + answer.length))).length = tempPadLen (20 + answer.length) := by
    have := h.pad; simp; omega
  obtain ⟨v', hdec, her⟩ := decode_marshal c.R c.P.gunzip h.wfr _ r2
    (wt_dhOk h.reg _ _ _ (hyp_nonce h) (hyp_sn h)) hr2 (by simp [vDHOk, need, needL, fuelFor])
  obtain ⟨b1, rfl⟩ := shape_triple her
  have hrecv := recvService_of_decode hdec (by simp [objId, idDHOk, idRpcError])
  -- the answer is decrypted
  have hdecr := decryptTemp_of_conformant c.P.H c.P.E c.P.D h.cipher h.hlen (fromBE c.d.newNonce) s.serverNonce
    hnn256 h.serverNonce answer (s.pad.take (tempPadLen (20 + answer.length))) (by rw [hpadAl]; omega)
    (by rw [hpadAl]; have := hpadA.2; omega) (h.colAnswer answer hans)
  have hdda : decryptDHAnswer c (conformantMsg c.P.H c.P.E (beBytes (fromBE c.d.newNonce) 32) (beBytes s.serverNonce 16) answer
      (s.pad.take (tempPadLen (20 + answer.length)))) (fromBE c.d.newNonce) s.serverNonce = .ok answer := by
    simp [decryptDHAnswer, hdecr]
  -- and decoded
  obtain ⟨vi, hdeci, heri⟩ := decode_marshal c.R c.P.gunzip h.wfr _ answer
    (wt_inner h.reg _ _ _ _ _ _ (hyp_nonce h) (hyp_sn h) (by have := h.g; omega) h.time) hans
    (by simp [srvAnswerVal, vInner, need, needL, fuelFor])
  obtain ⟨d1, d2, rfl⟩ := shape_inner heri
  -- the numbers
  have hP : fromBE (intBytes s.minimal s.dhPrime) = s.dhPrime := fromBE_intBytes _ _
  have hGA : fromBE (intBytes s.minimal (powMod s.g s.a s.dhPrime)) = powMod s.g s.a s.dhPrime := fromBE_intBytes _ _
  have hP0 : ¬ s.dhPrime = 0 := Nat.pos_iff_ne_zero.mp h.dhPos
  have hgB : powMod (baseOfG s.g s.dhPrime) (fromBE c.d.b) s.dhPrime = powMod s.g (fromBE c.d.b) s.dhPrime := by
    rw [baseOfG_small _ _ h.g, powMod_base_mod]
  have hgAB : powMod (powMod s.g s.a s.dhPrime) (fromBE c.d.b) s.dhPrime = s.g ^ (s.a * fromBE c.d.b) % s.dhPrime :=
    (dh_agree s.g s.a (fromBE c.d.b) s.dhPrime).1
  have hkey : authKeyBytes (s.g ^ (s.a * fromBE c.d.b) % s.dhPrime) = beBytes (s.g ^ (s.a * fromBE c.d.b) % s.dhPrime) 256 := by
    unfold authKeyBytes
    exact fixedBytes_eq_beBytes _ 256 (by
      rw [pow_facts.2.2.1]; exact Nat.lt_trans (Nat.mod_lt _ h.dhPos) h.dhFit)
  have hmc : marshalCheck c.R (vClientInner (fromBE c.d.nonce) s.serverNonce 0
      (bigBytes (powMod s.g (fromBE c.d.b) s.dhPrime))) = .ok msg := by simp [marshalCheck, hmsg]
  have henc := (encryptTemp_conformant c.P.H c.P.E h.hlen msg (fromBE c.d.newNonce) s.serverNonce hnn256
    h.serverNonce c.d.rnd h.rnd).1
  have hms : marshalSend c.R (vSetClientDH (fromBE c.d.nonce) s.serverNonce
      (conformantMsg c.P.H c.P.E (beBytes (fromBE c.d.newNonce) 32) (beBytes s.serverNonce 16) msg
        (c.d.rnd.take (tempPadLen (20 + msg.length))))) = .ok req3 := by simp [marshalSend, hreq3]
  have hview : asDHOk (Val.obj idDHOk [Val.big 16 (fromBE c.d.nonce), Val.big 16 s.serverNonce, Val.bytes b1
      (conformantMsg c.P.H c.P.E (beBytes (fromBE c.d.newNonce) 32) (beBytes s.serverNonce 16) answer
        (s.pad.take (tempPadLen (20 + answer.length))))]) = some ⟨fromBE c.d.nonce, s.serverNonce,
      conformantMsg c.P.H c.P.E (beBytes (fromBE c.d.newNonce) 32) (beBytes s.serverNonce 16) answer
        (s.pad.take (tempPadLen (20 + answer.length)))⟩ := by simp only [asDHOk, if_true]
  have hviewi : asInner (Val.obj idInner [Val.big 16 (fromBE c.d.nonce), Val.big 16 s.serverNonce, Val.word s.g,
      Val.bytes d1 (intBytes s.minimal s.dhPrime), Val.bytes d2 (intBytes s.minimal (powMod s.g s.a s.dhPrime)),
      Val.word s.time]) = some ⟨fromBE c.d.nonce, s.serverNonce, s.g, intBytes s.minimal s.dhPrime,
        intBytes s.minimal (powMod s.g s.a s.dhPrime)⟩ := by simp only [asInner, if_true]
  have hisd : isServerDHParams (Val.obj idDHOk [Val.big 16 (fromBE c.d.nonce), Val.big 16 s.serverNonce, Val.bytes b1
      (conformantMsg c.P.H c.P.E (beBytes (fromBE c.d.newNonce) 32) (beBytes s.serverNonce 16) answer
        (s.pad.take (tempPadLen (20 + answer.length))))]) = true := by simp [isServerDHParams, objId]
  unfold stage2
  simp only [bind, Except.bind, pure, Except.pure, throw, throwThe, MonadExceptOf.throw, hrecv, hisd, hview,
    Bool.not_true, Bool.false_eq_true, ne_eq, not_true_eq_false, if_false, hdda, hdeci, hviewi, hP, hGA, hP0,
    bigIntBytes_ok _ _ (hyp_nn h), bigIntBytes_ok _ _ (hyp_sn h), liftPanic, hgB, hgAB, hkey, hmc, henc, hms]
  simp [specSalt, specNonceHash, slice_eq]

theorem conformantMsg_decrypt (H : Bytes → Bytes) (E D : Bytes → Bytes → Bytes) (hc : ∀ k, IsBlockCipher (E k) (D k))
    (hH : ∀ x, (H x).length = 20) (nn sn a pad : Bytes) (hnn : nn.length = 32)
    (hal : (20 + a.length + pad.length) % 16 = 0) :
    igeDecBytes (D (tempKeySpec H nn sn).1) (tempKeySpec H nn sn).2 (conformantMsg H E nn sn a pad) = H a ++ a ++ pad := by
  have hlen : (H a ++ a ++ pad).length = 20 + a.length + pad.length := by simp [hH]; omega
  unfold conformantMsg
  exact igeDecBytes_igeEncBytes _ _ (hc _) _ _ (tempKeySpec_iv_length H hH nn sn hnn) (by rw [hlen]; exact hal)

theorem specNonceHash_length (H : Bytes → Bytes) (hH : ∀ x, (H x).length = 20) (nn : Bytes) (n : UInt8) (k : Bytes) :
    (specNonceHash H nn n k).length = 16 := by
  simp [specNonceHash, hH]

/-- **Stage 4 (auth key and salt on the server).** The conformant server decrypts
`set_client_DH_params`, finds `client_DH_inner_data` with the right SHA-1 and at most 15 padding
bytes, accepts `g_b`, computes the same `g^(ab) mod dh_prime` as 256 bytes, the salt and
`new_nonce_hash1`, and answers `dh_gen_ok`. -/
theorem stageD_server {c : Cfg} {s : Secrets} (h : ExchangeHyps c s) {msg req3 : Bytes}
    (hmsg : marshal c.R (cliInnerVal c s) = .ok msg) (hmsgl : msg.length ≤ 320)
    (hreq3 : marshal c.R (vSetClientDH (fromBE c.d.nonce) s.serverNonce
        (conformantMsg c.P.H c.P.E (beBytes (fromBE c.d.newNonce) 32) (beBytes s.serverNonce 16) msg
          (c.d.rnd.take (tempPadLen (20 + msg.length))))) = .ok req3) :
    ∃ r3, marshal c.R (vDHGenOk (fromBE c.d.nonce) s.serverNonce
          (fromBE (specNonceHash c.P.H (beBytes (fromBE c.d.newNonce) 32) 1 (beBytes (s.g ^ (s.a * fromBE c.d.b) % s.dhPrime) 256)))) = .ok r3 ∧
      srvGen c.R c.P s (fromBE c.d.nonce) (fromBE c.d.newNonce) req3 = some
        (⟨beBytes (s.g ^ (s.a * fromBE c.d.b) % s.dhPrime) 256,
          specSalt (beBytes (fromBE c.d.newNonce) 32) (beBytes s.serverNonce 16),
          specNonceHash c.P.H (beBytes (fromBE c.d.newNonce) 32) 1 (beBytes (s.g ^ (s.a * fromBE c.d.b) % s.dhPrime) 256)⟩, r3) := by
  have hhl := specNonceHash_length c.P.H h.hlen (beBytes (fromBE c.d.newNonce) 32) 1 (beBytes (s.g ^ (s.a * fromBE c.d.b) % s.dhPrime) 256)
  have hhlt : fromBE (specNonceHash c.P.H (beBytes (fromBE c.d.newNonce) 32) 1 (beBytes (s.g ^ (s.a * fromBE c.d.b) % s.dhPrime) 256)) < 256 ^ 16 := by
    have := fromBE_lt (specNonceHash c.P.H (beBytes (fromBE c.d.newNonce) 32) 1 (beBytes (s.g ^ (s.a * fromBE c.d.b) % s.dhPrime) 256))
    rwa [hhl] at this
  obtain ⟨r3, hr3⟩ := marshal_dhGenOk h.reg (fromBE c.d.nonce) s.serverNonce _ (hyp_nonce h) (hyp_sn h) hhlt
  refine ⟨r3, hr3, ?_⟩
  have hpadspec := tempPadLen_spec (20 + msg.length)
  have hpadl : (c.d.rnd.take (tempPadLen (20 + msg.length))).length = tempPadLen (20 + msg.length) := by
    have := h.rnd; simp; omega
  have hal : (20 + msg.length + (c.d.rnd.take (tempPadLen (20 + msg.length))).length) % 16 = 0 := by
    rw [hpadl]; exact hpadspec.2
  have hctl := conformantMsg_length c.P.H c.P.E c.P.D h.cipher h.hlen (beBytes (fromBE c.d.newNonce) 32)
    (beBytes s.serverNonce 16) msg (c.d.rnd.take (tempPadLen (20 + msg.length))) (by simp) hal
  have hplain := conformantMsg_decrypt c.P.H c.P.E c.P.D h.cipher h.hlen (beBytes (fromBE c.d.newNonce) 32)
    (beBytes s.serverNonce 16) msg (c.d.rnd.take (tempPadLen (20 + msg.length))) (by simp) hal
  -- the server reads set_client_DH_params
  obtain ⟨v', hdec, her⟩ := decode_marshal c.R c.P.gunzip h.wfr _ req3
    (wt_setClientDH h.reg _ _ _ (hyp_nonce h) (hyp_sn h)) hreq3 (by simp [vSetClientDH, need, needL, fuelFor])
  obtain ⟨b1, rfl⟩ := shape_triple her
  have hdrop : (c.P.H msg ++ msg ++ c.d.rnd.take (tempPadLen (20 + msg.length))).drop 20
      = msg ++ c.d.rnd.take (tempPadLen (20 + msg.length)) := by
    rw [List.append_assoc, List.drop_append_of_le_length (by rw [h.hlen]; omega), List.drop_of_length_le (by rw [h.hlen]; omega)]
    rfl
  have htake : (c.P.H msg ++ msg ++ c.d.rnd.take (tempPadLen (20 + msg.length))).take 20 = c.P.H msg := by
    rw [List.append_assoc, List.take_append_of_le_length (by rw [h.hlen]; omega), List.take_of_length_le (by rw [h.hlen]; omega)]
  obtain ⟨vi, hhead, heri⟩ := headObject_marshal c.R c.P h.wfr _ msg (c.d.rnd.take (tempPadLen (20 + msg.length)))
    (wt_clientInner h.reg _ _ _ _ (hyp_nonce h) (hyp_sn h) (by decide)) hmsg (by simp [cliInnerVal, vClientInner, need, needL])
  obtain ⟨c1, rfl⟩ := shape_clientInner heri
  have hkey : powMod (powMod s.g (fromBE c.d.b) s.dhPrime) s.a s.dhPrime = s.g ^ (s.a * fromBE c.d.b) % s.dhPrime :=
    (dh_agree s.g s.a (fromBE c.d.b) s.dhPrime).2
  have hlen0 : ¬ (conformantMsg c.P.H c.P.E (beBytes (fromBE c.d.newNonce) 32) (beBytes s.serverNonce 16) msg
      (c.d.rnd.take (tempPadLen (20 + msg.length)))).length = 0 := by rw [hctl]; omega
  have hlen16 : (conformantMsg c.P.H c.P.E (beBytes (fromBE c.d.newNonce) 32) (beBytes s.serverNonce 16) msg
      (c.d.rnd.take (tempPadLen (20 + msg.length)))).length % 16 = 0 := by rw [hctl]; exact hal
  have hpad15 : ¬ 15 < (c.d.rnd.take (tempPadLen (20 + msg.length))).length := by rw [hpadl]; omega
  unfold srvGen
  simp only [hdec, hplain, hdrop, htake, hhead, ne_eq, not_true_eq_false, hlen0, hlen16, or_self, if_false,
    hpad15, fromBE_bigBytes, h.gb, and_self, not_true_eq_false, hkey, hr3]

/-- **Stage 5 (dh_gen_ok).** The client accepts the server's `dh_gen_ok`: nonce, server_nonce and
`new_nonce_hash1` (compared as 16 bytes) all match. -/
theorem stageE_client {c : Cfg} {s : Secrets} (h : ExchangeHyps c s) {hash r3 : Bytes} (hhl : hash.length = 16)
    (hr3 : marshal c.R (vDHGenOk (fromBE c.d.nonce) s.serverNonce (fromBE hash)) = .ok r3) :
    stage3 c s.serverNonce hash r3 = .ok () := by
  have hhlt : fromBE hash < 256 ^ 16 := by have := fromBE_lt hash; rwa [hhl] at this
  obtain ⟨v', hdec, her⟩ := decode_marshal c.R c.P.gunzip h.wfr _ r3
    (wt_dhGenOk h.reg _ _ _ (hyp_nonce h) (hyp_sn h) hhlt) hr3 (by simp [vDHGenOk, need, needL, fuelFor])
  have hv := shape_bigs3 her
  subst hv
  have hrecv := recvService_of_decode hdec (by simp [objId, idDHGenOk, idRpcError])
  have hview : asDHGenOk (Val.obj idDHGenOk [Val.big 16 (fromBE c.d.nonce), Val.big 16 s.serverNonce, Val.big 16 (fromBE hash)])
      = some ⟨fromBE c.d.nonce, s.serverNonce, fromBE hash⟩ := by simp only [asDHGenOk, if_true]
  have hisd : isSetClientDHAnswer (Val.obj idDHGenOk [Val.big 16 (fromBE c.d.nonce), Val.big 16 s.serverNonce,
      Val.big 16 (fromBE hash)]) = true := by simp [isSetClientDHAnswer, objId]
  unfold stage3
  simp only [bind, Except.bind, pure, Except.pure, throw, throwThe, MonadExceptOf.throw, hrecv, hisd, hview,
    Bool.not_true, Bool.false_eq_true, ne_eq, not_true_eq_false, if_false, bigIntBytes_fromBE hash 16 hhl, liftPanic]

end Mtv.Handshake
