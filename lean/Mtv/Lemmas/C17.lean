/-
  Helper lemmas for property C17 (Mtv/Props/C17.lean): prefixes/suffixes, the first-match scan,
  Atoi, the one-operand Sprintf model, and the facts about the regenerated tables
  (`Mtv.Gen.specificErrors`, `Mtv.Gen.errorMessages`) that are re-decided by the kernel whenever
  the source tables change.
-/
import Mtv.Client.Errors
namespace Mtv.Client

/-! ### HasPrefix / HasSuffix / TrimPrefix / TrimSuffix -/

theorem hasPrefix_iff {s p : Bytes} : hasPrefix s p = true ↔ p <+: s := by
  simp [hasPrefix, List.isPrefixOf_iff_prefix]

theorem hasSuffix_iff {s q : Bytes} : hasSuffix s q = true ↔ q <:+ s := by
  simp [hasSuffix, List.isSuffixOf_iff_suffix]

theorem hasPrefix_append (p r : Bytes) : hasPrefix (p ++ r) p = true :=
  hasPrefix_iff.2 (List.prefix_append p r)

theorem hasSuffix_append (d q : Bytes) : hasSuffix (d ++ q) q = true :=
  hasSuffix_iff.2 (List.suffix_append d q)

theorem trimPrefix_append (p r : Bytes) : trimPrefix (p ++ r) p = r := by
  simp [trimPrefix, hasPrefix_append]

theorem trimSuffix_append (d q : Bytes) : trimSuffix (d ++ q) q = d := by
  simp [trimSuffix, hasSuffix_append]

theorem trimSuffix_nil (s : Bytes) : trimSuffix s [] = s := by
  simp [trimSuffix]

theorem eq_append_of_hasPrefix {s p : Bytes} (h : hasPrefix s p = true) : s = p ++ trimPrefix s p := by
  obtain ⟨t, rfl⟩ := hasPrefix_iff.1 h
  rw [trimPrefix_append]

/-! ### rows -/

theorem Row.matches_iff {r : Row} {s : Bytes} : r.matches s = true ↔ r.pre <+: s ∧ r.suf <:+ s := by
  simp [Row.matches, hasPrefix_iff, hasSuffix_iff]

theorem Row.matches_build (r : Row) (d : Bytes) : r.matches (r.pre ++ d ++ r.suf) = true := by
  rw [Row.matches_iff]
  exact ⟨by rw [List.append_assoc]; exact List.prefix_append _ _, List.suffix_append _ _⟩

theorem Row.param_build (r : Row) (d : Bytes) : r.param (r.pre ++ d ++ r.suf) = d := by
  simp only [Row.param, List.append_assoc, trimPrefix_append, trimSuffix_append]

/-- Two rows *can* match a common text: one prefix extends the other and one suffix extends the
other. This is decidable on the table and exact (`compatible_iff`). -/
def Row.compatible (a b : Row) : Bool :=
  (hasPrefix a.pre b.pre || hasPrefix b.pre a.pre) && (hasSuffix a.suf b.suf || hasSuffix b.suf a.suf)

theorem Row.compatible_of_matches {a b : Row} {s : Bytes} (ha : a.matches s = true) (hb : b.matches s = true) :
    a.compatible b = true := by
  rw [Row.matches_iff] at ha hb
  have h1 := List.prefix_or_prefix_of_prefix ha.1 hb.1
  have h2 := List.suffix_or_suffix_of_suffix ha.2 hb.2
  simp only [Row.compatible, Bool.and_eq_true, Bool.or_eq_true, hasPrefix_iff, hasSuffix_iff]
  exact ⟨h1.symm, h2.symm⟩

/-- the criterion is exact: compatible rows do have a common matching text -/
theorem Row.matches_of_compatible {a b : Row} (h : a.compatible b = true) :
    ∃ s, a.matches s = true ∧ b.matches s = true := by
  simp only [Row.compatible, Bool.and_eq_true, Bool.or_eq_true, hasPrefix_iff, hasSuffix_iff] at h
  obtain ⟨hp, hs⟩ := h
  -- the longer prefix followed by the longer suffix
  have key : ∀ (P Q : Bytes), a.pre <+: P → b.pre <+: P → a.suf <:+ Q → b.suf <:+ Q →
      ∃ s, a.matches s = true ∧ b.matches s = true := by
    intro P Q h1 h2 h3 h4
    refine ⟨P ++ Q, ?_, ?_⟩ <;> rw [Row.matches_iff]
    · exact ⟨h1.trans (List.prefix_append _ _), h3.trans (List.suffix_append _ _)⟩
    · exact ⟨h2.trans (List.prefix_append _ _), h4.trans (List.suffix_append _ _)⟩
  rcases hp with hp | hp <;> rcases hs with hs | hs
  · exact key a.pre a.suf (List.prefix_refl _) hp (List.suffix_refl _) hs
  · exact key a.pre b.suf (List.prefix_refl _) hp hs (List.suffix_refl _)
  · exact key b.pre a.suf hp (List.prefix_refl _) (List.suffix_refl _) hs
  · exact key b.pre b.suf hp (List.prefix_refl _) hs (List.suffix_refl _)

theorem Row.compatible_iff {a b : Row} :
    a.compatible b = true ↔ ∃ s, a.matches s = true ∧ b.matches s = true :=
  ⟨Row.matches_of_compatible, fun ⟨_, ha, hb⟩ => Row.compatible_of_matches ha hb⟩

/-! ### the first-match scan -/

theorem firstMatch_some {tbl : List Row} {s : Bytes} {r : Row} (h : firstMatch tbl s = some r) :
    r ∈ tbl ∧ r.matches s = true :=
  ⟨List.mem_of_find?_eq_some h, by simpa using List.find?_some h⟩

theorem firstMatch_none {tbl : List Row} {s : Bytes} :
    firstMatch tbl s = none ↔ ∀ r ∈ tbl, r.matches s = false := by
  simp [firstMatch, List.find?_eq_none]

theorem firstMatch_of_mem {tbl : List Row} {s : Bytes} {r : Row} (hr : r ∈ tbl) (hm : r.matches s = true) :
    ∃ r', firstMatch tbl s = some r' := by
  cases h : firstMatch tbl s with
  | some r' => exact ⟨r', rfl⟩
  | none => rw [firstMatch_none] at h; rw [h r hr] at hm; cases hm

/-! ### Atoi -/

theorem atoiDigits_some {ds : Bytes} {v : Nat} (h : atoiDigits ds = some v) :
    ds ≠ [] ∧ (∀ b ∈ ds, isDigit b = true) ∧ v = decVal ds := by
  unfold atoiDigits at h
  split at h
  · cases h
  · rename_i hne
    split at h
    · rename_i hall
      refine ⟨by intro h0; subst h0; simp at hne, by simpa using hall, ?_⟩
      cases h; rfl
    · cases h

theorem atoiDigits_of_digits {ds : Bytes} (h1 : ds ≠ []) (h2 : ∀ b ∈ ds, isDigit b = true) :
    atoiDigits ds = some (decVal ds) := by
  unfold atoiDigits
  have : ds.isEmpty = false := by cases ds <;> simp_all
  have h3 : ds.all isDigit = true := by simpa using h2
  simp [this, h3]

/-- What a successful Atoi tells about the text: an optional sign, then at least one character,
all of them decimal digits, and the value fits a 64-bit int. So a parameter that is absent,
contains anything but ASCII digits after the sign, or is out of range, does not parse. -/
theorem atoi_some {s : Bytes} {n : Int} (h : atoi s = some n) :
    ∃ c r, s = c :: r ∧
      ((c = 45 ∧ r ≠ [] ∧ (∀ b ∈ r, isDigit b = true) ∧ n = -(decVal r : Int)) ∨
       (c = 43 ∧ r ≠ [] ∧ (∀ b ∈ r, isDigit b = true) ∧ n = (decVal r : Int)) ∨
       (c ≠ 45 ∧ c ≠ 43 ∧ (∀ b ∈ c :: r, isDigit b = true) ∧ n = (decVal (c :: r) : Int))) ∧
      -(2 ^ 63 : Int) ≤ n ∧ n < (2 ^ 63 : Int) := by
  unfold atoi at h
  cases s with
  | nil => cases h
  | cons c r =>
    refine ⟨c, r, rfl, ?_⟩
    simp only at h
    by_cases h45 : c = 45
    · simp only [h45, if_true] at h
      cases hd : atoiDigits r with
      | none => simp [hd] at h
      | some v =>
        simp only [hd] at h
        obtain ⟨a, b, c'⟩ := atoiDigits_some hd
        split at h
        · rename_i hle
          cases h
          subst c'
          refine ⟨Or.inl ⟨h45, a, b, rfl⟩, ?_, ?_⟩
          · have : ((decVal r : Nat) : Int) ≤ ((2 ^ 63 : Nat) : Int) := Int.ofNat_le.2 hle
            have e : ((2 ^ 63 : Nat) : Int) = (2 ^ 63 : Int) := by norm_cast
            omega
          · have : (0 : Int) ≤ (decVal r : Int) := Int.natCast_nonneg _
            have : (0 : Int) < 2 ^ 63 := by decide
            omega
        · cases h
    · simp only [h45, if_false] at h
      by_cases h43 : c = 43
      · simp only [h43, if_true] at h
        cases hd : atoiDigits r with
        | none => simp [hd] at h
        | some v =>
          simp only [hd] at h
          obtain ⟨a, b, c'⟩ := atoiDigits_some hd
          split at h
          · rename_i hlt
            cases h
            subst c'
            refine ⟨Or.inr (Or.inl ⟨h43, a, b, rfl⟩), ?_, ?_⟩
            · have : (0 : Int) ≤ (decVal r : Int) := Int.natCast_nonneg _
              have : (0 : Int) < 2 ^ 63 := by decide
              omega
            · have : ((decVal r : Nat) : Int) < ((2 ^ 63 : Nat) : Int) := Int.ofNat_lt.2 hlt
              have e : ((2 ^ 63 : Nat) : Int) = (2 ^ 63 : Int) := by norm_cast
              omega
          · cases h
      · simp only [h43, if_false] at h
        cases hd : atoiDigits (c :: r) with
        | none => simp [hd] at h
        | some v =>
          simp only [hd] at h
          obtain ⟨_, b, c'⟩ := atoiDigits_some hd
          split at h
          · rename_i hlt
            cases h
            subst c'
            refine ⟨Or.inr (Or.inr ⟨h45, h43, b, rfl⟩), ?_, ?_⟩
            · have : (0 : Int) ≤ (decVal (c :: r) : Int) := Int.natCast_nonneg _
              have : (0 : Int) < 2 ^ 63 := by decide
              omega
            · have : ((decVal (c :: r) : Nat) : Int) < ((2 ^ 63 : Nat) : Int) := Int.ofNat_lt.2 hlt
              have e : ((2 ^ 63 : Nat) : Int) = (2 ^ 63 : Int) := by norm_cast
              omega
          · cases h

theorem atoi_nil : atoi [] = none := rfl

/-- an unsigned run of digits parses iff its value is below 2^63 -/
theorem atoi_digits {ds : Bytes} (h1 : ds ≠ []) (h2 : ∀ b ∈ ds, isDigit b = true) :
    atoi ds = if decVal ds < 2 ^ 63 then some (decVal ds : Int) else none := by
  cases ds with
  | nil => exact absurd rfl h1
  | cons c r =>
    have hc := h2 c (by simp)
    have h45 : c ≠ 45 := by intro h; subst h; revert hc; decide
    have h43 : c ≠ 43 := by intro h; subst h; revert hc; decide
    simp only [atoi, h45, h43, if_false, atoiDigits_of_digits h1 h2]

/-- a text with a byte that is neither a digit nor a leading sign does not parse -/
theorem atoi_none_of_nondigit {s : Bytes} (h : ∃ b ∈ s.tail, isDigit b = false) : atoi s = none := by
  cases hs : atoi s with
  | none => rfl
  | some n =>
    obtain ⟨c, r, rfl, hcase, _⟩ := atoi_some hs
    obtain ⟨b, hb, hnd⟩ := h
    simp only [List.tail_cons] at hb
    rcases hcase with ⟨_, _, hall, _⟩ | ⟨_, _, hall, _⟩ | ⟨_, _, hall, _⟩
    · rw [hall b hb] at hnd; cases hnd
    · rw [hall b hb] at hnd; cases hnd
    · rw [hall b (List.mem_cons_of_mem _ hb)] at hnd; cases hnd

/-! ### decimal output and the Sprintf model -/

theorem decDigits_digits (f n : Nat) : ∀ b ∈ decDigits f n, isDigit b = true := by
  induction f generalizing n with
  | zero => simp [decDigits]
  | succ f ih =>
    intro b hb
    unfold decDigits at hb
    split at hb
    · rename_i hlt
      simp only [List.mem_singleton] at hb
      subst hb
      have : (UInt8.ofNat (48 + n)).toNat = 48 + n := by
        rw [UInt8.toNat_ofNat']; omega
      simp [isDigit]; omega
    · simp only [List.mem_append, List.mem_singleton] at hb
      rcases hb with hb | hb
      · exact ih _ b hb
      · subst hb
        have : (UInt8.ofNat (48 + n % 10)).toNat = 48 + n % 10 := by
          rw [UInt8.toNat_ofNat']; omega
        simp [isDigit]; omega

theorem percent_not_digit {b : UInt8} (h : isDigit b = true) : b ≠ 37 := by
  intro h37; subst h37; revert h; decide

/-- the rendering of an int contains no `%` -/
theorem fmtInt_no_percent (n : Int) : (37 : UInt8) ∉ fmtInt n := by
  unfold fmtInt decimal
  split
  · intro h
    simp only [List.mem_cons] at h
    rcases h with h | h
    · revert h; decide
    · exact percent_not_digit (decDigits_digits _ _ _ h) rfl
  · intro h
    exact percent_not_digit (decDigits_digits _ _ _ h) rfl

/-- no `%` in the format: Sprintf copies it (and appends the EXTRA note when the operand is unused) -/
theorem sprintfGo_plain (a : Param) (used : Bool) (l : Bytes) (h : (37 : UInt8) ∉ l) :
    sprintfGo a used false l = some (l ++ (if used then [] else fmtExtra a)) := by
  induction l with
  | nil => simp [sprintfGo]
  | cons c rest ih =>
    have hc : c ≠ 37 := fun e => h (by simp [e])
    have hr : (37 : UInt8) ∉ rest := fun e => h (List.mem_cons_of_mem _ e)
    simp [sprintfGo, hc, ih hr]

/-- A format `pre ++ "%v" ++ post` without any other `%`: the shape of the descriptions of the
parameterised errors. Returns `(pre, post)`. Structural, so the kernel can evaluate it. -/
def splitV : Bytes → Option (Bytes × Bytes)
  | [] => none
  | c :: rest =>
    if c = 37 then
      match rest with
      | d :: post => if d = 118 ∧ ¬ (37 : UInt8) ∈ post then some ([], post) else none
      | [] => none
    else (splitV rest).map fun (a, b) => (c :: a, b)

theorem splitV_spec : ∀ (f pre post : Bytes), splitV f = some (pre, post) →
    f = pre ++ 37 :: 118 :: post ∧ (37 : UInt8) ∉ pre ∧ (37 : UInt8) ∉ post := by
  intro f
  induction f with
  | nil => intro pre post h; cases h
  | cons c rest ih =>
    intro pre post h
    unfold splitV at h
    by_cases hc : c = 37
    · simp only [hc, if_true] at h
      cases rest with
      | nil => cases h
      | cons d post' =>
        simp only at h
        split at h
        · rename_i hd
          cases h
          exact ⟨by simp [hc, hd.1], by simp, hd.2⟩
        · cases h
    · simp only [hc, if_false] at h
      cases hr : splitV rest with
      | none => simp [hr] at h
      | some ab =>
        obtain ⟨a, b⟩ := ab
        simp only [hr, Option.map_some, Option.some.injEq, Prod.mk.injEq] at h
        obtain ⟨rfl, rfl⟩ := h
        obtain ⟨e, h1, h2⟩ := ih a b hr
        refine ⟨by rw [e]; rfl, ?_, h2⟩
        intro hm
        simp only [List.mem_cons] at hm
        rcases hm with hm | hm
        · exact hc hm.symm
        · exact h1 hm

/-- `fmt.Sprintf(pre ++ "%v" ++ post, n)` = `pre ++ decimal n ++ post` -/
theorem sprintf1_splitV {f pre post : Bytes} (h : splitV f = some (pre, post)) (n : Int) :
    sprintf1 f (.int n) = some (pre ++ fmtInt n ++ post) := by
  obtain ⟨rfl, h1, h2⟩ := splitV_spec f pre post h
  unfold sprintf1
  clear h
  induction pre with
  | nil =>
    simp [sprintfGo, fmtVerb, sprintfGo_plain _ true post h2]
  | cons c rest ih =>
    have hc : c ≠ 37 := fun e => h1 (by simp [e])
    have hr : (37 : UInt8) ∉ rest := fun e => h1 (List.mem_cons_of_mem _ e)
    simp [sprintfGo, hc, ih hr]

/-! ### facts about the regenerated tables (re-decided whenever the source tables change) -/

/-- every row of `specificErrors` has kind `reflect.Int` -/
theorem rows_all_int : ∀ r ∈ Gen.specificErrors, r.kind = Kind.int := by decide +kernel

/-- no two different rows of `specificErrors` can match the same text -/
theorem rows_pairwise_incompatible :
    ∀ a ∈ Gen.specificErrors, ∀ b ∈ Gen.specificErrors, a = b ∨ a.compatible b = false := by decide +kernel

/-- every row's name `prefix ++ "X" ++ suffix` is catalogued with a description of the shape
`… %v …` (exactly one verb, `%v`, no other `%`) -/
theorem rows_documented :
    ∀ r ∈ Gen.specificErrors, ((Gen.errorMessages.lookup r.xName).bind splitV).isSome = true := by
  decide +kernel

/-- "PHONE_MIGRATE_" -/
def phoneMigratePre : Bytes := [80,72,79,78,69,95,77,73,71,82,65,84,69,95]

/-- the row of PHONE_MIGRATE_X is in the table … -/
theorem phone_row_mem : (⟨phoneMigratePre, [], .int⟩ : Row) ∈ Gen.specificErrors := by decide +kernel

/-- … and it is the only row whose name is "PHONE_MIGRATE_X" -/
theorem phone_row_only :
    ∀ r ∈ Gen.specificErrors, r.xName = phoneMigrateX → r = ⟨phoneMigratePre, [], .int⟩ := by
  decide +kernel

/-! ### consequences -/

/-- the shape of every successful expansion -/
theorem tryExpandWith_cases (tbl : List Row) (s : Bytes) :
    tryExpandWith tbl s = .ok (s, .none) ∨
    (∃ r n, r ∈ tbl ∧ r.matches s = true ∧ r.kind = .int ∧ atoi (r.param s) = some n ∧
        tryExpandWith tbl s = .ok (r.xName, .int n)) ∨
    (∃ r, r ∈ tbl ∧ r.matches s = true ∧ r.kind = .string ∧
        tryExpandWith tbl s = .ok (r.xName, .str (r.param s))) ∨
    (∃ r, r ∈ tbl ∧ r.kind = .other ∧ tryExpandWith tbl s = .panic "TryExpandError") := by
  unfold tryExpandWith
  cases hf : firstMatch tbl s with
  | none => exact Or.inl rfl
  | some r =>
    obtain ⟨hm, hmat⟩ := firstMatch_some hf
    cases hk : r.kind with
    | int =>
      cases ha : atoi (r.param s) with
      | none => simp [hk, ha]
      | some n => exact Or.inr (Or.inl ⟨r, n, hm, hmat, hk, ha, by simp [hk, ha]⟩)
    | string => exact Or.inr (Or.inr (Or.inl ⟨r, hm, hmat, hk, by simp [hk]⟩))
    | other => exact Or.inr (Or.inr (Or.inr ⟨r, hm, hk, by simp [hk]⟩))

/-- for the regenerated table: plain, or an int parameter from a matching row -/
theorem tryExpand_cases (s : Bytes) :
    tryExpand s = .ok (s, .none) ∨
    (∃ r n, r ∈ Gen.specificErrors ∧ r.matches s = true ∧ atoi (r.param s) = some n ∧
        tryExpand s = .ok (r.xName, .int n)) := by
  rcases tryExpandWith_cases Gen.specificErrors s with h | ⟨r, n, hr, hm, _, ha, h⟩ | ⟨r, hr, _, hk, _⟩ | ⟨r, hr, hk, _⟩
  · exact Or.inl h
  · exact Or.inr ⟨r, n, hr, hm, ha, h⟩
  · rw [rows_all_int r hr] at hk; cases hk
  · rw [rows_all_int r hr] at hk; cases hk

/-- the first match is the only match: a row of the regenerated table that matches is the one the
scan selects -/
theorem firstMatch_eq_of_mem {s : Bytes} {r : Row} (hr : r ∈ Gen.specificErrors) (hm : r.matches s = true) :
    firstMatch Gen.specificErrors s = some r := by
  obtain ⟨r', h⟩ := firstMatch_of_mem hr hm
  obtain ⟨hr', hm'⟩ := firstMatch_some h
  rcases rows_pairwise_incompatible r hr r' hr' with e | e
  · rw [h, e]
  · rw [Row.compatible_of_matches hm hm'] at e; cases e

/-- the description of a row's name: `pre ++ "%v" ++ post` without other `%` -/
theorem row_description {r : Row} (hr : r ∈ Gen.specificErrors) :
    ∃ pre post, Gen.errorMessages.lookup r.xName = some (pre ++ 37 :: 118 :: post) ∧
      splitV (pre ++ 37 :: 118 :: post) = some (pre, post) ∧ (37 : UInt8) ∉ pre ∧ (37 : UInt8) ∉ post := by
  have h := rows_documented r hr
  cases hl : Gen.errorMessages.lookup r.xName with
  | none => simp [hl] at h
  | some f =>
    cases hs : splitV f with
    | none => simp [hl, hs] at h
    | some ab =>
      obtain ⟨a, b⟩ := ab
      obtain ⟨e, h1, h2⟩ := splitV_spec f a b hs
      exact ⟨a, b, by rw [e], by rw [← e]; exact hs, h1, h2⟩

/-- `RpcErrorToNative` on the regenerated tables, by cases of the expansion -/
theorem rpcErrorToNative_cases (code : Int) (s : Bytes) :
    (tryExpand s = .ok (s, .none) ∧
      rpcErrorToNative code s = .ok ⟨code, s, describe Gen.errorMessages s, .none⟩) ∨
    (∃ r n pre post, r ∈ Gen.specificErrors ∧ r.matches s = true ∧ atoi (r.param s) = some n ∧
      Gen.errorMessages.lookup r.xName = some (pre ++ 37 :: 118 :: post) ∧
      (37 : UInt8) ∉ pre ∧ (37 : UInt8) ∉ post ∧
      rpcErrorToNative code s = .ok ⟨code, r.xName, pre ++ fmtInt n ++ post, .int n⟩) := by
  rcases tryExpand_cases s with h | ⟨r, n, hr, hm, ha, h⟩
  · left
    refine ⟨h, ?_⟩
    unfold rpcErrorToNative rpcErrorToNativeWith
    unfold tryExpand at h
    simp [h]
  · right
    obtain ⟨pre, post, hl, hs, h1, h2⟩ := row_description hr
    refine ⟨r, n, pre, post, hr, hm, ha, hl, h1, h2, ?_⟩
    unfold rpcErrorToNative rpcErrorToNativeWith
    unfold tryExpand at h
    simp [h, describe, hl, sprintf1_splitV hs]

/-! ### the two defects as they were before the repairs (D14 and its follow-up), on the model -/

/-- D14: before the repair `TryExpandError("FLOOD_WAIT_abc")` panicked in `check(Atoi …)` -/
theorem d14_unrepaired_panics :
    tryExpandUnrepairedWith Gen.specificErrors [70,76,79,79,68,95,87,65,73,84,95,97,98,99] = .panic "check" := by
  decide +kernel

/-- … and so did the absent parameter ("FLOOD_WAIT_") and the literal "PHONE_MIGRATE_X" -/
theorem d14_unrepaired_panics_absent :
    tryExpandUnrepairedWith Gen.specificErrors [70,76,79,79,68,95,87,65,73,84,95] = .panic "check" ∧
    tryExpandUnrepairedWith Gen.specificErrors phoneMigrateX = .panic "check" := by
  decide +kernel

/-- With only the first repair, the literal text "PHONE_MIGRATE_X" (message PHONE_MIGRATE_X, no
parameter) reached `e.AdditionalInfo.(int)` and panicked there; hence the second repair. -/
theorem literal_x_unrepaired_panics (dcl : DCList) :
    tryExpand phoneMigrateX = .ok (phoneMigrateX, .none) ∧
    processErrUnrepaired dcl phoneMigrateX .none = .panic "(*MTProto).tryToProcessErr" ∧
    processErr dcl phoneMigrateX .none = .returned := by
  refine ⟨by decide +kernel, rfl, rfl⟩

end Mtv.Client
