/-
  Helper lemmas for C06: the TL layer of the key exchange. Undoing `erase` on the shapes of the
  exchange; TL strings; well-typedness (`WT`) and successful marshalling of every object under `HsReg`;
  what the receiving side decodes from marshalled bytes (via the generic round-trip theorem of C01).
-/
import Mtv.Handshake.Server
import Mtv.Handshake.Reg
import Mtv.Lemmas.C06Num
import Mtv.Lemmas.TLRoundTripMain
import Mtv.Props.C01
namespace Mtv.Handshake
open Mtv Mtv.TL Mtv.Ige

theorem erase_big {v : Val} {w n : Nat} (h : erase v = .big w n) : v = .big w n := by
  cases v <;> simp [erase] at h ⊢; exact h
theorem erase_long {v : Val} {n : Nat} (h : erase v = .long n) : v = .long n := by
  cases v <;> simp [erase] at h ⊢; exact h
theorem erase_word {v : Val} {n : Nat} (h : erase v = .word n) : v = .word n := by
  cases v <;> simp [erase] at h ⊢; exact h
theorem erase_bytes {v : Val} {bs : Bytes} (h : erase v = .bytes false bs) : ∃ b, v = .bytes b bs := by
  cases v <;> simp [erase] at h ⊢; exact h
theorem erase_vec {v : Val} {l : List Val} (h : erase v = .vec false l) : ∃ b l', v = .vec b l' ∧ eraseL l' = l := by
  cases v with
  | vec b items => simp only [erase, Val.vec.injEq, true_and] at h; exact ⟨b, items, rfl, h⟩
  | _ => simp [erase] at h
theorem erase_obj {v : Val} {id : Nat} {l : List Val} (h : erase v = .obj id l) : ∃ l', v = .obj id l' ∧ eraseL l' = l := by
  cases v with
  | obj id' fs => simp only [erase, Val.obj.injEq] at h; obtain ⟨rfl, h2⟩ := h; exact ⟨fs, rfl, h2⟩
  | _ => simp [erase] at h
theorem eraseL_nil {l : List Val} (h : eraseL l = []) : l = [] := by
  cases l <;> simp [eraseL] at h ⊢
theorem eraseL_cons {l : List Val} {a : Val} {t : List Val} (h : eraseL l = a :: t) :
    ∃ x xs, l = x :: xs ∧ erase x = a ∧ eraseL xs = t := by
  cases l with
  | nil => simp [eraseL] at h
  | cons x xs => simp only [eraseL, List.cons.injEq] at h; exact ⟨x, xs, rfl, h.1, h.2⟩
theorem eraseL_longs : ∀ (fps : List Nat), eraseL (fps.map Val.long) = fps.map Val.long
  | [] => rfl
  | f :: fs => by simp [eraseL, erase, eraseL_longs fs]
theorem eraseL_eq_longs : ∀ (l : List Val) (fps : List Nat), eraseL l = fps.map Val.long → l = fps.map Val.long
  | [], [], _ => rfl
  | [], f :: fs, h => by simp [eraseL] at h
  | x :: xs, [], h => by simp [eraseL] at h
  | x :: xs, f :: fs, h => by
    simp only [eraseL, List.map_cons, List.cons.injEq] at h
    rw [erase_long h.1, eraseL_eq_longs xs fs h.2]; rfl
theorem longsOf_longs : ∀ (fps : List Nat), longsOf (fps.map Val.long) = fps
  | [] => rfl
  | f :: fs => by simp [longsOf, longsOf_longs fs]

/-- a decoded `resPQ` -/
theorem shape_resPQ {v' : Val} {n sn : Nat} {pq : Bytes} {fps : List Nat}
    (h : erase v' = erase (vResPQ n sn pq fps)) :
    ∃ b1 b2, v' = .obj idResPQ [.big 16 n, .big 16 sn, .bytes b1 pq, .vec b2 (fps.map Val.long)] := by
  simp only [vResPQ, erase, eraseL, eraseL_longs] at h
  obtain ⟨l, rfl, hl⟩ := erase_obj h
  obtain ⟨x1, l1, rfl, e1, hl⟩ := eraseL_cons hl
  obtain ⟨x2, l2, rfl, e2, hl⟩ := eraseL_cons hl
  obtain ⟨x3, l3, rfl, e3, hl⟩ := eraseL_cons hl
  obtain ⟨x4, l4, rfl, e4, hl⟩ := eraseL_cons hl
  have := eraseL_nil hl; subst this
  obtain ⟨b1, rfl⟩ := erase_bytes e3
  obtain ⟨b2, l', rfl, hl'⟩ := erase_vec e4
  rw [erase_big e1, erase_big e2, eraseL_eq_longs l' fps hl']
  exact ⟨b1, b2, rfl⟩

theorem shape_triple {v' : Val} {id a b : Nat} {enc : Bytes}
    (h : erase v' = erase (.obj id [.big 16 a, .big 16 b, .bytes false enc])) :
    ∃ b1, v' = .obj id [.big 16 a, .big 16 b, .bytes b1 enc] := by
  simp only [erase, eraseL] at h
  obtain ⟨l, rfl, hl⟩ := erase_obj h
  obtain ⟨x1, l1, rfl, e1, hl⟩ := eraseL_cons hl
  obtain ⟨x2, l2, rfl, e2, hl⟩ := eraseL_cons hl
  obtain ⟨x3, l3, rfl, e3, hl⟩ := eraseL_cons hl
  have := eraseL_nil hl; subst this
  obtain ⟨b1, rfl⟩ := erase_bytes e3
  rw [erase_big e1, erase_big e2]
  exact ⟨b1, rfl⟩

theorem shape_bigs3 {v' : Val} {id a b c : Nat}
    (h : erase v' = erase (.obj id [.big 16 a, .big 16 b, .big 16 c])) :
    v' = .obj id [.big 16 a, .big 16 b, .big 16 c] := by
  simp only [erase, eraseL] at h
  obtain ⟨l, rfl, hl⟩ := erase_obj h
  obtain ⟨x1, l1, rfl, e1, hl⟩ := eraseL_cons hl
  obtain ⟨x2, l2, rfl, e2, hl⟩ := eraseL_cons hl
  obtain ⟨x3, l3, rfl, e3, hl⟩ := eraseL_cons hl
  have := eraseL_nil hl; subst this
  rw [erase_big e1, erase_big e2, erase_big e3]

theorem shape_inner {v' : Val} {n sn g t : Nat} {dp ga : Bytes}
    (h : erase v' = erase (vInner n sn g dp ga t)) :
    ∃ b1 b2, v' = .obj idInner [.big 16 n, .big 16 sn, .word g, .bytes b1 dp, .bytes b2 ga, .word t] := by
  simp only [vInner, erase, eraseL] at h
  obtain ⟨l, rfl, hl⟩ := erase_obj h
  obtain ⟨x1, l1, rfl, e1, hl⟩ := eraseL_cons hl
  obtain ⟨x2, l2, rfl, e2, hl⟩ := eraseL_cons hl
  obtain ⟨x3, l3, rfl, e3, hl⟩ := eraseL_cons hl
  obtain ⟨x4, l4, rfl, e4, hl⟩ := eraseL_cons hl
  obtain ⟨x5, l5, rfl, e5, hl⟩ := eraseL_cons hl
  obtain ⟨x6, l6, rfl, e6, hl⟩ := eraseL_cons hl
  have := eraseL_nil hl; subst this
  obtain ⟨b1, rfl⟩ := erase_bytes e4
  obtain ⟨b2, rfl⟩ := erase_bytes e5
  rw [erase_big e1, erase_big e2, erase_word e3, erase_word e6]
  exact ⟨b1, b2, rfl⟩

theorem shape_reqPQ {v' : Val} {n : Nat} (h : erase v' = erase (vReqPQ n)) : v' = .obj idReqPQ [.big 16 n] := by
  simp only [vReqPQ, erase, eraseL] at h
  obtain ⟨l, rfl, hl⟩ := erase_obj h
  obtain ⟨x1, l1, rfl, e1, hl⟩ := eraseL_cons hl
  have := eraseL_nil hl; subst this
  rw [erase_big e1]

theorem shape_reqDH {v' : Val} {n sn fp : Nat} {p q enc : Bytes}
    (h : erase v' = erase (vReqDH n sn p q fp enc)) :
    ∃ b1 b2 b3, v' = .obj idReqDH [.big 16 n, .big 16 sn, .bytes b1 p, .bytes b2 q, .long fp, .bytes b3 enc] := by
  simp only [vReqDH, erase, eraseL] at h
  obtain ⟨l, rfl, hl⟩ := erase_obj h
  obtain ⟨x1, l1, rfl, e1, hl⟩ := eraseL_cons hl
  obtain ⟨x2, l2, rfl, e2, hl⟩ := eraseL_cons hl
  obtain ⟨x3, l3, rfl, e3, hl⟩ := eraseL_cons hl
  obtain ⟨x4, l4, rfl, e4, hl⟩ := eraseL_cons hl
  obtain ⟨x5, l5, rfl, e5, hl⟩ := eraseL_cons hl
  obtain ⟨x6, l6, rfl, e6, hl⟩ := eraseL_cons hl
  have := eraseL_nil hl; subst this
  obtain ⟨b1, rfl⟩ := erase_bytes e3
  obtain ⟨b2, rfl⟩ := erase_bytes e4
  obtain ⟨b3, rfl⟩ := erase_bytes e6
  rw [erase_big e1, erase_big e2, erase_long e5]
  exact ⟨b1, b2, b3, rfl⟩

theorem shape_pqInner {v' : Val} {n sn nn : Nat} {pq p q : Bytes}
    (h : erase v' = erase (vPQInner pq p q n sn nn)) :
    ∃ b1 b2 b3, v' = .obj idPQInner [.bytes b1 pq, .bytes b2 p, .bytes b3 q, .big 16 n, .big 16 sn, .big 32 nn] := by
  simp only [vPQInner, erase, eraseL] at h
  obtain ⟨l, rfl, hl⟩ := erase_obj h
  obtain ⟨x1, l1, rfl, e1, hl⟩ := eraseL_cons hl
  obtain ⟨x2, l2, rfl, e2, hl⟩ := eraseL_cons hl
  obtain ⟨x3, l3, rfl, e3, hl⟩ := eraseL_cons hl
  obtain ⟨x4, l4, rfl, e4, hl⟩ := eraseL_cons hl
  obtain ⟨x5, l5, rfl, e5, hl⟩ := eraseL_cons hl
  obtain ⟨x6, l6, rfl, e6, hl⟩ := eraseL_cons hl
  have := eraseL_nil hl; subst this
  obtain ⟨b1, rfl⟩ := erase_bytes e1
  obtain ⟨b2, rfl⟩ := erase_bytes e2
  obtain ⟨b3, rfl⟩ := erase_bytes e3
  rw [erase_big e4, erase_big e5, erase_big e6]
  exact ⟨b1, b2, b3, rfl⟩

theorem shape_clientInner {v' : Val} {n sn retry : Nat} {gb : Bytes}
    (h : erase v' = erase (vClientInner n sn retry gb)) :
    ∃ b1, v' = .obj idClientInner [.big 16 n, .big 16 sn, .long retry, .bytes b1 gb] := by
  simp only [vClientInner, erase, eraseL] at h
  obtain ⟨l, rfl, hl⟩ := erase_obj h
  obtain ⟨x1, l1, rfl, e1, hl⟩ := eraseL_cons hl
  obtain ⟨x2, l2, rfl, e2, hl⟩ := eraseL_cons hl
  obtain ⟨x3, l3, rfl, e3, hl⟩ := eraseL_cons hl
  obtain ⟨x4, l4, rfl, e4, hl⟩ := eraseL_cons hl
  have := eraseL_nil hl; subst this
  obtain ⟨b1, rfl⟩ := erase_bytes e4
  rw [erase_big e1, erase_big e2, erase_long e3]
  exact ⟨b1, rfl⟩

theorem putMessage_eq (bs : Bytes) (h : bs.length < 2 ^ 24) : putMessage bs = .ok (tlString bs) := by
  unfold putMessage tlString pad4
  by_cases h1 : bs.length < 254
  · simp [h1]
  · have h2 : ¬ 2 ^ 24 ≤ bs.length := by omega
    simp [h1, h2]

theorem tlString_length (bs : Bytes) : (tlString bs).length ≤ bs.length + 7 := by
  unfold tlString
  split <;> simp [zeros] <;> omega

theorem wtl_longs (R : Registry) : ∀ (fps : List Nat), (∀ f ∈ fps, f < 2 ^ 64) → WTL R .int64 (fps.map Val.long)
  | [], _ => trivial
  | f :: fs, h => ⟨by simp [WT, h f (by simp)], wtl_longs R fs (fun x hx => h x (by simp [hx]))⟩

theorem needL_longs : ∀ (fps : List Nat), needL (fps.map Val.long) ≤ fps.length + 1
  | [] => by simp [needL]
  | f :: fs => by have := needL_longs fs; simp [needL, need]; omega

theorem need_resPQ (n sn : Nat) (pq : Bytes) (fps : List Nat) : need (vResPQ n sn pq fps) ≤ fps.length + 16 := by
  have := needL_longs fps
  simp [vResPQ, need, needL]; omega

/-- `DoRSAencrypt` of a 255-byte block under a modulus that fits 256 bytes -/
theorem doRSAencrypt_eq (block : Bytes) (n e : Nat) (hb : block.length = 255) (h0 : 0 < n) (h1 : n ≤ 256 ^ 256) :
    doRSAencrypt block n e = .ok (beBytes (powMod (fromBE block) e n) 256) := by
  have := powMod_lt (fromBE block) e n h0
  have h2 : powMod (fromBE block) e n < 256 ^ 256 := by omega
  unfold doRSAencrypt
  rw [if_neg (by simp [hb]), if_pos h2]

/-! ### well-typedness (`WT`) of the objects of the exchange under `HsReg` -/

theorem wt_reqPQ {R : Registry} (hR : HsReg R) (n : Nat) (h1 : n < 256 ^ 16) :
    WT R (.iface "tl.Object") (vReqPQ n) := by
  have hf : R.find idReqPQ = some dReqPQ := hR dReqPQ (by simp [hsDescs])
  simp [vReqPQ, WT, hf, dReqPQ, fI128, implementsIface, WTF, h1]

theorem wt_resPQ {R : Registry} (hR : HsReg R) (n sn : Nat) (pq : Bytes) (fps : List Nat)
    (h1 : n < 256 ^ 16) (h2 : sn < 256 ^ 16) (h3 : ∀ f ∈ fps, f < 2 ^ 64) (h4 : fps.length < 2 ^ 32) :
    WT R (.iface "tl.Object") (vResPQ n sn pq fps) := by
  have hf : R.find idResPQ = some dResPQ := hR dResPQ (by simp [hsDescs])
  simp [vResPQ, WT, hf, dResPQ, fI128, fBytes, implementsIface, WTF, h1, h2, h4]
  exact wtl_longs R fps h3

theorem wt_pqInner {R : Registry} (hR : HsReg R) (pq p q : Bytes) (n sn nn : Nat)
    (h1 : n < 256 ^ 16) (h2 : sn < 256 ^ 16) (h3 : nn < 256 ^ 32) :
    WT R (.iface "tl.Object") (vPQInner pq p q n sn nn) := by
  have hf : R.find idPQInner = some dPQInner := hR dPQInner (by simp [hsDescs])
  simp [vPQInner, WT, hf, dPQInner, fI128, fBytes, implementsIface, WTF, h1, h2, h3]

theorem wt_reqDH {R : Registry} (hR : HsReg R) (n sn : Nat) (p q : Bytes) (fp : Nat) (enc : Bytes)
    (h1 : n < 256 ^ 16) (h2 : sn < 256 ^ 16) (h3 : fp < 2 ^ 64) :
    WT R (.iface "tl.Object") (vReqDH n sn p q fp enc) := by
  have hf : R.find idReqDH = some dReqDH := hR dReqDH (by simp [hsDescs])
  simp [vReqDH, WT, hf, dReqDH, fI128, fBytes, implementsIface, WTF, h1, h2, h3]

theorem wt_dhOk {R : Registry} (hR : HsReg R) (n sn : Nat) (enc : Bytes)
    (h1 : n < 256 ^ 16) (h2 : sn < 256 ^ 16) :
    WT R (.iface "tl.Object") (vDHOk n sn enc) := by
  have hf : R.find idDHOk = some dDHOk := hR dDHOk (by simp [hsDescs])
  simp [vDHOk, WT, hf, dDHOk, fI128, fBytes, implementsIface, WTF, h1, h2]

theorem wt_inner {R : Registry} (hR : HsReg R) (n sn g : Nat) (dp ga : Bytes) (t : Nat)
    (h1 : n < 256 ^ 16) (h2 : sn < 256 ^ 16) (h3 : g < 2 ^ 32) (h4 : t < 2 ^ 32) :
    WT R (.iface "tl.Object") (vInner n sn g dp ga t) := by
  have hf : R.find idInner = some dInner := hR dInner (by simp [hsDescs])
  simp [vInner, WT, hf, dInner, fI128, fBytes, implementsIface, WTF, h1, h2, h3, h4]

theorem wt_clientInner {R : Registry} (hR : HsReg R) (n sn retry : Nat) (gb : Bytes)
    (h1 : n < 256 ^ 16) (h2 : sn < 256 ^ 16) (h3 : retry < 2 ^ 64) :
    WT R (.iface "tl.Object") (vClientInner n sn retry gb) := by
  have hf : R.find idClientInner = some dClientInner := hR dClientInner (by simp [hsDescs])
  simp [vClientInner, WT, hf, dClientInner, fI128, fBytes, implementsIface, WTF, h1, h2, h3]

theorem wt_setClientDH {R : Registry} (hR : HsReg R) (n sn : Nat) (enc : Bytes)
    (h1 : n < 256 ^ 16) (h2 : sn < 256 ^ 16) :
    WT R (.iface "tl.Object") (vSetClientDH n sn enc) := by
  have hf : R.find idSetClientDH = some dSetClientDH := hR dSetClientDH (by simp [hsDescs])
  simp [vSetClientDH, WT, hf, dSetClientDH, fI128, fBytes, implementsIface, WTF, h1, h2]

theorem wt_dhGenOk {R : Registry} (hR : HsReg R) (n sn h : Nat)
    (h1 : n < 256 ^ 16) (h2 : sn < 256 ^ 16) (h3 : h < 256 ^ 16) :
    WT R (.iface "tl.Object") (vDHGenOk n sn h) := by
  have hf : R.find idDHGenOk = some dDHGenOk := hR dDHGenOk (by simp [hsDescs])
  simp [vDHGenOk, WT, hf, dDHGenOk, fI128, implementsIface, WTF, h1, h2, h3]

/-! ### marshalling succeeds, with a bound on the length where it matters -/

theorem marshal_resPQ_gen (R : Registry) (V : Val) (n sn : Nat) (pq X : Bytes) (h1 : n < 256 ^ 16) (h2 : sn < 256 ^ 16)
    (hf : R.find idResPQ = some dResPQ)
    (hpm : putMessage pq = .ok (tlString pq)) (hV : encVal R V = .ok X) :
    marshal R (.obj idResPQ [Val.big 16 n, Val.big 16 sn, Val.bytes false pq, V]) =
      .ok (leBytes idResPQ 4 ++ (beBytes n 16 ++ (beBytes sn 16 ++ (tlString pq ++ X)))) := by
  have hw : wfDesc dResPQ = true := by decide
  have he : encFields R (flagWord dResPQ.fields [Val.big 16 n, Val.big 16 sn, Val.bytes false pq, V]) none dResPQ.fields
      [Val.big 16 n, Val.big 16 sn, Val.bytes false pq, V] = .ok (beBytes n 16 ++ (beBytes sn 16 ++ (tlString pq ++ X))) := by
    simp [dResPQ, fI128, fBytes, encFields, encVal, hpm, h1, h2, hV]
  have hk : dResPQ.kind = .struct := rfl
  have hfi : dResPQ.flagIndex = none := rfl
  have hid : dResPQ.id = idResPQ := rfl
  simp only [marshal, encVal, hf, hk, hw, hfi, he, hid]
  simp

theorem encList_longs (R : Registry) : ∀ fps : List Nat, ∃ L, encList R (fps.map Val.long) = .ok L ∧ fps.length ≤ L.length := by
  intro fps
  induction fps with
  | nil => exact ⟨[], by simp [encList], by simp⟩
  | cons f fs ih =>
    obtain ⟨L, e, hle⟩ := ih
    exact ⟨leBytes f 8 ++ L, by simp [encList, encVal, e], by simp; omega⟩

theorem marshal_resPQ {R : Registry} (hR : HsReg R) (n sn : Nat) (pq : Bytes) (fps : List Nat)
    (h1 : n < 256 ^ 16) (h2 : sn < 256 ^ 16) (h3 : pq.length < 2 ^ 24) :
    ∃ bs, marshal R (vResPQ n sn pq fps) = .ok bs ∧ fps.length ≤ bs.length := by
  have hf : R.find idResPQ = some dResPQ := hR dResPQ (by simp [hsDescs])
  obtain ⟨L, hL, hle⟩ := encList_longs R fps
  have hV : encVal R (.vec false (fps.map Val.long)) = .ok (leBytes crcVector 4 ++ (leBytes (fps.map Val.long).length 4 ++ L)) := by
    simp only [encVal, hL]
  refine ⟨_, marshal_resPQ_gen R _ n sn pq _ h1 h2 hf (putMessage_eq pq h3) hV, ?_⟩
  simp only [List.length_append]
  omega

theorem marshal_pqInner_len {R : Registry} (hR : HsReg R) (pq p q : Bytes) (n sn nn : Nat)
    (h1 : pq.length < 2 ^ 24) (h2 : p.length < 2 ^ 24) (h3 : q.length < 2 ^ 24)
    (h4 : n < 256 ^ 16) (h5 : sn < 256 ^ 16) (h6 : nn < 256 ^ 32) :
    ∃ bs, marshal R (vPQInner pq p q n sn nn) = .ok bs ∧ bs.length ≤ pq.length + p.length + q.length + 89 := by
  have hf : R.find idPQInner = some dPQInner := hR dPQInner (by simp [hsDescs])
  refine ⟨_, by simp [marshal, vPQInner, encVal, hf, dPQInner, fI128, fBytes, wfDesc, encFields, putMessage_eq _ h1,
      putMessage_eq _ h2, putMessage_eq _ h3, h4, h5, h6]; rfl, ?_⟩
  have a := tlString_length pq
  have b := tlString_length p
  have c := tlString_length q
  simp; omega

theorem marshal_inner_len {R : Registry} (hR : HsReg R) (n sn g : Nat) (dp ga : Bytes) (t : Nat)
    (h1 : dp.length < 2 ^ 24) (h2 : ga.length < 2 ^ 24) (h4 : n < 256 ^ 16) (h5 : sn < 256 ^ 16) :
    ∃ bs, marshal R (vInner n sn g dp ga t) = .ok bs ∧ bs.length ≤ dp.length + ga.length + 58 := by
  have hf : R.find idInner = some dInner := hR dInner (by simp [hsDescs])
  refine ⟨_, by simp [marshal, vInner, encVal, hf, dInner, fI128, fBytes, wfDesc, encFields, putMessage_eq _ h1,
      putMessage_eq _ h2, h4, h5]; rfl, ?_⟩
  have a := tlString_length dp
  have b := tlString_length ga
  simp; omega

theorem marshal_clientInner_len {R : Registry} (hR : HsReg R) (n sn retry : Nat) (gb : Bytes)
    (h1 : gb.length < 2 ^ 24) (h4 : n < 256 ^ 16) (h5 : sn < 256 ^ 16) :
    ∃ bs, marshal R (vClientInner n sn retry gb) = .ok bs ∧ bs.length ≤ gb.length + 51 := by
  have hf : R.find idClientInner = some dClientInner := hR dClientInner (by simp [hsDescs])
  refine ⟨_, by simp [marshal, vClientInner, encVal, hf, dClientInner, fI128, fBytes, wfDesc, encFields,
      putMessage_eq _ h1, h4, h5]; rfl, ?_⟩
  have a := tlString_length gb
  simp; omega

theorem marshal_triple {R : Registry} (d : CtorDesc) (hf : R.find d.id = some d)
    (hd : d.kind = .struct ∧ d.flagIndex = none ∧ ∃ a b c, d.fields = [fI128 a, fI128 b, fBytes c])
    (n sn : Nat) (enc : Bytes) (h1 : enc.length < 2 ^ 24) (h4 : n < 256 ^ 16) (h5 : sn < 256 ^ 16) :
    ∃ bs, marshal R (.obj d.id [.big 16 n, .big 16 sn, .bytes false enc]) = .ok bs := by
  obtain ⟨hk, hfi, a, b, c, hfs⟩ := hd
  simp [marshal, encVal, hf, hk, hfi, hfs, fI128, fBytes, wfDesc, encFields, putMessage_eq _ h1, h4, h5]

theorem marshal_dhOk {R : Registry} (hR : HsReg R) (n sn : Nat) (enc : Bytes)
    (h1 : enc.length < 2 ^ 24) (h4 : n < 256 ^ 16) (h5 : sn < 256 ^ 16) :
    ∃ bs, marshal R (vDHOk n sn enc) = .ok bs :=
  marshal_triple dDHOk (hR dDHOk (by simp [hsDescs])) ⟨rfl, rfl, _, _, _, rfl⟩ n sn enc h1 h4 h5

theorem marshal_setClientDH {R : Registry} (hR : HsReg R) (n sn : Nat) (enc : Bytes)
    (h1 : enc.length < 2 ^ 24) (h4 : n < 256 ^ 16) (h5 : sn < 256 ^ 16) :
    ∃ bs, marshal R (vSetClientDH n sn enc) = .ok bs :=
  marshal_triple dSetClientDH (hR dSetClientDH (by simp [hsDescs])) ⟨rfl, rfl, _, _, _, rfl⟩ n sn enc h1 h4 h5

theorem marshal_dhGenOk {R : Registry} (hR : HsReg R) (n sn h : Nat)
    (h1 : n < 256 ^ 16) (h2 : sn < 256 ^ 16) (h3 : h < 256 ^ 16) :
    ∃ bs, marshal R (vDHGenOk n sn h) = .ok bs := by
  have hf : R.find idDHGenOk = some dDHGenOk := hR dDHGenOk (by simp [hsDescs])
  simp [marshal, vDHGenOk, encVal, hf, dDHGenOk, fI128, wfDesc, encFields, h1, h2, h3]

/-- what the receive side gets from the bytes a conformant peer marshalled: the same value up to
nil-ness of slices -/
theorem decode_marshal (R : Registry) (gz : Bytes → Option Bytes) (hW : WFR R) (v : Val) (bs : Bytes)
    (hwt : WT R (.iface "tl.Object") v) (henc : marshal R v = .ok bs) (hf : need v ≤ fuelFor bs + 1) :
    ∃ v', decodeUnknown R gz (fuelFor bs) [] bs = .ok v' ∧ erase v' = erase v := by
  have := decode_encode_unknown R gz hW v bs [] (fuelFor bs) hwt henc hf
  simpa using this

/-- the same for an object followed by other bytes (padding), as the server's `headObject` reads it -/
theorem headObject_marshal (R : Registry) (P : Prims) (hW : WFR R) (v : Val) (bs rest : Bytes)
    (hwt : WT R (.iface "tl.Object") v) (henc : marshal R v = .ok bs) (hf : need v ≤ 4096) :
    ∃ v', headObject R P (bs ++ rest) = some (v', bs, rest) ∧ erase v' = erase v := by
  obtain ⟨v', hdec, her⟩ := rt_val R P.gunzip 0 hW v (.iface "tl.Object") bs rest [] (fuelFor (bs ++ rest) + 1) hwt henc
    (by unfold fuelFor; omega)
  refine ⟨v', ?_, her⟩
  simp only [decVal] at hdec
  unfold headObject
  cases hreg : decRegistered R P.gunzip 0 (fuelFor (bs ++ rest)) (bs ++ rest) [] with
  | err e => simp [hreg] at hdec
  | panic s => simp [hreg] at hdec
  | ok p =>
    obtain ⟨v0, r0, h0⟩ := p
    simp only [hreg] at hdec
    split at hdec
    · simp only [Outcome.ok.injEq, Prod.mk.injEq] at hdec
      obtain ⟨rfl, rfl, _⟩ := hdec
      simp
    · cases hdec

end Mtv.Handshake
