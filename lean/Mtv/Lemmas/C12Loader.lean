/-
  Lemmas for C12: session level round trip, the loader's cache invariant, path forms.
-/
import Mtv.Session.Store
import Mtv.Lemmas.C12Base64
import Mtv.Lemmas.C12Scan
namespace Mtv.Session

/-! ### the session file -/

theorem validUtf8_ascii (x : Bytes) (h : ∀ c ∈ x, c < 0x80) : validUtf8 x = true := by
  induction x with
  | nil => rfl
  | cons c r ih =>
    rw [validUtf8.eq_def]
    simp only [h c (by simp), if_true]
    exact ih fun d hd => h d (by simp [hd])

theorem b64Char_lt : ∀ n, n < 64 → b64Char n < 0x80 := by decide

theorem isB64Char_lt {c : UInt8} (h : IsB64Char c) : c < 0x80 := by
  rcases h with ⟨n, hn, rfl⟩ | rfl
  · exact b64Char_lt n hn
  · decide

theorem validUtf8_b64 (bs : Bytes) : validUtf8 (b64Encode bs) = true :=
  validUtf8_ascii _ fun c hc => isB64Char_lt (b64Encode_chars bs c hc)

/-- what the property asks of a session: an `int64` salt and a host name that is text -/
def Session.Good (s : Session) : Prop := validUtf8 s.hostname = true ∧ s.SaltInRange

instance (s : Session) : Decidable s.Good := by
  unfold Session.Good; exact inferInstance

theorem reread_writeFields (s : Session) (h : validUtf8 s.hostname = true) :
    reread (writeFields s) = writeFields s := by
  simp only [reread, writeFields, unquote, encodeSalt]
  rw [unquote_escape _ (validUtf8_b64 _), unquote_escape _ (validUtf8_b64 _),
    unquote_escape _ (validUtf8_b64 _), unquote_escape _ h]

theorem readFields_writeFields (s : Session) (h : s.SaltInRange) : readFields (writeFields s) = .ok s := by
  simp only [readFields, writeFields]
  rw [b64Decode_encode, b64Decode_encode, decodeSalt_encodeSalt _ h.1 h.2]

theorem readSession_writeSession (s : Session) (h : s.Good) : readSession (writeSession s) = .ok s := by
  unfold readSession writeSession
  rw [unmarshal_marshal, reread_writeFields _ h.1]
  exact readFields_writeFields s h.2

theorem readSession_prefix (s : Session) (p : Bytes) (hp : p <+: writeSession s) (hne : p ≠ writeSession s) :
    readSession p = .err "syntax" := by
  unfold readSession
  rw [unmarshal_prefix _ p hp hne]

/-! ### the loader -/

/-- the directory `Store` checks exists, and the session path is not itself a directory -/
def Ready (fs : FS) (p : Path) : Prop := fs.stat (dirOf p) = some .dir ∧ fs.stat p ≠ some .dir

theorem Ready.ne {fs : FS} {p : Path} (h : Ready fs p) : dirOf p ≠ p := by
  intro e; have h1 := h.1; rw [e] at h1; exact h.2 h1

theorem Ready.write {fs : FS} {p : Path} (h : Ready fs p) (data : Bytes) (m : Nat) :
    Ready (fs.write p data m) p := by
  constructor
  · simp [FS.write, h.ne, h.1]
  · simp [FS.write]

/-- the cache is coherent: when the file still has the modification time the cache was filled at,
the cached session is what the file reads as -/
def Coh (l : Loader) (fs : FS) : Prop :=
  ∀ c data m, l.cached = some c → fs.stat l.path = some (.file data m) → l.lastEdited = some m →
    readSession data = .ok c

theorem Coh.fresh (p : Path) (fs : FS) : Coh (Loader.new p) fs := by
  intro c data m h; simp [Loader.new] at h

theorem load_path (l : Loader) (fs : FS) : (l.load fs).1.path = l.path := by
  unfold Loader.load Loader.loadFile
  split
  · rfl
  · rfl
  · split
    · split
      · rfl
      · split <;> rfl
    · split <;> rfl

theorem load_coh (l : Loader) (fs : FS) (h : Coh l fs) : Coh (l.load fs).1 fs := by
  unfold Loader.load Loader.loadFile
  split
  · exact h
  · exact h
  · rename_i data m hstat
    have key : ∀ (o : Outcome Session), readSession data = o →
        Coh (match o with
          | .ok s => (({ l with cached := some s, lastEdited := some m } : Loader), Outcome.ok s)
          | o => (l, o)).1 fs := by
      intro o ho
      cases o with
      | ok s =>
        intro c data' m' hc hst hle
        simp only at hc hst hle
        rw [hstat] at hst
        cases hc; cases hst
        exact ho
      | err e => exact h
      | panic q => exact h
    split
    · split
      · exact h
      · exact key _ rfl
    · exact key _ rfl

/-- a file holding a written session is read as that session, by a loader with a coherent cache -/
theorem load_written (l : Loader) (fs : FS) (s : Session) (m : Nat) (hs : s.Good) (hc : Coh l fs)
    (hstat : fs.stat l.path = some (.file (writeSession s) m)) : (l.load fs).2 = .ok s := by
  have hr := readSession_writeSession s hs
  unfold Loader.load Loader.loadFile
  rw [hstat]
  simp only [hr]
  cases hcached : l.cached with
  | none => rfl
  | some c =>
    simp only
    split
    · rename_i hle
      have := hc c _ m hcached hstat hle
      rw [hr] at this
      cases this; rfl
    · rfl

theorem store_ok (l : Loader) (fs : FS) (s : Session) (m : Nat) (h : Ready fs l.path) :
    l.store fs s m = ({ l with cached := none }, fs.write l.path (writeSession s) m, .ok ()) := by
  unfold Loader.store storeChecks
  rw [h.1]
  simp only
  have := h.2
  split
  · rename_i hd; exact absurd hd this
  · rfl

/-! ### histories -/

/-- the session of the last `store` of a history (`acc` = the one before the history) -/
def lastStored (acc : Option Session) : List Op → Option Session
  | [] => acc
  | .store s _ :: rest => lastStored (some s) rest
  | .load :: rest => lastStored acc rest

/-- invariant of a history on path `p` whose last stored session is `acc` -/
structure Inv (p : Path) (l : Loader) (fs : FS) (acc : Option Session) : Prop where
  path : l.path = p
  ready : Ready fs p
  coh : Coh l fs
  file : ∀ s, acc = some s → s.Good ∧ ∃ m, fs.stat p = some (.file (writeSession s) m)

theorem runOps_inv (p : Path) (ops : List Op) :
    ∀ (l : Loader) (fs : FS) (acc : Option Session), Inv p l fs acc →
      (∀ s m, Op.store s m ∈ ops → s.Good) →
      Inv p (runOps Loader.store l fs ops).1 (runOps Loader.store l fs ops).2.1 (lastStored acc ops) := by
  induction ops with
  | nil => intro l fs acc h _; exact h
  | cons op rest ih =>
    intro l fs acc h hg
    cases op with
    | store s m =>
      simp only [runOps, lastStored]
      have hr : Ready fs l.path := h.path ▸ h.ready
      rw [store_ok l fs s m hr]
      refine ih _ _ _ ⟨h.path, ?_, ?_, ?_⟩ (fun s' m' hm => hg s' m' (by simp [hm]))
      · rw [h.path]; exact h.ready.write _ _
      · intro c data m' hc; simp at hc
      · intro s' hs'
        cases hs'
        exact ⟨hg s m (by simp), m, by simp [FS.write, h.path]⟩
    | load =>
      simp only [runOps, lastStored]
      refine ih _ _ _ ⟨(load_path l fs).trans h.path, h.ready, load_coh l fs h.coh, h.file⟩
        (fun s' m' hm => hg s' m' (by simp [hm]))

/-- every `Load` of a history returns what the model's `runOps` records; this relates the recorded
outputs to "load at that point" -/
theorem inv_load (p : Path) (l : Loader) (fs : FS) (s : Session) (h : Inv p l fs (some s)) :
    (l.load fs).2 = .ok s ∧ ((Loader.new p).load fs).2 = .ok s := by
  obtain ⟨hg, m, hm⟩ := h.file s rfl
  constructor
  · exact load_written l fs s m hg h.coh (h.path ▸ hm)
  · exact load_written (Loader.new p) fs s m hg (Coh.fresh p fs) hm

/-! ### paths -/

theorem splitDir_noSlash (p : Path) (h : ∀ c ∈ p, c ≠ 0x2F) : splitDir p = [] := by
  induction p with
  | nil => rfl
  | cons c r ih =>
    have hr := ih fun d hd => h d (by simp [hd])
    simp [splitDir, hr, h c (by simp)]

theorem splitDir_slash (d name : Path) (h : ∀ c ∈ name, c ≠ 0x2F) :
    splitDir (d ++ 0x2F :: name) = d ++ [0x2F] := by
  induction d with
  | nil => simp [splitDir, splitDir_noSlash name h]
  | cons c r ih => simp [splitDir, ih]

end Mtv.Session
