/-
  Lemmas for C12: the scanner over string literals and over the file `json.Marshal` writes.
-/
import Mtv.Lemmas.C12Json
namespace Mtv.Session

theorem scan_append (s : St) (a b : Bytes) : scan s (a ++ b) = scan (scan s a) b := by
  simp [scan, List.foldl_append]

theorem scan_cons (s : St) (c : UInt8) (r : Bytes) : scan s (c :: r) = scan (step s c) r := rfl

theorem scan_nil (s : St) : scan s [] = s := rfl

/-! ### inside a literal -/

theorem step_plain (st : List PS) (e : Bool) (raw key : Bytes) (f : Fields) (te : Bool) {c : UInt8}
    (h : isPlain c = true) :
    step ⟨.inStr, st, e, raw, key, f, te⟩ c = ⟨.inStr, st, e, raw ++ [c], key, f, te⟩ := by
  unfold isPlain at h
  have h1 : c ≠ 0x22 := by u8
  have h2 : c ≠ 0x5C := by u8
  have h3 : ¬ c < 0x20 := by u8
  simp [step, h1, h2, h3]

theorem step_bs (st : List PS) (e : Bool) (raw key : Bytes) (f : Fields) (te : Bool) :
    step ⟨.inStr, st, e, raw, key, f, te⟩ 0x5C = ⟨.esc, st, e, raw ++ [0x5C], key, f, te⟩ := by
  simp [step]

theorem step_esc (st : List PS) (e : Bool) (raw key : Bytes) (f : Fields) (te : Bool) {c : UInt8}
    (h : isSimpleEsc c = true) :
    step ⟨.esc, st, e, raw, key, f, te⟩ c = ⟨.inStr, st, e, raw ++ [c], key, f, te⟩ := by
  unfold isSimpleEsc at h
  simp only [Bool.or_eq_true, decide_eq_true_eq] at h
  have : c = 0x62 ∨ c = 0x66 ∨ c = 0x6E ∨ c = 0x72 ∨ c = 0x74 ∨ c = 0x5C ∨ c = 0x2F ∨ c = 0x22 := by
    rcases h with ((((((h | h) | h) | h) | h) | h) | h) | h <;> simp [h]
  simp [step, this]

theorem step_escu (st : List PS) (e : Bool) (raw key : Bytes) (f : Fields) (te : Bool) :
    step ⟨.esc, st, e, raw, key, f, te⟩ 0x75 = ⟨.escU 0, st, e, raw ++ [0x75], key, f, te⟩ := by
  simp [step]

theorem step_hex (k : Nat) (hk : k < 3) (st : List PS) (e : Bool) (raw key : Bytes) (f : Fields) (te : Bool)
    {c : UInt8} (h : isHex c = true) :
    step ⟨.escU k, st, e, raw, key, f, te⟩ c = ⟨.escU (k + 1), st, e, raw ++ [c], key, f, te⟩ := by
  simp [step, h, hk]

theorem step_hex3 (st : List PS) (e : Bool) (raw key : Bytes) (f : Fields) (te : Bool)
    {c : UInt8} (h : isHex c = true) :
    step ⟨.escU 3, st, e, raw, key, f, te⟩ c = ⟨.inStr, st, e, raw ++ [c], key, f, te⟩ := by
  simp [step, h]

/-- a well-formed body is copied to `raw` and leaves the scanner inside the literal -/
theorem scan_lit {body : Bytes} (hb : Lit body) (st : List PS) (e : Bool) (raw key : Bytes) (f : Fields)
    (te : Bool) :
    scan ⟨.inStr, st, e, raw, key, f, te⟩ body = ⟨.inStr, st, e, raw ++ body, key, f, te⟩ := by
  induction hb generalizing raw with
  | nil => simp [scan_nil]
  | plain h _ ih => rw [scan_cons, step_plain _ _ _ _ _ _ h, ih]; simp
  | esc h _ ih => rw [scan_cons, step_bs, scan_cons, step_esc _ _ _ _ _ _ h, ih]; simp
  | uesc h1 h2 h3 h4 _ ih =>
    rw [scan_cons, step_bs, scan_cons, step_escu, scan_cons, step_hex 0 (by omega) _ _ _ _ _ _ h1, scan_cons,
      step_hex 1 (by omega) _ _ _ _ _ _ h2, scan_cons, step_hex 2 (by omega) _ _ _ _ _ _ h3, scan_cons,
      step_hex3 _ _ _ _ _ _ h4, ih]
    simp

/-! ### incomplete inputs -/

/-- the scanner is inside a string literal and the top-level value has not ended -/
def St.inString (t : St) : Prop :=
  (t.lex = .inStr ∨ t.lex = .esc ∨ ∃ k, t.lex = .escU k) ∧ t.endTop = false

theorem inString_incomplete {t : St} (h : t.inString) : t.complete = false := by
  obtain ⟨lex, st, e, raw, key, f, te⟩ := t
  obtain ⟨hl, he⟩ := h
  simp only at hl he
  subst he
  rcases hl with rfl | rfl | ⟨k, rfl⟩
  · simp [St.complete, step]
  · simp [St.complete, step, St.fail]
  · simp [St.complete, step, St.fail, isHex]

theorem lit_prefix {body : Bytes} (hb : Lit body) :
    ∀ (p : Bytes) (st : List PS) (raw key : Bytes) (f : Fields) (te : Bool), p <+: body →
      (scan ⟨.inStr, st, false, raw, key, f, te⟩ p).inString := by
  induction hb with
  | nil =>
    intro p st raw key f te hp
    have : p = [] := by simpa using hp
    subst this; exact ⟨.inl rfl, rfl⟩
  | plain h _ ih =>
    intro p st raw key f te hp
    rcases List.prefix_cons_iff.mp hp with rfl | ⟨t1, rfl, ht1⟩
    · exact ⟨.inl rfl, rfl⟩
    · rw [scan_cons, step_plain _ _ _ _ _ _ h]; exact ih _ _ _ _ _ _ ht1
  | esc h _ ih =>
    intro p st raw key f te hp
    rcases List.prefix_cons_iff.mp hp with rfl | ⟨t1, rfl, ht1⟩
    · exact ⟨.inl rfl, rfl⟩
    rw [scan_cons, step_bs]
    rcases List.prefix_cons_iff.mp ht1 with rfl | ⟨t2, rfl, ht2⟩
    · exact ⟨.inr (.inl rfl), rfl⟩
    rw [scan_cons, step_esc _ _ _ _ _ _ h]; exact ih _ _ _ _ _ _ ht2
  | uesc h1 h2 h3 h4 _ ih =>
    intro p st raw key f te hp
    rcases List.prefix_cons_iff.mp hp with rfl | ⟨t1, rfl, ht1⟩
    · exact ⟨.inl rfl, rfl⟩
    rw [scan_cons, step_bs]
    rcases List.prefix_cons_iff.mp ht1 with rfl | ⟨t2, rfl, ht2⟩
    · exact ⟨.inr (.inl rfl), rfl⟩
    rw [scan_cons, step_escu]
    rcases List.prefix_cons_iff.mp ht2 with rfl | ⟨t3, rfl, ht3⟩
    · exact ⟨.inr (.inr ⟨_, rfl⟩), rfl⟩
    rw [scan_cons, step_hex 0 (by omega) _ _ _ _ _ _ h1]
    rcases List.prefix_cons_iff.mp ht3 with rfl | ⟨t4, rfl, ht4⟩
    · exact ⟨.inr (.inr ⟨_, rfl⟩), rfl⟩
    rw [scan_cons, step_hex 1 (by omega) _ _ _ _ _ _ h2]
    rcases List.prefix_cons_iff.mp ht4 with rfl | ⟨t5, rfl, ht5⟩
    · exact ⟨.inr (.inr ⟨_, rfl⟩), rfl⟩
    rw [scan_cons, step_hex 2 (by omega) _ _ _ _ _ _ h3]
    rcases List.prefix_cons_iff.mp ht5 with rfl | ⟨t6, rfl, ht6⟩
    · exact ⟨.inr (.inr ⟨_, rfl⟩), rfl⟩
    rw [scan_cons, step_hex3 _ _ _ _ _ _ h4]
    exact ih _ _ _ _ _ _ ht6

/-! ### all prefixes incomplete -/

/-- no prefix of `data` (including `data` itself) completes a JSON text when scanned from `s` -/
def AllPre (s : St) (data : Bytes) : Prop := ∀ p, p <+: data → (scan s p).complete = false

theorem allPre_nil {s : St} (h : s.complete = false) : AllPre s [] := by
  intro p hp
  have : p = [] := by simpa using hp
  subst this; exact h

theorem allPre_cons {s : St} {c : UInt8} {r : Bytes} (h : s.complete = false) (hr : AllPre (step s c) r) :
    AllPre s (c :: r) := by
  intro p hp
  rcases List.prefix_cons_iff.mp hp with rfl | ⟨t, rfl, ht⟩
  · exact h
  · exact hr t ht

theorem prefix_append_cases {p a b : Bytes} (h : p <+: a ++ b) : p <+: a ∨ ∃ q, p = a ++ q ∧ q <+: b := by
  induction a generalizing p with
  | nil => exact .inr ⟨p, rfl, h⟩
  | cons x a ih =>
    rcases List.prefix_cons_iff.mp h with rfl | ⟨t, rfl, ht⟩
    · exact .inl (List.nil_prefix)
    · rcases ih ht with h1 | ⟨q, rfl, hq⟩
      · exact .inl (List.prefix_cons_iff.mpr (.inr ⟨t, rfl, h1⟩))
      · exact .inr ⟨q, rfl, hq⟩

theorem allPre_append {s : St} {a b : Bytes} (ha : AllPre s a) (hb : AllPre (scan s a) b) :
    AllPre s (a ++ b) := by
  intro p hp
  rcases prefix_append_cases hp with h | ⟨q, rfl, hq⟩
  · exact ha p h
  · rw [scan_append]; exact hb q hq

theorem allPre_lit {body : Bytes} (hb : Lit body) (st : List PS) (raw key : Bytes) (f : Fields) (te : Bool) :
    AllPre ⟨.inStr, st, false, raw, key, f, te⟩ body :=
  fun p hp => inString_incomplete (lit_prefix hb p st raw key f te hp)

/-! ### one member `"name":"value"` of the top-level object -/

theorem step_openKey {lx : Lex} (hlx : lx = .beginString ∨ lx = .beginStringOrEmpty) (raw key : Bytes)
    (f : Fields) (te : Bool) :
    step ⟨lx, [.objKey], false, raw, key, f, te⟩ 0x22 = ⟨.inStr, [.objKey], false, [], key, f, te⟩ := by
  rcases hlx with rfl | rfl <;> simp [step, isSpace]

theorem incomplete_openKey {lx : Lex} (hlx : lx = .beginString ∨ lx = .beginStringOrEmpty) (raw key : Bytes)
    (f : Fields) (te : Bool) : (St.mk lx [.objKey] false raw key f te).complete = false := by
  rcases hlx with rfl | rfl <;> simp [St.complete, step, isSpace]

theorem step_closeKey (raw key : Bytes) (f : Fields) (te : Bool) :
    step ⟨.inStr, [.objKey], false, raw, key, f, te⟩ 0x22 = ⟨.endValue, [.objKey], false, raw, unquote raw, f, te⟩ := by
  simp [step, St.closeString]

theorem step_colon (raw key : Bytes) (f : Fields) (te : Bool) :
    step ⟨.endValue, [.objKey], false, raw, key, f, te⟩ 0x3A = ⟨.beginValue, [.objVal], false, raw, key, f, te⟩ := by
  simp [step, St.endValue, isSpace]

theorem step_openVal (raw key : Bytes) (f : Fields) (te : Bool) :
    step ⟨.beginValue, [.objVal], false, raw, key, f, te⟩ 0x22 = ⟨.inStr, [.objVal], false, [], key, f, te⟩ := by
  simp [step, St.beginValue, St.noteValueStart, isSpace]

theorem step_closeVal (raw key : Bytes) (f : Fields) (te : Bool) :
    step ⟨.inStr, [.objVal], false, raw, key, f, te⟩ 0x22 =
      ⟨.endValue, [.objVal], false, raw, key, f.set key (unquote raw), te⟩ := by
  simp [step, St.closeString]

theorem step_comma (raw key : Bytes) (f : Fields) (te : Bool) :
    step ⟨.endValue, [.objVal], false, raw, key, f, te⟩ 0x2C = ⟨.beginString, [.objKey], false, raw, key, f, te⟩ := by
  simp [step, St.endValue, isSpace]

theorem step_closeObj (raw key : Bytes) (f : Fields) (te : Bool) :
    step ⟨.endValue, [.objVal], false, raw, key, f, te⟩ 0x7D = ⟨.endTop, [], true, raw, key, f, te⟩ := by
  simp [step, St.endValue, St.pop, isSpace]

theorem step_openObj : step {} 0x7B = ⟨.beginStringOrEmpty, [.objKey], false, [], [], {}, false⟩ := by
  simp [step, St.beginValue, St.noteValueStart, isSpace, maxNestingDepth]

theorem scan_member {lx : Lex} (hlx : lx = .beginString ∨ lx = .beginStringOrEmpty) (raw key : Bytes)
    (f : Fields) (te : Bool) (name v : Bytes) (hn : ∀ c ∈ name, isPlain c = true) :
    scan ⟨lx, [.objKey], false, raw, key, f, te⟩ (member name v) =
      ⟨.endValue, [.objVal], false, escape v, unquote name, f.set (unquote name) (unquote (escape v)), te⟩ := by
  unfold member quote
  rw [scan_cons, step_openKey hlx, scan_append, scan_lit (Lit.of_plain hn), scan_cons, step_closeKey,
    scan_cons, step_colon, scan_cons, step_openVal, scan_append, scan_lit (lit_escape v), scan_cons,
    step_closeVal, scan_nil]
  simp

theorem allPre_member {lx : Lex} (hlx : lx = .beginString ∨ lx = .beginStringOrEmpty) (raw key : Bytes)
    (f : Fields) (te : Bool) (name v : Bytes) (hn : ∀ c ∈ name, isPlain c = true) :
    AllPre ⟨lx, [.objKey], false, raw, key, f, te⟩ (member name v) := by
  unfold member quote
  refine allPre_cons (incomplete_openKey hlx _ _ _ _) ?_
  rw [step_openKey hlx]
  refine allPre_append (allPre_lit (Lit.of_plain hn) _ _ _ _ _) ?_
  rw [scan_lit (Lit.of_plain hn)]
  refine allPre_cons (inString_incomplete ⟨.inl rfl, rfl⟩) ?_
  rw [step_closeKey]
  refine allPre_cons (by simp [St.complete, step, St.endValue, isSpace]) ?_
  rw [step_colon]
  refine allPre_cons (by simp [St.complete, step, isSpace]) ?_
  rw [step_openVal]
  refine allPre_append (allPre_lit (lit_escape v) _ _ _ _ _) ?_
  rw [scan_lit (lit_escape v)]
  refine allPre_cons (inString_incomplete ⟨.inl rfl, rfl⟩) ?_
  rw [step_closeVal]
  exact allPre_nil (by simp [St.complete, step, St.endValue, isSpace])

/-! ### the whole file -/

theorem plain_kKey : ∀ c ∈ kKey, isPlain c = true := by decide
theorem plain_kHash : ∀ c ∈ kHash, isPlain c = true := by decide
theorem plain_kSalt : ∀ c ∈ kSalt, isPlain c = true := by decide
theorem plain_kHostname : ∀ c ∈ kHostname, isPlain c = true := by decide

theorem unquote_kKey : unquote kKey = kKey := by decide
theorem unquote_kHash : unquote kHash = kHash := by decide
theorem unquote_kSalt : unquote kSalt = kSalt := by decide
theorem unquote_kHostname : unquote kHostname = kHostname := by decide

theorem set_kKey (f : Fields) (v : Bytes) : f.set kKey v = { f with key := v } := by
  have : fieldOf kKey = some .key := by decide
  simp [Fields.set, this]
theorem set_kHash (f : Fields) (v : Bytes) : f.set kHash v = { f with hash := v } := by
  have : fieldOf kHash = some .hash := by decide
  simp [Fields.set, this]
theorem set_kSalt (f : Fields) (v : Bytes) : f.set kSalt v = { f with salt := v } := by
  have : fieldOf kSalt = some .salt := by decide
  simp [Fields.set, this]
theorem set_kHostname (f : Fields) (v : Bytes) : f.set kHostname v = { f with hostname := v } := by
  have : fieldOf kHostname = some .hostname := by decide
  simp [Fields.set, this]

/-- the fields `json.Unmarshal` stores when it reads what `json.Marshal` wrote -/
def reread (f : Fields) : Fields :=
  { key := unquote (escape f.key), hash := unquote (escape f.hash), salt := unquote (escape f.salt),
    hostname := unquote (escape f.hostname) }

/-- everything `json.Marshal` writes before the closing brace -/
def marshalOpen (f : Fields) : Bytes :=
  0x7B :: (member kKey f.key ++ 0x2C :: (member kHash f.hash ++ 0x2C :: (member kSalt f.salt ++
    0x2C :: member kHostname f.hostname)))

theorem marshal_eq (f : Fields) : marshal f = marshalOpen f ++ [0x7D] := by
  simp [marshal, marshalOpen]

theorem scan_marshalOpen (f : Fields) :
    scan {} (marshalOpen f) =
      ⟨.endValue, [.objVal], false, escape f.hostname, kHostname, reread f, false⟩ := by
  unfold marshalOpen
  rw [scan_cons, step_openObj, scan_append, scan_member (.inr rfl) _ _ _ _ _ _ plain_kKey, scan_cons,
    step_comma, scan_append, scan_member (.inl rfl) _ _ _ _ _ _ plain_kHash, scan_cons, step_comma,
    scan_append, scan_member (.inl rfl) _ _ _ _ _ _ plain_kSalt, scan_cons, step_comma,
    scan_member (.inl rfl) _ _ _ _ _ _ plain_kHostname]
  simp only [unquote_kKey, unquote_kHash, unquote_kSalt, unquote_kHostname, set_kKey, set_kHash, set_kSalt,
    set_kHostname, reread]

theorem allPre_marshalOpen (f : Fields) : AllPre {} (marshalOpen f) := by
  unfold marshalOpen
  refine allPre_cons (by decide) ?_
  rw [step_openObj]
  refine allPre_append (allPre_member (.inr rfl) _ _ _ _ _ _ plain_kKey) ?_
  rw [scan_member (.inr rfl) _ _ _ _ _ _ plain_kKey]
  refine allPre_cons (by simp [St.complete, step, St.endValue, isSpace]) ?_
  rw [step_comma]
  refine allPre_append (allPre_member (.inl rfl) _ _ _ _ _ _ plain_kHash) ?_
  rw [scan_member (.inl rfl) _ _ _ _ _ _ plain_kHash]
  refine allPre_cons (by simp [St.complete, step, St.endValue, isSpace]) ?_
  rw [step_comma]
  refine allPre_append (allPre_member (.inl rfl) _ _ _ _ _ _ plain_kSalt) ?_
  rw [scan_member (.inl rfl) _ _ _ _ _ _ plain_kSalt]
  refine allPre_cons (by simp [St.complete, step, St.endValue, isSpace]) ?_
  rw [step_comma]
  exact allPre_member (.inl rfl) _ _ _ _ _ _ plain_kHostname

/-- `json.Unmarshal` of what `json.Marshal` wrote -/
theorem unmarshal_marshal (f : Fields) : unmarshal (marshal f) = .ok (reread f) := by
  unfold unmarshal
  rw [marshal_eq, scan_append, scan_marshalOpen, scan_cons, step_closeObj, scan_nil]
  simp [St.complete]

/-- every strict prefix of what `json.Marshal` wrote is a syntax error -/
theorem unmarshal_prefix (f : Fields) (p : Bytes) (hp : p <+: marshal f) (hne : p ≠ marshal f) :
    unmarshal p = .error .syntax := by
  have hpre : p <+: marshalOpen f := by
    rw [marshal_eq] at hp hne
    rcases prefix_append_cases hp with h | ⟨q, rfl, hq⟩
    · exact h
    · rcases List.prefix_cons_iff.mp hq with rfl | ⟨t, rfl, ht⟩
      · simp
      · have : t = [] := by simpa using ht
        subst this; exact absurd rfl hne
  unfold unmarshal
  simp [allPre_marshalOpen f p hpre]

end Mtv.Session
