/-
  Lemmas for C12: the scanner over string literals and over the file `json.Marshal` writes.
-/
import Mtv.Lemmas.C12Json
namespace Mtv.Session

theorem scan_append (s : St) (a b : Bytes) : scan s (a ++ b) = scan (scan s a) b := by
  simp [scan, List.foldl_append]

theorem scan_cons (s : St) (c : UInt8) (r : Bytes) : scan s (c :: r) = scan (step s c) r := rfl

theorem scan_nil (s : St) : scan s [] = s := rfl

/-! ### inside a literal -/

theorem step_plain (st : List PS) (e : Bool) (raw key : Bytes) (f : Fields) (te : Bool) {c : UInt8}
    (h : isPlain c = true) :
    step ⟨.inStr, st, e, raw, key, f, te⟩ c = ⟨.inStr, st, e, raw ++ [c], key, f, te⟩ := by
  unfold isPlain at h
  have h1 : c ≠ 0x22 := by u8
  have h2 : c ≠ 0x5C := by u8
  have h3 : ¬ c < 0x20 := by u8
  simp [step, h1, h2, h3]

theorem step_bs (st : List PS) (e : Bool) (raw key : Bytes) (f : Fields) (te : Bool) :
    step ⟨.inStr, st, e, raw, key, f, te⟩ 0x5C = ⟨.esc, st, e, raw ++ [0x5C], key, f, te⟩ := by
  simp [step]

theorem step_esc (st : List PS) (e : Bool) (raw key : Bytes) (f : Fields) (te : Bool) {c : UInt8}
    (h : isSimpleEsc c = true) :
    step ⟨.esc, st, e, raw, key, f, te⟩ c = ⟨.inStr, st, e, raw ++ [c], key, f, te⟩ := by
  unfold isSimpleEsc at h
  simp only [Bool.or_eq_true, decide_eq_true_eq] at h
  have : c = 0x62 ∨ c = 0x66 ∨ c = 0x6E ∨ c = 0x72 ∨ c = 0x74 ∨ c = 0x5C ∨ c = 0x2F ∨ c = 0x22 := by
    rcases h with ((((((h | h) | h) | h) | h) | h) | h) | h <;> simp [h]
  simp [step, this]

theorem step_escu (st : List PS) (e : Bool) (raw key : Bytes) (f : Fields) (te : Bool) :
    step ⟨.esc, st, e, raw, key, f, te⟩ 0x75 = ⟨.escU 0, st, e, raw ++ [0x75], key, f, te⟩ := by
  simp [step]

theorem step_hex (k : Nat) (hk : k < 3) (st : List PS) (e : Bool) (raw key : Bytes) (f : Fields) (te : Bool)
    {c : UInt8} (h : isHex c = true) :
    step ⟨.escU k, st, e, raw, key, f, te⟩ c = ⟨.escU (k + 1), st, e, raw ++ [c], key, f, te⟩ := by
  simp [step, h, hk]

theorem step_hex3 (st : List PS) (e : Bool) (raw key : Bytes) (f : Fields) (te : Bool)
    {c : UInt8} (h : isHex c = true) :
    step ⟨.escU 3, st, e, raw, key, f, te⟩ c = ⟨.inStr, st, e, raw ++ [c], key, f, te⟩ := by
  simp [step, h]

/-- a well-formed body is copied to `raw` and leaves the scanner inside the literal -/
theorem scan_lit {body : Bytes} (hb : Lit body) (st : List PS) (e : Bool) (raw key : Bytes) (f : Fields)
    (te : Bool) :
    scan ⟨.inStr, st, e, raw, key, f, te⟩ body = ⟨.inStr, st, e, raw ++ body, key, f, te⟩ := by
  induction hb generalizing raw with
  | nil => simp [scan_nil]
  | plain h _ ih => rw [scan_cons, step_plain _ _ _ _ _ _ h, ih]; simp
  | esc h _ ih => rw [scan_cons, step_bs, scan_cons, step_esc _ _ _ _ _ _ h, ih]; simp
  | uesc h1 h2 h3 h4 _ ih =>
    rw [scan_cons, step_bs, scan_cons, step_escu, scan_cons, step_hex 0 (by omega) _ _ _ _ _ _ h1, scan_cons,
      step_hex 1 (by omega) _ _ _ _ _ _ h2, scan_cons, step_hex 2 (by omega) _ _ _ _ _ _ h3, scan_cons,
      step_hex3 _ _ _ _ _ _ h4, ih]
    simp

/-! ### incomplete inputs -/

/-- the scanner is inside a string literal and the top-level value has not ended -/
def St.inString (t : St) : Prop :=
  (t.lex = .inStr ∨ t.lex = .esc ∨ ∃ k, t.lex = .escU k) ∧ t.endTop = false

theorem inString_incomplete {t : St} (h : t.inString) : t.complete = false := by
  obtain ⟨lex, st, e, raw, key, f, te⟩ := t
  obtain ⟨hl, he⟩ := h
  simp only at hl he
  subst he
  rcases hl with rfl | rfl | ⟨k, rfl⟩
  · simp [St.complete, step]
  · simp [St.complete, step, St.fail]
  · simp [St.complete, step, St.fail, isHex]

theorem lit_prefix {body : Bytes} (hb : Lit body) :
    ∀ (p : Bytes) (st : List PS) (raw key : Bytes) (f : Fields) (te : Bool), p <+: body →
      (scan ⟨.inStr, st, false, raw, key, f, te⟩ p).inString := by
  induction hb with
  | nil =>
    intro p st raw key f te hp
    have : p = [] := by simpa using hp
    subst this; exact ⟨.inl rfl, rfl⟩
  | plain h _ ih =>
    intro p st raw key f te hp
    rcases List.prefix_cons_iff.mp hp with rfl | ⟨t1, rfl, ht1⟩
    · exact ⟨.inl rfl, rfl⟩
    · rw [scan_cons, step_plain _ _ _ _ _ _ h]; exact ih _ _ _ _ _ _ ht1
  | esc h _ ih =>
    intro p st raw key f te hp
    rcases List.prefix_cons_iff.mp hp with rfl | ⟨t1, rfl, ht1⟩
    · exact ⟨.inl rfl, rfl⟩
    rw [scan_cons, step_bs]
    rcases List.prefix_cons_iff.mp ht1 with rfl | ⟨t2, rfl, ht2⟩
    · exact ⟨.inr (.inl rfl), rfl⟩
    rw [scan_cons, step_esc _ _ _ _ _ _ h]; exact ih _ _ _ _ _ _ ht2
  | uesc h1 h2 h3 h4 _ ih =>
    intro p st raw key f te hp
    rcases List.prefix_cons_iff.mp hp with rfl | ⟨t1, rfl, ht1⟩
    · exact ⟨.inl rfl, rfl⟩
    rw [scan_cons, step_bs]
    rcases List.prefix_cons_iff.mp ht1 with rfl | ⟨t2, rfl, ht2⟩
    · exact ⟨.inr (.inl rfl), rfl⟩
    rw [scan_cons, step_escu]
    rcases List.prefix_cons_iff.mp ht2 with rfl | ⟨t3, rfl, ht3⟩
    · exact ⟨.inr (.inr ⟨_, rfl⟩), rfl⟩
    rw [scan_cons, step_hex 0 (by omega) _ _ _ _ _ _ h1]
    rcases List.prefix_cons_iff.mp ht3 with rfl | ⟨t4, rfl, ht4⟩
    · exact ⟨.inr (.inr ⟨_, rfl⟩), rfl⟩
    rw [scan_cons, step_hex 1 (by omega) _ _ _ _ _ _ h2]
    rcases List.prefix_cons_iff.mp ht4 with rfl | ⟨t5, rfl, ht5⟩
    · exact ⟨.inr (.inr ⟨_, rfl⟩), rfl⟩
    rw [scan_cons, step_hex 2 (by omega) _ _ _ _ _ _ h3]
    rcases List.prefix_cons_iff.mp ht5 with rfl | ⟨t6, rfl, ht6⟩
    · exact ⟨.inr (.inr ⟨_, rfl⟩), rfl⟩
    rw [scan_cons, step_hex3 _ _ _ _ _ _ h4]
    exact ih _ _ _ _ _ _ ht6

end Mtv.Session
