/-
  Annotation lines: what `// @type …`, `// @constructor …`, `// @method …`, `// @param name …` do to the
  loop state, and the state after an annotated constructor / function.
-/
import Mtv.Lemmas.C14Words
import Mtv.Lemmas.C14Structure
namespace Mtv.Tlgen

theorem word_kwAtType : Word kwAtType := by unfold Word; decide
theorem word_kwAtConstructor : Word kwAtConstructor := by unfold Word; decide
theorem word_kwAtMethod : Word kwAtMethod := by unfold Word; decide
theorem word_kwAtParam : Word kwAtParam := by unfold Word; decide

theorem NameOk.word {s : Str} (h : NameOk s) : Word s :=
  ⟨h.1, fun c hc => (nameChar_facts (h.2 c hc)).1⟩

/-- the text of an annotation line splits into its kind and its text -/
theorem splitFirstWord_annot (kind text : Str) (hk : Word kind) (ht : Trimmed text) :
    splitFirstWord (annotText kind text) = (kind, text) := by
  unfold annotText
  by_cases h : text = []
  · subst h
    have := splitFirstWord_word [' '] kind [] (by simp [isSpace_blank]) hk (by simp)
    simpa using this
  · have := splitFirstWord_word_text [' '] kind text (by simp [isSpace_blank]) hk ht h
    simpa [h] using this

theorem comment_type (st : PState) (c : Str) (hc : Trimmed c) :
    st.comment (annotText kwAtType c) = { st with nextTypeComment := c } := by
  simp only [PState.comment, splitFirstWord_annot kwAtType c word_kwAtType hc, if_true]

theorem comment_constructor (st : PState) (c : Str) (hc : Trimmed c) :
    st.comment (annotText kwAtConstructor c) = { st with constructorComment := c } := by
  have h1 : ¬ kwAtConstructor = kwAtType := by decide
  simp only [PState.comment, splitFirstWord_annot kwAtConstructor c word_kwAtConstructor hc, h1, if_false,
    true_or, or_true, if_true]

theorem comment_method (st : PState) (c : Str) (hc : Trimmed c) :
    st.comment (annotText kwAtMethod c) = { st with constructorComment := c } := by
  have h1 : ¬ kwAtMethod = kwAtType := by decide
  simp only [PState.comment, splitFirstWord_annot kwAtMethod c word_kwAtMethod hc, h1, if_false,
    or_true, if_true]

theorem trimmed_paramText (name c : Str) (hn : Word name) (hc : Trimmed c) :
    Trimmed (paramText name c) ∧ paramText name c ≠ [] := by
  unfold paramText
  refine ⟨⟨?_, ?_⟩, by simp [hn.1]⟩
  · intro a ha
    cases name with
    | nil => exact absurd rfl hn.1
    | cons b n => simp at ha; subst ha; exact hn.2 b (by simp)
  · intro b hb
    by_cases h : c = []
    · subst h; simp at hb; exact hn.last b hb
    · simp only [h, if_false] at hb
      rw [List.getLast?_append] at hb
      have : (' ' :: c).getLast? = c.getLast? := List.getLast?_cons_of_ne_nil h
      rw [this] at hb
      cases hl : c.getLast? with
      | none => simp [List.getLast?_eq_none_iff] at hl; exact absurd hl h
      | some z =>
        rw [hl] at hb; simp at hb; subst hb
        exact hc.2 z hl

theorem comment_param (st : PState) (name c : Str) (hn : Word name) (hc : Trimmed c) :
    st.comment (annotText kwAtParam (paramText name c)) =
      { st with paramComments := mapSet st.paramComments name c } := by
  obtain ⟨ht, hne⟩ := trimmed_paramText name c hn hc
  have h1 : ¬ kwAtParam = kwAtType := by decide
  have h2 : ¬ (kwAtParam = kwAtEnum ∨ kwAtParam = kwAtConstructor ∨ kwAtParam = kwAtMethod) := by decide
  have h3 : splitFirstWord (paramText name c) = (name, c) := by
    unfold paramText
    by_cases h : c = []
    · subst h
      have := splitFirstWord_word [] name [] (by simp) hn (by simp)
      simpa using this
    · have := splitFirstWord_word_text [] name c (by simp) hn hc h
      simpa [h] using this
  simp only [PState.comment, splitFirstWord_annot kwAtParam _ word_kwAtParam ht, h1, h2, if_false, if_true, h3]

/-! ### the association lists standing for Go maps -/

theorem mapGet_mapSet (m : List (Str × Str)) (k v k' : Str) :
    mapGet (mapSet m k v) k' = if k' = k then v else mapGet m k' := by
  induction m with
  | nil =>
    by_cases h : k = k' <;> simp [mapSet, mapGet, h, eq_comm]
  | cons e m ih =>
    obtain ⟨k0, v0⟩ := e
    by_cases h0 : k0 = k
    · subst h0
      by_cases h : k0 = k'
      · simp [mapSet, mapGet, h]
      · have h' : ¬ k' = k0 := fun e => h e.symm
        simp [mapSet, mapGet, h, h']
    · by_cases h : k0 = k'
      · subst h
        simp [mapSet, mapGet, h0]
      · simp [mapSet, mapGet, h0, h, ih]

/-- the `@param` comments pending after the annotation lines of `ps` -/
def setParams (m : List (Str × Str)) (ps : List Param) : List (Str × Str) :=
  ps.foldl (fun m p => mapSet m p.name p.comment) m

theorem mapGet_setParams_other (ps : List Param) (m : List (Str × Str)) (k : Str) (h : k ∉ ps.map (·.name)) :
    mapGet (setParams m ps) k = mapGet m k := by
  induction ps generalizing m with
  | nil => rfl
  | cons p ps ih =>
    simp only [List.map_cons, List.mem_cons, not_or] at h
    simp only [setParams, List.foldl_cons]
    have := ih (mapSet m p.name p.comment) h.2
    simp only [setParams] at this
    rw [this, mapGet_mapSet, if_neg h.1]

theorem mapGet_setParams (ps : List Param) (hnd : (ps.map (·.name)).Nodup) (m : List (Str × Str)) :
    ∀ p ∈ ps, mapGet (setParams m ps) p.name = p.comment := by
  induction ps generalizing m with
  | nil => intro p hp; simp at hp
  | cons q ps ih =>
    intro p hp
    simp only [List.map_cons, List.nodup_cons] at hnd
    simp only [setParams, List.foldl_cons]
    rcases List.mem_cons.mp hp with h | h
    · subst h
      have := mapGet_setParams_other ps (mapSet m p.name p.comment) p.name hnd.1
      simp only [setParams] at this
      rw [this, mapGet_mapSet, if_pos rfl]
    · exact ih hnd.2 _ p h

/-- attaching the pending comments to the bare parameters gives the parameters back -/
theorem withComments_strip (st : PState) (ps : List Param)
    (h : ∀ p ∈ ps, mapGet st.paramComments p.name = p.comment) :
    st.withComments (ps.map Param.strip) = ps := by
  induction ps with
  | nil => rfl
  | cons p ps ih =>
    have hp := h p (by simp)
    have := ih (fun q hq => h q (by simp [hq]))
    simp only [PState.withComments, List.map_cons, List.map_map] at this ⊢
    rw [this]
    congr 1
    cases p; simp_all [Param.strip]

/-! ### documents in pieces -/

theorem denoteItems_append (xs ys : List Item) (st : PState) :
    denoteItems (xs ++ ys) st = (denoteItems xs st).bind (denoteItems ys) := by
  induction xs generalizing st with
  | nil => rfl
  | cons x xs ih =>
    cases x <;> simp only [List.cons_append, denoteItems, ih]
    case defn d =>
      cases st.define d <;> simp

theorem denote_paramAnnots (ps : List Param) (hn : ∀ p ∈ ps, Word p.name) (hc : ∀ p ∈ ps, Trimmed p.comment)
    (rest : List Item) (st : PState) :
    denoteItems (paramAnnots ps ++ rest) st =
      denoteItems rest { st with paramComments := setParams st.paramComments ps } := by
  induction ps generalizing st with
  | nil => rfl
  | cons p ps ih =>
    simp only [paramAnnots, List.map_cons, List.cons_append, annot, denoteItems]
    rw [comment_param st p.name p.comment (hn p (by simp)) (hc p (by simp))]
    have := ih (fun q hq => hn q (by simp [hq])) (fun q hq => hc q (by simp [hq]))
      { st with paramComments := mapSet st.paramComments p.name p.comment }
    simp only [paramAnnots, annot] at this
    rw [this]
    rfl

theorem names_word_of_wf (ps : List Param) (h : ∀ p ∈ ps.map Param.strip, WFParam p) : ∀ p ∈ ps, Word p.name := by
  intro p hp
  have := (h p.strip (List.mem_map_of_mem hp)).name_ok
  exact NameOk.word this

/-! ### an annotated constructor, an annotated function -/

theorem denoteItems_comment_cons (t : Str) (is : List Item) (st : PState) :
    denoteItems (.comment t :: is) st = denoteItems is (st.comment t) := rfl

theorem denoteItems_defn_cons (d : Def) (is : List Item) (st st' : PState) (h : st.define d = some st') :
    denoteItems (.defn d :: is) st = denoteItems is st' := by
  simp only [denoteItems, h]

theorem denote_objItems (tc : List (Str × Str)) (o : Obj) (hwf : WFDef o.toDef) (hc : CommentOk o.comment)
    (hnd : (o.params.map (·.name)).Nodup) (hpc : ∀ p ∈ o.params, CommentOk p.comment)
    (htc : CommentOk (mapGet tc o.iface)) (rest : List Item) (st : PState)
    (h1 : st.isFunctions = false) (h2 : st.nextTypeComment = []) (h4 : st.paramComments = []) :
    ∃ st', denoteItems (objItems tc o ++ rest) st = denoteItems rest st' ∧
      st'.isFunctions = false ∧ st'.nextTypeComment = [] ∧ st'.constructorComment = [] ∧ st'.paramComments = [] ∧
      st'.objects = o :: st.objects ∧ st'.methods = st.methods ∧
      st'.typeComments = (if mapGet tc o.iface = [] then st.typeComments
                          else mapSet st.typeComments o.iface (mapGet tc o.iface)) := by
  have hnames := names_word_of_wf o.params (by simpa [Obj.toDef] using hwf.params_ok)
  -- the state in front of the definition
  obtain ⟨st3, hst3⟩ : ∃ s, s = { st with nextTypeComment := mapGet tc o.iface, constructorComment := o.comment, paramComments := setParams [] o.params } := ⟨_, rfl⟩
  have hrest : ∀ s : PState, s.paramComments = [] →
      denoteItems (annot kwAtConstructor o.comment :: (paramAnnots o.params ++ (.defn o.toDef :: rest))) s =
      denoteItems (.defn o.toDef :: rest) { s with constructorComment := o.comment, paramComments := setParams [] o.params } := by
    intro s hs
    rw [annot, denoteItems_comment_cons, comment_constructor s o.comment hc.1,
      denote_paramAnnots o.params hnames (fun p hp => (hpc p hp).1)]
    congr 1
    simp [hs]
  have hpre : denoteItems (objItems tc o ++ rest) st = denoteItems (.defn o.toDef :: rest) st3 := by
    by_cases hcase : mapGet tc o.iface = []
    · simp only [objItems, hcase, if_true, List.nil_append, List.cons_append, List.append_assoc]
      rw [hrest st h4, hst3, hcase]
      congr 1
      simp [h2]
    · simp only [objItems, hcase, if_false, List.nil_append, List.cons_append, List.append_assoc]
      rw [annot, denoteItems_comment_cons, comment_type st _ htc.1,
        hrest { st with nextTypeComment := mapGet tc o.iface } h4, hst3]
  have hfn3 : st3.isFunctions = false := by rw [hst3]; exact h1
  obtain ⟨st', hdef, hf', hm', ho', htc', hp', hcc', hn'⟩ := st3.define_obj o.toDef hfn3 rfl
  refine ⟨st', ?_, hf', hn', hcc', hp', ?_, ?_, ?_⟩
  · rw [hpre, denoteItems_defn_cons _ _ _ _ hdef]
  · rw [ho']
    have hw : st3.withComments (o.params.map Param.strip) = o.params := by
      apply withComments_strip
      intro p hp
      rw [hst3]
      exact mapGet_setParams o.params hnd [] p hp
    simp only [Obj.toDef, hw]
    rw [hst3]
  · rw [hm', hst3]
  · rw [htc', hst3]
    by_cases hcase : mapGet tc o.iface = [] <;> simp [hcase, Obj.toDef]

theorem denote_methodItems (m : Method) (hwf : WFDef m.toDef) (hc : CommentOk m.comment)
    (hnd : (m.params.map (·.name)).Nodup) (hpc : ∀ p ∈ m.params, CommentOk p.comment)
    (rest : List Item) (st : PState) (h1 : st.isFunctions = true) :
    ∃ st', denoteItems (methodItems m ++ rest) st = denoteItems rest st' ∧
      st'.isFunctions = true ∧ st'.objects = st.objects ∧ st'.methods = m :: st.methods ∧
      st'.typeComments = st.typeComments := by
  have hnames := names_word_of_wf m.params (by simpa [Method.toDef] using hwf.params_ok)
  obtain ⟨st3, hst3⟩ : ∃ s, s = { st with constructorComment := m.comment, paramComments := setParams st.paramComments m.params } := ⟨_, rfl⟩
  have hpre : denoteItems (methodItems m ++ rest) st = denoteItems (.defn m.toDef :: rest) st3 := by
    simp only [methodItems, List.nil_append, List.cons_append, List.append_assoc]
    rw [annot, denoteItems_comment_cons, comment_method st m.comment hc.1,
      denote_paramAnnots m.params hnames (fun p hp => (hpc p hp).1), hst3]
  have hfn3 : st3.isFunctions = true := by rw [hst3]; exact h1
  obtain ⟨st', hdef, hf', ho', hm', htc', -⟩ := st3.define_method m.toDef hfn3
  refine ⟨st', ?_, hf', ?_, ?_, ?_⟩
  · rw [hpre, denoteItems_defn_cons _ _ _ _ hdef]
  · rw [ho', hst3]
  · rw [hm']
    have hw : st3.withComments (m.params.map Param.strip) = m.params := by
      apply withComments_strip
      intro p hp
      rw [hst3]
      exact mapGet_setParams m.params hnd _ p hp
    simp only [Method.toDef, hw]
    rw [hst3]
  · rw [htc', hst3]

end Mtv.Tlgen
