/-
  Helper lemmas for C15's "never loops" clause: how much input the readers and the six mutually
  recursive decoder functions consume (`decoder_consumes`), that more fuel never changes a result that is
  not the fuel error (`fuel_mono_all`), and that an explicit amount of fuel — linear in the length of the
  input, the length of what a packed object unpacks to, and the largest number of fields of a registered
  constructor — is never exhausted (`level_enough`, `depth_enough`).
-/
import Mtv.TL.Decode
namespace Mtv.TL

/-! ## what the byte-level readers consume -/

theorem readN_consumes {n : Nat} {bs m r : Bytes} (h : readN n bs = .ok (m, r)) :
    r.length + n = bs.length := by
  unfold readN at h
  split at h
  · cases h
  · split at h
    · cases h
    · cases h; simp; omega

theorem popUint_consumes {bs r : Bytes} {n : Nat} (h : popUint bs = .ok (n, r)) : r.length + 4 = bs.length := by
  unfold popUint at h
  cases h1 : readN 4 bs with
  | err e => simp [h1] at h
  | panic s => simp [h1] at h
  | ok p =>
    obtain ⟨w, r'⟩ := p
    simp only [h1, Outcome.ok.injEq, Prod.mk.injEq] at h
    obtain ⟨_, rfl⟩ := h
    exact readN_consumes h1

theorem popLong_consumes {bs r : Bytes} {n : Nat} (h : popLong bs = .ok (n, r)) : r.length + 8 = bs.length := by
  unfold popLong at h
  cases h1 : readN 8 bs with
  | err e => simp [h1] at h
  | panic s => simp [h1] at h
  | ok p =>
    obtain ⟨w, r'⟩ := p
    simp only [h1, Outcome.ok.injEq, Prod.mk.injEq] at h
    obtain ⟨_, rfl⟩ := h
    exact readN_consumes h1

theorem popBool_consumes {bs r : Bytes} {b : Bool} (h : popBool bs = .ok (b, r)) : r.length + 4 = bs.length := by
  unfold popBool at h
  cases h1 : popUint bs with
  | err e => simp [h1] at h
  | panic s => simp [h1] at h
  | ok p =>
    obtain ⟨c, r'⟩ := p
    simp only [h1] at h
    have := popUint_consumes h1
    split at h
    · cases h; exact this
    · split at h
      · cases h; exact this
      · cases h

theorem popRaw_consumes {size : Int} {bs m r : Bytes} (h : popRaw size bs = .ok (m, r)) :
    r.length + size.toNat = bs.length := by
  unfold popRaw at h
  split at h
  · cases h
  · split at h
    · cases h
    · split at h
      · rename_i h0
        cases h
        simp [h0]
      · exact readN_consumes h

/-- a string read by `PopMessage` takes at least its length byte -/
theorem popMessage_consumes {bs m r : Bytes} (h : popMessage bs = .ok (m, r)) : r.length < bs.length := by
  unfold popMessage at h
  cases h1 : readN 1 bs with
  | err e => simp [h1] at h
  | panic s => simp [h1] at h
  | ok p1 =>
    obtain ⟨hd, r1⟩ := p1
    simp only [h1] at h
    have hl1 := readN_consumes h1
    have tail : ∀ (size lenSize : Nat) (r2 : Bytes), r2.length ≤ r1.length →
        (if r2.length < size then (Outcome.err "msgSize" : Outcome (Bytes × Bytes))
          else match readN size r2 with
            | .err e => .err e
            | .panic s => .panic s
            | .ok (buf, r3) =>
              if (lenSize + size) % 4 = 0 then .ok (buf, r3)
              else match readN (4 - (lenSize + size) % 4) r3 with
                | .err e => .err e
                | .panic s => .panic s
                | .ok (pad, r4) => if pad.all (· == 0) then .ok (buf, r4) else .err "voidBytes") = .ok (m, r) →
        r.length ≤ r1.length := by
      intro size lenSize r2 hr2 hh
      split at hh
      · cases hh
      · cases h4 : readN size r2 with
        | err e => simp [h4] at hh
        | panic s => simp [h4] at hh
        | ok p4 =>
          obtain ⟨buf, r3⟩ := p4
          have hl4 := readN_consumes h4
          simp only [h4] at hh
          split at hh
          · cases hh; omega
          · cases h5 : readN (4 - (lenSize + size) % 4) r3 with
            | err e => simp [h5] at hh
            | panic s => simp [h5] at hh
            | ok p5 =>
              obtain ⟨pad, r4⟩ := p5
              have hl5 := readN_consumes h5
              simp only [h5] at hh
              split at hh
              · cases hh; omega
              · cases hh
    by_cases hfe : hd = [0xfe]
    · simp only [hfe, if_true] at h
      cases h3 : readN 3 r1 with
      | err e => simp [h3] at h
      | panic s => simp [h3] at h
      | ok p3 =>
        obtain ⟨l, r2⟩ := p3
        simp only [h3] at h
        have hl3 := readN_consumes h3
        have := tail (fromLE l) 4 r2 (by omega) h
        omega
    · simp only [hfe, if_false] at h
      have := tail (fromLE hd) 1 r1 (Nat.le_refl _) h
      omega

theorem decMembers_consumes : ∀ (n : Nat) (bs : Bytes) (ms : List Val) (r : Bytes),
    decMembers n bs = .ok (ms, r) → r.length ≤ bs.length
  | 0, bs, ms, r, h => by simp [decMembers] at h; obtain ⟨_, rfl⟩ := h; exact Nat.le_refl _
  | n + 1, bs, ms, r, h => by
    simp only [decMembers] at h
    cases h1 : popLong bs with
    | err e => simp [h1] at h
    | panic s => simp [h1] at h
    | ok p1 =>
      obtain ⟨mid, r1⟩ := p1
      simp only [h1] at h
      cases h2 : popUint r1 with
      | err e => simp [h2] at h
      | panic s => simp [h2] at h
      | ok p2 =>
        obtain ⟨seq, r2⟩ := p2
        simp only [h2] at h
        cases h3 : popUint r2 with
        | err e => simp [h3] at h
        | panic s => simp [h3] at h
        | ok p3 =>
          obtain ⟨size, r3⟩ := p3
          simp only [h3] at h
          cases h4 : popRaw (toSigned 32 size) r3 with
          | err e => simp [h4] at h
          | panic s => simp [h4] at h
          | ok p4 =>
            obtain ⟨body, r4⟩ := p4
            simp only [h4] at h
            cases h5 : decMembers n r4 with
            | err e => simp [h5] at h
            | panic s => simp [h5] at h
            | ok p5 =>
              obtain ⟨ms', r5⟩ := p5
              simp only [h5, Outcome.ok.injEq, Prod.mk.injEq] at h
              obtain ⟨_, rfl⟩ := h
              have := decMembers_consumes n _ _ _ h5
              have := popLong_consumes h1
              have := popUint_consumes h2
              have := popUint_consumes h3
              have := popRaw_consumes h4
              omega

/-! ## what the decoder functions consume -/

/-- a successful result leaves fewer bytes than it was given -/
def Lt {α : Type} (bs : Bytes) (r : DRes α) : Prop :=
  match r with
  | .ok (_, r', _) => r'.length < bs.length
  | _ => True

/-- a successful result leaves no more bytes than it was given -/
def Le {α : Type} (bs : Bytes) (r : DRes α) : Prop :=
  match r with
  | .ok (_, r', _) => r'.length ≤ bs.length
  | _ => True

theorem Lt_of_ok {α : Type} {bs : Bytes} {x : DRes α} {a : α} {r : Bytes} {hs : List Ty}
    (h : Lt bs x) (hx : x = .ok (a, r, hs)) : r.length < bs.length := by
  subst hx; exact h

theorem Le_of_ok {α : Type} {bs : Bytes} {x : DRes α} {a : α} {r : Bytes} {hs : List Ty}
    (h : Le bs x) (hx : x = .ok (a, r, hs)) : r.length ≤ bs.length := by
  subst hx; exact h

/-- All six decoder functions at once, by induction on the fuel: a value (`decVal`), a vector body and a
registered object take at least one byte; item lists, structs and field lists never give bytes back. -/
theorem decoder_consumes (R : Registry) (gz : Bytes → Option Bytes) : ∀ (fuel : Nat),
    (∀ dp ty bs hs, Lt bs (decVal R gz dp fuel ty bs hs)) ∧
    (∀ dp e bs hs, Lt bs (decVecBody R gz dp fuel e bs hs)) ∧
    (∀ dp e n bs hs, Le bs (decItems R gz dp fuel e n bs hs)) ∧
    (∀ dp d bs hs, Le bs (decStruct R gz dp fuel d bs hs)) ∧
    (∀ dp k w fs bs hs, Le bs (decFields R gz dp fuel k w fs bs hs)) ∧
    (∀ dp bs hs, Lt bs (decRegistered R gz dp fuel bs hs))
  | 0 => by
    refine ⟨?_, ?_, ?_, ?_, ?_, ?_⟩
    · intro dp ty bs hs; simp [decVal, Lt]
    · intro dp e bs hs; simp [decVecBody, Lt]
    · intro dp e n bs hs; cases n <;> simp [decItems, Le]
    · intro dp d bs hs; simp [decStruct, Le]
    · intro dp k w fs bs hs; cases fs <;> simp [decFields, Le]
    · intro dp bs hs; simp [decRegistered, Lt]
  | fuel + 1 => by
    obtain ⟨ihVal, ihVec, ihItems, ihStruct, ihFields, ihReg⟩ := decoder_consumes R gz fuel
    refine ⟨?_, ?_, ?_, ?_, ?_, ?_⟩
    · -- decVal
      intro dp ty bs hs
      cases ty with
      | int32 =>
        simp only [decVal]
        cases h : popUint bs with
        | err _ => simp [Lt]
        | panic _ => simp [Lt]
        | ok p =>
          obtain ⟨n, r⟩ := p
          have := popUint_consumes h
          show r.length < bs.length
          omega
      | uint32 =>
        simp only [decVal]
        cases h : popUint bs with
        | err _ => simp [Lt]
        | panic _ => simp [Lt]
        | ok p =>
          obtain ⟨n, r⟩ := p
          have := popUint_consumes h
          show r.length < bs.length
          omega
      | enum nm =>
        simp only [decVal]
        cases h : popUint bs with
        | err _ => simp [Lt]
        | panic _ => simp [Lt]
        | ok p =>
          obtain ⟨n, r⟩ := p
          have := popUint_consumes h
          show r.length < bs.length
          omega
      | int64 =>
        simp only [decVal]
        cases h : popLong bs with
        | err _ => simp [Lt]
        | panic _ => simp [Lt]
        | ok p =>
          obtain ⟨n, r⟩ := p
          have := popLong_consumes h
          show r.length < bs.length
          omega
      | f64 =>
        simp only [decVal]
        cases h : popLong bs with
        | err _ => simp [Lt]
        | panic _ => simp [Lt]
        | ok p =>
          obtain ⟨n, r⟩ := p
          have := popLong_consumes h
          show r.length < bs.length
          omega
      | bool =>
        simp only [decVal]
        cases h : popBool bs with
        | err _ => simp [Lt]
        | panic _ => simp [Lt]
        | ok p =>
          obtain ⟨n, r⟩ := p
          have := popBool_consumes h
          show r.length < bs.length
          omega
      | str =>
        simp only [decVal]
        cases h : popMessage bs with
        | err _ => simp [Lt]
        | panic _ => simp [Lt]
        | ok p =>
          obtain ⟨n, r⟩ := p
          have := popMessage_consumes h
          show r.length < bs.length
          omega
      | bytes =>
        simp only [decVal]
        cases h : popMessage bs with
        | err _ => simp [Lt]
        | panic _ => simp [Lt]
        | ok p =>
          obtain ⟨n, r⟩ := p
          have := popMessage_consumes h
          show r.length < bs.length
          omega
      | i128 =>
        simp only [decVal]
        cases h : popRaw 16 bs with
        | err _ => simp [Lt]
        | panic _ => simp [Lt]
        | ok p =>
          obtain ⟨n, r⟩ := p
          have := popRaw_consumes h
          show r.length < bs.length
          omega
      | i256 =>
        simp only [decVal]
        cases h : popRaw 32 bs with
        | err _ => simp [Lt]
        | panic _ => simp [Lt]
        | ok p =>
          obtain ⟨n, r⟩ := p
          have := popRaw_consumes h
          show r.length < bs.length
          omega
      | bad w => simp [decVal, Lt]
      | vec e =>
        simp only [decVal]
        cases h : popUint bs with
        | err _ => simp [Lt]
        | panic _ => simp [Lt]
        | ok p =>
          obtain ⟨crc, r⟩ := p
          have hc := popUint_consumes h
          simp only
          split
          · simp [Lt]
          · have := ihVec dp e r hs
            cases h2 : decVecBody R gz dp fuel e r hs with
            | err _ => simp [Lt]
            | panic _ => simp [Lt]
            | ok q =>
              obtain ⟨v, r', hs'⟩ := q
              have := Lt_of_ok this h2
              show r'.length < bs.length
              omega
      | ptr id =>
        simp only [decVal]
        cases R.find id with
        | none => simp [Lt]
        | some d =>
          simp only
          cases d.kind with
          | struct =>
            simp only
            cases h : popUint bs with
            | err _ => simp [Lt]
            | panic _ => simp [Lt]
            | ok p =>
              obtain ⟨crc, r⟩ := p
              have hc := popUint_consumes h
              simp only
              split
              · simp [Lt]
              · have := ihStruct dp d r hs
                cases h2 : decStruct R gz dp fuel d r hs with
                | err _ => simp [Lt]
                | panic _ => simp [Lt]
                | ok q =>
                  obtain ⟨v, r', hs'⟩ := q
                  have := Le_of_ok this h2
                  show r'.length < bs.length
                  omega
          | enum => simp [Lt]
          | container => simp [Lt]
          | gzip => simp [Lt]
      | iface nm =>
        simp only [decVal]
        have := ihReg dp bs hs
        cases h : decRegistered R gz dp fuel bs hs with
        | err _ => simp [Lt]
        | panic _ => simp [Lt]
        | ok p =>
          obtain ⟨v, r, hs'⟩ := p
          have := Lt_of_ok this h
          simp only
          split
          · exact this
          · simp [Lt]
    · -- decVecBody
      intro dp e bs hs
      simp only [decVecBody]
      cases h : popUint bs with
      | err _ => simp [Lt]
      | panic _ => simp [Lt]
      | ok p =>
        obtain ⟨n, r⟩ := p
        have hc := popUint_consumes h
        simp only
        split
        · simp [Lt]
        · have := ihItems dp e n r hs
          cases h2 : decItems R gz dp fuel e n r hs with
          | err _ => simp [Lt]
          | panic _ => simp [Lt]
          | ok q =>
            obtain ⟨items, r', hs'⟩ := q
            have := Le_of_ok this h2
            show r'.length < bs.length
            omega
    · -- decItems
      intro dp e n bs hs
      cases n with
      | zero => simp [decItems, Le]
      | succ n =>
        simp only [decItems]
        have h1 := ihVal dp e bs hs
        cases hv : decVal R gz dp fuel e bs hs with
        | err _ => simp [Le]
        | panic _ => simp [Le]
        | ok p =>
          obtain ⟨v, r, hs'⟩ := p
          have h1 := Lt_of_ok h1 hv
          simp only
          have h2 := ihItems dp e n r hs'
          cases hi : decItems R gz dp fuel e n r hs' with
          | err _ => simp [Le]
          | panic _ => simp [Le]
          | ok q =>
            obtain ⟨vs, r', hs''⟩ := q
            have h2 := Le_of_ok h2 hi
            show r'.length ≤ bs.length
            omega
    · -- decStruct
      intro dp d bs hs
      simp only [decStruct]
      split
      · simp [Le]
      · have := ihFields dp d.flagIndex 0 d.fields bs hs
        cases h : decFields R gz dp fuel d.flagIndex 0 d.fields bs hs with
        | err _ => simp [Le]
        | panic _ => simp [Le]
        | ok q =>
          obtain ⟨fs, r, hs'⟩ := q
          exact Le_of_ok this h
    · -- decFields
      intro dp k w fs bs hs
      cases fs with
      | nil => simp [decFields, Le]
      | cons f fs =>
        simp only [decFields]
        generalize hx : (if k = some 0 then popUint bs else Outcome.ok (w, bs)) = x
        cases x with
        | err _ => simp [Le]
        | panic _ => simp [Le]
        | ok p =>
          obtain ⟨w', r0⟩ := p
          have hr0 : r0.length ≤ bs.length := by
            split at hx
            · have := popUint_consumes hx; omega
            · cases hx; exact Nat.le_refl _
          simp only
          have tailOK : ∀ (bs' : Bytes) (hs' : List Ty) (pre : Val), bs'.length ≤ bs.length →
              Le bs (match decFields R gz dp fuel (nextK k) w' fs bs' hs' with
                | .ok (vs, r, hs'') => (Outcome.ok (pre :: vs, r, hs'') : DRes (List Val))
                | .err er => .err er
                | .panic s => .panic s) := by
            intro bs' hs' pre hle
            have := ihFields dp (nextK k) w' fs bs' hs'
            cases h2 : decFields R gz dp fuel (nextK k) w' fs bs' hs' with
            | err _ => simp [Le]
            | panic _ => simp [Le]
            | ok q =>
              obtain ⟨vs, r', hs''⟩ := q
              have := Le_of_ok this h2
              show r'.length ≤ bs.length
              omega
          have valCase : Le bs (match decVal R gz dp fuel f.ty r0 hs with
              | .err er => (Outcome.err er : DRes (List Val))
              | .panic s => .panic s
              | .ok (v, r, hs') =>
                match decFields R gz dp fuel (nextK k) w' fs r hs' with
                | .ok (vs, r', hs'') => .ok (v :: vs, r', hs'')
                | .err er => .err er
                | .panic s => .panic s) := by
            have h1 := ihVal dp f.ty r0 hs
            cases hv : decVal R gz dp fuel f.ty r0 hs with
            | err _ => simp [Le]
            | panic _ => simp [Le]
            | ok p =>
              obtain ⟨v, r, hs'⟩ := p
              have h1 := Lt_of_ok h1 hv
              exact tailOK r hs' v (by omega)
          cases hfl : f.flag with
          | none =>
            simp only [Bool.false_eq_true, if_false]
            exact valCase
          | some fl =>
            simp only
            by_cases h1 : decide (w' / 2 ^ fl.bit % 2 = 0) = true
            · simp only [h1, if_true]
              exact tailOK r0 hs _ hr0
            · simp only [h1]
              by_cases h2 : fl.inBits = true
              · simp only [h2, if_true]
                exact tailOK r0 hs _ hr0
              · simp only [h2]
                exact valCase
    · -- decRegistered
      intro dp bs hs
      simp only [decRegistered]
      cases h : popUint bs with
      | err _ => simp [Lt]
      | panic _ => simp [Lt]
      | ok p =>
        obtain ⟨crc, r⟩ := p
        have hc := popUint_consumes h
        simp only
        split
        · cases hs with
          | nil => simp [Lt]
          | cons h0 hs' =>
            cases h0 with
            | vec e =>
              have := ihVec dp e r hs'
              show Lt bs (decVecBody R gz dp fuel e r hs')
              cases h2 : decVecBody R gz dp fuel e r hs' with
              | err _ => simp [Lt]
              | panic _ => simp [Lt]
              | ok q =>
                obtain ⟨v, r', hs''⟩ := q
                have := Lt_of_ok this h2
                show r'.length < bs.length
                omega
            | _ => simp [Lt]
        · split
          · show r.length < bs.length
            omega
          · cases R.find crc with
            | none => simp [Lt]
            | some d =>
              simp only
              cases d.kind with
              | enum => show r.length < bs.length; omega
              | struct =>
                have := ihStruct dp d r hs
                cases h2 : decStruct R gz dp fuel d r hs with
                | err _ => simp [Lt]
                | panic _ => simp [Lt]
                | ok q =>
                  obtain ⟨v, r', hs'⟩ := q
                  have := Le_of_ok this h2
                  show r'.length < bs.length
                  omega
              | container =>
                simp only
                cases h2 : popUint r with
                | err _ => simp [Lt]
                | panic _ => simp [Lt]
                | ok q =>
                  obtain ⟨cnt, r1⟩ := q
                  have hc2 := popUint_consumes h2
                  simp only
                  cases h3 : decMembers (toSigned 32 cnt).toNat r1 with
                  | err _ => simp [Lt]
                  | panic _ => simp [Lt]
                  | ok q2 =>
                    obtain ⟨ms, r2⟩ := q2
                    have := decMembers_consumes _ _ _ _ h3
                    show r2.length < bs.length
                    omega
              | gzip =>
                simp only
                cases h2 : popMessage r with
                | err _ => simp [Lt]
                | panic _ => simp [Lt]
                | ok q =>
                  obtain ⟨packed, r1⟩ := q
                  have hc2 := popMessage_consumes h2
                  simp only
                  cases gz packed with
                  | none => simp [Lt]
                  | some plain =>
                    simp only
                    split
                    · simp [Lt]
                    · cases h3 : decRegistered R gz (dp + 1) fuel plain hs with
                      | err _ => simp [Lt]
                      | panic _ => simp [Lt]
                      | ok q2 =>
                        obtain ⟨inner, _, _⟩ := q2
                        show r1.length < bs.length
                        omega

/-! ## more fuel never changes a result that is not the fuel error -/

/-- `x` is the result with some fuel, `x'` the result with at least as much: they are equal unless the first
is the fuel error -/
def Mono {α : Type} (x x' : Outcome α) : Prop := x' = x ∨ x = .err "fuel"

theorem Mono.eq {α : Type} {x x' : Outcome α} (h : Mono x x') (hx : x ≠ .err "fuel") : x' = x := by
  rcases h with h | h
  · exact h
  · exact absurd h hx

/-- All six decoder functions at once, by induction on the smaller fuel. -/
theorem fuel_mono_all (R : Registry) (gz : Bytes → Option Bytes) : ∀ (f f' : Nat), f ≤ f' →
    (∀ dp ty bs hs, Mono (decVal R gz dp f ty bs hs) (decVal R gz dp f' ty bs hs)) ∧
    (∀ dp e bs hs, Mono (decVecBody R gz dp f e bs hs) (decVecBody R gz dp f' e bs hs)) ∧
    (∀ dp e n bs hs, Mono (decItems R gz dp f e n bs hs) (decItems R gz dp f' e n bs hs)) ∧
    (∀ dp d bs hs, Mono (decStruct R gz dp f d bs hs) (decStruct R gz dp f' d bs hs)) ∧
    (∀ dp k w fs bs hs, Mono (decFields R gz dp f k w fs bs hs) (decFields R gz dp f' k w fs bs hs)) ∧
    (∀ dp bs hs, Mono (decRegistered R gz dp f bs hs) (decRegistered R gz dp f' bs hs))
  | 0, f', _ => by
    refine ⟨?_, ?_, ?_, ?_, ?_, ?_⟩
    · intro dp ty bs hs; right; simp [decVal]
    · intro dp e bs hs; right; simp [decVecBody]
    · intro dp e n bs hs
      cases n with
      | zero => left; cases f' <;> simp [decItems]
      | succ n => right; simp [decItems]
    · intro dp d bs hs; right; simp [decStruct]
    · intro dp k w fs bs hs
      cases fs with
      | nil => left; cases f' <;> simp [decFields]
      | cons a fs => right; simp [decFields]
    · intro dp bs hs; right; simp [decRegistered]
  | f + 1, 0, hle => by omega
  | f + 1, f' + 1, hle => by
    obtain ⟨ihVal, ihVec, ihItems, ihStruct, ihFields, ihReg⟩ := fuel_mono_all R gz f f' (by omega)
    refine ⟨?_, ?_, ?_, ?_, ?_, ?_⟩
    · -- decVal
      intro dp ty bs hs
      cases ty with
      | int32 => left; simp only [decVal]
      | uint32 => left; simp only [decVal]
      | enum nm => left; simp only [decVal]
      | int64 => left; simp only [decVal]
      | f64 => left; simp only [decVal]
      | bool => left; simp only [decVal]
      | str => left; simp only [decVal]
      | bytes => left; simp only [decVal]
      | i128 => left; simp only [decVal]
      | i256 => left; simp only [decVal]
      | bad w => left; simp only [decVal]
      | vec e =>
        simp only [decVal]
        cases h : popUint bs with
        | err _ => left; rfl
        | panic _ => left; rfl
        | ok p =>
          obtain ⟨crc, r⟩ := p
          simp only
          split
          · left; rfl
          · exact ihVec dp e r hs
      | ptr id =>
        simp only [decVal]
        cases R.find id with
        | none => left; rfl
        | some d =>
          simp only
          cases d.kind with
          | struct =>
            simp only
            cases h : popUint bs with
            | err _ => left; rfl
            | panic _ => left; rfl
            | ok p =>
              obtain ⟨crc, r⟩ := p
              simp only
              split
              · left; rfl
              · exact ihStruct dp d r hs
          | enum => left; rfl
          | container => left; rfl
          | gzip => left; rfl
      | iface nm =>
        simp only [decVal]
        rcases ihReg dp bs hs with hm | hm
        · left; rw [hm]
        · right; rw [hm]
    · -- decVecBody
      intro dp e bs hs
      simp only [decVecBody]
      cases h : popUint bs with
      | err _ => left; rfl
      | panic _ => left; rfl
      | ok p =>
        obtain ⟨n, r⟩ := p
        simp only
        split
        · left; rfl
        · rcases ihItems dp e n r hs with hm | hm
          · left; rw [hm]
          · right; rw [hm]
    · -- decItems
      intro dp e n bs hs
      cases n with
      | zero => left; simp [decItems]
      | succ n =>
        simp only [decItems]
        rcases ihVal dp e bs hs with hm | hm
        · rw [hm]
          cases hv : decVal R gz dp f e bs hs with
          | err _ => left; rfl
          | panic _ => left; rfl
          | ok p =>
            obtain ⟨v, r, hs'⟩ := p
            simp only
            rcases ihItems dp e n r hs' with hm2 | hm2
            · left; rw [hm2]
            · right; rw [hm2]
        · right; rw [hm]
    · -- decStruct
      intro dp d bs hs
      simp only [decStruct]
      split
      · left; rfl
      · rcases ihFields dp d.flagIndex 0 d.fields bs hs with hm | hm
        · left; rw [hm]
        · right; rw [hm]
    · -- decFields
      intro dp k w fs bs hs
      cases fs with
      | nil => left; simp [decFields]
      | cons fd fs =>
        simp only [decFields]
        generalize (if k = some 0 then popUint bs else Outcome.ok (w, bs)) = x
        cases x with
        | err _ => left; rfl
        | panic _ => left; rfl
        | ok p =>
          obtain ⟨w', r0⟩ := p
          simp only
          have tailOK : ∀ (bs' : Bytes) (hs' : List Ty) (pre : Val),
              Mono (match decFields R gz dp f (nextK k) w' fs bs' hs' with
                | .ok (vs, r, hs'') => (Outcome.ok (pre :: vs, r, hs'') : DRes (List Val))
                | .err er => .err er
                | .panic s => .panic s)
                (match decFields R gz dp f' (nextK k) w' fs bs' hs' with
                | .ok (vs, r, hs'') => (Outcome.ok (pre :: vs, r, hs'') : DRes (List Val))
                | .err er => .err er
                | .panic s => .panic s) := by
            intro bs' hs' pre
            rcases ihFields dp (nextK k) w' fs bs' hs' with hm | hm
            · left; rw [hm]
            · right; rw [hm]
          have valCase : Mono (match decVal R gz dp f fd.ty r0 hs with
              | .err er => (Outcome.err er : DRes (List Val))
              | .panic s => .panic s
              | .ok (v, r, hs') =>
                match decFields R gz dp f (nextK k) w' fs r hs' with
                | .ok (vs, r', hs'') => .ok (v :: vs, r', hs'')
                | .err er => .err er
                | .panic s => .panic s)
              (match decVal R gz dp f' fd.ty r0 hs with
              | .err er => (Outcome.err er : DRes (List Val))
              | .panic s => .panic s
              | .ok (v, r, hs') =>
                match decFields R gz dp f' (nextK k) w' fs r hs' with
                | .ok (vs, r', hs'') => .ok (v :: vs, r', hs'')
                | .err er => .err er
                | .panic s => .panic s) := by
            rcases ihVal dp fd.ty r0 hs with hm | hm
            · rw [hm]
              cases hv : decVal R gz dp f fd.ty r0 hs with
              | err _ => left; rfl
              | panic _ => left; rfl
              | ok p =>
                obtain ⟨v, r, hs'⟩ := p
                exact tailOK r hs' v
            · right; rw [hm]
          cases hfl : fd.flag with
          | none =>
            simp only [Bool.false_eq_true, if_false]
            exact valCase
          | some fl =>
            simp only
            by_cases h1 : decide (w' / 2 ^ fl.bit % 2 = 0) = true
            · simp only [h1, if_true]
              exact tailOK r0 hs _
            · simp only [h1]
              by_cases h2 : fl.inBits = true
              · simp only [h2, if_true]
                exact tailOK r0 hs _
              · simp only [h2]
                exact valCase
    · -- decRegistered
      intro dp bs hs
      simp only [decRegistered]
      cases h : popUint bs with
      | err _ => left; rfl
      | panic _ => left; rfl
      | ok p =>
        obtain ⟨crc, r⟩ := p
        simp only
        split
        · cases hs with
          | nil => left; rfl
          | cons h0 hs' =>
            cases h0 with
            | vec e => exact ihVec dp e r hs'
            | _ => left; rfl
        · split
          · left; rfl
          · cases R.find crc with
            | none => left; rfl
            | some d =>
              simp only
              cases d.kind with
              | enum => left; rfl
              | struct => exact ihStruct dp d r hs
              | container => left; rfl
              | gzip =>
                simp only
                cases h2 : popMessage r with
                | err _ => left; rfl
                | panic _ => left; rfl
                | ok q =>
                  obtain ⟨packed, r1⟩ := q
                  simp only
                  cases gz packed with
                  | none => left; rfl
                  | some plain =>
                    simp only
                    split
                    · left; rfl
                    · rcases ihReg (dp + 1) plain hs with hm | hm
                      · left; rw [hm]
                      · right; rw [hm]

/-! ## an explicit amount of fuel that is never exhausted -/

/-- not the fuel error -/
def NF {α : Type} (x : Outcome α) : Prop := x ≠ .err "fuel"

theorem NF_of_src {α β : Type} {x : Outcome α} {e : String} (hx : x ≠ .err "fuel") (h : x = .err e) :
    NF (Outcome.err e : Outcome β) := by
  intro hh
  cases hh
  exact hx h

theorem readN_nf (n : Nat) (bs : Bytes) : readN n bs ≠ .err "fuel" := by
  unfold readN
  split
  · simp
  · split <;> simp

theorem popUint_nf (bs : Bytes) : popUint bs ≠ .err "fuel" := by
  unfold popUint
  cases h : readN 4 bs with
  | ok p => simp
  | err e => exact NF_of_src (readN_nf 4 bs) h
  | panic s => simp

theorem popLong_nf (bs : Bytes) : popLong bs ≠ .err "fuel" := by
  unfold popLong
  cases h : readN 8 bs with
  | ok p => simp
  | err e => exact NF_of_src (readN_nf 8 bs) h
  | panic s => simp

theorem popBool_nf (bs : Bytes) : popBool bs ≠ .err "fuel" := by
  unfold popBool
  cases h : popUint bs with
  | ok p =>
    obtain ⟨c, r⟩ := p
    simp only
    split
    · simp
    · split <;> simp
  | err e => exact NF_of_src (popUint_nf bs) h
  | panic s => simp

theorem popRaw_nf (size : Int) (bs : Bytes) : popRaw size bs ≠ .err "fuel" := by
  unfold popRaw
  split
  · simp
  · split
    · simp
    · split
      · simp
      · exact readN_nf _ _

theorem popMessage_nf (bs : Bytes) : popMessage bs ≠ .err "fuel" := by
  unfold popMessage
  cases h1 : readN 1 bs with
  | err e => exact NF_of_src (readN_nf 1 bs) h1
  | panic s' => simp
  | ok p =>
    obtain ⟨h, r⟩ := p
    simp only
    have tail : ∀ (size lenSize : Nat) (r2 : Bytes),
        (if r2.length < size then (Outcome.err "msgSize" : Outcome (Bytes × Bytes))
          else match readN size r2 with
            | .err e => .err e
            | .panic s => .panic s
            | .ok (buf, r3) =>
              if (lenSize + size) % 4 = 0 then .ok (buf, r3)
              else match readN (4 - (lenSize + size) % 4) r3 with
                | .err e => .err e
                | .panic s => .panic s
                | .ok (pad, r4) => if pad.all (· == 0) then .ok (buf, r4) else .err "voidBytes") ≠ .err "fuel" := by
      intro size lenSize r2
      split
      · simp
      · cases h4 : readN size r2 with
        | err e => exact NF_of_src (readN_nf _ _) h4
        | panic s' => simp
        | ok q2 =>
          obtain ⟨buf, r3⟩ := q2
          simp only
          split
          · simp
          · cases h5 : readN (4 - (lenSize + size) % 4) r3 with
            | err e => exact NF_of_src (readN_nf _ _) h5
            | panic s' => simp
            | ok q3 =>
              obtain ⟨pad, r4⟩ := q3
              simp only
              split <;> simp
    by_cases hfe : h = [0xfe]
    · simp only [hfe, if_true]
      cases h3 : readN 3 r with
      | err e => exact NF_of_src (readN_nf 3 r) h3
      | panic s' => simp
      | ok q =>
        obtain ⟨l, r2⟩ := q
        exact tail (fromLE l) 4 r2
    · simp only [hfe, if_false]
      exact tail (fromLE h) 1 r

theorem decMembers_nf : ∀ (n : Nat) (bs : Bytes), decMembers n bs ≠ .err "fuel"
  | 0, bs => by simp [decMembers]
  | n + 1, bs => by
    simp only [decMembers]
    cases h1 : popLong bs with
    | err e => exact NF_of_src (popLong_nf _) h1
    | panic s' => simp
    | ok p =>
      obtain ⟨mid, r1⟩ := p
      simp only
      cases h2 : popUint r1 with
      | err e => exact NF_of_src (popUint_nf _) h2
      | panic s' => simp
      | ok p2 =>
        obtain ⟨seq, r2⟩ := p2
        simp only
        cases h3 : popUint r2 with
        | err e => exact NF_of_src (popUint_nf _) h3
        | panic s' => simp
        | ok p3 =>
          obtain ⟨size, r3⟩ := p3
          simp only
          cases h4 : popRaw (toSigned 32 size) r3 with
          | err e => exact NF_of_src (popRaw_nf _ _) h4
          | panic s' => simp
          | ok p4 =>
            obtain ⟨body, r4⟩ := p4
            simp only
            cases h5 : decMembers n r4 with
            | err e => exact NF_of_src (decMembers_nf n r4) h5
            | panic s' => simp
            | ok p5 => obtain ⟨ms, r5⟩ := p5; simp

theorem NF_panic {α : Type} (s : String) : NF (Outcome.panic s : Outcome α) := by simp [NF]
theorem NF_ok {α : Type} (a : α) : NF (Outcome.ok a) := by simp [NF]
theorem NF_err {α : Type} {e : String} (h : e ≠ "fuel") : NF (Outcome.err e : Outcome α) := by simp [NF, h]

theorem mul_pred (A L c : Nat) (h : c ≤ L) : A * (L - c) + A * c = A * L := by
  rw [← Nat.mul_add]
  congr 1
  omega

/-- One level of packed nesting. `F` bounds the number of fields of a registered constructor, `A ≥ F + 4` is
the fuel paid per input byte. If the decoder one level deeper (what a packed object at this level unpacks
to) is content with fuel `N`, then at this level, for data of at most `L` bytes, fuel `A·L + N` plus a small
constant is never exhausted — for all six functions, by strong induction on `L`. Every call chain between
two reads of a constructor id or a count (which take 4 bytes) is at most `F + 3` calls long, and the chain
through the items of a vector is paid for by the bytes the items before took (`decoder_consumes`). -/
theorem level_enough (R : Registry) (gz : Bytes → Option Bytes) (F A dp N : Nat)
    (hF : ∀ d ∈ R, d.fields.length ≤ F) (hA : F + 4 ≤ A)
    (Hin : dp < maxNestedDecoders → ∀ packed plain hs fuel, gz packed = some plain → N ≤ fuel →
      NF (decRegistered R gz (dp + 1) fuel plain hs)) (L : Nat) :
    (∀ bs ty hs fuel, bs.length ≤ L → A * L + N + 2 ≤ fuel → NF (decVal R gz dp fuel ty bs hs)) ∧
    (∀ bs hs fuel, bs.length ≤ L → A * L + N + 1 ≤ fuel → NF (decRegistered R gz dp fuel bs hs)) ∧
    (∀ bs d hs fuel, d.fields.length ≤ F → bs.length ≤ L → A * L + N + F + 4 ≤ fuel →
      NF (decStruct R gz dp fuel d bs hs)) ∧
    (∀ fs bs k w hs fuel, bs.length ≤ L → A * L + N + 3 + fs.length ≤ fuel →
      NF (decFields R gz dp fuel k w fs bs hs)) ∧
    (∀ n bs e hs fuel, bs.length ≤ L → A * L + N + 3 ≤ fuel → NF (decItems R gz dp fuel e n bs hs)) ∧
    (∀ bs e hs fuel, bs.length ≤ L → A * L + N + 4 ≤ fuel → NF (decVecBody R gz dp fuel e bs hs)) := by
  induction L using Nat.strongRecOn with
  | _ L ih =>
    -- (1) a registered object
    have hReg : ∀ bs hs fuel, bs.length ≤ L → A * L + N + 1 ≤ fuel → NF (decRegistered R gz dp fuel bs hs) := by
      intro bs hs fuel hL hf
      obtain ⟨f, rfl⟩ : ∃ f, fuel = f + 1 := ⟨fuel - 1, by omega⟩
      simp only [decRegistered]
      cases h : popUint bs with
      | err _ => exact NF_of_src (popUint_nf bs) h
      | panic _ => exact NF_panic _
      | ok p =>
        obtain ⟨crc, r⟩ := p
        have hc := popUint_consumes h
        have hm := mul_pred A L 4 (by omega)
        obtain ⟨_, _, ihStruct', _, _, ihVec'⟩ := ih (L - 4) (by omega)
        simp only
        split
        · cases hs with
          | nil => exact NF_err (by decide)
          | cons h0 hs' =>
            cases h0 with
            | vec e => exact ihVec' r e hs' f (by omega) (by omega)
            | _ => exact NF_panic _
        · split
          · exact NF_ok _
          · cases hfind : R.find crc with
            | none => exact NF_err (by decide)
            | some d =>
              simp only
              have hd : d.fields.length ≤ F := hF d (List.mem_of_find?_eq_some hfind)
              cases d.kind with
              | enum => exact NF_ok _
              | struct => exact ihStruct' r d hs f hd (by omega) (by omega)
              | container =>
                simp only
                cases h2 : popUint r with
                | err _ => exact NF_of_src (popUint_nf r) h2
                | panic _ => exact NF_panic _
                | ok q =>
                  obtain ⟨cnt, r1⟩ := q
                  simp only
                  cases h3 : decMembers (toSigned 32 cnt).toNat r1 with
                  | err _ => exact NF_of_src (decMembers_nf _ _) h3
                  | panic _ => exact NF_panic _
                  | ok q2 => obtain ⟨ms, r2⟩ := q2; exact NF_ok _
              | gzip =>
                simp only
                cases h2 : popMessage r with
                | err _ => exact NF_of_src (popMessage_nf r) h2
                | panic _ => exact NF_panic _
                | ok q =>
                  obtain ⟨packed, r1⟩ := q
                  simp only
                  cases hg : gz packed with
                  | none => exact NF_err (by decide)
                  | some plain =>
                    simp only
                    split
                    · exact NF_err (by decide)
                    · rename_i hdp
                      have := Hin (by omega) packed plain hs f hg (by omega)
                      cases h3 : decRegistered R gz (dp + 1) f plain hs with
                      | err _ => exact NF_of_src this h3
                      | panic _ => exact NF_panic _
                      | ok q2 => obtain ⟨inner, _, _⟩ := q2; exact NF_ok _
    -- (2) a value
    have hVal : ∀ bs ty hs fuel, bs.length ≤ L → A * L + N + 2 ≤ fuel → NF (decVal R gz dp fuel ty bs hs) := by
      intro bs ty hs fuel hL hf
      obtain ⟨f, rfl⟩ : ∃ f, fuel = f + 1 := ⟨fuel - 1, by omega⟩
      cases ty with
      | int32 =>
        simp only [decVal]
        cases h : popUint bs with
        | ok p => exact NF_ok _
        | err _ => exact NF_of_src (popUint_nf bs) h
        | panic _ => exact NF_panic _
      | uint32 =>
        simp only [decVal]
        cases h : popUint bs with
        | ok p => exact NF_ok _
        | err _ => exact NF_of_src (popUint_nf bs) h
        | panic _ => exact NF_panic _
      | enum nm =>
        simp only [decVal]
        cases h : popUint bs with
        | ok p => exact NF_ok _
        | err _ => exact NF_of_src (popUint_nf bs) h
        | panic _ => exact NF_panic _
      | int64 =>
        simp only [decVal]
        cases h : popLong bs with
        | ok p => exact NF_ok _
        | err _ => exact NF_of_src (popLong_nf bs) h
        | panic _ => exact NF_panic _
      | f64 =>
        simp only [decVal]
        cases h : popLong bs with
        | ok p => exact NF_ok _
        | err _ => exact NF_of_src (popLong_nf bs) h
        | panic _ => exact NF_panic _
      | bool =>
        simp only [decVal]
        cases h : popBool bs with
        | ok p => exact NF_ok _
        | err _ => exact NF_of_src (popBool_nf bs) h
        | panic _ => exact NF_panic _
      | str =>
        simp only [decVal]
        cases h : popMessage bs with
        | ok p => exact NF_ok _
        | err _ => exact NF_of_src (popMessage_nf bs) h
        | panic _ => exact NF_panic _
      | bytes =>
        simp only [decVal]
        cases h : popMessage bs with
        | ok p => exact NF_ok _
        | err _ => exact NF_of_src (popMessage_nf bs) h
        | panic _ => exact NF_panic _
      | i128 =>
        simp only [decVal]
        cases h : popRaw 16 bs with
        | ok p => exact NF_ok _
        | err _ => exact NF_of_src (popRaw_nf 16 bs) h
        | panic _ => exact NF_panic _
      | i256 =>
        simp only [decVal]
        cases h : popRaw 32 bs with
        | ok p => exact NF_ok _
        | err _ => exact NF_of_src (popRaw_nf 32 bs) h
        | panic _ => exact NF_panic _
      | bad w => simp only [decVal]; exact NF_err (by decide)
      | vec e =>
        simp only [decVal]
        cases h : popUint bs with
        | err _ => exact NF_of_src (popUint_nf bs) h
        | panic _ => exact NF_panic _
        | ok p =>
          obtain ⟨crc, r⟩ := p
          have hc := popUint_consumes h
          have hm := mul_pred A L 4 (by omega)
          obtain ⟨_, _, _, _, _, ihVec'⟩ := ih (L - 4) (by omega)
          simp only
          split
          · exact NF_err (by decide)
          · exact ihVec' r e hs f (by omega) (by omega)
      | ptr id =>
        simp only [decVal]
        cases hfind : R.find id with
        | none => exact NF_err (by decide)
        | some d =>
          simp only
          have hd : d.fields.length ≤ F := hF d (List.mem_of_find?_eq_some hfind)
          cases d.kind with
          | struct =>
            simp only
            cases h : popUint bs with
            | err _ => exact NF_of_src (popUint_nf bs) h
            | panic _ => exact NF_panic _
            | ok p =>
              obtain ⟨crc, r⟩ := p
              have hc := popUint_consumes h
              have hm := mul_pred A L 4 (by omega)
              obtain ⟨_, _, ihStruct', _, _, _⟩ := ih (L - 4) (by omega)
              simp only
              split
              · exact NF_err (by decide)
              · exact ihStruct' r d hs f hd (by omega) (by omega)
          | enum => exact NF_err (by decide)
          | container => exact NF_err (by decide)
          | gzip => exact NF_err (by decide)
      | iface nm =>
        simp only [decVal]
        have := hReg bs hs f hL (by omega)
        cases h : decRegistered R gz dp f bs hs with
        | err _ => exact NF_of_src this h
        | panic _ => exact NF_panic _
        | ok p =>
          obtain ⟨v, r, hs'⟩ := p
          simp only
          split
          · exact NF_ok _
          · exact NF_err (by decide)
    -- (3) a field list, by induction on the list
    have hFields : ∀ fs bs k w hs fuel, bs.length ≤ L → A * L + N + 3 + fs.length ≤ fuel →
        NF (decFields R gz dp fuel k w fs bs hs) := by
      intro fs
      induction fs with
      | nil => intro bs k w hs fuel _ _; cases fuel <;> (simp only [decFields]; exact NF_ok _)
      | cons fd fs ihfs =>
        intro bs k w hs fuel hL hf
        simp only [List.length_cons] at hf
        obtain ⟨f, rfl⟩ : ∃ f, fuel = f + 1 := ⟨fuel - 1, by omega⟩
        simp only [decFields]
        generalize hx : (if k = some 0 then popUint bs else Outcome.ok (w, bs)) = x
        cases x with
        | err _ =>
          split at hx
          · exact NF_of_src (popUint_nf bs) hx
          · cases hx
        | panic _ => exact NF_panic _
        | ok p =>
          obtain ⟨w', r0⟩ := p
          have hr0 : r0.length ≤ bs.length := by
            split at hx
            · have := popUint_consumes hx; omega
            · cases hx; exact Nat.le_refl _
          simp only
          have tailOK : ∀ (bs' : Bytes) (hs' : List Ty) (pre : Val), bs'.length ≤ L →
              NF (match decFields R gz dp f (nextK k) w' fs bs' hs' with
                | .ok (vs, r, hs'') => (Outcome.ok (pre :: vs, r, hs'') : DRes (List Val))
                | .err er => .err er
                | .panic s => .panic s) := by
            intro bs' hs' pre hle
            have := ihfs bs' (nextK k) w' hs' f hle (by omega)
            cases h2 : decFields R gz dp f (nextK k) w' fs bs' hs' with
            | err _ => exact NF_of_src this h2
            | panic _ => exact NF_panic _
            | ok q => obtain ⟨vs, r', hs''⟩ := q; exact NF_ok _
          have valCase : NF (match decVal R gz dp f fd.ty r0 hs with
              | .err er => (Outcome.err er : DRes (List Val))
              | .panic s => .panic s
              | .ok (v, r, hs') =>
                match decFields R gz dp f (nextK k) w' fs r hs' with
                | .ok (vs, r', hs'') => .ok (v :: vs, r', hs'')
                | .err er => .err er
                | .panic s => .panic s) := by
            have h1 := hVal r0 fd.ty hs f (by omega) (by omega)
            cases hv : decVal R gz dp f fd.ty r0 hs with
            | err _ => exact NF_of_src h1 hv
            | panic _ => exact NF_panic _
            | ok p =>
              obtain ⟨v, r, hs'⟩ := p
              have := Lt_of_ok ((decoder_consumes R gz f).1 dp fd.ty r0 hs) hv
              exact tailOK r hs' v (by omega)
          cases hfl : fd.flag with
          | none =>
            simp only [Bool.false_eq_true, if_false]
            exact valCase
          | some fl =>
            simp only
            by_cases h1 : decide (w' / 2 ^ fl.bit % 2 = 0) = true
            · simp only [h1, if_true]
              exact tailOK r0 hs _ (by omega)
            · simp only [h1]
              by_cases h2 : fl.inBits = true
              · simp only [h2, if_true]
                exact tailOK r0 hs _ (by omega)
              · simp only [h2]
                exact valCase
    -- (4) a struct
    have hStruct : ∀ bs d hs fuel, d.fields.length ≤ F → bs.length ≤ L → A * L + N + F + 4 ≤ fuel →
        NF (decStruct R gz dp fuel d bs hs) := by
      intro bs d hs fuel hd hL hf
      obtain ⟨f, rfl⟩ : ∃ f, fuel = f + 1 := ⟨fuel - 1, by omega⟩
      simp only [decStruct]
      split
      · exact NF_err (by decide)
      · have := hFields d.fields bs d.flagIndex 0 hs f hL (by omega)
        cases h : decFields R gz dp f d.flagIndex 0 d.fields bs hs with
        | err _ => exact NF_of_src this h
        | panic _ => exact NF_panic _
        | ok q => obtain ⟨fs, r, hs'⟩ := q; exact NF_ok _
    -- (5) the items of a vector: every item before took at least one byte
    have hItems : ∀ n bs e hs fuel, bs.length ≤ L → A * L + N + 3 ≤ fuel →
        NF (decItems R gz dp fuel e n bs hs) := by
      intro n bs e hs fuel hL hf
      cases n with
      | zero => cases fuel <;> (simp only [decItems]; exact NF_ok _)
      | succ n =>
        obtain ⟨f, rfl⟩ : ∃ f, fuel = f + 1 := ⟨fuel - 1, by omega⟩
        simp only [decItems]
        have h1 := hVal bs e hs f hL (by omega)
        cases hv : decVal R gz dp f e bs hs with
        | err _ => exact NF_of_src h1 hv
        | panic _ => exact NF_panic _
        | ok p =>
          obtain ⟨v, r, hs'⟩ := p
          have hlt := Lt_of_ok ((decoder_consumes R gz f).1 dp e bs hs) hv
          have hm := mul_pred A L 1 (by omega)
          obtain ⟨_, _, _, _, ihItems', _⟩ := ih (L - 1) (by omega)
          have h2 := ihItems' n r e hs' f (by omega) (by omega)
          simp only
          cases hi : decItems R gz dp f e n r hs' with
          | err _ => exact NF_of_src h2 hi
          | panic _ => exact NF_panic _
          | ok q => obtain ⟨vs, r', hs''⟩ := q; exact NF_ok _
    -- (6) a vector body
    have hVec : ∀ bs e hs fuel, bs.length ≤ L → A * L + N + 4 ≤ fuel → NF (decVecBody R gz dp fuel e bs hs) := by
      intro bs e hs fuel hL hf
      obtain ⟨f, rfl⟩ : ∃ f, fuel = f + 1 := ⟨fuel - 1, by omega⟩
      simp only [decVecBody]
      cases h : popUint bs with
      | err _ => exact NF_of_src (popUint_nf bs) h
      | panic _ => exact NF_panic _
      | ok p =>
        obtain ⟨n, r⟩ := p
        have hc := popUint_consumes h
        simp only
        split
        · exact NF_err (by decide)
        · have := hItems n r e hs f (by omega) (by omega)
          cases h2 : decItems R gz dp f e n r hs with
          | err _ => exact NF_of_src this h2
          | panic _ => exact NF_panic _
          | ok q => obtain ⟨items, r', hs'⟩ := q; exact NF_ok _
    exact ⟨hVal, hReg, hStruct, hFields, hItems, hVec⟩

/-- All levels of packed nesting. Whatever a packed object unpacks to is at most `G` bytes long; a decoder
of depth `dp` has at most `k ≥ maxNestedDecoders - dp` packed levels below it, each of which costs
`A·G + 1` more fuel. By induction on `k`: the deepest decoder (depth `maxNestedDecoders`) refuses packed
objects, so nothing is asked of a deeper one. -/
theorem depth_enough (R : Registry) (gz : Bytes → Option Bytes) (F A G : Nat)
    (hF : ∀ d ∈ R, d.fields.length ≤ F) (hA : F + 4 ≤ A)
    (hG : ∀ x y, gz x = some y → y.length ≤ G) :
    ∀ (k dp : Nat), maxNestedDecoders ≤ dp + k → ∀ (L : Nat),
    (∀ bs ty hs fuel, bs.length ≤ L → A * L + k * (A * G + 1) + 2 ≤ fuel → NF (decVal R gz dp fuel ty bs hs)) ∧
    (∀ bs hs fuel, bs.length ≤ L → A * L + k * (A * G + 1) + 1 ≤ fuel → NF (decRegistered R gz dp fuel bs hs)) ∧
    (∀ bs d hs fuel, d.fields.length ≤ F → bs.length ≤ L → A * L + k * (A * G + 1) + F + 4 ≤ fuel →
      NF (decStruct R gz dp fuel d bs hs)) ∧
    (∀ fs bs k' w hs fuel, bs.length ≤ L → A * L + k * (A * G + 1) + 3 + fs.length ≤ fuel →
      NF (decFields R gz dp fuel k' w fs bs hs)) ∧
    (∀ n bs e hs fuel, bs.length ≤ L → A * L + k * (A * G + 1) + 3 ≤ fuel → NF (decItems R gz dp fuel e n bs hs)) ∧
    (∀ bs e hs fuel, bs.length ≤ L → A * L + k * (A * G + 1) + 4 ≤ fuel → NF (decVecBody R gz dp fuel e bs hs))
  | 0, dp, hk, L => by
    have := level_enough R gz F A dp 0 hF hA (fun h => by omega) L
    simpa using this
  | k + 1, dp, hk, L => by
    have ih := depth_enough R gz F A G hF hA hG k (dp + 1) (by omega) G
    have hN : (k + 1) * (A * G + 1) = A * G + k * (A * G + 1) + 1 := by
      rw [Nat.succ_mul]; omega
    rw [hN]
    have := level_enough R gz F A dp (A * G + k * (A * G + 1) + 1) hF hA
      (fun _ packed plain hs fuel hg hf => ih.2.1 plain hs fuel (hG packed plain hg) hf) L
    simpa [Nat.add_assoc] using this

/-! ## small inputs for the examples next to the theorems -/

/-- `pong msg_id:5 ping_id:6` -/
def exPong : Bytes := leBytes 0x347773c5 4 ++ leBytes 5 8 ++ leBytes 6 8

/-- `gzip_packed` around a payload shorter than 254 bytes (id, one length byte, payload, padding) -/
def exPack (payload : Bytes) : Bytes :=
  leBytes 0x3072cfa1 4 ++ [UInt8.ofNat payload.length] ++ payload ++
    List.replicate ((4 - (1 + payload.length) % 4) % 4) 0

def exPackN : Nat → Bytes → Bytes
  | 0, b => b
  | n + 1, b => exPack (exPackN n b)

/-- a `gunzip` that knows one payload: `[0x1f]` unpacks to `exPong` -/
def exGunzip (x : Bytes) : Option Bytes := if x = [0x1f] then some exPong else none

theorem exGunzip_bound : ∀ x y, exGunzip x = some y → y.length ≤ 20 := by
  intro x y h
  unfold exGunzip at h
  split at h
  · cases h; decide
  · cases h

/-- the error kind of an outcome (decidable without comparing values) -/
def errKind {α : Type} : Outcome α → Option String
  | .err e => some e
  | _ => none

theorem eq_err_of_errKind {α : Type} {x : Outcome α} {e : String} (h : errKind x = some e) : x = .err e := by
  cases x with
  | err e' => simp only [errKind, Option.some.injEq] at h; rw [h]
  | ok a => simp [errKind] at h
  | panic s => simp [errKind] at h

theorem ne_err_of_errKind {α : Type} {x : Outcome α} {e : String} (h : errKind x ≠ some e) : x ≠ .err e := by
  intro hx; subst hx; exact h rfl

end Mtv.TL
