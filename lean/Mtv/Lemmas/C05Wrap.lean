/-
  Helper lemmas for C05, part 2: the register model on byte strings equals the specification,
  round trips on byte strings, `big.Int` byte conversions, `copy`, the cut-point search.
-/
import Mtv.Lemmas.C05Ige
import Mtv.Ige.Orig
namespace Mtv.Ige
open Mtv

/-! ### register model = specification, on blocks -/

theorem runEnc_spec (E : Bytes → Bytes) (iv : Bytes) (inp out : List Bytes) (h : out.length = inp.length) :
    (runEnc E iv inp out).mem.inp = inp ∧
    (runEnc E iv inp out).mem.out = igeEnc E (ivC iv) (ivP iv) inp := by
  have := encLoop_spec E inp (newCipher iv inp out) .v1 [] [] out rfl rfl
    (by simp [newCipher]) (by simp [newCipher]) (by simp [newCipher]) rfl rfl rfl h
  simpa [runEnc, newCipher, Mem.read, ivC, ivP] using this

theorem runDec_spec (D : Bytes → Bytes) (iv : Bytes) (inp out : List Bytes) (h : out.length = inp.length) :
    (runDec D iv inp out).mem.inp = inp ∧
    (runDec D iv inp out).mem.out = igeDec D (ivC iv) (ivP iv) inp := by
  have := encLoop_spec D inp (newCipher iv inp out).swap .v2 [] [] out rfl rfl
    (by simp [newCipher, Cipher.swap]) (by simp [newCipher, Cipher.swap])
    (by simp [newCipher, Cipher.swap]) rfl rfl rfl h
  rw [igeDec_eq_igeEnc]
  simpa [runDec, decLoop_eq, newCipher, Cipher.swap, Mem.read, ivC, ivP] using this

/-! ### … and on byte strings -/

theorem isCorrectData_none {data : Bytes} (h1 : 16 ≤ data.length) (h2 : data.length % 16 = 0) :
    isCorrectData data = none := by
  simp [isCorrectData, h2]; omega

theorem isCorrectData_some {data : Bytes} (h : data.length = 0 ∨ data.length % 16 ≠ 0) :
    ∃ e, isCorrectData data = some e := by
  unfold isCorrectData
  by_cases h1 : data.length < 16
  · exact ⟨.tooSmall, by simp [h1]⟩
  · have : data.length % 16 ≠ 0 := by omega
    exact ⟨.notDivisible, by simp [h1, this]⟩

theorem blocksOf_length_eq {a b : Bytes} (h : a.length = b.length) :
    (blocksOf a).length = (blocksOf b).length := by
  rw [blocksOf_length, blocksOf_length, h]

theorem doEncrypt_spec (E : Bytes → Bytes) (iv data out0 : Bytes)
    (h1 : 16 ≤ data.length) (h2 : data.length % 16 = 0) (ho : out0.length = data.length) :
    doEncrypt E iv data out0 = ⟨none, data, igeEncBytes E iv data⟩ := by
  have hs := runEnc_spec E iv (blocksOf data) (blocksOf out0) (blocksOf_length_eq ho)
  simp only [doEncrypt, isCorrectData_none h1 h2, hs.1, hs.2, blocksOf_flatten data h2, igeEncBytes]

theorem doDecrypt_spec (D : Bytes → Bytes) (iv data out0 : Bytes)
    (h1 : 16 ≤ data.length) (h2 : data.length % 16 = 0) (ho : out0.length = data.length) :
    doDecrypt D iv data out0 = ⟨none, data, igeDecBytes D iv data⟩ := by
  have hs := runDec_spec D iv (blocksOf data) (blocksOf out0) (blocksOf_length_eq ho)
  simp only [doDecrypt, isCorrectData_none h1 h2, hs.1, hs.2, blocksOf_flatten data h2, igeDecBytes]

theorem ivC_length {iv : Bytes} (h : iv.length = 32) : (ivC iv).length = 16 := by simp [ivC, h]
theorem ivP_length {iv : Bytes} (h : iv.length = 32) : (ivP iv).length = 16 := by simp [ivP, h]

theorem IsBlockCipher.symm {E D : Bytes → Bytes} (h : IsBlockCipher E D) : IsBlockCipher D E :=
  ⟨h.lenD, h.lenE, h.ED, h.DE⟩

theorem igeEnc_igeDec_blocks (E D : Bytes → Bytes) (h : IsBlockCipher E D)
    (cs : List Bytes) (c p : Bytes) (hc : c.length = 16) (hp : p.length = 16) (hcs : ∀ b ∈ cs, b.length = 16) :
    igeEnc E c p (igeDec D c p cs) = cs := by
  have := igeDec_igeEnc_blocks D E h.symm cs p c hp hc hcs
  rwa [igeDec_eq_igeEnc, ← igeDec_eq_igeEnc D] at this

theorem igeEncBytes_length (E D : Bytes → Bytes) (h : IsBlockCipher E D) (iv data : Bytes)
    (hiv : iv.length = 32) (h2 : data.length % 16 = 0) : (igeEncBytes E iv data).length = data.length := by
  unfold igeEncBytes
  rw [flatten_length_of_all16 _ (igeEnc_all16 E h.lenE _ _ _ (ivC_length hiv) (ivP_length hiv) (blocksOf_all16 data h2)),
    igeEnc_length, blocksOf_length]
  omega

theorem igeDecBytes_length (E D : Bytes → Bytes) (h : IsBlockCipher E D) (iv data : Bytes)
    (hiv : iv.length = 32) (h2 : data.length % 16 = 0) : (igeDecBytes D iv data).length = data.length := by
  have := igeEncBytes_length D E h.symm (ivP iv ++ ivC iv) data (by simp [ivC, ivP, hiv]) h2
  have e1 : ivC (ivP iv ++ ivC iv) = ivP iv := by simp [ivC, ivP, hiv]
  have e2 : ivP (ivP iv ++ ivC iv) = ivC iv := by simp [ivC, ivP, hiv]
  unfold igeEncBytes at this
  rw [e1, e2] at this
  unfold igeDecBytes
  rw [igeDec_eq_igeEnc]
  exact this

theorem igeDecBytes_igeEncBytes (E D : Bytes → Bytes) (h : IsBlockCipher E D) (iv data : Bytes)
    (hiv : iv.length = 32) (h2 : data.length % 16 = 0) :
    igeDecBytes D iv (igeEncBytes E iv data) = data := by
  have hall := igeEnc_all16 E h.lenE (blocksOf data) _ _ (ivC_length hiv) (ivP_length hiv) (blocksOf_all16 data h2)
  unfold igeDecBytes igeEncBytes
  rw [blocksOf_flatten_of_all16 _ hall,
    igeDec_igeEnc_blocks E D h _ _ _ (ivC_length hiv) (ivP_length hiv) (blocksOf_all16 data h2),
    blocksOf_flatten data h2]

theorem igeEncBytes_igeDecBytes (E D : Bytes → Bytes) (h : IsBlockCipher E D) (iv data : Bytes)
    (hiv : iv.length = 32) (h2 : data.length % 16 = 0) :
    igeEncBytes E iv (igeDecBytes D iv data) = data := by
  have hall : ∀ b ∈ igeDec D (ivC iv) (ivP iv) (blocksOf data), b.length = 16 := by
    rw [igeDec_eq_igeEnc]
    exact igeEnc_all16 D h.lenD (blocksOf data) _ _ (ivP_length hiv) (ivC_length hiv) (blocksOf_all16 data h2)
  unfold igeDecBytes igeEncBytes
  rw [blocksOf_flatten_of_all16 _ hall,
    igeEnc_igeDec_blocks E D h _ _ _ (ivC_length hiv) (ivP_length hiv) (blocksOf_all16 data h2),
    blocksOf_flatten data h2]

/-! ### `Encrypt`'s padding -/

theorem padAmount_eq (n : Nat) : (16 - n % 16) &&& 15 = (16 - n % 16) % 16 :=
  Nat.and_two_pow_sub_one_eq_mod _ 4

theorem padZero_length_mod (msg : Bytes) : (padZero msg).length % 16 = 0 := by
  simp only [padZero, padAmount_eq, List.length_append, zeros_length]
  omega

theorem padZero_length (msg : Bytes) : (padZero msg).length = (msg.length + 15) / 16 * 16 := by
  simp only [padZero, padAmount_eq, List.length_append, zeros_length]
  omega

theorem slice_length (b : Bytes) (lo hi : Nat) (h : hi ≤ b.length) : (slice b lo hi).length = hi - lo := by
  simp [slice]; omega

theorem generateAESIGE_ok (H : Bytes → Bytes) (hH : ∀ x, (H x).length = 20) (msgKey authKey : Bytes)
    (decode : Bool) (hk : 136 ≤ authKey.length) :
    ∃ k v, generateAESIGE H msgKey authKey decode = .ok (k, v) ∧ v.length = 32 := by
  unfold generateAESIGE
  have : ¬ authKey.length < 96 + (if decode then 8 else 0) + 32 := by cases decode <;> simp <;> omega
  simp only [this, if_false]
  refine ⟨_, _, rfl, ?_⟩
  simp [slice_length, hH]

/-! ### `big.Int.Bytes()` and the fixed-width conversion -/

theorem leBytes_zero : ∀ k : Nat, leBytes 0 k = zeros k
  | 0 => rfl
  | k + 1 => by
    have := leBytes_zero k
    simp only [zeros] at this
    simp [leBytes, this, zeros, List.replicate_succ]

theorem leMinF_zero (f : Nat) : leMinF f 0 = [] := by cases f <;> simp [leMinF]

theorem leMinF_spec : ∀ (k f n : Nat), n ≤ f → n < 256 ^ k →
    (leMinF f n).length ≤ k ∧ leBytes n k = leMinF f n ++ zeros (k - (leMinF f n).length)
  | 0, f, n, _, hk => by
    have : n = 0 := by simpa using hk
    subst this
    simp [leMinF_zero, leBytes, zeros]
  | k + 1, f, n, hf, hk => by
    by_cases h0 : n = 0
    · subst h0
      simp [leMinF_zero, leBytes_zero]
    · match f, hf with
      | 0, hf => omega
      | f + 1, hf =>
        have hdiv : n / 256 ≤ f := by omega
        have hlt : n / 256 < 256 ^ k := by
          rw [Nat.div_lt_iff_lt_mul (by decide)]; rw [Nat.pow_succ] at hk; exact hk
        have ih := leMinF_spec k f (n / 256) hdiv hlt
        simp only [leMinF, h0, if_false, List.length_cons, leBytes]
        refine ⟨by omega, ?_⟩
        rw [ih.2]
        simp

theorem bigBytes_length_le (n k : Nat) (h : n < 256 ^ k) : (bigBytes n).length ≤ k := by
  simpa [bigBytes] using (leMinF_spec k n n (Nat.le_refl n) h).1

/-- the repaired conversion of a value that fits is its `w`-byte big-endian representation -/
theorem fixedBytes_eq_beBytes (n w : Nat) (h : n < 256 ^ w) : fixedBytes n w = beBytes n w := by
  have hs := leMinF_spec w n n (Nat.le_refl n) h
  have hl : (bigBytes n).length = (leMinF n n).length := by simp [bigBytes]
  unfold fixedBytes
  simp only [hl]
  by_cases hw : w ≤ (leMinF n n).length
  · have : (leMinF n n).length = w := by omega
    rw [if_pos hw]
    simp only [beBytes, bigBytes]
    rw [hs.2, this]
    simp [zeros]
  · rw [if_neg hw]
    simp only [beBytes, bigBytes]
    rw [hs.2]
    simp [zeros]

/-! ### `copy(dst[off:], src)` -/

theorem copyAt_length (dst : Bytes) (off : Nat) (src : Bytes) (h : off ≤ dst.length) :
    (copyAt dst off src).length = dst.length := by
  simp only [copyAt, List.length_append, List.length_take, List.length_drop]
  omega

/-- a source placed right after a prefix `a`, inside the rest `z` of the destination -/
theorem copyAt_append (a z src : Bytes) (off : Nat) (ho : off = a.length) (h : src.length ≤ z.length) :
    copyAt (a ++ z) off src = a ++ src ++ z.drop src.length := by
  subst ho
  have h1 : min src.length ((a ++ z).length - a.length) = src.length := by
    simp only [List.length_append]; omega
  simp only [copyAt, h1]
  simp

theorem zeros_drop (n k : Nat) : (zeros n).drop k = zeros (n - k) := by simp [zeros]

theorem copyAt_zeros_prefix (n : Nat) (src : Bytes) (h : src.length ≤ n) :
    copyAt (zeros n) 0 src = src ++ zeros (n - src.length) := by
  have := copyAt_append [] (zeros n) src 0 rfl (by simpa using h)
  simpa [zeros_drop] using this

theorem tempT1_eq (nb sb : Bytes) (hn : nb.length = 32) (hs : sb.length = 16) : tempT1 nb sb = nb ++ sb := by
  unfold tempT1
  rw [copyAt_zeros_prefix 48 nb (by omega), copyAt_append nb _ sb 32 hn.symm (by simp [hn, hs])]
  simp [hn, hs, zeros]

theorem tempT2_eq (nb sb : Bytes) (hn : nb.length = 32) (hs : sb.length = 16) : tempT2 nb sb = sb ++ nb := by
  unfold tempT2
  rw [copyAt_zeros_prefix 48 sb (by omega), copyAt_append sb _ nb 16 hs.symm (by simp [hn, hs])]
  simp [hn, hs, zeros]

theorem tempT3_eq (nb : Bytes) (hn : nb.length = 32) : tempT3 nb = nb ++ nb := by
  unfold tempT3
  rw [copyAt_zeros_prefix 64 nb (by omega), copyAt_append nb _ nb 32 hn.symm (by simp [hn])]
  simp [hn, zeros]

theorem tempKeysOfBytes_eq_spec (H : Bytes → Bytes) (hH : ∀ x, (H x).length = 20) (nb sb : Bytes)
    (hn : nb.length = 32) (hs : sb.length = 16) : tempKeysOfBytes H nb sb = tempKeySpec H nb sb := by
  simp only [tempKeysOfBytes, tempKeySpec]
  rw [tempT1_eq nb sb hn hs, tempT2_eq nb sb hn hs, tempT3_eq nb hn]
  have e1 : ∀ a b : Bytes, a.length = 20 → b.length = 12 →
      copyAt (copyAt (zeros 32) 0 a) 20 b = a ++ b := by
    intro a b ha hb
    rw [copyAt_zeros_prefix 32 a (by omega), copyAt_append a _ b 20 ha.symm (by simp [ha, hb])]
    simp [ha, hb, zeros]
  have e2 : ∀ a b c : Bytes, a.length = 8 → b.length = 20 → c.length = 4 →
      copyAt (copyAt (copyAt (zeros 32) 0 a) 8 b) 28 c = a ++ b ++ c := by
    intro a b c ha hb hc
    rw [copyAt_zeros_prefix 32 a (by omega), copyAt_append a _ b 8 ha.symm (by simp [ha, hb]),
      copyAt_append (a ++ b) _ c 28 (by simp [ha, hb]) (by simp [ha, hb, hc, zeros])]
    simp [ha, hb, hc, zeros]
  rw [e1 _ _ (hH _) (by rw [slice_length _ _ _ (by rw [hH]; omega)]),
      e2 _ _ _ (by rw [slice_length _ _ _ (by rw [hH]; omega)]) (hH _)
        (by rw [slice_length _ _ _ (by omega)])]
  simp [slice]

theorem tempKeysOfBytes_iv_length (H : Bytes → Bytes) (nb sb : Bytes) :
    (tempKeysOfBytes H nb sb).2.length = 32 := by
  simp only [tempKeysOfBytes]
  rw [copyAt_length, copyAt_length, copyAt_length] <;> simp [copyAt_length]

/-! ### padding amount of the key-exchange wrapper -/

theorem tempPadLen_spec (total : Nat) : tempPadLen total < 16 ∧ (total + tempPadLen total) % 16 = 0 := by
  unfold tempPadLen; omega

/-! ### the cut-point search -/

/-- if the candidate with `p` bytes cut off matches and no earlier (longer) candidate does, the
search returns it -/
theorem cutSearch_found (H : Bytes → Bytes) (hash m : Bytes) (p : Nat) (hp : p ≤ m.length)
    (hhit : hash = H (m.take (m.length - p))) :
    ∀ (tries pad0 : Nat), pad0 ≤ p → p < pad0 + tries →
      (∀ j, pad0 ≤ j → j < p → hash ≠ H (m.take (m.length - j))) →
      cutSearch H hash m tries pad0 = .ok (m.take (m.length - p))
  | 0, pad0, h1, h2, _ => by omega
  | tries + 1, pad0, h1, h2, hno => by
    unfold cutSearch
    have hlen : ¬ m.length < pad0 := by omega
    simp only [hlen, if_false]
    by_cases hEq : pad0 = p
    · subst hEq; simp [← hhit]
    · have hlt : pad0 < p := by omega
      simp only [hno pad0 (Nat.le_refl _) hlt, if_false]
      exact cutSearch_found H hash m p hp hhit tries (pad0 + 1) (by omega) (by omega)
        (fun j hj hjp => hno j (by omega) hjp)

/-- if no candidate in the searched range matches, the search ends in a panic -/
theorem cutSearch_none (H : Bytes → Bytes) (hash m : Bytes) :
    ∀ (tries pad0 : Nat),
      (∀ j, pad0 ≤ j → j < pad0 + tries → j ≤ m.length → hash ≠ H (m.take (m.length - j))) →
      ∃ s, cutSearch H hash m tries pad0 = .panic s
  | 0, _, _ => ⟨_, rfl⟩
  | tries + 1, pad0, hno => by
    unfold cutSearch
    by_cases hlen : m.length < pad0
    · exact ⟨"DecryptMessageWithTempKeys", by simp [hlen]⟩
    · simp only [hlen, if_false, hno pad0 (Nat.le_refl _) (by omega) (by omega)]
      exact cutSearch_none H hash m tries (pad0 + 1) (fun j h1 h2 h3 => hno j (by omega) (by omega) h3)

/-! ### reading what a conformant peer (or the client itself) encrypted -/

theorem take_append_add (a pad : Bytes) (k : Nat) : (a ++ pad).take (a.length + k) = a ++ pad.take k := by
  rw [List.take_append]
  simp [List.take_of_length_le]

/-- `DecryptMessageWithTempKeys` after key derivation, applied to the IGE encryption of
`SHA1(a) ‖ a ‖ pad` under the same key and IV: the answer `a` comes back. -/
theorem decryptTempWith_conformant (H : Bytes → Bytes) (Ek Dk : Bytes → Bytes) (hc : IsBlockCipher Ek Dk)
    (hH : ∀ x, (H x).length = 20) (iv : Bytes) (hiv : iv.length = 32) (a pad : Bytes)
    (hp : pad.length ≤ 15) (hal : (20 + a.length + pad.length) % 16 = 0)
    (hcol : NoLongerCollision H a pad) :
    decryptTempWith H Dk iv (igeEncBytes Ek iv (H a ++ a ++ pad)) 16 0 = .ok a := by
  have hlen : (H a ++ a ++ pad).length = 20 + a.length + pad.length := by simp [hH]; omega
  have hmod : (H a ++ a ++ pad).length % 16 = 0 := by rw [hlen]; exact hal
  have hct : (igeEncBytes Ek iv (H a ++ a ++ pad)).length = 20 + a.length + pad.length := by
    rw [igeEncBytes_length Ek Dk hc iv _ hiv hmod, hlen]
  have hdec := doDecrypt_spec Dk iv (igeEncBytes Ek iv (H a ++ a ++ pad))
    (zeros (igeEncBytes Ek iv (H a ++ a ++ pad)).length) (by omega) (by rw [hct]; exact hal) (by simp)
  rw [igeDecBytes_igeEncBytes Ek Dk hc iv _ hiv hmod] at hdec
  unfold decryptTempWith
  rw [hdec]
  have h20 : ¬ (H a ++ a ++ pad).length < 20 := by omega
  have htake : (H a ++ a ++ pad).take 20 = H a := by
    rw [List.append_assoc, List.take_append_of_le_length (by rw [hH]; omega), List.take_of_length_le (by rw [hH]; omega)]
  have hdrop : (H a ++ a ++ pad).drop 20 = a ++ pad := by
    rw [List.append_assoc, List.drop_append_of_le_length (by rw [hH]; omega), List.drop_of_length_le (by rw [hH]; omega)]
    rfl
  simp only [h20, if_false, htake, hdrop]
  have hfound := cutSearch_found H (H a) (a ++ pad) pad.length (by simp)
    (by simp) 16 0 (Nat.zero_le _) (by omega)
    (by
      intro j _ hj
      have e : (a ++ pad).length - j = a.length + (pad.length - j) := by simp; omega
      rw [e, take_append_add]
      exact (hcol (pad.length - j) (by omega) (by omega)).symm)
  simpa using hfound

/-- the un-repaired search (cut points `len-1 … len-15`) on an answer sent without padding -/
theorem decryptTempWith_orig_unpadded (H : Bytes → Bytes) (Ek Dk : Bytes → Bytes) (hc : IsBlockCipher Ek Dk)
    (hH : ∀ x, (H x).length = 20) (iv : Bytes) (hiv : iv.length = 32) (a : Bytes)
    (hal : (20 + a.length) % 16 = 0)
    (hcol : ∀ j, 1 ≤ j → j ≤ 15 → j ≤ a.length → H (a.take (a.length - j)) ≠ H a) :
    ∃ s, decryptTempWith H Dk iv (igeEncBytes Ek iv (H a ++ a)) 15 1 = .panic s := by
  have hlen : (H a ++ a).length = 20 + a.length := by simp [hH]
  have hmod : (H a ++ a).length % 16 = 0 := by rw [hlen]; exact hal
  have hct : (igeEncBytes Ek iv (H a ++ a)).length = 20 + a.length := by
    rw [igeEncBytes_length Ek Dk hc iv _ hiv hmod, hlen]
  have hdec := doDecrypt_spec Dk iv (igeEncBytes Ek iv (H a ++ a))
    (zeros (igeEncBytes Ek iv (H a ++ a)).length) (by omega) (by rw [hct]; exact hal) (by simp)
  rw [igeDecBytes_igeEncBytes Ek Dk hc iv _ hiv hmod] at hdec
  unfold decryptTempWith
  rw [hdec]
  have h20 : ¬ (H a ++ a).length < 20 := by omega
  have htake : (H a ++ a).take 20 = H a := by
    rw [List.take_append_of_le_length (by rw [hH]; omega), List.take_of_length_le (by rw [hH]; omega)]
  have hdrop : (H a ++ a).drop 20 = a := by
    rw [List.drop_append_of_le_length (by rw [hH]; omega), List.drop_of_length_le (by rw [hH]; omega)]
    rfl
  simp only [h20, if_false, htake, hdrop]
  exact cutSearch_none H (H a) a 15 1 (fun j h1 h2 h3 => (hcol j h1 (by omega) h3).symm)

/-! ### a toy hash for the satisfiability examples: the length, as 20 big-endian bytes -/

def lenHash (x : Bytes) : Bytes := beBytes x.length 20

theorem lenHash_length (x : Bytes) : (lenHash x).length = 20 := by simp [lenHash]

theorem lenHash_ne {x y : Bytes} (hx : x.length < 256 ^ 20) (hy : y.length < 256 ^ 20)
    (h : x.length ≠ y.length) : lenHash x ≠ lenHash y := by
  intro he
  have := congrArg fromBE he
  simp only [lenHash, fromBE_beBytes 20 _ hx, fromBE_beBytes 20 _ hy] at this
  exact h this

theorem lenHash_noLongerCollision (a pad : Bytes) (h : a.length + pad.length < 256 ^ 20) :
    NoLongerCollision lenHash a pad := by
  intro k hk hkp
  have hk' : (pad.take k).length = k := by simp; omega
  apply lenHash_ne
  · rw [List.length_append, hk']; omega
  · omega
  · rw [List.length_append, hk']; omega

/-- a toy block cipher for the satisfiability examples: reverse the block -/
theorem revCipher : IsBlockCipher List.reverse List.reverse :=
  ⟨fun _ h => by simpa using h, fun _ h => by simpa using h, fun _ _ => List.reverse_reverse _,
   fun _ _ => List.reverse_reverse _⟩

/-- a 20-byte "hash" for examples that needs more than the length: bytes 40..59 of the input, zero-filled — on a
48-byte input the last 8 bytes (of the server nonce, in `new_nonce ‖ server_nonce`) -/
def tailHash (x : Bytes) : Bytes := ((x.drop 40) ++ zeros 20).take 20

theorem tailHash_length (x : Bytes) : (tailHash x).length = 20 := by
  simp [tailHash]

end Mtv.Ige
