/-
  Helper lemmas for the C06 theorems about the model of `math.SplitPQ` (Mtv/Handshake/SplitPQ.lean):
  the inner loop is multiply-and-add modulo `what`; the fuel of the middle loop is never exhausted;
  whatever the walk did, `g` is 0 or a divisor of `what`; the tail turns a proper divisor into an
  ordered factorisation; no division by zero from 2 on; a product of two primes has one ordered
  factorisation into two factors above 1.
-/
import Mtv.Handshake.SplitPQ
import Mathlib.Tactic.Ring
import Mathlib.Data.Nat.Prime.Basic
namespace Mtv.Handshake

/-! ### the inner loop -/

private theorem mulAdd_key (n a c a' c' k r e1 e2 : Nat) (h1 : c' + n * e1 = c + a * r)
    (h2 : a' + n * e2 = 2 * a) : (c' + a' * k) % n = (c + a * (2 * k + r)) % n := by
  have h : c + a * (2 * k + r) = c' + a' * k + n * (e1 + e2 * k) := by
    have : c + a * (2 * k + r) = (c + a * r) + (2 * a) * k := by ring
    rw [this, ← h1, ← h2]; ring
  rw [h, Nat.add_mul_mod_self_left]

theorem mulAddLoop_spec (n : Nat) : ∀ (fuel a b c : Nat), a < n → c < n → b < 2 ^ fuel →
    mulAddLoop n fuel a b c = (c + a * b) % n
  | 0, a, b, c, _, hc, hb => by
    have : b = 0 := by simpa using hb
    subst this
    simp [mulAddLoop, Nat.mod_eq_of_lt hc]
  | fuel + 1, a, b, c, ha, hc, hb => by
    unfold mulAddLoop
    by_cases hb0 : b > 0
    · simp only [hb0, if_true]
      have hk : b >>> 1 = b / 2 := by simp [Nat.shiftRight_eq_div_pow]
      have hk2 : b / 2 < 2 ^ fuel := by
        have : 2 ^ (fuel + 1) = 2 * 2 ^ fuel := by rw [Nat.pow_succ, Nat.mul_comm]
        omega
      have hbsplit : b = 2 * (b / 2) + b % 2 := by omega
      -- the new `a`
      have ha' : (if a + a ≥ n then a + a - n else a + a) < n := by split <;> omega
      obtain ⟨e2, he2⟩ : ∃ e2, (if a + a ≥ n then a + a - n else a + a) + n * e2 = 2 * a := by
        by_cases h : a + a ≥ n
        · exact ⟨1, by simp only [h, if_true]; omega⟩
        · exact ⟨0, by simp only [h, if_false]; omega⟩
      by_cases hodd : b &&& 1 > 0
      · have hr : b % 2 = 1 := by
          rw [Nat.and_one_is_mod] at hodd; omega
        simp only [hodd, if_true]
        have hc' : (if c + a ≥ n then c + a - n else c + a) < n := by split <;> omega
        obtain ⟨e1, he1⟩ : ∃ e1, (if c + a ≥ n then c + a - n else c + a) + n * e1 = c + a * 1 := by
          by_cases h : c + a ≥ n
          · exact ⟨1, by simp only [h, if_true]; omega⟩
          · exact ⟨0, by simp only [h, if_false]; omega⟩
        rw [hk, mulAddLoop_spec n fuel _ _ _ ha' hc' hk2]
        have := mulAdd_key n a c _ _ (b / 2) 1 e1 e2 he1 he2
        rw [this]
        congr 2
        rw [hr] at hbsplit
        exact congrArg _ hbsplit.symm
      · have hr : b % 2 = 0 := by
          rw [Nat.and_one_is_mod] at hodd; omega
        simp only [hodd, if_false]
        rw [hk, mulAddLoop_spec n fuel _ _ _ ha' hc hk2]
        have := mulAdd_key n a c _ c (b / 2) 0 0 e2 (by simp) he2
        rw [this]
        congr 2
        rw [hr] at hbsplit
        exact congrArg _ hbsplit.symm
    · have : b = 0 := by omega
      subst this
      simp [Nat.mod_eq_of_lt hc]

/-- the inner loop of `SplitPQ`, run to its end, is `c + a·b mod n` -/
theorem mulAddMod_eq {n a c : Nat} (b : Nat) (ha : a < n) (hc : c < n) :
    mulAddMod n a b c = (c + a * b) % n :=
  mulAddLoop_spec n b a b c ha hc Nat.lt_two_pow_self

/-- more fuel than the bits of `b` changes nothing: the loop has ended by itself -/
theorem mulAddLoop_fuel (n : Nat) {fuel fuel' a b c : Nat} (ha : a < n) (hc : c < n)
    (h : b < 2 ^ fuel) (h' : b < 2 ^ fuel') : mulAddLoop n fuel a b c = mulAddLoop n fuel' a b c := by
  rw [mulAddLoop_spec n fuel a b c ha hc h, mulAddLoop_spec n fuel' a b c ha hc h']

/-! ### the middle loop -/

/-- the walk of one round is `x ↦ x² + q mod what` -/
theorem rhoStep_x {what q : Nat} {s : Rho} (hx : s.x < what) (hq : q < what) :
    (rhoStep what q s).x = (q + s.x * s.x) % what ∧ (rhoStep what q s).x < what := by
  have e : (rhoStep what q s).x = (q + s.x * s.x) % what := mulAddMod_eq _ hx hq
  exact ⟨e, by rw [e]; exact Nat.mod_lt _ (by omega)⟩

theorem rhoStep_j (what q : Nat) (s : Rho) : (rhoStep what q s).j = s.j + 1 := rfl

theorem rhoStep_g (what q : Nat) (s : Rho) : (rhoStep what q s).g ∣ what := by
  unfold rhoStep
  exact Nat.gcd_dvd_right _ _

/-- `j` counts up to `lim`: with `lim ≤ j + fuel` the middle loop has ended by itself and further fuel
changes nothing (the model runs it with `fuel = lim`, `j = 1`) -/
theorem rhoLoop_fuel (what q lim : Nat) : ∀ (fuel : Nat) (s : Rho), lim ≤ s.j + fuel → ∀ k,
    rhoLoop what q lim (fuel + k) s = rhoLoop what q lim fuel s
  | 0, s, h, k => by
    have hj : ¬ s.j < lim := by omega
    cases k with
    | zero => rfl
    | succ k => simp [rhoLoop, hj]
  | fuel + 1, s, h, k => by
    have e : fuel + 1 + k = (fuel + k) + 1 := by omega
    rw [e]
    unfold rhoLoop
    by_cases hc : (s.j < lim && s.flag) = true
    · simp only [hc, if_true]
      exact rhoLoop_fuel what q lim fuel _ (by rw [rhoStep_j]; omega) k
    · simp only [hc]
      rfl

/-- whatever the walk does, `g` is 0 (its initial value) or a divisor of `what` -/
theorem rhoLoop_g (what q lim : Nat) : ∀ (fuel : Nat) (s : Rho), (s.g = 0 ∨ s.g ∣ what) →
    ((rhoLoop what q lim fuel s).g = 0 ∨ (rhoLoop what q lim fuel s).g ∣ what)
  | 0, s, h => h
  | fuel + 1, s, h => by
    unfold rhoLoop
    by_cases hc : (s.j < lim && s.flag) = true
    · simp only [hc, if_true]
      exact rhoLoop_g what q lim fuel _ (Or.inr (rhoStep_g what q s))
    · simp only [hc]
      exact h

/-! ### the tail -/

theorem splitTail_sound {what g : Nat} (h1 : 1 < g) (h2 : g < what) (hd : g ∣ what) :
    (splitTail what g).1 * (splitTail what g).2 = what ∧ 1 < (splitTail what g).1 ∧
      (splitTail what g).1 ≤ (splitTail what g).2 ∧ (splitTail what g).2 < what := by
  obtain ⟨k, rfl⟩ := hd
  have hg0 : 0 < g := by omega
  have hk : g * k / g = k := Nat.mul_div_cancel_left k hg0
  have hk1 : 1 < k := by
    rcases Nat.lt_or_ge 1 k with h | h
    · exact h
    · have : g * k ≤ g * 1 := Nat.mul_le_mul_left g h
      omega
  have hkg : k < g * k := by
    have : 2 * k ≤ g * k := Nat.mul_le_mul_right k h1
    omega
  unfold splitTail
  simp only [hk]
  by_cases hs : g > k
  · simp only [hs, if_true]
    exact ⟨Nat.mul_comm k g, hk1, Nat.le_of_lt hs, h2⟩
  · simp only [hs, if_false]
    exact ⟨trivial, h1, by omega, hkg⟩

/-! ### the outer loop -/

theorem outerLoop_sound (what : Nat) (draws : Nat → Nat × Nat) : ∀ (fuel i g : Nat) (r : Nat × Nat),
    (g = 0 ∨ g ∣ what) → outerLoop what draws fuel i g = .ok r →
    r.1 * r.2 = what ∧ 1 < r.1 ∧ r.1 ≤ r.2 ∧ r.2 < what
  | 0, i, g, r, hg, h => by
    unfold outerLoop at h
    by_cases hc : (decide (g > 1) && decide (g < what)) = true
    · simp only [hc, if_true] at h
      cases h
      simp only [Bool.and_eq_true, decide_eq_true_eq] at hc
      rcases hg with hg | hg
      · omega
      · exact splitTail_sound hc.1 hc.2 hg
    · simp only [hc] at h
      cases h
  | fuel + 1, i, g, r, hg, h => by
    unfold outerLoop at h
    by_cases hc : (decide (g > 1) && decide (g < what)) = true
    · simp only [hc, if_true] at h
      cases h
      simp only [Bool.and_eq_true, decide_eq_true_eq] at hc
      rcases hg with hg | hg
      · omega
      · exact splitTail_sound hc.1 hc.2 hg
    · simp only [hc] at h
      by_cases h0 : what = 0
      · simp only [h0, if_true] at h
        cases h
      · simp only [h0, if_false] at h
        by_cases h1 : what - 1 = 0
        · simp only [h1, if_true] at h
          cases h
        · simp only [h1, if_false] at h
          exact outerLoop_sound what draws fuel (i + 1) _ r (rhoLoop_g what _ _ _ _ hg) h

theorem outerLoop_no_panic (what : Nat) (draws : Nat → Nat × Nat) (hw : 2 ≤ what) :
    ∀ (fuel i g : Nat) (site : String), outerLoop what draws fuel i g ≠ .panic site
  | 0, i, g, site => by
    unfold outerLoop
    split <;> simp
  | fuel + 1, i, g, site => by
    unfold outerLoop
    have h0 : what ≠ 0 := by omega
    have h1 : what - 1 ≠ 0 := by omega
    by_cases hc : (decide (g > 1) && decide (g < what)) = true
    · simp [hc]
    · simp only [hc, h0, h1, if_false]
      exact outerLoop_no_panic what draws hw fuel (i + 1) _ site

/-! ### the guard + the call -/

/-- exactly when `guardedSplit` has a result -/
theorem guardedSplit_some {pp : Nat → Bool} {fuel : Nat} {draws : Nat → Nat × Nat} {pq : Nat}
    {r : Nat × Nat} : guardedSplit pp fuel draws pq = some r ↔
      4 ≤ pq ∧ pp pq = false ∧ splitPQ fuel draws pq = .ok r := by
  unfold guardedSplit
  by_cases hg : (decide (pq < 4) || pp pq) = true
  · simp only [hg, if_true]
    simp only [Bool.or_eq_true, decide_eq_true_eq] at hg
    constructor
    · intro h; cases h
    · rintro ⟨h4, hp, _⟩
      rcases hg with hg | hg
      · omega
      · rw [hp] at hg; cases hg
  · simp only [hg]
    simp only [Bool.or_eq_true, decide_eq_true_eq, not_or, Bool.not_eq_true] at hg
    cases hs : splitPQ fuel draws pq with
    | ok r' =>
      simp only [Bool.false_eq_true, if_false, Option.some.injEq, SplitResult.ok.injEq]
      exact ⟨fun h => ⟨by omega, hg.2, h⟩, fun h => h.2.2⟩
    | panic site => simp
    | running => simp

/-- … and exactly when it has none: the guard refuses, or the call has not returned within `fuel`
rounds (it cannot panic behind the guard) -/
theorem guardedSplit_none {pp : Nat → Bool} {fuel : Nat} {draws : Nat → Nat × Nat} {pq : Nat} :
    guardedSplit pp fuel draws pq = none ↔
      pq < 4 ∨ pp pq = true ∨ splitPQ fuel draws pq = .running := by
  unfold guardedSplit
  by_cases hg : (decide (pq < 4) || pp pq) = true
  · simp only [hg, if_true, true_iff]
    simp only [Bool.or_eq_true, decide_eq_true_eq] at hg
    rcases hg with hg | hg
    · exact Or.inl hg
    · exact Or.inr (Or.inl hg)
  · simp only [hg]
    simp only [Bool.or_eq_true, decide_eq_true_eq, not_or, Bool.not_eq_true] at hg
    have h4 : 2 ≤ pq := by omega
    cases hs : splitPQ fuel draws pq with
    | ok r' => simp [hg.1, hg.2]
    | panic site => exact absurd hs (outerLoop_no_panic pq draws h4 fuel 0 0 site)
    | running => simp

/-! ### a product of two primes has one ordered factorisation -/

theorem semiprime_unique {p q p1 p2 : Nat} (hp : Nat.Prime p) (hq : Nat.Prime q) (hpq : p ≤ q)
    (hmul : p1 * p2 = p * q) (h1 : 1 < p1) (hle : p1 ≤ p2) : p1 = p ∧ p2 = q := by
  have hp0 : 0 < p := hp.pos
  have h2 : 1 < p2 := Nat.lt_of_lt_of_le h1 hle
  have hdvd : p ∣ p1 * p2 := hmul ▸ Nat.dvd_mul_right p q
  rcases (Nat.Prime.dvd_mul hp).1 hdvd with ⟨a, ha⟩ | ⟨a, ha⟩
  · -- p1 = p * a, so a * p2 = q
    have haq : a * p2 = q := by
      have : p * (a * p2) = p * q := by rw [← Nat.mul_assoc, ← ha, hmul]
      exact Nat.eq_of_mul_eq_mul_left hp0 this
    have hp2 : p2 = q := by
      rcases (Nat.dvd_prime hq).1 ⟨a, by rw [← haq, Nat.mul_comm]⟩ with h | h
      · omega
      · exact h
    have ha1 : a = 1 := by
      have hq0 : 0 < q := hq.pos
      rw [hp2] at haq
      have : a * q = 1 * q := by rw [haq, Nat.one_mul]
      exact Nat.eq_of_mul_eq_mul_right hq0 this
    exact ⟨by rw [ha, ha1, Nat.mul_one], hp2⟩
  · -- p2 = p * a, so p1 * a = q
    have haq : p1 * a = q := by
      have : p * (p1 * a) = p * q := by
        rw [← hmul, ha]; ring
      exact Nat.eq_of_mul_eq_mul_left hp0 this
    have hp1 : p1 = q := by
      rcases (Nat.dvd_prime hq).1 ⟨a, haq.symm⟩ with h | h
      · omega
      · exact h
    have ha1 : a = 1 := by
      have hq0 : 0 < q := hq.pos
      rw [hp1] at haq
      have : q * a = q * 1 := by rw [haq, Nat.mul_one]
      exact Nat.eq_of_mul_eq_mul_left hq0 this
    have hp2 : p2 = p := by rw [ha, ha1, Nat.mul_one]
    have : p = q := by omega
    exact ⟨by omega, by omega⟩

end Mtv.Handshake
