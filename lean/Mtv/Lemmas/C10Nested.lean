/-
  C10, nested containers: the msg_ids of the content-related messages inside a server message — the message itself
  and the members of containers at every depth the client looks at — all enter `gotOdd` (the history of
  content-related messages received) when the message is processed, and nothing ever leaves `gotOdd`.
  Helper lemmas for `Mtv.Client.nested_members_acked` (Props/C10.lean).
-/
import Mtv.Lemmas.ClientInv
namespace Mtv.Client

mutual
/-- the msg_ids of the content-related messages (odd seq_no) in the message `(mid, seq, m)` met `d` containers deep:
the members of a container come first (at any depth below `maxContainerDepth`; a container nested deeper is refused
as a whole, its members are no messages the client has received), then the message itself -/
def contentIds (d : Nat) (mid seq : Nat) : Msg → List Nat
  | .cont ms =>
    (if d < maxContainerDepth then contentIdsAll (d + 1) ms else []) ++ (if seq % 2 = 1 then [mid] else [])
  | .res _ _ => if seq % 2 = 1 then [mid] else []
  | .salt _ _ => if seq % 2 = 1 then [mid] else []
  | .news _ => if seq % 2 = 1 then [mid] else []
  | .badmsg _ => if seq % 2 = 1 then [mid] else []
  | .quiet => if seq % 2 = 1 then [mid] else []
  | .odd => if seq % 2 = 1 then [mid] else []
def contentIdsAll (d : Nat) : List (Nat × Nat × Msg) → List Nat
  | [] => []
  | (mid, seq, m) :: rest => contentIds d mid seq m ++ contentIdsAll d rest
end

theorem mem_gotOdd_oweAck_self (s : St) (mid seq : Nat) (h : seq % 2 = 1) : mid ∈ (oweAck s mid seq).gotOdd := by
  unfold oweAck; simp [h]

theorem mem_gotOdd_oweAck_mono {x : Nat} (s : St) (mid seq : Nat) (h : x ∈ s.gotOdd) : x ∈ (oweAck s mid seq).gotOdd := by
  unfold oweAck; split
  · simp [h]
  · exact h

/-- processing a message never removes an id from `gotOdd` -/
theorem process_gotOdd_mono (x : Nat) (m : Msg) (d : Nat) (s : St) (mid seq : Nat) (h : x ∈ s.gotOdd) :
    x ∈ (process d s mid seq m).gotOdd := by
  refine process_preserves (fun s => x ∈ s.gotOdd) ?_ ?_ ?_ ?_ ?_ ?_ m d s mid seq h
  · intro s rid v h; simp only [resStep]; split <;> exact h
  · intro s bad ns h; simp only [saltStep]; split <;> exact h
  · intro s ns h; exact h
  · intro s bad h; unfold badStep; split <;> exact h
  · intro s h; exact h
  · intro s mid seq h; exact mem_gotOdd_oweAck_mono s mid seq h

theorem processAll_gotOdd_mono (x : Nat) (ms : List (Nat × Nat × Msg)) (d : Nat) (s : St) (h : x ∈ s.gotOdd) :
    x ∈ (processAll d s ms).gotOdd := by
  refine processAll_preserves (fun s => x ∈ s.gotOdd) ?_ ?_ ?_ ?_ ?_ ?_ ms d s h
  · intro s rid v h; simp only [resStep]; split <;> exact h
  · intro s bad ns h; simp only [saltStep]; split <;> exact h
  · intro s ns h; exact h
  · intro s bad h; unfold badStep; split <;> exact h
  · intro s h; exact h
  · intro s mid seq h; exact mem_gotOdd_oweAck_mono s mid seq h

/-- the own id of a message with an odd seq_no is in `gotOdd` after `oweAck`; used for the six leaf cases -/
theorem leaf_ids_in_gotOdd {x mid seq : Nat} (s : St) (hx : x ∈ (if seq % 2 = 1 then [mid] else [])) :
    x ∈ (oweAck s mid seq).gotOdd := by
  split at hx
  · rename_i h
    simp only [List.mem_singleton] at hx
    subst hx
    exact mem_gotOdd_oweAck_self s x seq h
  · cases hx

mutual
/-- every content-related message inside `(mid, seq, m)`, at any depth, is in `gotOdd` once `m` is processed -/
theorem contentIds_in_gotOdd (x : Nat) :
    ∀ (m : Msg) (d : Nat) (s : St) (mid seq : Nat), x ∈ contentIds d mid seq m → x ∈ (process d s mid seq m).gotOdd
  | .res rid v, d, s, mid, seq, hx => by simp only [contentIds] at hx; simp only [process]; exact leaf_ids_in_gotOdd _ hx
  | .salt bad ns, d, s, mid, seq, hx => by simp only [contentIds] at hx; simp only [process]; exact leaf_ids_in_gotOdd _ hx
  | .news ns, d, s, mid, seq, hx => by simp only [contentIds] at hx; simp only [process]; exact leaf_ids_in_gotOdd _ hx
  | .badmsg bad, d, s, mid, seq, hx => by simp only [contentIds] at hx; simp only [process]; exact leaf_ids_in_gotOdd _ hx
  | .quiet, d, s, mid, seq, hx => by simp only [contentIds] at hx; simp only [process]; exact leaf_ids_in_gotOdd _ hx
  | .odd, d, s, mid, seq, hx => by simp only [contentIds] at hx; simp only [process]; exact leaf_ids_in_gotOdd _ hx
  | .cont ms, d, s, mid, seq, hx => by
    simp only [contentIds, List.mem_append] at hx
    simp only [process]
    rcases hx with hin | hself
    · split
      · rename_i hd
        simp only [hd, if_true] at hin
        exact mem_gotOdd_oweAck_mono _ mid seq (contentIdsAll_in_gotOdd x ms (d + 1) s hin)
      · rename_i hd
        simp only [hd, if_false] at hin
        cases hin
    · split
      · exact leaf_ids_in_gotOdd _ hself
      · exact leaf_ids_in_gotOdd _ hself
theorem contentIdsAll_in_gotOdd (x : Nat) :
    ∀ (ms : List (Nat × Nat × Msg)) (d : Nat) (s : St), x ∈ contentIdsAll d ms → x ∈ (processAll d s ms).gotOdd
  | [], d, s, hx => by simp [contentIdsAll] at hx
  | (mid, seq, m) :: rest, d, s, hx => by
    simp only [contentIdsAll, List.mem_append] at hx
    simp only [processAll]
    rcases hx with h1 | h2
    · exact processAll_gotOdd_mono x rest d _ (contentIds_in_gotOdd x m d s mid seq h1)
    · exact contentIdsAll_in_gotOdd x rest d _ h2
end

/-- no transition of the machine removes an id from `gotOdd` -/
theorem step_gotOdd_mono {s s' : St} {e : Ev} {x : Nat} (hst : step s e = some s') (h : x ∈ s.gotOdd) : x ∈ s'.gotOdd := by
  cases e with
  | send c id seq salt => obtain ⟨_, _, _, _, _, _, rfl⟩ := step_send_some hst; exact h
  | ack id seq ids => obtain ⟨_, _, _, _, _, _, rfl⟩ := step_ack_some hst; exact h
  | deliver c v => obtain ⟨rid, _, rfl⟩ := step_deliver_some hst; exact h
  | store y => obtain ⟨rest, _, rfl⟩ := step_store_some hst; exact h
  | ackLost ids => obtain ⟨_, _, rfl⟩ := step_ackLost_some hst; exact h
  | storeLost y => obtain ⟨rest, _, rfl⟩ := step_storeLost_some hst; exact h
  | plain mid m =>
    simp only [Mtv.Client.step, Option.some.injEq] at hst
    subst hst; exact h
  | recv mid seq m =>
    simp only [Mtv.Client.step, Option.some.injEq] at hst
    subst hst; exact process_gotOdd_mono x m 0 s mid seq h

theorem run_gotOdd_mono {x : Nat} (t : List Ev) : ∀ (s s' : St), run s t = some s' → x ∈ s.gotOdd → x ∈ s'.gotOdd := by
  induction t with
  | nil => intro s s' hr h; simp [run] at hr; subst hr; exact h
  | cons e es ih =>
    intro s s' hr h
    simp only [run] at hr
    cases hs : step s e with
    | none => simp [hs] at hr
    | some s1 => simp only [hs] at hr; exact ih s1 s' hr (step_gotOdd_mono hs h)

end Mtv.Client
