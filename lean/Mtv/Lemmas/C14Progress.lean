/-
  Termination of the (repaired) cursor parser: every cursor operation moves forward or not at all,
  the one backward move (`Unread` after the look-ahead word) returns exactly to where the look-ahead
  started, and every iteration of the two loops (`for !cur.IsNext("=")` in parseDefinition, the main loop
  of ParseSchema) that is repeated has moved the cursor forward by at least one rune. Hence the fuel of
  the model is never exhausted: `parseSchema` never answers `loop`, for any input.
-/
import Mtv.Lemmas.C14Cursor
import Mtv.Tlgen.Parser
namespace Mtv.Tlgen
namespace Cursor

/-- number of runes behind the position (`len - 1 - pos`) -/
def left (c : Cursor) : Nat := c.rest.length

theorem next_left (c c' : Cursor) (h : c.next = some c') : c'.left + 1 = c.left := by
  cases c with | mk rev cur rest =>
  cases rest with
  | nil => simp [next] at h
  | cons r rs => simp only [next, Option.some.injEq] at h; subst h; simp [left]

theorem nextOrStay_left (c : Cursor) : c.nextOrStay.left ≤ c.left := by
  cases c with | mk rev cur rest =>
  cases rest <;> simp [nextOrStay, next, left]

theorem nextOrStay_of_rest_nil (c : Cursor) (h : c.rest = []) : c.nextOrStay = c := by
  cases c with | mk rev cur rest => simp at h; subst h; rfl

theorem nextOrStay_left_lt (c : Cursor) (h : c.rest ≠ []) : c.nextOrStay.left < c.left := by
  cases c with | mk rev cur rest =>
  cases rest with
  | nil => exact absurd rfl h
  | cons r rs => simp [nextOrStay, next, left]

theorem skip_left (n : Nat) (c : Cursor) : (c.skip n).left ≤ c.left := by
  induction n generalizing c with
  | zero => simp [skip]
  | succ n ih =>
    cases c with | mk rev cur rest =>
    cases rest with
    | nil => simp [skip]
    | cons r rs =>
      simp only [skip]
      have := ih ⟨cur :: rev, r, rs⟩
      simp only [left] at this ⊢
      simp; omega

theorem skip_succ_left_lt (n : Nat) (c : Cursor) (h : c.rest ≠ []) : (c.skip (n + 1)).left < c.left := by
  cases c with | mk rev cur rest =>
  cases rest with
  | nil => exact absurd rfl h
  | cons r rs =>
    simp only [skip]
    have := skip_left n ⟨cur :: rev, r, rs⟩
    simp only [left] at this ⊢
    simp; omega

theorem skip_of_rest_nil (n : Nat) (c : Cursor) (h : c.rest = []) : c.skip n = c := by
  cases c with | mk rev cur rest =>
  simp at h; subst h
  cases n <;> rfl

theorem skipSpacesGo_left (rev : Str) (cur : Char) (rest : Str) : (skipSpacesGo rev cur rest).left ≤ rest.length := by
  induction rest generalizing rev cur with
  | nil => simp [skipSpacesGo, left]
  | cons r rs ih =>
    simp only [skipSpacesGo]
    split
    · have := ih (cur :: rev) r; simp only [List.length_cons]; omega
    · simp [left]

theorem skipSpaces_left (c : Cursor) : c.skipSpaces.left ≤ c.left := skipSpacesGo_left _ _ _

/-- the shape of a successful `ReadAt`: the runes read lie between the old and the new position, and
the cursor stands on the stop rune -/
theorem readAtGo_some (stop : Char) (acc rev : Str) (cur : Char) (rest : Str) (w' : Str) (c' : Cursor)
    (h : readAtGo stop acc rev cur rest = some (w', c')) :
    ∃ w, w' = acc.reverse ++ w ∧ cur :: rest = w ++ stop :: c'.rest ∧ c' = atRem (w.reverse ++ rev) (stop :: c'.rest) := by
  induction rest generalizing acc rev cur with
  | nil =>
    simp only [readAtGo] at h
    split at h
    · rename_i hc
      simp only [Option.some.injEq, Prod.mk.injEq] at h
      obtain ⟨rfl, rfl⟩ := h
      exact ⟨[], by simp, by simp [hc], by simp [hc]⟩
    · cases h
  | cons r rs ih =>
    simp only [readAtGo] at h
    split at h
    · rename_i hc
      simp only [Option.some.injEq, Prod.mk.injEq] at h
      obtain ⟨rfl, rfl⟩ := h
      exact ⟨[], by simp, by simp [hc], by simp [hc]⟩
    · obtain ⟨w, hw, hr, hc'⟩ := ih (cur :: acc) (cur :: rev) r h
      refine ⟨cur :: w, by simp [hw], by simp [hr], ?_⟩
      rw [hc']; simp

theorem readAt_some (stop : Char) (c : Cursor) (w : Str) (c' : Cursor) (h : c.readAt stop = some (w, c')) :
    c = atRem c.rev (w ++ stop :: c'.rest) ∧ c' = atRem (w.reverse ++ c.rev) (stop :: c'.rest) := by
  obtain ⟨w0, hw, hr, hc'⟩ := readAtGo_some stop [] c.rev c.cur c.rest w c' h
  simp only [List.reverse_nil, List.nil_append] at hw
  subst hw
  refine ⟨?_, hc'⟩
  rw [← hr]; rfl

theorem readAt_left (stop : Char) (c : Cursor) (w : Str) (c' : Cursor) (h : c.readAt stop = some (w, c')) :
    c'.left + w.length = c.left ∧ c'.cur = stop := by
  obtain ⟨h1, h2⟩ := readAt_some stop c w c' h
  constructor
  · have : (c.cur :: c.rest).length = (w ++ stop :: c'.rest).length := by
      have := congrArg Cursor.remaining h1
      cases hw : w ++ stop :: c'.rest with
      | nil => cases w <;> simp at hw
      | cons a b =>
        rw [hw] at this
        simp only [remaining, atRem_cons] at this
        rw [this]
    simp only [List.length_cons, List.length_append] at this
    simp only [left]; omega
  · rw [h2]; rfl

/-- `Unread(len(word))` after `ReadAt` has read `word` returns to where `ReadAt` started -/
theorem unread_readAt (stop : Char) (c : Cursor) (w : Str) (c' : Cursor) (h : c.readAt stop = some (w, c')) :
    c'.unread w.length = c := by
  obtain ⟨h1, h2⟩ := readAt_some stop c w c' h
  rw [h2, unread_append, ← h1]

theorem readDigitsGo_left (acc rev : Str) (cur : Char) (rest : Str) (w : Str) (c' : Cursor)
    (h : readDigitsGo acc rev cur rest = some (w, c')) : c'.left ≤ rest.length := by
  induction rest generalizing acc rev cur with
  | nil =>
    simp only [readDigitsGo] at h
    split at h
    · cases h
    · simp only [Option.some.injEq, Prod.mk.injEq] at h; obtain ⟨-, rfl⟩ := h; simp [left]
  | cons r rs ih =>
    simp only [readDigitsGo] at h
    split at h
    · have := ih _ _ _ h; simp only [List.length_cons]; omega
    · simp only [Option.some.injEq, Prod.mk.injEq] at h; obtain ⟨-, rfl⟩ := h; simp [left]

theorem readDigits_left (c : Cursor) (w : Str) (c' : Cursor) (h : c.readDigits = some (w, c')) : c'.left ≤ c.left :=
  readDigitsGo_left _ _ _ _ _ _ h

theorem isNextGo_left (s : Str) (c0 c : Cursor) (b : Bool) (c' : Cursor) (hc : c.left ≤ c0.left)
    (h : isNextGo s c0 c = (b, c')) : c'.left ≤ c0.left := by
  induction s generalizing c with
  | nil => simp only [isNextGo, Prod.mk.injEq] at h; obtain ⟨-, rfl⟩ := h; exact hc
  | cons e es ih =>
    simp only [isNextGo] at h
    split at h
    · exact ih c.nextOrStay (Nat.le_trans (nextOrStay_left c) hc) h
    · simp only [Prod.mk.injEq] at h; obtain ⟨-, rfl⟩ := h; exact Nat.le_refl _

theorem isNext_left (s : Str) (c : Cursor) (b : Bool) (c' : Cursor) (h : c.isNext s = (b, c')) : c'.left ≤ c.left :=
  isNextGo_left s c c b c' (Nat.le_refl _) h

theorem isNextGo_false (s : Str) (c0 c c' : Cursor) (h : isNextGo s c0 c = (false, c')) : c' = c0 := by
  induction s generalizing c with
  | nil => simp [isNextGo] at h
  | cons e es ih =>
    simp only [isNextGo] at h
    split at h
    · exact ih _ h
    · simp only [Prod.mk.injEq] at h; exact h.2.symm

/-- a failed `IsNext` leaves the cursor where it was -/
theorem isNext_false (s : Str) (c c' : Cursor) (h : c.isNext s = (false, c')) : c' = c :=
  isNextGo_false s c c c' h

theorem isNext_true_cur (e : Char) (es : Str) (c c' : Cursor) (h : c.isNext (e :: es) = (true, c')) : c.cur = e := by
  simp only [isNext, isNextGo] at h
  split at h
  · assumption
  · simp at h

/-- a successful `IsNext` of a non-empty literal has moved forward, unless the cursor stood on the last rune -/
theorem isNext_true_lt (e : Char) (es : Str) (c c' : Cursor) (hr : c.rest ≠ []) (h : c.isNext (e :: es) = (true, c')) :
    c'.left < c.left := by
  simp only [isNext, isNextGo] at h
  split at h
  · have h1 := nextOrStay_left_lt c hr
    have h2 := isNextGo_left es c c.nextOrStay true c' (Nat.le_of_lt h1) h
    -- sharper: the remaining comparison starts from the advanced cursor
    have h3 : c'.left ≤ c.nextOrStay.left := by
      clear h2
      generalize c.nextOrStay = d at h h1
      induction es generalizing d with
      | nil => simp only [isNextGo, Prod.mk.injEq] at h; obtain ⟨-, rfl⟩ := h; exact Nat.le_refl _
      | cons a as ih =>
        simp only [isNextGo] at h
        split at h
        · exact Nat.le_trans (ih d.nextOrStay h (Nat.lt_of_le_of_lt (nextOrStay_left d) h1)) (nextOrStay_left d)
        · simp at h
    omega
  · simp at h

/-- on the last rune, a literal that is found consists of that rune only -/
theorem isNextGo_true_at_end (s : Str) (c0 c c' : Cursor) (hr : c.rest = []) (h : isNextGo s c0 c = (true, c')) :
    c' = c ∧ ∀ e ∈ s, e = c.cur := by
  induction s with
  | nil => simp only [isNextGo, Prod.mk.injEq] at h; exact ⟨h.2.symm, by simp⟩
  | cons e es ih =>
    simp only [isNextGo] at h
    split at h
    · rename_i he
      rw [nextOrStay_of_rest_nil c hr] at h
      obtain ⟨h1, h2⟩ := ih h
      exact ⟨h1, by intro x hx; rcases List.mem_cons.mp hx with rfl | hx; exact he.symm; exact h2 x hx⟩
    · simp at h

end Cursor

open Cursor

/-! ### parseParam and the parameter loop -/

theorem parseParamType_left (name : Str) (isOpt : Bool) (bit : Nat) (c : Cursor) (p : Param) (c' : Cursor)
    (h : parseParamType name isOpt bit c = .ok p c') : c'.left ≤ c.left := by
  simp only [parseParamType] at h
  cases hn : c.isNext kwVector with
  | mk b c1 =>
    have h1 := isNext_left _ _ _ _ hn
    rw [hn] at h
    cases b with
    | true =>
      simp only [if_true] at h
      cases hr : (c1.skip 1).readAt '>' with
      | none => rw [hr] at h; cases h
      | some r =>
        obtain ⟨ty, c3⟩ := r
        rw [hr] at h
        simp only [Res.ok.injEq] at h
        obtain ⟨-, rfl⟩ := h
        have h2 := skip_left 1 c1
        have h3 := (readAt_left _ _ _ _ hr).1
        have h4 := skip_left 1 c3
        omega
    | false =>
      simp only [Bool.false_eq_true, if_false] at h
      cases hr : c1.readAt ' ' with
      | none => rw [hr] at h; cases h
      | some r =>
        obtain ⟨ty, c3⟩ := r
        rw [hr] at h
        simp only [Res.ok.injEq] at h
        obtain ⟨-, rfl⟩ := h
        have h3 := (readAt_left _ _ _ _ hr).1
        omega

/-- on the last rune, and that rune not a blank, the type of a parameter cannot be read -/
theorem parseParamType_at_end (name : Str) (isOpt : Bool) (bit : Nat) (c : Cursor) (hr : c.rest = [])
    (hb : c.cur ≠ ' ') (p : Param) (c' : Cursor) : parseParamType name isOpt bit c ≠ .ok p c' := by
  intro h
  simp only [parseParamType] at h
  cases hn : c.isNext kwVector with
  | mk b c1 =>
    rw [hn] at h
    cases b with
    | true =>
      obtain ⟨-, hall⟩ := isNextGo_true_at_end kwVector c c c1 hr hn
      have h1 := hall 'V' (by decide)
      have h2 := hall 'e' (by decide)
      rw [← h2] at h1
      exact absurd h1 (by decide)
    | false =>
      have := isNext_false _ _ _ hn
      subst this
      simp only [Bool.false_eq_true, if_false] at h
      have hnone : c1.readAt ' ' = none := by
        cases c1 with | mk rev cur rest =>
        simp only at hr hb
        subst hr
        simp [readAt, readAtGo, hb]
      rw [hnone] at h
      cases h

/-- a parameter that is read has moved the cursor forward -/
theorem parseParam_left (c : Cursor) (p : Param) (c' : Cursor) (h : parseParam c = .ok p c') : c'.left < c.left := by
  simp only [parseParam] at h
  have h0 := skipSpaces_left c
  cases hr : c.skipSpaces.readAt ':' with
  | none => rw [hr] at h; cases h
  | some r =>
    obtain ⟨name, c2⟩ := r
    rw [hr] at h
    simp only at h
    obtain ⟨h2, h2c⟩ := readAt_left _ _ _ _ hr
    by_cases hrest : c2.rest = []
    · -- the colon is the last rune: nothing can follow
      exfalso
      rw [skip_of_rest_nil 1 c2 hrest] at h
      have hf : c2.isNext kwFlags = (false, c2) := by
        cases hn : c2.isNext kwFlags with
        | mk b c3 =>
          cases b with
          | true =>
            have := isNext_true_cur 'f' _ c2 c3 hn
            rw [h2c] at this; exact absurd this (by decide)
          | false => rw [isNext_false _ _ _ hn]
      rw [hf] at h
      simp only [Bool.false_eq_true, if_false] at h
      exact parseParamType_at_end name false 0 c2 hrest (by rw [h2c]; decide) p c' h
    · have h3 : (c2.skip 1).left < c2.left := skip_succ_left_lt 0 c2 hrest
      cases hn : (c2.skip 1).isNext kwFlags with
      | mk b c4 =>
        have h4 := isNext_left _ _ _ _ hn
        rw [hn] at h
        cases b with
        | false =>
          simp only [Bool.false_eq_true, if_false] at h
          have h5 := parseParamType_left _ _ _ _ _ _ h
          omega
        | true =>
          simp only [if_true] at h
          cases hd : c4.readDigits with
          | none => rw [hd] at h; cases h
          | some r =>
            obtain ⟨digits, c5⟩ := r
            rw [hd] at h
            simp only at h
            have h5 := readDigits_left _ _ _ hd
            cases ha : atoi? digits with
            | none => rw [ha] at h; cases h
            | some bit =>
              rw [ha] at h
              simp only at h
              cases hq : c5.isNext kwQuestion with
              | mk q c6 =>
                have h6 := isNext_left _ _ _ _ hq
                rw [hq] at h
                cases q with
                | false => simp at h
                | true =>
                  simp only [if_true] at h
                  have h7 := parseParamType_left _ _ _ _ _ _ h
                  omega

/-- the loop `for !cur.IsNext("=")`: it never runs out of fuel, and it does not move backwards -/
theorem parseParams_spec (fuel : Nat) (c : Cursor) (acc : List Param) (hf : c.left + 1 < fuel) :
    parseParams fuel c acc ≠ .err .loop ∧ ∀ ps c', parseParams fuel c acc = .ok ps c' → c'.left ≤ c.left := by
  induction fuel generalizing c acc with
  | zero => omega
  | succ fuel ih =>
    simp only [parseParams]
    cases hn : c.isNext kwEq with
    | mk b c1 =>
      have h1 := isNext_left _ _ _ _ hn
      cases b with
      | true =>
        simp only [if_true]
        refine ⟨by simp, ?_⟩
        intro ps c' h
        simp only [Res.ok.injEq] at h
        obtain ⟨-, rfl⟩ := h
        exact h1
      | false =>
        have := isNext_false _ _ _ hn
        subst this
        simp only [Bool.false_eq_true, if_false]
        cases hp : parseParam c1 with
        | eof => simp
        | err e =>
          simp only
          -- parseParam itself never answers `loop`
          refine ⟨?_, by simp⟩
          intro he
          simp only [Res.err.injEq] at he
          subst he
          simp only [parseParam] at hp
          revert hp
          split
          · simp
          · split
            · split
              · simp
              · split
                · simp
                · split
                  · simp only [parseParamType]
                    split <;> split <;> simp
                  · simp
            · simp only [parseParamType]
              split <;> split <;> simp
        | ok p c2 =>
          simp only
          have h2 := parseParam_left _ _ _ hp
          have h3 := skipSpaces_left c2
          have := ih c2.skipSpaces
            ((if p.name = kwFlagsWord ∧ p.type = kwHash then { p with type := kwBitflags } else p) :: acc)
            (by omega)
          refine ⟨this.1, ?_⟩
          intro ps c' h
          have := this.2 ps c' h
          omega

/-! ### parseDefinition -/

theorem parseResult_left (c : Cursor) (t : Str) (v : Bool) (c' : Cursor) (h : parseResult c = some (t, v, c')) :
    c'.left ≤ c.left := by
  simp only [parseResult] at h
  cases hn : c.isNext kwVector with
  | mk b c1 =>
    have h1 := isNext_left _ _ _ _ hn
    rw [hn] at h
    cases b with
    | true =>
      simp only [if_true] at h
      cases hr : (c1.skip 1).readAt '>' with
      | none => rw [hr] at h; cases h
      | some r =>
        obtain ⟨ty, c3⟩ := r
        rw [hr] at h
        simp only [Option.some.injEq, Prod.mk.injEq] at h
        obtain ⟨-, -, rfl⟩ := h
        have h2 := skip_left 1 c1
        have h3 := (readAt_left _ _ _ _ hr).1
        have h4 := skip_left 2 c3
        omega
    | false =>
      simp only [Bool.false_eq_true, if_false] at h
      cases hr : c1.readAt ';' with
      | none => rw [hr] at h; cases h
      | some r =>
        obtain ⟨ty, c3⟩ := r
        rw [hr] at h
        simp only [Option.some.injEq, Prod.mk.injEq] at h
        obtain ⟨-, -, rfl⟩ := h
        have h3 := (readAt_left _ _ _ _ hr).1
        have h4 := skip_left 1 c3
        omega

theorem excludedTypes_ne_nil (w : Str) (h : excludedTypes.contains w = true) : w ≠ [] := by
  intro e; subst e; exact absurd h (by decide)

theorem excludedDefinitions_ne_nil (w : Str) (h : excludedDefinitions.contains w = true) : w ≠ [] := by
  intro e; subst e; exact absurd h (by decide)

/-- `parseDefinition` never answers `loop`, and when it hands the cursor back (a definition, or an
excluded one) the cursor has moved forward -/
theorem parseDefinition_spec (c : Cursor) :
    parseDefinition c ≠ .err .loop ∧
    (∀ d c', parseDefinition c = .ok d c' → c'.left < c.left) ∧
    (∀ c', parseDefinition c = .excluded c' → c'.left < c.left) := by
  have h0 := skipSpaces_left c
  simp only [parseDefinition]
  cases hr : c.skipSpaces.readAt ' ' with
  | none => simp
  | some r =>
    obtain ⟨word, c2⟩ := r
    simp only
    obtain ⟨h2, -⟩ := readAt_left _ _ _ _ hr
    cases hex : excludedTypes.contains word with
    | true =>
      simp only [if_true]
      have hne := excludedTypes_ne_nil word hex
      have hlen : 0 < word.length := List.length_pos_iff.mpr hne
      cases hr2 : c2.readAt ';' with
      | none => simp
      | some r2 =>
        obtain ⟨w2, c3⟩ := r2
        simp only
        refine ⟨by simp, by simp, ?_⟩
        intro c' h
        simp only [DefRes.excluded.injEq] at h
        subst h
        have h3 := (readAt_left _ _ _ _ hr2).1
        have h4 := skip_left 1 c3
        omega
    | false =>
      simp only [Bool.false_eq_true, if_false]
      rw [unread_readAt _ _ _ _ hr]
      cases hr3 : c.skipSpaces.readAt '#' with
      | none => simp
      | some r3 =>
        obtain ⟨name, c4⟩ := r3
        simp only
        obtain ⟨h4, h4c⟩ := readAt_left _ _ _ _ hr3
        cases hexd : excludedDefinitions.contains name with
        | true =>
          simp only [if_true]
          have hne := excludedDefinitions_ne_nil name hexd
          have hlen : 0 < name.length := List.length_pos_iff.mpr hne
          cases hr5 : c4.readAt ';' with
          | none => simp
          | some r5 =>
            obtain ⟨w5, c5⟩ := r5
            simp only
            refine ⟨by simp, by simp, ?_⟩
            intro c' h
            simp only [DefRes.excluded.injEq] at h
            subst h
            have h5 := (readAt_left _ _ _ _ hr5).1
            have h6 := skip_left 1 c5
            omega
        | false =>
          simp only [Bool.false_eq_true, if_false]
          cases hr6 : (c4.skip 1).readAt ' ' with
          | none => simp
          | some r6 =>
            obtain ⟨crcString, c6⟩ := r6
            simp only
            have h6 := (readAt_left _ _ _ _ hr6).1
            have h7 := skipSpaces_left c6
            have hps := parseParams_spec (c6.skipSpaces.rest.length + 2) c6.skipSpaces [] (by simp [left])
            cases hpp : parseParams (c6.skipSpaces.rest.length + 2) c6.skipSpaces [] with
            | eof => simp
            | err e =>
              simp only
              refine ⟨?_, by simp, by simp⟩
              intro he
              simp only [DefRes.err.injEq] at he
              subst he
              exact hps.1 hpp
            | ok params c7 =>
              simp only
              have h8 := hps.2 params c7 hpp
              have h9 := skipSpaces_left c7
              cases hres : parseResult c7.skipSpaces with
              | none => simp
              | some r9 =>
                obtain ⟨eqType, isVec, c9⟩ := r9
                simp only
                have h10 := parseResult_left _ _ _ _ hres
                cases hcrc : parseHex32? crcString with
                | none => simp
                | some crc =>
                  simp only
                  refine ⟨by simp, ?_, by simp⟩
                  intro d c' h
                  simp only [DefRes.ok.injEq] at h
                  obtain ⟨-, rfl⟩ := h
                  -- the `#` has been passed: either something follows it, or nothing could be read behind it
                  by_cases hrest : c4.rest = []
                  · exfalso
                    rw [skip_of_rest_nil 1 c4 hrest] at hr6
                    have : c4.readAt ' ' = none := by
                      cases c4 with | mk rev cur rest =>
                      simp only at hrest h4c
                      subst hrest; subst h4c
                      simp [readAt, readAtGo]
                    rw [this] at hr6; cases hr6
                  · have h11 : (c4.skip 1).left < c4.left := skip_succ_left_lt 0 c4 hrest
                    omega

/-! ### the loop of ParseSchema -/

/-- one iteration: it never answers `loop`, and if the loop goes on, the cursor has moved forward -/
theorem parseStep_spec (c : Cursor) (s : PState) :
    parseStep c s ≠ .inl (.error .loop) ∧ ∀ c' s', parseStep c s = .inr (c', s') → c'.left < c.left := by
  have h0 := skipSpaces_left c
  simp only [parseStep]
  cases hf : c.skipSpaces.isNext kwFunctions with
  | mk bf c1 =>
    cases bf with
    | true =>
      simp only [if_true]
      refine ⟨by simp, ?_⟩
      intro c' s' h
      simp only [Sum.inr.injEq, Prod.mk.injEq] at h
      obtain ⟨rfl, -⟩ := h
      by_cases hrest : c.skipSpaces.rest = []
      · exfalso
        obtain ⟨-, hall⟩ := isNextGo_true_at_end kwFunctions _ _ _ hrest hf
        have h1 := hall '-' (by decide)
        have h2 := hall 'f' (by decide)
        rw [← h2] at h1; exact absurd h1 (by decide)
      · have := isNext_true_lt '-' _ _ _ hrest (by rw [show kwFunctions = '-' :: _ from rfl] at hf; exact hf)
        omega
    | false =>
      have := isNext_false _ _ _ hf
      subst this
      simp only [Bool.false_eq_true, if_false]
      cases ht : c.skipSpaces.isNext kwTypes with
      | mk bt c2 =>
        cases bt with
        | true =>
          simp only [if_true]
          refine ⟨by simp, ?_⟩
          intro c' s' h
          simp only [Sum.inr.injEq, Prod.mk.injEq] at h
          obtain ⟨rfl, -⟩ := h
          by_cases hrest : c.skipSpaces.rest = []
          · exfalso
            obtain ⟨-, hall⟩ := isNextGo_true_at_end kwTypes _ _ _ hrest ht
            have h1 := hall '-' (by decide)
            have h2 := hall 't' (by decide)
            rw [← h2] at h1; exact absurd h1 (by decide)
          · have := isNext_true_lt '-' _ _ _ hrest (by rw [show kwTypes = '-' :: _ from rfl] at ht; exact ht)
            omega
        | false =>
          have := isNext_false _ _ _ ht
          subst this
          simp only [Bool.false_eq_true, if_false]
          cases hc : c.skipSpaces.isNext kwSlashes with
          | mk bc c3 =>
            cases bc with
            | true =>
              simp only [if_true]
              cases hr : c3.readAt '\n' with
              | none => simp
              | some r =>
                obtain ⟨line, c4⟩ := r
                simp only
                refine ⟨by simp, ?_⟩
                intro c' s' h
                simp only [Sum.inr.injEq, Prod.mk.injEq] at h
                obtain ⟨rfl, -⟩ := h
                have h4 := (readAt_left _ _ _ _ hr).1
                have h5 := skip_left 1 c4
                by_cases hrest : c.skipSpaces.rest = []
                · exfalso
                  obtain ⟨he, -⟩ := isNextGo_true_at_end kwSlashes _ _ _ hrest hc
                  subst he
                  have hcur := isNext_true_cur '/' _ _ _ (by rw [show kwSlashes = '/' :: _ from rfl] at hc; exact hc)
                  have : c.skipSpaces.readAt '\n' = none := by
                    generalize c.skipSpaces = d at hrest hcur
                    cases d with | mk rev cur rest =>
                    simp only at hrest hcur
                    subst hrest; subst hcur
                    simp [readAt, readAtGo]
                  rw [this] at hr; cases hr
                · have := isNext_true_lt '/' _ _ _ hrest (by rw [show kwSlashes = '/' :: _ from rfl] at hc; exact hc)
                  omega
            | false =>
              have := isNext_false _ _ _ hc
              subst this
              simp only [Bool.false_eq_true, if_false]
              obtain ⟨hd1, hd2, hd3⟩ := parseDefinition_spec c.skipSpaces
              cases hd : parseDefinition c.skipSpaces with
              | eof => simp
              | err e =>
                simp only
                refine ⟨?_, by simp⟩
                intro he
                simp only [Sum.inl.injEq, Except.error.injEq] at he
                subst he
                exact hd1 hd
              | excluded c5 =>
                simp only
                refine ⟨by simp, ?_⟩
                intro c' s' h
                simp only [Sum.inr.injEq, Prod.mk.injEq] at h
                obtain ⟨rfl, -⟩ := h
                have := hd3 _ hd
                omega
              | ok d c5 =>
                simp only
                cases hdef : s.define d with
                | none => simp
                | some s1 =>
                  simp only
                  refine ⟨by simp, ?_⟩
                  intro c' s' h
                  simp only [Sum.inr.injEq, Prod.mk.injEq] at h
                  obtain ⟨rfl, -⟩ := h
                  have := hd2 _ _ hd
                  omega

theorem parseLoop_never_loops (fuel : Nat) (c : Cursor) (s : PState) (hf : c.left < fuel) :
    parseLoop fuel c s ≠ .error .loop := by
  induction fuel generalizing c s with
  | zero => omega
  | succ fuel ih =>
    obtain ⟨h1, h2⟩ := parseStep_spec c s
    simp only [parseLoop]
    cases hs : parseStep c s with
    | inl r =>
      simp only
      intro he; subst he; exact h1 hs
    | inr cs =>
      obtain ⟨c', s'⟩ := cs
      simp only
      have := h2 c' s' hs
      exact ih c' s' (by omega)

/-- **Termination.** The repaired parser terminates on every input: the model never runs out of fuel. -/
theorem parseSchema_never_loops (src : Str) : parseSchema src ≠ .error .loop := by
  simp only [parseSchema]
  cases src with
  | nil => simp [Cursor.ofList]
  | cons x xs =>
    simp only [Cursor.ofList]
    exact parseLoop_never_loops _ _ _ (by simp [left]; omega)

end Mtv.Tlgen
