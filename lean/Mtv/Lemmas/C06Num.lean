/-
  Helper lemmas for C06/C07: the executable square-and-multiply equals `b ^ e % m`, the
  Diffie-Hellman identity, fixed-width conversions.
-/
import Mtv.Handshake.Num
import Mtv.Lemmas.C05Wrap
namespace Mtv.Handshake
open Mtv Mtv.Ige

theorem powModAux_eq (m : Nat) : ∀ (fuel b e : Nat), e ≤ fuel → powModAux m fuel b e = b ^ e % m
  | 0, b, e, h => by
    have : e = 0 := by omega
    subst this; simp [powModAux]
  | fuel + 1, b, e, h => by
    unfold powModAux
    by_cases he : e = 0
    · subst he; simp
    · simp only [he, if_false]
      have ih := powModAux_eq m fuel (b * b % m) (e / 2) (by omega)
      rw [ih, ← Nat.pow_mod]
      have hsplit : b ^ e = (b * b) ^ (e / 2) * b ^ (e % 2) := by
        have : e = 2 * (e / 2) + e % 2 := by omega
        conv => lhs; rw [this]
        rw [Nat.pow_add, Nat.pow_mul, Nat.pow_two]
      by_cases hodd : e % 2 = 1
      · simp only [hodd, if_true]
        rw [hsplit, hodd, Nat.pow_one, Nat.mul_comm ((b * b) ^ (e / 2)) b, Nat.mul_mod b, Nat.mod_mod,
          ← Nat.mul_mod]
      · have hev : e % 2 = 0 := by omega
        simp only [hev]
        rw [hsplit, hev, Nat.pow_zero, Nat.mul_one]
        simp

/-- the executable modular exponentiation is `b ^ e % m` -/
theorem powMod_eq (b e m : Nat) : powMod b e m = b ^ e % m :=
  powModAux_eq m e b e (Nat.le_refl e)

theorem powMod_lt (b e m : Nat) (hm : 0 < m) : powMod b e m < m := by
  rw [powMod_eq]; exact Nat.mod_lt _ hm

/-- the Diffie-Hellman core: both sides reach `g^(a·b) mod P` -/
theorem dh_agree (g a b P : Nat) :
    powMod (powMod g a P) b P = g ^ (a * b) % P ∧ powMod (powMod g b P) a P = g ^ (a * b) % P := by
  simp only [powMod_eq]
  constructor
  · rw [← Nat.pow_mod, ← Nat.pow_mul]
  · rw [← Nat.pow_mod, ← Nat.pow_mul, Nat.mul_comm]

theorem fromBE_lt (bs : Bytes) : fromBE bs < 256 ^ bs.length := by
  have := fromLE_lt bs.reverse
  simpa [fromBE] using this

theorem beBytes_fromBE (bs : Bytes) : beBytes (fromBE bs) bs.length = bs := by
  have := leBytes_fromLE bs.reverse
  simp only [List.length_reverse] at this
  simp [beBytes, fromBE, this]

theorem beBytes_fromBE' (bs : Bytes) (k : Nat) (h : bs.length = k) : beBytes (fromBE bs) k = bs := by
  subst h; exact beBytes_fromBE bs

theorem bigIntBytes_fromBE (bs : Bytes) (k : Nat) (h : bs.length = k) : bigIntBytes (fromBE bs) k = .ok bs := by
  subst h
  simp [bigIntBytes, fromBE_lt, beBytes_fromBE]

theorem bigIntBytes_ok (x w : Nat) (h : x < 256 ^ w) : bigIntBytes x w = .ok (beBytes x w) := by
  simp [bigIntBytes, h]

end Mtv.Handshake
