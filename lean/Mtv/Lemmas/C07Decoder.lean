/-
  Helper for C06/C07: an invariant of the TL decoder model. Every `*tl.Int128` / `*tl.Int256` the
  decoder produces was read from exactly 16 / 32 raw bytes, so its value fits its width — the
  reason why `dry.BigIntBytes` of a decoded server_nonce or new_nonce_hash1 cannot panic.
  All six mutually recursive decoder functions at once, by induction on the fuel (the shape of
  `Mtv.TL.decoder_safe`).
-/
import Mtv.TL.Decode
import Mtv.Lemmas.TLRoundTripMain
import Mtv.Lemmas.C06Num
namespace Mtv.TL
open Mtv

mutual
/-- every 128/256-bit integer inside the value fits its width and every string / byte string read
by `PopMessage` is shorter than 2^24 bytes (members of a message container, which the decoder builds
with id 0 and a raw body of any length, are exempt) -/
def BigOK : Val → Prop
  | .big w n => n < 256 ^ w
  | .str bs => bs.length < 2 ^ 24
  | .bytes _ bs => bs.length < 2 ^ 24
  | .vec _ items => BigOKL items
  | .obj id fs => id = 0 ∨ BigOKL fs
  | _ => True
def BigOKL : List Val → Prop
  | [] => True
  | v :: vs => BigOK v ∧ BigOKL vs
end

theorem readN_length {n : Nat} {bs m r : Bytes} (h : readN n bs = .ok (m, r)) : m.length = n := by
  unfold readN at h
  split at h
  · cases h
  · split at h
    · cases h
    · cases h; simp; omega

theorem popRaw_length {size : Int} {bs m r : Bytes} (h : popRaw size bs = .ok (m, r)) :
    m.length = size.toNat := by
  unfold popRaw at h
  split at h
  · cases h
  · split at h
    · cases h
    · split at h
      · rename_i h0
        cases h
        simp [h0]
      · exact readN_length h

theorem popMessage_length {bs m r : Bytes} (h : popMessage bs = .ok (m, r)) : m.length < 2 ^ 24 := by
  unfold popMessage at h
  cases h1 : readN 1 bs with
  | err e => simp [h1] at h
  | panic s => simp [h1] at h
  | ok p1 =>
    obtain ⟨hd, r1⟩ := p1
    simp only [h1] at h
    have hl1 := readN_length h1
    by_cases hfe : hd = [0xfe]
    · simp only [hfe, if_true] at h
      cases h3 : readN 3 r1 with
      | err e => simp [h3] at h
      | panic s => simp [h3] at h
      | ok p3 =>
        obtain ⟨l, r2⟩ := p3
        simp only [h3] at h
        have hl3 := readN_length h3
        have hb : fromLE l < 2 ^ 24 := by
          have := fromLE_lt l
          rw [hl3] at this
          exact this
        split at h
        · cases h
        · cases h4 : readN (fromLE l) r2 with
          | err e => simp [h4] at h
          | panic s => simp [h4] at h
          | ok p4 =>
            obtain ⟨buf, r3⟩ := p4
            have hl4 := readN_length h4
            simp only [h4] at h
            have hm : m = buf := by
              split at h
              · cases h; rfl
              · split at h
                · cases h
                · cases h
                · split at h
                  · cases h; rfl
                  · cases h
            rw [hm, hl4]; exact hb
    · simp only [hfe, if_false] at h
      have hb : fromLE hd < 2 ^ 24 := by
        have := fromLE_lt hd
        rw [hl1] at this
        omega
      split at h
      · cases h
      · cases h4 : readN (fromLE hd) r1 with
        | err e => simp [h4] at h
        | panic s => simp [h4] at h
        | ok p4 =>
          obtain ⟨buf, r3⟩ := p4
          have hl4 := readN_length h4
          simp only [h4] at h
          have hm : m = buf := by
            split at h
            · cases h; rfl
            · split at h
              · cases h
              · cases h
              · split at h
                · cases h; rfl
                · cases h
          rw [hm, hl4]; exact hb

theorem decMembers_bigok : ∀ (n : Nat) (bs : Bytes) (ms : List Val) (r : Bytes),
    decMembers n bs = .ok (ms, r) → BigOKL ms
  | 0, bs, ms, r, h => by simp [decMembers] at h; obtain ⟨rfl, _⟩ := h; trivial
  | n + 1, bs, ms, r, h => by
    simp only [decMembers] at h
    cases h1 : popLong bs with
    | err e => simp [h1] at h
    | panic s => simp [h1] at h
    | ok p1 =>
      obtain ⟨mid, r1⟩ := p1
      simp only [h1] at h
      cases h2 : popUint r1 with
      | err e => simp [h2] at h
      | panic s => simp [h2] at h
      | ok p2 =>
        obtain ⟨seq, r2⟩ := p2
        simp only [h2] at h
        cases h3 : popUint r2 with
        | err e => simp [h3] at h
        | panic s => simp [h3] at h
        | ok p3 =>
          obtain ⟨size, r3⟩ := p3
          simp only [h3] at h
          cases h4 : popRaw (toSigned 32 size) r3 with
          | err e => simp [h4] at h
          | panic s => simp [h4] at h
          | ok p4 =>
            obtain ⟨body, r4⟩ := p4
            simp only [h4] at h
            cases h5 : decMembers n r4 with
            | err e => simp [h5] at h
            | panic s => simp [h5] at h
            | ok p5 =>
              obtain ⟨ms', r5⟩ := p5
              simp only [h5, Outcome.ok.injEq, Prod.mk.injEq] at h
              obtain ⟨rfl, _⟩ := h
              exact ⟨by simp [BigOK, BigOKL], decMembers_bigok n _ _ _ h5⟩

theorem zeroOf_bigok (ty : Ty) : BigOK (zeroOf ty) := by cases ty <;> simp [zeroOf, BigOK, BigOKL]

/-- the property holds of the value of a successful result -/
def Good {α : Type} (P : α → Prop) (r : DRes α) : Prop :=
  match r with
  | .ok (a, _, _) => P a
  | _ => True

theorem decoder_bigok (R : Registry) (gz : Bytes → Option Bytes) : ∀ (fuel : Nat),
    (∀ dp ty bs hs, Good BigOK (decVal R gz dp fuel ty bs hs)) ∧
    (∀ dp e bs hs, Good BigOK (decVecBody R gz dp fuel e bs hs)) ∧
    (∀ dp e n bs hs, Good BigOKL (decItems R gz dp fuel e n bs hs)) ∧
    (∀ dp d bs hs, Good BigOK (decStruct R gz dp fuel d bs hs)) ∧
    (∀ dp k w fs bs hs, Good BigOKL (decFields R gz dp fuel k w fs bs hs)) ∧
    (∀ dp bs hs, Good BigOK (decRegistered R gz dp fuel bs hs))
  | 0 => by
    refine ⟨?_, ?_, ?_, ?_, ?_, ?_⟩
    · intro dp ty bs hs; simp [decVal, Good]
    · intro dp e bs hs; simp [decVecBody, Good]
    · intro dp e n bs hs; cases n <;> simp [decItems, Good, BigOKL]
    · intro dp d bs hs; simp [decStruct, Good]
    · intro dp k w fs bs hs; cases fs <;> simp [decFields, Good, BigOKL]
    · intro dp bs hs; simp [decRegistered, Good]
  | fuel + 1 => by
    obtain ⟨ihVal, ihVec, ihItems, ihStruct, ihFields, ihReg⟩ := decoder_bigok R gz fuel
    refine ⟨?_, ?_, ?_, ?_, ?_, ?_⟩
    · -- decVal
      intro dp ty bs hs
      cases ty with
      | int32 => simp only [decVal]; split <;> simp [Good, BigOK]
      | uint32 => simp only [decVal]; split <;> simp [Good, BigOK]
      | enum nm => simp only [decVal]; split <;> simp [Good, BigOK]
      | int64 => simp only [decVal]; split <;> simp [Good, BigOK]
      | f64 => simp only [decVal]; split <;> simp [Good, BigOK]
      | bool => simp only [decVal]; split <;> simp [Good, BigOK]
      | str =>
        simp only [decVal]
        cases h : popMessage bs with
        | err _ => simp [Good]
        | panic _ => simp [Good]
        | ok p => obtain ⟨m, r⟩ := p; exact popMessage_length h
      | bytes =>
        simp only [decVal]
        cases h : popMessage bs with
        | err _ => simp [Good]
        | panic _ => simp [Good]
        | ok p => obtain ⟨m, r⟩ := p; exact popMessage_length h
      | i128 =>
        simp only [decVal]
        cases h : popRaw 16 bs with
        | err _ => simp [Good]
        | panic _ => simp [Good]
        | ok p =>
          obtain ⟨m, r⟩ := p
          have := popRaw_length h
          have h2 := Mtv.Handshake.fromBE_lt m
          rw [this] at h2
          exact h2
      | i256 =>
        simp only [decVal]
        cases h : popRaw 32 bs with
        | err _ => simp [Good]
        | panic _ => simp [Good]
        | ok p =>
          obtain ⟨m, r⟩ := p
          have := popRaw_length h
          have h2 := Mtv.Handshake.fromBE_lt m
          rw [this] at h2
          exact h2
      | bad w => simp [decVal, Good]
      | vec e =>
        simp only [decVal]
        cases h : popUint bs with
        | err _ => simp [Good]
        | panic _ => simp [Good]
        | ok p =>
          obtain ⟨crc, r⟩ := p
          simp only
          split
          · simp [Good]
          · exact ihVec dp _ _ _
      | ptr id =>
        simp only [decVal]
        cases R.find id with
        | none => simp [Good]
        | some d =>
          simp only
          cases d.kind with
          | struct =>
            simp only
            cases h : popUint bs with
            | err _ => simp [Good]
            | panic _ => simp [Good]
            | ok p =>
              obtain ⟨crc, r⟩ := p
              simp only
              split
              · simp [Good]
              · exact ihStruct dp _ _ _
          | enum => simp [Good]
          | container => simp [Good]
          | gzip => simp [Good]
      | iface nm =>
        simp only [decVal]
        have := ihReg dp bs hs
        cases h : decRegistered R gz dp fuel bs hs with
        | err _ => simp [Good]
        | panic _ => simp [Good]
        | ok p =>
          obtain ⟨v, r, hs'⟩ := p
          rw [h] at this
          simp only
          split
          · exact this
          · simp [Good]
    · -- decVecBody
      intro dp e bs hs
      simp only [decVecBody]
      cases h : popUint bs with
      | err _ => simp [Good]
      | panic _ => simp [Good]
      | ok p =>
        obtain ⟨n, r⟩ := p
        simp only
        split
        · simp [Good]
        · have := ihItems dp e n r hs
          cases h2 : decItems R gz dp fuel e n r hs with
          | err _ => simp [Good]
          | panic _ => simp [Good]
          | ok q =>
            obtain ⟨items, r', hs'⟩ := q
            rw [h2] at this
            simpa [Good, BigOK] using this
    · -- decItems
      intro dp e n bs hs
      cases n with
      | zero => simp [decItems, Good, BigOKL]
      | succ n =>
        simp only [decItems]
        have h1 := ihVal dp e bs hs
        cases hv : decVal R gz dp fuel e bs hs with
        | err _ => simp [Good]
        | panic _ => simp [Good]
        | ok p =>
          obtain ⟨v, r, hs'⟩ := p
          rw [hv] at h1
          simp only
          have h2 := ihItems dp e n r hs'
          cases hi : decItems R gz dp fuel e n r hs' with
          | err _ => simp [Good]
          | panic _ => simp [Good]
          | ok q =>
            obtain ⟨vs, r', hs''⟩ := q
            rw [hi] at h2
            exact ⟨h1, h2⟩
    · -- decStruct
      intro dp d bs hs
      simp only [decStruct]
      split
      · simp [Good]
      · have := ihFields dp d.flagIndex 0 d.fields bs hs
        cases h : decFields R gz dp fuel d.flagIndex 0 d.fields bs hs with
        | err _ => simp [Good]
        | panic _ => simp [Good]
        | ok q =>
          obtain ⟨fs, r, hs'⟩ := q
          rw [h] at this
          exact Or.inr this
    · -- decFields
      intro dp k w fs bs hs
      cases fs with
      | nil => simp [decFields, Good, BigOKL]
      | cons f fs =>
        simp only [decFields]
        generalize (if k = some 0 then popUint bs else Outcome.ok (w, bs)) = x
        cases x with
        | err _ => simp [Good]
        | panic _ => simp [Good]
        | ok p =>
          obtain ⟨w', r0⟩ := p
          simp only
          have tailOK : ∀ (bs' : Bytes) (hs' : List Ty) (pre : Val), BigOK pre →
              Good BigOKL (match decFields R gz dp fuel (nextK k) w' fs bs' hs' with
                | .ok (vs, r, hs'') => (Outcome.ok (pre :: vs, r, hs'') : DRes (List Val))
                | .err er => .err er
                | .panic s => .panic s) := by
            intro bs' hs' pre hpre
            have := ihFields dp (nextK k) w' fs bs' hs'
            cases h2 : decFields R gz dp fuel (nextK k) w' fs bs' hs' with
            | err _ => simp [Good]
            | panic _ => simp [Good]
            | ok q => obtain ⟨vs, r', hs''⟩ := q; rw [h2] at this; exact ⟨hpre, this⟩
          have valCase : Good BigOKL (match decVal R gz dp fuel f.ty r0 hs with
              | .err er => (Outcome.err er : DRes (List Val))
              | .panic s => .panic s
              | .ok (v, r, hs') =>
                match decFields R gz dp fuel (nextK k) w' fs r hs' with
                | .ok (vs, r', hs'') => .ok (v :: vs, r', hs'')
                | .err er => .err er
                | .panic s => .panic s) := by
            have h1 := ihVal dp f.ty r0 hs
            cases hv : decVal R gz dp fuel f.ty r0 hs with
            | err _ => simp [Good]
            | panic _ => simp [Good]
            | ok p =>
              obtain ⟨v, r, hs'⟩ := p
              rw [hv] at h1
              exact tailOK r hs' v h1
          cases hfl : f.flag with
          | none =>
            simp only [Bool.false_eq_true, if_false]
            exact valCase
          | some fl =>
            simp only
            by_cases h1 : decide (w' / 2 ^ fl.bit % 2 = 0) = true
            · simp only [h1, if_true]
              exact tailOK r0 hs _ (zeroOf_bigok _)
            · simp only [h1]
              by_cases h2 : fl.inBits = true
              · simp only [h2, if_true]
                exact tailOK r0 hs _ (by simp [BigOK])
              · simp only [h2]
                exact valCase
    · -- decRegistered
      intro dp bs hs
      simp only [decRegistered]
      cases h : popUint bs with
      | err _ => simp [Good]
      | panic _ => simp [Good]
      | ok p =>
        obtain ⟨crc, r⟩ := p
        simp only
        split
        · cases hs with
          | nil => simp [Good]
          | cons h0 hs' =>
            cases h0 with
            | vec e => exact ihVec dp e r hs'
            | _ => simp [Good]
        · split
          · simp [Good, BigOK, BigOKL]
          · cases R.find crc with
            | none => simp [Good]
            | some d =>
              simp only
              cases d.kind with
              | enum => simp [Good, BigOK, BigOKL]
              | struct => exact ihStruct dp d r hs
              | container =>
                simp only
                cases h2 : popUint r with
                | err _ => simp [Good]
                | panic _ => simp [Good]
                | ok q =>
                  obtain ⟨cnt, r1⟩ := q
                  simp only
                  cases h3 : decMembers (toSigned 32 cnt).toNat r1 with
                  | err _ => simp [Good]
                  | panic _ => simp [Good]
                  | ok q2 =>
                    obtain ⟨ms, r2⟩ := q2
                    have := decMembers_bigok _ _ _ _ h3
                    exact Or.inr (by simpa [BigOK, BigOKL] using this)
              | gzip =>
                simp only
                cases h2 : popMessage r with
                | err _ => simp [Good]
                | panic _ => simp [Good]
                | ok q =>
                  obtain ⟨packed, r1⟩ := q
                  simp only
                  cases gz packed with
                  | none => simp [Good]
                  | some plain =>
                    simp only
                    split
                    · simp [Good]
                    · have := ihReg (dp + 1) plain hs
                      cases h3 : decRegistered R gz (dp + 1) fuel plain hs with
                      | err _ => simp [Good]
                      | panic _ => simp [Good]
                      | ok q2 =>
                        obtain ⟨inner, _, _⟩ := q2
                        rw [h3] at this
                        exact Or.inr (by simpa [Good, BigOK, BigOKL] using this)

/-- every value `tl.DecodeUnknownObject` returns has its 128/256-bit integers within their width -/
theorem decodeUnknown_bigok (R : Registry) (gz : Bytes → Option Bytes) (fuel : Nat) (hints : List Ty)
    (bs : Bytes) (v : Val) (h : decodeUnknown R gz fuel hints bs = .ok v) : BigOK v := by
  unfold decodeUnknown at h
  have := (decoder_bigok R gz fuel).2.2.2.2.2 0 bs hints
  cases h2 : decRegistered R gz 0 fuel bs hints with
  | err _ => simp [h2] at h
  | panic _ => simp [h2] at h
  | ok q =>
    obtain ⟨v', r, hs⟩ := q
    simp only [h2, Outcome.ok.injEq] at h
    subst h
    rw [h2] at this
    exact this

end Mtv.TL
