/-
  C16: frames of the TRANSPORT level that are no sealed message, sent to a client that works under its auth key.

  What the code does with the payload `data` of one frame (internal/transport/transport.go ReadMsg, mtproto.go readMsg,
  internal/mtproto/messages DeserializeEncrypted / DeserializeUnencrypted), read off at 06faf80:

    len = 4                          → ErrCode (int32, little endian) → readMsg: *ErrResponseCode → the loop warns, reads on
    len < 8  or  first 8 bytes = 0   → the plain-text path: DeserializeUnencrypted fails (below 20 bytes there is no
                                       msg_id + length: "Wrong bits of message_id" / size mismatch) or yields an
                                       Unencrypted message, which a keyed client refuses
                                       ("unencrypted message in an encrypted session") → the loop warns, reads on
    first 8 bytes ≠ the key id       → "wrong encryption key" → the loop warns, reads on
    key id right, len < 24           → no room for msg_key: the decoder's error / "decrypting message" → warns, reads on
    key id right, len ≥ 24           → `sealed`: the envelope layer decides (C04; event `recv` when it accepts)

  Every verdict but `sealed` is one warning and nothing else: no state of the client is touched (`frameStep`).
  The lifecycle model gets the event through `JEv.frame`: enabled while a reader reads a usable transport.
-/
import Mtv.Client.Lifecycle
namespace Mtv.Client.Frame
open Mtv Mtv.Client Mtv.Client.Life

inductive Verdict where
  | code (n : Int)       -- the four-byte error code of the transport
  | plainRefused         -- goes down the plain-text path: undecodable or refused by a keyed client
  | wrongKey             -- another auth_key_id than the session's
  | tooShort             -- the session's auth_key_id, no room for a msg_key
  | sealed               -- the session's auth_key_id, a msg_key and data: the envelope layer's business
  deriving Repr, DecidableEq, Inhabited

/-- what a keyed client (key id `kid`, eight bytes, not zero) makes of a frame payload -/
def classify (kid : Bytes) (data : Bytes) : Verdict :=
  if data.length = 4 then .code (toSigned 32 (fromLE data))
  else if data.length < 8 ∨ fromLE (data.take 8) = 0 then .plainRefused
  else if data.take 8 ≠ kid then .wrongKey
  else if data.length < 24 then .tooShort
  else .sealed

/-- a frame that is no sealed message -/
def junk (kid data : Bytes) : Bool := classify kid data != .sealed

/-- the receive loop on such a frame: `m.warnError(err)`, next read -/
def frameStep (s : St) : St := warnStep s

/-- events of the lifecycle model plus: the reader reads a frame that is no sealed message -/
inductive JEv where
  | frame (data : Bytes)
  | life (e : LEv)
  deriving Repr, Inhabited

def stepJ (s : LSt) : JEv → Option LSt
  | .frame _ => if reading s then some { s with m := frameStep s.m } else none
  | .life e => Life.step s e

def runJ (s : LSt) : List JEv → Option LSt
  | [] => some s
  | e :: es =>
    match stepJ s e with
    | some s' => runJ s' es
    | none => none

/-- the same history with every such frame replaced by a plain-text frame (which the machine already knows) -/
def erase : JEv → LEv
  | .frame _ => .mach (.plain 0 .quiet)
  | .life e => e

end Mtv.Client.Frame
