/-
  The connection lifecycle with `Reconnect` SERIALISED (pending_fixes/C17-reconnect-serialised.patch): the repaired
  mtproto.go takes `m.connMutex` in `CreateConnection`, `Disconnect` and `Reconnect` and holds it until the dial has
  succeeded or failed; the reading routine reconnects through `reconnectAfterHangup(ctx)`, which — under the lock —
  does nothing when the context of the connection it was reading is already cancelled.

  In the vocabulary of Lifecycle.lean (which is not changed): the lock is held exactly while a `CreateConnection` is
  dialling (`inflight ≠ []`). Events that take the lock — `appReconnect`, `appDisconnect`, and the reading routine's
  own reconnect after `connClosed` / `connBroken` — are enabled only when it is free. A reading routine that lost its
  connection while somebody else held the lock finds its context cancelled afterwards: that is `readerExit`, as
  before. `lose` (check of the context + `beginReconnect`) is one step under the lock — with the lock that is what
  the code does, no longer a granularity assumption.

  Everything else is `step` of Lifecycle.lean: the serialised client's histories are histories of the model
  (`stepS_refines`), so every theorem of Props/C16Life.lean holds for them.
-/
import Mtv.Client.Lifecycle
namespace Mtv.Client.Life
open Mtv.Client

/-- does the event take `connMutex`? -/
def takesLock : LEv → Bool
  | .appReconnect => true
  | .appDisconnect => true
  | .connClosed => true
  | .connBroken => true
  | _ => false

/-- `connMutex` is free: no `CreateConnection` is between its start and the outcome of its dial -/
def lockFree (s : LSt) : Bool := s.inflight.isEmpty

/-- one step of the repaired client -/
def stepS (s : LSt) (e : LEv) : Option LSt :=
  if takesLock e && !lockFree s then none else step s e

def runS (s : LSt) : List LEv → Option LSt
  | [] => some s
  | e :: es =>
    match stepS s e with
    | some s' => runS s' es
    | none => none

/-- the client is where it should be after a migration: reading on a usable transport, exactly one reading routine
whose context is alive, nothing dialling -/
def settled (s : LSt) : Bool := reading s && (activeReaders s).length == 1 && s.inflight.isEmpty && writable s

/-- PHONE_MIGRATE_X answered together with a hang-up: the two orders in which the reading routine (`connClosed`) and
the caller's goroutine (`appReconnect`) can take the lock, each followed by the exits of the routines whose context
was cancelled. Contexts are numbered in the order they are made. -/
def migrateWithHangupOrders : List (List LEv) :=
  [ -- the reading routine first: it reconnects (context 2), then the caller replaces that connection (context 3)
    [.connClosed, .redialOk 2 0, .appReconnect, .readerExit 2, .redialOk 3 0],
    -- the caller first (context 2): the reading routine of context 1 finds its context cancelled and ends
    [.appReconnect, .redialOk 2 0, .readerExit 1] ]

/-- what the serialised model says about them: every order ends settled, with as many connections made as
`dials` says -/
def migrateWithHangupSettles : Bool :=
  migrateWithHangupOrders.all fun es =>
    match runS (connected0 {} true 7) es with
    | some s => settled s
    | none => false

end Mtv.Client.Life
