/-
  The client's RPC machinery at GOROUTINE granularity (shared by C09, C10, C11, C16): any number of
  calling goroutines (makeRequest / sendPacket) and the receive loop (readMsg / processResponse /
  dispatchResponse / writeRPCResponse), each with a program counter, over the shared fields of
  `MTProto`. One event = ONE atomic action of ONE goroutine; `step : ISt → IEv → Option ISt`, `none` =
  not enabled (the goroutine is blocked, or it is not at that statement).

  What one micro-step is. A micro-step is a maximal piece of one goroutine's code that touches the state
  shared with other goroutines at most once (local computation — TL encoding/decoding, the type switch,
  allocating a channel — is merged into the neighbouring shared access; this is the usual reduction and
  loses no interleaving). Statements under `seqNoMutex` that touch only fields nobody reads without the
  mutex (`lastMsgID`, `seqNo`) are merged with the neighbouring access that IS visible to others (the map
  `Add`, the write): see `cIdReg`, `cWrite`.

  callers, in the order of network.go sendPacket / mtproto.go makeRequest:
    cLock c        m.seqNoMutex.Lock()                              (enabled only when the mutex is free)
    cIdReg c now   msgID := GenerateMessageId(); bump; m.lastMsgID = msgID; resp := make(chan);
                   m.responseChannels.Add(msgID, resp)
    cWrite c ok    m.transport.WriteMsg: ok → on the wire with seqNo|1 and the current salt, seqNo += 2;
                   !ok → responseChannels.Delete(msgID), the call returns an error
    cUnlock c      the deferred m.seqNoMutex.Unlock()
    cRecv c        response := <-resp : a RENDEZVOUS with the loop blocked in `v <- …` on exactly this channel
  the loop, in the order of mtproto.go processResponse / dispatchResponse, network.go writeRPCResponse:
    lRead mid seq m   transport.ReadMsg returns (the server may send ANY message at any time)
    lStep now ok      the next micro-step of the message(s) being processed, see `loopStep`/`dispatch`

  A channel is identified by the (caller, msg_id) it was made for: every sendPacket makes a fresh
  unbuffered channel and a fresh msg_id, so this is the same as (caller, attempt number).
  Core-only, executable, total.
-/
import Mtv.Client.Machine
import Mtv.Client.MsgId
namespace Mtv.Impl
open Mtv.Client

/-- what travels over a response channel: a value the call returns (an rpc_result's object, an rpc_error,
the error of a bad_msg_notification — the latter as the string "badmsg", as in the event-level machine),
or the retry marker `errorSessionConfigsChanged` -/
inductive Val where
  | ret (v : String)
  | retry
  deriving DecidableEq, Repr, Inhabited

/-- program counter of a calling goroutine -/
inductive CPc where
  | idle                          -- no call in progress (never called, or the last call returned)
  | again                         -- received the retry marker: makeRequest calls itself, wants the mutex
  | locked (r : Bool)             -- holds seqNoMutex, before GenerateMessageId (r: this is a repeated request)
  | reg (id : Nat) (r : Bool)     -- msg_id taken, channel registered; before WriteMsg
  | written (id : Nat)            -- written, seqNo advanced; before the deferred Unlock
  | failed                        -- WriteMsg failed, entries deleted; before the deferred Unlock
  | wait (id : Nat)               -- at `<-resp`
  deriving DecidableEq, Repr, Inhabited

inductive Owner where
  | free
  | caller (c : Nat)
  | loop
  deriving DecidableEq, Repr, Inhabited

/-- the micro-steps the loop still has to run for the message it is handling -/
inductive Op where
  | sendVal (id c : Nat) (v : Val)   -- `v <- data`: BLOCKS until caller c receives on the channel made for id
  | delete (id : Nat)                -- responseChannels.Delete(id); expectedTypes.Delete(id)
  | store                            -- SaveSession (the store may refuse)
  | lookupSalt (bad : Nat)           -- bad_server_salt: responseChannels.Get(badMsgID)
  | ackIf (mid seq : Nat)            -- processResponse's tail: if seq_no is odd, MakeRequest(msgs_ack{mid})
  | ackLock (mid : Nat)              -- … seqNoMutex.Lock()
  | ackId (mid : Nat)                -- … GenerateMessageId; bump; lastMsgID (nullable request: nothing registered)
  | ackWrite (mid id : Nat)          -- … WriteMsg (even seq_no); seqNo += 2
  | ackUnlock                        -- … deferred Unlock
  deriving Repr, Inhabited

/-- what the loop still has to look at: messages not yet dispatched, and the ends of the containers it is inside -/
inductive Item where
  | msg (mid seq : Nat) (m : Msg)
  | endc (mid seq : Nat)             -- end of a container: `defer containerDepth--`, then the container's own ack
  deriving Repr, Inhabited

structure ISt where
  owner : Owner := .free                   -- seqNoMutex
  lastMsgID : Nat := 0
  seqNo : Nat := 0
  salt : Int := 0                          -- serverSalt
  chans : List (Nat × Nat) := []           -- responseChannels: msg_id ↦ the channel caller c made for it
  depth : Nat := 0                         -- containerDepth
  cs : Nat → CPc := fun _ => .idle         -- the calling goroutines
  cur : List Op := []                      -- the loop: rest of the message being handled
  todo : List Item := []                   -- the loop: rest of the enclosing containers
  wire : List (Nat × Nat × Int) := []      -- (msg_id, seq_no, salt) of every message written, newest first
  stored : List Int := []                  -- salts written to the session store, newest first
  warnings : Nat := 0

inductive IEv where
  | cLock (c : Nat)
  | cIdReg (c now : Nat)
  | cWrite (c : Nat) (ok : Bool)
  | cUnlock (c : Nat)
  | cRecv (c : Nat)
  | lRead (mid seq : Nat) (m : Msg)
  | lStep (now : Nat) (ok : Bool)   -- `now`: the clock, used by the ack's GenerateMessageId; `ok`: whether the write / the store succeeds
  deriving Repr, Inhabited

/-- seq_no | 1 for an even counter (serializePacket, content-related message) -/
def orOne (n : Nat) : Nat := if n % 2 = 0 then n + 1 else n

/-- makeRequest's switch on what came over the channel: the retry marker → the call repeats itself; anything else → it returns -/
def afterRecv : Val → CPc
  | .ret _ => .idle
  | .retry => .again

def setC (s : ISt) (c : Nat) (p : CPc) : ISt := { s with cs := fun x => if x = c then p else s.cs x }

def toItems (ms : List (Nat × Nat × Msg)) : List Item := ms.map fun e => .msg e.1 e.2.1 e.2.2

/-- the loop takes the next item: decode, the type switch of dispatchResponse, and the FIRST shared access of
the chosen case (the map `Get`, or the assignment of the salt); the rest of the case goes to `cur`.
The order of the pushed micro-steps is the order of the Go statements:
  rpc_result (writeRPCResponse):  Get → `v <- data` → Delete
  bad_server_salt:                salt → SaveSession → Get → Delete → `v <- retry`
  bad_msg_notification:           Get → Delete → `v <- err`
A warning is counted at the step that detects its cause. -/
def dispatch (s : ISt) : Item → ISt
  | .endc mid seq => { s with depth := s.depth - 1, cur := [.ackIf mid seq] }
  | .msg mid seq m =>
    match m with
    | .res rid v =>
      match lookupPending s.chans rid with
      | some c => { s with cur := [.sendVal rid c (.ret v), .delete rid, .ackIf mid seq] }
      | none => { s with warnings := s.warnings + 1, cur := [.ackIf mid seq] }
    | .salt bad ns => { s with salt := ns, cur := [.store, .lookupSalt bad, .ackIf mid seq] }
    | .news ns => { s with salt := ns, cur := [.store, .ackIf mid seq] }
    | .badmsg bad =>
      match lookupPending s.chans bad with
      | some c => { s with cur := [.delete bad, .sendVal bad c (.ret "badmsg"), .ackIf mid seq] }
      | none => { s with warnings := s.warnings + 1, cur := [.ackIf mid seq] }
    | .quiet => { s with cur := [.ackIf mid seq] }
    | .odd => { s with warnings := s.warnings + 1, cur := [.ackIf mid seq] }
    | .cont ms =>
      if s.depth < maxContainerDepth then
        { s with depth := s.depth + 1, todo := toItems ms ++ .endc mid seq :: s.todo }
      else { s with warnings := s.warnings + 1, cur := [.ackIf mid seq] }

/-- one micro-step of the loop (`none`: blocked, or at its read point) -/
def loopStep (s : ISt) (now : Nat) (ok : Bool) : Option ISt :=
  match s.cur with
  | [] =>
    match s.todo with
    | [] => none                                     -- at the read point: only `lRead` is possible
    | it :: rest => some (dispatch { s with todo := rest } it)
  | .sendVal _ _ _ :: _ => none                      -- blocked until the caller receives (`cRecv`)
  | .delete id :: k => some { s with chans := erasePending s.chans id, cur := k }
  | .store :: k =>
    if ok then some { s with stored := s.salt :: s.stored, cur := k }
    else some { s with warnings := s.warnings + 1, cur := k }
  | .lookupSalt bad :: k =>
    match lookupPending s.chans bad with
    | some c => some { s with cur := .delete bad :: .sendVal bad c .retry :: k }
    | none => some { s with cur := k }
  | .ackIf mid seq :: k =>
    if seq % 2 = 1 then some { s with cur := .ackLock mid :: k } else some { s with cur := k }
  | .ackLock mid :: k =>
    if s.owner = .free then some { s with owner := .loop, cur := .ackId mid :: k } else none
  | .ackId mid :: k =>
    let id := nextId s.lastMsgID now
    some { s with lastMsgID := id, cur := .ackWrite mid id :: k }
  | .ackWrite _ id :: k =>
    if ok then some { s with wire := (id, s.seqNo, s.salt) :: s.wire, seqNo := s.seqNo + 2, cur := .ackUnlock :: k }
    else some { s with warnings := s.warnings + 1, cur := .ackUnlock :: k }
  | .ackUnlock :: k => some { s with owner := .free, cur := k }

def step (s : ISt) : IEv → Option ISt
  | .cLock c =>
    if s.owner = .free then
      match s.cs c with
      | .idle => some { setC s c (.locked false) with owner := .caller c }
      | .again => some { setC s c (.locked true) with owner := .caller c }
      | _ => none
    else none
  | .cIdReg c now =>
    match s.cs c with
    | .locked r =>
      let id := nextId s.lastMsgID now
      some { setC s c (.reg id r) with lastMsgID := id, chans := (id, c) :: s.chans }
    | _ => none
  | .cWrite c ok =>
    match s.cs c with
    | .reg id _ =>
      if ok then
        some { setC s c (.written id) with wire := (id, orOne s.seqNo, s.salt) :: s.wire, seqNo := s.seqNo + 2 }
      else some { setC s c .failed with chans := erasePending s.chans id }
    | _ => none
  | .cUnlock c =>
    match s.cs c with
    | .written id => some { setC s c (.wait id) with owner := .free }
    | .failed => some { setC s c .idle with owner := .free }
    | _ => none
  | .cRecv c =>
    match s.cs c, s.cur with
    | .wait id, .sendVal id' c' v :: k =>
      if id' = id ∧ c' = c then
        some { setC s c (afterRecv v) with cur := k }
      else none
    | _, _ => none
  | .lRead mid seq m =>
    match s.cur, s.todo with
    | [], [] => some { s with todo := [.msg mid seq m] }
    | _, _ => none
  | .lStep now ok => loopStep s now ok

def run (s : ISt) : List IEv → Option ISt
  | [] => some s
  | e :: es =>
    match step s e with
    | some s' => run s' es
    | none => none

/-! ## the specification events an implementation step stands for -/

/-- the event of the event-level machine (Mtv/Client/Machine.lean) that an implementation step IS, seen from
outside; `[]` = a step no observer sees (it stutters). A container is seen as the sequence of its members
(`Mtv.Client.flat`), the container's own acknowledgement being owed when its end is reached; a container
nested too deep is refused like an unknown message. -/
def evOf (s : ISt) : IEv → List Ev
  | .cWrite c true =>
    match s.cs c with
    | .reg id _ => [.send c id (orOne s.seqNo) s.salt]
    | _ => []
  | .cRecv c =>
    match s.cur with
    | .sendVal _ _ (.ret v) :: _ => [.deliver c v]
    | _ => []
  | .lStep _ ok =>
    match s.cur with
    | [] =>
      match s.todo with
      | .msg mid seq (.cont _) :: _ => if s.depth < maxContainerDepth then [] else [.recv mid seq .odd]
      | .msg mid seq m :: _ => [.recv mid seq m]
      | .endc mid seq :: _ => [.recv mid seq .quiet]
      | [] => []
    | .store :: _ => if ok then [.store s.salt] else [.storeLost s.salt]
    | .ackWrite mid id :: _ => if ok then [.ack id s.seqNo [mid]] else [.ackLost [mid]]
    | _ => []
  | _ => []

/-- the projected trace of a run -/
def project (s : ISt) : List IEv → List Ev
  | [] => []
  | e :: es =>
    match step s e with
    | some s' => evOf s e ++ project s' es
    | none => []

/-! ## causality: which msg_ids a server can know -/

mutual
/-- the request msg_ids a server message names (req_msg_id of rpc_result, bad_msg_id of bad_server_salt and
bad_msg_notification), through any nesting of containers -/
def msgIds : Msg → List Nat
  | .res rid _ => [rid]
  | .salt bad _ => [bad]
  | .badmsg bad => [bad]
  | .news _ => []
  | .quiet => []
  | .odd => []
  | .cont ms => membersIds ms
def membersIds : List (Nat × Nat × Msg) → List Nat
  | [] => []
  | (_, _, m) :: rest => msgIds m ++ membersIds rest
end

def regOf : CPc → Option Nat
  | .reg id _ => some id
  | _ => none

/-- the msg_id of the request a caller has written and not yet got an answer for -/
def flightOf : CPc → Option Nat
  | .written id => some id
  | .wait id => some id
  | _ => none

/-- a msg_id some caller may still put on the wire: a multiple of four that is larger than every id generated
so far, or that is registered and not yet written. A server that names such an id has GUESSED it (it
has never been on the wire). -/
def Unwritten (s : ISt) (id : Nat) : Prop :=
  id % 4 = 0 ∧ (s.lastMsgID < id ∨ ∃ c, regOf (s.cs c) = some id)

/-- the causality assumption on one step: a message read from the server names no msg_id that has not been
written yet (ids that were written, ids that never existed and never will are all allowed) -/
def CausalEv (s : ISt) : IEv → Prop
  | .lRead _ _ m => ∀ id ∈ msgIds m, ¬ Unwritten s id
  | _ => True

def CausalRun : ISt → List IEv → Prop
  | _, [] => True
  | s, e :: es => CausalEv s e ∧ ∀ s', step s e = some s' → CausalRun s' es

/-- a computable sufficient condition for `CausalEv` in reachable states (there a registered, unwritten id is
the newest id and its caller holds the mutex): every named id is no multiple of four, or older than the
newest id, or the newest id while no caller holds the mutex -/
def causalB (s : ISt) : IEv → Bool
  | .lRead _ _ m => (msgIds m).all fun id =>
      id % 4 != 0 || decide (id < s.lastMsgID) || (id == s.lastMsgID && (s.owner == .free || s.owner == .loop))
  | _ => true

def causalRunB : ISt → List IEv → Bool
  | _, [] => true
  | s, e :: es =>
    causalB s e &&
      match step s e with
      | some s' => causalRunB s' es
      | none => true

/-! ## what "blocked" means -/

/-- the loop is blocked in a channel send -/
def loopBlockedOn (s : ISt) : Option (Nat × Nat) :=
  match s.cur with
  | .sendVal id c _ :: _ => some (id, c)
  | _ => none

/-- the loop is at its read point, waiting for the server -/
def loopAtRead (s : ISt) : Bool := s.cur.isEmpty && s.todo.isEmpty

/-! ## the source the micro-step programs above were written against

The ordered statement skeleton of network.go `sendPacket`, `writeRPCResponse` and mtproto.go `makeRequest`,
`processResponse`, `dispatchResponse` (as printed by harness/cmd/c09facts from the working tree). The programs
of this file mirror it:
  sendPacket        lock → genid, bump, lastMsgID, add (`cIdReg`) → write (`cWrite`; on error: delete; else seqNo += 2)
                    → deferred unlock (`cUnlock`)
  makeRequest       sendPacket → chan recv (`cRecv`) → the retry marker repeats the call (`afterRecv`)
  writeRPCResponse  get → chan send → delete                  (`dispatch` .res: [sendVal, delete])
  BadServerSalt     salt → SaveSession → get → delete → send  (`dispatch` .salt: [store, lookupSalt]; `loopStep` .lookupSalt: [delete, sendVal])
  BadMsgNotification get → delete → send                      (`dispatch` .badmsg: [delete, sendVal])
  NewSessionCreated salt → SaveSession                        (`dispatch` .news: [store])
  processResponse   dispatch, THEN the acknowledgement        (every program ends in `ackIf`)
  MessageContainer  depth check, depth++, deferred depth--, members in order (`dispatch` .cont, `Item.endc`)
Props/ClientImpl.lean `impl_matches_source` proves that the skeleton regenerated from the working tree on every
check equals this one: moving a statement (the id generation out of the lock, a send before a delete) breaks it. -/
def sourceSkeleton : List (String × List String) := [
  ("sendPacket", [
    "[err != nil] return nil, errors.Wrap(..)",
    "lock seqNoMutex",
    "defer unlock seqNoMutex",
    "genid",
    "[msgID <= m.lastMsgID] set msgID = m.lastMsgID + 4",
    "set m.lastMsgID = msgID",
    "[len(expectedTypes) > 0] add expectedTypes",
    "call getRespChannel",
    "[isNullableResponse(request)] go chan send",
    "[not (isNullableResponse(request))] [!m.serviceModeActivated] add responseChannels",
    "write",
    "[err != nil] delete responseChannels",
    "[err != nil] delete expectedTypes",
    "[err != nil] return nil, errors.Wrap(..)",
    "[m.encrypted] set m.seqNo += 2",
    "return resp, nil"
  ]),
  ("writeRPCResponse", [
    "get responseChannels",
    "[!ok] return errs.NotFound(..)",
    "chan send",
    "delete responseChannels",
    "delete expectedTypes",
    "return nil"
  ]),
  ("makeRequest", [
    "call sendPacket",
    "[err != nil] return nil, errors.Wrap(..)",
    "chan recv",
    "case *objects.RpcError",
    "[case *objects.RpcError] [m.serviceModeActivated] return nil, realErr",
    "[case *objects.RpcError] assert realErr.(*ErrResponseCode)",
    "[case *objects.RpcError] call tryToProcessErr",
    "[case *objects.RpcError] [err != nil] return nil, err",
    "[case *objects.RpcError] call makeRequest",
    "[case *objects.RpcError] return m.makeRequest(..)",
    "case *errorSessionConfigsChanged",
    "[case *errorSessionConfigsChanged] call makeRequest",
    "[case *errorSessionConfigsChanged] return m.makeRequest(..)",
    "case *BadMsgError",
    "[case *BadMsgError] return nil, r",
    "case *errorUndecodableResponse",
    "[case *errorUndecodableResponse] return nil, r",
    "unwrap",
    "return tl.UnwrapNativeTypes(..), nil"
  ]),
  ("processResponse", [
    "call expectedTypesFor",
    "[et := m.expectedTypesFor(msg.GetMsg()); len(et) > 0] decode",
    "[not (et := m.expectedTypesFor(msg.GetMsg()); len(et) > 0)] decode",
    "[not (err != nil)] call dispatchResponse",
    "[(msg.GetSeqNo() & 1) != 0] call MakeRequest &objects.MsgsAck",
    "return err"
  ]),
  ("dispatchResponse", [
    "label messageTypeSwitching",
    "case *objects.MessageContainer",
    "case *objects.BadServerSalt",
    "case *objects.NewSessionCreated",
    "case *objects.Pong, *objects.MsgsAck",
    "case *objects.BadMsgNotification",
    "case *objects.RpcResult",
    "case *objects.GzipPacked",
    "default",
    "return nil"
  ]),
  ("dispatchResponse/MessageContainer", [
    "[m.containerDepth >= maxContainerDepth] return errors.New(..)",
    "set m.containerDepth++",
    "defer set m.containerDepth--",
    "range *message",
    "[range *message] call processResponse",
    "[range *message] [err != nil] call warnError"
  ]),
  ("dispatchResponse/BadServerSalt", [
    "set m.serverSalt = message.NewSalt",
    "call SaveSession",
    "[err != nil] call warnError",
    "get responseChannels",
    "[v, ok := m.responseChannels.Get(badMsgID); ok] delete responseChannels",
    "[v, ok := m.responseChannels.Get(badMsgID); ok] delete expectedTypes",
    "[v, ok := m.responseChannels.Get(badMsgID); ok] chan send"
  ]),
  ("dispatchResponse/NewSessionCreated", [
    "set m.serverSalt = message.ServerSalt",
    "call SaveSession",
    "[err != nil] call warnError"
  ]),
  ("dispatchResponse/Pong, MsgsAck", []),
  ("dispatchResponse/BadMsgNotification", [
    "get responseChannels",
    "[!ok] return badMsgErr",
    "delete responseChannels",
    "delete expectedTypes",
    "chan send"
  ]),
  ("dispatchResponse/RpcResult", [
    "assert obj.(*objects.GzipPacked)",
    "call writeRPCResponse",
    "[err != nil] return errors.Wrap(..)"
  ]),
  ("dispatchResponse/GzipPacked", [
    "goto messageTypeSwitching"
  ]),
  ("dispatchResponse/default", [
    "range m.serverRequestHandlers",
    "[range m.serverRequestHandlers] [processed] break",
    "[!processed] call warnError"
  ])
]

end Mtv.Impl
