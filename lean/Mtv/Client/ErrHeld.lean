/-
  C17 — the error a caller holds is the caller's own value (session 9, after the seeded change C17-m16).

  `RpcErrorToNative` ends in `return &ErrResponseCode{…}`: a composite literal, i.e. a NEW cell for every call. The
  model of one conversion (`rpcErrorToNative`) is a function and cannot say that; this file models what a PROCESS
  sees: the cells behind the pointers that the conversions returned, in the order they were returned, each still
  held by its caller, who may also write into it. Core-only (the driver of C17 answers `c17.ident` / `c17.callers`
  from `heldAfter` / `returnedWith`).
-/
import Mtv.Client.Errors
namespace Mtv.Client

/-- one rpc_error reply of the server: code and text -/
abbrev Reply := Int × Bytes

/-- the conversion of one reply, on its own -/
def convert (r : Reply) : Outcome NativeErr := rpcErrorToNative r.1 r.2

/-- what happens in one process, in order: a reply is converted and its caller keeps the result, or the caller
holding the `i`-th result writes into the fields of ITS error -/
inductive Step where
  | reply (code : Int) (text : Bytes)
  | scribble (i : Nat) (e : NativeErr)

/-- `cells[i]` = what is now behind the pointer that the `i`-th conversion returned; `atReturn[i]` = what that
conversion's result was at the moment it was returned -/
structure Proc where
  cells : List (Outcome NativeErr) := []
  atReturn : List (Outcome NativeErr) := []

/-- one step: a conversion allocates (`&ErrResponseCode{…}`) — a new cell, no existing one is touched; a caller's
write goes to the one cell it holds -/
def Proc.step (p : Proc) : Step → Proc
  | .reply c t => ⟨p.cells ++ [rpcErrorToNative c t], p.atReturn ++ [rpcErrorToNative c t]⟩
  | .scribble i e => ⟨p.cells.set i (.ok e), p.atReturn⟩

def Proc.run (p : Proc) (ss : List Step) : Proc := ss.foldl Proc.step p

/-- the replies `rs` converted one after the other, every result held: what the callers hold at the END -/
def heldAfter (rs : List Reply) : List (Outcome NativeErr) :=
  (Proc.run {} (rs.map fun r => .reply r.1 r.2)).cells

/-- what every conversion of the history `ss` returned, at the moment it returned -/
def returnedWith (ss : List Step) : List (Outcome NativeErr) := (Proc.run {} ss).atReturn

/-- the replies of a history, in order -/
def repliesOf : List Step → List Reply
  | [] => []
  | .reply c t :: ss => (c, t) :: repliesOf ss
  | .scribble _ _ :: ss => repliesOf ss

/-- every reply followed by its caller writing `junk` into the error it got (`c17.ident mut`) -/
def scribbledHistory (junk : NativeErr) : Nat → List Reply → List Step
  | _, [] => []
  | i, r :: rs => .reply r.1 r.2 :: .scribble i junk :: scribbledHistory junk (i + 1) rs

/-- `(*ErrResponseCode).Error()`: `fmt.Sprintf("%s (code %d)", e.Description, e.Code)` -/
def NativeErr.errorText (e : NativeErr) : Bytes :=
  e.description ++ [32, 40, 99, 111, 100, 101, 32] ++ fmtInt e.code ++ [41]

/-! ### the other design: ready-made errors (seeded change C17-m16) -/

/-- code of the last reply of `rs` whose text is `name` -/
def lastCodeFor (rs : List Reply) (name : Bytes) (dflt : Int) : Int :=
  (((rs.filter fun r => r.2 == name).getLast?).map (·.1)).getD dflt

/-- the catalogued errors without a parameter built once and the server's code written into the ready-made value
on every reply: at the end every holder of such an error sees the code of the LAST reply with that text -/
def heldAfterShared (rs : List Reply) : List (Outcome NativeErr) :=
  rs.map fun r =>
    match convert r with
    | .ok e =>
      if e.param = .none ∧ (Gen.errorMessages.lookup e.message).isSome then
        .ok { e with code := lastCodeFor rs e.message e.code }
      else .ok e
    | o => o

end Mtv.Client
