/-
  The client's RPC machine (shared by C09, C10, C11, C16): a small-step model of what
  network.go (`sendPacket`), mtproto.go (`makeRequest`, `readMsg`, `processResponse`,
  `dispatchResponse`, `writeRPCResponse`) and mtproto_utils.go do with requests, results, salts and
  acknowledgements, at the granularity of the events an observer (the server, the callers, the
  session store) can see:

    send c id seq salt   a caller's request reaches the wire (msg_id taken, channel registered and the
                         message written under one lock — one atomic step)
    ack id seq ids       the receive loop's msgs_ack reaches the wire
    recv mid seq m       the receive loop processes a server message
    plain mid m          a PLAIN-TEXT frame (auth_key_id 0) arrives on the connection: the machine describes a
                         session that works under its auth key (`m.encrypted`; every trace is one of a resumed
                         session), where such a frame cannot come from the server — anybody on the path can
                         write one. `MTProto.readMsg` refuses it: a warning, nothing else, whatever it carries
    deliver c v          a call returns to its caller
    store s              the session is saved

  `step : St → Ev → Option St` — `none` means the event is not enabled: the implementation did
  something the model does not allow. Traces of the real client are replayed through `step` on every
  run (trace validation); the theorems of Props/C09–C11, C16 hold for every state reachable by `step`.
  History variables (`sent`, `results`, `delivered`, `acked`, `stored`) record what happened.
-/
import Mtv.Basic
namespace Mtv.Client

/-- server → client messages, as far as the RPC machinery distinguishes them -/
inductive Msg where
  | res (reqId : Nat) (v : String)          -- rpc_result (plain or gzip_packed) / rpc_error: value handed to the caller
  | salt (badId : Nat) (newSalt : Int)      -- bad_server_salt
  | news (salt : Int)                       -- new_session_created
  | badmsg (badId : Nat)                    -- bad_msg_notification
  | quiet                                   -- pong, msgs_ack, empty container: ignored
  | odd                                     -- anything else: unknown constructor, truncated body, update … (a warning)
  | cont (members : List (Nat × Nat × Msg)) -- msg_container: (msg_id, seq_no, message)
  deriving Repr, Inhabited

structure St where
  lastId : Nat := 0                         -- msg_id of the last message written
  lastSeq : Nat := 0                        -- seq_no of the last message written
  salt : Int := 0
  pending : List (Nat × Nat) := []          -- responseChannels: request msg_id ↦ caller
  owedDeliver : List (Nat × Nat × String) := []   -- (caller, request id, value) handed over, call not yet returned
  owedAck : List Nat := []                  -- content-related server messages not yet acknowledged
  owedResend : List Nat := []               -- callers told to repeat their request
  owedStore : List Int := []                -- salts to be saved
  -- history
  sent : List (Nat × Nat × Nat) := []       -- (msg_id, seq_no, caller) of every request written, newest first
  wire : List (Nat × Nat) := []             -- (msg_id, seq_no) of every message written (requests and acks), newest first
  results : List (Nat × String) := []       -- (req_msg_id, value) of every rpc_result received
  delivered : List (Nat × Nat × String) := [] -- (caller, request id, value) of every completed call
  rejected : List Nat := []                 -- request ids named by bad_server_salt while pending
  acked : List Nat := []
  gotOdd : List Nat := []                   -- msg_ids of content-related (odd seq_no) messages received
  stored : List Int := []                   -- salts written to the session store, newest first
  storeLog : List Int := []                 -- every salt handed to the store (written or refused), newest first
  failedStore : List Int := []              -- salts the store refused to write (an environment fault)
  lostAck : List Nat := []                  -- ids whose acknowledgement could not be written (an environment fault)
  adopted : List Int := []                  -- every salt adopted (bad_server_salt, new_session_created), oldest first
  warnings : Nat := 0
  deriving Repr, Inhabited

inductive Ev where
  | send (c id seq : Nat) (salt : Int)
  | ack (id seq : Nat) (ids : List Nat)
  | recv (mid seq : Nat) (m : Msg)
  | plain (mid : Nat) (m : Msg)             -- an unencrypted frame carrying `m` (keyed session: refused by `readMsg`)
  | deliver (c : Nat) (v : String)
  | store (s : Int)
  | ackLost (ids : List Nat)                -- environment fault: the write of the acknowledgement naming ids failed
  | storeLost (s : Int)                     -- environment fault: the session store refused to write this salt
  deriving Repr, Inhabited

def lookupPending (p : List (Nat × Nat)) (id : Nat) : Option Nat :=
  (p.find? fun e => e.1 == id).map (·.2)

def erasePending (p : List (Nat × Nat)) (id : Nat) : List (Nat × Nat) :=
  p.filter fun e => e.1 != id

/-- a caller may write a request when it has no call in progress, or was told to repeat its request -/
def mayCall (s : St) (c : Nat) : Bool :=
  s.owedResend.contains c ||
  (!(s.pending.any fun e => e.2 == c) && !(s.owedDeliver.any fun e => e.1 == c))

/-- rpc_result / rpc_error for request `rid`: handed to the caller that registered `rid`, whose
entry is removed; a warning when nobody waits for `rid` (unknown or already answered) -/
def resStep (s : St) (rid : Nat) (v : String) : St :=
  let s1 := { s with results := (rid, v) :: s.results }
  match lookupPending s.pending rid with
  | some c => { s1 with pending := erasePending s1.pending rid, owedDeliver := s1.owedDeliver ++ [(c, rid, v)] }
  | none => { s1 with warnings := s1.warnings + 1 }

/-- bad_server_salt: the salt is adopted and saved; only the request it names is repeated -/
def saltStep (s : St) (bad : Nat) (ns : Int) : St :=
  let s1 := { s with salt := ns, owedStore := s.owedStore ++ [ns], adopted := s.adopted ++ [ns] }
  match lookupPending s1.pending bad with
  | some c => { s1 with pending := erasePending s1.pending bad, owedResend := s1.owedResend ++ [c],
                        rejected := bad :: s1.rejected }
  | none => s1

/-- new_session_created: the salt is adopted and saved -/
def newsStep (s : St) (ns : Int) : St :=
  { s with salt := ns, owedStore := s.owedStore ++ [ns], adopted := s.adopted ++ [ns] }

/-- bad_msg_notification: the caller of the named request gets the error -/
def badStep (s : St) (bad : Nat) : St :=
  match lookupPending s.pending bad with
  | some c => { s with pending := erasePending s.pending bad, owedDeliver := s.owedDeliver ++ [(c, bad, "badmsg")] }
  | none => { s with warnings := s.warnings + 1 }

def warnStep (s : St) : St := { s with warnings := s.warnings + 1 }

/-- a content-related message (odd seq_no) is acknowledged whether or not it could be handled -/
def oweAck (s : St) (mid seq : Nat) : St :=
  if seq % 2 = 1 then { s with owedAck := s.owedAck ++ [mid], gotOdd := mid :: s.gotOdd } else s

/-- how deep `msg_container` may be nested before the message is refused (mtproto.go `maxContainerDepth`) -/
def maxContainerDepth : Nat := 4

mutual
/-- `processResponse` for one message, `d` containers deep: dispatch, then the acknowledgement owed for an
odd seq_no. A container nested deeper than `maxContainerDepth` is refused as a whole (one warning; its
members are never looked at). -/
def process (d : Nat) (s : St) (mid seq : Nat) : Msg → St
  | .res rid v => oweAck (resStep s rid v) mid seq
  | .salt bad ns => oweAck (saltStep s bad ns) mid seq
  | .news ns => oweAck (newsStep s ns) mid seq
  | .badmsg bad => oweAck (badStep s bad) mid seq
  | .quiet => oweAck s mid seq
  | .odd => oweAck (warnStep s) mid seq
  | .cont ms =>
    if d < maxContainerDepth then oweAck (processAll (d + 1) s ms) mid seq
    else oweAck (warnStep s) mid seq
def processAll (d : Nat) (s : St) : List (Nat × Nat × Msg) → St
  | [] => s
  | (mid, seq, m) :: rest => processAll d (process d s mid seq m) rest
end

mutual
/-- what every primitive step preserves, `process` preserves — for any message, any nesting -/
theorem process_preserves (P : St → Prop)
    (h1 : ∀ s rid v, P s → P (resStep s rid v)) (h2 : ∀ s bad ns, P s → P (saltStep s bad ns))
    (h3 : ∀ s ns, P s → P (newsStep s ns)) (h4 : ∀ s bad, P s → P (badStep s bad))
    (h5 : ∀ s, P s → P (warnStep s)) (h6 : ∀ s mid seq, P s → P (oweAck s mid seq)) :
    ∀ (m : Msg) (d : Nat) (s : St) (mid seq : Nat), P s → P (process d s mid seq m)
  | .res rid v, d, s, mid, seq, h => by simp only [process]; exact h6 _ _ _ (h1 _ _ _ h)
  | .salt bad ns, d, s, mid, seq, h => by simp only [process]; exact h6 _ _ _ (h2 _ _ _ h)
  | .news ns, d, s, mid, seq, h => by simp only [process]; exact h6 _ _ _ (h3 _ _ h)
  | .badmsg bad, d, s, mid, seq, h => by simp only [process]; exact h6 _ _ _ (h4 _ _ h)
  | .quiet, d, s, mid, seq, h => by simp only [process]; exact h6 _ _ _ h
  | .odd, d, s, mid, seq, h => by simp only [process]; exact h6 _ _ _ (h5 _ h)
  | .cont ms, d, s, mid, seq, h => by
    simp only [process]
    split
    · exact h6 _ _ _ (processAll_preserves P h1 h2 h3 h4 h5 h6 ms (d + 1) s h)
    · exact h6 _ _ _ (h5 _ h)
theorem processAll_preserves (P : St → Prop)
    (h1 : ∀ s rid v, P s → P (resStep s rid v)) (h2 : ∀ s bad ns, P s → P (saltStep s bad ns))
    (h3 : ∀ s ns, P s → P (newsStep s ns)) (h4 : ∀ s bad, P s → P (badStep s bad))
    (h5 : ∀ s, P s → P (warnStep s)) (h6 : ∀ s mid seq, P s → P (oweAck s mid seq)) :
    ∀ (ms : List (Nat × Nat × Msg)) (d : Nat) (s : St), P s → P (processAll d s ms)
  | [], d, s, h => by simpa [processAll] using h
  | (mid, seq, m) :: rest, d, s, h => by
    simp only [processAll]
    exact processAll_preserves P h1 h2 h3 h4 h5 h6 rest d _ (process_preserves P h1 h2 h3 h4 h5 h6 m d s mid seq h)
end

/-- strike one occurrence of every acknowledged id off the list of owed acknowledgements (a message
delivered twice is owed two acknowledgements: the client answers each delivery) -/
def strike (owed : List Nat) (ids : List Nat) : List Nat := ids.foldl (fun o i => o.erase i) owed

def step (s : St) : Ev → Option St
  | .send c id seq salt =>
    -- msg_id: a multiple of four, larger than everything written before; seq_no odd (content-related),
    -- not below the previous one; a repeated request carries the current salt
    if id % 4 = 0 ∧ s.lastId < id ∧ seq % 2 = 1 ∧ s.lastSeq ≤ seq ∧ mayCall s c ∧
       (s.owedResend.contains c → salt = s.salt) then
      some { s with lastId := id, lastSeq := seq, pending := (id, c) :: s.pending,
                    owedResend := s.owedResend.erase c,
                    sent := (id, seq, c) :: s.sent, wire := (id, seq) :: s.wire }
    else none
  | .ack id seq ids =>
    if id % 4 = 0 ∧ s.lastId < id ∧ seq % 2 = 0 ∧ s.lastSeq ≤ seq ∧ ids ≠ [] ∧ ids.all (fun i => s.owedAck.contains i) then
      some { s with lastId := id, lastSeq := seq, owedAck := strike s.owedAck ids,
                    acked := ids ++ s.acked, wire := (id, seq) :: s.wire }
    else none
  | .recv mid seq m => some (process 0 s mid seq m)
  -- `readMsg`: "unencrypted message in an encrypted session" — the receive loop reports the error and reads on.
  -- The content is never looked at: not decoded, not dispatched, not acknowledged
  | .plain _ _ => some (warnStep s)
  | .deliver c v =>
    match s.owedDeliver.find? (fun e => e.1 == c) with
    | some (c', rid, v') =>
      if v' = v then
        some { s with owedDeliver := s.owedDeliver.erase (c', rid, v'), delivered := (c, rid, v) :: s.delivered }
      else none
    | none => none
  | .store x =>
    match s.owedStore with
    | y :: rest => if x = y then some { s with owedStore := rest, stored := x :: s.stored, storeLog := x :: s.storeLog } else none
    | [] => none
  -- the two environment faults: the client did what it owed, the environment refused; the client gives the
  -- action up (it does not retry: nothing in the properties asks it to) and goes on
  | .ackLost ids =>
    if ids ≠ [] ∧ ids.all (fun i => s.owedAck.contains i) then
      some { s with owedAck := strike s.owedAck ids, lostAck := ids ++ s.lostAck }
    else none
  | .storeLost x =>
    match s.owedStore with
    | y :: rest => if x = y then some { s with owedStore := rest, storeLog := x :: s.storeLog, failedStore := x :: s.failedStore } else none
    | [] => none

def run (s : St) : List Ev → Option St
  | [] => some s
  | e :: es =>
    match step s e with
    | some s' => run s' es
    | none => none

/-- nothing is owed any more -/
def quiescent (s : St) : Bool :=
  s.owedDeliver.isEmpty && s.owedAck.isEmpty && s.owedResend.isEmpty && s.owedStore.isEmpty && s.pending.isEmpty

/-- the first event of a trace that is not enabled (for diagnostics) -/
def firstStuck (s : St) : List Ev → Nat → Option Nat
  | [], _ => none
  | e :: es, n =>
    match step s e with
    | some s' => firstStuck s' es (n + 1)
    | none => some n

end Mtv.Client
