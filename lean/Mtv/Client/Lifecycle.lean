/-
  The connection lifecycle of the client, around the RPC machine of Machine.lean (which is not changed):
  what mtproto.go `CreateConnection`, `connect`, `Disconnect`, `Reconnect`, `startReadingResponses`,
  `keyAfterHangup`, `startPinging`, network.go `sendPacket` and utils.go `CloseOnCancel` do NOW with
  connections, contexts and reader goroutines.

  What the code does (read off the source, commit 3d6b672):

  * `CreateConnection` makes a new context, stores its cancel function in `m.stopRoutines` (the previous one is
    overwritten), dials (`connect`, which assigns `m.transport` — to the NIL interface when the dial fails, since
    `NewTransport` returns `nil, err`), and only after a successful dial starts one reader goroutine and one pinger
    under that context. A session that holds a key runs no key exchange here (`!m.encrypted` is false).
  * `Disconnect` calls `m.stopRoutines()`: the context made LAST is cancelled; `CloseOnCancel` closes the transport
    made under it. Nothing else: the response channels stay registered ("TODO: close ALL CHANNELS").
  * `Reconnect` = `Disconnect` then `CreateConnection`.
  * the reader: `io.EOF` (orderly close) and `transport.ErrBroken` (read deadline of 65 s, reset, frame cut short;
    one warning) lead to `Reconnect()` on the reader's own goroutine when the session holds a key; the reader then
    finds its own context cancelled and returns — the reader started by `CreateConnection` takes over. When the
    dial fails the reader warns ("can't reconnect") and returns all the same: NOBODY retries; the client has no
    reader, no pinger and a nil transport until the application calls `Reconnect`/`CreateConnection` itself.
  * requests pending at the moment the connection is lost: their callers sit in `<-resp` (`makeRequest`); the
    entries stay in `responseChannels`; nothing fails them and nothing writes them again. They return when (if) the
    server answers the old msg_id on a later connection. In this model: the machine state `m` (with `pending`) is
    carried unchanged through every lifecycle event. msg_id / seq_no counters and the session id are not reset
    either.
  * a request issued while there is no usable transport: after `Disconnect` (or on a transport whose context was
    cancelled) the write fails and the call returns the write error; after a FAILED dial `m.transport` is nil and
    `sendPacket` dereferences it: a nil-pointer panic on the caller's goroutine (`DownOutcome.panicNilTransport`).

  * the keepalive: one pinger per successful dial, under the same context. Its `ping()` waits for an rpc_result a
    server never sends (a bare `pong` is ignored by `dispatchResponse`), so it stays parked after its first ping; a
    pinger whose ping is written after a failed redial meets the nil transport like any caller. Not modelled further.

  Granularity: `Disconnect` + the creation of the new context inside one `Reconnect` are ONE step (`beginReconnect`),
  the outcome of the dial is a later step (`redialOk` / `redialFailed`), so Reconnects of the reader and of the
  application (another goroutine: what the PHONE_MIGRATE path does) may overlap at event granularity. The fields
  `m.stopRoutines` and `m.transport` are written without a lock: interleavings INSIDE `beginReconnect` (two
  Disconnects, then two CreateConnections) are data races and are outside this model, as preemption inside a
  machine step is outside Machine.lean.

  Contexts are numbered 1, 2, 3 … in the order they are made.
-/
import Mtv.Client.Machine
namespace Mtv.Client.Life
open Mtv.Client

/-- what a request issued without a usable transport does -/
inductive DownOutcome where
  | writeError          -- `transport.WriteMsg` fails (closed connection): the call returns the error
  | panicNilTransport   -- `m.transport` is the nil interface (the last dial failed): nil-pointer panic in `sendPacket`
  deriving Repr, DecidableEq, Inhabited

structure LSt where
  m : St := {}                      -- the RPC machine: untouched by every connection event
  keyed : Bool := true              -- `m.encrypted`: the session holds an auth key
  keyId : Nat := 0                  -- auth_key_id of that key
  keyExchanges : Nat := 0           -- key exchanges run since the start (`makeAuthKey` inside CreateConnection)
  dials : Nat := 1                  -- TCP connections made (what a peer sees as new connections)
  dialAttempts : Nat := 1
  nextCtx : Nat := 1                -- contexts made so far
  cur : Nat := 1                    -- the context `m.stopRoutines` cancels
  cancelled : List Nat := []        -- contexts cancelled
  readers : List Nat := [1]         -- context of every reader goroutine that is in its loop
  inflight : List Nat := []         -- context of every CreateConnection that is dialling
  byReader : List Nat := []         -- contexts whose CreateConnection was called by a reader (history)
  transport : Option Nat := some 1  -- `m.transport`: none = nil interface, some c = made under context c (closed iff c cancelled)
  connWarnings : Nat := 0           -- warnings about connections: ErrBroken, "can't reconnect"
  failedDials : Nat := 0            -- history
  disconnects : Nat := 0            -- history: Disconnect() calls of the application
  overlaps : Nat := 0               -- history: Reconnects begun while another one was still dialling
  deriving Repr, Inhabited

inductive LEv where
  | mach (e : Ev)                    -- an event of the RPC machine
  | connClosed                       -- the reader read io.EOF: orderly close by the server
  | connBroken                       -- the reader got ErrBroken: read deadline, reset, cut frame (one warning)
  | redialOk (c : Nat) (newKey : Nat) -- the dial of the CreateConnection under context c succeeded (newKey: the key a key exchange would yield)
  | redialFailed (c : Nat)           -- … failed
  | appReconnect                     -- Reconnect() from another goroutine (application, PHONE_MIGRATE)
  | appDisconnect                    -- Disconnect() from another goroutine
  | readerExit (c : Nat)             -- a reader notices its cancelled context / closed transport and returns
  | callDown (caller : Nat) (o : DownOutcome) -- a request issued without a usable transport
  deriving Repr, Inhabited

/-- a write can succeed: there is a transport and the context it was made under is not cancelled -/
def writable (s : LSt) : Bool :=
  match s.transport with
  | some c => !s.cancelled.contains c
  | none => false

/-- messages are being read: the transport is usable and the reader made with it is in its loop -/
def reading (s : LSt) : Bool :=
  match s.transport with
  | some c => !s.cancelled.contains c && s.readers.contains c
  | none => false

/-- readers whose context is not cancelled: the goroutines that will read again -/
def activeReaders (s : LSt) : List Nat := s.readers.filter fun c => !s.cancelled.contains c

/-- `m.transport` was made under a context that is cancelled by now: it is closed (a read on it reports
`context.Canceled`, on which a reader returns whatever its own context says) -/
def transportClosed (s : LSt) : Bool :=
  match s.transport with
  | some t => s.cancelled.contains t
  | none => false

def downOutcome (s : LSt) : DownOutcome :=
  match s.transport with
  | some _ => .writeError
  | none => .panicNilTransport

/-- `Disconnect` + the head of `CreateConnection`: the current context is cancelled, a new one made and stored,
a dial started -/
def beginReconnect (s : LSt) (fromReader : Bool) : LSt :=
  { s with cancelled := s.cur :: s.cancelled, nextCtx := s.nextCtx + 1, cur := s.nextCtx + 1,
           inflight := (s.nextCtx + 1) :: s.inflight, dialAttempts := s.dialAttempts + 1,
           byReader := if fromReader then (s.nextCtx + 1) :: s.byReader else s.byReader,
           overlaps := if s.inflight.isEmpty then s.overlaps else s.overlaps + 1 }

/-- the reader of the current connection lost it (EOF or ErrBroken). With a key: it reconnects on its own
goroutine and will find its context cancelled. Without a key (`keyAfterHangup` = false): it just returns. -/
def lose (s : LSt) : LSt :=
  let s1 := { s with readers := s.readers.erase s.cur }
  if s.keyed then beginReconnect s1 true else s1

/-- a dial succeeded: `m.transport` is assigned, reader and pinger start under context c; no key ⇒ `makeAuthKey` -/
def dialled (s : LSt) (c k : Nat) : LSt :=
  { s with inflight := s.inflight.erase c, transport := some c, readers := c :: s.readers,
           dials := s.dials + 1,
           keyExchanges := if s.keyed then s.keyExchanges else s.keyExchanges + 1,
           keyId := if s.keyed then s.keyId else k, keyed := true }

/-- which machine events need what -/
def machEnabled (s : LSt) : Ev → Bool
  | .send .. => writable s
  | .ack .. => writable s
  | .recv .. => reading s
  | .plain .. => reading s
  | _ => true       -- a call returning, the session store, an acknowledgement that could not be written

def step (s : LSt) : LEv → Option LSt
  | .mach e =>
    if machEnabled s e then (Client.step s.m e).map fun m' => { s with m := m' } else none
  | .connClosed =>
    -- the reader of the current context reads the current transport
    if s.readers.contains s.cur ∧ !s.cancelled.contains s.cur ∧ s.transport = some s.cur then some (lose s) else none
  | .connBroken =>
    if s.readers.contains s.cur ∧ !s.cancelled.contains s.cur ∧ s.transport = some s.cur then
      some (lose { s with connWarnings := s.connWarnings + 1 })
    else none
  | .redialOk c k =>
    if s.inflight.contains c then
      -- `m.transport` is assigned, reader and pinger start under context c (if c was cancelled meanwhile the
      -- transport is closed at once and the reader returns: `readerExit`). No key ⇒ `makeAuthKey` runs
      some (dialled s c k)
    else none
  | .redialFailed c =>
    if s.inflight.contains c then
      -- `m.transport` becomes the nil interface; nothing is started; a reader that called reports "can't reconnect"
      some { s with inflight := s.inflight.erase c, transport := none, failedDials := s.failedDials + 1,
                    connWarnings := if s.byReader.contains c then s.connWarnings + 1 else s.connWarnings }
    else none
  | .appReconnect => some (beginReconnect s false)
  | .appDisconnect => some { s with cancelled := s.cur :: s.cancelled, disconnects := s.disconnects + 1 }
  | .readerExit c =>
    if s.readers.contains c ∧ (s.cancelled.contains c ∨ transportClosed s) then
      some { s with readers := s.readers.erase c }
    else none
  | .callDown _ o =>
    if !writable s ∧ o = downOutcome s then some s else none

def run (s : LSt) : List LEv → Option LSt
  | [] => some s
  | e :: es =>
    match step s e with
    | some s' => run s' es
    | none => none

/-- a client that has just connected: one context, one reader, any machine state, any key -/
def connected0 (m : St) (keyed : Bool) (keyId : Nat) : LSt := { m := m, keyed := keyed, keyId := keyId }

inductive Reachable : LSt → Prop where
  | init (m : St) (keyed : Bool) (keyId : Nat) : Reachable (connected0 m keyed keyId)
  | step {s s' : LSt} {e : LEv} : Reachable s → step s e = some s' → Reachable s'

theorem reachable_run (es : List LEv) : ∀ (s s' : LSt), Reachable s → run s es = some s' → Reachable s' := by
  induction es with
  | nil => intro s s' h hr; simp [run] at hr; subst hr; exact h
  | cons e es ih =>
    intro s s' h hr
    simp only [run] at hr
    cases hs : step s e with
    | none => simp [hs] at hr
    | some s1 => rw [hs] at hr; exact ih s1 s' (Reachable.step h hs) hr

end Mtv.Client.Life
