/-
  Types shared by the regenerated error tables (`Mtv/Gen/ErrTables.lean`, written on every run from
  errors.go / utils.go / mtproto.go of the working tree) and the hand-written model
  (`Mtv/Client/Errors.lean`). Core-only.
-/
import Mtv.Basic
namespace Mtv.Client

/-- `prefixSuffix.kind` (a `reflect.Kind`): `TryExpandError` handles `reflect.Int` and
`reflect.String`; every other kind reaches `panic("couldn't parse this type")`. -/
inductive Kind where
  | int | string | other
  deriving Repr, DecidableEq

/-- one row of `specificErrors` -/
structure Row where
  pre : Bytes
  suf : Bytes
  kind : Kind
  deriving Repr, DecidableEq

/-- Statement shapes of a `case` body of `tryToProcessErr`, as recognised by the go/ast extractor
(`harness/cmd/c17facts`). Anything not recognised is `unknown`. -/
inductive ProcStep where
  | assertChecked            -- `dc, ok := e.AdditionalInfo.(int)`
  | ifNotOkReturnE           -- `if !ok { return e }`
  | lookupDc                 -- `ip, found := m.dclist[dc]`
  | lookupDcUnchecked        -- `ip, found := m.dclist[e.AdditionalInfo.(int)]` (panics when not an int)
  | ifNotFoundReturnWrapped  -- `if !found { return errors.Wrapf(e, …) }`
  | setAddr                  -- `m.addr = ip`
  | reconnect                -- `err := m.Reconnect()`
  | returnErr                -- `return err`
  | returnE                  -- `return e`
  | unknown
  deriving Repr, DecidableEq

/-- one `case` clause of the `switch e.Message` in `tryToProcessErr`; `labels = []` is `default` -/
structure ProcCase where
  labels : List Bytes
  steps : List ProcStep
  deriving Repr, DecidableEq

/-- A byte string written as one numeral: the `len` little-endian base-256 digits of `n`. The
generated catalogue uses this form (one numeral per string elaborates quickly; the kernel evaluates
`leBytes` with its built-in arithmetic). -/
def str (len n : Nat) : Bytes := leBytes n len

end Mtv.Client
