/-
  Model of the pure part of RPC-error handling (property C17):

  * errors.go `TryExpandError`  — first-match scan of `specificErrors`, parameter extraction with
    `strings.TrimPrefix/TrimSuffix`, `strconv.Atoi`;
  * errors.go `RpcErrorToNative` — description lookup in `errorMessages`, `fmt.Sprintf(desc, param)`;
  * mtproto.go `tryToProcessErr` — the decision which error is handled (PHONE_MIGRATE_X with a
    configured data centre), which becomes an error (unconfigured) and which is returned.

  Strings are Go strings, i.e. byte strings (`Bytes`). The tables are NOT written here: they are
  `Mtv.Gen.specificErrors`, `Mtv.Gen.errorMessages`, `Mtv.Gen.defaultDCList`, regenerated from the
  working tree on every run. Every function takes its table as an argument (`…With`); the
  instances at the regenerated tables are the functions without suffix.

  The model describes the code WITH the two pending repairs of property C17 applied
  (pending_fixes/C17-tryexpand-atoi-fallback.patch, C17-phone-migrate-literal-x.patch);
  `tryExpandUnrepairedWith` / `processErrUnrepaired` keep the behaviour before the repairs.
  Core-only.
-/
import Mtv.Client.ErrTypes
import Mtv.Gen.ErrTables
namespace Mtv.Client

/-! ### strings.HasPrefix / HasSuffix / TrimPrefix / TrimSuffix -/

def hasPrefix (s p : Bytes) : Bool := p.isPrefixOf s
def hasSuffix (s q : Bytes) : Bool := q.isSuffixOf s

/-- `strings.TrimPrefix`: removes `p` only when `s` starts with it -/
def trimPrefix (s p : Bytes) : Bytes := if hasPrefix s p then s.drop p.length else s

/-- `strings.TrimSuffix`: removes `q` only when `s` ends with it -/
def trimSuffix (s q : Bytes) : Bytes := if hasSuffix s q then s.take (s.length - q.length) else s

/-! ### strconv.Atoi (64-bit int) -/

def isDigit (b : UInt8) : Bool := 48 ≤ b.toNat && b.toNat ≤ 57

def digitVal (b : UInt8) : Nat := b.toNat - 48

/-- value of a string of decimal digits, most significant first -/
def decVal (ds : Bytes) : Nat := ds.foldl (fun a b => a * 10 + digitVal b) 0

/-- digits after the optional sign: non-empty, decimal digits only (no `_`, no spaces, no
non-ASCII digits); `none` is `strconv.ErrSyntax` -/
def atoiDigits (ds : Bytes) : Option Nat :=
  if ds.isEmpty then none else if ds.all isDigit then some (decVal ds) else none

/-- `strconv.Atoi` on a platform with 64-bit `int`: optional `+`/`-`, then `atoiDigits`; the value
must lie in `[-2^63, 2^63-1]` (otherwise `strconv.ErrRange`). `none` = any error. Leading zeros
are allowed, as in Go. -/
def atoi (s : Bytes) : Option Int :=
  match s with
  | [] => none
  | c :: r =>
    if c = 45 then            -- '-'
      match atoiDigits r with
      | some v => if v ≤ 2 ^ 63 then some (-(v : Int)) else none
      | none => none
    else
      match atoiDigits (if c = 43 then r else c :: r) with   -- '+'
      | some v => if v < 2 ^ 63 then some (v : Int) else none
      | none => none

/-! ### TryExpandError -/

/-- `additionalData any`: nil, an `int`, or a `string` -/
inductive Param where
  | none
  | int (n : Int)
  | str (b : Bytes)
  deriving Repr, DecidableEq

/-- `strings.HasPrefix(errStr, row.prefix) && strings.HasSuffix(errStr, row.suffix)`
(prefix and suffix may overlap inside `errStr`; the code does not exclude that) -/
def Row.matches (r : Row) (s : Bytes) : Bool := hasPrefix s r.pre && hasSuffix s r.suf

/-- the loop with `break`: the first row that matches -/
def firstMatch (tbl : List Row) (s : Bytes) : Option Row := tbl.find? (·.matches s)

/-- `prefix + "X" + suffix` -/
def Row.xName (r : Row) : Bytes := r.pre ++ 88 :: r.suf

/-- `strings.TrimSuffix(strings.TrimPrefix(errStr, prefix), suffix)` -/
def Row.param (r : Row) (s : Bytes) : Bytes := trimSuffix (trimPrefix s r.pre) r.suf

/-- `TryExpandError` after the D14 repair: a parameter that is not an `int` makes the text a plain
error `(errStr, nil)`. `panic "TryExpandError"` is the `default:` branch of the kind switch. -/
def tryExpandWith (tbl : List Row) (s : Bytes) : Outcome (Bytes × Param) :=
  match firstMatch tbl s with
  | none => .ok (s, .none)
  | some r =>
    match r.kind with
    | .int =>
      match atoi (r.param s) with
      | some n => .ok (r.xName, .int n)
      | none => .ok (s, .none)
    | .string => .ok (r.xName, .str (r.param s))
    | .other => .panic "TryExpandError"

/-- `TryExpandError` before the repair: `check(errors.Wrap(err, …))` panics when Atoi fails -/
def tryExpandUnrepairedWith (tbl : List Row) (s : Bytes) : Outcome (Bytes × Param) :=
  match firstMatch tbl s with
  | none => .ok (s, .none)
  | some r =>
    match r.kind with
    | .int =>
      match atoi (r.param s) with
      | some n => .ok (r.xName, .int n)
      | none => .panic "check"
    | .string => .ok (r.xName, .str (r.param s))
    | .other => .panic "TryExpandError"

def tryExpand : Bytes → Outcome (Bytes × Param) := tryExpandWith Gen.specificErrors

/-! ### fmt.Sprintf(desc, additionalData) — exactly one operand -/

/-- decimal digits of `n`, most significant first (`fuel` > number of digits) -/
def decDigits : Nat → Nat → Bytes
  | 0, _ => []
  | f + 1, n => if n < 10 then [UInt8.ofNat (48 + n)] else decDigits f (n / 10) ++ [UInt8.ofNat (48 + n % 10)]

def decimal (n : Nat) : Bytes := decDigits (n + 1) n

/-- `%v` / `%d` of an `int` -/
def fmtInt (n : Int) : Bytes := if n < 0 then 45 :: decimal n.natAbs else decimal n.toNat

/-- `"%!(EXTRA int=5)"` / `"%!(EXTRA string=abc)"`: appended by fmt when the operand was not used -/
def fmtExtra : Param → Bytes
  | .none => []
  | .int n => [37,33,40,69,88,84,82,65,32,105,110,116,61] ++ fmtInt n ++ [41]
  | .str b => [37,33,40,69,88,84,82,65,32,115,116,114,105,110,103,61] ++ b ++ [41]

/-- `"%!v(MISSING)"` -/
def fmtMissing (verb : UInt8) : Bytes := [37, 33, verb] ++ [40,77,73,83,83,73,78,71,41]

/-- `"%!d(string=abc)"` / `"%!s(int=5)"`: operand of the wrong type for the verb -/
def fmtBadVerb (verb : UInt8) : Param → Bytes
  | .none => []
  | .int n => [37, 33, verb] ++ [40,105,110,116,61] ++ fmtInt n ++ [41]
  | .str b => [37, 33, verb] ++ [40,115,116,114,105,110,103,61] ++ b ++ [41]

/-- one verb applied to the operand; `none` = verb outside the modelled subset -/
def fmtVerb (verb : UInt8) (a : Param) : Option Bytes :=
  if verb = 118 then            -- %v
    match a with | .int n => some (fmtInt n) | .str b => some b | .none => some []
  else if verb = 100 then       -- %d
    match a with | .int n => some (fmtInt n) | _ => some (fmtBadVerb verb a)
  else if verb = 115 then       -- %s
    match a with | .str b => some b | _ => some (fmtBadVerb verb a)
  else none

/-- "%!(NOVERB)" -/
def fmtNoVerb : Bytes := [37,33,40,78,79,86,69,82,66,41]

/-- `fmt.Sprintf(format, a)` with one operand `a`, byte by byte. `used` = the operand has been
consumed, `pct` = the previous byte was an unconsumed `%`.
Modelled: literal bytes, `%%`, a trailing `%` (`%!(NOVERB)`), the verbs `%v %d %s` without flags,
width or precision, a further verb after the operand is used (`%!v(MISSING)`), an unused operand
(`%!(EXTRA …)`). `none` = the format leaves this subset (the driver prints `format-not-modelled`). -/
def sprintfGo (a : Param) : Bool → Bool → Bytes → Option Bytes
  | used, false, [] => some (if used then [] else fmtExtra a)
  | used, true, [] => some (fmtNoVerb ++ (if used then [] else fmtExtra a))
  | used, false, c :: rest =>
    if c = 37 then sprintfGo a used true rest else (sprintfGo a used false rest).map (c :: ·)
  | used, true, d :: rest =>
    if d = 37 then (sprintfGo a used false rest).map (37 :: ·)
    else if used then
      if d = 118 ∨ d = 100 ∨ d = 115 then (sprintfGo a true false rest).map (fmtMissing d ++ ·) else none
    else
      match fmtVerb d a with
      | some o => (sprintfGo a true false rest).map (o ++ ·)
      | none => none

def sprintf1 (format : Bytes) (a : Param) : Option Bytes := sprintfGo a false false format

/-! ### RpcErrorToNative -/

/-- `*ErrResponseCode` -/
structure NativeErr where
  code : Int
  message : Bytes
  description : Bytes
  param : Param
  deriving Repr, DecidableEq

/-- `desc, ok := errorMessages[name]; if !ok { desc = name }` -/
def describe (cat : List (Bytes × Bytes)) (name : Bytes) : Bytes := (cat.lookup name).getD name

/-- `RpcErrorToNative(&objects.RpcError{ErrorCode: code, ErrorMessage: msg})`; `code` is an `int32`
widened to `int` (value preserved). `err "format-not-modelled"` only when a description used as a
format leaves the subset of `sprintfGo` (never for the regenerated tables: `formats_modelled`). -/
def rpcErrorToNativeWith (tbl : List Row) (cat : List (Bytes × Bytes)) (code : Int) (msg : Bytes) :
    Outcome NativeErr :=
  match tryExpandWith tbl msg with
  | .panic site => .panic site
  | .err k => .err k
  | .ok (name, p) =>
    let desc := describe cat name
    match p with
    | .none => .ok ⟨code, name, desc, .none⟩      -- `additionalData == nil`: no Sprintf call
    | p =>
      match sprintf1 desc p with
      | some d => .ok ⟨code, name, d, p⟩
      | none => .err "format-not-modelled"

def rpcErrorToNative : Int → Bytes → Outcome NativeErr :=
  rpcErrorToNativeWith Gen.specificErrors Gen.errorMessages

/-! ### tryToProcessErr: the decision -/

/-- what `makeRequest` does with an rpc_error after `tryToProcessErr` -/
inductive Decision where
  /-- the error itself is returned to the caller of `MakeRequest` -/
  | returned
  /-- `errors.Wrapf(e, "DC with id %v not found", …)` is returned -/
  | dcNotFound (dc : Int)
  /-- `m.addr = addr; m.Reconnect()`; when that succeeds `makeRequest` issues the request again,
  otherwise Reconnect's error is returned -/
  | migrate (dc : Int) (addr : Bytes)
  | panic (site : String)
  deriving Repr, DecidableEq

/-- "PHONE_MIGRATE_X" -/
def phoneMigrateX : Bytes := [80,72,79,78,69,95,77,73,71,82,65,84,69,95,88]

/-- `m.dclist` as an association list (first binding wins) -/
abbrev DCList := List (Int × Bytes)

/-- `SetDCList(in)`: bindings of `in` override / extend the existing ones -/
def setDCList (old new : DCList) : DCList := new ++ old

/-- the table of a client after a HISTORY of `SetDCList` calls (in call order) on a table that started as `init`
(`NewMTProto` fills it with `defaultDCList()`): each call merges its argument into the table the client has -/
def dclistAfter (init : DCList) (calls : List DCList) : DCList := calls.foldl setDCList init

/-- what "configured for data centre `k`" means after such a history, said without the table: the LAST call that
binds `k` decides; a data centre no call binds is what the initial table says (right-biased union) -/
def configuredAfter (init : DCList) (calls : List DCList) (k : Int) : Option Bytes :=
  (calls.reverse.findSome? (fun c => c.lookup k)).or (init.lookup k)

/-- `tryToProcessErr` with the comma-ok repair: PHONE_MIGRATE_X without an `int` is returned -/
def processErr (dcl : DCList) (message : Bytes) (p : Param) : Decision :=
  if message = phoneMigrateX then
    match p with
    | .int n =>
      match dcl.lookup n with
      | some addr => .migrate n addr
      | none => .dcNotFound n
    | _ => .returned
  else .returned

/-- `tryToProcessErr` before the repair: `e.AdditionalInfo.(int)` panics on nil / string -/
def processErrUnrepaired (dcl : DCList) (message : Bytes) (p : Param) : Decision :=
  if message = phoneMigrateX then
    match p with
    | .int n =>
      match dcl.lookup n with
      | some addr => .migrate n addr
      | none => .dcNotFound n
    | _ => .panic "(*MTProto).tryToProcessErr"
  else .returned

/-- `makeRequest`, `case *objects.RpcError`: conversion, then the decision -/
def onRpcError (dcl : DCList) (code : Int) (msg : Bytes) : Outcome (NativeErr × Decision) :=
  match rpcErrorToNative code msg with
  | .ok e => .ok (e, processErr dcl e.message e.param)
  | .err k => .err k
  | .panic s => .panic s

/-- "e.Message" -/
def expectedSwitchTag : Bytes := [101,46,77,101,115,115,97,103,101]

/-- The statement shape of `tryToProcessErr` that `processErr` was written against. The shape
extracted from the working tree (`Gen.procCases`) must equal it (`processErr_source_shape`). -/
def expectedProcCases : List ProcCase :=
  [⟨[phoneMigrateX], [.assertChecked, .ifNotOkReturnE, .lookupDc, .ifNotFoundReturnWrapped, .setAddr,
                      .reconnect, .returnErr]⟩,
   ⟨[], [.returnE]⟩]

end Mtv.Client
