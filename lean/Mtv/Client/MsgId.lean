/-
  `utils.GenerateMessageId` and the bump under the write lock (`sendPacket`):
      seconds := ns / 10^9 ; nanos := ns % 10^9 ; id := (seconds << 32) | (nanos & -4)
      if id <= last then id = last + 4
-/
namespace Mtv.Client

/-- `GenerateMessageId` for a clock reading of `ns` nanoseconds since the epoch (`nanos & -4` clears the
two low bits; `nanos < 2^30`, so the `|` is a sum) -/
def genId (ns : Nat) : Nat := (ns / 1000000000) * 2 ^ 32 + (ns % 1000000000) / 4 * 4

/-- the msg_id `sendPacket` uses: the clock's id, bumped past the last one written when the clock did
not move (or went back) -/
def nextId (last ns : Nat) : Nat := if genId ns ≤ last then last + 4 else genId ns

end Mtv.Client
