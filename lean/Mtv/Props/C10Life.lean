import Mtv.Props.C10
import Mtv.Props.C16Life

/-!
# C10 across connections

`Mtv/Client/Lifecycle.lean` wraps the client machine with the connection lifecycle (connection lost, re-dial,
Reconnect/Disconnect from the application). The stream theorems of `Props/C10` are stated for reachable states of
the machine; here they are stated for **every lifecycle history**: whatever happens to the connection - any number
of losses, re-dials that fail or succeed, application reconnects, in any order - the messages the client has
written in the session (the history variable `wire`, all connections together) still carry strictly increasing
msg_ids, multiples of four, never decreasing seq_nos and the right seq_no parity. (The seeded change C10-m17, which
resets seq_no in `connect()` while the session id stays, is what this excludes.)
-/

namespace Mtv.Client.Life

open Mtv.Client

/-- the machine component of a lifecycle run is a run of the machine: lifecycle events never touch it -/
theorem step_machine_reachable {s s' : LSt} {e : LEv} (h : Client.Reachable s.m) (hs : step s e = some s') :
    Client.Reachable s'.m := by
  cases e with
  | mach e =>
    obtain ⟨m', hm, rfl⟩ := mach_fields hs
    exact Client.Reachable.step h hm
  | connClosed =>
    simp only [step] at hs
    split at hs
    · cases hs; unfold lose; split <;> simpa [beginReconnect] using h
    · cases hs
  | connBroken =>
    simp only [step] at hs
    split at hs
    · cases hs; unfold lose; split <;> simpa [beginReconnect] using h
    · cases hs
  | redialOk c k =>
    simp only [step] at hs
    split at hs
    · cases hs; simpa [dialled] using h
    · cases hs
  | redialFailed c =>
    simp only [step] at hs
    split at hs
    · cases hs; exact h
    · cases hs
  | appReconnect => simp only [step] at hs; cases hs; simpa [beginReconnect] using h
  | appDisconnect => simp only [step] at hs; cases hs; exact h
  | readerExit c =>
    simp only [step] at hs
    split at hs
    · cases hs; exact h
    · cases hs
  | callDown c o =>
    simp only [step] at hs
    split at hs
    · cases hs; exact h
    · cases hs

theorem run_machine_reachable (es : List LEv) : ∀ (s s' : LSt), Client.Reachable s.m → run s es = some s' →
    Client.Reachable s'.m := by
  induction es with
  | nil => intro s s' h hr; simp [run] at hr; subst hr; exact h
  | cons e es ih =>
    intro s s' h hr
    simp only [run] at hr
    cases hs : step s e with
    | none => simp [hs] at hr
    | some s1 => simp [hs] at hr; exact ih s1 s' (step_machine_reachable h hs) hr

/-- **C10 over every lifecycle history**: msg_ids strictly increase in the order written and are multiples of
four, seq_no never decreases - across any number of lost, replaced and re-dialled connections of one session -/
theorem wire_ordered_across_connections (m : St) (hm : Client.Reachable m) (keyed : Bool) (keyId : Nat)
    (es : List LEv) (s : LSt) (hr : run (connected0 m keyed keyId) es = some s) :
    s.m.wire.Pairwise (fun newer older => older.1 < newer.1 ∧ older.2 ≤ newer.2) ∧ ∀ p ∈ s.m.wire, p.1 % 4 = 0 :=
  wire_ordered s.m (run_machine_reachable es _ s (by simpa [connected0] using hm) hr)

/-- **seq_no parity over every lifecycle history** -/
theorem seq_parity_across_connections (m : St) (hm : Client.Reachable m) (keyed : Bool) (keyId : Nat)
    (es : List LEv) (s : LSt) (hr : run (connected0 m keyed keyId) es = some s) :
    (∀ e ∈ s.m.sent, (e.1, e.2.1) ∈ s.m.wire ∧ e.2.1 % 2 = 1) ∧
    (∀ p ∈ s.m.wire, p.2 % 2 = 1 → ∃ c, (p.1, p.2, c) ∈ s.m.sent) :=
  seq_parity s.m (run_machine_reachable es _ s (by simpa [connected0] using hm) hr)

/-- non-vacuity: a request, the connection lost and re-dialled, a second request with a larger msg_id and seq_no -/
example : ∃ s, run (connected0 {} true 7)
    [.mach (.send 0 4 1 0), .connClosed, .redialOk 2 7, .mach (.send 1 8 3 0)] = some s ∧ s.m.wire.length = 2 := by
  decide +kernel

end Mtv.Client.Life
