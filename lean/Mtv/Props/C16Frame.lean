/-
  C16: "No message a server can send … stops the receive loop" for frames of the transport level that are no sealed
  message (error codes -404 / -429 / -444 …, frames too short for a key id or a msg_key, frames under another key id).
  Model: Mtv/Client/TransportFrame.lean.
-/
import Mtv.Client.TransportFrame
import Mtv.Props.C16Life
namespace Mtv.Client.Frame
open Mtv Mtv.Client Mtv.Client.Life

/-- a frame of fewer than 24 bytes is never a sealed message, whatever it contains and whatever the key id is -/
theorem short_frame_is_junk (kid data : Bytes) (h : data.length < 24) : junk kid data = true := by
  unfold junk classify
  split
  · simp
  · split
    · simp
    · split
      · simp
      · simp [h]

/-- a four-byte frame is an error code, every int32 value included -/
theorem four_bytes_is_a_code (kid data : Bytes) (h : data.length = 4) :
    classify kid data = .code (toSigned 32 (fromLE data)) := by
  unfold classify; simp [h]

example : classify [1,2,3,4,5,6,7,8] (leBytes (ofSigned 32 (-404)) 4) = .code (-404) := by decide +kernel
example : classify [1,2,3,4,5,6,7,8] (leBytes (ofSigned 32 (-2147483648)) 4) = .code (-2147483648) := by decide +kernel
example : classify [1,2,3,4,5,6,7,8] [] = .plainRefused := by decide
example : classify [1,2,3,4,5,6,7,8] [1,2,3,4,5,6,7,8,9] = .tooShort := by decide
example : classify [1,2,3,4,5,6,7,8] [1,2,3,4,5,6,7,9,9] = .wrongKey := by decide
example : classify [1,2,3,4,5,6,7,8] (zeros 23) = .plainRefused := by decide +kernel

/-- a frame under another key id is never a sealed message, however long -/
theorem other_key_is_junk (kid data : Bytes) (h : data.take 8 ≠ kid) : junk kid data = true := by
  unfold junk classify
  split
  · simp
  · split
    · simp
    · simp [h]

/-- **a transport-level frame that is no sealed message is harmless**: for every state in which the client is
reading and every such frame the step is enabled, and it changes nothing but the number of warnings — pending
requests, owed acknowledgements, deliveries, salts, msg_id / seq_no counters, the key, the contexts, the readers and
the transport are what they were -/
theorem transport_frame_is_harmless (s : LSt) (data : Bytes) (h : reading s = true) :
    stepJ s (.frame data) = some { s with m := { s.m with warnings := s.m.warnings + 1 } } := by
  simp [stepJ, h, frameStep, warnStep]

/-- … and while the client is not reading (between the loss of a connection and the redial) no frame reaches it -/
theorem transport_frame_needs_a_reader (s : LSt) (data : Bytes) (h : reading s = false) :
    stepJ s (.frame data) = none := by
  simp [stepJ, h]

/-- any number of them in a row: still reading, only the warnings grew, by exactly that number -/
theorem transport_frames_are_harmless (fs : List Bytes) : ∀ (s : LSt), reading s = true →
    runJ s (fs.map JEv.frame) = some { s with m := { s.m with warnings := s.m.warnings + fs.length } } := by
  induction fs with
  | nil => intro s _; simp [runJ]
  | cons f fs ih =>
    intro s h
    simp only [List.map, runJ, transport_frame_is_harmless s f h]
    have h' : reading { s with m := { s.m with warnings := s.m.warnings + 1 } } = true := by
      simpa [reading] using h
    rw [ih _ h']
    simp [Nat.add_assoc, Nat.add_comm 1]

theorem stepJ_erase (s : LSt) (e : JEv) : stepJ s e = Life.step s (erase e) := by
  cases e with
  | frame d =>
    simp only [stepJ, erase, Life.step, machEnabled, Client.step, frameStep]
    by_cases h : reading s = true <;> simp [h]
  | life e => rfl

/-- a history with such frames anywhere in it is a history of the lifecycle model (each frame counted as a frame
that does not come from the server) -/
theorem runJ_erase (es : List JEv) : ∀ s, runJ s es = Life.run s (es.map erase) := by
  induction es with
  | nil => intro s; rfl
  | cons e es ih =>
    intro s
    simp only [runJ, List.map, Life.run, stepJ_erase]
    cases Life.step s (erase e) with
    | none => rfl
    | some s1 => exact ih s1

/-- **over all sequences of such frames interleaved with anything else the invariants hold**: same key, no key
exchange, at most one active reader — the lifecycle theorems carry over to histories with transport frames -/
theorem transport_frames_keep_invariants (es : List JEv) (s0 s : LSt) (hr : runJ s0 es = some s) :
    (s0.keyed = true → s.keyed = true ∧ s.keyId = s0.keyId ∧ s.keyExchanges = s0.keyExchanges) ∧
    (Life.Reachable s0 → Life.Reachable s ∧ (activeReaders s).length ≤ 1) := by
  rw [runJ_erase] at hr
  refine ⟨fun hk => reconnect_keeps_key _ s0 s hk hr, fun h0 => ?_⟩
  have h := Life.reachable_run _ s0 s h0 hr
  exact ⟨h, single_reader s h⟩

/-- a request issued between such frames is enabled as ever, stays pending across a reconnect; warnings count the frames -/
example : (runJ (connected0 {} true 7) [.frame [0x6c, 0xfe, 0xff, 0xff], .life (.mach (.send 1 4 1 0)), .frame [],
    .frame [1,2,3,4,5,6,7,8,9], .life .connClosed, .life (.redialOk 2 0), .frame [0,0,0,0]]).map
    (fun s => (s.m.warnings, s.m.pending, s.keyId, s.keyExchanges, reading s)) = some (4, [(4, 1)], 7, 0, true) := by
  decide +kernel

/-- between the loss and the redial nothing of the wire is enabled, such a frame included -/
example : (runJ (connected0 {} true 7) [.life .connClosed, .frame [0,0,0,0]]).isNone = true := by decide +kernel

end Mtv.Client.Frame
