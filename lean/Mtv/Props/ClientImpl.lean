/-
  C09, C10, C11, C16 — "for ALL interleavings of any number of calling goroutines with the receive loop".
  Property theorems only. Model: Mtv/Client/Impl.lean (goroutine granularity: one event = one atomic action of
  one goroutine, any number of callers, an adversarial server), specification: Mtv/Client/Machine.lean (the
  event-level machine the theorems of Props/C09–C11, C16 are about). Lemmas: Mtv/Lemmas/ClientRefine*.lean.

  Every theorem is about EVERY run `es : List IEv` of the implementation model from its initial state — every
  interleaving, every number of callers, every server history (under `CausalRun` where stated).
-/
import Mtv.Lemmas.ClientRefine5
import Mtv.Props.C09
import Mtv.Props.C10
import Mtv.Gen.ClientSkeleton
namespace Mtv.Impl
open Mtv.Client

/-- **refinement** (C09–C11, C16, the quantifier "all interleavings"): the trace an observer sees of ANY run of
the goroutine-level implementation (`project`: a write that succeeds ↦ `send`/`ack`, the rendezvous on a
response channel ↦ `deliver`, the loop taking up a message ↦ `recv` of that message — containers as the
sequence of their members, see `recv_flatten` —, the store ↦ `store`, failed writes/stores ↦ `ackLost`/
`storeLost`, everything else stutters) is accepted by the event-level machine, and the two states stay
related by `Sim`. Assumption `CausalRun`: the server names no msg_id before it has been written
(`impl_refinement_needs_causal_server` shows it is needed). -/
theorem impl_refines_spec (es : List IEv) (s : ISt) (hc : CausalRun {} es) (hr : run {} es = some s) :
    ∃ g, Mtv.Client.run {} (project {} es) = some g ∧ Sim s g ∧ Reachable g := by
  obtain ⟨g, hg, hm, _, _⟩ := sim_run es inv_init inv2_init sim_init hc hr
  exact ⟨g, hg, hm, reachable_run _ _ _ Reachable.init hg⟩

/-- the event-level `recv` of a whole message equals the leaf-level events the refinement uses, when nothing
else happens in between; in the implementation other goroutines' steps DO happen in between (the loop
blocks in the middle of a container until a caller receives): that is exactly what `impl_refines_spec` covers -/
theorem recv_flatten (g : St) (mid seq : Nat) (m : Msg) :
    Mtv.Client.run g (flat 0 mid seq m) = Mtv.Client.run g [.recv mid seq m] := by
  rw [flat_sound]; simp [Mtv.Client.run, Mtv.Client.step]

/-- **mutual exclusion** (C10): at most one goroutine is between `seqNoMutex.Lock()` and `Unlock()`, the mutex
knows who, and `lastMsgID` / `seqNo` are changed only by that goroutine. No assumption on the server. -/
theorem impl_mutual_exclusion (es : List IEv) (s : ISt) (hr : run {} es = some s) :
    (∀ c, holds (s.cs c) = true ↔ s.owner = .caller c) ∧ (loopHolds s = true ↔ s.owner = .loop) ∧
    (∀ c c', holds (s.cs c) = true → holds (s.cs c') = true → c = c') ∧
    (∀ c, holds (s.cs c) = true → loopHolds s = false) ∧
    (∀ e s', step s e = some s' → (s'.lastMsgID ≠ s.lastMsgID ∨ s'.seqNo ≠ s.seqNo) → s.owner = actor e) := by
  have hi := inv_run es inv_init hr
  refine ⟨hi.m1, hi.m2, ?_, ?_, fun e s' h hch => fields_only_by_owner hi h hch⟩
  · intro c c' h1 h2
    have a := (hi.m1 c).1 h1; have b := (hi.m1 c').1 h2
    rw [a] at b; cases b; rfl
  · intro c h1
    cases hl : loopHolds s with
    | false => rfl
    | true => have a := (hi.m1 c).1 h1; have b := hi.m2.1 hl; rw [a] at b; cases b

/-- **wire order** (C10) under EVERY interleaving: in the order the messages are written, msg_ids strictly
increase and seq_nos never decrease; msg_ids are multiples of four. From the lock invariant: the id is
generated and the message written inside one critical section. No assumption on the server. -/
theorem impl_wire_ordered (es : List IEv) (s : ISt) (hr : run {} es = some s) :
    s.wire.Pairwise (fun newer older => older.1 < newer.1 ∧ older.2.1 ≤ newer.2.1) ∧
    ∀ e ∈ s.wire, e.1 % 4 = 0 := by
  have hi := inv_run es inv_init hr
  exact ⟨hi.w4, fun e he => (hi.w1 e he).2.2⟩

/-- **own result** (C09) through the refinement: whatever any call returned in any run of the implementation was
handed over for a request that caller itself wrote (and that is on the implementation's wire), and is the
value an rpc_result naming exactly that request carried (or the error of a bad_msg_notification naming it);
a msg_id belongs to one caller; at most one call per caller is in progress. -/
theorem impl_own_result (es : List IEv) (s : ISt) (hc : CausalRun {} es) (hr : run {} es = some s) :
    ∃ g, Mtv.Client.run {} (project {} es) = some g ∧
      (∀ c id v, (c, id, v) ∈ g.delivered →
        (∃ seq, (id, seq, c) ∈ g.sent ∧ ∃ salt, (id, seq, salt) ∈ s.wire) ∧ ((id, v) ∈ g.results ∨ v = "badmsg")) ∧
      (∀ id q q' c c', (id, q, c) ∈ g.sent → (id, q', c') ∈ g.sent → c = c') ∧
      (∀ c, inProgress g c ≤ 1) := by
  obtain ⟨g, hg, hm, hreach⟩ := impl_refines_spec es s hc hr
  refine ⟨g, hg, ?_, fun id q q' c c' => request_owner_unique g hreach id q q' c c', one_call_per_caller g hreach⟩
  intro c id v hd
  obtain ⟨⟨seq, hsent⟩, hres⟩ := own_result g hreach c id v hd
  refine ⟨⟨seq, hsent, ?_⟩, hres⟩
  have hw := ((seq_parity g hreach).1 _ hsent).1
  rw [hm.hw] at hw
  simp only [List.mem_map] at hw
  obtain ⟨e, he, heq⟩ := hw
  simp only [Prod.mk.injEq] at heq
  exact ⟨e.2.2, by rw [← heq.1, ← heq.2]; exact he⟩

/-- **re-send exactly the rejected** (C11) through the refinement: a caller repeats a request only if the server
rejected a request of that caller with bad_server_salt (it is in the specification's `owedResend`, which only
`saltStep` on a pending request extends: `Mtv.Client.resend_exactly_rejected`); a caller whose request is
registered (accepted, not answered yet) is not at a write: it cannot send a second time; every message is
written under the salt the specification holds. -/
theorem impl_resend_exactly_rejected (es : List IEv) (s : ISt) (hc : CausalRun {} es) (hr : run {} es = some s) :
    ∃ g, Mtv.Client.run {} (project {} es) = some g ∧
      (∀ c, retrying (s.cs c) = true → c ∈ g.owedResend) ∧
      (∀ id c, (id, c) ∈ g.pending → ∀ ok, step s (.cWrite c ok) = none) ∧
      g.salt = s.salt := by
  obtain ⟨g, hg, hm, _⟩ := impl_refines_spec es s hc hr
  refine ⟨g, hg, hm.r1, ?_, hm.l3⟩
  intro id c hp ok
  have := hm.p1 (id, c) hp
  cases hcc : s.cs c <;> rw [hcc] at this <;> simp [flightOf] at this <;> simp [step, hcc]

/-- **never wedged** (the liveness clause of C11/C16 as an invariant), for every reachable state under a causal
server: (1) if the loop is blocked in a channel send, the caller that made the channel has exactly that
request in flight and reaches the matching receive by at most two steps of its own (the deferred Unlock,
the receive), none of which waits for anybody; (2) whoever holds the mutex has an enabled step; (3) hence
some step is enabled unless every goroutine is legitimately waiting for input (`Waiting`: the loop at its
read point, callers idle or waiting for an answer the server has not sent). -/
theorem impl_never_wedged (es : List IEv) (s : ISt) (hc : CausalRun {} es) (hr : run {} es = some s) :
    (∀ id c v k, s.cur = .sendVal id c v :: k →
      Blocked s id c v k ∧
      ((s.cs c = .wait id ∧ (step s (.cRecv c)).isSome = true) ∨
       (s.cs c = .written id ∧ ∃ s1, step s (.cUnlock c) = some s1 ∧ (step s1 (.cRecv c)).isSome = true))) ∧
    (∀ c, s.owner = .caller c → ∀ now ok, (step s (.cIdReg c now)).isSome = true ∨
        (step s (.cWrite c ok)).isSome = true ∨ (step s (.cUnlock c)).isSome = true) ∧
    (s.owner = .loop → ∀ now ok, (step s (.lStep now ok)).isSome = true) ∧
    (¬ Waiting s → ∃ e, (step s e).isSome = true) := by
  obtain ⟨hi, h2⟩ := inv2_run es inv_init inv2_init hc hr
  refine ⟨?_, (holder_enabled hi).1, (holder_enabled hi).2, no_deadlock hi h2⟩
  intro id c v k hcur
  have hb : Blocked s id c v k := ⟨hcur, h2.s1 id c v (by rw [hcur]; simp)⟩
  exact ⟨hb, blocked_caller_enabled hb⟩

/-- **progress** under weak fairness: from a reachable state in which the loop is blocked in a send, in every
continuation `es'` in which the receiving caller takes two steps (the fairness assumption: its next step is
enabled all the time by `impl_never_wedged`, so a weakly fair scheduler lets it run), the loop gets past the
send. Nobody else can unblock it and nobody else can disturb the caller (`blocked_step`). -/
theorem impl_progress (es : List IEv) (s : ISt) (hc : CausalRun {} es) (hr : run {} es = some s)
    (id c : Nat) (v : Val) (k : List Op) (hcur : s.cur = .sendVal id c v :: k)
    (es' : List IEv) (s' : ISt) (hr' : run s es' = some s') (hfair : 2 ≤ ownSteps c es') :
    ∃ es1 es2 s1, es' = es1 ++ es2 ∧ run s es1 = some s1 ∧ s1.cur = k := by
  obtain ⟨_, h2⟩ := inv2_run es inv_init inv2_init hc hr
  exact blocked_progress es' ⟨hcur, h2.s1 id c v (by rw [hcur]; simp)⟩ hr' (Or.inl hfair)

/-! ## the write-failure window: what a server that guesses msg_ids can do -/

/-- the run: caller 0 takes the lock, generates msg_id 1000 and registers its channel; BEFORE the message is
written the server sends an rpc_result naming 1000 (it can only have guessed it); the loop finds the entry
and blocks in `v <- data`; the caller's write fails, it deletes the entry and returns the error. -/
def wedgeRun : List IEv :=
  [.cLock 0, .cIdReg 0 1000, .lRead 7 2 (.res 1000 "x"), .lStep 0 true, .cWrite 0 false, .cUnlock 0]

/-- **without causality the loop can be wedged for good**: after `wedgeRun` the loop is blocked sending on a
channel whose caller has returned (with the write error), the run is not causal, and in EVERY continuation
the loop is still blocked on that send (`wedged_forever`): no later step of anybody gets it past it — not even
a new call of the same caller, which waits on a new channel. -/
theorem impl_wedge_needs_acausal_server :
    ∃ s, run {} wedgeRun = some s ∧ ¬ CausalRun {} wedgeRun ∧ loopBlockedOn s = some (1000, 0) ∧ s.cs 0 = .idle ∧
      ∀ es' s', run s es' = some s' → loopBlockedOn s' = some (1000, 0) := by
  have hrun : (run {} wedgeRun).isSome = true := by decide +kernel
  cases hs : run {} wedgeRun with
  | none => rw [hs] at hrun; cases hrun
  | some s =>
    have hcur : (run {} wedgeRun).map (fun s => loopBlockedOn s) = some (some (1000, 0)) := by decide +kernel
    have hc0 : (run {} wedgeRun).map (fun s => decide (s.cs 0 = .idle)) = some true := by decide +kernel
    have hlast : (run {} wedgeRun).map (fun s => s.lastMsgID) = some 1000 := by decide +kernel
    rw [hs] at hcur hc0 hlast
    simp only [Option.map_some, Option.some.injEq] at hcur hc0 hlast
    have hidle : s.cs 0 = .idle := by simpa using hc0
    have hwed : Wedged s 1000 0 := by
      refine ⟨?_, by omega, by rw [hidle]; simp [flightOf], by rw [hidle]; simp [regOf]⟩
      simp only [loopBlockedOn] at hcur
      split at hcur
      · rename_i id c v k hk
        simp only [Option.some.injEq, Prod.mk.injEq] at hcur
        obtain ⟨rfl, rfl⟩ := hcur
        exact ⟨v, k, hk⟩
      · cases hcur
    refine ⟨s, rfl, ?_, hcur, hidle, ?_⟩
    · intro hcz
      -- the third event reads a message naming id 1000 while caller 0 has it registered and not written
      have h1 := hcz.2 _ (show step {} (.cLock 0) = some _ from rfl)
      have h2 := h1.2 _ (show step _ (.cIdReg 0 1000) = some _ from rfl)
      have h3 := h2.1
      simp only [CausalEv, msgIds] at h3
      apply h3 1000 (by simp)
      refine ⟨by decide, Or.inr ⟨0, ?_⟩⟩
      decide +kernel
    · intro es' s' hr'
      have hi := inv_run wedgeRun inv_init hs
      obtain ⟨⟨v, k, hk⟩, _⟩ := wedged_forever es' hi hwed hr'
      simp [loopBlockedOn, hk]

/-- and the refinement itself needs the assumption: if the guessed answer arrives in the window and the write
then SUCCEEDS, the caller receives a value the event-level machine does not know it is owed (the projected
trace is rejected at that `deliver`) -/
theorem impl_refinement_needs_causal_server :
    let es : List IEv := [.cLock 0, .cIdReg 0 1000, .lRead 7 2 (.res 1000 "x"), .lStep 0 true, .cWrite 0 true,
                          .cUnlock 0, .cRecv 0]
    (run {} es).isSome = true ∧ (Mtv.Client.run {} (project {} es)).isNone = true := by
  decide +kernel

/-! ## the tie to the source -/

/-- **the model's programs were written against the current source**: the statement skeleton of sendPacket,
writeRPCResponse, makeRequest, processResponse and dispatchResponse regenerated from the working tree
(go/parser, harness/cmd/c09facts, on every check) equals the one the micro-step programs of
Mtv/Client/Impl.lean mirror. Reordering "delete, then send", or taking the id generation out of the locked
section, changes the left-hand side. -/
theorem impl_matches_source : Mtv.Gen.ClientSkeleton.skeleton = sourceSkeleton := by decide +kernel

/-- **the ORDER of the model's micro-steps is the order of the Go statements**, computed from both sides:
rpc_result: get → send → delete; bad_server_salt: salt → store → get → delete → send;
bad_msg_notification: get → delete → send; new_session_created: salt → store -/
theorem impl_order_matches_source :
    modelActions "get" (.res 8 "v") = sourceActions "writeRPCResponse" ∧
    modelActions "salt" (.salt 8 5) = sourceActions "dispatchResponse/BadServerSalt" ∧
    modelActions "get" (.badmsg 8) = sourceActions "dispatchResponse/BadMsgNotification" ∧
    modelActions "salt" (.news 5) = sourceActions "dispatchResponse/NewSessionCreated" ∧
    sourceActions "writeRPCResponse" = ["get", "send", "delete"] ∧
    sourceActions "dispatchResponse/BadServerSalt" = ["salt", "store", "get", "delete", "send"] := by
  decide +kernel

/-! ## non-vacuity: two callers, a container, a rotation, a failed write — one run -/

/-- caller 0 and caller 1 interleave their sends; the server answers caller 1 inside a container together with a
bad_server_salt for caller 0's request; caller 0 re-sends under the new salt and is answered; an
acknowledgement write fails in between -/
def demoRun : List IEv :=
  [ .cLock 0, .cIdReg 0 1000, .cWrite 0 true, .cUnlock 0,        -- caller 0: request 1000, seq 1
    .cLock 1, .cIdReg 1 900, .cWrite 1 true, .cUnlock 1,          -- caller 1: clock went back → 1004, seq 3
    .lRead 50 1 (.cont [(51, 3, .res 1004 "for-1"), (53, 5, .salt 1000 77)]),
    .lStep 0 true,                                                -- enter the container
    .lStep 0 true,                                                -- member 51: Get 1004 → blocks in the send
    .cRecv 1,                                                     -- caller 1 returns "for-1"
    .lStep 0 true, .lStep 0 true,                                 -- Delete 1004; seq 3 is odd: acknowledge
    .lStep 0 true, .lStep 2000 true, .lStep 0 false, .lStep 0 true, -- Lock, id 2000, the write FAILS, Unlock
    .lStep 0 true,                                                -- member 53: salt := 77
    .lStep 0 true,                                                -- SaveSession
    .lStep 0 true, .lStep 0 true,                                 -- Get 1000 (found), Delete 1000
    .cRecv 0,                                                     -- caller 0 gets the retry marker
    .cLock 0, .cIdReg 0 3000, .cWrite 0 true, .cUnlock 0,         -- and re-sends: 3000, under salt 77
    .lStep 0 true, .lStep 0 true, .lStep 3004 true, .lStep 0 true, .lStep 0 true, -- ack of 53
    .lStep 0 true,                                                -- end of the container
    .lStep 0 true, .lStep 0 true, .lStep 3008 true, .lStep 0 true, .lStep 0 true, -- its own ack (seq 1)
    .lRead 60 2 (.res 3000 "for-0"), .lStep 0 true, .cRecv 0, .lStep 0 true, .lStep 0 true ]

/-- the run is causal (the hypotheses of the theorems above are satisfiable on it) and complete -/
example : CausalRun {} demoRun ∧ (run {} demoRun).isSome = true :=
  ⟨causalRunB_sound demoRun inv_init (by decide +kernel), by decide +kernel⟩

/-- `impl_wire_ordered` on it: the two requests, the retry and the two acknowledgements that were written — the
clock going back (900 after 1000) is bumped -/
example : (run {} demoRun).map (fun s => s.wire.reverse.map fun e => (e.1, e.2.1)) =
    some [(1000, 1), (1004, 3), (3000, 5), (3004, 6), (3008, 8)] := by decide +kernel

/-- `impl_refines_spec` on it: what an observer sees is this trace of the event-level machine (13 events; compared
by everything the machine records) -/
def demoTrace : List Ev :=
  [.send 0 1000 1 0, .send 1 1004 3 0, .recv 51 3 (.res 1004 "for-1"), .deliver 1 "for-1", .ackLost [51],
   .recv 53 5 (.salt 1000 77), .store 77, .send 0 3000 5 77, .ack 3004 6 [53], .recv 50 1 .quiet,
   .ack 3008 8 [50], .recv 60 2 (.res 3000 "for-0"), .deliver 0 "for-0"]
example : (project {} demoRun).length = 13 := by decide +kernel
example : (Mtv.Client.run {} (project {} demoRun)).map (fun g => (g.sent, g.wire)) =
    (Mtv.Client.run {} demoTrace).map (fun g => (g.sent, g.wire)) := by decide +kernel
example : (Mtv.Client.run {} (project {} demoRun)).map (fun g => (g.results, g.delivered)) =
    (Mtv.Client.run {} demoTrace).map (fun g => (g.results, g.delivered)) := by decide +kernel
example : (Mtv.Client.run {} (project {} demoRun)).map (fun g => (g.acked, g.lostAck, g.stored, g.rejected)) =
    (Mtv.Client.run {} demoTrace).map (fun g => (g.acked, g.lostAck, g.stored, g.rejected)) := by decide +kernel

/-- `impl_own_result` / `impl_resend_exactly_rejected` on it: each caller got its own answer, exactly the rejected
request was sent again, under the new salt, and everything owed was done -/
example : (Mtv.Client.run {} (project {} demoRun)).map (fun g => (g.delivered, g.rejected, g.stored, quiescent g)) =
    some ([(0, 3000, "for-0"), (1, 1004, "for-1")], [1000], [77], true) := by decide +kernel

/-- `impl_never_wedged` on it: in the middle of the container the loop is blocked on caller 1's channel, and
caller 1 is at the matching receive -/
example : (run {} (demoRun.take 11)).map (fun s => (loopBlockedOn s, decide (s.cs 1 = .wait 1004))) =
    some (some (1004, 1), true) := by decide +kernel

/-- `impl_mutual_exclusion` on it: while caller 1 is between Lock and Unlock, caller 0 cannot take the lock -/
example : (run {} (demoRun.take 6)).map (fun s => (decide (s.owner = .caller 1), (step s (.cLock 0)).isNone)) =
    some (true, true) := by decide +kernel

end Mtv.Impl
