/-
  C20 — Resolving a Telegram link is total and maps usernames and invites correctly.
  Property theorems only. Model: Mtv/Links/{GoStr,UrlLite,Resolve}.lean (the resolver as repaired for
  D16); helper lemmas: Mtv/Lemmas/C20*.lean; reserved hosts and the case table: Mtv/Gen/Links.lean,
  regenerated from the working tree on every run.

  Statement: "Resolving any string as a Telegram link never panics. For every Telegram-owned host -
  written with an http(s) scheme and an optional port, or with no scheme at all - a one-segment path
  resolves to that username lower-cased and a /joinchat/<token> path to that invite token, and
  anything else (a foreign host, another scheme, another path shape, a bare host) is an error."

  Byte values used below: 47 = '/', 58 = ':'.
-/
import Mtv.Lemmas.C20Lower
import Mtv.Lemmas.C20Parse
namespace Mtv.Links
open Mtv

/-! ## never a panic -/

/-- Clause "never panics", on every parsed URL: whatever Scheme, Host and Path `url.Parse` produced,
the (repaired) resolver returns a value or an error — the slices of `fixURLHost` and the indexing of
`matchPath` stay in range. Holds for either iteration order of the template map. -/
theorem resolveParsed_no_panic (scheme host path : Bytes) (order : List Template)
    (ho : order = [tplJoin, tplUser] ∨ order = [tplUser, tplJoin]) :
    (resolveParsedWith fixURLHost order scheme host path).isPanic = false := by
  unfold resolveParsedWith
  split
  · obtain ⟨h, p, _, e⟩ := resolveHttpWith_eq order host path
    rw [e]
    split
    · rcases tryTemplates_cases p order ho with ⟨u, _, _, r⟩ | ⟨t, _, _, r⟩ | ⟨_, _, r⟩ <;> rw [r]
      · unfold userResult; split <;> rfl
      · unfold joinResult; split <;> rfl
      · rfl
    · rfl
  · split <;> rfl

example : (resolveParsed [] [] (lit "t.me")).isPanic = false :=
  resolveParsed_no_panic _ _ _ _ (Or.inl rfl)

/-- Clause "resolving **any string** never panics", through the model of `url.Parse`: for every byte
string the string-level model returns a value or an error. (That `UrlLite.parse` is what `url.Parse`
does is sampled by the correspondence, not proved; `url.Parse`'s own totality is trusted.) -/
theorem resolveString_no_panic (link : Bytes) : (resolveString link).isPanic = false := by
  unfold resolveString
  split
  · rfl
  · exact resolveParsed_no_panic _ _ _ _ (Or.inl rfl)

example : (resolveString (lit "t.me?x#y")).isPanic = false := resolveString_no_panic _

/-- The unrepaired `fixURLHost` (defect D16): every non-empty scheme-less link without a '/' — `t.me`,
`hello` — panics in the slice `u.Path[:-1]`. The harness replays `t.me` against the real code
(corpus/c20.ops). -/
theorem d16_unrepaired_panics (path : Bytes) (hne : path ≠ []) (hs : (47 : UInt8) ∉ path) :
    resolveParsedOld [] [] path = .panic "telegram/deeplinks.fixURLHost" := by
  have h1 : hasPrefix path [47] = false := by
    cases path with
    | nil => exact absurd rfl hne
    | cons x xs =>
      simp only [List.mem_cons, not_or] at hs
      simp [hasPrefix_single, hs.1]
  simp [resolveParsedOld, resolveParsedWith, resolveHttpWith, fixURLHostOld, h1, hne,
    indexByte_eq_neg_one.mpr hs, sliceTo]

example : resolveParsedOld [] [] (lit "t.me") = .panic "telegram/deeplinks.fixURLHost" :=
  d16_unrepaired_panics _ (by decide) (by decide)

/-! ## the template map: iteration order is immaterial -/

/-- The two templates never both match a path (`/{username}` needs exactly one '/', `/joinchat/{token}`
exactly two), so which one Go's randomised map iteration tries first cannot matter. -/
theorem templates_exclusive (path : Bytes) (v1 v2 : Vars) :
    ¬ (matchPath tplJoin.tpl path = .ok (some v1) ∧ matchPath tplUser.tpl path = .ok (some v2)) := by
  rintro ⟨h1, h2⟩
  rcases matchPath_user_total path with hu | ⟨u, rfl, hu1, _⟩
  · rw [hu] at h2; cases h2
  · rcases matchPath_join_total (47 :: u) with hj | ⟨t, e, _, _⟩
    · rw [hj] at h1; cases h1
    · exact shapes_disjoint hu1 e

example : matchPath tplJoin.tpl (lit "/joinchat/abc") = .ok (some [(lit "token", lit "abc")]) ∧
    matchPath tplUser.tpl (lit "/joinchat/abc") = .ok none := by decide

/-- Determinism across runs: both iteration orders of the template map give the same result on every
parsed URL. -/
theorem template_order_irrelevant (scheme host path : Bytes) :
    resolveParsedWith fixURLHost [tplJoin, tplUser] scheme host path =
    resolveParsedWith fixURLHost [tplUser, tplJoin] scheme host path := by
  unfold resolveParsedWith
  split
  · obtain ⟨h, p, hf, e1⟩ := resolveHttpWith_eq [tplJoin, tplUser] host path
    obtain ⟨h', p', hf', e2⟩ := resolveHttpWith_eq [tplUser, tplJoin] host path
    rw [hf] at hf'
    cases hf'
    rw [e1, e2]
    split
    · rcases tryTemplates_cases p [tplJoin, tplUser] (Or.inl rfl) with ⟨u, hp, hu, r⟩ | ⟨t, hp, ht, r⟩ | ⟨n1, n2, r⟩ <;>
      rcases tryTemplates_cases p [tplUser, tplJoin] (Or.inr rfl) with ⟨u', hp', hu', r'⟩ | ⟨t', hp', ht', r'⟩ | ⟨n1', n2', r'⟩
      · rw [r, r']; rw [hp] at hp'; cases hp'; rfl
      · rw [hp] at hp'; exact absurd hp' (shapes_disjoint hu)
      · exact absurd ⟨u, hp, hu⟩ n1'
      · rw [hp'] at hp; exact absurd hp (shapes_disjoint hu')
      · rw [r, r']; rw [hp] at hp'; rw [List.append_cancel_left hp']
      · exact absurd ⟨t, hp, ht⟩ n2'
      · exact absurd ⟨u', hp', hu'⟩ n1
      · exact absurd ⟨t', hp', ht'⟩ n2
      · rw [r, r']
    · rfl
  · rfl

example : resolveParsedWith fixURLHost [tplUser, tplJoin] (lit "https") (lit "t.me") (lit "/joinchat/x")
    = .ok (.join (lit "x")) := by decide

/-! ## usernames and invites -/

/-- Clause "a one-segment path resolves to that username lower-cased": scheme none / http / https, a
host text `h` (with or without `:port`, presented by `url.Parse` in either shape) whose `Hostname()`
is reserved, path `/u` with `u` non-empty and slash-free ⇒ `ResolveParameters{Domain: ToLower(u)}`. -/
theorem username_ok (scheme host path h u : Bytes) (hs : OkScheme scheme)
    (hp : Presents host path h (47 :: u)) (hh : hostname h ∈ reservedHosts)
    (hne : u ≠ []) (hu : (47 : UInt8) ∉ u) :
    resolveParsed scheme host path = .ok (.resolve (toLower u)) := by
  have hs' : scheme = [] ∨ scheme = lit "http" ∨ scheme = lit "https" := hs
  have hf : fixURLHost host path = .ok (h, 47 :: u) := by
    cases hp with
    | withAuthority _ _ hne' => exact fixURLHost_host hne'
    | schemeless _ _ hne' hsl _ => exact fixURLHost_schemeless hne' hsl
  obtain ⟨h', p', hf', e⟩ := resolveHttpWith_eq [tplJoin, tplUser] host path
  rw [hf] at hf'; cases hf'
  have hc : stringListContains reservedHosts (hostname h) = true := by
    simpa [stringListContains] using hh
  simp only [resolveParsed, resolveParsedWith, hs', if_true, e, hc]
  rcases tryTemplates_cases (47 :: u) [tplJoin, tplUser] (Or.inl rfl) with ⟨u', e', _, r⟩ | ⟨t, e', _, _⟩ | ⟨n1, _, _⟩
  · cases e'; rw [r]; simp [userResult, hne]
  · exact absurd e' (shapes_disjoint hu)
  · exact absurd ⟨u, rfl, hu⟩ n1

example : resolveParsed (lit "https") (lit "t.me:443") (lit "/BotFather") = .ok (.resolve (lit "botfather")) := by
  have := username_ok (lit "https") (lit "t.me:443") (lit "/BotFather") (lit "t.me:443") (lit "BotFather")
    (by decide) (Presents.withAuthority _ _ (by decide)) (by decide) (by decide) (by decide)
  rw [this]; decide

example : resolveParsed [] [] (lit "telegram.me/Durov") = .ok (.resolve (toLower (lit "Durov"))) :=
  username_ok [] [] _ (lit "telegram.me") (lit "Durov") (by decide)
    (Presents.schemeless (lit "telegram.me") (lit "/Durov") (by decide) (by decide) (Or.inr ⟨_, rfl⟩))
    (by decide) (by decide) (by decide)

/-- Clause "a /joinchat/<token> path [resolves] to that invite token" (the token is not re-cased). -/
theorem invite_ok (scheme host path h t : Bytes) (hs : OkScheme scheme)
    (hp : Presents host path h (lit "/joinchat/" ++ t)) (hh : hostname h ∈ reservedHosts)
    (hne : t ≠ []) (ht : (47 : UInt8) ∉ t) :
    resolveParsed scheme host path = .ok (.join t) := by
  have hs' : scheme = [] ∨ scheme = lit "http" ∨ scheme = lit "https" := hs
  have e0 : lit "/joinchat/" ++ t = 47 :: (lit "joinchat" ++ 47 :: t) := by
    have : lit "/joinchat/" = 47 :: (lit "joinchat" ++ [47]) := by decide
    rw [this]; simp
  have hf : fixURLHost host path = .ok (h, lit "/joinchat/" ++ t) := by
    generalize hq : lit "/joinchat/" ++ t = q at hp
    cases hp with
    | withAuthority _ _ hne' => exact fixURLHost_host hne'
    | schemeless _ _ hne' hsl _ =>
      rw [← hq, e0]; exact fixURLHost_schemeless hne' hsl
  obtain ⟨h', p', hf', e⟩ := resolveHttpWith_eq [tplJoin, tplUser] host path
  rw [hf] at hf'; cases hf'
  have hc : stringListContains reservedHosts (hostname h) = true := by
    simpa [stringListContains] using hh
  simp only [resolveParsed, resolveParsedWith, hs', if_true, e, hc]
  rcases tryTemplates_cases (lit "/joinchat/" ++ t) [tplJoin, tplUser] (Or.inl rfl) with ⟨u', e', hu', _⟩ | ⟨t', e', _, r⟩ | ⟨_, n2, _⟩
  · exact absurd e'.symm (shapes_disjoint hu')
  · rw [r, ← List.append_cancel_left e']; simp [joinResult, hne]
  · exact absurd ⟨t, rfl, ht⟩ n2

example : resolveParsed (lit "http") (lit "telesco.pe") (lit "/joinchat/AAAAAEkk2Wd") = .ok (.join (lit "AAAAAEkk2Wd")) :=
  invite_ok _ _ _ (lit "telesco.pe") (lit "AAAAAEkk2Wd") (by decide)
    (Presents.withAuthority _ _ (by decide)) (by decide) (by decide) (by decide)

/-- "an optional port": a reserved host with or without `:digits` has that host as its `Hostname()`, so
the two theorems above apply to `t.me:443` exactly as to `t.me`. -/
theorem port_ignored (h port : Bytes) (hh : h ∈ reservedHosts) (hp : port.all isDigit = true) :
    hostname h = h ∧ hostname (h ++ 58 :: port) = h := by
  have wf : ∀ x ∈ reservedHosts, (58 : UInt8) ∉ x ∧ hasPrefix x [91] = false := by decide
  obtain ⟨h1, h2⟩ := wf h hh
  exact ⟨hostname_plain h1 h2, hostname_port h2 hp⟩

example : hostname (lit "tx.me" ++ 58 :: lit "443") = lit "tx.me" :=
  (port_ignored (lit "tx.me") (lit "443") (by decide) (by decide)).2

/-! ## everything else is an error -/

/-- The converse of the two clauses, on every parsed URL: the resolver succeeds **only** for an
http(s)/absent scheme, a host whose `Hostname()` is reserved, and a path that is `/u` (one non-empty
segment; result: the lower-cased username) or `/joinchat/t` (non-empty token; result: that token). -/
theorem ok_only_if (scheme host path : Bytes) (d : Deeplink)
    (hok : resolveParsed scheme host path = .ok d) :
    OkScheme scheme ∧ ∃ h p, fixURLHost host path = .ok (h, p) ∧ hostname h ∈ reservedHosts ∧
      ((∃ u, p = 47 :: u ∧ u ≠ [] ∧ (47 : UInt8) ∉ u ∧ d = .resolve (toLower u)) ∨
       (∃ t, p = lit "/joinchat/" ++ t ∧ t ≠ [] ∧ (47 : UInt8) ∉ t ∧ d = .join t)) := by
  unfold resolveParsed resolveParsedWith at hok
  split at hok
  · rename_i hs
    refine ⟨hs, ?_⟩
    obtain ⟨h, p, hf, e⟩ := resolveHttpWith_eq [tplJoin, tplUser] host path
    rw [e] at hok
    split at hok
    · rename_i hc
      refine ⟨h, p, hf, by simpa [stringListContains] using hc, ?_⟩
      rcases tryTemplates_cases p [tplJoin, tplUser] (Or.inl rfl) with ⟨u, hp, hu, r⟩ | ⟨t, hp, ht, r⟩ | ⟨_, _, r⟩
      · left
        rw [r] at hok
        unfold userResult at hok
        split at hok
        · cases hok
        · rename_i hne
          cases hok
          exact ⟨u, hp, hne, hu, rfl⟩
      · right
        rw [r] at hok
        unfold joinResult at hok
        split at hok
        · cases hok
        · rename_i hne
          cases hok
          exact ⟨t, hp, hne, ht, rfl⟩
      · rw [r] at hok; cases hok
    · cases hok
  · split at hok <;> cases hok

example : resolveParsed (lit "https") (lit "t.me") (lit "/a/b/c") = .err "path" := by decide

/-- Clause "anything else … is an error", in the form the property states it: a parsed URL outside the
two shapes gives an error result (not a value, not a panic). -/
theorem everything_else_error (scheme host path : Bytes)
    (hnot : ¬ (OkScheme scheme ∧ ∃ h p, fixURLHost host path = .ok (h, p) ∧ hostname h ∈ reservedHosts ∧
      ((∃ u, p = 47 :: u ∧ u ≠ [] ∧ (47 : UInt8) ∉ u) ∨
       (∃ t, p = lit "/joinchat/" ++ t ∧ t ≠ [] ∧ (47 : UInt8) ∉ t)))) :
    ∃ k, resolveParsed scheme host path = .err k := by
  cases hr : resolveParsed scheme host path with
  | ok d =>
    exfalso
    obtain ⟨hs, h, p, hf, hh, hshape⟩ := ok_only_if _ _ _ _ hr
    refine hnot ⟨hs, h, p, hf, hh, ?_⟩
    rcases hshape with ⟨u, a, b, c, _⟩ | ⟨t, a, b, c, _⟩
    · exact Or.inl ⟨u, a, b, c⟩
    · exact Or.inr ⟨t, a, b, c⟩
  | err k => exact ⟨k, rfl⟩
  | panic s =>
    have := resolveParsed_no_panic scheme host path _ (Or.inl rfl)
    unfold resolveParsed at hr
    rw [hr] at this
    cases this

example : ∃ k, resolveParsed (lit "https") (lit "t.me") (lit "/joinchat/") = .err k :=
  ⟨"token", by decide⟩

/-- "a foreign host": an http(s)/scheme-less link whose host text has a non-reserved `Hostname()` — a
look-alike such as `t.me.evil.com`, `xt.me`, `T.ME`, or the empty host of `/name` — is the error
`hostname is not owned by telegram`, whatever its path. -/
theorem foreign_host_error (scheme host path h p : Bytes) (hs : OkScheme scheme)
    (hf : fixURLHost host path = .ok (h, p)) (hh : hostname h ∉ reservedHosts) :
    resolveParsed scheme host path = .err "host" := by
  have hs' : scheme = [] ∨ scheme = lit "http" ∨ scheme = lit "https" := hs
  obtain ⟨h', p', hf', e⟩ := resolveHttpWith_eq [tplJoin, tplUser] host path
  rw [hf] at hf'; cases hf'
  have hc : ¬ (stringListContains reservedHosts (hostname h) = true) := by
    simpa [stringListContains] using hh
  simp only [resolveParsed, resolveParsedWith, hs', if_true, e, hc]
  rfl

example : resolveParsed [] [] (lit "t.me.evil.com/durov") = .err "host" :=
  foreign_host_error [] [] _ (lit "t.me.evil.com") (lit "/durov") (by decide)
    (fixURLHost_schemeless (h := lit "t.me.evil.com") (r := lit "durov") (by decide) (by decide)) (by decide)

/-- "another scheme": every scheme other than none / http / https is an error (`tg` is the
"not implemented" error, anything else "invalid uri scheme"), whatever host and path. -/
theorem other_scheme_error (scheme host path : Bytes) (hs : ¬ OkScheme scheme) :
    resolveParsed scheme host path = .err (if scheme = lit "tg" then "tg" else "scheme") := by
  have hs' : ¬ (scheme = [] ∨ scheme = lit "http" ∨ scheme = lit "https") := hs
  simp only [resolveParsed, resolveParsedWith, hs', if_false]
  split <;> rfl

example : resolveParsed (lit "ftp") (lit "t.me") (lit "/durov") = .err "scheme" := by
  have := other_scheme_error (lit "ftp") (lit "t.me") (lit "/durov") (by decide)
  rw [this]; decide

/-- "a bare host": a Telegram-owned host without any path — `http://t.me` (Host `t.me`, empty Path) or
the scheme-less `t.me` (empty Host, Path `t.me`; the D16 input) — is the error "this path does not look
valid"; so is the host followed by a lone `/` ("username required"). -/
theorem bare_host_error (scheme host path h : Bytes) (hs : OkScheme scheme)
    (hp : Presents host path h []) (hh : hostname h ∈ reservedHosts) :
    resolveParsed scheme host path = .err "path" := by
  have hs' : scheme = [] ∨ scheme = lit "http" ∨ scheme = lit "https" := hs
  have hf : fixURLHost host path = .ok (h, []) := by
    generalize hq : ([] : Bytes) = q at hp
    cases hp with
    | withAuthority _ _ hne' => exact fixURLHost_host hne'
    | schemeless _ _ hne' hsl _ =>
      subst hq; rw [List.append_nil]; exact fixURLHost_bare hne' hsl
  obtain ⟨h', p', hf', e⟩ := resolveHttpWith_eq [tplJoin, tplUser] host path
  rw [hf] at hf'; cases hf'
  have hc : stringListContains reservedHosts (hostname h) = true := by
    simpa [stringListContains] using hh
  simp only [resolveParsed, resolveParsedWith, hs', if_true, e, hc]
  decide

example : resolveParsed [] [] (lit "t.me") = .err "path" :=
  bare_host_error [] [] _ (lit "t.me") (by decide)
    (by simpa using Presents.schemeless (lit "t.me") [] (by decide) (by decide) (Or.inl rfl)) (by decide)

/-! ## lower-casing -/

/-- "lower-cased": no ASCII capital letter survives in any username the resolver returns, for every
input (valid UTF-8 or not). -/
theorem username_lowercased (scheme host path dom : Bytes)
    (hok : resolveParsed scheme host path = .ok (.resolve dom)) :
    ∀ b ∈ dom, isUpperA b = false := by
  obtain ⟨_, h, p, _, _, hshape⟩ := ok_only_if _ _ _ _ hok
  rcases hshape with ⟨u, _, _, _, e⟩ | ⟨t, _, _, _, e⟩
  · cases e; exact toLower_no_upper u
  · cases e

/-- On ASCII user names (all that Telegram issues) `ToLower` is the byte-wise map `A`–`Z` ↦ `a`–`z`. -/
theorem toLower_ascii (u : Bytes) (h : isAscii u = true) : toLower u = u.map asciiLowerByte := by
  simp [toLower, h]

example : toLower (lit "BotFather_42") = lit "botfather_42" := by decide

/-! ## the reserved hosts (regenerated from parameters.go on every run) -/

/-- The list `ReservedHosts()` returns in the working tree is exactly the five Telegram-owned hosts the
property is about. A host added, removed or re-spelled breaks this obligation. -/
theorem reserved_hosts_are_the_five (h : Bytes) :
    h ∈ reservedHosts ↔
      h = lit "telegram.me" ∨ h = lit "telegram.dog" ∨ h = lit "t.me" ∨ h = lit "tx.me" ∨ h = lit "telesco.pe" := by
  have e : reservedHosts = [lit "telegram.me", lit "telegram.dog", lit "t.me", lit "tx.me", lit "telesco.pe"] := by
    decide
  rw [e]; simp

example : lit "tx.me" ∈ reservedHosts := by decide

/-! ## string level: links of the structured grammar, through `UrlLite.parse`

`[scheme "://"] host [":" port] ("/" seg)* ["?" q] ["#" f]` with the parts of `SLink.WF`: alphabetic
scheme; host over letters, digits, `.`, `-`; numeric port; a path of any bytes except `?`, `#` and
control characters, percent-escapes included; any query without `#`; any fragment with well-formed
escapes; no `host:port` without a scheme (DESIGN §7 reading). These theorems are about the Lean
reading of `net/url.Parse`; that the reading agrees with the Go function is sampled on every run
(`c20.parse`, `c20.resolve`), not proved. Full statement at string level, of which this is the part
over the structured grammar: "for every string s, Resolve(s) is a value or an error [proved on the
model: `resolveString_no_panic`]; it is the username / the token exactly for the links above and an
error for every other string" — for strings outside the grammar only totality is proved. -/

/-- The bridge: on a well-formed structured link the string-level resolver is `resolveParsed` on the
parts the link is written from — scheme lower-cased, host with its port, path percent-decoded; for a
scheme-less link everything arrives in Path, as `url.Parse` does it. Every theorem above transfers. -/
theorem link_resolves_as_parsed (l : SLink) (wf : l.WF) {p' : Bytes}
    (hun : unescape .path l.path = .ok p') :
    resolveString l.render =
      match l.scheme with
      | some s => resolveParsed (s.map asciiLowerByte) (l.host ++ optPart 58 l.port) p'
      | none => resolveParsed [] [] (l.host ++ p') := by
  obtain ⟨u, hp, hcase⟩ := parse_structured l wf hun
  unfold resolveString
  rw [hp]
  rcases hcase with ⟨s, hs, h1, h2, h3⟩ | ⟨hs, h1, h2, h3⟩
  · simp only [hs, h1, h2, h3]
  · simp only [hs, h1, h2, h3]

example : resolveString (lit "HTTPS://t.me:443/Bot%46ather?start=1#x") = .ok (.resolve (lit "botfather")) := by
  have := link_resolves_as_parsed
    { scheme := some (lit "HTTPS"), host := lit "t.me", port := some (lit "443"), path := lit "/Bot%46ather",
      query := some (lit "start=1"), frag := some (lit "x") }
    (wf_of_wfB _ (by decide))
    (p' := lit "/BotFather") (by decide +kernel)
  have e : lit "HTTPS://t.me:443/Bot%46ather?start=1#x" = SLink.render
    { scheme := some (lit "HTTPS"), host := lit "t.me", port := some (lit "443"), path := lit "/Bot%46ather",
      query := some (lit "start=1"), frag := some (lit "x") } := by decide
  rw [e, this]; decide

/-- facts about the regenerated host list used at string level: every reserved host is a non-empty
word over the grammar's host alphabet -/
theorem reservedHosts_wellformed : ∀ h ∈ reservedHosts, h ≠ [] ∧ h.all hostByte = true := by decide

/-- String level, username clause: `[http(s)://] <reserved host> [:port] /<segment> [?q] [#f]` resolves
to the percent-decoded segment, lower-cased. -/
theorem link_username_ok (l : SLink) (wf : l.WF) (hs : l.HttpLike) (hh : l.host ∈ reservedHosts)
    (u : Bytes) (hun : unescape .path l.path = .ok (47 :: u)) (hne : u ≠ []) (hu : (47 : UInt8) ∉ u) :
    resolveString l.render = .ok (.resolve (toLower u)) := by
  rw [link_resolves_as_parsed l wf hun]
  obtain ⟨hne', hall⟩ := reservedHosts_wellformed l.host hh
  have h47 : (47 : UInt8) ∉ l.host := not_mem_of_all hall (fun b hb => (hostByte_facts b hb).1)
  cases hsc : l.scheme with
  | none =>
    simp only
    exact username_ok [] [] _ l.host u (Or.inl rfl)
      (Presents.schemeless l.host (47 :: u) hne' h47 (Or.inr ⟨u, rfl⟩))
      (by rw [(port_ignored l.host [] hh (by simp)).1]; exact hh) hne hu
  | some s =>
    simp only
    have hok : OkScheme (s.map asciiLowerByte) := by
      rcases hs with hn | ⟨s', hs', hcase⟩
      · rw [hsc] at hn; cases hn
      · rw [hsc] at hs'; cases hs'; exact Or.inr hcase
    have hhost : hostname (l.host ++ optPart 58 l.port) ∈ reservedHosts := by
      cases hp : l.port with
      | none => simp only [optPart, List.append_nil]; rw [(port_ignored l.host [] hh (by simp)).1]; exact hh
      | some p => simp only [optPart]; rw [(port_ignored l.host p hh (wf.port_ok p hp)).2]; exact hh
    exact username_ok _ _ _ (l.host ++ optPart 58 l.port) u hok
      (Presents.withAuthority _ _ (by simp [hne'])) hhost hne hu

example : resolveString (lit "telegram.me/Durov") = .ok (.resolve (lit "durov")) := by
  have := link_username_ok { host := lit "telegram.me", path := lit "/Durov" }
    (wf_of_wfB _ (by decide))
    (Or.inl rfl) (by decide) (lit "Durov") (by decide +kernel) (by decide) (by decide)
  have e : lit "telegram.me/Durov" = SLink.render { host := lit "telegram.me", path := lit "/Durov" } := by decide
  rw [e, this]; decide

/-- String level, invite clause: `…/joinchat/<token>` resolves to the percent-decoded token. -/
theorem link_invite_ok (l : SLink) (wf : l.WF) (hs : l.HttpLike) (hh : l.host ∈ reservedHosts)
    (t : Bytes) (hun : unescape .path l.path = .ok (lit "/joinchat/" ++ t)) (hne : t ≠ [])
    (ht : (47 : UInt8) ∉ t) :
    resolveString l.render = .ok (.join t) := by
  rw [link_resolves_as_parsed l wf hun]
  obtain ⟨hne', hall⟩ := reservedHosts_wellformed l.host hh
  have h47 : (47 : UInt8) ∉ l.host := not_mem_of_all hall (fun b hb => (hostByte_facts b hb).1)
  have e0 : lit "/joinchat/" ++ t = 47 :: (lit "joinchat" ++ 47 :: t) := by
    have : lit "/joinchat/" = 47 :: (lit "joinchat" ++ [47]) := by decide
    rw [this]; simp
  cases hsc : l.scheme with
  | none =>
    simp only
    exact invite_ok [] [] _ l.host t (Or.inl rfl)
      (Presents.schemeless l.host _ hne' h47 (Or.inr ⟨_, e0⟩))
      (by rw [(port_ignored l.host [] hh (by simp)).1]; exact hh) hne ht
  | some s =>
    simp only
    have hok : OkScheme (s.map asciiLowerByte) := by
      rcases hs with hn | ⟨s', hs', hcase⟩
      · rw [hsc] at hn; cases hn
      · rw [hsc] at hs'; cases hs'; exact Or.inr hcase
    have hhost : hostname (l.host ++ optPart 58 l.port) ∈ reservedHosts := by
      cases hp : l.port with
      | none => simp only [optPart, List.append_nil]; rw [(port_ignored l.host [] hh (by simp)).1]; exact hh
      | some p => simp only [optPart]; rw [(port_ignored l.host p hh (wf.port_ok p hp)).2]; exact hh
    exact invite_ok _ _ _ (l.host ++ optPart 58 l.port) t hok
      (Presents.withAuthority _ _ (by simp [hne'])) hhost hne ht

example : resolveString (lit "http://telesco.pe/joinchat/AbC_1#f") = .ok (.join (lit "AbC_1")) := by
  have := link_invite_ok { scheme := some (lit "http"), host := lit "telesco.pe", path := lit "/joinchat/AbC_1", frag := some (lit "f") }
    (wf_of_wfB _ (by decide))
    (Or.inr ⟨_, rfl, Or.inl (by decide)⟩) (by decide) (lit "AbC_1") (by decide +kernel) (by decide) (by decide)
  have e : lit "http://telesco.pe/joinchat/AbC_1#f" = SLink.render
    { scheme := some (lit "http"), host := lit "telesco.pe", path := lit "/joinchat/AbC_1", frag := some (lit "f") } := by decide
  rw [e, this]

/-- String level, "a bare host": a reserved host (any accepted scheme, any port) with no path at all —
`t.me`, `https://t.me:443`, `t.me?start=x` — is an error. -/
theorem link_bare_host_error (l : SLink) (wf : l.WF) (hs : l.HttpLike) (hh : l.host ∈ reservedHosts)
    (hp : l.path = []) : resolveString l.render = .err "path" := by
  have hun : unescape .path l.path = .ok [] := by rw [hp]; rfl
  rw [link_resolves_as_parsed l wf hun]
  obtain ⟨hne', hall⟩ := reservedHosts_wellformed l.host hh
  have h47 : (47 : UInt8) ∉ l.host := not_mem_of_all hall (fun b hb => (hostByte_facts b hb).1)
  cases hsc : l.scheme with
  | none =>
    simp only
    exact bare_host_error [] [] _ l.host (Or.inl rfl)
      (Presents.schemeless l.host [] hne' h47 (Or.inl rfl))
      (by rw [(port_ignored l.host [] hh (by simp)).1]; exact hh)
  | some s =>
    simp only
    have hok : OkScheme (s.map asciiLowerByte) := by
      rcases hs with hn | ⟨s', hs', hcase⟩
      · rw [hsc] at hn; cases hn
      · rw [hsc] at hs'; cases hs'; exact Or.inr hcase
    have hhost : hostname (l.host ++ optPart 58 l.port) ∈ reservedHosts := by
      cases hp : l.port with
      | none => simp only [optPart, List.append_nil]; rw [(port_ignored l.host [] hh (by simp)).1]; exact hh
      | some p => simp only [optPart]; rw [(port_ignored l.host p hh (wf.port_ok p hp)).2]; exact hh
    exact bare_host_error _ _ _ (l.host ++ optPart 58 l.port) hok
      (Presents.withAuthority _ _ (by simp [hne'])) hhost

example : resolveString (lit "t.me?start=abc") = .err "path" := by
  have := link_bare_host_error { host := lit "t.me", query := some (lit "start=abc") }
    (wf_of_wfB _ (by decide))
    (Or.inl rfl) (by decide) rfl
  have e : lit "t.me?start=abc" = SLink.render { host := lit "t.me", query := some (lit "start=abc") } := by decide
  rw [e, this]

/-- String level, "a foreign host" — partial: foreign hosts over the grammar's host alphabet (letters,
digits, `.`, `-`: `t.me.evil.com`, `xt.me`, `T.ME`, `t.me.`), and paths with well-formed escapes; a host
written with other bytes is covered by `foreign_host_error` on the parsed URL only. -/
theorem link_foreign_host_error_partial (l : SLink) (wf : l.WF) (hs : l.HttpLike) (hne : l.host ≠ [])
    (hh : l.host ∉ reservedHosts) {p' : Bytes} (hun : unescape .path l.path = .ok p') :
    resolveString l.render = .err "host" := by
  rw [link_resolves_as_parsed l wf hun]
  have h47 : (47 : UInt8) ∉ l.host := not_mem_of_all wf.host_ok (fun b hb => (hostByte_facts b hb).1)
  have h58 : (58 : UInt8) ∉ l.host := not_mem_of_all wf.host_ok (fun b hb => (hostByte_facts b hb).2.1)
  have h91 : hasPrefix l.host [91] = false := by
    cases hl : l.host with
    | nil => exact absurd hl hne
    | cons x xs =>
      have := (hostByte_facts x (List.all_eq_true.mp wf.host_ok x (by simp [hl]))).2.2.2.2.2.2.1
      simp only [hasPrefix_single, decide_eq_false_iff_not]
      exact fun e => this e.symm
  have hroot : p' = [] ∨ ∃ r, p' = 47 :: r := by
    rcases wf.path_root with hp | ⟨r, hp⟩
    · rw [hp] at hun; cases hun; exact Or.inl rfl
    · right
      rw [hp] at hun
      unfold unescape at hun
      unfold unescapeCheck unescapeBytes at hun
      have h37 : ¬ ((47 : UInt8) = 37) := by decide
      simp only [h37, if_false] at hun
      have hm : ¬ ((EscMode.path = EscMode.host ∨ EscMode.path = EscMode.zone) ∧ (47 : UInt8).toNat < 128 ∧ shouldEscapeHost 47 = true) := by
        simp
      simp only [hm, if_false] at hun
      revert hun
      cases unescapeCheck .path r with
      | ok _ => intro hun; simp only [Except.ok.injEq] at hun; exact ⟨_, hun.symm⟩
      | error e => intro hun; cases hun
  cases hsc : l.scheme with
  | none =>
    simp only
    have hf : fixURLHost [] (l.host ++ p') = .ok (l.host, p') := by
      rcases hroot with rfl | ⟨r, rfl⟩
      · rw [List.append_nil]; exact fixURLHost_bare hne h47
      · exact fixURLHost_schemeless hne h47
    exact foreign_host_error [] [] _ l.host p' (Or.inl rfl) hf (by rw [hostname_plain h58 h91]; exact hh)
  | some s =>
    simp only
    have hok : OkScheme (s.map asciiLowerByte) := by
      rcases hs with hn | ⟨s', hs', hcase⟩
      · rw [hsc] at hn; cases hn
      · rw [hsc] at hs'; cases hs'; exact Or.inr hcase
    have hhost : hostname (l.host ++ optPart 58 l.port) = l.host := by
      cases hp : l.port with
      | none => simp only [optPart, List.append_nil]; exact hostname_plain h58 h91
      | some p => simp only [optPart]; exact hostname_port h91 (wf.port_ok p hp)
    exact foreign_host_error _ _ _ (l.host ++ optPart 58 l.port) p' hok
      (fixURLHost_host (by simp [hne])) (by rw [hhost]; exact hh)

example : resolveString (lit "https://t.me.evil.com/durov") = .err "host" := by
  have := link_foreign_host_error_partial { scheme := some (lit "https"), host := lit "t.me.evil.com", path := lit "/durov" }
    (wf_of_wfB _ (by decide))
    (Or.inr ⟨_, rfl, Or.inr (by decide)⟩) (by decide) (by decide) (p' := lit "/durov") (by decide +kernel)
  have e : lit "https://t.me.evil.com/durov" = SLink.render
    { scheme := some (lit "https"), host := lit "t.me.evil.com", path := lit "/durov" } := by decide
  rw [e, this]

/-- String level, "another scheme" — partial: alphabetic schemes (`tg`, `ftp`, `mailto`, …) in front of
`://`, paths with well-formed escapes. -/
theorem link_other_scheme_error_partial (l : SLink) (wf : l.WF) (s : Bytes) (hsc : l.scheme = some s)
    (hs : ¬ OkScheme (s.map asciiLowerByte)) {p' : Bytes} (hun : unescape .path l.path = .ok p') :
    ∃ k, resolveString l.render = .err k := by
  rw [link_resolves_as_parsed l wf hun]
  simp only [hsc]
  exact ⟨_, other_scheme_error _ _ _ hs⟩

example : ∃ k, resolveString (lit "tg://t.me/durov") = .err k := by
  have := link_other_scheme_error_partial { scheme := some (lit "tg"), host := lit "t.me", path := lit "/durov" }
    (wf_of_wfB _ (by decide))
    (lit "tg") rfl (by decide) (p' := lit "/durov") (by decide +kernel)
  have e : lit "tg://t.me/durov" = SLink.render { scheme := some (lit "tg"), host := lit "t.me", path := lit "/durov" } := by decide
  rw [e]; exact this

end Mtv.Links
