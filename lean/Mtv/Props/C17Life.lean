/-
  C17, last clause ("the client reconnects to the address configured for data centre X and repeats the request
  there"), together with C16 ("requests issued afterwards still complete"), for the client whose `Reconnect` is
  serialised (pending_fixes/C17-reconnect-serialised.patch; model: Mtv/Client/LifecycleSerial.lean).
  Property theorems only.
-/
import Mtv.Client.LifecycleSerial
import Mtv.Props.C16Life
namespace Mtv.Client.Life
open Mtv.Client

/-- every step of the serialised client is a step of the lifecycle model: all theorems about `step` / `run` /
`Reachable` (Props/C16Life.lean) hold for it -/
theorem stepS_refines {s s' : LSt} {e : LEv} (h : stepS s e = some s') : step s e = some s' := by
  unfold stepS at h
  split at h
  · simp at h
  · exact h

theorem runS_refines (es : List LEv) : ∀ (s s' : LSt), runS s es = some s' → run s es = some s' := by
  induction es with
  | nil => intro s s' h; simpa [runS, run] using h
  | cons e es ih =>
    intro s s' h
    simp only [runS] at h
    cases hs : stepS s e with
    | none => simp [hs] at h
    | some s1 =>
      rw [hs] at h
      simp only [run, stepS_refines hs]
      exact ih s1 s' h

example : runS (connected0 {} true 7) [.connClosed, .redialOk 2 0] ≠ none := by decide +kernel

theorem begin_overlaps_free (s : LSt) (b : Bool) (hf : s.inflight = []) : (beginReconnect s b).overlaps = s.overlaps := by
  simp [beginReconnect, hf]

/-- **Reconnects never overlap**: no step of the serialised client counts an overlap — whoever takes the lock finds
no dial in progress -/
theorem stepS_no_overlap {s s' : LSt} {e : LEv} (h : stepS s e = some s') : s'.overlaps = s.overlaps := by
  unfold stepS at h
  split at h
  · simp at h
  · rename_i hl
    cases e with
    | mach ev =>
      simp only [step] at h
      split at h
      · cases hm : Client.step s.m ev with
        | none => simp [hm] at h
        | some m' => simp [hm] at h; subst h; rfl
      · simp at h
    | connClosed =>
      have hf : s.inflight = [] := by simpa [takesLock, lockFree, List.isEmpty_iff] using hl
      simp only [step] at h
      split at h
      · simp only [Option.some.injEq] at h; subst h
        unfold lose
        split
        · rw [begin_overlaps_free _ _ (by simpa using hf)]
        · rfl
      · simp at h
    | connBroken =>
      have hf : s.inflight = [] := by simpa [takesLock, lockFree, List.isEmpty_iff] using hl
      simp only [step] at h
      split at h
      · simp only [Option.some.injEq] at h; subst h
        unfold lose
        split
        · rw [begin_overlaps_free _ _ (by simpa using hf)]
        · rfl
      · simp at h
    | redialOk c k =>
      simp only [step] at h
      split at h
      · simp only [Option.some.injEq] at h; subst h; rfl
      · simp at h
    | redialFailed c =>
      simp only [step] at h
      split at h
      · simp only [Option.some.injEq] at h; subst h; rfl
      · simp at h
    | appReconnect =>
      have hf : s.inflight = [] := by simpa [takesLock, lockFree, List.isEmpty_iff] using hl
      simp only [step, Option.some.injEq] at h; subst h
      exact begin_overlaps_free _ _ hf
    | appDisconnect =>
      simp only [step, Option.some.injEq] at h; subst h; rfl
    | readerExit c =>
      simp only [step] at h
      split at h
      · simp only [Option.some.injEq] at h; subst h; rfl
      · simp at h
    | callDown c o =>
      simp only [step] at h
      split at h
      · simp only [Option.some.injEq] at h; subst h; rfl
      · simp at h

theorem runS_no_overlap (es : List LEv) : ∀ (s s' : LSt), runS s es = some s' → s'.overlaps = s.overlaps := by
  induction es with
  | nil => intro s s' h; simp [runS] at h; subst h; rfl
  | cons e es ih =>
    intro s s' h
    simp only [runS] at h
    cases hs : stepS s e with
    | none => simp [hs] at h
    | some s1 =>
      rw [hs] at h
      rw [ih s1 s' h, stepS_no_overlap hs]

/-- **the receive loop survives every loss of the connection, overlapping Reconnects included**: for the serialised
client `reader_survives_connection_loss` holds WITHOUT the hypothesis "no Reconnect while a redial is in progress" — a
client that holds a key is, after ANY history in which no dial failed and the application did not call Disconnect,
reading on its current connection or dialling the one that replaces it; PHONE_MIGRATE_X answered together with a
hang-up (reading routine and caller both reconnect) is such a history. -/
theorem reader_survives_connection_loss_serialised (m : St) (keyId : Nat) (es : List LEv) (s : LSt)
    (hr : runS (connected0 m true keyId) es = some s)
    (hq : s.failedDials = 0 ∧ s.disconnects = 0) : Steady s :=
  reader_survives_connection_loss m keyId es s (runS_refines es _ _ hr)
    ⟨hq.1, hq.2, by rw [runS_no_overlap es _ _ hr]; rfl⟩

/-- the history that strands the unserialised client (`overlapping_reconnect_can_strand_the_client`) is not a
history of the serialised one: the caller's Reconnect cannot begin while the reading routine's dial is in progress -/
theorem stranding_history_excluded :
    runS (connected0 {} true 7) [.connClosed, .appReconnect] = none ∧
    runS (connected0 {} true 7) [.appReconnect, .connClosed] = none := by decide +kernel

/-- PHONE_MIGRATE_X answered together with a hang-up, both orders of taking the lock: the client ends reading on a
usable transport with exactly one live reading routine and nothing dialling (what the harness observes on the real
client in every run of `c17.race`) -/
theorem migrate_with_hangup_settles : migrateWithHangupSettles = true := by decide +kernel

end Mtv.Client.Life
