/-
  C16 — no server message can kill the client process or stop its receive loop.
  Property theorems only. Model: Mtv/Client/Machine.lean for the loop's bookkeeping; the decoding of
  message bodies is the decoder model of C15 (`decodeUnknown_no_panic`: for every byte string the result
  is a value or an error), whose error outcome is the message `Msg.odd` here.
-/
import Mtv.Lemmas.ClientInv2
import Mtv.Props.C15
namespace Mtv.Client

/-- **the receive loop handles every message**: whatever the server sends — results for unknown or already
answered requests, notifications, unknown constructors and malformed bodies (`odd`), empty and nested
containers to any depth (beyond `maxContainerDepth` the container is refused as a whole, with a warning) —
processing yields a next state; there is no message on which the loop stops -/
theorem recv_total (s : St) (mid seq : Nat) (m : Msg) : ∃ s', step s (.recv mid seq m) = some s' :=
  ⟨process 0 s mid seq m, rfl⟩

/-- the loop's state stays within the invariants that make every owed action possible, after ANY
history of server messages interleaved with any client activity -/
theorem loop_state_sane (s : St) (h : Reachable s) :
    (∀ c, inProgress s c ≤ 1) ∧ (∀ e ∈ s.pending, ∃ seq, (e.1, seq, e.2) ∈ s.sent) ∧
    s.storeLog.reverse ++ s.owedStore = s.adopted :=
  ⟨callerOnce_reachable s h, pendingOk_reachable s h, (storeOk_reachable s h).1⟩

/-- **requests issued afterwards still complete**: in any reachable state a caller with no call in
progress can write a request (with any fresh msg_id), and a result naming it is handed to that caller and
can be returned — whatever else is going on -/
theorem probe_completes (s : St) (c id seq : Nat) (v : String)
    (hfresh : inProgress s c = 0) (hid : id % 4 = 0 ∧ s.lastId < id) (hseq : seq % 2 = 1 ∧ s.lastSeq ≤ seq) :
    ∃ s1, step s (.send c id seq s.salt) = some s1 ∧
      (c, id, v) ∈ (resStep s1 id v).owedDeliver := by
  have hP : cntP c s.pending = 0 := by unfold inProgress at hfresh; omega
  have hD : cntD c s.owedDeliver = 0 := by unfold inProgress at hfresh; omega
  have hR : cntR c s.owedResend = 0 := by unfold inProgress at hfresh; omega
  have hnr : c ∉ s.owedResend := fun hin => by have := cntR_pos_of_mem hin; omega
  have hp : (s.pending.any fun e => e.2 == c) = false := not_any_of_cntP_zero hP
  have hd : (s.owedDeliver.any fun e => e.1 == c) = false := not_any_of_cntD_zero hD
  have hmay : mayCall s c = true := by unfold mayCall; simp [hp, hd]
  refine ⟨_, by simp [step, hid.1, hid.2, hseq.1, hseq.2, hmay, hnr]; rfl, ?_⟩
  simp [resStep, lookupPending]

/-- well-formed service traffic is handled silently: pong, msgs_ack, an empty container change nothing
but the acknowledgement bookkeeping and raise no warning -/
theorem service_traffic_silent (s : St) (mid seq : Nat) :
    (process 0 s mid seq .quiet).warnings = s.warnings ∧ (process 0 s mid seq (.cont [])).warnings = s.warnings ∧
    (process 0 s mid seq .quiet).pending = s.pending := by
  simp only [process, processAll, oweAck, maxContainerDepth, show (0 : Nat) < 4 from by decide, if_true]
  split <;> simp

/-- a container nested deeper than the client accepts is refused as a whole: one warning, nothing else
changes — its members are never looked at, whatever they are and however many levels follow (this is
what bounds the memory a nested message can cost: every accepted level holds a copy of the levels below) -/
theorem too_deep_is_warned (s : St) (d mid seq : Nat) (hd : maxContainerDepth ≤ d) (ms : List (Nat × Nat × Msg)) :
    (process d s mid seq (.cont ms)).warnings = s.warnings + 1 ∧ (process d s mid seq (.cont ms)).pending = s.pending ∧
    (process d s mid seq (.cont ms)).owedDeliver = s.owedDeliver := by
  have : ¬ d < maxContainerDepth := by omega
  simp only [process, this, if_false, warnStep, oweAck]
  split <;> simp

/-- anything the client cannot make sense of is surfaced as a warning and changes nothing else -/
theorem odd_is_warned (s : St) (mid seq : Nat) :
    (process 0 s mid seq .odd).warnings = s.warnings + 1 ∧ (process 0 s mid seq .odd).pending = s.pending ∧
    (process 0 s mid seq .odd).owedDeliver = s.owedDeliver := by
  simp only [process, warnStep, oweAck]
  split <;> simp

/-- **a plain-text frame is ignored by a session that works under its auth key**: whatever the frame carries —
new_session_created or bad_server_salt with a new salt, an rpc_result or a bad_msg_notification naming a pending
request, an update, a container of these, nested or not — the step is enabled (the loop does not stop) and the
next state is the old one with one more warning. Nothing else moves: not the salt, not what is owed to the
session store, not the pending requests, nothing is handed to a caller, nothing is owed an acknowledgement, no
history variable is touched. (Anybody on the path can write such a frame: no key is needed for it. Property C04
asks that a packet yields a message only under the session's key id; the machine describes a keyed session.) -/
theorem plain_frame_is_ignored (s : St) (mid : Nat) (m : Msg) :
    step s (.plain mid m) = some { s with warnings := s.warnings + 1 } := rfl

/-- … and so for any number of them in a row: the state after `fs` is the state before, `fs.length` warnings later -/
theorem plain_frames_are_ignored (fs : List (Nat × Msg)) : ∀ (s : St),
    run s (fs.map fun f => Ev.plain f.1 f.2) = some { s with warnings := s.warnings + fs.length } := by
  induction fs with
  | nil => intro s; rfl
  | cons f fs ih =>
    intro s
    simp only [List.map_cons, run, plain_frame_is_ignored, ih, List.length_cons]
    congr 2
    omega

/-- the contrast: the same messages accepted as messages of the server (`recv`) do move the salt, the store and the
pending request; as plain-text frames they move nothing -/
example :
    (run {} [.send 0 1000 1 5, .recv 71 1 (.news 77), .recv 75 3 (.res 1000 "forged")]).map
        (fun s => (s.salt, s.owedStore, s.pending, s.warnings)) = some (77, [77], [], 0) ∧
    (run {} [.send 0 1000 1 5, .recv 71 1 (.news 77), .recv 75 3 (.res 1000 "forged")]).map
        (fun s => (s.owedDeliver, s.owedAck)) = some ([(0, 1000, "forged")], [71, 75]) :=
  ⟨by decide +kernel, by decide +kernel⟩
example :
    (run {} [.send 0 1000 1 5, .plain 71 (.news 77), .plain 75 (.res 1000 "forged"),
             .plain 79 (.cont [(72, 1, .salt 1000 9), (76, 3, .badmsg 1000), (80, 5, .odd)])]).map
        (fun s => (s.salt, s.owedStore, s.pending, s.warnings)) = some (0, [], [(1000, 0)], 3) ∧
    (run {} [.send 0 1000 1 5, .plain 71 (.news 77), .plain 75 (.res 1000 "forged"),
             .plain 79 (.cont [(72, 1, .salt 1000 9), (76, 3, .badmsg 1000), (80, 5, .odd)])]).map
        (fun s => (s.owedDeliver, s.owedAck)) = some ([], []) :=
  ⟨by decide +kernel, by decide +kernel⟩

/-- the decoder never panics on a message body (restated from C15, for the registry of the working tree) -/
theorem body_decoding_total (gz : Bytes → Option Bytes) (fuel : Nat) (hints : List Mtv.TL.Ty) (body : Bytes)
    (hh : Mtv.TL.AllVec hints) :
    (Mtv.TL.decodeUnknown Mtv.Gen.registry gz fuel hints body).isPanic = false :=
  Mtv.TL.decodeUnknown_no_panic Mtv.Gen.registry gz fuel hints body hh

/-! ## non-vacuity: a hostile history, then a probe that completes -/
example :
    (run {} [.recv 11 1 .odd, .recv 13 3 (.res 424242 "stray"), .recv 16 4 (.cont []),
             .recv 21 5 (.cont [(17, 7, .cont [(15, 9, .badmsg 99)])]), .recv 24 6 .quiet,
             .send 0 1000 1 0, .plain 25 (.res 1000 "forged"), .recv 27 11 (.res 1000 "probe"), .deliver 0 "probe"]).map
      (fun s => (s.delivered, s.warnings)) = some ([(0, 1000, "probe")], 4) := by decide +kernel

end Mtv.Client
