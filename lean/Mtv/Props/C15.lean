/-
  C15 — decoding arbitrary bytes always ends in a value or an error, never a panic.
  Property theorems only. Model: Mtv/TL/Decode.lean (explicit `panic` outcomes at the Go sites that can
  panic), generic in the registry and in the gzip function.
-/
import Mtv.TL.Decode
import Mtv.TL.Typing
import Mtv.Gen.Registry
import Mtv.Lemmas.C15Fuel
namespace Mtv.TL

/-- vector hints as `DecodeUnknownObject`'s callers pass them: slice types -/
def AllVec (hs : List Ty) : Prop := ∀ h ∈ hs, ∃ e, h = .vec e

/-- result is not a panic, and the hints that remain are still slice types -/
def Safe {α : Type} (r : DRes α) : Prop :=
  match r with
  | .ok (_, _, hs') => AllVec hs'
  | .err _ => True
  | .panic _ => False

theorem AllVec_tail {h : Ty} {hs : List Ty} (H : AllVec (h :: hs)) : AllVec hs :=
  fun x hx => H x (by simp [hx])

private theorem safe_err {α : Type} (e : String) : Safe (Outcome.err e : DRes α) := trivial

/-! the byte-level readers return a value or an error -/

theorem readN_ne_panic (n : Nat) (bs : Bytes) (s : String) : readN n bs ≠ .panic s := by
  unfold readN; split
  · intro h; cases h
  · split <;> (intro h; cases h)

theorem popUint_ne_panic (bs : Bytes) (s : String) : popUint bs ≠ .panic s := by
  unfold popUint
  cases h : readN 4 bs with
  | ok p => intro h2; cases h2
  | err e => intro h2; cases h2
  | panic s' => exact absurd h (readN_ne_panic _ _ _)

theorem popLong_ne_panic (bs : Bytes) (s : String) : popLong bs ≠ .panic s := by
  unfold popLong
  cases h : readN 8 bs with
  | ok p => intro h2; cases h2
  | err e => intro h2; cases h2
  | panic s' => exact absurd h (readN_ne_panic _ _ _)

theorem popBool_ne_panic (bs : Bytes) (s : String) : popBool bs ≠ .panic s := by
  unfold popBool
  cases h : popUint bs with
  | ok p =>
    obtain ⟨c, r⟩ := p
    simp only
    split
    · intro h2; cases h2
    · split <;> (intro h2; cases h2)
  | err e => intro h2; cases h2
  | panic s' => exact absurd h (popUint_ne_panic _ _)

theorem popRaw_ne_panic (size : Int) (bs : Bytes) (s : String) : popRaw size bs ≠ .panic s := by
  unfold popRaw
  split
  · intro h; cases h
  · split
    · intro h; cases h
    · split
      · intro h; cases h
      · exact readN_ne_panic _ _ _

theorem popMessage_ne_panic (bs : Bytes) (s : String) : popMessage bs ≠ .panic s := by
  unfold popMessage
  cases h1 : readN 1 bs with
  | err e => intro h; cases h
  | panic s' => exact absurd h1 (readN_ne_panic _ _ _)
  | ok p =>
    obtain ⟨h, r⟩ := p
    simp only
    by_cases hfe : h = [0xfe]
    · simp only [hfe, if_true]
      cases h3 : readN 3 r with
      | err e => intro hh; cases hh
      | panic s' => exact absurd h3 (readN_ne_panic _ _ _)
      | ok q =>
        obtain ⟨l, r2⟩ := q
        simp only
        split
        · intro hh; cases hh
        · cases h4 : readN (fromLE l) r2 with
          | err e => intro hh; cases hh
          | panic s' => exact absurd h4 (readN_ne_panic _ _ _)
          | ok q2 =>
            obtain ⟨buf, r3⟩ := q2
            simp only
            split
            · intro hh; cases hh
            · cases h5 : readN (4 - (4 + fromLE l) % 4) r3 with
              | err e => intro hh; cases hh
              | panic s' => exact absurd h5 (readN_ne_panic _ _ _)
              | ok q3 =>
                obtain ⟨pad, r4⟩ := q3
                simp only
                split <;> (intro hh; cases hh)
    · simp only [hfe, if_false]
      split
      · intro hh; cases hh
      · cases h4 : readN (fromLE h) r with
        | err e => intro hh; cases hh
        | panic s' => exact absurd h4 (readN_ne_panic _ _ _)
        | ok q2 =>
          obtain ⟨buf, r3⟩ := q2
          simp only
          split
          · intro hh; cases hh
          · cases h5 : readN (4 - (1 + fromLE h) % 4) r3 with
            | err e => intro hh; cases hh
            | panic s' => exact absurd h5 (readN_ne_panic _ _ _)
            | ok q3 =>
              obtain ⟨pad, r4⟩ := q3
              simp only
              split <;> (intro hh; cases hh)

theorem decMembers_ne_panic : ∀ (n : Nat) (bs : Bytes) (s : String), decMembers n bs ≠ .panic s
  | 0, bs, s => by simp [decMembers]
  | n + 1, bs, s => by
    simp only [decMembers]
    cases h1 : popLong bs with
    | err e => intro h; cases h
    | panic s' => exact absurd h1 (popLong_ne_panic _ _)
    | ok p =>
      obtain ⟨mid, r1⟩ := p
      simp only
      cases h2 : popUint r1 with
      | err e => intro h; cases h
      | panic s' => exact absurd h2 (popUint_ne_panic _ _)
      | ok p2 =>
        obtain ⟨seq, r2⟩ := p2
        simp only
        cases h3 : popUint r2 with
        | err e => intro h; cases h
        | panic s' => exact absurd h3 (popUint_ne_panic _ _)
        | ok p3 =>
          obtain ⟨size, r3⟩ := p3
          simp only
          cases h4 : popRaw (toSigned 32 size) r3 with
          | err e => intro h; cases h
          | panic s' => exact absurd h4 (popRaw_ne_panic _ _ _)
          | ok p4 =>
            obtain ⟨body, r4⟩ := p4
            simp only
            cases h5 : decMembers n r4 with
            | err e => intro h; cases h
            | panic s' => exact absurd h5 (decMembers_ne_panic n r4 s')
            | ok p5 => obtain ⟨ms, r5⟩ := p5; intro h; cases h

/-- a primitive field: reader result wrapped into a value, hints untouched -/
private theorem safe_prim {β : Type} (x : Outcome (β × Bytes)) (hs : List Ty) (mk : β → Val)
    (hx : ∀ s, x ≠ .panic s) (H : AllVec hs) :
    Safe (match x with
      | .ok (n, r) => (Outcome.ok (mk n, r, hs) : DRes Val)
      | .err e => .err e
      | .panic s => .panic s) := by
  cases x with
  | ok p => obtain ⟨n, r⟩ := p; exact H
  | err e => trivial
  | panic s => exact absurd rfl (hx s)

/-- All six mutually recursive decoder functions at once, by induction on the fuel. -/
theorem decoder_safe (R : Registry) (gz : Bytes → Option Bytes) : ∀ (fuel : Nat),
    (∀ dp ty bs hs, AllVec hs → Safe (decVal R gz dp fuel ty bs hs)) ∧
    (∀ dp e bs hs, AllVec hs → Safe (decVecBody R gz dp fuel e bs hs)) ∧
    (∀ dp e n bs hs, AllVec hs → Safe (decItems R gz dp fuel e n bs hs)) ∧
    (∀ dp d bs hs, AllVec hs → Safe (decStruct R gz dp fuel d bs hs)) ∧
    (∀ dp k w fs bs hs, AllVec hs → Safe (decFields R gz dp fuel k w fs bs hs)) ∧
    (∀ dp bs hs, AllVec hs → Safe (decRegistered R gz dp fuel bs hs))
  | 0 => by
    refine ⟨?_, ?_, ?_, ?_, ?_, ?_⟩
    · intro dp ty bs hs _; simp [decVal, Safe]
    · intro dp e bs hs _; simp [decVecBody, Safe]
    · intro dp e n bs hs H; cases n <;> simp [decItems, Safe, H]
    · intro dp d bs hs _; simp [decStruct, Safe]
    · intro dp k w fs bs hs H; cases fs <;> simp [decFields, Safe, H]
    · intro dp bs hs _; simp [decRegistered, Safe]
  | fuel + 1 => by
    obtain ⟨ihVal, ihVec, ihItems, ihStruct, ihFields, ihReg⟩ := decoder_safe R gz fuel
    have hUint : ∀ bs, ¬ (popUint bs).isPanic := by
      intro bs
      cases h : popUint bs with
      | panic s => exact absurd h (popUint_ne_panic _ _)
      | ok p => simp [Outcome.isPanic]
      | err e => simp [Outcome.isPanic]
    refine ⟨?_, ?_, ?_, ?_, ?_, ?_⟩
    · -- decVal
      intro dp ty bs hs H
      cases ty with
      | int32 =>
        simp only [decVal]
        cases h : popUint bs with
        | ok p => obtain ⟨n, r⟩ := p; exact H
        | err e => exact safe_err _
        | panic s => exact absurd h (popUint_ne_panic _ _)
      | uint32 =>
        simp only [decVal]
        cases h : popUint bs with
        | ok p => obtain ⟨n, r⟩ := p; exact H
        | err e => exact safe_err _
        | panic s => exact absurd h (popUint_ne_panic _ _)
      | enum nm =>
        simp only [decVal]
        cases h : popUint bs with
        | ok p => obtain ⟨n, r⟩ := p; exact H
        | err e => exact safe_err _
        | panic s => exact absurd h (popUint_ne_panic _ _)
      | int64 =>
        simp only [decVal]
        cases h : popLong bs with
        | ok p => obtain ⟨n, r⟩ := p; exact H
        | err e => exact safe_err _
        | panic s => exact absurd h (popLong_ne_panic _ _)
      | f64 =>
        simp only [decVal]
        cases h : popLong bs with
        | ok p => obtain ⟨n, r⟩ := p; exact H
        | err e => exact safe_err _
        | panic s => exact absurd h (popLong_ne_panic _ _)
      | bool =>
        simp only [decVal]
        cases h : popBool bs with
        | ok p => obtain ⟨n, r⟩ := p; exact H
        | err e => exact safe_err _
        | panic s => exact absurd h (popBool_ne_panic _ _)
      | str =>
        simp only [decVal]
        cases h : popMessage bs with
        | ok p => obtain ⟨n, r⟩ := p; exact H
        | err e => exact safe_err _
        | panic s => exact absurd h (popMessage_ne_panic _ _)
      | bytes =>
        simp only [decVal]
        cases h : popMessage bs with
        | ok p => obtain ⟨n, r⟩ := p; exact H
        | err e => exact safe_err _
        | panic s => exact absurd h (popMessage_ne_panic _ _)
      | i128 =>
        simp only [decVal]
        cases h : popRaw 16 bs with
        | ok p => obtain ⟨n, r⟩ := p; exact H
        | err e => exact safe_err _
        | panic s => exact absurd h (popRaw_ne_panic _ _ _)
      | i256 =>
        simp only [decVal]
        cases h : popRaw 32 bs with
        | ok p => obtain ⟨n, r⟩ := p; exact H
        | err e => exact safe_err _
        | panic s => exact absurd h (popRaw_ne_panic _ _ _)
      | bad w => simp [decVal, Safe]
      | vec e =>
        simp only [decVal]
        cases h : popUint bs with
        | err _ => exact safe_err _
        | panic s => exact absurd (by simp [h, Outcome.isPanic]) (hUint bs)
        | ok p =>
          obtain ⟨crc, r⟩ := p
          simp only
          split
          · exact safe_err _
          · exact ihVec dp e r hs H
      | ptr id =>
        simp only [decVal]
        cases R.find id with
        | none => exact safe_err _
        | some d =>
          simp only
          cases d.kind with
          | struct =>
            simp only
            cases h : popUint bs with
            | err _ => exact safe_err _
            | panic s => exact absurd (by simp [h, Outcome.isPanic]) (hUint bs)
            | ok p =>
              obtain ⟨crc, r⟩ := p
              simp only
              split
              · exact safe_err _
              · exact ihStruct dp d r hs H
          | enum => exact safe_err _
          | container => exact safe_err _
          | gzip => exact safe_err _
      | iface nm =>
        simp only [decVal]
        have := ihReg dp bs hs H
        cases h : decRegistered R gz dp fuel bs hs with
        | err _ => exact safe_err _
        | panic s => rw [h] at this; exact this.elim
        | ok p =>
          obtain ⟨v, r, hs'⟩ := p
          rw [h] at this
          simp only
          split
          · exact this
          · exact safe_err _
    · -- decVecBody
      intro dp e bs hs H
      simp only [decVecBody]
      cases h : popUint bs with
      | err _ => exact safe_err _
      | panic s => exact absurd (by simp [h, Outcome.isPanic]) (hUint bs)
      | ok p =>
        obtain ⟨n, r⟩ := p
        simp only
        split
        · exact safe_err _
        · have := ihItems dp e n r hs H
          cases h2 : decItems R gz dp fuel e n r hs with
          | err _ => exact safe_err _
          | panic s => rw [h2] at this; exact this.elim
          | ok q => obtain ⟨items, r', hs'⟩ := q; rw [h2] at this; exact this
    · -- decItems
      intro dp e n bs hs H
      cases n with
      | zero => simp [decItems, Safe, H]
      | succ n =>
        simp only [decItems]
        have h1 := ihVal dp e bs hs H
        cases hv : decVal R gz dp fuel e bs hs with
        | err _ => exact safe_err _
        | panic s => rw [hv] at h1; exact h1.elim
        | ok p =>
          obtain ⟨v, r, hs'⟩ := p
          rw [hv] at h1
          simp only
          have h2 := ihItems dp e n r hs' h1
          cases hi : decItems R gz dp fuel e n r hs' with
          | err _ => exact safe_err _
          | panic s => rw [hi] at h2; exact h2.elim
          | ok q => obtain ⟨vs, r', hs''⟩ := q; rw [hi] at h2; exact h2
    · -- decStruct
      intro dp d bs hs H
      simp only [decStruct]
      split
      · exact safe_err _
      · have := ihFields dp d.flagIndex 0 d.fields bs hs H
        cases h2 : decFields R gz dp fuel d.flagIndex 0 d.fields bs hs with
        | err _ => exact safe_err _
        | panic s => rw [h2] at this; exact this.elim
        | ok q => obtain ⟨fs, r', hs'⟩ := q; rw [h2] at this; exact this
    · -- decFields
      intro dp k w fs bs hs H
      cases fs with
      | nil => simp [decFields, Safe, H]
      | cons f fs =>
        simp only [decFields]
        have hhdr : ∀ (x : Outcome (Nat × Bytes)), (x = popUint bs ∨ x = .ok (w, bs)) → ¬ x.isPanic := by
          intro x hx
          rcases hx with rfl | rfl
          · exact hUint bs
          · simp [Outcome.isPanic]
        generalize hx : (if k = some 0 then popUint bs else Outcome.ok (w, bs)) = x
        have hxs : ¬ x.isPanic := hhdr x (by rw [← hx]; split <;> simp)
        cases x with
        | err _ => exact safe_err _
        | panic s => simp [Outcome.isPanic] at hxs
        | ok p =>
          obtain ⟨w', r0⟩ := p
          simp only
          have tailSafe : ∀ (bs' : Bytes) (hs' : List Ty), AllVec hs' → ∀ (pre : Val),
              Safe (match decFields R gz dp fuel (nextK k) w' fs bs' hs' with
                | .ok (vs, r, hs'') => (Outcome.ok (pre :: vs, r, hs'') : DRes (List Val))
                | .err er => .err er
                | .panic s => .panic s) := by
            intro bs' hs' H' pre
            have := ihFields dp (nextK k) w' fs bs' hs' H'
            cases h2 : decFields R gz dp fuel (nextK k) w' fs bs' hs' with
            | err _ => exact safe_err _
            | panic s => rw [h2] at this; exact this.elim
            | ok q => obtain ⟨vs, r', hs''⟩ := q; rw [h2] at this; exact this
          have valCase : Safe (match decVal R gz dp fuel f.ty r0 hs with
              | .err er => (Outcome.err er : DRes (List Val))
              | .panic s => .panic s
              | .ok (v, r, hs') =>
                match decFields R gz dp fuel (nextK k) w' fs r hs' with
                | .ok (vs, r', hs'') => .ok (v :: vs, r', hs'')
                | .err er => .err er
                | .panic s => .panic s) := by
            have h1 := ihVal dp f.ty r0 hs H
            cases hv : decVal R gz dp fuel f.ty r0 hs with
            | err _ => exact safe_err _
            | panic s => rw [hv] at h1; exact h1.elim
            | ok p =>
              obtain ⟨v, r, hs'⟩ := p
              rw [hv] at h1
              exact tailSafe r hs' h1 v
          cases hfl : f.flag with
          | none =>
            simp only [Bool.false_eq_true, if_false]
            exact valCase
          | some fl =>
            simp only
            by_cases h1 : decide (w' / 2 ^ fl.bit % 2 = 0) = true
            · simp only [h1, if_true]
              exact tailSafe r0 hs H _
            · simp only [h1, if_false]
              by_cases h2 : fl.inBits = true
              · simp only [h2, if_true]
                exact tailSafe r0 hs H _
              · simp only [h2, if_false]
                exact valCase
    · -- decRegistered
      intro dp bs hs H
      simp only [decRegistered]
      cases h : popUint bs with
      | err _ => exact safe_err _
      | panic s => exact absurd (by simp [h, Outcome.isPanic]) (hUint bs)
      | ok p =>
        obtain ⟨crc, r⟩ := p
        simp only
        split
        · -- a vector: needs a hint, and hints are slice types
          cases hs with
          | nil => exact safe_err _
          | cons h0 hs' =>
            obtain ⟨e, rfl⟩ := H h0 (by simp)
            exact ihVec dp e r hs' (AllVec_tail H)
        · split
          · exact H
          · cases R.find crc with
            | none => exact safe_err _
            | some d =>
              simp only
              cases d.kind with
              | enum => exact H
              | struct => exact ihStruct dp d r hs H
              | container =>
                simp only
                cases h2 : popUint r with
                | err _ => exact safe_err _
                | panic s => exact absurd (by simp [h2, Outcome.isPanic]) (hUint r)
                | ok q =>
                  obtain ⟨cnt, r1⟩ := q
                  simp only
                  cases h3 : decMembers (toSigned 32 cnt).toNat r1 with
                  | err _ => exact safe_err _
                  | panic s => exact absurd h3 (decMembers_ne_panic _ _ _)
                  | ok q2 => obtain ⟨ms, r2⟩ := q2; exact H
              | gzip =>
                simp only
                cases h2 : popMessage r with
                | err _ => exact safe_err _
                | panic s => exact absurd h2 (popMessage_ne_panic _ _)
                | ok q =>
                  obtain ⟨packed, r1⟩ := q
                  simp only
                  cases gz packed with
                  | none => exact safe_err _
                  | some plain =>
                    simp only
                    split
                    · exact safe_err _
                    · have := ihReg (dp + 1) plain hs H
                      cases h3 : decRegistered R gz (dp + 1) fuel plain hs with
                      | err _ => exact safe_err _
                      | panic s => rw [h3] at this; exact this.elim
                      | ok q2 => obtain ⟨inner, _, _⟩ := q2; exact H

/-- **Unknown object** (`DecodeUnknownObject(data, hints...)`): for EVERY byte string, every registry,
every gzip behaviour, any slice-typed hints and any fuel, the result is a value or an error. -/
theorem decodeUnknown_no_panic (R : Registry) (gz : Bytes → Option Bytes) (fuel : Nat) (hints : List Ty)
    (bs : Bytes) (hh : AllVec hints) : (decodeUnknown R gz fuel hints bs).isPanic = false := by
  have := (decoder_safe R gz fuel).2.2.2.2.2 0 bs hints hh
  unfold decodeUnknown
  cases h : decRegistered R gz 0 fuel bs hints with
  | err _ => rfl
  | panic s => rw [h] at this; exact this.elim
  | ok p => obtain ⟨v, _, _⟩ := p; rfl

/-- **Named type** (`Decode(data, &T{})`) likewise. -/
theorem decodeNamed_no_panic (R : Registry) (gz : Bytes → Option Bytes) (fuel id : Nat) (bs : Bytes) :
    (decodeNamed R gz fuel id bs).isPanic = false := by
  have := (decoder_safe R gz fuel).1 0 (.ptr id) bs [] (by intro h hh; simp at hh)
  unfold decodeNamed
  cases h : decVal R gz 0 fuel (.ptr id) bs [] with
  | err _ => rfl
  | panic s => rw [h] at this; exact this.elim
  | ok p => obtain ⟨v, _, _⟩ := p; rfl

/-! ## declared sizes are checked against the remaining input before anything is built -/

/-- a vector count larger than the number of bytes left is refused -/
theorem vector_count_guard (R : Registry) (gz : Bytes → Option Bytes) (dp fuel : Nat) (e : Ty) (n : Nat)
    (rest : Bytes) (hs : List Ty) (hn : n < 2 ^ 32) (hbig : rest.length < n) :
    decVecBody R gz dp (fuel + 1) e (leBytes n 4 ++ rest) hs = .err "vectorSize" := by
  have : popUint (leBytes n 4 ++ rest) = .ok (n, rest) := by
    have hne : leBytes n 4 ≠ [] := by simp [leBytes]
    have h1 : readN 4 (leBytes n 4 ++ rest) = .ok (leBytes n 4, rest) := by
      have := (show readN (leBytes n 4).length (leBytes n 4 ++ rest) = .ok (leBytes n 4, rest) from by
        unfold readN; simp [leBytes])
      simpa using this
    simp [popUint, h1, fromLE_leBytes 4 n (by simpa using hn)]
  simp [decVecBody, this, hbig]

/-- a raw byte count that is negative or larger than what is left is refused -/
theorem raw_size_guard (size : Int) (bs : Bytes) (h : size < 0 ∨ (bs.length : Int) < size) :
    popRaw size bs = .err "rawSize" := by
  unfold popRaw
  rcases h with h | h
  · simp [h]
  · have h1 : ¬ size < 0 := by omega
    have h2 : bs.length < size.toNat := by omega
    simp [h1, h2]

/-! ## never loops: the fuel of the model is a bound on the depth of the call chain, and an explicit amount
— linear in the input — is never exhausted; below the fuel error, the result does not depend on the fuel -/

/-- **More fuel never changes a result** that is not the fuel error — for each of the six mutually
recursive decoder functions and for the two entry points. (The fuel error itself is propagated from
inside, so "the result with less fuel is not the fuel error" is the hypothesis.) -/
theorem fuel_mono_decVal (R : Registry) (gz : Bytes → Option Bytes) (dp f f' : Nat) (ty : Ty) (bs : Bytes)
    (hs : List Ty) (hle : f ≤ f') (h : decVal R gz dp f ty bs hs ≠ .err "fuel") :
    decVal R gz dp f' ty bs hs = decVal R gz dp f ty bs hs :=
  ((fuel_mono_all R gz f f' hle).1 dp ty bs hs).eq h

theorem fuel_mono_decVecBody (R : Registry) (gz : Bytes → Option Bytes) (dp f f' : Nat) (e : Ty) (bs : Bytes)
    (hs : List Ty) (hle : f ≤ f') (h : decVecBody R gz dp f e bs hs ≠ .err "fuel") :
    decVecBody R gz dp f' e bs hs = decVecBody R gz dp f e bs hs :=
  ((fuel_mono_all R gz f f' hle).2.1 dp e bs hs).eq h

theorem fuel_mono_decItems (R : Registry) (gz : Bytes → Option Bytes) (dp f f' : Nat) (e : Ty) (n : Nat)
    (bs : Bytes) (hs : List Ty) (hle : f ≤ f') (h : decItems R gz dp f e n bs hs ≠ .err "fuel") :
    decItems R gz dp f' e n bs hs = decItems R gz dp f e n bs hs :=
  ((fuel_mono_all R gz f f' hle).2.2.1 dp e n bs hs).eq h

theorem fuel_mono_decStruct (R : Registry) (gz : Bytes → Option Bytes) (dp f f' : Nat) (d : CtorDesc)
    (bs : Bytes) (hs : List Ty) (hle : f ≤ f') (h : decStruct R gz dp f d bs hs ≠ .err "fuel") :
    decStruct R gz dp f' d bs hs = decStruct R gz dp f d bs hs :=
  ((fuel_mono_all R gz f f' hle).2.2.2.1 dp d bs hs).eq h

theorem fuel_mono_decFields (R : Registry) (gz : Bytes → Option Bytes) (dp f f' : Nat) (k : Option Nat) (w : Nat)
    (fs : List FieldDesc) (bs : Bytes) (hs : List Ty) (hle : f ≤ f')
    (h : decFields R gz dp f k w fs bs hs ≠ .err "fuel") :
    decFields R gz dp f' k w fs bs hs = decFields R gz dp f k w fs bs hs :=
  ((fuel_mono_all R gz f f' hle).2.2.2.2.1 dp k w fs bs hs).eq h

theorem fuel_mono_decRegistered (R : Registry) (gz : Bytes → Option Bytes) (dp f f' : Nat) (bs : Bytes)
    (hs : List Ty) (hle : f ≤ f') (h : decRegistered R gz dp f bs hs ≠ .err "fuel") :
    decRegistered R gz dp f' bs hs = decRegistered R gz dp f bs hs :=
  ((fuel_mono_all R gz f f' hle).2.2.2.2.2 dp bs hs).eq h

theorem fuel_mono_decodeUnknown (R : Registry) (gz : Bytes → Option Bytes) (f f' : Nat) (hints : List Ty)
    (bs : Bytes) (hle : f ≤ f') (h : decodeUnknown R gz f hints bs ≠ .err "fuel") :
    decodeUnknown R gz f' hints bs = decodeUnknown R gz f hints bs := by
  unfold decodeUnknown at h ⊢
  rcases (fuel_mono_all R gz f f' hle).2.2.2.2.2 0 bs hints with hm | hm
  · rw [hm]
  · rw [hm] at h; exact absurd rfl h

theorem fuel_mono_decodeNamed (R : Registry) (gz : Bytes → Option Bytes) (f f' id : Nat)
    (bs : Bytes) (hle : f ≤ f') (h : decodeNamed R gz f id bs ≠ .err "fuel") :
    decodeNamed R gz f' id bs = decodeNamed R gz f id bs := by
  unfold decodeNamed at h ⊢
  rcases (fuel_mono_all R gz f f' hle).1 0 (.ptr id) bs [] with hm | hm
  · rw [hm]
  · rw [hm] at h; exact absurd rfl h

/- the hypothesis is met by a real decoding (8 units are enough for `pong`), is needed (1 unit is not), and the
conclusion then holds for any larger fuel -/
example : decodeUnknown Mtv.Gen.registry (fun _ => none) 1000 [] exPong =
    decodeUnknown Mtv.Gen.registry (fun _ => none) 8 [] exPong :=
  fuel_mono_decodeUnknown _ _ 8 1000 [] exPong (by decide) (ne_err_of_errKind (by decide +kernel))
example : decodeUnknown Mtv.Gen.registry (fun _ => none) 1 [] exPong = .err "fuel" :=
  eq_err_of_errKind (by decide +kernel)
example : (decodeUnknown Mtv.Gen.registry (fun _ => none) 8 [] exPong).isOk = true := by decide +kernel

theorem le_maxFields : ∀ (R : Registry) (d : CtorDesc), d ∈ R → d.fields.length ≤ maxFields R
  | [], d, h => by simp at h
  | x :: R, d, h => by
    simp only [maxFields, List.foldr_cons]
    rcases List.mem_cons.mp h with rfl | h
    · exact Nat.le_max_left _ _
    · exact Nat.le_trans (le_maxFields R d h) (Nat.le_max_right _ _)

/-- **Never loops** (termination of the modelled decoder with an explicit bound): for EVERY registry, EVERY
gzip behaviour whose outputs are at most `G` bytes long, every input, any hints and any named type — with
fuel `fuelBound R G (length of the input)` or more, neither entry point ever reports the fuel error: the
decoder comes to its value / error / panic outcome by itself. Provable for an arbitrary `gunzip` because a
decoder of depth `maxNestedDecoders` refuses packed objects (before the repair 5211125 a packed object could
unpack to a packed object without end, and no amount of fuel was enough for every `gunzip`). -/
theorem decode_never_loops (R : Registry) (gz : Bytes → Option Bytes) (G : Nat)
    (hG : ∀ x y, gz x = some y → y.length ≤ G) (hints : List Ty) (bs : Bytes) (id fuel : Nat)
    (hf : fuelBound R G bs.length ≤ fuel) :
    decodeUnknown R gz fuel hints bs ≠ .err "fuel" ∧ decodeNamed R gz fuel id bs ≠ .err "fuel" := by
  have key := depth_enough R gz (maxFields R) (maxFields R + 4) G (le_maxFields R) (Nat.le_refl _) hG
    maxNestedDecoders 0 (by simp) bs.length
  have hb : (maxFields R + 4) * (bs.length + maxNestedDecoders * G) =
      (maxFields R + 4) * bs.length + maxNestedDecoders * ((maxFields R + 4) * G) := by
    rw [Nat.mul_add, Nat.mul_left_comm]
  unfold fuelBound at hf
  rw [hb] at hf
  simp only [maxNestedDecoders] at hf key
  constructor
  · have := key.2.1 bs hints fuel (Nat.le_refl _) (by omega)
    unfold decodeUnknown
    cases h : decRegistered R gz 0 fuel bs hints with
    | err e => exact NF_of_src this h
    | panic s => simp
    | ok p => obtain ⟨v, _, _⟩ := p; simp
  · have := key.1 bs (.ptr id) [] fuel (Nat.le_refl _) (by omega)
    unfold decodeNamed
    cases h : decVal R gz 0 fuel (.ptr id) bs [] with
    | err e => exact NF_of_src this h
    | panic s => simp
    | ok p => obtain ⟨v, _, _⟩ := p; simp

/- a registry with 1200 constructors, a `gunzip` that answers, a packed object as input: the hypotheses hold
and the decoding with the bound as fuel is a value -/
example : decodeUnknown Mtv.Gen.registry exGunzip (fuelBound Mtv.Gen.registry 20 (exPack [0x1f]).length) []
    (exPack [0x1f]) ≠ .err "fuel" :=
  (decode_never_loops Mtv.Gen.registry exGunzip 20 exGunzip_bound [] (exPack [0x1f]) 0 _ (Nat.le_refl _)).1
example : (decodeUnknown Mtv.Gen.registry exGunzip (fuelBound Mtv.Gen.registry 20 (exPack [0x1f]).length) []
    (exPack [0x1f])).isOk = true := by decide +kernel

/-- With the bound or more, the result **is a function of the input alone**: every amount of fuel from the
bound upwards gives the same outcome. -/
theorem decode_fuel_irrelevant (R : Registry) (gz : Bytes → Option Bytes) (G : Nat)
    (hG : ∀ x y, gz x = some y → y.length ≤ G) (hints : List Ty) (bs : Bytes) (id fuel : Nat)
    (hf : fuelBound R G bs.length ≤ fuel) :
    decodeUnknown R gz fuel hints bs = decodeUnknown R gz (fuelBound R G bs.length) hints bs ∧
    decodeNamed R gz fuel id bs = decodeNamed R gz (fuelBound R G bs.length) id bs := by
  have h0 := decode_never_loops R gz G hG hints bs id (fuelBound R G bs.length) (Nat.le_refl _)
  exact ⟨fuel_mono_decodeUnknown R gz _ fuel hints bs hf h0.1, fuel_mono_decodeNamed R gz _ fuel id bs hf h0.2⟩

/-- Without packed objects (`gunzip` answers nothing): fuel `(F + 4)·L + 6` is enough. -/
theorem decode_never_loops_plain (R : Registry) (hints : List Ty) (bs : Bytes) (id fuel : Nat)
    (hf : (maxFields R + 4) * bs.length + 6 ≤ fuel) :
    decodeUnknown R (fun _ => none) fuel hints bs ≠ .err "fuel" ∧
    decodeNamed R (fun _ => none) fuel id bs ≠ .err "fuel" :=
  decode_never_loops R (fun _ => none) 0 (fun x y h => by cases h) hints bs id fuel (by simpa [fuelBound] using hf)

/-- **A packed object nested too deep is refused**: a decoder that already works for `maxNestedDecoders` (or
more) enclosing packed objects answers a well-formed packed object — whatever it unpacks to — with an error:
no panic, and no call of the decoder on the unpacked data (one unit of fuel is enough, and the unpacked bytes
do not occur in the result). For any registry that has the packed-object descriptor under `crc`, any `gunzip`. -/
theorem nested_packed_refused (R : Registry) (gz : Bytes → Option Bytes) (dp fuel crc : Nat) (d : CtorDesc)
    (rest packed plain r1 : Bytes) (hs : List Ty)
    (hfind : R.find crc = some d) (hkind : d.kind = .gzip) (hcrc : crc < 2 ^ 32)
    (hv : crc ≠ crcVector) (hb : crc ≠ crcFalse ∧ crc ≠ crcTrue ∧ crc ≠ crcNull)
    (hmsg : popMessage rest = .ok (packed, r1)) (hgz : gz packed = some plain)
    (hdp : maxNestedDecoders ≤ dp) :
    decRegistered R gz dp (fuel + 1) (leBytes crc 4 ++ rest) hs = .err "nestedTooDeep" := by
  have h1 : popUint (leBytes crc 4 ++ rest) = .ok (crc, rest) := by
    have hne : leBytes crc 4 ≠ [] := by simp [leBytes]
    have h1 : readN 4 (leBytes crc 4 ++ rest) = .ok (leBytes crc 4, rest) := by
      have := (show readN (leBytes crc 4).length (leBytes crc 4 ++ rest) = .ok (leBytes crc 4, rest) from by
        unfold readN; simp [leBytes])
      simpa using this
    simp [popUint, h1, fromLE_leBytes 4 crc (by simpa using hcrc)]
  simp [decRegistered, h1, hv, hb.1, hb.2.1, hb.2.2, hfind, hkind, hmsg, hgz, hdp]

/- the registry of the working tree has the descriptor; a decoder of depth 4 refuses, one of depth 3 opens;
from the root, four packed levels around `pong` decode and five do not (`gunzip` = identity) -/
example : decRegistered Mtv.Gen.registry exGunzip 4 1 (exPack [0x1f]) [] = .err "nestedTooDeep" :=
  nested_packed_refused Mtv.Gen.registry exGunzip 4 0 0x3072cfa1 ⟨0x3072cfa1, "objects.GzipPacked", .gzip, none, [], []⟩
    [1, 0x1f, 0, 0] [0x1f] exPong [] [] (by decide +kernel) rfl (by decide) (by decide) (by decide) (by decide)
    (by decide) (by decide)
example : (decRegistered Mtv.Gen.registry exGunzip 3 100 (exPack [0x1f]) []).isOk = true := by decide +kernel
example : (decodeUnknown Mtv.Gen.registry some 100 [] (exPackN 4 exPong)).isOk = true := by decide +kernel
example : decodeUnknown Mtv.Gen.registry some 100 [] (exPackN 5 exPong) = .err "nestedTooDeep" :=
  eq_err_of_errKind (by decide +kernel)

/-- and one level higher the same object is opened: the limit is exactly `maxNestedDecoders` -/
theorem nested_packed_opened (R : Registry) (gz : Bytes → Option Bytes) (dp fuel crc : Nat) (d : CtorDesc)
    (rest packed plain r1 : Bytes) (hs : List Ty)
    (hfind : R.find crc = some d) (hkind : d.kind = .gzip) (hcrc : crc < 2 ^ 32)
    (hv : crc ≠ crcVector) (hb : crc ≠ crcFalse ∧ crc ≠ crcTrue ∧ crc ≠ crcNull)
    (hmsg : popMessage rest = .ok (packed, r1)) (hgz : gz packed = some plain)
    (hdp : dp < maxNestedDecoders) :
    decRegistered R gz dp (fuel + 1) (leBytes crc 4 ++ rest) hs =
      match decRegistered R gz (dp + 1) fuel plain hs with
      | .ok (inner, _, _) => .ok (.obj crc [inner], r1, hs)
      | .err er => .err er
      | .panic s => .panic s := by
  have h1 : popUint (leBytes crc 4 ++ rest) = .ok (crc, rest) := by
    have hne : leBytes crc 4 ≠ [] := by simp [leBytes]
    have h1 : readN 4 (leBytes crc 4 ++ rest) = .ok (leBytes crc 4, rest) := by
      have := (show readN (leBytes crc 4).length (leBytes crc 4 ++ rest) = .ok (leBytes crc 4, rest) from by
        unfold readN; simp [leBytes])
      simpa using this
    simp [popUint, h1, fromLE_leBytes 4 crc (by simpa using hcrc)]
  have hdp' : ¬ maxNestedDecoders ≤ dp := by omega
  simp only [decRegistered, h1, hv, hb.1, hb.2.1, hb.2.2, hfind, hkind, hmsg, hgz, hdp', if_false, Bool.or_self,
    decide_false, Bool.false_eq_true]
  cases decRegistered R gz (dp + 1) fuel plain hs with
  | ok p => obtain ⟨a, b, c⟩ := p; rfl
  | err e => rfl
  | panic s => rfl

/-! ## non-vacuity: inputs that used to panic in the Go code now yield errors in the model of the
repaired code (an enum id, an object of the wrong interface, a vector with a huge count) -/
example : (decodeUnknown Mtv.Gen.registry (fun _ => none) 100 [] [0x0e, 0xfe, 0x7e, 0x00]).isOk = true := by
  decide +kernel
example : (decodeUnknown Mtv.Gen.registry (fun _ => none) 100 [.vec .int64]
    [0x15, 0xc4, 0xb5, 0x1c, 0xff, 0xff, 0xff, 0xff]).isErr = true := by
  decide +kernel

end Mtv.TL
