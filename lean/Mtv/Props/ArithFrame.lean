/-
  C08: the arithmetic AS WRITTEN feeds the framing model. Abridged `WriteMsg` computes `msgLength := len(msg) / tl.WordLen`,
  compares it with 127 and writes `byte(msgLength)` or `0x7f, byte(msgLength), byte(msgLength >> 8), byte(msgLength >> 16)`.
  The expressions are regenerated from the working tree (Mtv/Gen/Arith.lean); this theorem says the header they yield is
  the header of the model's `abridgedFrame` — the function `abridged_header`, `readFrame_frame`, `stream_roundtrip` (Props/C08)
  are about — for every aligned message a Go slice can hold. The branch `msgLength < 127` and the marker byte 0x7f
  (`magicValueSizeMoreThanSingleByte`) are written here by hand as the code has them; they are tied by the correspondence
  (`c08.write`), not by the translator. Property theorem only.
-/
import Mtv.Props.Arith
namespace Mtv.Arith
open Mtv.Gen.Arith Mtv.Framing

/-- the header bytes as the Go code assembles them from the translated expressions -/
def codeAbridgedHeader (len : Nat) : List UInt8 :=
  let x := BitVec.ofNat 64 len
  if (abridgedWords x).toNat < 127 then [UInt8.ofNat (abridgedB1 x).toNat]
  else [0x7f, UInt8.ofNat (abridgedB1 x).toNat, UInt8.ofNat (abridgedB2 x).toNat, UInt8.ofNat (abridgedB3 x).toNat]

/-- **C08** header from the code's arithmetic ++ message = the model's frame -/
theorem code_abridged_frame (m : Mtv.Bytes) (ha : m.length % 4 = 0) (hl : m.length < 2 ^ 62) :
    abridgedFrame m = some (codeAbridgedHeader m.length ++ m) := by
  obtain ⟨hw, hb⟩ := abridged_length_bytes m.length hl
  unfold abridgedFrame codeAbridgedHeader
  simp only [ha, ne_eq, not_true_eq_false, if_false, hw]
  split
  · rename_i h127
    have h1 : Mtv.leBytes (m.length / 4) 3 = UInt8.ofNat (m.length / 4 % 256) :: Mtv.leBytes (m.length / 4 / 256) 2 := rfl
    rw [h1] at hb
    have hb1 : UInt8.ofNat (abridgedB1 (BitVec.ofNat 64 m.length)).toNat = UInt8.ofNat (m.length / 4 % 256) := (List.cons.inj hb).1
    have hmod : m.length / 4 % 256 = m.length / 4 := Nat.mod_eq_of_lt (by omega)
    rw [hb1, hmod]; rfl
  · rw [← hb]; rfl

example : codeAbridgedHeader 508 = [0x7f, 127, 0, 0] ∧ codeAbridgedHeader 504 = [126] ∧ codeAbridgedHeader 1048576 = [0x7f, 0, 0, 4] := by
  decide

end Mtv.Arith
