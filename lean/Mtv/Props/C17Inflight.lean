/-
  C17, "migration … with other calls in flight" — what the code AS IT IS does with the calls that are still waiting when
  a caller's PHONE_MIGRATE_X replaces the connection (D33, known finding `c17-migration-strands-other-calls-in-flight`).

  The lifecycle model carries the RPC machine unchanged through every connection event: `Disconnect` leaves the
  response channels registered ("TODO: close ALL CHANNELS"), nothing fails the waiting calls and nothing writes their
  requests again. A waiting call returns only when a message READ by the client names its request. The new data centre
  never saw that request, and the old connection — on which the answer (the second PHONE_MIGRATE) may already lie — is
  closed unread. Hence:

    unnamed_request_stays_pending   over ALL lifecycle histories (any reconnects, any other traffic, any other callers):
                                    a registered request that no message read afterwards names is still registered —
                                    its caller is still inside MakeRequest
    second_migrating_call_is_stranded   the concrete history of the finding, by kernel evaluation

  Property theorems only. The property itself ("repeats the request there", for every call) is what the check demands of
  the real client (`c17.inflight`); these theorems say why the unchanged client cannot meet it.
-/
import Mtv.Client.Lifecycle
namespace Mtv.Client

mutual
/-- the message (or a member of the container, at any depth) names request `id` -/
def names : Msg → Nat → Bool
  | .res rid _, id => rid == id
  | .salt bad _, id => bad == id
  | .badmsg bad, id => bad == id
  | .cont ms, id => namesAny ms id
  | .news _, _ => false
  | .quiet, _ => false
  | .odd, _ => false
def namesAny : List (Nat × Nat × Msg) → Nat → Bool
  | [], _ => false
  | (_, _, m) :: rest, id => names m id || namesAny rest id
end

theorem lookup_erase_ne (p : List (Nat × Nat)) (rid id : Nat) (h : rid ≠ id) :
    lookupPending (erasePending p rid) id = lookupPending p id := by
  unfold lookupPending erasePending
  congr 1
  induction p with
  | nil => rfl
  | cons e p ih =>
    rw [List.filter_cons, List.find?_cons]
    by_cases h1 : e.1 = rid
    · have h2 : (e.1 == id) = false := by simp; omega
      simp only [h1, bne_self_eq_false, Bool.false_eq_true, if_false]
      rw [← h1, h2]; simpa [h1] using ih
    · have h3 : (e.1 != rid) = true := by simp [h1]
      rw [h3]; simp only [if_true]
      rw [List.find?_cons]
      cases h4 : (e.1 == id) with
      | true => rfl
      | false => exact ih

theorem resStep_keeps (s : St) (rid id : Nat) (v : String) (h : rid ≠ id) :
    lookupPending (resStep s rid v).pending id = lookupPending s.pending id := by
  simp only [resStep]; split <;> simp [lookup_erase_ne _ _ _ h]
theorem saltStep_keeps (s : St) (bad id : Nat) (ns : Int) (h : bad ≠ id) :
    lookupPending (saltStep s bad ns).pending id = lookupPending s.pending id := by
  simp only [saltStep]; split <;> simp [lookup_erase_ne _ _ _ h]
theorem badStep_keeps (s : St) (bad id : Nat) (h : bad ≠ id) :
    lookupPending (badStep s bad).pending id = lookupPending s.pending id := by
  unfold badStep; split <;> simp [lookup_erase_ne _ _ _ h]
theorem oweAck_pending (s : St) (mid seq : Nat) : (oweAck s mid seq).pending = s.pending := by
  unfold oweAck; split <;> rfl

mutual
theorem process_keeps_unnamed (id : Nat) :
    ∀ (m : Msg) (d : Nat) (s : St) (mid seq : Nat), names m id = false →
      lookupPending (process d s mid seq m).pending id = lookupPending s.pending id
  | .res rid v, d, s, mid, seq, h => by
    simp only [process, oweAck_pending]; exact resStep_keeps _ _ _ _ (by simpa [names] using h)
  | .salt bad ns, d, s, mid, seq, h => by
    simp only [process, oweAck_pending]; exact saltStep_keeps _ _ _ _ (by simpa [names] using h)
  | .news ns, d, s, mid, seq, _ => by simp only [process, oweAck_pending]; rfl
  | .badmsg bad, d, s, mid, seq, h => by
    simp only [process, oweAck_pending]; exact badStep_keeps _ _ _ (by simpa [names] using h)
  | .quiet, d, s, mid, seq, _ => by simp only [process, oweAck_pending]
  | .odd, d, s, mid, seq, _ => by simp only [process, oweAck_pending]; rfl
  | .cont ms, d, s, mid, seq, h => by
    simp only [process]
    split
    · rw [oweAck_pending]; exact processAll_keeps_unnamed id ms (d + 1) s (by simpa [names] using h)
    · rw [oweAck_pending]; rfl
theorem processAll_keeps_unnamed (id : Nat) :
    ∀ (ms : List (Nat × Nat × Msg)) (d : Nat) (s : St), namesAny ms id = false →
      lookupPending (processAll d s ms).pending id = lookupPending s.pending id
  | [], d, s, _ => by simp [processAll]
  | (mid, seq, m) :: rest, d, s, h => by
    simp only [processAll]
    simp only [namesAny, Bool.or_eq_false_iff] at h
    rw [processAll_keeps_unnamed id rest d _ h.2, process_keeps_unnamed id m d s mid seq h.1]
end

/-- an event of the RPC machine that does not name request `id` -/
def evQuiet (id : Nat) : Ev → Bool
  | .recv _ _ m => !names m id
  | _ => true

/-- one machine step: a request registered under an id not above `lastId` (every written request is) stays registered
unless the message read names it; `lastId` does not go down -/
theorem step_keeps_unnamed (s s' : St) (e : Ev) (id c : Nat) (hs : step s e = some s') (hq : evQuiet id e = true)
    (hp : lookupPending s.pending id = some c) (hl : id ≤ s.lastId) :
    lookupPending s'.pending id = some c ∧ id ≤ s'.lastId := by
  cases e with
  | send c' id' seq salt =>
    simp only [step] at hs
    split at hs
    · rename_i hc
      injection hs with hs; subst hs
      have hne : ¬ id' = id := by omega
      refine ⟨?_, by simp; omega⟩
      have hb : (id' == id) = false := by simp [hne]
      simp only [lookupPending, List.find?_cons, hb] at hp ⊢
      exact hp
    · cases hs
  | ack id' seq ids =>
    simp only [step] at hs
    split at hs
    · rename_i hc; injection hs with hs; subst hs; exact ⟨hp, by simp; omega⟩
    · cases hs
  | recv mid seq m =>
    simp only [step] at hs
    injection hs with hs; subst hs
    have hn : names m id = false := by simpa [evQuiet] using hq
    refine ⟨by rw [process_keeps_unnamed id m 0 s mid seq hn]; exact hp, ?_⟩
    have : (process 0 s mid seq m).lastId = s.lastId := by
      apply process_preserves (fun t => t.lastId = s.lastId) <;> intros <;> first | (simp only [resStep]; split <;> simp_all) | (simp only [saltStep]; split <;> simp_all) | (simp only [badStep]; split <;> simp_all) | (simp only [oweAck]; split <;> simp_all) | simp_all [newsStep, warnStep]
    omega
  | plain mid m =>
    simp only [step] at hs; injection hs with hs; subst hs; exact ⟨hp, hl⟩
  | deliver c' v =>
    simp only [step] at hs
    split at hs
    · split at hs
      · injection hs with hs; subst hs; exact ⟨hp, hl⟩
      · cases hs
    · cases hs
  | store x =>
    simp only [step] at hs
    split at hs
    · split at hs
      · injection hs with hs; subst hs; exact ⟨hp, hl⟩
      · cases hs
    · cases hs
  | ackLost ids =>
    simp only [step] at hs
    split at hs
    · injection hs with hs; subst hs; exact ⟨hp, hl⟩
    · cases hs
  | storeLost x =>
    simp only [step] at hs
    split at hs
    · split at hs
      · injection hs with hs; subst hs; exact ⟨hp, hl⟩
      · cases hs
    · cases hs

namespace Life

def levQuiet (id : Nat) : LEv → Bool
  | .mach e => evQuiet id e
  | _ => true

/-- connection events never touch the RPC machine -/
theorem step_mach_or_same (s s' : LSt) (e : LEv) (h : Life.step s e = some s') :
    (∃ ev, e = .mach ev ∧ Client.step s.m ev = some s'.m) ∨ s'.m = s.m := by
  cases e with
  | mach ev =>
    left; refine ⟨ev, rfl, ?_⟩
    simp only [Life.step] at h
    split at h
    · cases hm : Client.step s.m ev with
      | none => simp [hm] at h
      | some m' => simp [hm] at h; subst h; rfl
    · cases h
  | connClosed =>
    right; simp only [Life.step] at h
    split at h
    · injection h with h; subst h; simp only [lose]; split <;> simp [beginReconnect]
    · cases h
  | connBroken =>
    right; simp only [Life.step] at h
    split at h
    · injection h with h; subst h; simp only [lose]; split <;> simp [beginReconnect]
    · cases h
  | redialOk c k =>
    right; simp only [Life.step] at h
    split at h
    · injection h with h; subst h; rfl
    · cases h
  | redialFailed c =>
    right; simp only [Life.step] at h
    split at h
    · injection h with h; subst h; rfl
    · cases h
  | appReconnect => right; simp only [Life.step] at h; injection h with h; subst h; rfl
  | appDisconnect => right; simp only [Life.step] at h; injection h with h; subst h; rfl
  | readerExit c =>
    right; simp only [Life.step] at h
    split at h
    · injection h with h; subst h; rfl
    · cases h
  | callDown c o =>
    right; simp only [Life.step] at h
    split at h
    · injection h with h; subst h; rfl
    · cases h

/-- **D33, the general statement.** Over every history of the client as it is — any number of Reconnects by callers
(PHONE_MIGRATE) and by the reading routine, dials that succeed or fail, other callers' requests and answers, salts,
containers — a request that is registered and that NO message read afterwards names is still registered at the end:
its caller is still waiting inside `MakeRequest`. A new data centre cannot name a request it never received, so a call
that was in flight when ANOTHER call's migration replaced the connection does not return. -/
theorem unnamed_request_stays_pending (id c : Nat) (es : List LEv) :
    ∀ (s s' : LSt), Life.run s es = some s' → (∀ e ∈ es, levQuiet id e = true) →
      lookupPending s.m.pending id = some c → id ≤ s.m.lastId →
      lookupPending s'.m.pending id = some c := by
  induction es with
  | nil => intro s s' hr _ hp _; simp [Life.run] at hr; subst hr; exact hp
  | cons e es ih =>
    intro s s' hr hq hp hl
    simp only [Life.run] at hr
    cases hs : Life.step s e with
    | none => simp [hs] at hr
    | some s1 =>
      rw [hs] at hr
      have hq' : ∀ e' ∈ es, levQuiet id e' = true := fun e' he' => hq e' (List.mem_cons_of_mem _ he')
      rcases step_mach_or_same s s1 e hs with ⟨ev, rfl, hm⟩ | hsame
      · have hqe : evQuiet id ev = true := by simpa [levQuiet] using hq (.mach ev) (List.mem_cons_self ..)
        obtain ⟨h1, h2⟩ := step_keeps_unnamed s.m s1.m ev id c hm hqe hp hl
        exact ih s1 s' hr hq' h1 h2
      · exact ih s1 s' hr hq' (by rw [hsame]; exact hp) (by rw [hsame]; exact hl)

/-- **D33, the history of the finding**: callers 0 and 1 have requests 1000 and 1004 in flight at the old data centre;
it answers both with PHONE_MIGRATE. The client reads the first answer; caller 0's `Reconnect` replaces the connection
(the second answer is lost with the old one), the dial to the new data centre succeeds, the old reader leaves, caller 0
repeats its request (1008) and gets the new data centre's answer. Caller 1 is still registered under 1004, which the
new data centre will never name: it never returns. -/
def strandedHistory : List LEv :=
  [.mach (.send 0 1000 1 5), .mach (.send 1 1004 3 5),
   .mach (.recv 77 1 (.res 1000 "PHONE_MIGRATE_2")), .mach (.deliver 0 "PHONE_MIGRATE_2"),
   .appReconnect, .redialOk 2 0, .readerExit 1,
   .mach (.send 0 1008 5 5), .mach (.recv 81 1 (.res 1008 "pong")), .mach (.deliver 0 "pong")]

theorem second_migrating_call_is_stranded :
    ((Life.run (connected0 {} true 7) strandedHistory).map fun s =>
      (lookupPending s.m.pending 1004, s.m.delivered.map (·.1), reading s, (activeReaders s).length)) =
      some (some 1, [0, 0], true, 1) := by decide +kernel

end Life
end Mtv.Client
