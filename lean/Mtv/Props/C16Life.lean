/-
  C16, last clause — "When the server closes the connection the client reconnects with the same auth key - no new key
  exchange - and later requests complete" — and the behaviour of connections around it. Property theorems only.
  Model: Mtv/Client/Lifecycle.lean (what mtproto.go does now; the RPC machine of Machine.lean inside, unchanged).
  Every theorem is over ALL event sequences of the lifecycle machine (induction over the history).
-/
import Mtv.Lemmas.C16Life
import Mtv.Props.C16
namespace Mtv.Client.Life
open Mtv.Client

/-! ## the key -/

theorem step_keeps_key {s s' : LSt} {e : LEv} (hk : s.keyed = true) (hs : step s e = some s') :
    s'.keyed = true ∧ s'.keyId = s.keyId ∧ s'.keyExchanges = s.keyExchanges := by
  cases e with
  | mach e => obtain ⟨m', _, rfl⟩ := mach_fields hs; exact ⟨hk, rfl, rfl⟩
  | connClosed =>
    simp only [step] at hs
    split at hs
    · simp only [Option.some.injEq] at hs; subst hs; simp [lose, hk, beginReconnect]
    · simp at hs
  | connBroken =>
    simp only [step] at hs
    split at hs
    · simp only [Option.some.injEq] at hs; subst hs; simp [lose, hk, beginReconnect]
    · simp at hs
  | redialOk c k =>
    simp only [step] at hs
    split at hs
    · simp only [Option.some.injEq] at hs; subst hs; simp [dialled, hk]
    · simp at hs
  | redialFailed c =>
    simp only [step] at hs
    split at hs
    · simp only [Option.some.injEq] at hs; subst hs; exact ⟨hk, rfl, rfl⟩
    · simp at hs
  | appReconnect => simp only [step, Option.some.injEq] at hs; subst hs; exact ⟨hk, rfl, rfl⟩
  | appDisconnect => simp only [step, Option.some.injEq] at hs; subst hs; exact ⟨hk, rfl, rfl⟩
  | readerExit c =>
    simp only [step] at hs
    split at hs
    · simp only [Option.some.injEq] at hs; subst hs; exact ⟨hk, rfl, rfl⟩
    · simp at hs
  | callDown c o =>
    simp only [step] at hs
    split at hs
    · simp only [Option.some.injEq] at hs; subst hs; exact ⟨hk, rfl, rfl⟩
    · simp at hs

/-- **the client reconnects with the same auth key — no new key exchange**: from ANY state of a session that holds
a key, whatever happens to the connection afterwards and in whatever order — orderly closes, broken reads, redials
that succeed or fail, Reconnect / Disconnect of the application from another goroutine, readers ending, requests
issued without a connection, any traffic of the RPC machine in between — the session still holds a key, it is the
SAME key, and not one key exchange has been run -/
theorem reconnect_keeps_key (es : List LEv) : ∀ (s0 s : LSt), s0.keyed = true → run s0 es = some s →
    s.keyed = true ∧ s.keyId = s0.keyId ∧ s.keyExchanges = s0.keyExchanges := by
  induction es with
  | nil => intro s0 s hk hr; simp [run] at hr; subst hr; exact ⟨hk, rfl, rfl⟩
  | cons e es ih =>
    intro s0 s hk hr
    simp only [run] at hr
    cases hs : step s0 e with
    | none => simp [hs] at hr
    | some s1 =>
      rw [hs] at hr
      obtain ⟨k1, i1, x1⟩ := step_keeps_key hk hs
      obtain ⟨k2, i2, x2⟩ := ih s1 s k1 hr
      exact ⟨k2, by rw [i2, i1], by rw [x2, x1]⟩

/-- non-vacuity: close, redial, broken read, failed redial, Reconnect of the application, redial — same key 7, no
key exchange, four dials of which three succeeded … -/
example :
    (run (connected0 {} true 7) [.connClosed, .redialOk 2 99, .connBroken, .redialFailed 3, .appReconnect, .redialOk 4 99]).map
      (fun s => (s.keyed, s.keyId, s.keyExchanges, s.dials, s.dialAttempts, s.failedDials)) = some (true, 7, 0, 3, 4, 1) := by
  decide +kernel
/-- … and the contrast: a client WITHOUT a key that the application reconnects runs a key exchange and has another key -/
example :
    (run (connected0 {} false 0) [.appReconnect, .redialOk 2 99]).map (fun s => (s.keyed, s.keyId, s.keyExchanges)) =
      some (true, 99, 1) := by decide +kernel

/-! ## readers -/

/-- **no event sequence leads to a second concurrent reader**: in every reachable state at most one reader goroutine
has a context that is not cancelled (every other one is on its way out) -/
theorem single_reader (s : LSt) (h : Reachable s) : (activeReaders s).length ≤ 1 := by
  have hi := inv_reachable h
  have hle := filter_length_le_count (fun c => !s.cancelled.contains c) s.cur s.readers (by
    intro c hc hp
    rcases hi.rdLive c hc with e | e
    · exact e
    · exfalso
      have hp' : c ∉ s.cancelled := by simpa using hp
      exact hp' e)
  have := hi.once
  unfold activeReaders
  omega

/-- non-vacuity: overlapping Reconnects of the reader and of the application, dials completing out of order: three
reader goroutines exist at the end, one of them active -/
example :
    (run (connected0 {} true 7) [.connClosed, .appReconnect, .redialOk 3 0, .redialOk 2 0]).map
      (fun s => (s.readers, activeReaders s)) = some ([2, 3], [3]) := by decide +kernel

theorem begin_mono (s : LSt) (b : Bool) :
    s.failedDials ≤ (beginReconnect s b).failedDials ∧ s.disconnects ≤ (beginReconnect s b).disconnects ∧
    s.overlaps ≤ (beginReconnect s b).overlaps := by
  simp only [beginReconnect]
  refine ⟨Nat.le_refl _, Nat.le_refl _, ?_⟩
  split <;> omega

theorem lose_mono (s : LSt) :
    s.failedDials ≤ (lose s).failedDials ∧ s.disconnects ≤ (lose s).disconnects ∧ s.overlaps ≤ (lose s).overlaps := by
  unfold lose
  split
  · exact begin_mono { s with readers := s.readers.erase s.cur } true
  · exact ⟨Nat.le_refl _, Nat.le_refl _, Nat.le_refl _⟩

/-- counters of history only grow -/
theorem history_mono {s s' : LSt} {e : LEv} (hs : step s e = some s') :
    s.failedDials ≤ s'.failedDials ∧ s.disconnects ≤ s'.disconnects ∧ s.overlaps ≤ s'.overlaps := by
  cases e with
  | mach e => obtain ⟨m', _, rfl⟩ := mach_fields hs; exact ⟨Nat.le_refl _, Nat.le_refl _, Nat.le_refl _⟩
  | connClosed =>
    simp only [step] at hs
    split at hs
    · simp only [Option.some.injEq] at hs; subst hs; exact lose_mono s
    · simp at hs
  | connBroken =>
    simp only [step] at hs
    split at hs
    · simp only [Option.some.injEq] at hs; subst hs
      exact lose_mono { s with connWarnings := s.connWarnings + 1 }
    · simp at hs
  | redialOk c k =>
    simp only [step] at hs
    split at hs
    · simp only [Option.some.injEq] at hs; subst hs; simp [dialled]
    · simp at hs
  | redialFailed c =>
    simp only [step] at hs
    split at hs
    · simp only [Option.some.injEq] at hs; subst hs; simp
    · simp at hs
  | appReconnect =>
    simp only [step, Option.some.injEq] at hs; subst hs
    exact begin_mono s false
  | appDisconnect => simp only [step, Option.some.injEq] at hs; subst hs; simp
  | readerExit c =>
    simp only [step] at hs
    split at hs
    · simp only [Option.some.injEq] at hs; subst hs; simp
    · simp at hs
  | callDown c o =>
    simp only [step] at hs
    split at hs
    · simp only [Option.some.injEq] at hs; subst hs; simp
    · simp at hs

/-- the client is reading on the current connection, or is dialling the one that will replace it -/
def Steady (s : LSt) : Prop :=
  (s.inflight = [] ∧ s.cur ∈ s.readers ∧ s.transport = some s.cur ∧ s.cur ∉ s.cancelled) ∨
  (s.inflight = [s.cur] ∧ s.cur ∉ s.cancelled)

theorem steady_begin {s : LSt} (hi : Inv s) (b : Bool) (hin : s.inflight = []) : Steady (beginReconnect s b) := by
  have hf := fresh_not_cancelled hi
  refine Or.inr ⟨by simp [beginReconnect, hin], ?_⟩
  simp only [beginReconnect]
  intro hm
  have : (s.cur :: s.cancelled).contains (s.nextCtx + 1) = true := by simpa using hm
  rw [hf] at this; cases this

theorem steady_step {s s' : LSt} {e : LEv} (hk : s.keyed = true) (hi : Inv s) (hst : Steady s)
    (hs : step s e = some s') (hq : s'.failedDials = 0 ∧ s'.disconnects = 0 ∧ s'.overlaps = 0) : Steady s' := by
  cases e with
  | mach e => obtain ⟨m', _, rfl⟩ := mach_fields hs; exact hst
  | connClosed =>
    simp only [step] at hs
    split at hs
    · simp only [Option.some.injEq] at hs; subst hs
      rcases hst with ⟨hin, _, _, _⟩ | ⟨hin, _⟩
      · simp only [lose, hk, if_true]
        exact steady_begin (inv_eraseReader hi s.cur) true hin
      · have := hq.2.2
        simp [lose, hk, beginReconnect, hin] at this
    · simp at hs
  | connBroken =>
    simp only [step] at hs
    split at hs
    · simp only [Option.some.injEq] at hs; subst hs
      rcases hst with ⟨hin, _, _, _⟩ | ⟨hin, _⟩
      · simp only [lose, hk, if_true]
        exact steady_begin (s := { s with connWarnings := s.connWarnings + 1, readers := s.readers.erase s.cur })
          (inv_eraseReader (s := { s with connWarnings := s.connWarnings + 1 })
            ⟨hi.curLe, hi.canLe, hi.rdLe, hi.inLe, hi.rdLive, hi.inLive, hi.once⟩ s.cur) true hin
      · have := hq.2.2
        simp [lose, hk, beginReconnect, hin] at this
    · simp at hs
  | redialOk c k =>
    simp only [step] at hs
    split at hs
    · rename_i hc
      simp only [Option.some.injEq] at hs; subst hs
      rcases hst with ⟨hin, _, _, _⟩ | ⟨hin, hnc⟩
      · simp [hin] at hc
      · have hcc : c = s.cur := by simpa [hin] using hc
        subst hcc
        exact Or.inl ⟨by simp [dialled, hin], by simp [dialled], rfl, hnc⟩
    · simp at hs
  | redialFailed c =>
    simp only [step] at hs
    split at hs
    · simp only [Option.some.injEq] at hs; subst hs
      have := hq.1
      simp at this
    · simp at hs
  | appReconnect =>
    simp only [step, Option.some.injEq] at hs; subst hs
    rcases hst with ⟨hin, _, _, _⟩ | ⟨hin, _⟩
    · exact steady_begin hi false hin
    · have := hq.2.2
      simp [beginReconnect, hin] at this
  | appDisconnect =>
    simp only [step, Option.some.injEq] at hs; subst hs
    have := hq.2.1
    simp at this
  | readerExit c =>
    simp only [step] at hs
    split at hs
    · rename_i hc
      simp only [Option.some.injEq] at hs; subst hs
      rcases hst with ⟨hin, hrd, htr, hnc⟩ | ⟨hin, hnc⟩
      · have hne : s.cur ≠ c := by
          intro e
          rcases hc.2 with h1 | h1
          · rw [← e] at h1
            exact hnc (by simpa using h1)
          · simp only [transportClosed, htr] at h1
            exact hnc (by simpa using h1)
        exact Or.inl ⟨hin, (List.mem_erase_of_ne hne).mpr hrd, htr, hnc⟩
      · exact Or.inr ⟨hin, hnc⟩
    · simp at hs
  | callDown c o =>
    simp only [step] at hs
    split at hs
    · simp only [Option.some.injEq] at hs; subst hs; exact hst
    · simp at hs

theorem steady_run (es : List LEv) : ∀ (s0 s : LSt), s0.keyed = true → Inv s0 → Steady s0 → run s0 es = some s →
    s.failedDials = 0 ∧ s.disconnects = 0 ∧ s.overlaps = 0 → Steady s := by
  induction es with
  | nil => intro s0 s _ _ hst hr _; simp [run] at hr; subst hr; exact hst
  | cons e es ih =>
    intro s0 s hk hi hst hr hq
    simp only [run] at hr
    cases hs : step s0 e with
    | none => simp [hs] at hr
    | some s1 =>
      rw [hs] at hr
      -- the counters of s1 are below those of s: zero
      have hmono : ∀ (es : List LEv) (a b : LSt), run a es = some b →
          a.failedDials ≤ b.failedDials ∧ a.disconnects ≤ b.disconnects ∧ a.overlaps ≤ b.overlaps := by
        intro es
        induction es with
        | nil => intro a b h; simp [run] at h; subst h; exact ⟨Nat.le_refl _, Nat.le_refl _, Nat.le_refl _⟩
        | cons e es ih2 =>
          intro a b h
          simp only [run] at h
          cases hs2 : step a e with
          | none => simp [hs2] at h
          | some a1 =>
            rw [hs2] at h
            have m1 := history_mono hs2
            have m2 := ih2 a1 b h
            exact ⟨Nat.le_trans m1.1 m2.1, Nat.le_trans m1.2.1 m2.2.1, Nat.le_trans m1.2.2 m2.2.2⟩
      have m := hmono es s1 s hr
      have hq1 : s1.failedDials = 0 ∧ s1.disconnects = 0 ∧ s1.overlaps = 0 := by
        refine ⟨?_, ?_, ?_⟩ <;> omega
      exact ih s1 s (step_keeps_key hk hs).1 (inv_step hi hs) (steady_step hk hi hst hs hq1) hr hq

/-- **the receive loop is not stopped by a connection that ends**: a client that holds a key and has connected is,
after ANY history in which no dial failed, the application did not call Disconnect and did not call Reconnect while
a redial was still in progress, either reading on its current connection (the reader of the current context is in
its loop on the current transport, context not cancelled) or dialling the connection that will replace it (and the
success of that dial starts the reader: `redialOk`). Orderly closes and broken reads, however many and wherever, never
leave it without both. (The three exclusions are what the code really does — see `failed_redial_gives_up` and
`overlapping_reconnect_can_strand_the_client`.) -/
theorem reader_survives_connection_loss (m : St) (keyId : Nat) (es : List LEv) (s : LSt)
    (hr : run (connected0 m true keyId) es = some s)
    (hq : s.failedDials = 0 ∧ s.disconnects = 0 ∧ s.overlaps = 0) : Steady s :=
  steady_run es _ s rfl (inv_init m true keyId)
    (Or.inl ⟨rfl, by simp [connected0], rfl, by simp [connected0]⟩) hr hq

/-- non-vacuity: three connections lost in three ways, the application reconnecting once in between -/
example :
    (run (connected0 {} true 7) [.connClosed, .redialOk 2 0, .connBroken, .redialOk 3 0, .appReconnect, .readerExit 3,
        .redialOk 4 0, .connClosed]).map
      (fun s => ((s.failedDials, s.disconnects, s.overlaps), (s.inflight, s.cur, activeReaders s, s.connWarnings))) =
      some ((0, 0, 0), ([5], 5, [], 1)) := by decide +kernel

/-- what the exclusion of overlapping Reconnects is about (the model says what the code does): the reader's own
Reconnect and a Reconnect of the application overlap, the OLDER dial completes last and overwrites `m.transport`
with a transport that is closed at once (its context was cancelled by the younger Reconnect); the live reader finds
the transport closed, takes that for its own cancellation and returns. No dial failed, nobody called Disconnect —
and the client has no reader, nothing in flight and an unusable transport. -/
theorem overlapping_reconnect_can_strand_the_client :
    (run (connected0 {} true 7)
        [.connClosed, .appReconnect, .redialOk 3 0, .redialOk 2 0, .readerExit 2, .readerExit 3]).map
      (fun s => ((s.failedDials, s.disconnects, s.overlaps), (activeReaders s, s.inflight, writable s))) =
      some ((0, 0, 1), ([], [], false)) := by decide +kernel

/-! ## later requests complete -/

theorem redialOk_fields {s s' : LSt} {c k : Nat} (hs : step s (.redialOk c k) = some s') :
    s'.m = s.m ∧ s'.transport = some c ∧ s'.cancelled = s.cancelled ∧ s'.readers = c :: s.readers ∧
    s.inflight.contains c = true := by
  simp only [step] at hs
  split at hs
  · rename_i hc
    simp only [Option.some.injEq] at hs; subst hs; exact ⟨rfl, rfl, rfl, rfl, hc⟩
  · simp at hs

theorem redialFailed_fields {s s' : LSt} {c : Nat} (hs : step s (.redialFailed c) = some s') :
    s'.inflight = s.inflight.erase c ∧ s'.transport = none ∧ s'.readers = s.readers ∧ s'.cancelled = s.cancelled ∧
    s'.cur = s.cur ∧ s'.keyed = s.keyed ∧ s'.keyId = s.keyId ∧ s'.keyExchanges = s.keyExchanges := by
  simp only [step] at hs
  split at hs
  · simp only [Option.some.injEq] at hs; subst hs; exact ⟨rfl, rfl, rfl, rfl, rfl, rfl, rfl, rfl⟩
  · simp at hs

theorem oweAck_owedDeliver (s : St) (mid seq : Nat) : (oweAck s mid seq).owedDeliver = s.owedDeliver := by
  unfold oweAck; split <;> rfl

/-- **later requests complete** — after any state in which the dial of a context that is not cancelled succeeds
(`redialOk`): the client writes and reads on the new connection; a caller with no call in progress can write a
request, the server's result naming it is processed by the receive loop and handed to that caller. Whatever was
pending when the old connection went away is still pending (the machine state is carried over untouched). -/
theorem probe_after_redial (s s' : LSt) (c k : Nat) (hs : step s (.redialOk c k) = some s')
    (hlive : s.cancelled.contains c = false)
    (caller id seq mid sq : Nat) (v : String)
    (hfresh : inProgress s'.m caller = 0) (hid : id % 4 = 0 ∧ s'.m.lastId < id) (hseq : seq % 2 = 1 ∧ s'.m.lastSeq ≤ seq) :
    s'.m = s.m ∧ writable s' = true ∧ reading s' = true ∧
    ∃ s1 s2, step s' (.mach (.send caller id seq s'.m.salt)) = some s1 ∧
      step s1 (.mach (.recv mid sq (.res id v))) = some s2 ∧ (caller, id, v) ∈ s2.m.owedDeliver := by
  obtain ⟨hm, htr, hcan, hrdr, _⟩ := redialOk_fields hs
  have hl : c ∉ s.cancelled := by simpa using hlive
  have hw : writable s' = true := by simp [writable, htr, hcan, hl]
  have hrd : reading s' = true := by simp [reading, htr, hcan, hl, hrdr]
  obtain ⟨m1, hm1, hin⟩ := probe_completes s'.m caller id seq v hfresh hid hseq
  have hrd1 : reading { s' with m := m1 } = true := hrd
  refine ⟨hm, hw, hrd, { s' with m := m1 }, { s' with m := process 0 m1 mid sq (.res id v) }, ?_, ?_, ?_⟩
  · simp only [step, machEnabled, hw, if_true]
    rw [hm1]; rfl
  · simp only [step, machEnabled, hrd1, if_true, Client.step, Option.map]
  · simp only [process, oweAck_owedDeliver]; exact hin

/-- **after any history ending in a successful redial a fresh request is enabled and completes, under the same key**:
a client that holds key `keyId` and has connected; any history `es` (no failed dial, no Disconnect, no overlapping
Reconnect in it), then `redialOk` — the probe of a caller without a call in progress is written and its result
handed over, the key is `keyId`, no key exchange was run -/
theorem probe_completes_after_reconnect (m : St) (keyId : Nat) (es : List LEv) (s s' : LSt) (c k : Nat)
    (hr : run (connected0 m true keyId) es = some s)
    (hq : s.failedDials = 0 ∧ s.disconnects = 0 ∧ s.overlaps = 0)
    (hs : step s (.redialOk c k) = some s')
    (caller id seq mid sq : Nat) (v : String)
    (hfresh : inProgress s'.m caller = 0) (hid : id % 4 = 0 ∧ s'.m.lastId < id) (hseq : seq % 2 = 1 ∧ s'.m.lastSeq ≤ seq) :
    s'.keyId = keyId ∧ s'.keyExchanges = 0 ∧
    ∃ s1 s2, step s' (.mach (.send caller id seq s'.m.salt)) = some s1 ∧
      step s1 (.mach (.recv mid sq (.res id v))) = some s2 ∧ (caller, id, v) ∈ s2.m.owedDeliver := by
  have hst := reader_survives_connection_loss m keyId es s hr hq
  have hkey := reconnect_keeps_key es _ s rfl hr
  have hkey' := step_keeps_key hkey.1 hs
  have hlive : s.cancelled.contains c = false := by
    have hc : s.inflight.contains c = true := (redialOk_fields hs).2.2.2.2
    rcases hst with ⟨hin, _, _, _⟩ | ⟨hin, hnc⟩
    · simp [hin] at hc
    · have hcc : c = s.cur := by simpa [hin] using hc
      subst hcc
      simpa using hnc
  obtain ⟨_, _, _, h⟩ := probe_after_redial s s' c k hs hlive caller id seq mid sq v hfresh hid hseq
  refine ⟨by rw [hkey'.2.1, hkey.2.1]; rfl, by rw [hkey'.2.2, hkey.2.2]; rfl, h⟩

/-- non-vacuity, with a request pending across the loss of the connection: caller 0's request is written, the server
closes, the client redials; the probe of caller 1 completes on the new connection — and caller 0's request is still
pending (nothing failed it, nothing wrote it again); the server answering the OLD msg_id on the new connection
completes it -/
example :
    (run (connected0 {} true 7) [.mach (.send 0 1000 1 5), .connClosed, .redialOk 2 0,
        .mach (.send 1 1004 3 5), .mach (.recv 71 1 (.res 1004 "probe")), .mach (.deliver 1 "probe")]).map
      (fun s => (s.m.pending, s.m.delivered)) = some ([(1000, 0)], [(1, 1004, "probe")]) ∧
    (run (connected0 {} true 7) [.mach (.send 0 1000 1 5), .connClosed, .redialOk 2 0,
        .mach (.send 1 1004 3 5), .mach (.recv 71 1 (.res 1004 "probe")), .mach (.deliver 1 "probe")]).map
      (fun s => (s.m.sent.length, s.keyId, s.keyExchanges, s.dials)) = some (2, 7, 0, 2) :=
  ⟨by decide +kernel, by decide +kernel⟩
example :
    (run (connected0 {} true 7) [.mach (.send 0 1000 1 5), .connBroken, .redialOk 2 0,
        .mach (.recv 75 1 (.res 1000 "late")), .mach (.deliver 0 "late")]).map
      (fun s => ((s.m.pending, s.m.delivered), s.m.sent.length)) = some (([], [(0, 1000, "late")]), 1) := by decide +kernel
/-- nothing of the machine is enabled on the wire between the loss and the redial -/
example :
    (run (connected0 {} true 7) [.connClosed, .mach (.send 1 1004 3 5)]) = none ∧
    (run (connected0 {} true 7) [.connClosed, .mach (.recv 71 1 .quiet)]) = none := by decide +kernel

/-! ## a redial that fails -/

/-- **a failed redial: the client gives up** (this is what the code does, not what one would wish): after the dial of
the current context fails, in a state where nothing else is in flight and no reader is active, the client has no
reader, nothing in flight, the nil transport; neither `connClosed` nor `connBroken` can happen any more (nobody
reads), no request can be written — a request issued now PANICS in the caller's goroutine (nil transport) — and
nothing the client does on its own changes that. A later redial is possible only through the application:
`Reconnect()` and a dial that succeeds bring back a reader on a usable transport, with the same key. -/
theorem failed_redial_gives_up (s s' : LSt) (h : Reachable s) (hin : s.inflight = [s.cur]) (hrd : activeReaders s = [])
    (hs : step s (.redialFailed s.cur) = some s') :
    s'.inflight = [] ∧ activeReaders s' = [] ∧ s'.transport = none ∧
    step s' .connClosed = none ∧ step s' .connBroken = none ∧ writable s' = false ∧ reading s' = false ∧
    (∀ caller o, (step s' (.callDown caller o)).isSome = true ↔ o = .panicNilTransport) ∧
    ∀ k, ∃ s2 s3, step s' .appReconnect = some s2 ∧ step s2 (.redialOk s2.cur k) = some s3 ∧
      writable s3 = true ∧ reading s3 = true ∧ (activeReaders s3).length = 1 ∧
      (s.keyed = true → s3.keyId = s.keyId ∧ s3.keyExchanges = s.keyExchanges) := by
  have hi' := inv_step (inv_reachable h) hs
  have hf := fresh_not_cancelled hi'
  obtain ⟨fin, ftr, frd, fcan, fcur, fk, fid, fkx⟩ := redialFailed_fields hs
  have hact : activeReaders s' = [] := by
    have : activeReaders s' = activeReaders s := by simp only [activeReaders, frd, fcan]
    rw [this, hrd]
  have hw : writable s' = false := by simp [writable, ftr]
  refine ⟨by rw [fin, hin]; simp, hact, ftr, by simp [step, ftr], by simp [step, ftr], hw, by simp [reading, ftr], ?_, ?_⟩
  · intro caller o
    simp only [step, hw, downOutcome, ftr]
    constructor
    · intro ho; split at ho
      · rename_i hh; exact hh.2
      · simp at ho
    · intro ho; simp [ho]
  · intro k
    have hall : ∀ c ∈ s'.readers, (s'.cur :: s'.cancelled).contains c = true := by
      intro c hc
      rcases hi'.rdLive c hc with e | e
      · simp [e]
      · simp [e]
    have hnil : s'.readers.filter (fun c => !(s'.cur :: s'.cancelled).contains c) = [] := by
      simp only [List.filter_eq_nil_iff]
      intro c hc
      simp
      intro hne
      rcases hi'.rdLive c hc with e | e
      · exact absurd e hne
      · exact e
    have hf' : ¬ s'.nextCtx + 1 = s'.cur ∧ ¬ s'.nextCtx + 1 ∈ s'.cancelled := by simpa using hf
    have hnil' : List.filter (fun c => !decide (c = s'.cur) && !decide (c ∈ s'.cancelled)) s'.readers = [] := by
      simpa using hnil
    refine ⟨_, dialled (beginReconnect s' false) (s'.nextCtx + 1) k, rfl, ?_, ?_, ?_, ?_, ?_⟩
    · simp [step, beginReconnect]
    · simp only [writable, dialled, beginReconnect]; simp [hf']
    · simp only [reading, dialled, beginReconnect]; simp [hf']
    · simp only [activeReaders, dialled, beginReconnect]
      simp [List.filter_cons, hf', hnil']
    · intro hk
      have hk' : s'.keyed = true := by rw [fk]; exact hk
      simp [dialled, beginReconnect, hk', fid, fkx]

/-- non-vacuity: the server closes, the redial fails, the client sits there; the application reconnects -/
example :
    (run (connected0 {} true 7) [.connClosed, .redialFailed 2]).map
      (fun s => (s.inflight, activeReaders s, s.transport, downOutcome s, s.connWarnings)) =
      some ([], [], none, .panicNilTransport, 1) ∧
    (run (connected0 {} true 7) [.connClosed, .redialFailed 2, .callDown 1 .panicNilTransport, .appReconnect, .redialOk 3 0,
        .mach (.send 1 1004 3 5), .mach (.recv 71 1 (.res 1004 "probe")), .mach (.deliver 1 "probe")]).map
      (fun s => (s.m.delivered, s.keyId, s.keyExchanges, activeReaders s)) = some ([(1, 1004, "probe")], 7, 0, [3]) ∧
    -- after Disconnect the transport is closed, not nil: the call returns a write error
    (run (connected0 {} true 7) [.appDisconnect, .callDown 1 .writeError, .readerExit 1]).map
      (fun s => (activeReaders s, s.readers)) = some ([], []) := by
  refine ⟨by decide +kernel, by decide +kernel, by decide +kernel⟩

end Mtv.Client.Life
