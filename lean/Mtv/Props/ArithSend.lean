/-
  C10: the arithmetic AS WRITTEN feeds the machine. `sendPacket` computes its msg_id with `utils.GenerateMessageId` and the
  bump past `m.lastMsgID`; `serializePacket` writes `client.GetSeqNo() | 1`. Both are regenerated from the working tree
  (Mtv/Gen/Arith.lean). This theorem composes `Props/Arith.lean` with `Props/C10.lean`: for every reachable machine state,
  the pair (msg_id, seq_no) that the translated Go expressions yield from the state's own counters makes the `send`
  event ENABLED — the model asks of the numbers nothing the code's arithmetic does not deliver, for every clock
  reading in range and every even counter. Property theorem only.
-/
import Mtv.Props.Arith
import Mtv.Props.C10
namespace Mtv.Arith
open Mtv.Gen.Arith Mtv.Client

/-- **C10** for a reachable state whose last msg_id is a multiple of four below 2^63 − 4, a clock reading `ns` in range
and an even seq_no counter `ctr` (as `m.seqNo` always is: 0, then += 2) not below the last seq_no written minus one:
the request a caller that may call writes — msg_id and seq_no computed by the Go expressions — is accepted by `step` -/
theorem code_send_enabled (s : St) (h : Reachable s) (c ns : Nat) (ctr : BitVec 32) (salt : Int)
    (hlast : s.lastId % 4 = 0) (hl : s.lastId + 4 < 2 ^ 63) (hns : ns < 2 ^ 31 * 1000000000)
    (hctr : ctr.toNat % 2 = 0) (hseq : s.lastSeq ≤ ctr.toNat + 1) (hc : mayCall s c = true)
    (hsalt : s.owedResend.contains c = true → salt = s.salt) :
    (step s (.send c (sendPacketMsgId (generateMessageId (BitVec.ofNat 64 ns)) (BitVec.ofNat 64 s.lastId)).toNat
                     (seqNoContent ctr).toNat salt)).isSome = true := by
  rw [sendPacketMsgId_is_nextId s.lastId ns hl hns, (seqNo_of_even ctr hctr).1]
  exact send_with_nextId_enabled s h c (ctr.toNat + 1) ns salt hlast ⟨by omega, hseq⟩ hc hsalt

/-- non-vacuity: the first request of a fresh client (counter 0, nothing written yet) at some instant of 2023 -/
example : (step {} (.send 0 (sendPacketMsgId (generateMessageId 1700000000123456789#64) 0#64).toNat (seqNoContent 0#32).toNat 5)).isSome = true := by
  decide +kernel

end Mtv.Arith
