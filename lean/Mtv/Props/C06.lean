/-
  C06 — key exchange with any conformant server ends in a shared auth key and salt.
  Property theorems only. Model: Mtv/Handshake/{Num,Wire,Reg,Client,Server}.lean — `makeAuthKey` as
  REPAIRED by the C06-*/C07-* fix commits, run against `ServerSpec` (Server.lean), the conformant
  server written from the protocol description. SHA-1 and AES-256 are parameters; the factoring of pq
  is a parameter of `hs_agree` and the MODEL of `math.SplitPQ` (Mtv/Handshake/SplitPQ.lean) behind the
  guard of handshake.go in `hs_agree_splitPQ` (last section);
  RSA is `m^e mod n` with the correctness of the key pair as a hypothesis. Helper lemmas:
  Mtv/Lemmas/{C06Num,C06Wire,C06Stages,C06SplitPQ}.lean, C05 (IGE and the padding wrappers), C01 (TL
  round trip).
-/
import Mtv.Lemmas.C06Stages
import Mtv.Lemmas.C06SplitPQ
import Mathlib.Tactic.NormNum.Prime
import Mtv.Gen.SplitPQFacts
namespace Mtv.Handshake
open Mtv Mtv.TL Mtv.Ige

/-! ## arithmetic -/

/-- **The executable modular exponentiation (square-and-multiply, what the driver runs in place of
`big.Int.Exp`) is `b ^ e mod m`**, for all arguments. -/
theorem powMod_spec (b e m : Nat) : powMod b e m = b ^ e % m := powMod_eq b e m

example : powMod 3 200 1000 = 3 ^ 200 % 1000 ∧ powMod 3 200 1000 = 1 := ⟨powMod_spec _ _ _, by decide⟩

/-- **The Diffie-Hellman core**: whatever `g`, the exponents and the modulus, the client's
`(g^a mod P)^b mod P` and the server's `(g^b mod P)^a mod P` are both `g^(ab) mod P`. -/
theorem dh_core (g a b P : Nat) :
    powMod (powMod g a P) b P = g ^ (a * b) % P ∧ powMod (powMod g b P) a P = g ^ (a * b) % P :=
  dh_agree g a b P

example : powMod (powMod 5 6 23) 15 23 = powMod (powMod 5 15 23) 6 23 := by decide

/-! ## the five stages of an exchange with a conformant server -/

/-- **Stage 1 (`req_pq`).** The client's first request is understood by the conformant server, which
answers `resPQ` carrying the client's nonce, its own server_nonce, pq and the fingerprints. -/
theorem stage1_reqpq {c : Cfg} {s : Secrets} (h : ExchangeHyps c s) :
    ∃ req1 r1, marshalSend c.R (vReqPQ (fromBE c.d.nonce)) = .ok req1 ∧
      srvResPQ c.R c.P c.key s req1 = some (fromBE c.d.nonce, r1) ∧
      marshal c.R (vResPQ (fromBE c.d.nonce) s.serverNonce (bigBytes (s.p * s.q))
        (s.offered (specFingerprint c.P.H c.key))) = .ok r1 ∧
      (s.offered (specFingerprint c.P.H c.key)).length ≤ r1.length := stageA h

/-- **Stage 2 (`p_q_inner_data`).** The client accepts `resPQ` (nonce, fingerprint), splits pq,
RSA-encrypts `SHA1(p_q_inner_data) ‖ p_q_inner_data ‖ zeros` (255 bytes → 256 bytes, right-aligned)
and sends `req_DH_params`; the server's private exponent recovers the block EXACTLY — also when the
RSA result has leading zero bytes —, the SHA-1 matches, `new_nonce` is taken over, and the server
answers `server_DH_params_ok` with the conformantly wrapped `server_DH_inner_data`. -/
theorem stage2_pq_inner {c : Cfg} {s : Secrets} (h : ExchangeHyps c s) {r1 : Bytes}
    (hr1 : marshal c.R (vResPQ (fromBE c.d.nonce) s.serverNonce (bigBytes (s.p * s.q))
        (s.offered (specFingerprint c.P.H c.key))) = .ok r1)
    (hlen : (s.offered (specFingerprint c.P.H c.key)).length ≤ r1.length) :
    ∃ req2 answer r2, stage1 c r1 = .ok ⟨s.serverNonce, req2⟩ ∧
      marshal c.R (srvAnswerVal c s) = .ok answer ∧
      marshal c.R (vDHOk (fromBE c.d.nonce) s.serverNonce
        (conformantMsg c.P.H c.P.E (beBytes (fromBE c.d.newNonce) 32) (beBytes s.serverNonce 16) answer
          (s.pad.take (tempPadLen (20 + answer.length))))) = .ok r2 ∧
      srvDH c.R c.P c.key s (fromBE c.d.nonce) req2 = some (fromBE c.d.newNonce, r2) := by
  obtain ⟨m, req2, hm, hml, hreq2, hst1⟩ := stageB_client h hr1 hlen
  obtain ⟨answer, r2, hans, _, hr2, hsrv2⟩ := stageB_server h hm hml hreq2
  exact ⟨req2, answer, r2, hst1, hans, hr2, hsrv2⟩

/-- **Stage 3 (the DH answer).** The client accepts `server_DH_params_ok`, decrypts the answer with
the temporary key (derived from ALL 32 / 16 bytes of new_nonce / server_nonce), finds the SHA-1
prefix, checks the inner data, and ends up with: auth key = `g^(ab) mod dh_prime` as exactly 256
big-endian bytes, key id `SHA1(key)[12:20]`, salt `new_nonce[0:8] xor server_nonce[0:8]`, the
expected `new_nonce_hash1`; it sends `set_client_DH_params` wrapped conformantly. -/
theorem stage3_dh_answer {c : Cfg} {s : Secrets} (h : ExchangeHyps c s) {answer r2 : Bytes}
    (hans : marshal c.R (srvAnswerVal c s) = .ok answer)
    (hr2 : marshal c.R (vDHOk (fromBE c.d.nonce) s.serverNonce
        (conformantMsg c.P.H c.P.E (beBytes (fromBE c.d.newNonce) 32) (beBytes s.serverNonce 16) answer
          (s.pad.take (tempPadLen (20 + answer.length))))) = .ok r2) :
    ∃ msg req3, marshal c.R (cliInnerVal c s) = .ok msg ∧ msg.length ≤ 320 ∧
      marshal c.R (vSetClientDH (fromBE c.d.nonce) s.serverNonce
        (conformantMsg c.P.H c.P.E (beBytes (fromBE c.d.newNonce) 32) (beBytes s.serverNonce 16) msg
          (c.d.rnd.take (tempPadLen (20 + msg.length))))) = .ok req3 ∧
      stage2 c s.serverNonce r2 = .ok
        ⟨beBytes (s.g ^ (s.a * fromBE c.d.b) % s.dhPrime) 256,
         slice (c.P.H (beBytes (s.g ^ (s.a * fromBE c.d.b) % s.dhPrime) 256)) 12 20,
         specSalt (beBytes (fromBE c.d.newNonce) 32) (beBytes s.serverNonce 16),
         specNonceHash c.P.H (beBytes (fromBE c.d.newNonce) 32) 1 (beBytes (s.g ^ (s.a * fromBE c.d.b) % s.dhPrime) 256),
         req3⟩ := stageC_client h hans hr2

/-- **Stage 4 (auth key and salt on the server).** The conformant server reads
`set_client_DH_params` (SHA-1, at most 15 padding bytes, nonces, `retry_id = 0`, `g_b` in range)
and holds the SAME 256-byte key `g^(ab) mod dh_prime`, the same salt, and sends `dh_gen_ok` with
`new_nonce_hash1`. -/
theorem stage4_authkey_salt {c : Cfg} {s : Secrets} (h : ExchangeHyps c s) {msg req3 : Bytes}
    (hmsg : marshal c.R (cliInnerVal c s) = .ok msg) (hmsgl : msg.length ≤ 320)
    (hreq3 : marshal c.R (vSetClientDH (fromBE c.d.nonce) s.serverNonce
        (conformantMsg c.P.H c.P.E (beBytes (fromBE c.d.newNonce) 32) (beBytes s.serverNonce 16) msg
          (c.d.rnd.take (tempPadLen (20 + msg.length))))) = .ok req3) :
    ∃ r3, marshal c.R (vDHGenOk (fromBE c.d.nonce) s.serverNonce
          (fromBE (specNonceHash c.P.H (beBytes (fromBE c.d.newNonce) 32) 1 (beBytes (s.g ^ (s.a * fromBE c.d.b) % s.dhPrime) 256)))) = .ok r3 ∧
      srvGen c.R c.P s (fromBE c.d.nonce) (fromBE c.d.newNonce) req3 = some
        (⟨beBytes (s.g ^ (s.a * fromBE c.d.b) % s.dhPrime) 256,
          specSalt (beBytes (fromBE c.d.newNonce) 32) (beBytes s.serverNonce 16),
          specNonceHash c.P.H (beBytes (fromBE c.d.newNonce) 32) 1 (beBytes (s.g ^ (s.a * fromBE c.d.b) % s.dhPrime) 256)⟩, r3) :=
  stageD_server h hmsg hmsgl hreq3

/-- **Stage 5 (`dh_gen_ok`).** The client accepts a `dh_gen_ok` carrying the 16-byte hash it
expects — for EVERY value of that hash, leading zero bytes included. -/
theorem stage5_dhgen {c : Cfg} {s : Secrets} (h : ExchangeHyps c s) {hash r3 : Bytes} (hhl : hash.length = 16)
    (hr3 : marshal c.R (vDHGenOk (fromBE c.d.nonce) s.serverNonce (fromBE hash)) = .ok r3) :
    stage3 c s.serverNonce hash r3 = .ok () := stageE_client h hhl hr3

/-! ## the property -/

/-- **Agreement.** For ALL client draws (nonce, new_nonce, DH exponent `b`, padding bytes), all server
secrets (server_nonce, `pq = p·q` with `p, q < 2^32`, `g`, `a`, any `0 < dh_prime < 2^2048`, padding,
minimal or fixed-width integers, further fingerprints before and after its own) and all RSA-2048 key pairs for which
`(m^e)^d ≡ m (mod n)` — see `ExchangeHyps`; NO condition on leading zero bytes of any value — the
exchange of the client machine with the conformant server COMPLETES WITHOUT ERROR, and:
the client's auth key equals the server's and is `g^(ab) mod dh_prime` as exactly 256 big-endian
bytes; both derive the same key id `SHA1(key)[12:20]`; the client's salt equals the server's
(`new_nonce[0:8] xor server_nonce[0:8]`); the `new_nonce_hash1` the client expects is the one the
server sent (so it is accepted); service mode is off, `encrypted` is on; the trace of the client is
exactly three plain requests, then `encrypted := true`, then ONE session store with that key, key id
and salt. -/
theorem hs_agree (c : Cfg) (s : Secrets) (h : ExchangeHyps c s) :
    ∃ req1 req2 req3,
      let K := beBytes (s.g ^ (s.a * fromBE c.d.b) % s.dhPrime) 256
      let salt := specSalt (beBytes (fromBE c.d.newNonce) 32) (beBytes s.serverNonce 16)
      let hash1 := specNonceHash c.P.H (beBytes (fromBE c.d.newNonce) 32) 1 K
      (exchange c s).client.result = some (.ok ()) ∧
      (exchange c s).client.authKey = K ∧ K.length = 256 ∧
      (exchange c s).server = some ⟨K, salt, hash1⟩ ∧
      (exchange c s).client.authKeyHash = ((c.P.H K).drop 12).take 8 ∧
      (exchange c s).client.salt = salt ∧
      (exchange c s).client.nonceHash1 = hash1 ∧
      (exchange c s).client.serviceMode = false ∧ (exchange c s).client.encrypted = true ∧
      (exchange c s).actions = [.sendPlain req1, .sendPlain req2, .sendPlain req3, .setEncrypted,
        .saveSession K (((c.P.H K).drop 12).take 8) salt] := by
  obtain ⟨req1, r1, h0, hsrv1, hr1, hlen1⟩ := stageA h
  obtain ⟨m, req2, hm, hml, hreq2, hst1⟩ := stageB_client h hr1 hlen1
  obtain ⟨answer, r2, hans, hansl, hr2, hsrv2⟩ := stageB_server h hm hml hreq2
  obtain ⟨msg, req3, hmsg, hmsgl, hreq3, hst2⟩ := stageC_client h hans hr2
  obtain ⟨r3, hr3, hsrv3⟩ := stageD_server h hmsg hmsgl hreq3
  have hst3 := stageE_client h (specNonceHash_length c.P.H h.hlen _ 1 _) hr3
  refine ⟨req1, req2, req3, ?_⟩
  have hx : exchange c s = Exchange.mk
      (HsState.mk 3 false true (beBytes (s.g ^ (s.a * fromBE c.d.b) % s.dhPrime) 256)
        (slice (c.P.H (beBytes (s.g ^ (s.a * fromBE c.d.b) % s.dhPrime) 256)) 12 20)
        (specSalt (beBytes (fromBE c.d.newNonce) 32) (beBytes s.serverNonce 16))
        s.serverNonce
        (specNonceHash c.P.H (beBytes (fromBE c.d.newNonce) 32) 1 (beBytes (s.g ^ (s.a * fromBE c.d.b) % s.dhPrime) 256))
        (some (.ok ())))
      [.sendPlain req1, .sendPlain req2, .sendPlain req3, .setEncrypted,
        .saveSession (beBytes (s.g ^ (s.a * fromBE c.d.b) % s.dhPrime) 256)
          (slice (c.P.H (beBytes (s.g ^ (s.a * fromBE c.d.b) % s.dhPrime) 256)) 12 20)
          (specSalt (beBytes (fromBE c.d.newNonce) 32) (beBytes s.serverNonce 16))]
      (some (SrvResult.mk (beBytes (s.g ^ (s.a * fromBE c.d.b) % s.dhPrime) 256)
        (specSalt (beBytes (fromBE c.d.newNonce) 32) (beBytes s.serverNonce 16))
        (specNonceHash c.P.H (beBytes (fromBE c.d.newNonce) 32) 1 (beBytes (s.g ^ (s.a * fromBE c.d.b) % s.dhPrime) 256)))) := by
    have e0 : hsStart c = (({ serviceMode := true } : HsState), [Action.sendPlain req1]) := by
      simp [hsStart, h0, sendAction]
    have e1 : hsStep c ({ serviceMode := true } : HsState) r1
        = (({ stage := 1, serviceMode := true, serverNonce := s.serverNonce } : HsState), [Action.sendPlain req2]) := by
      simp [hsStep, hst1, sendAction]
    have e2 : hsStep c ({ stage := 1, serviceMode := true, serverNonce := s.serverNonce } : HsState) r2
        = (HsState.mk 2 true false (beBytes (s.g ^ (s.a * fromBE c.d.b) % s.dhPrime) 256)
            (slice (c.P.H (beBytes (s.g ^ (s.a * fromBE c.d.b) % s.dhPrime) 256)) 12 20)
            (specSalt (beBytes (fromBE c.d.newNonce) 32) (beBytes s.serverNonce 16))
            s.serverNonce
            (specNonceHash c.P.H (beBytes (fromBE c.d.newNonce) 32) 1 (beBytes (s.g ^ (s.a * fromBE c.d.b) % s.dhPrime) 256))
            none, [Action.sendPlain req3]) := by
      simp [hsStep, hst2, sendAction]
    have e3 : hsStep c (HsState.mk 2 true false (beBytes (s.g ^ (s.a * fromBE c.d.b) % s.dhPrime) 256)
            (slice (c.P.H (beBytes (s.g ^ (s.a * fromBE c.d.b) % s.dhPrime) 256)) 12 20)
            (specSalt (beBytes (fromBE c.d.newNonce) 32) (beBytes s.serverNonce 16))
            s.serverNonce
            (specNonceHash c.P.H (beBytes (fromBE c.d.newNonce) 32) 1 (beBytes (s.g ^ (s.a * fromBE c.d.b) % s.dhPrime) 256))
            none) r3
        = (HsState.mk 3 false true (beBytes (s.g ^ (s.a * fromBE c.d.b) % s.dhPrime) 256)
            (slice (c.P.H (beBytes (s.g ^ (s.a * fromBE c.d.b) % s.dhPrime) 256)) 12 20)
            (specSalt (beBytes (fromBE c.d.newNonce) 32) (beBytes s.serverNonce 16))
            s.serverNonce
            (specNonceHash c.P.H (beBytes (fromBE c.d.newNonce) 32) 1 (beBytes (s.g ^ (s.a * fromBE c.d.b) % s.dhPrime) 256))
            (some (.ok ())),
           [Action.setEncrypted, Action.saveSession (beBytes (s.g ^ (s.a * fromBE c.d.b) % s.dhPrime) 256)
              (slice (c.P.H (beBytes (s.g ^ (s.a * fromBE c.d.b) % s.dhPrime) 256)) 12 20)
              (specSalt (beBytes (fromBE c.d.newNonce) 32) (beBytes s.serverNonce 16))]) := by
      simp [hsStep, hst3]
    unfold exchange
    rw [e0]
    simp only [hsrv1, e1, hsrv2, e2, hsrv3, e3]
    rfl
  rw [hx]
  simp [slice_eq]

/-! ## non-vacuity -/

/-- a concrete instance of the hypotheses (a toy RSA pair `e = d = 1` on a 2048-bit modulus, the
order-reversing "cipher", the length "hash", dh_prime = 23, a new_nonce and a server_nonce that are
ZERO — the all-leading-zeros corner), for any factoring parameter `sp` -/
def toyCfgOf (sp : Nat → Option (Nat × Nat)) : Cfg :=
  { R := hsDescs,
    P := { H := lenHash, E := fun _ => List.reverse, D := fun _ => List.reverse,
           split := sp, gunzip := fun _ => none },
    key := ⟨2 ^ 2047, 1⟩,
    d := ⟨zeros 16, zeros 32, [2], zeros 15⟩ }

/-- … with the factoring given as a constant -/
def toyCfg : Cfg := toyCfgOf (fun _ => some (3, 5))

def toySecrets : Secrets :=
  { d := 1, serverNonce := 0, p := 3, q := 5, g := 2, a := 3, dhPrime := 23, time := 7,
    pad := zeros 15, minimal := true, extraFps := [42], laterFps := [7, 2 ^ 64 - 1] }

/-- `ExchangeHyps` is satisfiable for every factoring parameter that splits 15 into (3, 5) -/
theorem toy_hyps_of (sp : Nat → Option (Nat × Nat)) (hsp : sp 15 = some (3, 5)) :
    ExchangeHyps (toyCfgOf sp) toySecrets := by
  have hreg : HsReg hsDescs := by decide
  have hn : fromBE (toyCfgOf sp).d.nonce = fromBE (zeros 16) := rfl
  have hb : fromBE (toyCfgOf sp).d.b = fromBE [2] := rfl
  refine
    { reg := hreg, wfr := wfr_of_wfrB _ (show wfrB hsDescs = true by decide), hlen := lenHash_length,
      cipher := fun _ => revCipher, nonce := by simp [toyCfgOf], newNonce := by simp [toyCfgOf],
      rnd := by simp [toyCfgOf], keyLo := Nat.le_refl _,
      keyHi := Nat.pow_lt_pow_right (by decide) (by decide), keyE := (show (1 : Nat) < 2 ^ 63 by decide),
      rsa := ?_, serverNonce := by decide, p32 := by decide, q32 := by decide, split := hsp, g := by decide,
      dhPos := by decide,
      dhFit := Nat.lt_of_lt_of_le (by decide : (23 : Nat) < 2 ^ 5) (Nat.pow_le_pow_right (by decide) (by decide)), time := by decide, pad := by simp [toySecrets],
      fps := by decide, fpsLen := by decide, gb := by rw [hb]; decide, colAnswer := ?_, colClient := ?_ }
  · intro m hm
    simp only [toyCfgOf, toySecrets, Nat.pow_one]
    exact Nat.mod_eq_of_lt hm
  · intro answer ha
    refine lenHash_noLongerCollision _ _ ?_
    obtain ⟨bs, hbs, hl⟩ := marshal_inner_len hreg (fromBE (zeros 16)) toySecrets.serverNonce toySecrets.g
      (intBytes toySecrets.minimal toySecrets.dhPrime)
      (intBytes toySecrets.minimal (powMod toySecrets.g toySecrets.a toySecrets.dhPrime)) toySecrets.time
      (by decide) (by decide) (by decide) (by decide)
    have : answer = bs := by
      have h2 : marshal (toyCfgOf sp).R (srvAnswerVal (toyCfgOf sp) toySecrets) = .ok bs := hbs
      rw [ha] at h2; cases h2; rfl
    subst this
    have hp : (List.take (tempPadLen (20 + answer.length)) toySecrets.pad).length ≤ 15 := by
      simp [toySecrets]
    have h1 : (intBytes toySecrets.minimal toySecrets.dhPrime).length ≤ 256 := by decide
    have h2 : (intBytes toySecrets.minimal (powMod toySecrets.g toySecrets.a toySecrets.dhPrime)).length ≤ 256 := by decide
    have : (256 : Nat) ^ 20 = 2 ^ 160 := by rw [show (256 : Nat) = 2 ^ 8 from rfl, ← Nat.pow_mul]
    omega
  · intro msg hm
    refine lenHash_noLongerCollision _ _ ?_
    obtain ⟨bs, hbs, hl⟩ := marshal_clientInner_len hreg (fromBE (zeros 16)) toySecrets.serverNonce 0
      (bigBytes (powMod toySecrets.g (fromBE [2]) toySecrets.dhPrime)) (by decide) (by decide) (by decide)
    have : msg = bs := by
      have h2 : marshal (toyCfgOf sp).R (cliInnerVal (toyCfgOf sp) toySecrets) = .ok bs := hbs
      rw [hm] at h2; cases h2; rfl
    subst this
    have hp : (List.take (tempPadLen (20 + msg.length)) (toyCfgOf sp).d.rnd).length ≤ 15 := by
      simp [toyCfgOf]
    have h1 : (bigBytes (powMod toySecrets.g (fromBE [2]) toySecrets.dhPrime)).length ≤ 256 := by decide
    have : (256 : Nat) ^ 20 = 2 ^ 160 := by rw [show (256 : Nat) = 2 ^ 8 from rfl, ← Nat.pow_mul]
    omega

theorem toy_hyps : ExchangeHyps toyCfg toySecrets := toy_hyps_of _ rfl

/-- … and on that instance the theorem yields a completed exchange with a stored session -/
example : (exchange toyCfg toySecrets).client.result = some (.ok ()) ∧
    (exchange toyCfg toySecrets).client.encrypted = true := by
  obtain ⟨_, _, _, h⟩ := hs_agree toyCfg toySecrets toy_hyps
  exact ⟨h.1, h.2.2.2.2.2.2.2.2.1⟩

/-! ## the factoring of pq: `math.SplitPQ` inside the model

`hs_agree` takes the factoring as a parameter `split` with the hypothesis `split (p·q) = some (p, q)`.
This section replaces that hypothesis by theorems about `splitPQ` (Mtv/Handshake/SplitPQ.lean), the
statement-by-statement model of `math.SplitPQ`, tied to the source by `splitpq_matches_source`.
What remains a hypothesis is that the randomised walk RETURNS within the rounds the model is given
(`splitPQ fuel draws pq = .ok r`): termination of Pollard's rho is a statement about the draws (it holds
with probability 1 over them, and for no bound on the rounds in the worst case); it is not provable
for all draw streams, and false for some (`splitPQ … 4` with a stream that always yields `g = 4`). -/

/-- **The inner loop is multiplication-and-add modulo `n`.** For every `b`, every `a, c < n`: the
double-and-add loop of `SplitPQ` (`a, b, c := x, x, q; for b > 0 { … }`) ends with
`c + a·b mod n` — so one pass of the walk is `x ↦ x² + q mod pq`. -/
theorem mulAddMod_spec {n a c : Nat} (b : Nat) (ha : a < n) (hc : c < n) :
    mulAddMod n a b c = (c + a * b) % n := mulAddMod_eq b ha hc

example : mulAddMod 0x17ED48941A08F981 1613116363541509719 1613116363541509719 30
      = (30 + 1613116363541509719 * 1613116363541509719) % 0x17ED48941A08F981 ∧
    mulAddMod 0x17ED48941A08F981 1613116363541509719 1613116363541509719 30 = 1400231950211202908 :=
  ⟨mulAddMod_spec _ (by decide) (by decide), by decide +kernel⟩

/-- … and the walk of one round stays below `pq`: `x ↦ (q + x·x) mod pq` -/
theorem rho_step_is_square_plus_q {what q : Nat} {s : Rho} (hx : s.x < what) (hq : q < what) :
    (rhoStep what q s).x = (q + s.x * s.x) % what ∧ (rhoStep what q s).x < what := rhoStep_x hx hq

/-- **The middle loop ends by itself.** `j` counts up to `lim`: once `lim ≤ j + fuel` any further fuel
changes nothing. The model runs `for j < lim && flag` with `fuel = lim` from `j = 1`, so its fuel is
never what ends the loop. -/
theorem rho_loop_ends (what q lim fuel : Nat) (s : Rho) (h : lim ≤ s.j + fuel) (k : Nat) :
    rhoLoop what q lim (fuel + k) s = rhoLoop what q lim fuel s := rhoLoop_fuel what q lim fuel s h k

/-- **Partial correctness of `SplitPQ`.** For EVERY number of rounds, EVERY stream of draws and EVERY
`pq` (in particular every `pq ≥ 4`, what the guard lets through): whatever the random walk did, a
returned pair is a factorisation in order — `p1 · p2 = pq`, `1 < p1 ≤ p2 < pq`. -/
theorem splitPQ_sound (fuel : Nat) (draws : Nat → Nat × Nat) (pq p1 p2 : Nat)
    (h : splitPQ fuel draws pq = .ok (p1, p2)) : p1 * p2 = pq ∧ 1 < p1 ∧ p1 ≤ p2 ∧ p2 < pq :=
  outerLoop_sound pq draws fuel 0 0 (p1, p2) (Or.inl rfl) h

/-- the test vector of the repository (internal/math/math_test.go), with draws that make the walk find
1229739323 at its 17th step: `q = (0x…D & 15) + 17 = 30`, `x = 1613116363541509718 + 1` -/
example : splitPQ 1 (fun _ => (0x9E3779B97F4A7C1D, 1613116363541509718)) 0x17ED48941A08F981
    = .ok (1229739323, 1402015859) := by decide +kernel

/-- 101 · 103, found in the first round after a longer walk; equal primes; the smallest product -/
example : splitPQ 4 (fun i => (5 + i, 1234 + i)) 10403 = .ok (101, 103) ∧
    splitPQ 4 (fun i => (5 + i, 1234 + i)) 378221 = .ok (613, 617) ∧
    splitPQ 3 (fun i => (i, 7 * i)) 9 = .ok (3, 3) ∧
    splitPQ 3 (fun i => (5 + i, 35 + i)) 4 = .ok (2, 2) := by decide +kernel

/-- **On a product of two primes the result is THE pair.** `p ≤ q` prime: whatever the rounds and the
draws, a returned pair is `(p, q)` — the real function (math/rand seeded with the clock) and the model
run with any fixed stream agree whenever both return. -/
theorem splitPQ_semiprime {p q : Nat} (hp : Nat.Prime p) (hq : Nat.Prime q) (hle : p ≤ q)
    (fuel : Nat) (draws : Nat → Nat × Nat) (p1 p2 : Nat)
    (h : splitPQ fuel draws (p * q) = .ok (p1, p2)) : p1 = p ∧ p2 = q := by
  obtain ⟨hm, h1, h2, _⟩ := splitPQ_sound fuel draws (p * q) p1 p2 h
  exact semiprime_unique hp hq hle hm h1 h2

example : Nat.Prime 101 ∧ Nat.Prime 103 ∧ splitPQ 4 (fun i => (5 + i, 1234 + i)) (101 * 103) = .ok (101, 103) :=
  ⟨by norm_num, by norm_num, by decide +kernel⟩

/-- **No division by zero from 2 on** (so none behind the guard, which lets through `pq ≥ 4` only):
the two `Mod` calls of `SplitPQ` have the divisors `what` and `what − 1`. -/
theorem splitPQ_no_panic {pq : Nat} (h : 2 ≤ pq) (fuel : Nat) (draws : Nat → Nat × Nat) (site : String) :
    splitPQ fuel draws pq ≠ .panic site := outerLoop_no_panic pq draws h fuel 0 0 site

example : splitPQ 2 (fun i => (i, i)) 4 ≠ .panic siteModWhat := splitPQ_no_panic (by decide) _ _ _

/-- **… and below 2 it does divide by zero** (witness; the harness replays it against the real function:
`c06.splitraw 1`, `c06.splitraw 0`): `SplitPQ(1)` panics in `x.Mod(x, whatnext)` with `whatnext = 0`,
`SplitPQ(0)` in `q.Mod(q, what)`, in the first round, whatever the draws. The guard of handshake.go
(`pq.Cmp(big.NewInt(4)) < 0` ⇒ error) excludes both. -/
theorem splitPQ_panics_below_two (fuel : Nat) (draws : Nat → Nat × Nat) :
    splitPQ (fuel + 1) draws 1 = .panic siteModWhatnext ∧ splitPQ (fuel + 1) draws 0 = .panic siteModWhat := by
  constructor <;> simp [splitPQ, outerLoop]

/-- **On a prime `SplitPQ` never returns**: after any number of rounds the outer loop is still going
(every `g` it computes is 1 or `pq`). The guard (`pq.ProbablyPrime(0)` ⇒ error) excludes primes. -/
theorem splitPQ_prime_runs {pq : Nat} (hp : Nat.Prime pq) (fuel : Nat) (draws : Nat → Nat × Nat) :
    splitPQ fuel draws pq = .running := by
  cases hs : splitPQ fuel draws pq with
  | running => rfl
  | panic site => exact absurd hs (splitPQ_no_panic hp.two_le fuel draws site)
  | ok r =>
    obtain ⟨p1, p2⟩ := r
    obtain ⟨hm, h1, h2, h3⟩ := splitPQ_sound fuel draws pq p1 p2 hs
    rcases (Nat.dvd_prime hp).1 ⟨p2, hm.symm⟩ with h | h
    · omega
    · omega

example : splitPQ 2 (fun i => (i, 3 * i)) 10007 = .running := splitPQ_prime_runs (by norm_num) _ _

/-- **The model was written against the source of this working tree.** The statement skeleton of
`func SplitPQ` extracted from internal/math/math.go by go/parser on this run — the imports and package
variables it refers to (`big15 = big.NewInt(15)`, …), its signature, every statement in order with
its nesting: loops with their conditions, every assignment with the `big.Int` method called and its
operands, the constants 64 and 18, the swap, the return — equals the list in
Mtv/Handshake/SplitPQ.lean. Any edit of the function other than comments breaks this obligation. -/
theorem splitpq_matches_source : Mtv.Gen.splitPQSource = modelSplitPQ := by decide +kernel

/-- **Agreement, with the factoring modelled.** As `hs_agree`, but the client's `split` parameter is
the guard of handshake.go followed by the model of `math.SplitPQ` (`guardedSplit`), and instead of
ASSUMING that the factoring returns the server's `(p, q)`:
* `hp hq hle` — the server's `pq` is the product of two primes `p ≤ q` (what the protocol prescribes);
* `hpp` — `big.Int.ProbablyPrime(0)` does not take that product for a prime (math/big is not modelled;
  its documentation: exact below 2^64, and here `p·q < 2^64`);
* `hret` — **the call returns**: within `fuel` rounds of fresh draws the walk of the model has found a
  proper divisor (`splitPQ fuel draws (p·q) = .ok r` for some `r`). This is the termination of a
  randomised algorithm: true with probability 1 over the draws, not provable for every stream, and the
  one thing about `SplitPQ` that stays assumed (observed on the real function on every run:
  `c06.split`). WHAT it returns is not assumed: `splitPQ_semiprime`.
* `h` — every other hypothesis of `ExchangeHyps` (stated as: `ExchangeHyps` holds as soon as its
  factoring clause does). -/
theorem hs_agree_splitPQ (c : Cfg) (s : Secrets) (pp : Nat → Bool) (fuel : Nat) (draws : Nat → Nat × Nat)
    (hsplit : c.P.split = guardedSplit pp fuel draws)
    (hp : Nat.Prime s.p) (hq : Nat.Prime s.q) (hle : s.p ≤ s.q)
    (hpp : pp (s.p * s.q) = false)
    (hret : ∃ r, splitPQ fuel draws (s.p * s.q) = .ok r)
    (h : c.P.split (s.p * s.q) = some (s.p, s.q) → ExchangeHyps c s) :
    ∃ req1 req2 req3,
      let K := beBytes (s.g ^ (s.a * fromBE c.d.b) % s.dhPrime) 256
      let salt := specSalt (beBytes (fromBE c.d.newNonce) 32) (beBytes s.serverNonce 16)
      let hash1 := specNonceHash c.P.H (beBytes (fromBE c.d.newNonce) 32) 1 K
      (exchange c s).client.result = some (.ok ()) ∧
      (exchange c s).client.authKey = K ∧ K.length = 256 ∧
      (exchange c s).server = some ⟨K, salt, hash1⟩ ∧
      (exchange c s).client.authKeyHash = ((c.P.H K).drop 12).take 8 ∧
      (exchange c s).client.salt = salt ∧
      (exchange c s).client.nonceHash1 = hash1 ∧
      (exchange c s).client.serviceMode = false ∧ (exchange c s).client.encrypted = true ∧
      (exchange c s).actions = [.sendPlain req1, .sendPlain req2, .sendPlain req3, .setEncrypted,
        .saveSession K (((c.P.H K).drop 12).take 8) salt] := by
  obtain ⟨⟨p1, p2⟩, hr⟩ := hret
  obtain ⟨e1, e2⟩ := splitPQ_semiprime hp hq hle fuel draws p1 p2 hr
  subst e1 e2
  have h4 : 4 ≤ s.p * s.q := by
    have := Nat.mul_le_mul hp.two_le hq.two_le
    omega
  have hs : c.P.split (s.p * s.q) = some (s.p, s.q) := by
    rw [hsplit]; exact guardedSplit_some.2 ⟨h4, hpp, hr⟩
  exact hs_agree c s (h hs)

/-- non-vacuity: the toy instance with `split` = guard + model (a primality test that says "composite",
two rounds, a draw stream), `pq = 15`: the hypotheses hold and the exchange completes -/
example : (exchange (toyCfgOf (guardedSplit (fun _ => false) 2 (fun i => (5 + i, 1234 + i)))) toySecrets).client.result
    = some (.ok ()) := by
  obtain ⟨_, _, _, h⟩ := hs_agree_splitPQ (toyCfgOf (guardedSplit (fun _ => false) 2 (fun i => (5 + i, 1234 + i))))
    toySecrets (fun _ => false) 2 (fun i => (5 + i, 1234 + i)) rfl (by norm_num [toySecrets]) (by norm_num [toySecrets])
    (by decide) rfl ⟨(3, 5), by decide +kernel⟩ (fun hs => toy_hyps_of _ hs)
  exact h.1

/-! ## the client's own draws as an input -/

/-- **Every draw.** `hs_agree` with the client's draws as explicit variables. `ExchangeHyps` asks of the nonce 16
bytes, of new_nonce 32 bytes, of the padding source at least 15 bytes, and of the DH exponent `b` NOTHING about
its form: any byte string `crypto/rand` may deliver - of any length, with any number of leading zero bytes, as a
number tiny (1, 2, 1000), huge (2^2048 − 1), at or above `dh_prime` or a multiple of the group order plus a little.
The only hypothesis that depends on the VALUE of `b` is `ExchangeHyps.gb`, `1 < g^b mod dh_prime < dh_prime − 1`: the
g_b every conformant server has to accept (`any_draw_condition` states it with `^`; `zero_draw_excluded`: it fails
for `b = 0`, where g_b = 1 is refused by every conformant server and this client does not draw again). Then the
exchange completes, both sides hold `g^(a·b) mod dh_prime` as exactly 256 bytes, the same salt, the client is in
encrypted mode and has stored ONE session with that key and salt. The client machine draws each value once
(`Draws`), as `makeAuthKey` / `math.MakeGAB` do: there is no second draw whose value could matter. -/
theorem hs_agree_any_draw (R : Registry) (P : Prims) (key : PubKey) (nonce newNonce b rnd : Bytes) (s : Secrets)
    (h : ExchangeHyps ⟨R, P, key, ⟨nonce, newNonce, b, rnd⟩⟩ s) :
    let x := exchange ⟨R, P, key, ⟨nonce, newNonce, b, rnd⟩⟩ s
    let K := beBytes (s.g ^ (s.a * fromBE b) % s.dhPrime) 256
    x.client.result = some (.ok ()) ∧ x.client.authKey = K ∧ K.length = 256 ∧
      x.server.map (·.authKey) = some K ∧ x.server.map (·.salt) = some x.client.salt ∧
      x.client.encrypted = true ∧ x.client.serviceMode = false ∧
      ∃ req1 req2 req3, x.actions = [.sendPlain req1, .sendPlain req2, .sendPlain req3, .setEncrypted,
        .saveSession K (((P.H K).drop 12).take 8) x.client.salt] := by
  obtain ⟨req1, req2, req3, hres, hkey, hlen, hsrv, _, hsalt, _, hsvc, henc, hact⟩ := hs_agree _ s h
  refine ⟨hres, hkey, hlen, ?_, ?_, henc, hsvc, req1, req2, req3, ?_⟩
  · simp only [hsrv, Option.map_some]
  · simp only [hsrv, hsalt, Option.map_some]
  · simp only [hact, hsalt]

/-- the one condition on the value of the exponent, in terms of `^` (not of the executable `powMod`) -/
theorem any_draw_condition {c : Cfg} {s : Secrets} (h : ExchangeHyps c s) :
    1 < s.g ^ fromBE c.d.b % s.dhPrime ∧ s.g ^ fromBE c.d.b % s.dhPrime < s.dhPrime - 1 := by
  have := h.gb
  rwa [powMod_spec] at this

/-- … which excludes the draw `b = 0` (any number of zero bytes): g_b = 1 -/
theorem zero_draw_excluded (c : Cfg) (s : Secrets) (hb : fromBE c.d.b = 0) : ¬ ExchangeHyps c s := by
  intro h
  have h1 := (any_draw_condition h).1
  rw [hb, Nat.pow_zero] at h1
  have := Nat.mod_le 1 s.dhPrime
  omega

/-- the toy instance with another exponent: three bytes, two leading zero bytes, the number 25 ≥ dh_prime = 23
(`2^25 mod 23 = 8`) -/
def toyCfgBigB : Cfg := { toyCfg with d := ⟨zeros 16, zeros 32, [0, 0, 25], zeros 15⟩ }

theorem toy_hyps_big_b : ExchangeHyps toyCfgBigB toySecrets := by
  have hreg : HsReg hsDescs := by decide
  have hb : fromBE toyCfgBigB.d.b = fromBE [0, 0, 25] := rfl
  refine
    { reg := hreg, wfr := wfr_of_wfrB _ (show wfrB hsDescs = true by decide), hlen := lenHash_length,
      cipher := fun _ => revCipher, nonce := by simp [toyCfgBigB], newNonce := by simp [toyCfgBigB],
      rnd := by simp [toyCfgBigB], keyLo := Nat.le_refl _,
      keyHi := Nat.pow_lt_pow_right (by decide) (by decide), keyE := (show (1 : Nat) < 2 ^ 63 by decide),
      rsa := ?_, serverNonce := by decide, p32 := by decide, q32 := by decide, split := rfl, g := by decide,
      dhPos := by decide,
      dhFit := Nat.lt_of_lt_of_le (by decide : (23 : Nat) < 2 ^ 5) (Nat.pow_le_pow_right (by decide) (by decide)), time := by decide, pad := by simp [toySecrets],
      fps := by decide, fpsLen := by decide, gb := by rw [hb]; decide, colAnswer := ?_, colClient := ?_ }
  · intro m hm
    simp only [toyCfgBigB, toyCfg, toyCfgOf, toySecrets, Nat.pow_one]
    exact Nat.mod_eq_of_lt hm
  · intro answer ha
    refine lenHash_noLongerCollision _ _ ?_
    obtain ⟨bs, hbs, hl⟩ := marshal_inner_len hreg (fromBE (zeros 16)) toySecrets.serverNonce toySecrets.g
      (intBytes toySecrets.minimal toySecrets.dhPrime)
      (intBytes toySecrets.minimal (powMod toySecrets.g toySecrets.a toySecrets.dhPrime)) toySecrets.time
      (by decide) (by decide) (by decide) (by decide)
    have : answer = bs := by
      have h2 : marshal toyCfgBigB.R (srvAnswerVal toyCfgBigB toySecrets) = .ok bs := hbs
      rw [ha] at h2; cases h2; rfl
    subst this
    have hp : (List.take (tempPadLen (20 + answer.length)) toySecrets.pad).length ≤ 15 := by
      simp [toySecrets]
    have h1 : (intBytes toySecrets.minimal toySecrets.dhPrime).length ≤ 256 := by decide
    have h2 : (intBytes toySecrets.minimal (powMod toySecrets.g toySecrets.a toySecrets.dhPrime)).length ≤ 256 := by decide
    have : (256 : Nat) ^ 20 = 2 ^ 160 := by rw [show (256 : Nat) = 2 ^ 8 from rfl, ← Nat.pow_mul]
    omega
  · intro msg hm
    refine lenHash_noLongerCollision _ _ ?_
    obtain ⟨bs, hbs, hl⟩ := marshal_clientInner_len hreg (fromBE (zeros 16)) toySecrets.serverNonce 0
      (bigBytes (powMod toySecrets.g (fromBE [0, 0, 25]) toySecrets.dhPrime)) (by decide) (by decide) (by decide)
    have : msg = bs := by
      have h2 : marshal toyCfgBigB.R (cliInnerVal toyCfgBigB toySecrets) = .ok bs := hbs
      rw [hm] at h2; cases h2; rfl
    subst this
    have hp : (List.take (tempPadLen (20 + msg.length)) toyCfgBigB.d.rnd).length ≤ 15 := by
      simp [toyCfgBigB]
    have h1 : (bigBytes (powMod toySecrets.g (fromBE [0, 0, 25]) toySecrets.dhPrime)).length ≤ 256 := by decide
    have : (256 : Nat) ^ 20 = 2 ^ 160 := by rw [show (256 : Nat) = 2 ^ 8 from rfl, ← Nat.pow_mul]
    omega

/-- `hs_agree_any_draw` is not vacuous for an exponent at or above the modulus, with leading zero bytes: the
exchange completes and the key is `2^(3·25) mod 23 = 2^9 mod 23 = 6` as 256 bytes -/
example : (exchange toyCfgBigB toySecrets).client.result = some (.ok ()) ∧
    (exchange toyCfgBigB toySecrets).client.authKey = beBytes 6 256 := by
  have h := hs_agree_any_draw hsDescs toyCfgBigB.P toyCfgBigB.key (zeros 16) (zeros 32) [0, 0, 25] (zeros 15) toySecrets toy_hyps_big_b
  refine ⟨h.1, ?_⟩
  rw [show (exchange toyCfgBigB toySecrets).client.authKey = _ from h.2.1]
  have : toySecrets.g ^ (toySecrets.a * fromBE [0, 0, 25]) % toySecrets.dhPrime = 6 := by decide
  rw [this]

/-- … and a draw of zero bytes is outside the hypotheses -/
example : ¬ ExchangeHyps { toyCfg with d := ⟨zeros 16, zeros 32, [0, 0, 0, 0], zeros 15⟩ } toySecrets :=
  zero_draw_excluded _ _ (by decide)

end Mtv.Handshake
