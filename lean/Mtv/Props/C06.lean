/-
  C06 — key exchange with any conformant server ends in a shared auth key and salt.
  Property theorems only. Model: Mtv/Handshake/{Num,Wire,Reg,Client,Server}.lean — `makeAuthKey` as
  REPAIRED by the C06-*/C07-* fix commits, run against `ServerSpec` (Server.lean), the conformant
  server written from the protocol description. SHA-1, AES-256 and the factoring of pq are parameters;
  RSA is `m^e mod n` with the correctness of the key pair as a hypothesis. Helper lemmas:
  Mtv/Lemmas/{C06Num,C06Wire,C06Stages}.lean (stages), C05 (IGE and the padding wrappers), C01 (TL
  round trip).
-/
import Mtv.Lemmas.C06Stages
namespace Mtv.Handshake
open Mtv Mtv.TL Mtv.Ige

/-! ## arithmetic -/

/-- **The executable modular exponentiation (square-and-multiply, what the driver runs in place of
`big.Int.Exp`) is `b ^ e mod m`**, for all arguments. -/
theorem powMod_spec (b e m : Nat) : powMod b e m = b ^ e % m := powMod_eq b e m

example : powMod 3 200 1000 = 3 ^ 200 % 1000 ∧ powMod 3 200 1000 = 1 := ⟨powMod_spec _ _ _, by decide⟩

/-- **The Diffie-Hellman core**: whatever `g`, the exponents and the modulus, the client's
`(g^a mod P)^b mod P` and the server's `(g^b mod P)^a mod P` are both `g^(ab) mod P`. -/
theorem dh_core (g a b P : Nat) :
    powMod (powMod g a P) b P = g ^ (a * b) % P ∧ powMod (powMod g b P) a P = g ^ (a * b) % P :=
  dh_agree g a b P

example : powMod (powMod 5 6 23) 15 23 = powMod (powMod 5 15 23) 6 23 := by decide

/-! ## the five stages of an exchange with a conformant server -/

/-- **Stage 1 (`req_pq`).** The client's first request is understood by the conformant server, which
answers `resPQ` carrying the client's nonce, its own server_nonce, pq and the fingerprints. -/
theorem stage1_reqpq {c : Cfg} {s : Secrets} (h : ExchangeHyps c s) :
    ∃ req1 r1, marshalSend c.R (vReqPQ (fromBE c.d.nonce)) = .ok req1 ∧
      srvResPQ c.R c.P c.key s req1 = some (fromBE c.d.nonce, r1) ∧
      marshal c.R (vResPQ (fromBE c.d.nonce) s.serverNonce (bigBytes (s.p * s.q))
        (s.offered (specFingerprint c.P.H c.key))) = .ok r1 ∧
      (s.offered (specFingerprint c.P.H c.key)).length ≤ r1.length := stageA h

/-- **Stage 2 (`p_q_inner_data`).** The client accepts `resPQ` (nonce, fingerprint), splits pq,
RSA-encrypts `SHA1(p_q_inner_data) ‖ p_q_inner_data ‖ zeros` (255 bytes → 256 bytes, right-aligned)
and sends `req_DH_params`; the server's private exponent recovers the block EXACTLY — also when the
RSA result has leading zero bytes —, the SHA-1 matches, `new_nonce` is taken over, and the server
answers `server_DH_params_ok` with the conformantly wrapped `server_DH_inner_data`. -/
theorem stage2_pq_inner {c : Cfg} {s : Secrets} (h : ExchangeHyps c s) {r1 : Bytes}
    (hr1 : marshal c.R (vResPQ (fromBE c.d.nonce) s.serverNonce (bigBytes (s.p * s.q))
        (s.offered (specFingerprint c.P.H c.key))) = .ok r1)
    (hlen : (s.offered (specFingerprint c.P.H c.key)).length ≤ r1.length) :
    ∃ req2 answer r2, stage1 c r1 = .ok ⟨s.serverNonce, req2⟩ ∧
      marshal c.R (srvAnswerVal c s) = .ok answer ∧
      marshal c.R (vDHOk (fromBE c.d.nonce) s.serverNonce
        (conformantMsg c.P.H c.P.E (beBytes (fromBE c.d.newNonce) 32) (beBytes s.serverNonce 16) answer
          (s.pad.take (tempPadLen (20 + answer.length))))) = .ok r2 ∧
      srvDH c.R c.P c.key s (fromBE c.d.nonce) req2 = some (fromBE c.d.newNonce, r2) := by
  obtain ⟨m, req2, hm, hml, hreq2, hst1⟩ := stageB_client h hr1 hlen
  obtain ⟨answer, r2, hans, _, hr2, hsrv2⟩ := stageB_server h hm hml hreq2
  exact ⟨req2, answer, r2, hst1, hans, hr2, hsrv2⟩

/-- **Stage 3 (the DH answer).** The client accepts `server_DH_params_ok`, decrypts the answer with
the temporary key (derived from ALL 32 / 16 bytes of new_nonce / server_nonce), finds the SHA-1
prefix, checks the inner data, and ends up with: auth key = `g^(ab) mod dh_prime` as exactly 256
big-endian bytes, key id `SHA1(key)[12:20]`, salt `new_nonce[0:8] xor server_nonce[0:8]`, the
expected `new_nonce_hash1`; it sends `set_client_DH_params` wrapped conformantly. -/
theorem stage3_dh_answer {c : Cfg} {s : Secrets} (h : ExchangeHyps c s) {answer r2 : Bytes}
    (hans : marshal c.R (srvAnswerVal c s) = .ok answer)
    (hr2 : marshal c.R (vDHOk (fromBE c.d.nonce) s.serverNonce
        (conformantMsg c.P.H c.P.E (beBytes (fromBE c.d.newNonce) 32) (beBytes s.serverNonce 16) answer
          (s.pad.take (tempPadLen (20 + answer.length))))) = .ok r2) :
    ∃ msg req3, marshal c.R (cliInnerVal c s) = .ok msg ∧ msg.length ≤ 320 ∧
      marshal c.R (vSetClientDH (fromBE c.d.nonce) s.serverNonce
        (conformantMsg c.P.H c.P.E (beBytes (fromBE c.d.newNonce) 32) (beBytes s.serverNonce 16) msg
          (c.d.rnd.take (tempPadLen (20 + msg.length))))) = .ok req3 ∧
      stage2 c s.serverNonce r2 = .ok
        ⟨beBytes (s.g ^ (s.a * fromBE c.d.b) % s.dhPrime) 256,
         slice (c.P.H (beBytes (s.g ^ (s.a * fromBE c.d.b) % s.dhPrime) 256)) 12 20,
         specSalt (beBytes (fromBE c.d.newNonce) 32) (beBytes s.serverNonce 16),
         specNonceHash c.P.H (beBytes (fromBE c.d.newNonce) 32) 1 (beBytes (s.g ^ (s.a * fromBE c.d.b) % s.dhPrime) 256),
         req3⟩ := stageC_client h hans hr2

/-- **Stage 4 (auth key and salt on the server).** The conformant server reads
`set_client_DH_params` (SHA-1, at most 15 padding bytes, nonces, `retry_id = 0`, `g_b` in range)
and holds the SAME 256-byte key `g^(ab) mod dh_prime`, the same salt, and sends `dh_gen_ok` with
`new_nonce_hash1`. -/
theorem stage4_authkey_salt {c : Cfg} {s : Secrets} (h : ExchangeHyps c s) {msg req3 : Bytes}
    (hmsg : marshal c.R (cliInnerVal c s) = .ok msg) (hmsgl : msg.length ≤ 320)
    (hreq3 : marshal c.R (vSetClientDH (fromBE c.d.nonce) s.serverNonce
        (conformantMsg c.P.H c.P.E (beBytes (fromBE c.d.newNonce) 32) (beBytes s.serverNonce 16) msg
          (c.d.rnd.take (tempPadLen (20 + msg.length))))) = .ok req3) :
    ∃ r3, marshal c.R (vDHGenOk (fromBE c.d.nonce) s.serverNonce
          (fromBE (specNonceHash c.P.H (beBytes (fromBE c.d.newNonce) 32) 1 (beBytes (s.g ^ (s.a * fromBE c.d.b) % s.dhPrime) 256)))) = .ok r3 ∧
      srvGen c.R c.P s (fromBE c.d.nonce) (fromBE c.d.newNonce) req3 = some
        (⟨beBytes (s.g ^ (s.a * fromBE c.d.b) % s.dhPrime) 256,
          specSalt (beBytes (fromBE c.d.newNonce) 32) (beBytes s.serverNonce 16),
          specNonceHash c.P.H (beBytes (fromBE c.d.newNonce) 32) 1 (beBytes (s.g ^ (s.a * fromBE c.d.b) % s.dhPrime) 256)⟩, r3) :=
  stageD_server h hmsg hmsgl hreq3

/-- **Stage 5 (`dh_gen_ok`).** The client accepts a `dh_gen_ok` carrying the 16-byte hash it
expects — for EVERY value of that hash, leading zero bytes included. -/
theorem stage5_dhgen {c : Cfg} {s : Secrets} (h : ExchangeHyps c s) {hash r3 : Bytes} (hhl : hash.length = 16)
    (hr3 : marshal c.R (vDHGenOk (fromBE c.d.nonce) s.serverNonce (fromBE hash)) = .ok r3) :
    stage3 c s.serverNonce hash r3 = .ok () := stageE_client h hhl hr3

/-! ## the property -/

/-- **Agreement.** For ALL client draws (nonce, new_nonce, DH exponent `b`, padding bytes), all server
secrets (server_nonce, `pq = p·q` with `p, q < 2^32`, `g`, `a`, any `0 < dh_prime < 2^2048`, padding,
minimal or fixed-width integers, further fingerprints before and after its own) and all RSA-2048 key pairs for which
`(m^e)^d ≡ m (mod n)` — see `ExchangeHyps`; NO condition on leading zero bytes of any value — the
exchange of the client machine with the conformant server COMPLETES WITHOUT ERROR, and:
the client's auth key equals the server's and is `g^(ab) mod dh_prime` as exactly 256 big-endian
bytes; both derive the same key id `SHA1(key)[12:20]`; the client's salt equals the server's
(`new_nonce[0:8] xor server_nonce[0:8]`); the `new_nonce_hash1` the client expects is the one the
server sent (so it is accepted); service mode is off, `encrypted` is on; the trace of the client is
exactly three plain requests, then `encrypted := true`, then ONE session store with that key, key id
and salt. -/
theorem hs_agree (c : Cfg) (s : Secrets) (h : ExchangeHyps c s) :
    ∃ req1 req2 req3,
      let K := beBytes (s.g ^ (s.a * fromBE c.d.b) % s.dhPrime) 256
      let salt := specSalt (beBytes (fromBE c.d.newNonce) 32) (beBytes s.serverNonce 16)
      let hash1 := specNonceHash c.P.H (beBytes (fromBE c.d.newNonce) 32) 1 K
      (exchange c s).client.result = some (.ok ()) ∧
      (exchange c s).client.authKey = K ∧ K.length = 256 ∧
      (exchange c s).server = some ⟨K, salt, hash1⟩ ∧
      (exchange c s).client.authKeyHash = ((c.P.H K).drop 12).take 8 ∧
      (exchange c s).client.salt = salt ∧
      (exchange c s).client.nonceHash1 = hash1 ∧
      (exchange c s).client.serviceMode = false ∧ (exchange c s).client.encrypted = true ∧
      (exchange c s).actions = [.sendPlain req1, .sendPlain req2, .sendPlain req3, .setEncrypted,
        .saveSession K (((c.P.H K).drop 12).take 8) salt] := by
  obtain ⟨req1, r1, h0, hsrv1, hr1, hlen1⟩ := stageA h
  obtain ⟨m, req2, hm, hml, hreq2, hst1⟩ := stageB_client h hr1 hlen1
  obtain ⟨answer, r2, hans, hansl, hr2, hsrv2⟩ := stageB_server h hm hml hreq2
  obtain ⟨msg, req3, hmsg, hmsgl, hreq3, hst2⟩ := stageC_client h hans hr2
  obtain ⟨r3, hr3, hsrv3⟩ := stageD_server h hmsg hmsgl hreq3
  have hst3 := stageE_client h (specNonceHash_length c.P.H h.hlen _ 1 _) hr3
  refine ⟨req1, req2, req3, ?_⟩
  have hx : exchange c s = Exchange.mk
      (HsState.mk 3 false true (beBytes (s.g ^ (s.a * fromBE c.d.b) % s.dhPrime) 256)
        (slice (c.P.H (beBytes (s.g ^ (s.a * fromBE c.d.b) % s.dhPrime) 256)) 12 20)
        (specSalt (beBytes (fromBE c.d.newNonce) 32) (beBytes s.serverNonce 16))
        s.serverNonce
        (specNonceHash c.P.H (beBytes (fromBE c.d.newNonce) 32) 1 (beBytes (s.g ^ (s.a * fromBE c.d.b) % s.dhPrime) 256))
        (some (.ok ())))
      [.sendPlain req1, .sendPlain req2, .sendPlain req3, .setEncrypted,
        .saveSession (beBytes (s.g ^ (s.a * fromBE c.d.b) % s.dhPrime) 256)
          (slice (c.P.H (beBytes (s.g ^ (s.a * fromBE c.d.b) % s.dhPrime) 256)) 12 20)
          (specSalt (beBytes (fromBE c.d.newNonce) 32) (beBytes s.serverNonce 16))]
      (some (SrvResult.mk (beBytes (s.g ^ (s.a * fromBE c.d.b) % s.dhPrime) 256)
        (specSalt (beBytes (fromBE c.d.newNonce) 32) (beBytes s.serverNonce 16))
        (specNonceHash c.P.H (beBytes (fromBE c.d.newNonce) 32) 1 (beBytes (s.g ^ (s.a * fromBE c.d.b) % s.dhPrime) 256)))) := by
    have e0 : hsStart c = (({ serviceMode := true } : HsState), [Action.sendPlain req1]) := by
      simp [hsStart, h0, sendAction]
    have e1 : hsStep c ({ serviceMode := true } : HsState) r1
        = (({ stage := 1, serviceMode := true, serverNonce := s.serverNonce } : HsState), [Action.sendPlain req2]) := by
      simp [hsStep, hst1, sendAction]
    have e2 : hsStep c ({ stage := 1, serviceMode := true, serverNonce := s.serverNonce } : HsState) r2
        = (HsState.mk 2 true false (beBytes (s.g ^ (s.a * fromBE c.d.b) % s.dhPrime) 256)
            (slice (c.P.H (beBytes (s.g ^ (s.a * fromBE c.d.b) % s.dhPrime) 256)) 12 20)
            (specSalt (beBytes (fromBE c.d.newNonce) 32) (beBytes s.serverNonce 16))
            s.serverNonce
            (specNonceHash c.P.H (beBytes (fromBE c.d.newNonce) 32) 1 (beBytes (s.g ^ (s.a * fromBE c.d.b) % s.dhPrime) 256))
            none, [Action.sendPlain req3]) := by
      simp [hsStep, hst2, sendAction]
    have e3 : hsStep c (HsState.mk 2 true false (beBytes (s.g ^ (s.a * fromBE c.d.b) % s.dhPrime) 256)
            (slice (c.P.H (beBytes (s.g ^ (s.a * fromBE c.d.b) % s.dhPrime) 256)) 12 20)
            (specSalt (beBytes (fromBE c.d.newNonce) 32) (beBytes s.serverNonce 16))
            s.serverNonce
            (specNonceHash c.P.H (beBytes (fromBE c.d.newNonce) 32) 1 (beBytes (s.g ^ (s.a * fromBE c.d.b) % s.dhPrime) 256))
            none) r3
        = (HsState.mk 3 false true (beBytes (s.g ^ (s.a * fromBE c.d.b) % s.dhPrime) 256)
            (slice (c.P.H (beBytes (s.g ^ (s.a * fromBE c.d.b) % s.dhPrime) 256)) 12 20)
            (specSalt (beBytes (fromBE c.d.newNonce) 32) (beBytes s.serverNonce 16))
            s.serverNonce
            (specNonceHash c.P.H (beBytes (fromBE c.d.newNonce) 32) 1 (beBytes (s.g ^ (s.a * fromBE c.d.b) % s.dhPrime) 256))
            (some (.ok ())),
           [Action.setEncrypted, Action.saveSession (beBytes (s.g ^ (s.a * fromBE c.d.b) % s.dhPrime) 256)
              (slice (c.P.H (beBytes (s.g ^ (s.a * fromBE c.d.b) % s.dhPrime) 256)) 12 20)
              (specSalt (beBytes (fromBE c.d.newNonce) 32) (beBytes s.serverNonce 16))]) := by
      simp [hsStep, hst3]
    unfold exchange
    rw [e0]
    simp only [hsrv1, e1, hsrv2, e2, hsrv3, e3]
    rfl
  rw [hx]
  simp [slice_eq]

/-! ## non-vacuity -/

/-- a concrete instance of the hypotheses (a toy RSA pair `e = d = 1` on a 2048-bit modulus, the
order-reversing "cipher", the length "hash", dh_prime = 23, a new_nonce and a server_nonce that are
ZERO — the all-leading-zeros corner): `ExchangeHyps` is satisfiable, `hs_agree` is not vacuous -/
def toyCfg : Cfg :=
  { R := hsDescs,
    P := { H := lenHash, E := fun _ => List.reverse, D := fun _ => List.reverse,
           split := fun _ => some (3, 5), gunzip := fun _ => none },
    key := ⟨2 ^ 2047, 1⟩,
    d := ⟨zeros 16, zeros 32, [2], zeros 15⟩ }

def toySecrets : Secrets :=
  { d := 1, serverNonce := 0, p := 3, q := 5, g := 2, a := 3, dhPrime := 23, time := 7,
    pad := zeros 15, minimal := true, extraFps := [42], laterFps := [7, 2 ^ 64 - 1] }

theorem toy_hyps : ExchangeHyps toyCfg toySecrets := by
  have hreg : HsReg hsDescs := by decide
  refine
    { reg := hreg, wfr := wfr_of_wfrB _ (by decide), hlen := lenHash_length,
      cipher := fun _ => revCipher, nonce := by simp [toyCfg], newNonce := by simp [toyCfg],
      rnd := by simp [toyCfg], keyLo := Nat.le_refl _,
      keyHi := Nat.pow_lt_pow_right (by decide) (by decide), keyE := by decide,
      rsa := ?_, serverNonce := by decide, p32 := by decide, q32 := by decide, split := rfl, g := by decide,
      dhPos := by decide,
      dhFit := Nat.lt_of_lt_of_le (by decide : (23 : Nat) < 2 ^ 5) (Nat.pow_le_pow_right (by decide) (by decide)), time := by decide, pad := by simp [toySecrets],
      fps := by decide, fpsLen := by decide, gb := by decide, colAnswer := ?_, colClient := ?_ }
  · intro m hm
    simp only [toyCfg, toySecrets, Nat.pow_one]
    exact Nat.mod_eq_of_lt hm
  · intro answer ha
    refine lenHash_noLongerCollision _ _ ?_
    obtain ⟨bs, hbs, hl⟩ := marshal_inner_len hreg (fromBE toyCfg.d.nonce) toySecrets.serverNonce toySecrets.g
      (intBytes toySecrets.minimal toySecrets.dhPrime)
      (intBytes toySecrets.minimal (powMod toySecrets.g toySecrets.a toySecrets.dhPrime)) toySecrets.time
      (by decide) (by decide) (by decide) (by decide)
    have : answer = bs := by
      have h2 : marshal toyCfg.R (srvAnswerVal toyCfg toySecrets) = .ok bs := hbs
      rw [ha] at h2; cases h2; rfl
    subst this
    have hp : (List.take (tempPadLen (20 + answer.length)) toySecrets.pad).length ≤ 15 := by
      simp [toySecrets]; omega
    have h1 : (intBytes toySecrets.minimal toySecrets.dhPrime).length ≤ 256 := by decide
    have h2 : (intBytes toySecrets.minimal (powMod toySecrets.g toySecrets.a toySecrets.dhPrime)).length ≤ 256 := by decide
    have : (256 : Nat) ^ 20 = 2 ^ 160 := by rw [show (256 : Nat) = 2 ^ 8 from rfl, ← Nat.pow_mul]
    omega
  · intro msg hm
    refine lenHash_noLongerCollision _ _ ?_
    obtain ⟨bs, hbs, hl⟩ := marshal_clientInner_len hreg (fromBE toyCfg.d.nonce) toySecrets.serverNonce 0
      (bigBytes (powMod toySecrets.g (fromBE toyCfg.d.b) toySecrets.dhPrime)) (by decide) (by decide) (by decide)
    have : msg = bs := by
      have h2 : marshal toyCfg.R (cliInnerVal toyCfg toySecrets) = .ok bs := hbs
      rw [hm] at h2; cases h2; rfl
    subst this
    have hp : (List.take (tempPadLen (20 + msg.length)) toyCfg.d.rnd).length ≤ 15 := by
      simp [toyCfg]; omega
    have h1 : (bigBytes (powMod toySecrets.g (fromBE toyCfg.d.b) toySecrets.dhPrime)).length ≤ 256 := by decide
    have : (256 : Nat) ^ 20 = 2 ^ 160 := by rw [show (256 : Nat) = 2 ^ 8 from rfl, ← Nat.pow_mul]
    omega

/-- … and on that instance the theorem yields a completed exchange with a stored session -/
example : (exchange toyCfg toySecrets).client.result = some (.ok ()) ∧
    (exchange toyCfg toySecrets).client.encrypted = true := by
  obtain ⟨_, _, _, h⟩ := hs_agree toyCfg toySecrets toy_hyps
  exact ⟨h.1, h.2.2.2.2.2.2.2.2.1⟩

end Mtv.Handshake
