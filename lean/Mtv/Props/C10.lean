/-
  C10 — the client's outgoing stream obeys msg_id, seq_no and acknowledgement rules.
  Property theorems only. Model: Mtv/Client/Machine.lean (events `send`, `ack`, `recv`), MsgId.lean.
  Every statement is about EVERY state reachable by any interleaving of any number of callers with the
  receive loop under any server history.
-/
import Mtv.Lemmas.ClientInv2
import Mtv.Lemmas.C10Nested
import Mtv.Client.MsgId
namespace Mtv.Client

/-! ## msg_id generation -/

/-- msg_ids are multiples of four -/
theorem genId_mult4 (ns : Nat) : genId ns % 4 = 0 := by unfold genId; omega

/-- the upper 32 bits are the seconds of the clock reading: the id is derived from the current time -/
theorem genId_time (ns : Nat) : genId ns / 2 ^ 32 = ns / 1000000000 := by
  unfold genId
  have h : (ns % 1000000000) / 4 * 4 < 2 ^ 32 := by omega
  omega

/-- two readings at least four nanoseconds apart (different quarter-nanosecond slots) give increasing ids -/
theorem genId_strict (a b : Nat) (h : a / 4 < b / 4) : genId a < genId b := by
  unfold genId
  by_cases hs : a / 1000000000 = b / 1000000000
  · rw [hs]; omega
  · have : a / 1000000000 < b / 1000000000 := by omega
    have h1 : (a % 1000000000) / 4 * 4 < 2 ^ 32 := by omega
    have h2 : (a / 1000000000 + 1) * 2 ^ 32 ≤ (b / 1000000000) * 2 ^ 32 := Nat.mul_le_mul_right _ this
    omega

/-- whatever the clock returns — the same reading twice, a coarse clock, a clock that steps back — the
id `sendPacket` uses is larger than the last one written and still a multiple of four -/
theorem nextId_increasing (last ns : Nat) (h : last % 4 = 0) :
    last < nextId last ns ∧ nextId last ns % 4 = 0 := by
  unfold nextId
  have := genId_mult4 ns
  split <;> omega

/-! ## the stream on the wire -/

/-- **msg_ids strictly increase in the order the messages are written, and are multiples of four;
seq_no never decreases along that order** (`wire` is newest first) -/
theorem wire_ordered (s : St) (h : Reachable s) :
    s.wire.Pairwise (fun newer older => older.1 < newer.1 ∧ older.2 ≤ newer.2) ∧
    ∀ p ∈ s.wire, p.1 % 4 = 0 :=
  ⟨(wireOk_reachable s h).2, fun p hp => ((wireOk_reachable s h).1 p hp).2.1⟩

/-- **content-related messages carry odd seq_nos and pure acknowledgements even ones**: every request
is on the wire with an odd seq_no, and everything on the wire with an odd seq_no is a request -/
theorem seq_parity (s : St) (h : Reachable s) :
    (∀ e ∈ s.sent, (e.1, e.2.1) ∈ s.wire ∧ e.2.1 % 2 = 1) ∧
    (∀ p ∈ s.wire, p.2 % 2 = 1 → ∃ c, (p.1, p.2, c) ∈ s.sent) :=
  sentOk_reachable s h

/-- the code's choice of msg_id is one the machine accepts: `send` with `nextId` is enabled for a caller
that may call (so the model does not demand more of the id than the code delivers) -/
theorem send_with_nextId_enabled (s : St) (h : Reachable s) (c seq ns : Nat) (salt : Int)
    (hlast : s.lastId % 4 = 0) (hseq : seq % 2 = 1 ∧ s.lastSeq ≤ seq) (hc : mayCall s c = true)
    (hsalt : s.owedResend.contains c = true → salt = s.salt) :
    (step s (.send c (nextId s.lastId ns) seq salt)).isSome = true := by
  obtain ⟨h1, h2⟩ := nextId_increasing s.lastId ns hlast
  simp [step, h1, h2, hseq.1, hseq.2, hc]
  exact fun h => hsalt (by simpa using h)

/-- **every content-related message received from the server, alone or inside a container, is answered
by a msgs_ack naming its msg_id**: it is acknowledged, or the acknowledgement is still owed, or its write
failed (an environment fault, `ackLost`); once the client is quiescent, all are acknowledged except those
whose write failed -/
theorem every_content_message_acked (s : St) (h : Reachable s) :
    (∀ mid ∈ s.gotOdd, mid ∈ s.owedAck ∨ mid ∈ s.acked ∨ mid ∈ s.lostAck) ∧
    (quiescent s = true → ∀ mid ∈ s.gotOdd, mid ∈ s.acked ∨ mid ∈ s.lostAck) := by
  refine ⟨acksOk_reachable s h, ?_⟩
  intro hq mid hm
  rcases acksOk_reachable s h mid hm with ho | ha
  · unfold quiescent at hq
    simp only [Bool.and_eq_true, List.isEmpty_iff] at hq
    rw [hq.1.1.1.2] at ho
    simp at ho
  · exact ha

/-- in a history without write faults (the property's histories) a quiescent client has acknowledged
every content-related message it received -/
theorem every_content_message_acked_no_faults (s : St) (h : Reachable s) (hq : quiescent s = true)
    (hf : s.lostAck = []) : ∀ mid ∈ s.gotOdd, mid ∈ s.acked := by
  intro mid hm
  rcases (every_content_message_acked s h).2 hq mid hm with ha | hl
  · exact ha
  · rw [hf] at hl; simp at hl

/-- a write fault loses exactly the acknowledgements it names and nothing else: the ids go from "owed" to
"lost", the loop goes on -/
example : (run {} [.recv 70 1 .quiet, .recv 74 3 .quiet, .ackLost [70], .ack 1000 0 [74]]).map
    (fun s => (s.owedAck, s.acked, s.lostAck, quiescent s)) = some ([], [74], [70], true) := by decide +kernel

/-- an owed acknowledgement can always be sent (the receive loop never waits for anything to do so) -/
theorem ack_enabled (s : St) (mid : Nat) (hm : mid ∈ s.owedAck) (id seq : Nat)
    (hid : id % 4 = 0 ∧ s.lastId < id) (hseq : seq % 2 = 0 ∧ s.lastSeq ≤ seq) :
    (step s (.ack id seq [mid])).isSome = true := by
  simp [step, hid.1, hid.2, hseq.1, hseq.2, hm]

/-- a message inside a container is acknowledged like any other: processing a container owes an ack for
each member with an odd seq_no -/
example : (process 0 {} 100 2 (.cont [(92, 1, .quiet), (96, 3, .odd), (98, 4, .quiet)])).owedAck = [92, 96] := by
  decide +kernel

/-! ## members of nested containers (session 9)

`gotOdd` is a history variable; which ids enter it is decided by `process`. The next theorem says it in terms of the
MESSAGE the server sent: `contentIds 0 mid seq m` (Lemmas/C10Nested.lean) lists the msg_id of the message itself and
of the members of its containers at EVERY depth the client looks at (four levels), wherever they stand — before,
inside or after an inner container — for those with an odd seq_no. -/

/-- **every content-related message inside a server message — the message itself, a member of a container, a member
of a container nested in a container, at any depth — is answered by a msgs_ack naming its msg_id**, whatever the
client had received before (`s`: any reachable state, after any number of earlier containers) and whatever happens
afterwards (`t`): at every later moment the id is acknowledged, still owed, or its write failed; once the client is
quiescent it is acknowledged (or the write failed) -/
theorem nested_members_acked (s : St) (h : Reachable s) (mid seq : Nat) (m : Msg) (t : List Ev) (s' : St)
    (hrun : run s (.recv mid seq m :: t) = some s') :
    (∀ x ∈ contentIds 0 mid seq m, x ∈ s'.owedAck ∨ x ∈ s'.acked ∨ x ∈ s'.lostAck) ∧
    (quiescent s' = true → ∀ x ∈ contentIds 0 mid seq m, x ∈ s'.acked ∨ x ∈ s'.lostAck) := by
  have hr' : Reachable s' := reachable_run _ s s' h hrun
  have hgot : ∀ x ∈ contentIds 0 mid seq m, x ∈ s'.gotOdd := by
    intro x hx
    have h1 : run (process 0 s mid seq m) t = some s' := by simpa [run, step] using hrun
    exact run_gotOdd_mono t _ s' h1 (contentIds_in_gotOdd x m 0 s mid seq hx)
  exact ⟨fun x hx => (every_content_message_acked s' hr').1 x (hgot x hx),
         fun hq x hx => (every_content_message_acked s' hr').2 hq x (hgot x hx)⟩

/-- the ids the theorem speaks about, for container[A, container[B, C], D] with a msgs_ack between B and C and a
container three levels further down: A, B, C, D and the member of the innermost container -/
example : contentIds 0 100 2 (.cont [(92, 1, .odd), (97, 2, .cont [(93, 3, .odd), (94, 4, .quiet), (95, 5, .quiet),
    (96, 6, .cont [(90, 6, .cont [(91, 7, .odd)])])]), (98, 9, .odd)]) = [92, 93, 95, 91, 98] := by decide +kernel

/-- members below the fourth level are not listed: the client refuses such a container as a whole (one warning) and
has received nothing inside it; a refused container with an odd seq_no of its own is still acknowledged -/
example : contentIds 0 100 2 (.cont [(1, 2, .cont [(2, 2, .cont [(3, 2, .cont [(4, 5, .cont [(5, 7, .odd)])])])])]) = [4] := by
  decide +kernel

/-- non-vacuity, on the history that loses an acknowledgement when the ids are collected in a buffer shared by the
levels: an earlier container with a content-related member, then container[A, container[B, C], D]. One msgs_ack per
member, or one per container (inner first) — both are runs of the machine ending quiescent with A, B, C, D
acknowledged -/
example : (run {} [.recv 60 2 (.cont [(56, 1, .odd)]), .ack 1000 0 [56],
    .recv 100 4 (.cont [(92, 3, .odd), (97, 4, .cont [(93, 5, .odd), (94, 7, .odd)]), (98, 9, .odd)]),
    .ack 1004 0 [93, 94], .ack 1008 0 [92, 98]]).map (fun s => (quiescent s, s.acked)) =
    some (true, [92, 98, 93, 94, 56]) := by decide +kernel

/-- … and what such a client writes instead — msgs_ack[B, C], then msgs_ack[B, D], A never — is NOT a run of the
machine (B is not owed a second time), so the trace validation of every check run rejects it, like the oracle does -/
example : run {} [.recv 60 2 (.cont [(56, 1, .odd)]), .ack 1000 0 [56],
    .recv 100 4 (.cont [(92, 3, .odd), (97, 4, .cont [(93, 5, .odd), (94, 7, .odd)]), (98, 9, .odd)]),
    .ack 1004 0 [93, 94], .ack 1008 0 [93, 98]] = none := by decide +kernel

/-! ## non-vacuity -/
example : (run {} [.send 0 1000 1 5, .send 1 1004 3 5, .recv 77 1 (.res 1004 "r1"), .ack 1008 4 [77],
    .deliver 1 "r1"]).isSome = true := by decide +kernel

end Mtv.Client
