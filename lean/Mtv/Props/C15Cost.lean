/-
  C15, the allocation clause: decoding arbitrary bytes "never allocates memory out of proportion to the input
  (apart from gzip expansion of a packed object)" — proved for the model with the cost semantics of
  `Mtv/TL/DecodeCost.lean`. Helper lemmas: `Mtv/Lemmas/C15Cost.lean`. The cost the model computes is tied to
  what the real decoder allocates on every run (operations `c15.cost`, harness/cmd/vh/c15cost.go).
-/
import Mtv.Props.C15
import Mtv.Lemmas.C15Cost
namespace Mtv.TL

/-- **C15 allocation, erasure.** Dropping the cost component of the instrumented decoder gives exactly the
decoder of `Mtv/TL/Decode.lean` — for the six mutually recursive functions and the two entry points, every
registry, gunzip, depth, fuel, input and hint list. (By construction: the instrumented decoder pairs the
decoder's result with a cost function that follows the same recursion and takes every continuation from the
decoder.) So every theorem about `decodeUnknown` / `decodeNamed` (no panic, never loops, depth limit) is a
theorem about the first component of `decodeUnknownC` / `decodeNamedC`. -/
theorem cost_erasure (R : Registry) (gz : Bytes → Option Bytes) (dp fuel : Nat) (bs : Bytes) (hs : List Ty) :
    (∀ ty, (decValC R gz dp fuel ty bs hs).1 = decVal R gz dp fuel ty bs hs) ∧
    (∀ e, (decVecBodyC R gz dp fuel e bs hs).1 = decVecBody R gz dp fuel e bs hs) ∧
    (∀ e n, (decItemsC R gz dp fuel e n bs hs).1 = decItems R gz dp fuel e n bs hs) ∧
    (∀ d, (decStructC R gz dp fuel d bs hs).1 = decStruct R gz dp fuel d bs hs) ∧
    (∀ k w fs, (decFieldsC R gz dp fuel k w fs bs hs).1 = decFields R gz dp fuel k w fs bs hs) ∧
    (decRegisteredC R gz dp fuel bs hs).1 = decRegistered R gz dp fuel bs hs ∧
    (decodeUnknownC R gz fuel hs bs).1 = decodeUnknown R gz fuel hs bs ∧
    (∀ id, (decodeNamedC R gz fuel id bs).1 = decodeNamed R gz fuel id bs) :=
  ⟨fun _ => rfl, fun _ => rfl, fun _ _ => rfl, fun _ => rfl, fun _ _ _ => rfl, rfl, rfl, fun _ => rfl⟩

/-- the theorems about the decoder carry over, e.g. no panic -/
example (R : Registry) (gz : Bytes → Option Bytes) (fuel : Nat) (hints : List Ty) (bs : Bytes)
    (H : AllVec hints) : (decodeUnknownC R gz fuel hints bs).1.isPanic = false :=
  decodeUnknown_no_panic R gz fuel hints bs H

/-- **C15 allocation, the bound (`tl.DecodeUnknownObject`).** For every registry, every behaviour of gunzip,
every input, every hint list and every fuel: with `F` the largest number of fields of a registered constructor,

    alloc + (F+2)·gzCalls ≤ (F+3)·(len(input) + gzOut) + 2F + 2

where `alloc` are the allocation units of the decoder proper, `gzCalls` the gunzip calls made and `gzOut` the
bytes gunzip really produced for this input (the exempt part: what packed objects expand to). No hypothesis on
gunzip (a text of any length is paid for by its own length), none on the depth of packed objects. -/
theorem decode_alloc_linear (R : Registry) (gz : Bytes → Option Bytes) (fuel : Nat) (hints : List Ty) (bs : Bytes) :
    (decodeUnknownC R gz fuel hints bs).2.alloc + (maxFields R + 2) * (decodeUnknownC R gz fuel hints bs).2.gzCalls ≤
      (maxFields R + 3) * (bs.length + (decodeUnknownC R gz fuel hints bs).2.gzOut) + 2 * maxFields R + 2 := by
  have key := BdS_any ((cost_bound_all R gz (maxFields R) (maxFields R + 2) (maxFields R + 3) (le_maxFields R)
    (Nat.le_refl _) rfl fuel).2.2.2.2.2 0 bs hints)
  simp only [decodeUnknownC, Cost.add_alloc, Cost.add_gzCalls, Cost.add_gzOut, Cost.units_alloc, Cost.units_gzCalls,
    Cost.units_gzOut, Nat.zero_add]
  generalize costRegistered R gz 0 fuel bs hints = c at key ⊢
  have e1 : (maxFields R + 3) * (bs.length + c.gzOut) = (maxFields R + 3) * bs.length + (maxFields R + 3) * c.gzOut :=
    Nat.mul_add _ _ _
  have e2 : (maxFields R + 3) * bs.length = (maxFields R + 2) * bs.length + bs.length := by
    rw [show maxFields R + 3 = (maxFields R + 2) + 1 from rfl, Nat.add_mul, Nat.one_mul]
  omega

/-- **C15 allocation, the bound (`tl.Decode` into a registered struct).** As `decode_alloc_linear`. -/
theorem decode_alloc_linear_named (R : Registry) (gz : Bytes → Option Bytes) (fuel id : Nat) (bs : Bytes) :
    (decodeNamedC R gz fuel id bs).2.alloc + (maxFields R + 2) * (decodeNamedC R gz fuel id bs).2.gzCalls ≤
      (maxFields R + 3) * (bs.length + (decodeNamedC R gz fuel id bs).2.gzOut) + 2 * maxFields R + 2 := by
  have key := BdS_any ((cost_bound_all R gz (maxFields R) (maxFields R + 2) (maxFields R + 3) (le_maxFields R)
    (Nat.le_refl _) rfl fuel).1 0 (.ptr id) bs [])
  simp only [decodeNamedC, Cost.add_alloc, Cost.add_gzCalls, Cost.add_gzOut, Cost.units_alloc, Cost.units_gzCalls,
    Cost.units_gzOut, Nat.zero_add]
  generalize costVal R gz 0 fuel (.ptr id) bs [] = c at key ⊢
  have e1 : (maxFields R + 3) * (bs.length + c.gzOut) = (maxFields R + 3) * bs.length + (maxFields R + 3) * c.gzOut :=
    Nat.mul_add _ _ _
  have e2 : (maxFields R + 3) * bs.length = (maxFields R + 2) * bs.length + bs.length := by
    rw [show maxFields R + 3 = (maxFields R + 2) + 1 from rfl, Nat.add_mul, Nat.one_mul]
  omega

/-- Without packed objects nothing is exempt: when gunzip is never answered the cost is linear in the length of
the input alone. -/
theorem decode_alloc_linear_plain (R : Registry) (fuel : Nat) (hints : List Ty) (bs : Bytes) :
    (decodeUnknownC R (fun _ => none) fuel hints bs).2.alloc ≤ (maxFields R + 3) * bs.length + 2 * maxFields R + 2 ∨
      0 < (decodeUnknownC R (fun _ => none) fuel hints bs).2.gzOut := by
  have h := decode_alloc_linear R (fun _ => none) fuel hints bs
  generalize (decodeUnknownC R (fun _ => none) fuel hints bs).2 = c at h ⊢
  by_cases h0 : c.gzOut = 0
  · left
    rw [h0] at h
    simp only [Nat.add_zero] at h
    omega
  · right; omega

/-- the instance for the registry of the working tree (`F` = 51 at the time of writing, regenerated on every
run): `pong` costs its 20 bytes copied by `NewDecoder` and a struct of two fields; a packed `pong` costs the copy
of the 8 bytes of input, the `GzipPacked` object, the packed string, ONE gunzip call, and — for the 20 bytes the
call produced — their copy and the `pong` in them -/
example : (decodeUnknownC Mtv.Gen.registry exGunzip 100 [] exPong).2 = ⟨23, 0, 0⟩ := by decide +kernel
example : (decodeUnknownC Mtv.Gen.registry exGunzip 100 [] (exPack [0x1f])).2 = ⟨33, 1, 20⟩ := by decide +kernel
/-- a hinted vector of two longs: input copy (24), the slice (1), two elements (2 each) -/
example : (decodeUnknownC Mtv.Gen.registry (fun _ => none) 100 [.vec .int64]
    (leBytes 0x1cb5c415 4 ++ leBytes 2 4 ++ leBytes 1 8 ++ leBytes 2 8)).2 = ⟨29, 0, 0⟩ := by decide +kernel

end Mtv.TL
