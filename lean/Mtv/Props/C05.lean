/-
  C05 — AES-256-IGE and its padding wrappers are correct for every key, IV and length.
  Property theorems only. Model: Mtv/Ige/{Spec,Regs,Wrap,Orig}.lean; helper lemmas:
  Mtv/Lemmas/C05Ige.lean, Mtv/Lemmas/C05Wrap.lean.

  The block cipher is a parameter: `E D : Bytes → Bytes` (one key) or `E D : Bytes → Bytes → Bytes`
  (key first), assumed only to be a length-preserving pair of mutually inverse maps on 16-byte blocks
  (`IsBlockCipher`). SHA-1 is a parameter `H` assumed only to return 20 bytes; where the cut-point
  search needs more, the assumption (`NoLongerCollision`) is an explicit hypothesis.
-/
import Mtv.Lemmas.C05Wrap
namespace Mtv.Ige
open Mtv

/-! ## the cipher core -/

/-- **Encryption equals the IGE definition, for every number of blocks.** The register model of
`doAES256IGEencrypt` (three registers, `t x y` as pointers, writes through the pointers) started by
`NewCipher` on ANY list of input blocks produces exactly `c_i = E(p_i ⊕ c_{i-1}) ⊕ p_{i-1}` with
`c_0 ‖ p_0 = iv`, whatever the output buffer held before. Same for decryption. No bound on the
number of blocks: the proof is an induction with the invariant "after the first iteration `t` and
`x` both point at `v0`, `y` points at the previous input block". -/
theorem ige_regs_eq_spec (E D : Bytes → Bytes) (iv : Bytes) (inp out : List Bytes)
    (h : out.length = inp.length) :
    (runEnc E iv inp out).mem.out = igeEnc E (ivC iv) (ivP iv) inp ∧
    (runDec D iv inp out).mem.out = igeDec D (ivC iv) (ivP iv) inp :=
  ⟨(runEnc_spec E iv inp out h).2, (runDec_spec D iv inp out h).2⟩

/-- the hypothesis is satisfiable and the statement non-trivial: three blocks, chaining across both
block boundaries, evaluated -/
example :
    (runEnc List.reverse ([1, 2, 3, 4, 5, 6, 7, 8, 9, 10, 11, 12, 13, 14, 15, 16] ++ zeros 16)
      [zeros 16, List.replicate 16 7, List.replicate 16 9] [[], [], []]).mem.out
    = [[16, 15, 14, 13, 12, 11, 10, 9, 8, 7, 6, 5, 4, 3, 2, 1],
       [6, 5, 4, 3, 2, 1, 0, 15, 14, 13, 12, 11, 10, 9, 8, 23],
       [25, 6, 7, 4, 5, 2, 3, 0, 1, 14, 15, 12, 13, 10, 11, 8]] := by decide

/-- The same on byte strings, as the package-level `doAES256IGEencrypt(data, out, key, iv)` /
`doAES256IGEdecrypt` are called: for every input whose length is a positive multiple of 16 the call
succeeds and the output buffer holds the IGE encryption (decryption) of the input. -/
theorem ige_bytes_eq_spec (E D : Bytes → Bytes) (iv data out0 : Bytes)
    (h1 : 0 < data.length) (h2 : data.length % 16 = 0) (ho : out0.length = data.length) :
    doEncrypt E iv data out0 = ⟨none, data, igeEncBytes E iv data⟩ ∧
    doDecrypt D iv data out0 = ⟨none, data, igeDecBytes D iv data⟩ :=
  ⟨doEncrypt_spec E iv data out0 (by omega) h2 ho, doDecrypt_spec D iv data out0 (by omega) h2 ho⟩

example : (0 : Nat) < (zeros 48).length ∧ (zeros 48).length % 16 = 0 ∧
    (List.replicate 48 (0xA5 : UInt8)).length = (zeros 48).length := by decide

/-- **The caller's input buffer is never modified**: in the final memory of the register model the
input array is the initial one, for every number of blocks — although `x` and `y` alias it between
iterations and `xor`/`Encrypt` write through `x`, `y`, `t`. -/
theorem ige_input_unchanged (E D : Bytes → Bytes) (iv : Bytes) (inp out : List Bytes)
    (h : out.length = inp.length) :
    (runEnc E iv inp out).mem.inp = inp ∧ (runDec D iv inp out).mem.inp = inp :=
  ⟨(runEnc_spec E iv inp out h).1, (runDec_spec D iv inp out h).1⟩

example : ([[], []] : List Bytes).length = [zeros 16, zeros 16].length := rfl

/-- **Decryption inverts encryption** (specification level), for every key for which the block
cipher is a permutation, every 32-byte IV and every length that is a multiple of 16. -/
theorem igeDec_igeEnc (E D : Bytes → Bytes) (hc : IsBlockCipher E D) (iv data : Bytes)
    (hiv : iv.length = 32) (h2 : data.length % 16 = 0) :
    igeDecBytes D iv (igeEncBytes E iv data) = data :=
  igeDecBytes_igeEncBytes E D hc iv data hiv h2

/-- **Encryption inverts decryption.** -/
theorem igeEnc_igeDec (E D : Bytes → Bytes) (hc : IsBlockCipher E D) (iv data : Bytes)
    (hiv : iv.length = 32) (h2 : data.length % 16 = 0) :
    igeEncBytes E iv (igeDecBytes D iv data) = data :=
  igeEncBytes_igeDecBytes E D hc iv data hiv h2

/-- … and for the code itself: `doAES256IGEdecrypt` applied to what `doAES256IGEencrypt` wrote
returns the input (and vice versa), both calls succeed and leave their inputs alone. -/
theorem ige_code_roundtrip (E D : Bytes → Bytes) (hc : IsBlockCipher E D) (iv data o1 o2 : Bytes)
    (hiv : iv.length = 32) (h1 : 0 < data.length) (h2 : data.length % 16 = 0)
    (ho1 : o1.length = data.length) (ho2 : o2.length = data.length) :
    doDecrypt D iv (doEncrypt E iv data o1).out o2 = ⟨none, igeEncBytes E iv data, data⟩ ∧
    doEncrypt E iv (doDecrypt D iv data o1).out o2 = ⟨none, igeDecBytes D iv data, data⟩ := by
  have le := igeEncBytes_length E D hc iv data hiv h2
  have ld := igeDecBytes_length E D hc iv data hiv h2
  rw [doEncrypt_spec E iv data o1 (by omega) h2 ho1, doDecrypt_spec D iv data o1 (by omega) h2 ho1]
  simp only
  rw [doDecrypt_spec D iv _ o2 (by omega) (by omega) (by omega),
    doEncrypt_spec E iv _ o2 (by omega) (by omega) (by omega),
    igeDecBytes_igeEncBytes E D hc iv data hiv h2, igeEncBytes_igeDecBytes E D hc iv data hiv h2]
  exact ⟨rfl, rfl⟩

example : IsBlockCipher List.reverse List.reverse ∧ (zeros 32).length = 32 ∧ (zeros 48).length % 16 = 0 :=
  ⟨revCipher, by decide, by decide⟩

/-- **Inputs of length zero or not a multiple of 16 are refused** with an error, and nothing is
written: input and output buffers are returned as they were. -/
theorem ige_refuses (E D : Bytes → Bytes) (iv data out0 : Bytes)
    (h : data.length = 0 ∨ data.length % 16 ≠ 0) :
    (∃ e, doEncrypt E iv data out0 = ⟨some e, data, out0⟩) ∧
    (∃ e, doDecrypt D iv data out0 = ⟨some e, data, out0⟩) := by
  obtain ⟨e, he⟩ := isCorrectData_some h
  exact ⟨⟨e, by simp [doEncrypt, he]⟩, ⟨e, by simp [doDecrypt, he]⟩⟩

example : ([] : Bytes).length = 0 ∨ ([] : Bytes).length % 16 ≠ 0 := Or.inl rfl
example : (zeros 17).length = 0 ∨ (zeros 17).length % 16 ≠ 0 := Or.inr (by decide)

/-! ## the message-level wrapper -/

/-- **`Encrypt` pads with zeros to the next multiple of 16.** For every non-empty message and every
auth key of at least 136 bytes: `Encrypt` succeeds; its result is the IGE encryption, under the
key/IV of the message's key schedule, of `msg ‖ 0…0` with `(16 - len % 16) % 16` zero bytes; the
result's length is `len` rounded up to a multiple of 16; and IGE decryption gives back exactly the
message followed by those zeros. -/
theorem encrypt_pad (H : Bytes → Bytes) (E D : Bytes → Bytes → Bytes)
    (hc : ∀ k, IsBlockCipher (E k) (D k)) (hH : ∀ x, (H x).length = 20)
    (msg key : Bytes) (hm : 0 < msg.length) (hk : 136 ≤ key.length) :
    ∃ aesKey aesIV ct,
      generateAESIGE H (messageKey H msg) key false = .ok (aesKey, aesIV) ∧
      encryptMsg H E msg key = .ok ct ∧
      ct = igeEncBytes (E aesKey) aesIV (msg ++ zeros ((16 - msg.length % 16) % 16)) ∧
      ct.length = (msg.length + 15) / 16 * 16 ∧
      igeDecBytes (D aesKey) aesIV ct = msg ++ zeros ((16 - msg.length % 16) % 16) := by
  obtain ⟨k, v, hkv, hv⟩ := generateAESIGE_ok H hH (messageKey H msg) key false hk
  have hpm := padZero_length_mod msg
  have hpl := padZero_length msg
  have hpz : padZero msg = msg ++ zeros ((16 - msg.length % 16) % 16) := by
    simp [padZero, padAmount_eq]
  have hpos : 16 ≤ (padZero msg).length := by rw [hpl]; omega
  refine ⟨k, v, igeEncBytes (E k) v (padZero msg), hkv, ?_, by rw [hpz], ?_, ?_⟩
  · have hg : keysG H (messageKey H msg) key false = .ok (k, v) := by
      unfold keysG
      rw [if_neg (by simp; omega), hkv]
    simp only [encryptMsg, hg]
    rw [doEncrypt_spec (E k) v (padZero msg) _ hpos hpm (by simp)]
  · rw [igeEncBytes_length (E k) (D k) (hc k) v _ hv hpm, hpl]
  · rw [igeDecBytes_igeEncBytes (E k) (D k) (hc k) v _ hv hpm, hpz]

example : (∀ k : Bytes, IsBlockCipher ((fun _ => List.reverse) k) ((fun _ => List.reverse) k)) ∧
    (∀ x, (lenHash x).length = 20) ∧ 0 < ([1, 2, 3] : Bytes).length ∧ 136 ≤ (zeros 256).length :=
  ⟨fun _ => revCipher, lenHash_length, by decide, by simp⟩

/-- `Decrypt` is IGE decryption under the key schedule of the given message key, for every
ciphertext whose length is a positive multiple of 16; other lengths are refused with an error. -/
theorem decrypt_msg (H : Bytes → Bytes) (D : Bytes → Bytes → Bytes) (hH : ∀ x, (H x).length = 20)
    (ct key msgKey : Bytes) (hk : 136 ≤ key.length) :
    ∃ aesKey aesIV, generateAESIGE H msgKey key true = .ok (aesKey, aesIV) ∧
      (0 < ct.length → ct.length % 16 = 0 → decryptMsg H D ct key msgKey = .ok (igeDecBytes (D aesKey) aesIV ct)) ∧
      (ct.length = 0 ∨ ct.length % 16 ≠ 0 → ∃ e, decryptMsg H D ct key msgKey = .err e) := by
  obtain ⟨k, v, hkv, _⟩ := generateAESIGE_ok H hH msgKey key true hk
  have hg : keysG H msgKey key true = .ok (k, v) := by
    unfold keysG
    rw [if_neg (by simp; omega), hkv]
  refine ⟨k, v, hkv, ?_, ?_⟩
  · intro h1 h2
    simp only [decryptMsg, hg]
    rw [doDecrypt_spec (D k) v ct _ (by omega) h2 (by simp)]
  · intro h
    obtain ⟨e, he⟩ := isCorrectData_some h
    exact ⟨errName e, by simp [decryptMsg, hg, doDecrypt, he]⟩

example : (∀ x, (lenHash x).length = 20) ∧ 136 ≤ (zeros 256).length := ⟨lenHash_length, by simp⟩

/-- **A key the schedule cannot work with is refused, not a reason to end the program** (D20): `Encrypt` with
an auth key shorter than 128 bytes and `Decrypt` with one shorter than 136 — in particular the empty key of a
session whose key exchange has not finished — return an error for every message / ciphertext. -/
theorem short_key_refused (H : Bytes → Bytes) (E D : Bytes → Bytes → Bytes) (msg ct key mk : Bytes) :
    (key.length < 128 → encryptMsg H E msg key = .err "shortKey") ∧
    (key.length < 136 → decryptMsg H D ct key mk = .err "shortKey") := by
  constructor
  · intro h
    simp [encryptMsg, keysG, h]
  · intro h
    simp [decryptMsg, keysG, h]

example : ([] : Bytes).length < 128 ∧ (zeros 135).length < 136 := by simp

/-! ## the key-exchange wrapper -/

/-- **The temporary key and IV equal the MTProto definition on the fixed-width nonces**, for ALL
values of the two nonces — in particular with any number of leading zero bytes (repaired code):
`tmp_aes_key = SHA1(new_nonce ‖ server_nonce) ‖ SHA1(server_nonce ‖ new_nonce)[0:12]`,
`tmp_aes_iv = SHA1(server_nonce ‖ new_nonce)[12:20] ‖ SHA1(new_nonce ‖ new_nonce) ‖ new_nonce[0:4]`
with `new_nonce` the 32-byte and `server_nonce` the 16-byte big-endian form of the integers. -/
theorem tempKeys_eq_spec (H : Bytes → Bytes) (hH : ∀ x, (H x).length = 20) (n s : Nat)
    (hn : n < 2 ^ 256) (hs : s < 2 ^ 128) :
    generateTempKeys H n s = tempKeySpec H (beBytes n 32) (beBytes s 16) := by
  unfold generateTempKeys
  rw [fixedBytes_eq_beBytes n 32 (by simpa using hn), fixedBytes_eq_beBytes s 16 (by simpa using hs)]
  exact tempKeysOfBytes_eq_spec H hH _ _ (by simp) (by simp)

/-- satisfiable also at the edge: both nonces zero -/
example : (∀ x, (lenHash x).length = 20) ∧ (0 : Nat) < 2 ^ 256 ∧ (0 : Nat) < 2 ^ 128 :=
  ⟨lenHash_length, by decide, by decide⟩

/-- **A conformant peer's message is read back**: for every answer, every padding of 0..15 bytes
that aligns `SHA1(answer) ‖ answer ‖ padding` to 16, every pair of nonces (leading zero bytes
included), `DecryptMessageWithTempKeys` applied to what a peer computes *from the specification*
(`conformantMsg`: definition key derivation on fixed-width nonces, definition IGE) returns the
answer. The cut-point search is correct under the explicit cryptographic hypothesis that no longer
candidate (answer plus a non-empty prefix of the padding) has the answer's SHA-1. -/
theorem decryptTemp_of_conformant (H : Bytes → Bytes) (E D : Bytes → Bytes → Bytes)
    (hc : ∀ k, IsBlockCipher (E k) (D k)) (hH : ∀ x, (H x).length = 20)
    (n s : Nat) (hn : n < 2 ^ 256) (hs : s < 2 ^ 128) (answer pad : Bytes)
    (hp : pad.length ≤ 15) (hal : (20 + answer.length + pad.length) % 16 = 0)
    (hcol : NoLongerCollision H answer pad) :
    decryptTemp H D (conformantMsg H E (beBytes n 32) (beBytes s 16) answer pad) n s = .ok answer := by
  have hk := tempKeys_eq_spec H hH n s hn hs
  have hivl := tempKeysOfBytes_iv_length H (fixedBytes n 32) (fixedBytes s 16)
  unfold decryptTemp conformantMsg
  rw [← hk]
  exact decryptTempWith_conformant H _ _ (hc _) hH _ hivl answer pad hp hal hcol

/-- satisfiable with no padding at all (the case the un-repaired code could not read) and with a
nonce that has leading zero bytes -/
example : (∀ k : Bytes, IsBlockCipher ((fun _ => List.reverse) k) ((fun _ => List.reverse) k)) ∧
    (∀ x, (lenHash x).length = 20) ∧ (5 : Nat) < 2 ^ 256 ∧ (7 : Nat) < 2 ^ 128 ∧
    ([] : Bytes).length ≤ 15 ∧ (20 + (zeros 12).length + ([] : Bytes).length) % 16 = 0 ∧
    NoLongerCollision lenHash (zeros 12) [] :=
  ⟨fun _ => revCipher, lenHash_length, by decide, by decide, by decide, by decide,
   lenHash_noLongerCollision _ _ (by decide)⟩

/-- **The client reads back its own messages of every length**: for every payload (every residue
of `(20 + len) mod 16`, 0 included), every pair of nonces and every stream of at least 15 random
bytes, `EncryptMessageWithTempKeys` succeeds, appends 0..15 padding bytes, and
`DecryptMessageWithTempKeys` of its result is the payload — under the same no-collision hypothesis
on the padding actually used. -/
theorem tempWrap_roundtrip (H : Bytes → Bytes) (E D : Bytes → Bytes → Bytes)
    (hc : ∀ k, IsBlockCipher (E k) (D k)) (hH : ∀ x, (H x).length = 20)
    (msg : Bytes) (n s : Nat) (rnd : Bytes) (hr : 15 ≤ rnd.length)
    (hcol : NoLongerCollision H msg (rnd.take (tempPadLen (20 + msg.length)))) :
    ∃ ct, encryptTemp H E msg n s rnd = .ok ct ∧
      ct.length = 20 + msg.length + tempPadLen (20 + msg.length) ∧
      tempPadLen (20 + msg.length) ≤ 15 ∧
      decryptTemp H D ct n s = .ok msg := by
  have hpad := tempPadLen_spec (20 + msg.length)
  have hplen : (rnd.take (tempPadLen (20 + msg.length))).length = tempPadLen (20 + msg.length) := by
    simp; omega
  have hivl : (generateTempKeys H n s).2.length = 32 :=
    tempKeysOfBytes_iv_length H (fixedBytes n 32) (fixedBytes s 16)
  have hdl : (H msg ++ msg ++ rnd.take (tempPadLen (20 + msg.length))).length
      = 20 + msg.length + tempPadLen (20 + msg.length) := by
    rw [List.length_append, List.length_append, hH, hplen]
  refine ⟨igeEncBytes (E (generateTempKeys H n s).1) (generateTempKeys H n s).2
    (H msg ++ msg ++ rnd.take (tempPadLen (20 + msg.length))), ?_, ?_, by omega, ?_⟩
  · simp only [encryptTemp, encryptTempNoPad, hH]
    rw [doEncrypt_spec _ _ _ _ (by rw [hdl]; omega) (by rw [hdl]; omega) (by simp)]
  · rw [igeEncBytes_length _ _ (hc _) _ _ hivl (by rw [hdl]; omega), hdl]
  · unfold decryptTemp
    exact decryptTempWith_conformant H _ _ (hc _) hH _ hivl msg _ (by omega) (by rw [hplen]; omega) hcol

/-- satisfiable at residue 0 (payload of 12 bytes: no padding) and at residue 1 (15 bytes of padding) -/
example : NoLongerCollision lenHash (zeros 12) ((zeros 15).take (tempPadLen (20 + (zeros 12).length))) ∧
    NoLongerCollision lenHash (zeros 13) ((zeros 15).take (tempPadLen (20 + (zeros 13).length))) ∧
    tempPadLen 32 = 0 ∧ tempPadLen 33 = 15 :=
  ⟨lenHash_noLongerCollision _ _ (by decide), lenHash_noLongerCollision _ _ (by decide), by decide, by decide⟩

/-- What the client sends is what a conformant peer expects: for fixed-width nonces the output of
`EncryptMessageWithTempKeys` is the specification's message with the first `tempPadLen` random
bytes as padding, and that padding has 0..15 bytes. -/
theorem encryptTemp_conformant (H : Bytes → Bytes) (E : Bytes → Bytes → Bytes)
    (hH : ∀ x, (H x).length = 20) (msg : Bytes) (n s : Nat) (hn : n < 2 ^ 256) (hs : s < 2 ^ 128)
    (rnd : Bytes) (hr : 15 ≤ rnd.length) :
    encryptTemp H E msg n s rnd
      = .ok (conformantMsg H E (beBytes n 32) (beBytes s 16) msg (rnd.take (tempPadLen (20 + msg.length)))) ∧
    (rnd.take (tempPadLen (20 + msg.length))).length ≤ 15 := by
  have hpad := tempPadLen_spec (20 + msg.length)
  have hplen : (rnd.take (tempPadLen (20 + msg.length))).length = tempPadLen (20 + msg.length) := by
    simp; omega
  have hdl : (H msg ++ msg ++ rnd.take (tempPadLen (20 + msg.length))).length
      = 20 + msg.length + tempPadLen (20 + msg.length) := by
    rw [List.length_append, List.length_append, hH, hplen]
  refine ⟨?_, by omega⟩
  simp only [encryptTemp, encryptTempNoPad, conformantMsg, hH, ← tempKeys_eq_spec H hH n s hn hs]
  rw [doEncrypt_spec _ _ _ _ (by rw [hdl]; omega) (by rw [hdl]; omega) (by simp)]

example : (∀ x, (lenHash x).length = 20) ∧ (2 ^ 255 : Nat) < 2 ^ 256 ∧ (1 : Nat) < 2 ^ 128 ∧
    15 ≤ (zeros 16).length := ⟨lenHash_length, by decide, by decide, by decide⟩

/-! ## every call on its own: the caller's buffers (byte level), and results that depend on EVERY argument

The functions of the model are functions: a call's result is determined by the call's arguments, whatever
calls came before ("for every key, IV and input", "keys derived from the TWO nonces"). The theorems below say
what that excludes on the side of the code: a result remembered from an earlier call and looked up by only
part of the arguments. The tie runs such sequences against the real code (`c05.seq` / `c05.seqip`, one argument
changing from call to call). -/

/-- **The caller's buffers are never modified — the whole clause on the byte level**, for EVERY input length
(accepted or refused) and every previous content of the output buffer: after `doAES256IGEencrypt` /
`doAES256IGEdecrypt` the caller's input buffer holds what it held, and when the call is refused the output
buffer does too. (Key and IV are not memory of the register model at all: `NewCipher` copies the IV into the
cipher's own registers and hands the key to `aes.NewCipher`; no register ever points at them. The harness
compares the whole caller array — key, IV, input, guard zones — with its image from before the call.) -/
theorem ige_buffers_unchanged (E D : Bytes → Bytes) (iv data out0 : Bytes) (ho : out0.length = data.length) :
    (doEncrypt E iv data out0).data = data ∧ (doDecrypt D iv data out0).data = data ∧
    ((doEncrypt E iv data out0).err ≠ none → (doEncrypt E iv data out0).out = out0) ∧
    ((doDecrypt D iv data out0).err ≠ none → (doDecrypt D iv data out0).out = out0) := by
  by_cases h : data.length = 0 ∨ data.length % 16 ≠ 0
  · obtain ⟨⟨e, he⟩, ⟨e', he'⟩⟩ := ige_refuses E D iv data out0 h
    rw [he, he']
    simp
  · have h1 : 0 < data.length := by omega
    have h2 : data.length % 16 = 0 := by omega
    obtain ⟨he, hd⟩ := ige_bytes_eq_spec E D iv data out0 h1 h2 ho
    rw [he, hd]
    simp

example : (List.replicate 17 (0xA5 : UInt8)).length = (zeros 17).length := by decide

/-- the two SHA-1 inputs of `tmp_aes_key` for one `new_nonce` and two different `server_nonce`s are different
byte strings (so that the hypothesis of the next theorem is an instance of collision-freeness, not of luck) -/
theorem tempKey_inputs_differ (n s s' : Nat) (hs : s < 2 ^ 128) (hs' : s' < 2 ^ 128) (hne : s ≠ s') :
    beBytes n 32 ++ beBytes s 16 ≠ beBytes n 32 ++ beBytes s' 16 := by
  intro h
  have h16 : (2 : Nat) ^ 128 = 256 ^ 16 := by decide
  have e := List.append_cancel_left h
  have := congrArg fromBE e
  rw [fromBE_beBytes 16 s (by omega), fromBE_beBytes 16 s' (by omega)] at this
  exact hne this

/-- **The temporary key depends on the server nonce too** (and on the new nonce: second part): for one
`new_nonce` and two `server_nonce`s whose SHA-1 inputs do not collide, `generateTempKeys` gives two different
keys; likewise for one `server_nonce` and two `new_nonce`s. -/
theorem tempKeys_separate (H : Bytes → Bytes) (hH : ∀ x, (H x).length = 20) (n n' s s' : Nat)
    (hn : n < 2 ^ 256) (hn' : n' < 2 ^ 256) (hs : s < 2 ^ 128) (hs' : s' < 2 ^ 128) :
    (H (beBytes n 32 ++ beBytes s 16) ≠ H (beBytes n 32 ++ beBytes s' 16) →
      (generateTempKeys H n s).1 ≠ (generateTempKeys H n s').1) ∧
    (H (beBytes n 32 ++ beBytes s 16) ≠ H (beBytes n' 32 ++ beBytes s 16) →
      (generateTempKeys H n s).1 ≠ (generateTempKeys H n' s).1) := by
  constructor
  · intro hcol h
    rw [tempKeys_eq_spec H hH n s hn hs, tempKeys_eq_spec H hH n s' hn hs'] at h
    simp only [tempKeySpec] at h
    exact hcol (List.append_inj_left h (by rw [hH, hH]))
  · intro hcol h
    rw [tempKeys_eq_spec H hH n s hn hs, tempKeys_eq_spec H hH n' s hn' hs] at h
    simp only [tempKeySpec] at h
    exact hcol (List.append_inj_left h (by rw [hH, hH]))

/-- satisfiable: `tailHash` (Lemmas/C05Wrap) reads the last 8 bytes of a 48-byte input and separates the server nonces 7 and 8 -/
example : (∀ x, (tailHash x).length = 20) ∧ (5 : Nat) < 2 ^ 256 ∧ (7 : Nat) < 2 ^ 128 ∧ (8 : Nat) < 2 ^ 128 ∧
    tailHash (beBytes 5 32 ++ beBytes 7 16) ≠ tailHash (beBytes 5 32 ++ beBytes 8 16) :=
  ⟨tailHash_length, by decide, by decide, by decide, by decide⟩

/-- **No memory keyed by `new_nonce` alone (or by `server_nonce` alone) computes the temporary keys** (the class
of C05-m17): whatever `f` answers for `new_nonce = n` — say, the keys it derived when it first saw `n`, together
with `s` — it is wrong for `(n, s)` or for `(n, s')`, for every two server nonces whose SHA-1 inputs do not
collide; and the same with the roles of the nonces exchanged. A sequence of two calls that differ in the other
nonce only shows it; single calls and calls that differ in both nonces do not. -/
theorem tempKeys_no_partial_memo (H : Bytes → Bytes) (hH : ∀ x, (H x).length = 20) (n n' s s' : Nat)
    (hn : n < 2 ^ 256) (hn' : n' < 2 ^ 256) (hs : s < 2 ^ 128) (hs' : s' < 2 ^ 128)
    (f : Nat → Bytes × Bytes) :
    (H (beBytes n 32 ++ beBytes s 16) ≠ H (beBytes n 32 ++ beBytes s' 16) →
      f n ≠ generateTempKeys H n s ∨ f n ≠ generateTempKeys H n s') ∧
    (H (beBytes n 32 ++ beBytes s 16) ≠ H (beBytes n' 32 ++ beBytes s 16) →
      f s ≠ generateTempKeys H n s ∨ f s ≠ generateTempKeys H n' s) := by
  have hsep := tempKeys_separate H hH n n' s s' hn hn' hs hs'
  constructor
  · intro hcol
    by_cases h : f n = generateTempKeys H n s
    · right
      intro h'
      exact hsep.1 hcol (by rw [← h, ← h'])
    · exact Or.inl h
  · intro hcol
    by_cases h : f s = generateTempKeys H n s
    · right
      intro h'
      exact hsep.2 hcol (by rw [← h, ← h'])
    · exact Or.inl h

example : (∀ x, (tailHash x).length = 20) ∧
    tailHash (beBytes 5 32 ++ beBytes 7 16) ≠ tailHash (beBytes 5 32 ++ beBytes 8 16) :=
  ⟨tailHash_length, by decide⟩

/-! ## defects D4 of the un-repaired tree, on the model of the code as it was (`Mtv.Ige.Orig`) -/

/-- D4a. Before the repair the cut-point search tried 1..15 bytes of padding only: an answer that a
conformant peer sends WITHOUT padding (`(20 + len) % 16 = 0`) made `DecryptMessageWithTempKeys`
panic, whatever key and IV — provided no shorter prefix of the answer collides with it under `H`. -/
theorem orig_decryptTemp_unpadded_panics (H : Bytes → Bytes) (Ek Dk : Bytes → Bytes)
    (hc : IsBlockCipher Ek Dk) (hH : ∀ x, (H x).length = 20) (iv : Bytes) (hiv : iv.length = 32)
    (a : Bytes) (hal : (20 + a.length) % 16 = 0)
    (hcol : ∀ j, 1 ≤ j → j ≤ 15 → j ≤ a.length → H (a.take (a.length - j)) ≠ H a) :
    ∃ site, decryptTempOrig H Dk iv (igeEncBytes Ek iv (H a ++ a)) = .panic site :=
  decryptTempWith_orig_unpadded H Ek Dk hc hH iv hiv a hal hcol

example : IsBlockCipher List.reverse List.reverse ∧ (zeros 32).length = 32 ∧ (20 + (zeros 12).length) % 16 = 0 ∧
    (∀ j, 1 ≤ j → j ≤ 15 → j ≤ (zeros 12).length →
      lenHash ((zeros 12).take ((zeros 12).length - j)) ≠ lenHash (zeros 12)) :=
  ⟨revCipher, by decide, by decide, fun j h1 _ h3 => by
    simp only [zeros_length] at h3
    exact lenHash_ne (by simp only [List.length_take, zeros_length]; omega) (by decide)
      (by simp only [List.length_take, zeros_length]; omega)⟩

/-- D4b. Before the repair `EncryptMessageWithTempKeys` appended 16 bytes to an already aligned
message (outside MTProto's 0..15); after it, none — and in every case the repaired amount is below
16 and aligns the message. -/
theorem orig_tempPad_sixteen (total : Nat) (h : total % 16 = 0) :
    tempPadLenOrig total = 16 ∧ tempPadLen total = 0 ∧
    ∀ t, tempPadLen t < 16 ∧ (t + tempPadLen t) % 16 = 0 := by
  refine ⟨by unfold tempPadLenOrig; omega, by unfold tempPadLen; omega, tempPadLen_spec⟩

example : (32 : Nat) % 16 = 0 := rfl

/-- D4c. Before the repair the nonces went through `big.Int.Bytes()`: for `new_nonce = 2^24` (28
leading zero bytes) the first SHA-1 input was `01 00 00 00 00…` instead of `00…00 01 00 00 00 ‖
server_nonce`; for a `new_nonce` below `2^24` the function panicked; the repaired conversion gives
the fixed-width bytes. -/
theorem orig_tempKeys_leading_zero :
    tempT1 (bigBytes (2 ^ 24)) (bigBytes (2 ^ 127)) ≠ beBytes (2 ^ 24) 32 ++ beBytes (2 ^ 127) 16 ∧
    tempT1 (fixedBytes (2 ^ 24) 32) (fixedBytes (2 ^ 127) 16) = beBytes (2 ^ 24) 32 ++ beBytes (2 ^ 127) 16 ∧
    (∀ H, generateTempKeysOrig H 65535 (2 ^ 127) = .panic "generateTempKeys") := by
  refine ⟨by decide, by decide, fun H => by simp [generateTempKeysOrig]; decide⟩

end Mtv.Ige
