/-
  C17 — RPC errors reach the caller as structured errors for every error text (pure part).
  Property theorems only. Model: Mtv/Client/Errors.lean (the code with the two pending C17 repairs);
  tables: Mtv/Gen/ErrTables.lean, regenerated from the working tree on every run; helper lemmas and
  the kernel-decided table facts: Mtv/Lemmas/C17.lean.

  Not here: delivery of the rpc_error to the caller of the request it names, and the reconnect +
  re-issue against a peer (end-to-end part, on the shared client machine).
-/
import Mtv.Lemmas.C17
import Mtv.Lemmas.C17Held
namespace Mtv.Client

/-! ## TryExpandError -/

/-- Clause "for every error text … without panicking": on the regenerated table `TryExpandError`
returns a pair for ANY byte string — known, unknown, parameter absent / non-numeric / out of range,
formatting characters, invalid UTF-8. (Every row has kind `reflect.Int`; a failed Atoi falls back
to the plain error: the D14 repair.) -/
theorem tryExpand_total (s : Bytes) : ∃ name p, tryExpand s = .ok (name, p) := by
  rcases tryExpand_cases s with h | ⟨r, n, _, _, _, h⟩
  · exact ⟨_, _, h⟩
  · exact ⟨_, _, h⟩

example : tryExpand [70,76,79,79,68,95,87,65,73,84,95,97,98,99] =      -- "FLOOD_WAIT_abc"
    .ok ([70,76,79,79,68,95,87,65,73,84,95,97,98,99], .none) := by decide +kernel

/-- Clause "message is the server's text with a numeric parameter replaced by X, and whose
parameter is that number": for every row `(p, q)` of the regenerated table and every text
`p ++ d ++ q` whose middle part `d` is a number (Go's Atoi accepts it, value `n`), the result is
`(p ++ "X" ++ q, n)` — whatever the position of the row in the table (first match = only match). -/
theorem tryExpand_param {r : Row} (hr : r ∈ Gen.specificErrors) {d : Bytes} {n : Int}
    (hd : atoi d = some n) :
    tryExpand (r.pre ++ d ++ r.suf) = .ok (r.pre ++ 88 :: r.suf, .int n) := by
  have hf := firstMatch_eq_of_mem hr (Row.matches_build r d)
  unfold tryExpand tryExpandWith
  rw [hf]
  simp only [rows_all_int r hr, Row.param_build, hd, Row.xName]

example : tryExpand ([70,76,79,79,68,95,87,65,73,84,95] ++ [49,55] ++ []) =   -- "FLOOD_WAIT_" "17" ""
    .ok ([70,76,79,79,68,95,87,65,73,84,95] ++ 88 :: [], .int 17) :=
  tryExpand_param (r := ⟨[70,76,79,79,68,95,87,65,73,84,95], [], .int⟩) (by decide +kernel) (by decide +kernel)

/-- Unknown texts: when no row of the table matches, the text comes back unchanged, no parameter
(any table). -/
theorem tryExpand_plain (tbl : List Row) (s : Bytes) (h : ∀ r ∈ tbl, r.matches s = false) :
    tryExpandWith tbl s = .ok (s, .none) := by
  unfold tryExpandWith
  rw [firstMatch_none.2 h]

example : tryExpandWith Gen.specificErrors [37, 100] = .ok ([37, 100], .none) :=   -- "%d"
  tryExpand_plain _ _ (by decide +kernel)

/-- First match is the only match: no text is matched by two different rows of the regenerated
table (in particular INTERDC_x_CALL_ERROR / INTERDC_x_CALL_RICH_ERROR do not overlap), so the
order of the rows is immaterial. Decided by the kernel on the regenerated table through the exact
criterion `Row.compatible_iff`. -/
theorem rows_disjoint {a b : Row} (ha : a ∈ Gen.specificErrors) (hb : b ∈ Gen.specificErrors) {s : Bytes}
    (hma : a.matches s = true) (hmb : b.matches s = true) : a = b := by
  rcases rows_pairwise_incompatible a ha b hb with e | e
  · exact e
  · rw [Row.compatible_of_matches hma hmb] at e; cases e

example : (⟨[73,78,84,69,82,68,67,95], [95,67,65,76,76,95,69,82,82,79,82], .int⟩ : Row).matches
    ([73,78,84,69,82,68,67,95] ++ [53] ++ [95,67,65,76,76,95,69,82,82,79,82]) = true := by decide  -- INTERDC_5_CALL_ERROR

/-- Clause "parameter absent, non-numeric or out of range": a text matched by a row whose
parameter part is not accepted by Atoi (see `atoi_some` for what Atoi accepts: optional sign, at
least one character, ASCII digits only, value in [-2^63, 2^63-1]) is returned as the plain error:
the raw text, no parameter — and no panic. -/
theorem non_numeric_is_plain {r : Row} (hr : r ∈ Gen.specificErrors) {s : Bytes}
    (hm : r.matches s = true) (hp : atoi (r.param s) = none) :
    tryExpand s = .ok (s, .none) := by
  have hf := firstMatch_eq_of_mem hr hm
  unfold tryExpand tryExpandWith
  simp [hf, rows_all_int r hr, hp]

-- parameter absent ("FLOOD_WAIT_"), non-numeric ("FLOOD_WAIT_1_0"), out of range ("FLOOD_WAIT_9223372036854775808")
example : tryExpand [70,76,79,79,68,95,87,65,73,84,95] = .ok ([70,76,79,79,68,95,87,65,73,84,95], .none) :=
  non_numeric_is_plain (r := ⟨[70,76,79,79,68,95,87,65,73,84,95], [], .int⟩) (by decide +kernel) (by decide +kernel)
    (by decide +kernel)
example : atoi [49,95,48] = none := atoi_none_of_nondigit ⟨95, by decide, by decide⟩
example : atoi [57,50,50,51,51,55,50,48,51,54,56,53,52,55,55,53,56,48,56] = none := by decide +kernel
example : atoi [57,50,50,51,51,55,50,48,51,54,56,53,52,55,55,53,56,48,55] = some 9223372036854775807 := by decide +kernel

/-! ## RpcErrorToNative -/

/-- Clause "the text of a known error maps to its documented description", for ALL catalogued
names: if `errorMessages[name] = desc` then the error text `name` yields code, message `name`,
description `desc`, no parameter — unless `name` itself is a numeric instance of a parameterised
family (the catalogue contains one such key, FILE_PART_0_MISSING), in which case it is delivered
as that family's structured error with the family's description. -/
theorem known_description {name desc : Bytes} (h : Gen.errorMessages.lookup name = some desc) (code : Int) :
    rpcErrorToNative code name = .ok ⟨code, name, desc, .none⟩ ∨
    (∃ r n pre post, r ∈ Gen.specificErrors ∧ r.matches name = true ∧ atoi (r.param name) = some n ∧
      Gen.errorMessages.lookup r.xName = some (pre ++ 37 :: 118 :: post) ∧
      rpcErrorToNative code name = .ok ⟨code, r.xName, pre ++ fmtInt n ++ post, .int n⟩) := by
  rcases rpcErrorToNative_cases code name with ⟨_, h2⟩ | ⟨r, n, pre, post, hr, hm, ha, hl, _, _, h2⟩
  · left; rw [h2]; simp [describe, h]
  · right; exact ⟨r, n, pre, post, hr, hm, ha, hl, h2⟩

-- "CHAT_ID_INVALID" is catalogued
example : (Gen.errorMessages.lookup [67,72,65,84,95,73,68,95,73,78,86,65,76,73,68]).isSome = true := by
  decide +kernel

/-- Documented description of a parameterised error: for every row and every numeric parameter the
description is the catalogue entry of `p ++ "X" ++ q` — which has the shape `pre ++ "%v" ++ post`
with no other `%` (kernel-decided for all rows) — with the number in place of `%v`. -/
theorem param_description {r : Row} (hr : r ∈ Gen.specificErrors) {d : Bytes} {n : Int}
    (hd : atoi d = some n) (code : Int) :
    ∃ pre post, Gen.errorMessages.lookup (r.pre ++ 88 :: r.suf) = some (pre ++ 37 :: 118 :: post) ∧
      (37 : UInt8) ∉ pre ∧ (37 : UInt8) ∉ post ∧
      rpcErrorToNative code (r.pre ++ d ++ r.suf) =
        .ok ⟨code, r.pre ++ 88 :: r.suf, pre ++ fmtInt n ++ post, .int n⟩ := by
  obtain ⟨pre, post, hl, hs, h1, h2⟩ := row_description hr
  refine ⟨pre, post, hl, h1, h2, ?_⟩
  have h := tryExpand_param hr hd
  unfold rpcErrorToNative rpcErrorToNativeWith
  unfold tryExpand at h
  simp only [Row.xName] at hl
  rw [h]
  simp [describe, hl, sprintf1_splitV hs]

/-- Clause "code is the server's code" and totality of the conversion: for every code and every
text `RpcErrorToNative` returns an `ErrResponseCode` (no panic, and no description outside the
modelled subset of Sprintf) whose code is the given one. -/
theorem code_preserved (code : Int) (s : Bytes) :
    ∃ e, rpcErrorToNative code s = .ok e ∧ e.code = code := by
  rcases rpcErrorToNative_cases code s with ⟨_, h⟩ | ⟨r, n, pre, post, _, _, _, _, _, _, h⟩
  · exact ⟨_, h, rfl⟩
  · exact ⟨_, h, rfl⟩

example : ∃ e, rpcErrorToNative (-2147483648) [37, 115] = .ok e ∧ e.code = -2147483648 := code_preserved _ _

/-- Clause "containing formatting characters": the server's text is never used as a format.
Either the error has no parameter — then message = the text, verbatim, and the description is the
catalogue entry of the text or the text itself, verbatim, `%` included (no Sprintf call) — or it
has an int parameter — then the description is a catalogued format with the number substituted and
contains no `%` at all (no `%!(EXTRA …)`, `%!v(MISSING)`, `%!(NOVERB)` artefact). -/
theorem percent_safe (code : Int) (s : Bytes) :
    ∃ e, rpcErrorToNative code s = .ok e ∧
      ((e.param = .none ∧ e.message = s ∧ e.description = (Gen.errorMessages.lookup s).getD s) ∨
       (∃ n, e.param = .int n ∧ (37 : UInt8) ∉ e.description)) := by
  rcases rpcErrorToNative_cases code s with ⟨_, h⟩ | ⟨r, n, pre, post, _, _, _, _, h1, h2, h⟩
  · exact ⟨_, h, Or.inl ⟨rfl, rfl, rfl⟩⟩
  · refine ⟨_, h, Or.inr ⟨n, rfl, ?_⟩⟩
    simp only [List.mem_append, not_or]
    exact ⟨⟨h1, fmtInt_no_percent n⟩, h2⟩

-- an unknown text made of verbs only: "%d%s%!"
example : rpcErrorToNative 400 [37,100,37,115,37,33] = .ok ⟨400, [37,100,37,115,37,33], [37,100,37,115,37,33], .none⟩ := by
  decide +kernel

/-! ## tryToProcessErr -/

/-- The tie of `processErr` to the source: the `switch e.Message` of `tryToProcessErr` in the
working tree has exactly the clauses and statement shapes the model was written against
(one case "PHONE_MIGRATE_X": checked int assertion, DC lookup, not-found error, address switch,
Reconnect; default: return the error). Re-decided on every run from the regenerated shape. -/
theorem processErr_source_shape :
    Gen.procSwitchTag = expectedSwitchTag ∧ Gen.procCases = expectedProcCases := by decide +kernel

/-- Clause "PHONE_MIGRATE_X: the client reconnects to the address configured for data centre X and
repeats the request there": for every numeric parameter `n` and every DC table that binds `n`, the
decision for the text `PHONE_MIGRATE_<n>` is: switch to that address and reconnect (after which
`makeRequest` re-issues the request). -/
theorem migrate_configured (dcl : DCList) (code : Int) {d : Bytes} {n : Int} (hd : atoi d = some n)
    {addr : Bytes} (ha : dcl.lookup n = some addr) :
    ∃ e, onRpcError dcl code (phoneMigratePre ++ d) = .ok (e, .migrate n addr) ∧
      e.code = code ∧ e.message = phoneMigrateX ∧ e.param = .int n := by
  obtain ⟨pre, post, _, _, _, h⟩ := param_description phone_row_mem hd code
  simp only [List.append_nil] at h
  refine ⟨⟨code, phoneMigratePre ++ 88 :: [], pre ++ fmtInt n ++ post, .int n⟩, ?_, rfl, rfl, rfl⟩
  unfold onRpcError
  rw [h]
  simp [processErr, phoneMigratePre, phoneMigrateX, ha]

example : ∃ e, onRpcError (setDCList Gen.defaultDCList [(7, [65])]) 303 (phoneMigratePre ++ [55]) =
    .ok (e, .migrate 7 [65]) ∧ e.code = 303 ∧ e.message = phoneMigrateX ∧ e.param = .int 7 :=
  migrate_configured _ _ (by decide +kernel) (by decide +kernel)

/-- Clause "or returns an error if X is not configured": no binding for `n` ⇒ the decision is the
wrapped error "DC with id n not found"; the address is not touched. -/
theorem migrate_unconfigured_is_error (dcl : DCList) (code : Int) {d : Bytes} {n : Int}
    (hd : atoi d = some n) (ha : dcl.lookup n = none) :
    ∃ e, onRpcError dcl code (phoneMigratePre ++ d) = .ok (e, .dcNotFound n) ∧
      e.code = code ∧ e.message = phoneMigrateX ∧ e.param = .int n := by
  obtain ⟨pre, post, _, _, _, h⟩ := param_description phone_row_mem hd code
  simp only [List.append_nil] at h
  refine ⟨⟨code, phoneMigratePre ++ 88 :: [], pre ++ fmtInt n ++ post, .int n⟩, ?_, rfl, rfl, rfl⟩
  unfold onRpcError
  rw [h]
  simp [processErr, phoneMigratePre, phoneMigrateX, ha]

example : ∃ e, onRpcError Gen.defaultDCList 303 (phoneMigratePre ++ [57]) = .ok (e, .dcNotFound 9) ∧
    e.code = 303 ∧ e.message = phoneMigrateX ∧ e.param = .int 9 :=
  migrate_unconfigured_is_error _ _ (by decide +kernel) (by decide +kernel)

/-- "the address CONFIGURED for data centre X", for every history of configuration calls: after any sequence of
`SetDCList` calls (any number, overlapping / disjoint / overriding / empty arguments) on a client whose table started
as `init`, the table binds each data centre to what the LAST call that mentions it says, and every data centre no call
mentions to what it was bound initially — the right-biased union of the initial table and all arguments. No call makes
the client forget what an earlier call (or the default list) configured. -/
theorem dclist_after_calls (init : DCList) (calls : List DCList) (k : Int) :
    (dclistAfter init calls).lookup k = configuredAfter init calls k := by
  unfold dclistAfter configuredAfter
  induction calls generalizing init with
  | nil => simp
  | cons c rest ih =>
    rw [List.foldl_cons, ih (setDCList init c)]
    simp only [List.reverse_cons, List.findSome?_append, List.findSome?_cons, List.findSome?_nil, setDCList,
      List.lookup_append]
    cases rest.reverse.findSome? (fun c => List.lookup k c) <;> cases List.lookup k c <;> simp

/-- … hence the decision for PHONE_MIGRATE_n after a history of calls: migrate to what the last call that binds `n`
says (else the initial table), "not found" exactly when neither any call nor the initial table binds `n`. -/
theorem migrate_after_calls (init : DCList) (calls : List DCList) (code : Int) {d : Bytes} {n : Int}
    (hd : atoi d = some n) :
    (∀ addr, configuredAfter init calls n = some addr →
      ∃ e, onRpcError (dclistAfter init calls) code (phoneMigratePre ++ d) = .ok (e, .migrate n addr)) ∧
    (configuredAfter init calls n = none →
      ∃ e, onRpcError (dclistAfter init calls) code (phoneMigratePre ++ d) = .ok (e, .dcNotFound n)) := by
  constructor
  · intro addr h
    obtain ⟨e, he, _⟩ := migrate_configured (dclistAfter init calls) code hd (by rw [dclist_after_calls]; exact h)
    exact ⟨e, he⟩
  · intro h
    obtain ⟨e, he, _⟩ := migrate_unconfigured_is_error (dclistAfter init calls) code hd (by rw [dclist_after_calls]; exact h)
    exact ⟨e, he⟩

-- SetDCList({2: a, 7: b}); SetDCList({8: c}); SetDCList({2: d}): 7 is still b, 2 is d, 8 is c, 9 nobody's
example : (dclistAfter [(1, [48])] [[(2, [97]), (7, [98])], [(8, [99])], [(2, [100])]]).lookup 7 = some [98] ∧
    configuredAfter [(1, [48])] [[(2, [97]), (7, [98])], [(8, [99])], [(2, [100])]] 2 = some [100] ∧
    configuredAfter [(1, [48])] [[(2, [97]), (7, [98])], [(8, [99])], [(2, [100])]] 8 = some [99] ∧
    configuredAfter [(1, [48])] [[(2, [97]), (7, [98])], [(8, [99])], [(2, [100])]] 1 = some [48] ∧
    configuredAfter [(1, [48])] [[(2, [97]), (7, [98])], [(8, [99])], [(2, [100])]] 9 = none := by decide

/-- Clause "the one error handled instead of returned is PHONE_MIGRATE_X": every text that is not
`PHONE_MIGRATE_` followed by a number is returned to the caller as the structured error — for any
DC table; this includes PHONE_MIGRATE_ with an absent / non-numeric / out-of-range parameter and
the literal text "PHONE_MIGRATE_X" (second C17 repair). -/
theorem other_errors_returned (dcl : DCList) (code : Int) (s : Bytes)
    (h : ¬ ∃ d n, s = phoneMigratePre ++ d ∧ atoi d = some n) :
    ∃ e, onRpcError dcl code s = .ok (e, .returned) ∧ e.code = code := by
  unfold onRpcError
  rcases rpcErrorToNative_cases code s with ⟨_, h2⟩ | ⟨r, n, pre, post, hr, hm, ha, _, _, _, h2⟩
  · rw [h2]
    refine ⟨⟨code, s, describe Gen.errorMessages s, .none⟩, ?_, rfl⟩
    simp only [processErr]
    split <;> rfl
  · rw [h2]
    refine ⟨⟨code, r.xName, pre ++ fmtInt n ++ post, .int n⟩, ?_, rfl⟩
    simp only [processErr]
    split
    · rename_i hx
      exfalso
      have hrow := phone_row_only r hr hx
      apply h
      refine ⟨r.param s, n, ?_, ha⟩
      have hpre : hasPrefix s r.pre = true := by
        have := hm; simp only [Row.matches, Bool.and_eq_true] at this; exact this.1
      have e1 := eq_append_of_hasPrefix hpre
      have e2 : r.param s = trimPrefix s r.pre := by
        simp [Row.param, hrow, trimSuffix_nil]
      rw [e2]
      have e3 : r.pre = phoneMigratePre := by rw [hrow]
      rw [e3] at e1 ⊢
      exact e1
    · rfl

-- "PHONE_MIGRATE_X" literally, and FLOOD_WAIT_17
example : ∃ e, onRpcError Gen.defaultDCList 303 phoneMigrateX = .ok (e, .returned) ∧ e.code = 303 :=
  other_errors_returned _ _ _ (by
    rintro ⟨d, n, hs, hn⟩
    have : d = [88] := by
      have := congrArg (List.drop 14) hs
      simpa [phoneMigrateX, phoneMigratePre] using this.symm
    subst this
    have h88 : atoi [88] = none := by decide +kernel
    rw [h88] at hn; cases hn)

/-- No error text and no DC table make the conversion or the decision panic. -/
theorem onRpcError_total (dcl : DCList) (code : Int) (s : Bytes) :
    ∃ e d, onRpcError dcl code s = .ok (e, d) ∧ ∀ site, d ≠ .panic site := by
  obtain ⟨e, he, _⟩ := code_preserved code s
  refine ⟨e, processErr dcl e.message e.param, by unfold onRpcError; rw [he], ?_⟩
  intro site
  unfold processErr
  split
  · split
    · split <;> simp
    · simp
  · simp

example : ∃ e d, onRpcError [] 0 [] = .ok (e, d) ∧ ∀ site, d ≠ .panic site := onRpcError_total _ _ _

/-! ## The error a caller holds is the caller's own (session 9; sequences of replies in one process)

Model: `Mtv/Client/ErrHeld.lean` — a conversion allocates a new cell (`return &ErrResponseCode{…}`), callers hold
cells and may write into their own. Tied to the code by the operations `c17.ident` / `c17.callers`, which the driver
answers from `heldAfter` / `returnedWith`. -/

/-- "the conversion is a function of (code, text) only", over SEQUENCES: convert any list of replies one after the
other in one process, every caller keeping its error — what the callers hold at the END is the list of the
individual conversions: no later reply (same text with another code, same family with another parameter, anything)
changes an error handed out earlier. -/
theorem held_errors_are_the_callers_own (rs : List Reply) : heldAfter rs = rs.map convert := by
  simp [heldAfter, Proc.run_replies]

/-- … and every conversion RETURNS the conversion of its own reply although callers of earlier replies wrote into the
errors they were given, for every history of replies and writes. -/
theorem returned_errors_unaffected_by_holders (ss : List Step) :
    returnedWith ss = (repliesOf ss).map convert := by
  simp [returnedWith, Proc.run_atReturn]

/-- the history of `c17.ident mut` (every caller scribbles over its error at once): the conversions return what they
return without the scribbling -/
theorem returned_after_scribbling (junk : NativeErr) (rs : List Reply) :
    returnedWith (scribbledHistory junk 0 rs) = rs.map convert := by
  rw [returned_errors_unaffected_by_holders, repliesOf_scribbledHistory]

/-- in ANY history of replies and writes, the error of the `i`-th reply, as long as its own caller did not write into
it, is at the end the conversion of the `i`-th reply — whatever was converted later and whatever other callers wrote
into theirs. -/
theorem held_error_kept (ss : List Step) (i : Nat) (hs : ∀ j e, Step.scribble j e ∈ ss → j ≠ i) :
    (Proc.run {} ss).cells[i]? = ((repliesOf ss).map convert)[i]? := by
  rw [Proc.run_kept {} ss i rfl rfl hs, Proc.run_atReturn]; simp

/-- "CHAT_WRITE_FORBIDDEN" — a text Telegram sends with the codes 400 and 403 -/
def cwf : Bytes := [67,72,65,84,95,87,82,73,84,69,95,70,79,82,66,73,68,68,69,78]

-- not vacuous: three replies with the same text; the first caller still holds code 400 after 403 was converted
example : (heldAfter [(400, cwf), (403, cwf), (400, cwf)]).map
    (fun o => match o with | .ok e => e.code | _ => 0) = [400, 403, 400] := by decide +kernel

example : (returnedWith (scribbledHistory ⟨-7, [], [], .none⟩ 0 [(400, cwf), (400, cwf)])).map
    (fun o => match o with | .ok e => e.message | _ => []) = [cwf, cwf] := by decide +kernel

/-- The statement has content: the other design (seeded change C17-m16 — catalogued errors without a parameter
ready-made, the server's code written into the shared value) does NOT satisfy `held_errors_are_the_callers_own`:
after the replies 400 and 403 CHAT_WRITE_FORBIDDEN both callers hold code 403. -/
theorem shared_cells_change_held_errors :
    heldAfterShared [(400, cwf), (403, cwf)] ≠ [(400, cwf), (403, cwf)].map convert := by decide +kernel

end Mtv.Client
