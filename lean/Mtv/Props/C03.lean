import Mtv.Envelope.Model
import Mtv.Envelope.Spec
