/-
  C03 — the encrypted message envelope follows the MTProto 1.0 layout and key schedule.
  Property theorems only. Model: Mtv/Envelope/Model.lean (the client's code), specification:
  Mtv/Envelope/Spec.lean (the server's side, from the protocol description), lemmas: Mtv/Lemmas/C03.lean.

  SHA-1 (`P.H`) and AES-256-IGE (`P.igeE`/`P.igeD`) are parameters; what is assumed of them is `P.Ok`
  (digest length 20; IGE length-preserving and each direction inverting the other on non-empty
  block-aligned input under a 32-byte key and IV). `toyPrims` shows `P.Ok` is satisfiable.
-/
import Mtv.Lemmas.C03
import Mtv.Envelope.Seq
namespace Mtv.Envelope
open Mtv

/-! ## key schedule and identifiers -/

/-- Clause "auth_key_id, msg_key and the AES key/IV derived from the auth key exactly as MTProto 1.0
prescribes": `generateAESIGE` with offset `x` (0 when sending, 8 when receiving) is the
specification's key schedule for every auth key it does not refuse (128 + x bytes or more, in
particular 256), and `AuthKeyHash` / `MessageKey` are the specification's identifiers. -/
theorem kdf_schedule (P : Prims) (x : Nat) (mk key : Bytes) (hk : key.length = 256) (hx : x = 0 ∨ x = 8) :
    kdf P x mk key = .ok (Spec.keyIv P x key mk) ∧
    authKeyId P key = Spec.authKeyId P key ∧
    ∀ plain, msgKey P plain = Spec.msgKeyOf P plain :=
  ⟨kdf_eq_spec P x mk key (by omega), authKeyId_eq_spec P key, msgKey_eq_spec P⟩

example : kdf toyPrims 8 (zeros 16) (zeros 256) = .ok (Spec.keyIv toyPrims 8 (zeros 256) (zeros 16)) :=
  (kdf_schedule toyPrims 8 (zeros 16) (zeros 256) (by simp) (Or.inr rfl)).1

/-! ## client → server -/

/-- Clause "every encrypted message leaves the client as auth_key_id, msg_key and the AES-256-IGE
encryption of (salt, session id, msg_id, seq_no, body length, body, fewer than 16 padding bytes)":
for every 256-byte key, all field values, ack on or off and every body (every length, so every
residue mod 16), `Encrypted.Serialize` returns `auth_key_id ‖ msg_key ‖ ct` where `ct` is the IGE
encryption, under the client-direction (x = 0) key and IV of the msg_key, of the inner packet
followed by fewer than 16 zero bytes; `ct` is whole blocks and exceeds header + body by less than 16. -/
theorem sealClient_layout {P : Prims} (hP : P.Ok) (key : Bytes) (salt sid mid seq : Nat) (ack : Bool)
    (body : Bytes) (hk : key.length = 256) :
    ∃ ct pad,
      sealClient P key salt sid mid seq ack body
        = .ok (authKeyId P key ++ msgKey P (serializePacket salt sid mid seq ack body) ++ ct) ∧
      ct = P.igeE (Spec.keyIv P 0 key (msgKey P (serializePacket salt sid mid seq ack body))).1
                  (Spec.keyIv P 0 key (msgKey P (serializePacket salt sid mid seq ack body))).2
                  (serializePacket salt sid mid seq ack body ++ pad) ∧
      pad.length < 16 ∧ (∀ b ∈ pad, b = 0) ∧
      ct.length % 16 = 0 ∧ 32 + body.length ≤ ct.length ∧ ct.length - (32 + body.length) < 16 := by
  have hs := sealClient_eq_spec P key salt sid mid seq ack body (by omega)
  have hobj := serializePacket_eq_plaintext salt sid mid seq ack body
  have hl : (serializePacket salt sid mid seq ack body).length = 32 + body.length := by
    rw [hobj]; exact plaintext_length _
  have hkv := keyIv_length hP 0 key (msgKey P (serializePacket salt sid mid seq ack body))
  have hpl : (serializePacket salt sid mid seq ack body ++ zeros (padLen (32 + body.length))).length
      = (32 + body.length) + padLen (32 + body.length) := by simp [hl]
  have hal := padLen_aligned (32 + body.length)
  have hlt := padLen_lt (32 + body.length)
  have hct := hP.igeE_len _ _ (serializePacket salt sid mid seq ack body ++ zeros (padLen (32 + body.length)))
    hkv.1 hkv.2 (by rw [hpl]; omega) (by rw [hpl]; exact hal)
  refine ⟨_, zeros (padLen (32 + body.length)), ?_, rfl, by simpa using hlt, ?_, ?_, ?_, ?_⟩
  · rw [hs, authKeyId_eq_spec, msgKey_eq_spec, hobj]; rfl
  · intro b hb; exact List.eq_of_mem_replicate hb
  · rw [hct, hpl]; exact hal
  · rw [hct, hpl]; omega
  · rw [hct, hpl]; omega

example := sealClient_layout toyPrims_ok (zeros 256) 1 2 4 2 true [1, 2, 3] (by simp)

/-- the same statement against the specification: what leaves the client *is* the specification's
client-to-server sealing of (salt, session, msg_id, seq_no with the ack bit, body) -/
theorem sealClient_is_spec_sealing (P : Prims) (key : Bytes) (salt sid mid seq : Nat) (ack : Bool)
    (body : Bytes) (hk : key.length = 256) :
    sealClient P key salt sid mid seq ack body
      = .ok (Spec.sealDir P 0 key ⟨salt, sid, mid, if ack then seq ||| 1 else seq, body⟩
               (zeros (padLen (32 + body.length)))) :=
  sealClient_eq_spec P key salt sid mid seq ack body (by omega)

example := sealClient_is_spec_sealing toyPrims (zeros 256) 1 2 4 2 false [] (by simp)

/-- Clause "so that a conformant server recovers precisely those fields": for every 256-byte key,
every salt, session id, msg_id (64 bit), seq_no (32 bit), ack flag and every body shorter than 2^31
bytes, the packet the client produces is opened by the specification's server (which also insists
on fewer than 16 padding bytes and on the msg_key) to exactly those fields — seq_no with bit 0 set
when an acknowledgement is required, as it is otherwise — and that body. -/
theorem serverOpen_sealClient {P : Prims} (hP : P.Ok) (key : Bytes) (salt sid mid seq : Nat) (ack : Bool)
    (body : Bytes) (hk : key.length = 256) (h1 : salt < 2 ^ 64) (h2 : sid < 2 ^ 64) (h3 : mid < 2 ^ 64)
    (h4 : seq < 2 ^ 32) (h5 : body.length < 2 ^ 31) :
    ∃ pkt, sealClient P key salt sid mid seq ack body = .ok pkt ∧
      Spec.serverOpen P key pkt = some ⟨salt, sid, mid, if ack then seq ||| 1 else seq, body⟩ := by
  refine ⟨_, sealClient_eq_spec P key salt sid mid seq ack body (by omega), ?_⟩
  have hseq : (if ack then seq ||| 1 else seq) < 2 ^ 32 := by
    cases ack
    · simpa using h4
    · simp only [if_true]; exact Nat.or_lt_two_pow h4 (by decide)
  apply openDir_sealDir hP 0 key _ _ ⟨h1, h2, h3, hseq, h5⟩
  · simpa using padLen_lt (32 + body.length)
  · simpa using padLen_aligned (32 + body.length)

example := serverOpen_sealClient toyPrims_ok (zeros 256) (2 ^ 64 - 1) 0 12 7 true [1, 2, 3, 4, 5]
  (by simp) (by decide) (by decide) (by decide) (by decide) (by decide)

/-! ## server → client -/

/-- Clause "every packet a conformant server seals for the server-to-client direction is opened to
exactly the salt, session id, msg_id, seq_no and body it contains": for every 256-byte key, every
message whose fields fit their widths with a server-parity msg_id, every body shorter than 2^31
bytes and every padding that makes the plaintext a multiple of 16 bytes (in particular the 0–15
bytes the protocol allows — every residue of the body length), `DeserializeEncrypted` returns
exactly that message. -/
theorem openClient_serverSeal {P : Prims} (hP : P.Ok) (key : Bytes) (m : Msg) (pad : Bytes)
    (hk : key.length = 256) (hm : m.WF) (hpar : serverParity m.mid)
    (hal : (32 + m.body.length + pad.length) % 16 = 0) :
    openClient P key (Spec.serverSeal P key m pad) = .ok m :=
  openClient_sealDir8 hP key m pad (by omega) hm hpar hal

example := openClient_serverSeal toyPrims_ok (zeros 256) ⟨5, 6, 2 ^ 64 - 1, 9, [1, 2, 3]⟩ (zeros 13)
  (by simp) (by decide) (by decide) (by decide)

/-! ## unencrypted key-exchange messages -/

/-- Clause "unencrypted key-exchange messages carry a zero key id, the msg_id and the exact body
length": `Unencrypted.Serialize` is 8 zero bytes, the msg_id, the 4-byte body length, the body; it
is routed as unencrypted by `isPacketEncrypted`. -/
theorem unenc_layout (mid : Nat) (body : Bytes) :
    Unenc.serialize mid body = zeros 8 ++ leBytes mid 8 ++ leBytes body.length 4 ++ body ∧
    (Unenc.serialize mid body).length = 20 + body.length ∧
    Unenc.isEncrypted (Unenc.serialize mid body) = false := by
  have hz : leBytes 0 8 = zeros 8 := by decide
  refine ⟨by simp [Unenc.serialize, hz], by simp [Unenc.serialize]; omega, ?_⟩
  have ht : (Unenc.serialize mid body).take 8 = zeros 8 := by
    simp only [Unenc.serialize, hz, List.append_assoc]
    exact List.take_left' (by simp)
  have hl : ¬ (Unenc.serialize mid body).length < 8 := by simp [Unenc.serialize]
  have h0 : fromLE (zeros 8) = 0 := by decide
  simp [Unenc.isEncrypted, hl, ht, h0]

example : (Unenc.serialize 5 [1, 2, 3]).length = 23 := (unenc_layout 5 [1, 2, 3]).2.1

/-- … and `DeserializeUnencrypted` reads such a message back: every 64-bit msg_id with server
parity, every body whose length fits the 32-bit length field. -/
theorem unenc_roundtrip (mid : Nat) (body : Bytes) (hmid : mid < 2 ^ 64) (hpar : serverParity mid)
    (hlen : body.length < 2 ^ 32) :
    Unenc.deserialize (Unenc.serialize mid body) = .ok (mid, body) := by
  have hs : Unenc.serialize mid body = leBytes 0 8 ++ (leBytes mid 8 ++ (leBytes body.length 4 ++ body)) := by
    simp [Unenc.serialize]
  have hl : (Unenc.serialize mid body).length = 20 + body.length := (unenc_layout mid body).2.1
  have hmidr : fromLE (((Unenc.serialize mid body).drop 8).take 8) = mid := by
    rw [hs, List.drop_left' (by simp), List.take_left' (by simp)]
    exact fromLE_leBytes 8 mid (by simpa using hmid)
  have hlenr : fromLE (((Unenc.serialize mid body).drop 16).take 4) = body.length := by
    have : (leBytes 0 8 ++ leBytes mid 8).length = 16 := by simp
    rw [hs, ← List.append_assoc, List.drop_left' this, List.take_left' (by simp)]
    exact fromLE_leBytes 4 _ (by simpa using hlen)
  have hbody : (Unenc.serialize mid body).drop 20 = body := by
    have : (leBytes 0 8 ++ leBytes mid 8 ++ leBytes body.length 4).length = 20 := by simp
    rw [Unenc.serialize]; exact List.drop_left' this
  have hp : ¬ (mid % 4 ≠ 1 ∧ mid % 4 ≠ 3) := by unfold serverParity at hpar; omega
  have c1 : ¬ (Unenc.serialize mid body).length < 16 := by omega
  have c2 : ¬ (Unenc.serialize mid body).length < 20 := by omega
  have c3 : ¬ ((Unenc.serialize mid body).length - 20 ≠ body.length) := by omega
  simp only [Unenc.deserialize, c1, c2, if_false, hmidr, hp, hlenr, c3, hbody]

example := unenc_roundtrip (2 ^ 64 - 1) [1, 2, 3] (by decide) (by decide) (by decide)

/-! ## sequences of operations in one process (session 9)

The clauses above are per operation. A client process performs many, for several clients (auth keys, salts,
sessions), some of them refused (no key yet, a damaged session file; a packet that is not the server's). The
model of an operation is a function of its arguments; written as the loop of calls a process makes, that
says: the n-th result is the n-th request's result on its own, whatever came before — in particular
whatever was REFUSED before. The `c03.mix` correspondence operation ties this statement to the code
(a real sequence in one process, garbage collector off, against the model's per-step answers). -/

/-- Sealing a list of messages one after another gives the list of their individual sealings, for every
list (any number of clients, any mixture of refused and accepted requests): the model has no state. -/
theorem seal_sequence_independent (P : Prims) (reqs : List SealReq) :
    sealSeq P reqs = reqs.map (sealOne P) := by
  simp [sealSeq, sealLoop_eq]

/-- the same for the receive path: opening a list of packets one after another gives the list of their
individual openings -/
theorem open_sequence_independent (P : Prims) (reqs : List OpenReq) :
    openSeq P reqs = reqs.map (openOne P) := by
  simp [openSeq, openLoop_eq]

/-- non-vacuity: a send refused for want of a key, then a send of a healthy client, then a refused one again —
the results are the three individual ones, the first being the refusal -/
example : sealSeq toyPrims [⟨[], 1, 2, 4, 0, true, [9, 9]⟩, ⟨zeros 256, 5, 6, 8, 2, false, [1, 2, 3]⟩, ⟨zeros 100, 5, 6, 8, 2, false, []⟩]
    = [.err "shortKey", sealOne toyPrims ⟨zeros 256, 5, 6, 8, 2, false, [1, 2, 3]⟩, .err "shortKey"] := by
  rw [seal_sequence_independent]; rfl

/-- Clause "a conformant server recovers precisely those fields", for a process's whole history: whatever
requests `pre` were served before (refused or accepted, of this client or others) and whatever follow, the
packet produced for a request with a 256-byte key and fields in range is opened by the specification's
server to exactly that request's salt, session id, msg_id, seq_no and body. -/
theorem seal_in_sequence_opens {P : Prims} (hP : P.Ok) (pre post : List SealReq) (r : SealReq)
    (hk : r.key.length = 256) (h1 : r.salt < 2 ^ 64) (h2 : r.sid < 2 ^ 64) (h3 : r.mid < 2 ^ 64)
    (h4 : r.seq < 2 ^ 32) (h5 : r.body.length < 2 ^ 31) :
    ∃ pkt, (sealSeq P (pre ++ r :: post))[pre.length]? = some (.ok pkt) ∧
      Spec.serverOpen P r.key pkt = some ⟨r.salt, r.sid, r.mid, if r.ack then r.seq ||| 1 else r.seq, r.body⟩ := by
  obtain ⟨pkt, hs, ho⟩ := serverOpen_sealClient hP r.key r.salt r.sid r.mid r.seq r.ack r.body hk h1 h2 h3 h4 h5
  refine ⟨pkt, ?_, ho⟩
  rw [seal_sequence_independent]
  simp [sealOne, hs]

example := seal_in_sequence_opens toyPrims_ok [⟨[], 1, 2, 4, 0, true, [9, 9]⟩, ⟨zeros 100, 0, 0, 0, 0, false, []⟩] []
  ⟨zeros 256, 2 ^ 64 - 1, 0, 12, 7, true, [1, 2, 3, 4, 5]⟩ (by simp) (by decide) (by decide) (by decide) (by decide) (by decide)

/-- … and on the receive path: whatever packets were opened or refused before (and whatever follow), the packet a
conformant server sealed for this client is opened to exactly its content. -/
theorem open_in_sequence_opens {P : Prims} (hP : P.Ok) (pre post : List OpenReq) (key : Bytes) (m : Msg) (pad : Bytes)
    (hk : key.length = 256) (hm : m.WF) (hpar : serverParity m.mid)
    (hal : (32 + m.body.length + pad.length) % 16 = 0) :
    (openSeq P (pre ++ ⟨key, Spec.serverSeal P key m pad⟩ :: post))[pre.length]? = some (.ok m) := by
  rw [open_sequence_independent]
  simp [openOne, openClient_serverSeal hP key m pad hk hm hpar hal]

/-- non-vacuity: two refused packets (a foreign key id; too short to hold anything) before the server's packet -/
example := open_in_sequence_opens toyPrims_ok [⟨zeros 256, zeros 56⟩, ⟨zeros 256, []⟩] [] (zeros 256)
  ⟨5, 6, 2 ^ 64 - 1, 9, [1, 2, 3]⟩ (zeros 13) (by simp) (by decide) (by decide) (by decide)

end Mtv.Envelope
