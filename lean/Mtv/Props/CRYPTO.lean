/-
  CRYPTO — facts about the executable primitives in `Mtv.Crypto` that other properties' proofs may use.
  Proved for all inputs: the output lengths. Checked by kernel evaluation on published vectors (these
  are tests): `Mtv.Lemmas.CRYPTOVec*`. That the functions compute SHA-1/SHA-2/HMAC/PBKDF2/AES/CRC-32
  on all inputs is NOT proved; it is tested against Go's standard library on every run of
  `./check CRYPTO` (docs/CRYPTO.md).
-/
import Mtv.Crypto.Sha1
import Mtv.Crypto.Sha256
import Mtv.Crypto.Sha512
import Mtv.Crypto.Hmac
import Mtv.Crypto.Pbkdf2
import Mtv.Crypto.Aes
import Mtv.Crypto.Crc32
import Mtv.Lemmas.CRYPTOVecSha
import Mtv.Lemmas.CRYPTOVecSha512
import Mtv.Lemmas.CRYPTOVecAes
import Mtv.Lemmas.CRYPTOVecAesDec
namespace Mtv.Crypto

/-- every digest / block has its nominal length (restated here in one place; the individual lemmas
    live next to the definitions) -/
theorem output_lengths (x y : Bytes) (k : AesKey) :
    (sha1 x).length = 20 ∧ (sha256 x).length = 32 ∧ (sha512 x).length = 64 ∧
    (hmacSha512 x y).length = 64 ∧ (aes256EncryptBlock k x).length = 16 ∧
    (aes256DecryptBlock k x).length = 16 ∧ crc32 x < 2 ^ 32 :=
  ⟨sha1_length x, sha256_length x, sha512_length x, hmacSha512_length x y,
   aes256EncryptBlock_length k x, aes256DecryptBlock_length k x, crc32_lt x⟩

theorem pbkdf2Block_length (k : HmacSha512Key) (salt : Bytes) (c i : Nat) :
    (pbkdf2Block k salt c i).length = 64 := rfl

private theorem flatMap_const_length {α β} (f : α → List β) (n : Nat) (h : ∀ a, (f a).length = n) :
    ∀ l : List α, (l.flatMap f).length = n * l.length
  | [] => by simp
  | a :: l => by
    simp only [List.flatMap_cons, List.length_append, List.length_cons, h,
      flatMap_const_length f n h l, Nat.mul_succ]
    omega

/-- PBKDF2 returns exactly `dkLen` bytes. -/
theorem pbkdf2HmacSha512_length (password salt : Bytes) (iterations dkLen : Nat) :
    (pbkdf2HmacSha512 password salt iterations dkLen).length = dkLen := by
  unfold pbkdf2HmacSha512
  simp only [List.length_take]
  rw [flatMap_const_length _ 64 (fun i => pbkdf2Block_length _ _ _ _)]
  simp only [List.length_range]
  omega

example : (pbkdf2HmacSha512 [1, 2] [3] 1000 100).length = 100 := pbkdf2HmacSha512_length ..

end Mtv.Crypto
