/-
  C13 — the shipped API layer is a faithful translation of the shipped TL schema.

  Every statement is a kernel-evaluated fact about tables REGENERATED from the working tree on every
  run: the schemas (tools/tl2lean.py — validated here by printing every definition back to its source
  line), the constructor registry (reflection over the built tree), the client methods and wrappers
  (go/parser). The quantifier of the property is this finite table; the kernel work is split into
  per-chunk obligations (Mtv/Gen/C13/*.lean, regenerated) that are assembled below.
-/
import Mtv.Gen.C13.All
namespace Mtv.C13
open Mtv.Schema Mtv.TL Mtv.Gen Mtv.Gen.C13

/-! ## translator validation and constructor ids -/

/-- every definition of the API schema and of the service schema: the translator's structured reading
prints back to the source line, the id text is the id, and the id is the CRC-32 of the canonical line -/
theorem ids_are_crc32 : schemaApiChunks.all crcChunkOk = true ∧ schemaMtChunks.all crcChunkOk = true :=
  ⟨api_crc_ok, mt_crc_ok⟩

/-! ## one registered type per definition, same id, same layout -/

/-- constructor ids are strictly increasing in each table: no id occurs twice, so a definition has at
most one registered type and vice versa -/
theorem ids_unique :
    strictlySorted (registry.map (·.id)) = true ∧ strictlySorted (schemaApi.map (·.id)) = true ∧
    strictlySorted (schemaMt.map (·.id)) = true := ids_sorted

/-- every constructor and method of the API schema (the seven documented wrappers aside) has a
registered type with its id whose fields equal the parameters in order, type, flag bit and flags-word
position; and is recorded in the join tables -/
theorem registry_matches_api : schemaApiChunks.all apiMatchOk = true := api_match_ok

/-- the same for the wire-used definitions of the MTProto service schema -/
theorem registry_matches_service : schemaMtChunks.all mtMatchOk = true := mt_match_ok

/-- **the fields are the parameters, by name**: for every constructor and method of the API schema and
every wire-used service definition, field i of the registered type is named after parameter i of the
schema line (`first_msg_id` ↔ `FirstMsgID`: equal after dropping `_` and folding case; the six
hand-written service fields that are named otherwise are listed one by one in `nameExceptions`). Two
parameters of the same type declared in the wrong order satisfy `registry_matches_*` (type and
position agree) and fail here. Third conjunct: the name table is the registry's — one row per
registered constructor, under its id, one name per field. -/
theorem field_names_match :
    schemaApiChunks.all apiNamesOk = true ∧ schemaMtChunks.all mtNamesOk = true ∧
    regNamesChunksOk registryChunks fieldNamesChunks = true :=
  ⟨api_names_ok, mt_names_ok, reg_names_ok⟩

/-- **the Go struct has no field beside the layout**: for every registered struct type, the fields
reflection finds in it (every one: exported or not, whatever its tag) are, name by name and in order, the
fields of the layout `registry_matches_*` compares with the schema, and each struct tag is literally the
text of the layout's flag (`tl:"flag:N"`, `tl:"flag:N,encoded_in_bitflags"`, none). So a Go field the
schema does not define fails one of the two — also one tagged `tl:"-"`, which the encoder skips but the
decoder reads whenever flags bit 0 is set. -/
theorem struct_fields_are_layout :
    regFieldsChunksOk registryChunks fieldNamesChunks allFieldsChunks = true := reg_fields_ok

/-- the join tables used by the two theorems above are exactly what they stand for: every
constructor is in the entry of its type, every registered constructor in the entries of its interfaces
and enum type, and the entries hold nothing else (counts) -/
theorem tables_valid : registryChunks.all regChunkOk = true ∧ tableCountsOk = true :=
  ⟨reg_chunks_ok, table_counts_ok⟩

/-- the hand-written wrappers carry the ids and layouts of their schema lines, and are among the
documented seven -/
theorem wrappers_match :
    wrappers.all (wrapperOk TA registry schemaApi) = true ∧
    wrappers.all (fun w => wrapperNames.contains w.schemaName) = true := wrappers_ok

/-- **partial** (`nothing_extra`): every registered type is defined by a schema line — except types
whose definition the shipped schema carries only as a comment (known finding: five such types are
generated and registered); any other extra type falsifies this statement. The full statement
`extraIds = []` is false on the unchanged tree. -/
theorem nothing_extra_partial :
    extraIds.all (fun id => schemaApiCommented.any fun p => p.2 == id) = true := extra_partial

/-! ## enumerations: the Go name of a constant is the schema constructor's -/

/-- **every enum member of the schema is the Go constant named after it**: for every definition of the API
schema whose registered representation is a value of an enum type, exactly one constant of package telegram is
named after it (`topPeerCategoryForwardChats` ↦ `TopPeerCategoryForwardChats`: equal after dropping `.`/`_` and
folding case), that constant carries the definition's id and is of the Go type named after the definition's
result type. Conversely every constant of an enum type is named after a member and carries its id, and every
case of a `String()` method returns, for an id, the name the schema gives that id. The registry theorems above
cannot see this: two constants of one type carrying each other's ids leave the set of ids registered under the
type as it is (facts from the source text: `Mtv.Gen.enumConsts`, `Mtv.Gen.enumStrings`, go/parser). -/
theorem enum_constants_named :
    schemaApiChunks.all apiEnumOk = true ∧ enumTablesOk = true := ⟨api_enum_ok, enum_tables_ok⟩

/-! ## client methods -/

/-- every generated client method sends a request of its function's constructor with argument i in
the schema's parameter position i (same Go type), and returns the answer as the result kind the
schema declares (bool / typed slice with the decoder hint / the pointer, enum or interface of the
result type); **its body is nothing but that** — `Mtv.Schema.generatedSkeletons`: request, error
check, assertion, return of the asserted answer; no statement in front of the request, none between the
answer and the return. The three hand-written wrapper methods: `wrapperMethodOk`
(`handWrittenSkeletons`). -/
theorem methods_match : methodChunks.all methodChunkOk = true := method_chunks_ok

/-! ## non-vacuity: the predicates can fail -/

/-- a definition whose id is changed no longer matches -/
example : defMatch TA registry
    ⟨⟨13, 0x696e707574506565724368617⟩, 0x179be864, ⟨8, 0⟩, [⟨⟨7, 0x636861745f6964⟩, none, .prim bInt⟩],
     ⟨9, 0x496e70757450656572⟩, .ref ⟨9, 0x496e70757450656572⟩, false, ⟨0, 0⟩⟩ = false := by
  decide +kernel

/-- the real `inputPeerUser#7b8e7de6 user_id:int access_hash:long = InputPeer` matches; with its two
parameters swapped it does not -/
example :
    defMatch TA registry
      ⟨⟨13, 0⟩, 0x7b8e7de6, ⟨8, 0⟩, [⟨⟨7, 0⟩, none, .prim bInt⟩, ⟨⟨11, 0⟩, none, .prim bLong⟩],
       ⟨9, 0x496e70757450656572⟩, .ref ⟨9, 0x496e70757450656572⟩, false, ⟨0, 0⟩⟩ = true ∧
    defMatch TA registry
      ⟨⟨13, 0⟩, 0x7b8e7de6, ⟨8, 0⟩, [⟨⟨11, 0⟩, none, .prim bLong⟩, ⟨⟨7, 0⟩, none, .prim bInt⟩],
       ⟨9, 0x496e70757450656572⟩, .ref ⟨9, 0x496e70757450656572⟩, false, ⟨0, 0⟩⟩ = false := by
  decide +kernel

/-- names: `new_session_created#9ec20908 first_msg_id:long unique_id:long server_salt:long` against the
fields `FirstMsgID, UniqueID, ServerSalt` holds; against the same three `int64` fields with the last
two exchanged (a layout `defMatch` cannot tell from the right one) it fails; a listed exception holds
only for its own definition -/
example :
    namesMatch ⟨19, 0x6e65775f73657373696f6e5f63726561746564⟩
      [⟨12, 0x66697273745f6d73675f6964⟩, ⟨9, 0x756e697175655f6964⟩, ⟨11, 0x7365727665725f73616c74⟩]
      [⟨10, 0x46697273744d73674944⟩, ⟨8, 0x556e697175654944⟩, ⟨10, 0x53657276657253616c74⟩] = true ∧
    namesMatch ⟨19, 0x6e65775f73657373696f6e5f63726561746564⟩
      [⟨12, 0x66697273745f6d73675f6964⟩, ⟨9, 0x756e697175655f6964⟩, ⟨11, 0x7365727665725f73616c74⟩]
      [⟨10, 0x46697273744d73674944⟩, ⟨10, 0x53657276657253616c74⟩, ⟨8, 0x556e697175654944⟩] = false ∧
    nameMatch ⟨10, 0x7270635f726573756c74⟩ ⟨6, 0x726573756c74⟩ ⟨3, 0x4f626a⟩ = true ∧
    nameMatch ⟨9, 0x7270635f6572726f72⟩ ⟨6, 0x726573756c74⟩ ⟨3, 0x4f626a⟩ = false := by
  decide +kernel

/-- enum constants: a member with its own constant passes; with the ids of two constants of its type exchanged
(the registry's view — which ids are registered under the type — is unchanged) it fails, as do a missing
constant and a second constant of the same name; a constant that is named after no member fails `enumConstOk` -/
example :
    let R : Registry := [⟨0x11, "telegram.Color", .enum, none, [], []⟩, ⟨0x22, "telegram.Color", .enum, none, [], []⟩]
    let red : Def := ⟨⟨8, 0x636f6c6f72526564⟩, 0x11, ⟨2, 0x3131⟩, [], ⟨5, 0x436f6c6f72⟩, .ref ⟨5, 0x436f6c6f72⟩, false, ⟨0, 0⟩⟩
    let cRed : BStr := ⟨8, 0x436f6c6f72526564⟩
    let cBlue : BStr := ⟨9, 0x436f6c6f72426c7565⟩
    let ty : BStr := ⟨5, 0x436f6c6f72⟩
    enumMemberOk R [⟨cRed, ty, 0x11⟩, ⟨cBlue, ty, 0x22⟩] red = true ∧
    enumMemberOk R [⟨cRed, ty, 0x22⟩, ⟨cBlue, ty, 0x11⟩] red = false ∧
    enumMemberOk R [⟨cBlue, ty, 0x22⟩] red = false ∧
    enumMemberOk R [⟨cRed, ty, 0x11⟩, ⟨cRed, ty, 0x11⟩] red = false ∧
    enumConstOk R [red] ⟨cRed, ty, 0x11⟩ = true ∧
    enumConstOk R [red] ⟨cRed, ty, 0x22⟩ = false ∧
    enumConstOk R [red] ⟨cBlue, ty, 0x22⟩ = false ∧
    enumStringOk R [red] ⟨ty, 0x11, ⟨8, 0x636f6c6f72526564⟩⟩ = true ∧
    enumStringOk R [red] ⟨ty, 0x11, ⟨9, 0x636f6c6f72426c7565⟩⟩ = false := by
  decide +kernel

/-- body skeletons: the generator's body passes; the same body with a look-up in front of the request
(an early return: the request may not be sent), with a statement between the assertion and the return,
or with the error check missing does not, nor does the body that PANICS on an answer of another type (D32); a hand-written skeleton is not accepted for a generated
method -/
example :
    generatedSkeletons.contains [.call, .ifErr, .assert, .ifNotOkErr, .ret] = true ∧
    generatedSkeletons.contains [.other "if", .call, .ifErr, .assert, .ifNotOkErr, .ret] = false ∧
    generatedSkeletons.contains [.call, .ifErr, .assert, .ifNotOkErr, .other "assign", .ret] = false ∧
    generatedSkeletons.contains [.call, .assert, .ifNotOkErr, .ret] = false ∧
    generatedSkeletons.contains [.call, .ifErr, .assert, .ifNotOkPanic, .ret] = false ∧
    generatedSkeletons.contains [.call, .ifErr, .retAssert] = false ∧
    handWrittenSkeletons.contains [.call, .ifErr, .retAssert] = true := by
  decide +kernel

/-- struct tags: a flagged field is written `tl:"flag:2"` / `tl:"flag:0,encoded_in_bitflags"`, an
unflagged one carries no tag; `tl:"-"` is the tag of neither. A struct with a field beside the layout
fails `ctorFieldsOk` whatever that field's tag. -/
example :
    expectedTag (some ⟨2, false⟩) = ⟨11, 0x746c3a22666c61673a3222⟩ ∧
    expectedTag (some ⟨0, true⟩) = ⟨31, 0x746c3a22666c61673a302c656e636f6465645f696e5f626974666c61677322⟩ ∧
    expectedTag none ≠ ⟨6, 0x746c3a222d22⟩ ∧ expectedTag (some ⟨0, false⟩) ≠ ⟨6, 0x746c3a222d22⟩ ∧
    ctorFieldsOk ⟨1, "T", .struct, none, [], [⟨"A", .int32, none⟩]⟩ [(1, 0x41)] [((1, 0x41), (0, 0))] = true ∧
    ctorFieldsOk ⟨1, "T", .struct, none, [], [⟨"A", .int32, none⟩]⟩ [(1, 0x41)]
      [((1, 0x41), (0, 0)), ((1, 0x42), (6, 0x746c3a222d22))] = false ∧
    ctorFieldsOk ⟨1, "T", .struct, none, [], [⟨"A", .int32, none⟩]⟩ [(1, 0x41)]
      [((1, 0x41), (0, 0)), ((1, 0x42), (0, 0))] = false := by
  decide +kernel

end Mtv.C13
