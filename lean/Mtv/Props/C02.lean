/-
  C02 — the TL wire format equals the schema-defined serialisation for every constructor.
  Property theorems only. Spec: Mtv/TL/Spec.lean (`specVal`, written from the TL definition of a schema
  line; never looks at the Go registry). Model of the Go encoder/decoder: Mtv/TL/{Encode,Decode}.lean.
  The hypothesis relating registry and schema is C13's decidable `defMatch`, established for the
  regenerated tables by the kernel (Mtv/Props/C13.lean).
-/
import Mtv.Lemmas.TLSpecAgree
import Mtv.Lemmas.TLRoundTripMain
import Mtv.Schema.Matches
import Mtv.Props.C13
namespace Mtv.TL
open Mtv.Schema

/-! ## from C13's `defMatch` to layout agreement -/

theorem fieldsMatch_agree (T : Tables) : ∀ (ps : List Param) (fs : List FieldDesc),
    fieldsMatch T ps fs = true → FieldsAgree ps fs
  | [], [], _ => trivial
  | [], _ :: _, h => by simp [fieldsMatch] at h
  | _ :: _, [], h => by simp [fieldsMatch] at h
  | p :: ps, f :: fs, h => by
    simp only [fieldsMatch, Bool.and_eq_true] at h
    obtain ⟨hf, hrest⟩ := h
    simp only [fieldMatch, Bool.and_eq_true] at hf
    refine ⟨?_, ?_, fieldsMatch_agree T ps fs hrest⟩
    · cases hc : p.cond <;> cases hfl : f.flag <;> simp_all
    · intro fl hfl
      cases hc : p.cond <;> simp_all

/-- a definition that `defMatch`es a struct descriptor has that descriptor's layout -/
theorem defMatch_layout (T : Tables) (R : Registry) (d : Def) (c : CtorDesc)
    (hm : defMatch T R d = true) (hf : R.find d.id = some c) (hk : c.kind = .struct) : LayoutAgree d c := by
  unfold defMatch at hm
  simp only [hf, hk, Bool.and_eq_true, beq_iff_eq] at hm
  have hid : c.id = d.id := by
    unfold Registry.find at hf
    simpa using List.find?_some hf
  exact ⟨hid, hm.1, fieldsMatch_agree T _ _ hm.2⟩

/-- every definition of `S` matching its registered type gives `Covers` -/
theorem covers_of_defMatch (T : Tables) (R : Registry) (S : List Def)
    (h : ∀ d ∈ S, defMatch T R d = true) : Covers R S := by
  intro id c d hf hd
  have hmem : d ∈ S := List.mem_of_find?_eq_some hd
  have hdid : d.id = id := by simpa [findDef] using List.find?_some hd
  have hm := h d hmem
  have hf' : R.find d.id = some c := by rw [hdid]; exact hf
  refine ⟨fun hk => defMatch_layout T R d c hm hf' hk, fun hk => ?_⟩
  have hid : c.id = d.id := by
    unfold Registry.find at hf'
    simpa using List.find?_some hf'
  unfold defMatch at hm
  simp only [hf', hk, Bool.and_eq_true, Bool.not_eq_true', List.isEmpty_iff] at hm
  obtain ⟨⟨_, hp⟩, _⟩ := hm
  refine ⟨hid.symm, by simp [valueParams, hp], by simp [hp, flagsPos]⟩

/-! ## the property -/

/-- **The bytes produced for a value are exactly the TL serialisation the schema defines.** For every
registry and schema that agree (`Covers`), every value — any nesting depth, any vector sizes, any
strings — whose objects are ordinary constructors of the schema: if the encoder produces bytes, they are
`specVal S v`. -/
theorem encode_eq_spec (R : Registry) (S : List Def) (hc : Covers R S) (v : Val) (bs : Bytes)
    (hp : Plain R S v) (henc : marshal R v = .ok bs) : specVal S v = .ok bs :=
  spec_val R S hc v bs hp henc

/-- **Bytes built from the schema decode to the corresponding value**: for a well-typed value, the
schema-defined bytes — followed by anything — are decoded, by constructor id, to the value. -/
theorem decode_spec_bytes (R : Registry) (S : List Def) (gz : Bytes → Option Bytes) (dp : Nat) (hR : WFR R) (hc : Covers R S)
    (v : Val) (bs rest : Bytes) (fuel : Nat)
    (hwt : WT R (.iface "tl.Object") v) (hp : Plain R S v) (henc : marshal R v = .ok bs) (hf : need v ≤ fuel) :
    specVal S v = .ok bs ∧
    ∃ v', decRegistered R gz dp fuel (bs ++ rest) [] = .ok (v', rest, []) ∧ erase v' = erase v := by
  refine ⟨spec_val R S hc v bs hp henc, ?_⟩
  obtain ⟨v', hdec, her⟩ := rt_val R gz dp hR v (.iface "tl.Object") bs rest [] (fuel + 1) hwt henc (by omega)
  refine ⟨v', ?_, her⟩
  simp only [decVal] at hdec
  cases hreg : decRegistered R gz dp fuel (bs ++ rest) [] with
  | err e => simp [hreg] at hdec
  | panic s => simp [hreg] at hdec
  | ok p =>
    obtain ⟨v0, r0, h0⟩ := p
    simp only [hreg] at hdec
    split at hdec
    · simpa using hdec
    · cases hdec

/-- **A value too large for the format is refused**, by the encoder and by the schema-defined
serialisation alike: a byte string of 2^24 bytes or more has no encoding. -/
theorem too_large_refused (R : Registry) (S : List Def) (bs : Bytes) (h : 2 ^ 24 ≤ bs.length) :
    (marshal R (.str bs)).isOk = false ∧ (marshal R (.bytes false bs)).isOk = false ∧
    (specVal S (.str bs)).isOk = false := by
  have h1 : ¬ bs.length < 254 := by omega
  simp [marshal, encVal, specVal, putMessage, h1, h, Outcome.isOk]

/-! ## the regenerated tables satisfy the hypothesis -/

open Mtv.C13 Mtv.Gen in
/-- registry and API schema of the working tree agree (from C13's kernel-checked per-chunk facts) -/
theorem covers_api : Covers registry apiDefs := by
  apply covers_of_defMatch TA
  intro d hd
  unfold apiDefs at hd
  obtain ⟨hmem, hapi⟩ := List.mem_filter.mp hd
  unfold schemaApi at hmem
  obtain ⟨ch, hch, hdch⟩ := List.mem_flatten.mp hmem
  have hall := List.all_eq_true.mp registry_matches_api ch hch
  unfold apiMatchOk at hall
  simp only [Bool.and_eq_true] at hall
  exact List.all_eq_true.mp hall.1 d (List.mem_filter.mpr ⟨hdch, hapi⟩)

open Mtv.C13 Mtv.Gen in
/-- likewise for the wire-used definitions of the service schema -/
theorem covers_service : Covers registry serviceDefs := by
  apply covers_of_defMatch TM
  intro d hd
  unfold serviceDefs at hd
  obtain ⟨hmem, hapi⟩ := List.mem_filter.mp hd
  unfold schemaMt at hmem
  obtain ⟨ch, hch, hdch⟩ := List.mem_flatten.mp hmem
  have hall := List.all_eq_true.mp registry_matches_service ch hch
  unfold mtMatchOk at hall
  simp only [Bool.and_eq_true] at hall
  exact List.all_eq_true.mp hall.1 d (List.mem_filter.mpr ⟨hdch, hapi⟩)

/-! ## non-vacuity -/

/-- `wallPaperSettings#5086cf8 flags:# blur:flags.1?true … rotation:flags.4?int` as schema line and as
descriptor: they agree, the value with a zero member in a present group is `Plain`, and its bytes are the
schema's (flags word 0x10 = bit 4; both members of the group written) -/
def exDef : Def :=
  ⟨⟨17, 0⟩, 0x05086cf8, ⟨7, 0⟩,
   [⟨⟨5, 0⟩, none, .flagsWord⟩, ⟨⟨4, 0⟩, some 1, .prim bTrue⟩, ⟨⟨16, 0⟩, some 0, .prim bInt⟩,
    ⟨⟨23, 0⟩, some 4, .prim bInt⟩, ⟨⟨8, 0⟩, some 4, .prim bInt⟩],
   ⟨17, 0⟩, .ref ⟨17, 0⟩, false, ⟨0, 0⟩⟩

example : specVal [exDef] (.obj 0x05086cf8 [.bool false, .word 0, .word 5, .word 0]) =
    .ok [0xf8, 0x6c, 0x08, 0x05, 0x10, 0, 0, 0, 5, 0, 0, 0, 0, 0, 0, 0] := by decide

end Mtv.TL
