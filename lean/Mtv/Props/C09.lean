/-
  C09 — each RPC call returns exactly the result addressed to its own request.
  Property theorems only. Model: Mtv/Client/Machine.lean. Quantified over every reachable state: any
  number of concurrent callers, any interleaving of their sends with the receive loop, any order,
  grouping (containers, to any nesting) and compression of the server's answers (a gzip_packed result
  is the same `res` message at this level; its decoding is C01/C15's decoder model).
-/
import Mtv.Lemmas.ClientInv2
namespace Mtv.Client

/-- **own result**: whatever a call of caller `c` returned was handed over for a request `id` that `c`
itself wrote, and is the value an rpc_result (or rpc_error) naming exactly `id` carried — or the error of
a bad_msg_notification naming `id` -/
theorem own_result (s : St) (h : Reachable s) (c id : Nat) (v : String) (hd : (c, id, v) ∈ s.delivered) :
    (∃ seq, (id, seq, c) ∈ s.sent) ∧ ((id, v) ∈ s.results ∨ v = "badmsg") :=
  (deliverOk_reachable s h).2.2 (c, id, v) hd

/-- **never another caller's**: a msg_id names one request of one caller, so the request `id` above
belongs to `c` and to nobody else -/
theorem request_owner_unique (s : St) (h : Reachable s) (id q q' c c' : Nat)
    (h1 : (id, q, c) ∈ s.sent) (h2 : (id, q', c') ∈ s.sent) : c = c' :=
  (sent_id_unique (sentSorted_reachable s h) h1 h2).2

/-- the same holds for values handed over but not yet returned -/
theorem own_result_pending (s : St) (h : Reachable s) (c id : Nat) (v : String) (hd : (c, id, v) ∈ s.owedDeliver) :
    (∃ seq, (id, seq, c) ∈ s.sent) ∧ ((id, v) ∈ s.results ∨ v = "badmsg") :=
  (deliverOk_reachable s h).2.1 (c, id, v) hd

/-- **never twice**: once a result for request `rid` has been processed, `rid` is no longer registered —
a second rpc_result naming it is handed to nobody (it only raises a warning) -/
theorem never_twice (s : St) (rid : Nat) (v w : String) :
    lookupPending (resStep s rid v).pending rid = none ∧
    (resStep (resStep s rid v) rid w).owedDeliver = (resStep s rid v).owedDeliver := by
  have h1 : lookupPending (resStep s rid v).pending rid = none := by
    simp only [resStep]
    split
    · simp [lookupPending, erasePending, List.find?_eq_none]
    · rename_i hn; exact hn
  refine ⟨h1, ?_⟩
  rw [resStep, h1]

/-- a call returns at most once per hand-over: `deliver` consumes the owed value -/
theorem deliver_consumes (s s' : St) (c : Nat) (v : String) (h : step s (.deliver c v) = some s') :
    ∃ rid, (c, rid, v) ∈ s.owedDeliver ∧ s'.owedDeliver = s.owedDeliver.erase (c, rid, v) := by
  obtain ⟨rid, hm, rfl⟩ := step_deliver_some h
  exact ⟨rid, hm, rfl⟩

/-- one call in progress per caller: the values above cannot be mixed up between two calls of the same
caller either -/
theorem one_call_per_caller (s : St) (h : Reachable s) (c : Nat) : inProgress s c ≤ 1 :=
  callerOnce_reachable s h c

/-- the result reaches the caller however the server groups its answers: an rpc_result inside a container
(at any depth the client accepts containers at) is handed over exactly as a plain one -/
theorem container_like_plain (d : Nat) (hd : d < maxContainerDepth) (s : St) (mid seq cm cs rid : Nat) (v : String) :
    (process d s cm cs (.cont [(mid, seq, .res rid v)])).owedDeliver = (process 0 s mid seq (.res rid v)).owedDeliver ∧
    (process d s cm cs (.cont [(mid, seq, .res rid v)])).pending = (process 0 s mid seq (.res rid v)).pending := by
  simp only [process, processAll, oweAck, hd, if_true]
  split <;> split <;> simp

/-! ## non-vacuity: two callers, answers in the opposite order, one in a container -/
example :
    (run {} [.send 0 1000 1 5, .send 1 1004 3 5,
             .recv 77 2 (.cont [(71, 1, .res 1004 "for-1"), (73, 3, .res 1000 "for-0")]),
             .deliver 1 "for-1", .deliver 0 "for-0"]).map (·.delivered) =
      some [(0, 1000, "for-0"), (1, 1004, "for-1")] := by decide +kernel
/-- and a call cannot return the other caller's value -/
example : (run {} [.send 0 1000 1 5, .send 1 1004 3 5, .recv 77 1 (.res 1004 "for-1"), .deliver 0 "for-1"]).isNone = true := by
  decide +kernel

end Mtv.Client
