/-
  C18 — the 2FA SRP answer verifies for the right password and only for it.
  Property theorems only. Model: Mtv/Srp/Client.lean (the code), Mtv/Srp/ServerSpec.lean (Telegram's
  definition, server side), Mtv/Srp/Num.lean. Lemmas: Mtv/Lemmas/C18Num, C18Alg, C18Core.

  `H` (SHA-256) and `KDF` (PBKDF2-HMAC-SHA512, 100000 iterations, 64 bytes) are parameters: every
  theorem holds for all functions `H KDF`; what is assumed of them is written as a hypothesis.
-/
import Mtv.Lemmas.C18Core
namespace Mtv.Srp

variable (H : Bytes → Bytes) (KDF : Bytes → Bytes → Bytes)

/-! ## byte-level glue -/

/-- Glue clause: `pad256(n.Bytes())` read back is `n` for EVERY n < 2^2048 — values whose 256-byte
form starts with any number of zero bytes (A, B, S, hashes) included — and is always 256 bytes long. -/
theorem pad256_roundtrip (n : Nat) (h : n < 2 ^ 2048) :
    fromBE (pad256 (toBE n)) = n ∧ (pad256 (toBE n)).length = 256 := by
  have h' : n < 256 ^ 256 := by
    rw [pow256_eq]; exact h
  exact ⟨fromBE_pad256_toBE n h', pad256_length _⟩

example : fromBE (pad256 (toBE 0x00ab)) = 0xab ∧ (pad256 (toBE 0)).length = 256 :=
  ⟨(pad256_roundtrip 0xab (lt_pow2048_of_lt_256 _ (by decide))).1,
   (pad256_roundtrip 0 (lt_pow2048_of_lt_256 _ (by decide))).2⟩

/-- Glue clause: the square-and-multiply `powMod` run by the driver is `b ^ e % m`. -/
theorem powMod_correct (b e m : Nat) : powMod b e m = b ^ e % m := powMod_eq b e m

example : powMod 3 200 1000003 = 3 ^ 200 % 1000003 := powMod_correct _ _ _

/-- Glue clause (`t_nonneg`): after validation (`B < p`; `kv` is a residue, `kv < p`) the code's
`t = B − kv`, plus p once if negative, is in `[0, p)` — one conditional add suffices although B is
not reduced — and it is the natural number the model computes with. -/
theorem t_nonneg (B kv p : Nat) (hB : B < p) (hkv : kv < p) :
    0 ≤ tCode B kv p ∧ tCode B kv p < p ∧ tCode B kv p = (tValue B kv p : Nat) := by
  unfold tCode tValue
  by_cases h : B < kv
  · have h' : (B : Int) - kv < 0 := by omega
    simp only [h', h, if_true]
    omega
  · have h' : ¬ ((B : Int) - kv < 0) := by omega
    simp only [h', h, if_false]
    omega

example : tCode 3 9 11 = 5 ∧ tCode 9 3 11 = 6 := by decide

/-! ## the right password is accepted -/

/-- **Completeness** ("the answer computed for the right password is accepted by a server that holds
only the verifier and follows Telegram's definition"). For every non-empty password, all salts, every
g, every modulus `0 < p < 2^2048` (p need NOT be prime, g need not be a generator — the identity
`(B − k·v)^(a+u·x) = (A·v^u)^b (mod p)` is pure modular arithmetic), every client secret `a` (any
`random` byte string) and server secret `b`: if the server's `B = (k·v + g^b) mod p` is not 0 (a server
never sends 0; the client must refuse it), the client returns an answer `(A, M1)` and the server accepts
it. No hypothesis excludes leading zero bytes anywhere. The only assumption on the hash is that
`H(p)` is not longer than `H(g)` (true of any fixed-length hash; otherwise `dry.BytesXor` panics). -/
theorem srp_complete (password salt1 salt2 : Bytes) (g : Nat) (pBytes random : Bytes) (b : Nat)
    (hpw : password ≠ [])
    (hp : 0 < fromBE pBytes) (hp2 : fromBE pBytes < 2 ^ 2048)
    (hH : (H pBytes).length ≤ (H (pad256 (toBE g))).length)
    (hB : (register H KDF password salt1 salt2 g pBytes).B H b ≠ 0) :
    let sv := register H KDF password salt1 salt2 g pBytes
    let algo : Algo := { salt1, salt2, g, pBytes }
    ∃ ga m1, answer H KDF password (sv.srpB H b) algo random = .ok (.srp ga m1) ∧
      sv.accepts H b ga m1 = true := by
  have hp2' : fromBE pBytes < 256 ^ 256 := by
    rw [pow256_eq]; exact hp2
  exact complete_withX H { salt1, salt2, g, pBytes }
    (fromBE (specPH2 H KDF password salt1 salt2)) b random password hpw hp hp2' hH hB

set_option maxRecDepth 20000 in
/-- the hypotheses of `srp_complete` are satisfiable (toy group p = 23, g = 5; a hash that depends on
its input's length and last byte) -/
example :
    let H : Bytes → Bytes := fun x => [UInt8.ofNat (x.length % 5 + 1), x.getLastD 7]
    let KDF : Bytes → Bytes → Bytes := fun pw s => pw ++ s
    ([0x70] : Bytes) ≠ [] ∧ 0 < fromBE [23] ∧ fromBE [23] < 2 ^ 2048 ∧
      (H [23]).length ≤ (H (pad256 (toBE 5))).length ∧
      (register H KDF [0x70] [1, 2] [3] 5 [23]).B H 6 ≠ 0 := by
  refine ⟨by decide, by decide, lt_pow2048_of_lt_256 _ (by decide), by decide, by decide⟩

/-- Completeness at the constructor level: `telegram.GetInputCheckPassword` returns
`InputCheckPasswordSRPObj{SRPID, A, M1}` carrying the account's `SRPID` unchanged and an `(A, M1)`
the server accepts, whatever 256 random bytes it drew. -/
theorem srp_complete_public (password salt1 salt2 : Bytes) (g : Nat) (pBytes random : Bytes)
    (b : Nat) (srpId : Int)
    (hpw : password ≠ [])
    (hp : 0 < fromBE pBytes) (hp2 : fromBE pBytes < 2 ^ 2048)
    (hH : (H pBytes).length ≤ (H (pad256 (toBE g))).length)
    (hB : (register H KDF password salt1 salt2 g pBytes).B H b ≠ 0) :
    let sv := register H KDF password salt1 salt2 g pBytes
    ∃ ga m1, getInputCheckPassword H KDF password (.modPow { salt1, salt2, g, pBytes })
        (sv.srpB H b) srpId random = .ok (.obj srpId ga m1) ∧ sv.accepts H b ga m1 = true := by
  obtain ⟨ga, m1, h1, h2⟩ := srp_complete H KDF password salt1 salt2 g pBytes random b hpw hp hp2 hH hB
  refine ⟨ga, m1, ?_, h2⟩
  unfold getInputCheckPassword
  simp only [h1, wrapAnswer]

/-! ## empty password, foreign algorithm, out-of-range B -/

/-- Clause "an empty password yields the 'no password' answer": `nil` from the internal function —
before anything is validated — and `InputCheckPasswordEmpty` from the public one. -/
theorem empty_password_none (srpB : Bytes) (algo : Algo) (random : Bytes) (srpId : Int) :
    answer H KDF [] srpB algo random = .ok .none ∧
    getInputCheckPassword H KDF [] (.modPow algo) srpB srpId random = .ok .empty := by
  constructor
  · simp [answer, answerWithX]
  · simp [getInputCheckPassword, wrapAnswer, answer, answerWithX]

example : answer (fun x => x) (fun a _ => a) [] [] ⟨[], [], 0, []⟩ [] = .ok .none :=
  (empty_password_none _ _ _ _ _ 0).1

/-- An algorithm object of another type is an error for every password (the empty one included). -/
theorem wrong_algo_refused (password srpB random : Bytes) (srpId : Int) :
    getInputCheckPassword H KDF password .other srpB srpId random = .err "algo" := rfl

/-- Clause "an out-of-range server value is refused": for a non-empty password, `B = 0`, `B ≥ p`
(`p`, `p+1`, …), an `srp_B` shorter than 248 bytes or longer than 256 bytes each give the error, from
both entry points, and no answer. -/
theorem bad_B_refused (password srpB : Bytes) (algo : Algo) (random : Bytes) (srpId : Int)
    (hpw : password ≠ [])
    (hbad : fromBE srpB = 0 ∨ fromBE algo.pBytes ≤ fromBE srpB ∨ srpB.length < 248 ∨ 256 < srpB.length) :
    answer H KDF password srpB algo random = .err "invalidB" ∧
    getInputCheckPassword H KDF password (.modPow algo) srpB srpId random = .err "processing" := by
  have hv : validate srpB algo = false := by
    cases hval : validate srpB algo with
    | false => rfl
    | true => rw [validate_eq_true_iff] at hval; omega
  have h1 : answer H KDF password srpB algo random = .err "invalidB" := by
    simp [answer, answerWithX, hpw, hv]
  exact ⟨h1, by simp [getInputCheckPassword, wrapAnswer, h1]⟩

example : fromBE (zeros 256) = 0 ∨ fromBE [23] ≤ fromBE (zeros 256) ∨ (zeros 256).length < 248 ∨
    256 < (zeros 256).length := Or.inl (by rw [← List.append_nil (zeros 256), fromBE_zeros_append]; rfl)

/-- Conversely an answer is produced only for a value in range: `0 < B < p`, `248 ≤ len ≤ 256`. -/
theorem answer_only_if_valid (password srpB : Bytes) (algo : Algo) (random ga m1 : Bytes)
    (h : answer H KDF password srpB algo random = .ok (.srp ga m1)) :
    password ≠ [] ∧ 0 < fromBE srpB ∧ fromBE srpB < fromBE algo.pBytes ∧
      248 ≤ srpB.length ∧ srpB.length ≤ 256 := by
  unfold answer answerWithX at h
  by_cases hpw : password = []
  · simp [hpw] at h
  · cases hval : validate srpB algo with
    | false => simp [hpw, hval] at h
    | true => exact ⟨hpw, (validate_eq_true_iff _ _).1 hval⟩

/-! ## "… and only for it" -/

/-- `H` has no collision between these two inputs. -/
def NoCollision (H : Bytes → Bytes) (x y : Bytes) : Prop := H x = H y → x = y

/-
  FULL STATEMENT (not provable, and false without cryptographic assumptions):
    theorem srp_sound : password' ≠ password →
      answer H KDF password' srpB algo random = .ok (.srp ga m1) → sv.accepts H b ga m1 = false
  where sv = register … password …. It fails outright when the two passwords have the same verifier
  (`srp_same_verifier_accepted` below), and otherwise it needs (i) collision resistance of H
  (a hypothesis below), (ii) that PH2 does not collide, and (iii) that a different x cannot give the
  same session secret — a discrete-logarithm-type statement about the group, which is not a theorem.
  What IS proved is the reduction to (iii):
-/

/-- **Soundness, reduction (partial)**: if the server (holding the verifier of `password`) accepts
the answer the client computed for some `password'`, and H has no collision on the two pairs of
inputs actually hashed (the two `M1` pre-images, the two padded session secrets), then the client's
session secret for `password'` EQUALS the server's: `S(password') = S' = (A·v^u)^b mod p`.
Missing for the full clause: `S(password') = S'` is impossible for `password' ≠ password` (see above). -/
theorem srp_sound_reduction_partial (password password' salt1 salt2 : Bytes) (g : Nat)
    (pBytes random : Bytes) (b : Nat) (ga m1 : Bytes)
    (hp2 : fromBE pBytes < 2 ^ 2048) :
    let sv := register H KDF password salt1 salt2 g pBytes
    let algo : Algo := { salt1, salt2, g, pBytes }
    let c := coreWithX H (xOf H KDF password' algo) (sv.srpB H b) algo random
    answer H KDF password' (sv.srpB H b) algo random = .ok (.srp ga m1) →
    sv.accepts H b ga m1 = true →
    NoCollision H (m1Pre H (specXor (H pBytes) (H (pad256 (toBE g)))) algo c) (sv.m1Pre H b ga) →
    NoCollision H c.sa (pad256 (toBE (sv.secret H b ga))) →
    c.s = sv.secret H b ga := by
  intro sv algo c hans hacc hn1 hn2
  have hp2' : fromBE pBytes < 256 ^ 256 := by
    rw [pow256_eq]; exact hp2
  obtain ⟨hpw, hB0, hBp, _, _⟩ := answer_only_if_valid H KDF password' _ algo random ga m1 hans
  have hp : 0 < fromBE pBytes := by
    have : fromBE (sv.srpB H b) < fromBE pBytes := hBp
    omega
  -- what the client returned
  unfold answer answerWithX at hans
  have hval : validate (sv.srpB H b) algo = true := by
    rw [validate_eq_true_iff]; exact ⟨hB0, hBp, by assumption, by assumption⟩
  simp only [hpw, if_false, hval, Bool.not_true] at hans
  unfold m1Of at hans
  cases hx : xorBytes (H algo.pBytes) (H (pad256 (toBE algo.g))) with
  | err e => simp [hx] at hans
  | panic s => simp [hx] at hans
  | ok xr =>
    obtain ⟨_, hxr⟩ := xorBytes_ok_inv _ _ _ hx
    simp only [hx, Bool.false_eq_true, if_false, Outcome.ok.injEq, Answer.srp.injEq] at hans
    obtain ⟨hga, hm1⟩ := hans
    have hga' : c.ga = ga := hga
    subst hga'
    have hm1' : H (m1Pre H xr algo c) = m1 := hm1
    -- what the server compared
    unfold Server.accepts at hacc
    simp only [Bool.and_eq_true, decide_eq_true_eq] at hacc
    obtain ⟨hlen, hm1s⟩ := hacc
    have hpre : m1Pre H (specXor (H pBytes) (H (pad256 (toBE g)))) algo c = sv.m1Pre H b c.ga := by
      apply hn1
      have : xr = specXor (H pBytes) (H (pad256 (toBE g))) := hxr
      rw [← this, hm1', hm1s]; rfl
    -- same prefix on both sides ⇒ the last component k_a = k_b
    have hgal : pad256 (toBE (fromBE c.ga)) = c.ga := by
      exact pad256_toBE_fromBE c.ga (by simp [c, coreWithX]) |>.trans (pad256_of_length_eq _ (by simp [c, coreWithX]))
    have hgb : c.gb = pad256 (toBE (sv.B H b)) := pad256_idem _
    have hka : c.ka = H (pad256 (toBE (sv.secret H b c.ga))) := by
      unfold m1Pre Server.m1Pre at hpre
      simp only [] at hpre
      rw [hgal, ← hgb] at hpre
      exact List.append_cancel_left hpre
    have hsa : c.sa = pad256 (toBE (sv.secret H b c.ga)) := hn2 hka
    have hs : c.s < 256 ^ 256 := Nat.lt_trans (powMod_lt _ _ _ hp) hp2'
    have hs' : sv.secret H b c.ga < 256 ^ 256 := Nat.lt_trans (powMod_lt _ _ _ hp) hp2'
    exact pad256_toBE_inj _ _ hs hs' hsa

/-- The same reduction read as a rejection: an answer computed for `password'` whose session secret
differs from the server's is rejected, provided H does not collide on the inputs hashed. -/
theorem srp_wrong_rejected_partial (password password' salt1 salt2 : Bytes) (g : Nat)
    (pBytes random : Bytes) (b : Nat) (ga m1 : Bytes)
    (hp2 : fromBE pBytes < 2 ^ 2048) :
    let sv := register H KDF password salt1 salt2 g pBytes
    let algo : Algo := { salt1, salt2, g, pBytes }
    let c := coreWithX H (xOf H KDF password' algo) (sv.srpB H b) algo random
    answer H KDF password' (sv.srpB H b) algo random = .ok (.srp ga m1) →
    NoCollision H (m1Pre H (specXor (H pBytes) (H (pad256 (toBE g)))) algo c) (sv.m1Pre H b ga) →
    NoCollision H c.sa (pad256 (toBE (sv.secret H b ga))) →
    c.s ≠ sv.secret H b ga →
    sv.accepts H b ga m1 = false := by
  intro sv algo c hans hn1 hn2 hne
  cases hacc : sv.accepts H b ga m1 with
  | false => rfl
  | true =>
    exact absurd (srp_sound_reduction_partial H KDF password password' salt1 salt2 g pBytes random b
      ga m1 hp2 hans hacc hn1 hn2) hne

set_option maxRecDepth 20000 in
/-- hypotheses of the two reduction theorems are satisfiable: with the identity as "hash" (which has
no collisions at all) and the right password the answer exists and is accepted -/
example :
    let H : Bytes → Bytes := fun x => x
    let KDF : Bytes → Bytes → Bytes := fun pw s => pw ++ s
    let sv := register H KDF [0x70] [1, 2] [3] 5 [23]
    let algo : Algo := { salt1 := [1, 2], salt2 := [3], g := 5, pBytes := [23] }
    (∃ ga m1, answer H KDF [0x70] (sv.srpB H 6) algo [9] = .ok (.srp ga m1) ∧ sv.accepts H 6 ga m1 = true) ∧
      ∀ x y, NoCollision H x y := by
  intro H KDF sv algo
  refine ⟨srp_complete H KDF [0x70] [1, 2] [3] 5 [23] [9] 6 (by decide) (by decide)
    (lt_pow2048_of_lt_256 _ (by decide)) ?_ ?_, fun x y h => h⟩
  · simp [H]
  · decide

/-- Why "only for it" can hold only up to the verifier: the server knows `v` alone, so ANY password
whose hash `x'` gives the same verifier `g^x' mod p = v` is accepted exactly like the right one. -/
theorem srp_same_verifier_accepted (password password' salt1 salt2 : Bytes) (g : Nat)
    (pBytes random : Bytes) (b : Nat)
    (hpw : password' ≠ [])
    (hp : 0 < fromBE pBytes) (hp2 : fromBE pBytes < 2 ^ 2048)
    (hH : (H pBytes).length ≤ (H (pad256 (toBE g))).length)
    (hB : (register H KDF password salt1 salt2 g pBytes).B H b ≠ 0)
    (hv : (register H KDF password' salt1 salt2 g pBytes).v = (register H KDF password salt1 salt2 g pBytes).v) :
    let sv := register H KDF password salt1 salt2 g pBytes
    ∃ ga m1, answer H KDF password' (sv.srpB H b) { salt1, salt2, g, pBytes } random = .ok (.srp ga m1) ∧
      sv.accepts H b ga m1 = true := by
  have hsv : register H KDF password' salt1 salt2 g pBytes = register H KDF password salt1 salt2 g pBytes := by
    unfold register at hv ⊢
    simp only [Server.mk.injEq, true_and]
    exact hv
  have := srp_complete H KDF password' salt1 salt2 g pBytes random b hpw hp hp2 hH (by rw [hsv]; exact hB)
  rw [hsv] at this
  exact this

/-- such pairs exist as soon as the group is small or the hash collides: p = 7, g = 2 (order 3),
`x = 1` and `x' = 4` have the same verifier 2 -/
example : powMod 2 1 7 = powMod 2 4 7 := by decide

end Mtv.Srp
