/-
  C07 — key exchange aborts on any inconsistent server reply and persists nothing.
  Property theorems only. Model: Mtv/Handshake/{Num,Wire,Reg,Client,Checks}.lean — `makeAuthKey` as
  REPAIRED by pending_fixes/C06-*.patch and C07-*.patch, as a step machine over the reply bodies;
  SHA-1, AES-256, gzip and the factoring of pq are parameters (`Prims`), the TL registry is a parameter
  constrained by `HsReg`. Helper lemmas: Mtv/Lemmas/{C06Num,C07Decoder,C07Stages}.lean.
-/
import Mtv.Lemmas.C07Stages
import Mtv.Handshake.Conn
import Mtv.Gen.Registry
import Mtv.Gen.HsChecks
namespace Mtv.Handshake
open Mtv Mtv.TL Mtv.Ige

/-! ## regenerated-fact obligations (re-checked by the kernel against the working tree on every run) -/

/-- **The registry of the working tree resolves the thirteen constructor ids of the key exchange to
the Go types and field lists the model is written for** (`HsReg`): `resPQ` = nonce:int128,
server_nonce:int128, pq:bytes, fingerprints:vector<long>, and so on. A changed field, type or id in
internal/mtproto/objects breaks this. -/
theorem registry_hs : HsReg Mtv.Gen.registry := by decide +kernel

/-- **The model's check sequence is the source's**: the ordered skeleton of `makeAuthKey` extracted
from handshake.go by go/ast on this run — every request, every `if` with the text of its condition and
what its body does, the fingerprint loop, the type assertions, the state changes at the end — equals
the sequence the stage functions of the model implement; so do the answer type assertions of the
request wrappers (objects/methods.go), the sets of types implementing the two answer interfaces
(objects/types.go) and the cases of `makeRequest`'s switch (mtproto.go). Deleting, inverting,
weakening or moving a check, or moving the session save / `encrypted = true` in front of one, changes
the extracted sequence and breaks this obligation before any fault injection runs. -/
theorem checks_match_source :
    Mtv.Gen.hsChecks = modelChecks ∧
    Mtv.Gen.hsWrapperAsserts = modelWrapperAsserts ∧
    Mtv.Gen.hsServerDHParams = modelServerDHParams ∧
    Mtv.Gen.hsSetClientDHAnswer = modelSetClientDHAnswer ∧
    Mtv.Gen.hsServiceCases = modelServiceCases := by decide +kernel

/-- the id sets the model's interface assertions let through are the extracted ones -/
theorem iface_sets (v : Val) :
    isServerDHParams v = modelServerDHParams.any (fun id => objId v == some id) ∧
    isSetClientDHAnswer v = modelSetClientDHAnswer.any (fun id => objId v == some id) := by
  simp [isServerDHParams, isSetClientDHAnswer, modelServerDHParams, modelSetClientDHAnswer, List.any,
    Bool.or_assoc]

/-- **`CreateConnection` and the reading routine of the working tree are the model's** (`Mtv.Handshake.Conn`):
the skeleton of `(*MTProto).CreateConnection` extracted from mtproto.go by go/ast on this run - the reading
routine is started before the key exchange, and when `makeAuthKey` fails `m.stopRoutines()` runs before the
error is returned -, the cases of the reading routine's `switch err` (EOF → `Reconnect` only if `keyAfterHangup`)
and the skeleton of `keyAfterHangup` (true only once `m.encrypted` is set) equal the sequences
`createConnection` / `connStep` implement. Removing the stop from the error path, or starting another routine
before the exchange, changes the extracted text and breaks this obligation. -/
theorem conn_matches_source :
    Mtv.Gen.hsCreateConn = modelCreateConn ∧ Mtv.Gen.hsReaderCases = modelReaderCases ∧
    Mtv.Gen.hsKeyAfterHangup = modelKeyAfterHangup := by decide +kernel

/-! ## the property -/

/-- **A session is stored only if every check passed.** For every client configuration (registry,
primitives, key, draws) and EVERY list of reply bodies: if the run of the client machine stores a
session, the list starts with three replies `r1 r2 r3` that satisfy `AllChecks`: the three expected
constructors and `server_DH_inner_data` inside the answer, the SHA-1 prefix match of the decrypted
answer, all seven nonce / server_nonce equalities, a matching fingerprint, the `new_nonce_hash1`
equality. No hypothesis on the replies or on the configuration. -/
theorem hs_save_only_if_all_checks (c : Cfg) (replies : List Bytes)
    (h : ∃ a ∈ (hsRun c replies).2, a.isSave = true) :
    ∃ r1 r2 r3 rest, replies = r1 :: r2 :: r3 :: rest ∧ AllChecks c r1 r2 r3 := by
  obtain ⟨a, ha, hsv⟩ := h
  match replies with
  | [] => exact absurd hsv (by simp [((hsRun_short c [] (by simp)).2.2 a ha).1])
  | [r1] => exact absurd hsv (by simp [((hsRun_short c [r1] (by simp)).2.2 a ha).1])
  | [r1, r2] => exact absurd hsv (by simp [((hsRun_short c [r1, r2] (by simp)).2.2 a ha).1])
  | r1 :: r2 :: r3 :: rest =>
    refine ⟨r1, r2, r3, rest, rfl, run3_allChecks c r1 r2 r3 ?_⟩
    rw [hsRun_three] at ha
    intro hq
    exact absurd hsv (by simp [(hq.2.2 a ha).1])

/-- the premise of `hs_save_only_if_all_checks` is satisfiable: a client that has passed the three
stages stores a session (that such runs exist for every conformant server is `hs_agree`, C06) -/
example (c : Cfg) (r1 r2 r3 : Bytes) (req1 : Bytes) (s1 : S1) (s2 : S2)
    (h0 : marshalSend c.R (vReqPQ (fromBE c.d.nonce)) = .ok req1) (h1 : stage1 c r1 = .ok s1)
    (h2 : stage2 c s1.serverNonce r2 = .ok s2) (h3 : stage3 c s1.serverNonce s2.nonceHash1 r3 = .ok ()) :
    ∃ a ∈ (hsRun c [r1, r2, r3]).2, a.isSave = true := by
  rw [hsRun_three]
  exact ⟨.saveSession s2.authKey s2.authKeyHash s2.salt, by simp [run3, h0, h1, h2, h3], rfl⟩

/-- **Any inconsistency ends the exchange with an ERROR — not a panic, not a success, not a wait.**
For every sane client configuration (`ClientSane`: conditions on the client's own registry, key and
draws only) and every three reply bodies that do NOT satisfy `AllChecks` (whatever else follows),
`makeAuthKey` returns an error. Quantified over all reply contents: undecodable bytes, any
constructor, any field values, any length of the encrypted answer. -/
theorem hs_abort_is_error (c : Cfg) (hs : ClientSane c) (r1 r2 r3 : Bytes) (rest : List Bytes)
    (h : ¬ AllChecks c r1 r2 r3) :
    ∃ k, (hsRun c (r1 :: r2 :: r3 :: rest)).1.result = some (.err k) := by
  rw [hsRun_three]
  rcases run3_result c hs r1 r2 r3 with hok | herr
  · exact absurd (run3_allChecks c r1 r2 r3 (fun hq => hq.2.1 hok)) h
  · exact herr

/-- **Nothing encrypted and no `encrypted` flag before success.** For every configuration and every
list of replies: the machine never sends an encrypted request during the exchange, and if it switches
`encrypted` on, or ends in encrypted mode, or `makeAuthKey` returns success, then the first three
replies satisfy `AllChecks`. -/
theorem hs_no_encrypted_before_success (c : Cfg) (replies : List Bytes) :
    (∀ a ∈ (hsRun c replies).2, a.isSendEnc = false) ∧
    (((hsRun c replies).1.encrypted = true ∨ Action.setEncrypted ∈ (hsRun c replies).2 ∨
        (hsRun c replies).1.result = some (.ok ())) →
      ∃ r1 r2 r3 rest, replies = r1 :: r2 :: r3 :: rest ∧ AllChecks c r1 r2 r3) := by
  have short : ∀ rs : List Bytes, rs.length < 3 →
      (∀ a ∈ (hsRun c rs).2, a.isSendEnc = false) ∧
      ¬ ((hsRun c rs).1.encrypted = true ∨ Action.setEncrypted ∈ (hsRun c rs).2 ∨
        (hsRun c rs).1.result = some (.ok ())) := by
    intro rs hl
    obtain ⟨q1, q2, q3⟩ := hsRun_short c rs hl
    refine ⟨fun a ha => (q3 a ha).2.1, ?_⟩
    rintro (h | h | h)
    · rw [q1] at h; cases h
    · exact (q3 _ h).2.2 rfl
    · exact q2 h
  match replies with
  | [] => exact ⟨(short [] (by simp)).1, fun h => absurd h (short [] (by simp)).2⟩
  | [r1] => exact ⟨(short [r1] (by simp)).1, fun h => absurd h (short [r1] (by simp)).2⟩
  | [r1, r2] => exact ⟨(short [r1, r2] (by simp)).1, fun h => absurd h (short [r1, r2] (by simp)).2⟩
  | r1 :: r2 :: r3 :: rest =>
    rw [hsRun_three]
    constructor
    · intro a ha
      unfold run3 at ha
      cases h0 : marshalSend c.R (vReqPQ (fromBE c.d.nonce)) with
      | error e => simp [h0] at ha
      | ok req1 =>
        simp only [h0] at ha
        cases h1 : stage1 c r1 with
        | error e => simp only [h1, List.mem_singleton] at ha; subst ha; rfl
        | ok s1 =>
          simp only [h1] at ha
          cases h2 : stage2 c s1.serverNonce r2 with
          | error e =>
            simp only [h2, List.mem_cons, List.not_mem_nil, or_false] at ha
            rcases ha with rfl | rfl <;> rfl
          | ok s2 =>
            simp only [h2] at ha
            cases h3 : stage3 c s1.serverNonce s2.nonceHash1 r3 with
            | error e =>
              simp only [h3, List.mem_cons, List.not_mem_nil, or_false] at ha
              rcases ha with rfl | rfl | rfl <;> rfl
            | ok u =>
              simp only [h3, List.mem_cons, List.not_mem_nil, or_false] at ha
              rcases ha with rfl | rfl | rfl | rfl | rfl <;> rfl
    · intro h
      refine ⟨r1, r2, r3, rest, rfl, run3_allChecks c r1 r2 r3 ?_⟩
      intro hq
      rcases h with h | h | h
      · rw [hq.1] at h; cases h
      · exact (hq.2.2 _ h).2.2 rfl
      · exact hq.2.1 h

/-! ## after the abort: nothing, whatever the network does -/

/-- a stopped object (no reading routine) answers no network event: state and action list stay as they are -/
theorem conn_stopped_is_final (rep : Bool) (s : ConnState) (acts : List ConnAction)
    (h : s.reading = false) (evs : List NetEvent) : connFeed rep (s, acts) evs = (s, acts) := by
  induction evs with
  | nil => rfl
  | cons e es ih =>
    have hstep : connStep rep s e = (s, []) := by cases e <;> simp [connStep, h]
    simp [connFeed, hstep, ih]

/-- **The reading routine never dials, and never starts a key exchange, for an object without a key** - in
whatever state the server's EOF (or any other event) finds it: while the exchange is still waiting for a reply,
after `makeAuthKey` has failed but before `CreateConnection` has stopped the routines, afterwards. (The
interleaving "the server hangs up in the same breath as it lies" is this statement for a state with
`reading = true`.) The only actions such an event can cause are those of the exchange the APPLICATION started
receiving its next reply. -/
theorem reader_without_key_never_dials (s : ConnState) (e : NetEvent) (h : s.hs.encrypted = false) :
    ConnAction.dial ∉ (connStep true s e).2 ∧
    (∀ next, (connStep true s e).2 ≠ ConnAction.dial :: (hsStart next).2.map ConnAction.hs) := by
  have heof : ∀ dialOk nx, ConnAction.dial ∉ (onEof true s dialOk nx).2 := by
    intro dialOk nx
    simp only [onEof, h, Bool.not_false, Bool.and_self, if_true]
    split <;> simp
  have hno : ConnAction.dial ∉ (connStep true s e).2 := by
    cases e with
    | frame body =>
      simp only [connStep]
      split
      · simp
      · split <;> simp
    | eof dialOk nx =>
      simp only [connStep]
      split
      · simp
      · exact heof dialOk nx
    | readError dialOk nx =>
      simp only [connStep]
      split
      · simp
      · simpa using heof dialOk nx
  exact ⟨hno, fun next heq => hno (by rw [heq]; exact List.mem_cons_self)⟩

/-- **An exchange that ended with an error leaves nothing running.** For every configuration and every list
of replies on which `makeAuthKey` returns an error: `CreateConnection` (as repaired) returns with the reading
and keep-alive routines stopped, and EVERY sequence of later network events - frames, the server closing the
connection with a server that accepts or refuses the next dial, read errors - leaves state and action list
exactly as they were at the return. -/
theorem hs_abort_stops_everything (c : Cfg) (replies : List Bytes) (k : String)
    (h : (hsRun c replies).1.result = some (.err k)) (evs : List NetEvent) :
    connFeed true (createConnection true c replies) evs = createConnection true c replies ∧
    (createConnection true c replies).1.reading = false ∧
    (createConnection true c replies).1.pinging = false := by
  have hr : (createConnection true c replies).1.reading = false := by
    simp [createConnection, afterExchange, h]
  have hp : (createConnection true c replies).1.pinging = false := by
    simp [createConnection, afterExchange, h]
  exact ⟨conn_stopped_is_final true _ _ hr evs, hr, hp⟩

/-- **Nothing after the abort** (the clause "no session is stored and no encrypted request is EVER sent").
For every sane client configuration, every three reply bodies that do NOT satisfy `AllChecks` (whatever
follows them) and EVERY sequence of network events after `CreateConnection` has returned: the action list of
the object's whole life is the one dial of the application's `CreateConnection` followed by the actions of the
abandoned exchange - final: no later dial, frame or store - and among those there is no session store and no
encrypted send. -/
theorem hs_nothing_after_abort (c : Cfg) (hs : ClientSane c) (r1 r2 r3 : Bytes) (rest : List Bytes)
    (h : ¬ AllChecks c r1 r2 r3) (evs : List NetEvent) :
    (connFeed true (createConnection true c (r1 :: r2 :: r3 :: rest)) evs).2 =
        ConnAction.dial :: (hsRun c (r1 :: r2 :: r3 :: rest)).2.map ConnAction.hs ∧
    (connFeed true (createConnection true c (r1 :: r2 :: r3 :: rest)) evs).1.reading = false ∧
    (∀ a ∈ (hsRun c (r1 :: r2 :: r3 :: rest)).2, a.isSave = false ∧ a.isSendEnc = false) := by
  obtain ⟨k, hk⟩ := hs_abort_is_error c hs r1 r2 r3 rest h
  obtain ⟨hfin, hr, _⟩ := hs_abort_stops_everything c (r1 :: r2 :: r3 :: rest) k hk evs
  refine ⟨by rw [hfin]; rfl, by rw [hfin]; exact hr, fun a ha => ⟨?_, (hs_no_encrypted_before_success c _).1 a ha⟩⟩
  cases hsv : a.isSave with
  | false => rfl
  | true =>
    obtain ⟨q1, q2, q3, qs, heq, hall⟩ := hs_save_only_if_all_checks c _ ⟨a, ha, hsv⟩
    cases heq
    exact absurd hall h

/-- the hypotheses of `hs_abort_stops_everything` are met by the replies of the last non-vacuity example
below (any `ClientSane` configuration with replies failing `AllChecks`, by `hs_abort_is_error`); here, the
event sequence of the defect's witness: the server closes the connection and accepts the next dial -/
example (c next : Cfg) (hs : ClientSane c) (r1 r2 r3 : Bytes) (h : ¬ AllChecks c r1 r2 r3) :
    (connFeed true (createConnection true c [r1, r2, r3]) [.eof true next, .frame [], .readError true next]).2 =
      ConnAction.dial :: (hsRun c [r1, r2, r3]).2.map ConnAction.hs :=
  (hs_nothing_after_abort c hs r1 r2 r3 [] h _).1

/-- **The defect the repair removes** (witness on the machine with `repaired = false`, the code before
pending_fixes/C07-failed-exchange-stops-routines): after an exchange that ended with an error, the server's
EOF makes the object dial again on its own - and, holding no key, start a new exchange with fresh draws. -/
theorem orphan_reconnects_when_unrepaired (c next : Cfg) (replies : List Bytes) (k : String)
    (h : (hsRun c replies).1.result = some (.err k)) :
    ∃ tail, (connFeed false (createConnection false c replies) [.eof true next]).2 =
      (createConnection false c replies).2 ++ ConnAction.dial :: tail := by
  have hr : (createConnection false c replies).1.reading = true := by
    simp [createConnection, afterExchange, h]
  cases henc : (createConnection false c replies).1.hs.encrypted with
  | true => exact ⟨[], by simp [connFeed, connStep, onEof, hr, henc]⟩
  | false => exact ⟨(hsStart next).2.map .hs, by simp [connFeed, connStep, onEof, hr, henc]⟩

/-! ## non-vacuity of `ClientSane` and of the abort clause -/

/-- a concrete sane configuration: the thirteen descriptors as registry, a 20-byte "hash", zero
draws of the right lengths, a one-byte modulus — and replies that fail `AllChecks` (empty bodies) -/
example : ∃ c : Cfg, ClientSane c ∧ ¬ AllChecks c [] [] [] := by
  refine ⟨{ R := hsDescs,
            P := { H := fun x => beBytes x.length 20, E := fun _ b => b, D := fun _ b => b,
                   split := fun _ => none, gunzip := fun _ => none },
            key := ⟨255, 3⟩, d := ⟨zeros 16, zeros 32, zeros 256, zeros 16⟩ },
    ⟨by decide, by simp, by simp, by simp, by simp, by decide, by decide, by simp⟩, ?_⟩
  rintro ⟨v1, x1, v2, x2, ans, vi, xi, v3, x3, h1, _⟩
  simp [decodeReply, decodeUnknown, fuelFor, decRegistered, popUint, readN] at h1

end Mtv.Handshake
