/-
  C12 — stored sessions are read back intact and let a restarted client resume.
  Property theorems only. Model: Mtv/Session/{Base64,Json,Store}.lean (the code WITH the two
  repairs of D9); helper lemmas: Mtv/Lemmas/C12*.lean.
-/
import Mtv.Lemmas.C12Loader
import Mtv.Lemmas.C12Cut
import Mtv.Lemmas.C12Alias
import Mtv.Session.Start
namespace Mtv.Session

/-! ## encodings -/

/-- Clause "any byte values": standard base64 decoding undoes encoding, for every byte string. -/
theorem base64_roundtrip (bs : Bytes) : b64Decode (b64Encode bs) = some bs :=
  b64Decode_encode bs

example : b64Encode [0xfb, 0xff, 0x00, 0x41] = [0x2B, 0x2F, 0x38, 0x41, 0x51, 0x51, 0x3D, 0x3D] ∧
    b64Decode [0x2B, 0x2F, 0x38, 0x41, 0x51, 0x51, 0x3D, 0x3D] = some [0xfb, 0xff, 0x00, 0x41] := by decide

/-- Clause "all 2^64 salts": the eight little-endian bytes in base64 read back as the same `int64`. -/
theorem salt_roundtrip (v : Int) (h1 : -(2 ^ 63 : Int) ≤ v) (h2 : v < (2 ^ 63 : Int)) :
    decodeSalt (encodeSalt v) = .ok v :=
  decodeSalt_encodeSalt v h1 h2

example : decodeSalt (encodeSalt (-2)) = .ok (-2) ∧ saltBytes (-2) = [0xfe, 0xff, 0xff, 0xff, 0xff, 0xff, 0xff, 0xff] := by
  decide

/-! ## the file -/

/-- Clause "a stored session (auth key, key hash, salt, server address — any byte values) is read
back identically": for keys and hashes of any length and content, every `int64` salt and every host
name that is well-formed UTF-8 (JSON metacharacters, control characters, U+2028/9 included), what
`Load` makes of the bytes `Store` writes is the stored session. -/
theorem read_write_session (s : Session) (hhost : validUtf8 s.hostname = true) (hsalt : s.SaltInRange) :
    readSession (writeSession s) = .ok s :=
  readSession_writeSession s ⟨hhost, hsalt⟩

/-- a host name with a quote, a backslash, `<`, `&`, U+2028, a control character and a non-ASCII letter -/
def exampleSession : Session :=
  { key := [0, 255, 1], hash := [], salt := -1,
    hostname := [0x22, 0x5C, 0x3C, 0x26, 0xE2, 0x80, 0xA8, 0x01, 0xD0, 0xBF] }

example : validUtf8 exampleSession.hostname = true ∧ exampleSession.SaltInRange := by decide

/-- Clause "a file cut short at any byte is reported as an error, never as a different session":
every strict prefix (length 0 … n−1) of the written file is rejected, with a syntax error — for every
session, including those whose host name is not valid UTF-8. -/
theorem torn_is_error (s : Session) (p : Bytes) (hp : p <+: writeSession s) (hne : p ≠ writeSession s) :
    readSession p = .err "syntax" :=
  readSession_prefix s p hp hne

example : (writeSession exampleSession).take 30 <+: writeSession exampleSession ∧
    (writeSession exampleSession).take 30 ≠ writeSession exampleSession := by
  constructor
  · exact List.take_prefix _ _
  · intro h
    have := congrArg List.length h
    revert this; decide

/-- Clause "a file cut short at any byte — as a crash during writing leaves it — is reported as an error, never as a
different session", for the write itself and with ANY earlier content `old` at the path (an older session of the same
length, a shorter one, a longer one, anything): `Store` ends in `ioutil.WriteFile`, which empties the file and then
writes front to back (`cutWrite`), so a write of `s`'s file that stops after `k` bytes leaves a prefix of the NEW
content and nothing of the old one; `Load` rejects it with a syntax error when the write stopped before the end, and it
is the complete file when it did not. -/
theorem cut_store_is_prefix_of_new (old : Bytes) (s : Session) (k : Nat) :
    cutWrite old (writeSession s) k <+: writeSession s ∧
    (k < (writeSession s).length → readSession (cutWrite old (writeSession s) k) = .err "syntax") ∧
    ((writeSession s).length ≤ k → cutWrite old (writeSession s) k = writeSession s) :=
  ⟨cutWrite_prefix old _ k, readSession_cutWrite old s k, cutWrite_full old _ k⟩

example : cutWrite (writeSession cutOlder) (writeSession cutNewer) 34 = (writeSession cutNewer).take 34 ∧
    34 < (writeSession cutNewer).length := by decide

/-- … so after a cut store `Load` gives an error or the newer session — never the older one, never a third: the
classification of what is read back against the two stored sessions, for every earlier content, every good newer
session and every cut point (`k ≥ length` = the write got through). -/
theorem cut_store_error_or_new (older newer : Session) (hn : newer.Good) (old : Bytes) (k : Nat) :
    classifyCut older newer (cutWrite old (writeSession newer) k) =
      (if k < (writeSession newer).length then CutClass.error else CutClass.newer) :=
  classifyCut_cutWrite older newer hn old k

example : cutNewer.Good ∧ classifyCut cutOlder cutNewer (cutWrite (writeSession cutOlder) (writeSession cutNewer) 34) = .error := by
  decide +kernel

/-- Why the order "empty the file, then write" matters: a store that writes over the old file in place (no
truncation first) and is cut leaves new bytes followed by old ones, and there are two good sessions — the ordinary
update, only the salt differs — and a cut point inside the salt for which that mixture is a well-formed session file
holding a THIRD session (salt 61695 where 0 and −1 were stored): `Load` would return, without error, a session nobody
stored. The harness makes the same cut on the real `Store` with the operating system's file-size limit (`c12.cut`). -/
theorem overwrite_in_place_third_session :
    ∃ (older newer : Session) (k : Nat), older.Good ∧ newer.Good ∧
      classifyCut older newer (cutWriteInPlace (writeSession older) (writeSession newer) k) = .third ∧
      classifyCut older newer (cutWrite (writeSession older) (writeSession newer) k) = .error :=
  ⟨cutOlder, cutNewer, 34, by decide, by decide, by decide +kernel, by decide +kernel⟩

/-! ## the loader -/

/-- Clause "a missing file is reported as 'not found'", whatever the loader has cached. -/
theorem missing_is_notFound (l : Loader) (fs : FS) (h : fs.stat l.path = none) :
    (l.load fs).2 = .err "notfound" ∧ (l.load fs).1 = l := by
  unfold Loader.load; rw [h]; exact ⟨rfl, rfl⟩

example : (⟨fun _ => none⟩ : FS).stat (Loader.new [0x73]).path = none := rfl

/-- Clause "all store/load sequences on one path (last store wins)", for every behaviour of the
clock: `ops` is any history of `Store`s and `Load`s of one loader, each `Store` stamped by the
operating system with an arbitrary modification time (equal to earlier ones, smaller, larger). After
it, the same loader and a fresh loader both read the session stored last. Because every `Load` of a
history comes after a shorter history, this speaks about every `Load`. The loader may start with any
coherent cache (a new loader has an empty one). -/
theorem last_store_wins (p : Path) (l : Loader) (fs : FS) (hp : l.path = p) (hcoh : Coh l fs)
    (hready : Ready fs p) (ops : List Op) (hgood : ∀ s m, Op.store s m ∈ ops → s.Good)
    (s : Session) (hlast : lastStored none ops = some s) :
    let r := runOps Loader.store l fs ops
    (r.1.load r.2.1).2 = .ok s ∧ ((Loader.new p).load r.2.1).2 = .ok s := by
  intro r
  have hinv := runOps_inv p ops l fs none ⟨hp, hready, hcoh, fun _ h => by cases h⟩ hgood
  rw [hlast] at hinv
  exact inv_load p _ _ s hinv

/-- the witness history of D9(b): store, load, store again within the same timestamp, load -/
def staleHistory : List Op :=
  [.store { key := [1], hash := [], salt := 0, hostname := [] } 5, .load,
   .store { key := [2], hash := [], salt := 0, hostname := [] } 5, .load]

def exampleFS : FS := ⟨fun q => if q = [0x64, 0x2F] then some .dir else none⟩
def examplePath : Path := [0x64, 0x2F, 0x73]   -- "d/s"

example : Ready exampleFS examplePath ∧ lastStored none staleHistory = some { key := [2], hash := [], salt := 0, hostname := [] } ∧
    ∀ s m, Op.store s m ∈ staleHistory → s.Good := by
  refine ⟨⟨by decide, by decide⟩, rfl, ?_⟩
  intro s m h
  simp only [staleHistory, List.mem_cons, List.not_mem_nil, or_false] at h
  rcases h with h | h | h | h <;> cases h <;> decide

/-- D9(b) on the model of the code as it was (`Store` leaves the cache alone): the second `Load` of
the witness history returns the first session. The harness replays this history against the real
code on every run (corpus/c12.ops). -/
theorem stale_cache_before_repair :
    (runOps Loader.storeOld (Loader.new examplePath) exampleFS staleHistory).2.2 =
      [.ok { key := [1], hash := [], salt := 0, hostname := [] },
       .ok { key := [1], hash := [], salt := 0, hostname := [] }] := by
  decide +kernel

/-! ## path forms -/

/-- Clause "for every path whose directory exists" — relative, absolute, bare file name. The
directory `Store` checks is the text up to the last slash (a path `d/name`, relative or absolute
alike), and the current directory "." for a bare file name; when that directory exists (and the path
is not itself a directory) `Store` succeeds and the same and a fresh loader read the session back. -/
theorem path_forms (fs : FS) (s : Session) (m : Nat) (hs : s.Good) :
    (∀ (d name : Path), (∀ c ∈ name, c ≠ 0x2F) → dirOf (d ++ 0x2F :: name) = d ++ [0x2F]) ∧
    (∀ (name : Path), (∀ c ∈ name, c ≠ 0x2F) → dirOf name = dotPath) ∧
    (∀ p : Path, Ready fs p →
      let r := (Loader.new p).store fs s m
      r.2.2 = .ok () ∧ (r.1.load r.2.1).2 = .ok s ∧ ((Loader.new p).load r.2.1).2 = .ok s) := by
  refine ⟨?_, ?_, ?_⟩
  · intro d name h
    simp [dirOf, splitDir_slash d name h]
  · intro name h
    simp [dirOf, splitDir_noSlash name h]
  · intro p hr r
    have hst : r = _ := store_ok (Loader.new p) fs s m hr
    have hinv := runOps_inv p [.store s m] (Loader.new p) fs none
      ⟨rfl, hr, Coh.fresh p fs, fun _ h => by cases h⟩ (fun s' m' h => by simp at h; rw [h.1]; exact hs)
    have := inv_load p _ _ s hinv
    simp only [runOps] at this
    exact ⟨by rw [hst], this⟩

example : dirOf [0x73, 0x2E, 0x6A] = dotPath ∧ dirOf [0x2F, 0x77, 0x2F, 0x73] = [0x2F, 0x77, 0x2F] ∧
    dirOf [0x64, 0x2F, 0x73] = [0x64, 0x2F] := by decide

/-- D9(a) on the model of the code as it was: with a bare file name the unrepaired `Store` checks the
directory `""`, which no filesystem has, and fails although "." exists. -/
theorem bare_name_before_repair (s : Session) (m : Nat) (fs : FS) (h : fs.stat [] = none) :
    ((Loader.new [0x73, 0x2E, 0x6A]).storeOld fs s m).2.2 = .err "nodir" := by
  have : dirOfOld [0x73, 0x2E, 0x6A] = [] := by decide
  simp [Loader.storeOld, Loader.new, storeChecks, this, h]

/-! ## resume -/

/-- Clause "a client started on a store that holds a session resumes with that key, salt and address
without a new key exchange": `NewMTProto` on a store whose file holds `s` gives a client in the
encrypted state with `s`'s key, hash, salt and address (not the configured host), and
`CreateConnection` runs the key exchange only for a client that is not in that state. -/
theorem resume_skips_exchange (p : Path) (fs : FS) (s : Session) (m : Nat) (host : Bytes) (hs : s.Good)
    (hfile : fs.stat p = some (.file (writeSession s) m)) :
    ∃ c, newClient (Loader.new p) fs host = .ok c ∧ c.encrypted = true ∧ c.runsKeyExchange = false ∧
      c.authKey = s.key ∧ c.authKeyHash = s.hash ∧ c.serverSalt = s.salt ∧ c.addr = s.hostname := by
  have := load_written (Loader.new p) fs s m hs (Coh.fresh p fs) hfile
  unfold newClient
  rw [this]
  exact ⟨_, rfl, rfl, rfl, rfl, rfl, rfl, rfl⟩

/-- … and on an empty store the client starts blank and does run the key exchange; on a torn file
`NewMTProto` fails instead of starting with anything. -/
theorem fresh_or_torn_start (p : Path) (fs : FS) (host : Bytes) :
    (fs.stat p = none →
      ∃ c, newClient (Loader.new p) fs host = .ok c ∧ c.encrypted = false ∧ c.runsKeyExchange = true ∧ c.addr = host) ∧
    (∀ s q m, q <+: writeSession s → q ≠ writeSession s → fs.stat p = some (.file q m) →
      newClient (Loader.new p) fs host = .err "syntax") := by
  constructor
  · intro h
    have := (missing_is_notFound (Loader.new p) fs h).1
    unfold newClient
    rw [this]
    exact ⟨_, rfl, rfl, rfl, rfl⟩
  · intro s q m hq hne hst
    have hr := readSession_prefix s q hq hne
    have : ((Loader.new p).load fs).2 = .err "syntax" := by
      unfold Loader.load Loader.loadFile
      have hp : (Loader.new p).path = p := rfl
      rw [hp, hst]
      simp [Loader.new, hr]
    simp [newClient, this]

/-- The same start for EVERY implementation of the `SessionLoader` interface, whichever way it says "nothing
stored": a storage that returns a session gives a client that resumes with exactly it and runs no key exchange;
`(nil, nil)` and a not-found error both give a blank client on the configured host that DOES run the key exchange
(never an "encrypted" client without a key); any other error gives no client at all. For the file loader this is
`newClient`. -/
theorem start_on_any_storage (host : Bytes) :
    (∀ s, ∃ c, startClient (.session s) host = .ok c ∧ c.encrypted = true ∧ c.runsKeyExchange = false ∧
      c.authKey = s.key ∧ c.authKeyHash = s.hash ∧ c.serverSalt = s.salt ∧ c.addr = s.hostname) ∧
    (∀ r, r = Loaded.nothing ∨ r = Loaded.notFound →
      ∃ c, startClient r host = .ok c ∧ c.encrypted = false ∧ c.runsKeyExchange = true ∧ c.authKey = [] ∧ c.addr = host) ∧
    (∀ e, startClient (.failed e) host = .err e) ∧
    (∀ (l : Loader) (fs : FS) r, loadedOf (l.load fs).2 = some r → newClient l fs host = startClient r host) := by
  refine ⟨fun s => ⟨_, rfl, rfl, rfl, rfl, rfl, rfl, rfl⟩, ?_, fun _ => rfl, ?_⟩
  · intro r hr
    rcases hr with rfl | rfl <;> exact ⟨_, rfl, rfl, rfl, rfl, rfl⟩
  · intro l fs r h
    unfold newClient
    cases hl : (l.load fs).2 with
    | ok s => rw [hl] at h; simp [loadedOf] at h; subst h; rfl
    | err e =>
      rw [hl] at h
      by_cases he : e = "notfound"
      · subst he; simp [loadedOf] at h; subst h; rfl
      · have : loadedOf (.err e) = some (.failed e) := by
          unfold loadedOf
          split <;> simp_all
        rw [this] at h
        simp at h
        subst h
        simp only [startClient]
    | panic p => rw [hl] at h; simp [loadedOf] at h

example : startClient .nothing [0x68] = .ok (blankClient [0x68]) ∧ (blankClient [0x68]).runsKeyExchange = true := by decide

/-- Which storage a `Config` is served by ("if SessionStorage is nil, AuthKeyFile is required, otherwise it will be
ignored"): a given `SessionStorage` is the one used — for EVERY `AuthKeyFile`, empty or not, whatever is at that path —,
so the client resumes with what that storage holds and saves into it; without one the file loader on a non-empty
`AuthKeyFile`; with neither there is no client. -/
theorem given_storage_is_used {σ : Type} :
    (∀ (s : σ) (f : Path), chooseStorage (some s) f = .given s) ∧
    (∀ f : Path, f ≠ [] → chooseStorage (σ := σ) none f = .file f) ∧
    chooseStorage (σ := σ) none [] = .none := by
  refine ⟨fun _ _ => rfl, fun f hf => ?_, rfl⟩
  simp [chooseStorage, hf]

example : chooseStorage (some (7 : Nat)) [0x2f, 0x78] = .given 7 := (given_storage_is_used.1 7 _)

/-- The resume clause as the SERVER sees it: the first message a client started on a store holding `s` writes goes
to `s`'s address, is not plain text (no key exchange), carries `s`'s salt, and is labelled with the key id derived
from `s`'s KEY — `SHA1(key)[12:20]` for whatever hash function stands for SHA-1 — whatever the `hash` field of
the stored session contains (right, wrong, of another length, empty: `s.hash` does not occur in the conclusion). -/
theorem resume_on_the_wire (sha1 : Bytes → Bytes) (p : Path) (fs : FS) (s : Session) (m : Nat) (host : Bytes)
    (hs : s.Good) (hfile : fs.stat p = some (.file (writeSession s) m)) :
    ∃ c, newClient (Loader.new p) fs host = .ok c ∧
      c.firstMessage sha1 = { plain := false, keyId := ((sha1 s.key).drop 12).take 8, salt := s.salt, addr := s.hostname } := by
  obtain ⟨c, hc, he, _, hk, _, hsalt, ha⟩ := resume_skips_exchange p fs s m host hs hfile
  exact ⟨c, hc, by simp [Client.firstMessage, keyIdOf, he, hk, hsalt, ha]⟩

example : (Client.firstMessage (fun k => k ++ k ++ k ++ k ++ k)
      { encrypted := true, authKey := [1, 2, 3, 4], authKeyHash := [9, 9, 9, 9, 9, 9, 9, 9], serverSalt := -2, addr := [0x68] }).keyId
    = [1, 2, 3, 4, 1, 2, 3, 4] := by decide

/-! ## what the holders of session objects do afterwards (loader over a heap, `Mtv/Session/Alias.lean`) -/

/-- Clause "is read back identically by the same loader", with session OBJECTS: for EVERY history of `Store`s (any
modification times — equal ones included), `Load`s and writes by the holders of the objects the `Load`s handed out
(`AEv.mutate`: any handed-out object overwritten with anything, at any time), every `Load` of the loader that returns a
copy (the repaired code) returns the session stored last — nothing before the first `Store`. What a holder does with
its object plays no part. -/
theorem loads_unaffected_by_holders (evs : List AEv) : runA true AState.init evs = specA none evs :=
  runA_copy_spec evs AState.init AInv.init

example : runA true AState.init
    [.store exampleSession 5, .load, .mutate 0 { exampleSession with salt := 6 }, .load,
     .store { exampleSession with salt := 7 } 5, .mutate 1 exampleSession, .load] =
    [some exampleSession, some exampleSession, some { exampleSession with salt := 7 }] := by
  rw [loads_unaffected_by_holders]; rfl

/-- The `Load` as it was (the cache object itself is handed out): `Store s; g := Load(); *g = s'; Load()` — the second
`Load` returns `s'`, a session nobody stored, while the file still reads as `s`. The witness the harness replays:
`c12.seq abs S:0:01,02,3,68:5 L:0 MG:0:ks L:0 F H` (corpus). -/
theorem shared_cache_object_is_mutable :
    let s : Session := { key := [1], hash := [2], salt := 3, hostname := [0x68] }
    let s' : Session := { key := [0xfe], hash := [2], salt := -4, hostname := [0x68] }
    runA false AState.init [.store s 5, .load, .mutate 0 s', .load] = [some s, some s'] ∧
    specA none [.store s 5, .load, .mutate 0 s', .load] = [some s, some s] := by
  decide

end Mtv.Session
