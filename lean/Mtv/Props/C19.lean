/-
  C19 — Secrets used for key agreement come from the OS cryptographic random source.

  The property quantifies over *programs*: every code path from the entry points to a value that
  becomes nonce, new_nonce, the DH exponent b or the SRP exponent a. The model is therefore the
  call graph of the current working tree, `Mtv.Gen.CallGraph.model`, regenerated on every run.

  * `reach_sound`, `reach_complete` — for EVERY finite graph the closure function computes exactly
    the reflexive-transitive closure of the edge relation (no bound on the graph).
  * the theorems over the regenerated graph are stated with the inductive reachability relation
    `Reach` ("there is a path", all paths) and are discharged by evaluating the closure function in
    the kernel (`decide +kernel`) and transporting the result with `reach_sound/complete`.
-/
import Mtv.Lemmas.C19
import Mtv.Gen.CallGraph
namespace Mtv.Rand
open Mtv.Gen.CallGraph (model)

/-- **Closure, soundness** (every finite graph, every start node): whatever `reach` returns is
    connected to the start node by a path. -/
theorem reach_sound (g : Graph) (s y : Nat) (h : y ∈ reach g s) : Reach (succ g) s y :=
  (mem_reach_iff g s y).mp h

/-- **Closure, completeness** (every finite graph, every start node, every path of any length):
    every node connected to the start node by a path is returned by `reach`. -/
theorem reach_complete (g : Graph) (s y : Nat) (h : Reach (succ g) s y) : y ∈ reach g s :=
  (mem_reach_iff g s y).mpr h

/- non-trivial instance: a graph with a cycle, a node reached only through it, an unreachable node,
   and an edge to a node without a row -/
example : reach [[1], [2], [0, 4], [0], [7]] 0 = [7, 4, 2, 1, 0] := by decide
example : Reach (succ [[1], [2], [0, 4], [0], [7]]) 0 7 := reach_sound _ _ _ (by decide)
example : ¬ Reach (succ [[1], [2], [0, 4], [0], [7]]) 0 3 :=
  fun h => absurd (reach_complete _ _ _ h) (by decide)

/-- **Closure, in the form the kernel evaluates** (every graph given in chunks of `k` rows — the
    shape the translator emits — every start node): bit `y` of the mask `reachM2` computes is set
    exactly when a path leads from `s` to `y`. The mask version is proved equal to the list version,
    for which soundness and completeness are proved from the general closure theorem
    (`mem_bfs_iff`: any successor function with finitely many edge targets). -/
theorem reachM2_exact (k : Nat) (c : List Graph) (s y : Nat) :
    (reachM2 k c s).testBit y = true ↔ Reach (succ2 k c) s y :=
  testBit_reachM2 k c s y

/- the chunked presentation of the same example graph (2 rows per chunk) -/
example : (reachM2 2 [[[1], [2]], [[0, 4], [0]], [[7]]] 0).testBit 7 = true := by decide +kernel
example : ¬ Reach (succ2 2 [[[1], [2]], [[0, 4], [0]], [[7]]]) 0 3 :=
  fun h => absurd ((reachM2_exact _ _ _ _).mpr h) (by decide +kernel)

/-- **The emitted node set is closed** (clause "all paths": nothing the paths can visit is missing from
    the graph the other theorems evaluate): the translator succeeded; there is one adjacency row per
    node; roots (entries, generators, secrets) and every edge target are nodes, hence so is everything
    reachable from a root; classified nodes are standard-library leaves without out-edges; seeders are
    `math/rand` functions; entries, generators in use and secrets were found. -/
theorem graph_closed : model.WellFormed :=
  Model.closedB_spec model (by decide +kernel)

/- the hypotheses are inhabited: the graph has rows and roots -/
example : 0 < model.numNodes ∧ model.entries.length ≥ 3 ∧ model.usedGenerators.length ≥ 4 ∧ model.secrets.length = 4 := by
  decide +kernel

/-- **Secrets come from `crypto/rand`, never from `math/rand`** — for every generator function
    (`tl.RandomInt128`, `tl.RandomInt256`, `math.MakeGAB`, `srp.GetInputCheckPassword`, plus whatever
    the def-use extraction found feeding a nonce / new_nonce / g_b / SRP-A field) and for every
    per-secret slice (the calls from which the value stored into such a field is computed):
    no path from it ends in `math/rand.*`, `math/rand/v2.*` or `(*big.Int).Rand`, and some path ends
    in `crypto/rand.*`. All paths of the call graph, not the ones a run takes. -/
theorem secrets_from_crypto :
    ∀ g, g ∈ model.sources →
      (∀ y, Reach model.sc g y → y ∉ model.mathRand) ∧ (∃ y, Reach model.sc g y ∧ y ∈ model.cryptoRand) :=
  Model.allSourcesOK_spec model (by decide +kernel)

/- not vacuous: there are sources, and `math/rand` functions do occur in the graph (SplitPQ, session id) -/
example : model.sources.length ≥ 8 ∧ model.mathRand ≠ [] ∧ model.cryptoRand ≠ [] := by decide +kernel

/-- **No reproducible ingredient**: no generator or secret slice reaches a clock reader
    (`time.Now/Since/Until`, `os.Getpid`) or a `crypto/rand.Int/Prime` call whose reader argument is
    not `crypto/rand.Reader` itself. -/
theorem sources_pure :
    ∀ g, g ∈ model.sources → ∀ y, Reach model.sc g y → y ∉ model.clock ∧ y ∉ model.suspect :=
  Model.allSourcesPure_spec model (by decide +kernel)

/- not vacuous: clock readers do occur in the graph (message ids, SplitPQ's seed, the session id) -/
example : model.clock ≠ [] := by decide +kernel

/-- **`crypto/rand.Reader` is the OS source**: no function of the repository or of its dependencies
    assigns to a package variable of `crypto/rand`. -/
theorem crypto_reader_untouched : model.readerStores = [] := by decide +kernel

/-- **Creating a client does not reseed a generator the secrets depend on.** For every entry point
    `e` and every seeder `s` (`math/rand.Seed`, `(*rand.Rand).Seed`) reachable from it: no generator or
    secret slice reaches `s`, and none reaches any `math/rand` function at all — the state a seeder
    sets is read by nobody who produces a secret. (The session id is still drawn from the reseeded
    global generator; it is not a key-agreement secret.) -/
theorem no_reseed :
    ∀ e, e ∈ model.entries → ∀ s, s ∈ model.seeders → Reach model.sc e s →
      ∀ g, g ∈ model.sources → (¬ Reach model.sc g s) ∧ (∀ y, Reach model.sc g y → y ∉ model.mathRand) := by
  intro e _ s hs _ g hg
  have h := (secrets_from_crypto g hg).1
  exact ⟨fun hr => h s hr (graph_closed.seeders_math s hs), h⟩

/- The hypotheses are satisfiable together with the conclusion — a miniature of the repaired program:
   entry 0 calls the seeder 1 and the generator 2; the generator calls crypto/rand (3); node 4 is a
   math/rand consumer the entry also calls (the session id). -/
private def toy : Model :=
  { adj := [[[1, 2, 4], []], [[3], []], [[]]], chunk := 2, numNodes := 5, leaves := [1, 3, 4],
    cryptoRand := [3], mathRand := [1, 4], seeders := [1], clock := [], suspect := [], readerStores := [],
    entries := [0], generators := [2], usedGenerators := [2], secrets := [2], witnessPaths := [[0, 2]],
    seedPath := [0, 1], ok := true }
example : toy.closedB = true ∧ toy.allSourcesOK = true ∧ toy.seedPathOK = true := by decide +kernel
example : ∃ e, e ∈ toy.entries ∧ ∃ s, s ∈ toy.seeders ∧ Reach toy.sc e s :=
  Model.seedPathOK_spec toy (by decide +kernel) (by decide)
/- and a miniature of the unrepaired program fails the check: the generator reads math/rand -/
example : ({ toy with adj := [[[1, 2, 4], []], [[4], []], [[]]] } : Model).allSourcesOK = false := by
  decide +kernel

/-- the emitted seeder path is a path of the graph from an entry point to a seeder (so, as long as the
    translator finds one, the hypothesis of `no_reseed` is satisfiable: a client constructor does reseed
    `math/rand`) -/
theorem seed_path_valid :
    model.seedPath ≠ [] → ∃ e, e ∈ model.entries ∧ ∃ s, s ∈ model.seeders ∧ Reach model.sc e s :=
  Model.seedPathOK_spec model (by decide +kernel)

/-- **The generators are on the paths from the entry points**: every generator in use (found by the
    def-use extraction, or an anchor that is called) is reachable from an entry point — witness paths
    emitted by the translator, checked edge by edge. (`graph_closed` says there is at least one, and
    that they are among the generators `secrets_from_crypto` speaks about.) -/
theorem generators_reachable :
    ∀ g, g ∈ model.usedGenerators → ∃ e, e ∈ model.entries ∧ Reach model.sc e g :=
  Model.witnessesOK_spec model model.usedGenerators model.witnessPaths (by decide +kernel)

/- not vacuous: some generator is in use -/
example : model.usedGenerators ≠ [] := graph_closed.generators_ne

end Mtv.Rand
