/-
  C08 — transport framing delivers the same messages however TCP splits the stream.
  Property theorems only. Model: Mtv/Framing/Model.lean.
-/
import Mtv.Framing.Model
namespace Mtv.Framing

/-! ## every segmentation: the exact-count read sees only the concatenated stream -/

/-- `io.ReadFull` over any segmentation of the stream behaves as the read on the concatenation:
same bytes, an equivalent remainder, the same error class. Unbounded in the number and sizes of
segments. -/
theorem readFullSegs_spec (segs : List Bytes) : ∀ (n : Nat) (acc : Bytes),
    match readFullSegs n acc segs with
    | .ok (a, r) => n ≤ segs.flatten.length ∧ a = acc ++ segs.flatten.take n ∧
                    r.flatten = segs.flatten.drop n
    | .error e => segs.flatten.length < n ∧
                  e = (if acc = [] ∧ segs.flatten = [] then RErr.eof else RErr.uerr) := by
  induction segs with
  | nil =>
    intro n acc
    unfold readFullSegs
    by_cases h0 : n = 0
    · simp [h0]
    · by_cases ha : acc = [] <;> simp [h0, ha] <;> omega
  | cons seg rest ih =>
    intro n acc
    unfold readFullSegs
    by_cases h0 : n = 0
    · simp [h0]
    · simp only [h0, if_false]
      by_cases hle : seg.length ≤ n
      · simp only [hle, if_true]
        have := ih (n - seg.length) (acc ++ seg)
        revert this
        cases hrec : readFullSegs (n - seg.length) (acc ++ seg) rest with
        | ok p =>
          obtain ⟨a, r⟩ := p
          simp only [List.flatten_cons, List.length_append]
          intro ⟨h1, h2, h3⟩
          refine ⟨by omega, ?_, ?_⟩
          · rw [h2, List.take_append, List.take_of_length_le hle]; simp
          · rw [h3, List.drop_append, List.drop_of_length_le hle]; simp
        | error e =>
          simp only [List.flatten_cons, List.length_append]
          intro ⟨h1, h2⟩
          refine ⟨by omega, ?_⟩
          rw [h2]
          by_cases hs : seg = []
          · subst hs; simp
          · have : ¬ (acc ++ seg = []) := by simp [hs]
            simp [hs]
      · simp only [hle, if_false, List.flatten_cons, List.length_append]
        have hlt : n < seg.length := by omega
        refine ⟨by omega, ?_, ?_⟩
        · rw [List.take_append_of_le_length (by omega)]
        · simp [List.drop_append_of_le_length (Nat.le_of_lt hlt)]

/-- Corollary in the form the property states: two segmentations of the same byte stream give the
same bytes (or the same error), and equivalent remainders. -/
theorem readFull_chunking (n : Nat) (segs segs' : List Bytes)
    (h : segs.flatten = segs'.flatten) :
    match readFullSegs n [] segs, readFullSegs n [] segs' with
    | .ok (a, r), .ok (a', r') => a = a' ∧ r.flatten = r'.flatten
    | .error e, .error e' => e = e'
    | _, _ => False := by
  have h1 := readFullSegs_spec segs n []
  have h2 := readFullSegs_spec segs' n []
  revert h1 h2
  cases readFullSegs n [] segs <;> cases readFullSegs n [] segs' <;> simp only [h] <;>
    intro h1 h2
  · exact h1.2.trans h2.2.symm
  · omega
  · omega
  · rename_i p p'; exact ⟨h1.2.1.trans h2.2.1.symm, h1.2.2.trans h2.2.2.symm⟩

/-- and the segmented read *is* the flat read -/
theorem readFullSegs_eq_readN (n : Nat) (segs : List Bytes) :
    match readFullSegs n [] segs, readN n segs.flatten with
    | .ok (a, r), .ok (a', r') => a = a' ∧ r.flatten = r'
    | .error e, .error e' => e = e'
    | _, _ => False := by
  have h1 := readFullSegs_spec segs n []
  revert h1
  unfold readN
  generalize segs.flatten = fl
  cases readFullSegs n [] segs with
  | ok p =>
    obtain ⟨a, r⟩ := p
    simp only [List.nil_append]
    intro ⟨h1, h2, h3⟩
    by_cases h0 : n = 0
    · subst h0; simp [h2, h3]
    · have hne : fl ≠ [] := by
        intro h; rw [h] at h1; simp at h1; exact h0 h1
      have : ¬ fl.length < n := by omega
      simp [h0, hne, this, h2, h3]
  | error e =>
    simp only [true_and]
    intro ⟨h1, h2⟩
    have h0 : n ≠ 0 := by omega
    by_cases hne : fl = []
    · simp [h0, hne, h2]
    · simp [h0, hne, h1, h2]

/-! ## frame formats -/

/-- Abridged header: one byte = word count when below 127 words, else `0x7f` + 3 LE bytes. -/
theorem abridged_header (m : Bytes) (h4 : m.length % 4 = 0) :
    abridgedFrame m =
      if m.length / 4 < 127 then some (UInt8.ofNat (m.length / 4) :: m)
      else some (0x7f :: (leBytes (m.length / 4) 3 ++ m)) := by
  simp [abridgedFrame, h4]

theorem abridged_rejects_unaligned (m : Bytes) (h4 : m.length % 4 ≠ 0) :
    abridgedFrame m = none := by
  simp [abridgedFrame, h4]

/-- Intermediate header: four-byte little-endian byte length. -/
theorem intermediate_header (m : Bytes) :
    intermediateFrame m = leBytes m.length 4 ++ m := rfl

private theorem readN_append (m rest : Bytes) :
    readN m.length (m ++ rest) = .ok (m, rest) := by
  unfold readN
  by_cases h0 : m.length = 0
  · have : m = [] := List.eq_nil_of_length_eq_zero h0
    subst this; simp
  · have hne : m ≠ [] := by intro h; subst h; simp at h0
    simp [h0, hne]

/-- A frame written in a mode is read back as the same message, leaving exactly the rest of the
stream; for every message the format can carry. -/
theorem readFrame_frame (md : Mode) (m rest : Bytes) (hf : Fits md m) :
    ∃ f, frame md m = some f ∧ readFrame md (f ++ rest) = .ok (m, rest) := by
  cases md with
  | abridged =>
    obtain ⟨h4, hw⟩ := hf
    simp only [frame, abridgedFrame, h4]
    by_cases hs : m.length / 4 < 127
    · refine ⟨UInt8.ofNat (m.length / 4) :: m, by simp [hs], ?_⟩
      simp only [readFrame, abridgedRead, List.cons_append]
      have hb : (UInt8.ofNat (m.length / 4)).toNat = m.length / 4 := by
        simp [UInt8.toNat_ofNat']; omega
      have hne : ([UInt8.ofNat (m.length / 4)] : Bytes) ≠ [0x7f] := by
        intro h
        have h' : UInt8.ofNat (m.length / 4) = 0x7f := by simpa using h
        have := congrArg UInt8.toNat h'
        rw [hb] at this
        have h7 : (0x7f : UInt8).toNat = 127 := by decide
        omega
      have h1 : readN 1 (UInt8.ofNat (m.length / 4) :: (m ++ rest)) =
          .ok ([UInt8.ofNat (m.length / 4)], m ++ rest) := by simp [readN]
      rw [h1]
      simp only [hne, if_false, fromLE, hb]
      have : m.length / 4 * 4 = m.length := by omega
      simp only [Nat.mul_zero, Nat.add_zero, this]
      exact readN_append m rest
    · refine ⟨0x7f :: (leBytes (m.length / 4) 3 ++ m), by simp [hs], ?_⟩
      simp only [readFrame, abridgedRead, List.cons_append, List.append_assoc]
      have h1 : readN 1 (0x7f :: (leBytes (m.length / 4) 3 ++ (m ++ rest))) =
          .ok ([0x7f], leBytes (m.length / 4) 3 ++ (m ++ rest)) := by simp [readN]
      rw [h1]
      simp only [if_true]
      have h3 := readN_append (leBytes (m.length / 4) 3) (m ++ rest)
      rw [leBytes_length] at h3
      rw [h3]
      simp only [fromLE_leBytes 3 (m.length / 4) (by simpa using hw)]
      have : m.length / 4 * 4 = m.length := by omega
      rw [this]
      exact readN_append m rest
  | intermediate =>
    refine ⟨_, rfl, ?_⟩
    simp only [readFrame, intermediateRead, intermediateFrame, List.append_assoc]
    have h4 := readN_append (leBytes m.length 4) (m ++ rest)
    rw [leBytes_length] at h4
    rw [h4]
    simp only [fromLE_leBytes 4 m.length (by simpa [Fits] using hf)]
    exact readN_append m rest

/-- all frames of a list of messages, concatenated; `none` if some message does not fit the mode -/
def frames (md : Mode) : List Bytes → Option Bytes
  | [] => some []
  | m :: ms =>
    match frame md m, frames md ms with
    | some f, some r => some (f ++ r)
    | _, _ => none

/-- **Stream round trip.** Any sequence of messages the format can carry, written through a mode,
is read back as exactly that sequence, and the end of the stream is reported as end-of-stream, not
as a message. Unbounded number of messages and unbounded sizes. -/
theorem readAll_frames (md : Mode) (msgs : List Bytes) (hf : ∀ m ∈ msgs, Fits md m) :
    ∃ s, frames md msgs = some s ∧
      ∀ fuel, msgs.length < fuel → readAll md fuel s = (msgs, RErr.eof) := by
  induction msgs with
  | nil =>
    refine ⟨[], rfl, ?_⟩
    intro fuel hfu
    cases fuel with
    | zero => omega
    | succ k =>
      cases md <;> simp [readAll, readFrame, abridgedRead, intermediateRead, readN]
  | cons m ms ih =>
    have hm := hf m (by simp)
    obtain ⟨s, hs, hr⟩ := ih (fun x hx => hf x (by simp [hx]))
    obtain ⟨f, hfr, hrd⟩ := readFrame_frame md m s hm
    refine ⟨f ++ s, by simp [frames, hfr, hs], ?_⟩
    intro fuel hfu
    cases fuel with
    | zero => omega
    | succ k =>
      simp only [readAll, hrd]
      rw [hr k (by simpa using hfu)]

/-- The announcement a mode writes is recognised as that mode, and nothing else is consumed. -/
theorem detect_announce (md : Mode) (rest : Bytes) :
    detect (announce md ++ rest) = .ok (md, rest) := by
  cases md
  · simp [detect, announce, readN]
  · have : ¬ (rest.length + 1 + 1 + 1 < 3) := by omega
    simp [detect, announce, readN, this]

/-- The whole connection as the peer sees it: announcement, then the frames, under **any**
segmentation `segs` of that byte stream — expressed through `readFullSegs_eq_readN`, every
exact-count read of the reader equals the read on the concatenation. -/
theorem stream_roundtrip (md : Mode) (msgs : List Bytes) (hf : ∀ m ∈ msgs, Fits md m) :
    ∃ s, frames md msgs = some s ∧
      (match detect (announce md ++ s) with
       | .ok (md', s') => md' = md ∧ readAll md' (msgs.length + 1) s' = (msgs, RErr.eof)
       | .error _ => False) := by
  obtain ⟨s, hs, hr⟩ := readAll_frames md msgs hf
  refine ⟨s, hs, ?_⟩
  rw [detect_announce]
  exact ⟨rfl, hr _ (by omega)⟩

/-! ## error-code frames -/

/-- A four-byte frame is surfaced as the **signed** 32-bit little-endian integer it carries. -/
theorem errcode_signed (p : Bytes) (h : p.length = 4) :
    classify p = .code (toSigned 32 (fromLE p)) := by
  simp [classify, h]

/-- e.g. the frame `6c fe ff ff` is −404 -/
example : classify [0x6c, 0xfe, 0xff, 0xff] = .code (-404) := by decide

/-! ## non-vacuity: concrete instances of the hypotheses -/

example : Fits .abridged (zeros 508) ∧ Fits .abridged (zeros 512) ∧ Fits .intermediate (zeros 3) := by
  simp [Fits]
example : readAll .abridged 3 ((frames .abridged [[1,2,3,4], []]).getD []) = ([[1,2,3,4], []], .eof) := by
  decide

end Mtv.Framing
