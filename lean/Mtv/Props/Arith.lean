/-
  Arithmetic of the library AS WRITTEN (Mtv/Gen/Arith.lean: regenerated on every run from the working tree
  by harness/cmd/arithfacts — Go's operators over 64-bit two's-complement integers, `/` and `%` truncated,
  `>>` arithmetic) related to the hand-written models over `Nat` that the property theorems are about.
  Property theorems only; each is re-checked by the kernel against what the source says now:

    C10  generateMessageId_is_genId      utils.GenerateMessageId            = Mtv.Client.genId
    C05  encryptPaddedLen_is_padLen      aes_ige.Encrypt, buffer length     = n + Mtv.Envelope.padLen n
    C05  tempNeedToAdd_is_tempPadLen     EncryptMessageWithTempKeys padding = Mtv.Ige.tempPadLen
    C08  abridged_length_bytes           abridged WriteMsg b1 b2 b3         = Mtv.leBytes (len/4) 3
    C04  parityMod_is_mod4               msg.MsgID & 3                      = msg_id mod 4 (unsigned reading)
    C10  sendPacketMsgId_is_nextId       sendPacket's bump past lastMsgID   = Mtv.Client.nextId
    C10  seqNoContent_odd, seqNo_of_even serializePacket's seq_no           = counter | 1 (odd) / counter (even)

  Range hypotheses are the ranges in which the Go expression does not wrap; outside them the statements are
  false (witnesses below), which is why they are hypotheses and not defaults.
-/
import Mtv.Gen.Arith
import Mtv.Client.MsgId
import Mtv.Envelope.Model
import Mtv.Ige.Wrap
import Mtv.Framing.Model
namespace Mtv.Arith
open Mtv.Gen.Arith

/-! ### Go's signed operators on non-negative operands -/
theorem srem_nonneg (x y : BitVec 64) (hx : x.msb = false) (hy : y.msb = false) : x.srem y = x % y := by
  rw [BitVec.srem_eq, hx, hy]
theorem sdiv_nonneg (x y : BitVec 64) (hx : x.msb = false) (hy : y.msb = false) : x.sdiv y = x / y := by
  rw [BitVec.sdiv_eq, hx, hy]; rfl
theorem msb_ofNat (n : Nat) (h : n < 2 ^ 63) : (BitVec.ofNat 64 n).msb = false := by
  rw [BitVec.msb_eq_false_iff_two_mul_lt]; simp [BitVec.toNat_ofNat]; omega
theorem msb_of_lt (x : BitVec 64) (h : x.toNat < 2 ^ 63) : x.msb = false := by
  rw [BitVec.msb_eq_false_iff_two_mul_lt]; omega

/-- **C05** `ige.Encrypt` allocates `len(msg) + ((16-(len(msg)%16))&15)` bytes: the model's `padLen` -/
theorem encryptPaddedLen_is_padLen (n : Nat) (h : n < 2 ^ 62) :
    (encryptPaddedLen (BitVec.ofNat 64 n)).toNat = n + Mtv.Envelope.padLen n := by
  unfold encryptPaddedLen Mtv.Envelope.padLen
  rw [srem_nonneg _ _ (msb_ofNat n (by omega)) (by decide)]
  simp only [BitVec.toNat_add, BitVec.toNat_and, BitVec.toNat_sub, BitVec.toNat_umod, BitVec.toNat_ofNat]
  have h1 : n % 2 ^ 64 = n := Nat.mod_eq_of_lt (by omega)
  have : n % 16 < 16 := Nat.mod_lt _ (by decide)
  simp only [h1, Nat.reducePow, Nat.reduceMod]
  have h2 : (18446744073709551616 - n % 16 + 16) % 18446744073709551616 = 16 - n % 16 := by omega
  rw [h2]
  have h3 : (16 - n % 16) &&& 15 ≤ 15 := Nat.and_le_right
  omega

/-- the padded length is the next multiple of 16 (what `isCorrectData` then demands) -/
theorem encryptPaddedLen_aligned (n : Nat) (h : n < 2 ^ 62) :
    (encryptPaddedLen (BitVec.ofNat 64 n)).toNat % 16 = 0 ∧ (encryptPaddedLen (BitVec.ofNat 64 n)).toNat < n + 16 := by
  rw [encryptPaddedLen_is_padLen n h]
  unfold Mtv.Envelope.padLen
  have : n % 16 < 16 := Nat.mod_lt _ (by decide)
  have key : ∀ r, r < 16 → (16 - r) &&& 15 = (16 - r) % 16 := by decide
  rw [key _ this]
  omega
example : (encryptPaddedLen 100#64).toNat = 112 ∧ (encryptPaddedLen 112#64).toNat = 112 := by decide

/-- **C05** the key-exchange wrapper adds `(16 - (len(hash)+len(msg)) % 16) % 16` random bytes: `tempPadLen` -/
theorem tempNeedToAdd_is_tempPadLen (a b : Nat) (h : a + b < 2 ^ 62) :
    (tempNeedToAdd (BitVec.ofNat 64 a) (BitVec.ofNat 64 b)).toNat = Mtv.Ige.tempPadLen (a + b) := by
  unfold tempNeedToAdd Mtv.Ige.tempPadLen
  have e : BitVec.ofNat 64 a + BitVec.ofNat 64 b = BitVec.ofNat 64 (a + b) := by
    apply BitVec.eq_of_toNat_eq; simp [BitVec.toNat_add, BitVec.toNat_ofNat]
  simp only [e]
  rw [srem_nonneg _ _ (msb_ofNat (a + b) (by omega)) (by decide)]
  have hr : (BitVec.ofNat 64 (a + b) % 16#64).toNat = (a + b) % 16 := by
    simp only [BitVec.toNat_umod, BitVec.toNat_ofNat]
    have h1 : (a + b) % 2 ^ 64 = a + b := Nat.mod_eq_of_lt (by omega)
    simp [h1]
  have : (a + b) % 16 < 16 := Nat.mod_lt _ (by decide)
  have hs : (16#64 - BitVec.ofNat 64 (a + b) % 16#64).toNat = 16 - (a + b) % 16 := by
    simp only [BitVec.toNat_sub, hr]; simp; omega
  rw [srem_nonneg _ _ (msb_of_lt _ (by rw [hs]; omega)) (by decide)]
  simp only [BitVec.toNat_umod, hs]; simp
example : (tempNeedToAdd 20#64 12#64).toNat = 0 ∧ (tempNeedToAdd 20#64 13#64).toNat = 15 := by decide

/-- **C04** `msg.MsgID & 3` is the msg_id modulo 4 in the unsigned reading — also for ids with bit 63 set,
where Go's `%` would give a negative remainder: the parity test of the model (`mid % 4 ≠ 1 ∧ mid % 4 ≠ 3`) is the
code's `mod != 1 && mod != 3` -/
theorem parityMod_is_mod4 (x : BitVec 64) : (encryptedParityMod x).toNat = x.toNat % 4 := by
  unfold encryptedParityMod
  rw [BitVec.toNat_and]
  exact Nat.and_two_pow_sub_one_eq_mod x.toNat 2
example : (encryptedParityMod (-1#64)).toNat = 3 := by decide

/-- `x & -4` clears the two low bits (helper, stated over Nat) -/
theorem and_neg4 (m : Nat) (h : m < 2 ^ 64) : m &&& (2 ^ 64 - 4) = m / 4 * 4 := by
  apply Nat.eq_of_testBit_eq
  intro i
  have hK : (2:Nat) ^ 64 - 4 = 2 ^ 64 - (3 + 1) := by omega
  rw [Nat.testBit_and, hK, Nat.testBit_two_pow_sub_succ (by omega : 3 < 2 ^ 64)]
  have h3 : (3 : Nat) = 2 ^ 2 - 1 := by decide
  rw [h3, Nat.testBit_two_pow_sub_one]
  have hm : m / 4 * 4 = 2 ^ 2 * (m / 2 ^ 2) := by omega
  rw [hm, Nat.testBit_two_pow_mul, Nat.testBit_div_two_pow]
  by_cases h2 : i < 2
  · simp [h2]; omega
  · have e : i - 2 + 2 = i := by omega
    have e2 : 2 ≤ i := by omega
    simp [h2, e, e2]
    intro hb
    by_cases h64 : i < 64
    · exact h64
    · exfalso
      have := Nat.testBit_lt_two_pow (x := m) (i := i) (Nat.lt_of_lt_of_le h (Nat.pow_le_pow_right (by decide) (by omega)))
      simp [hb] at this

/-- **C10** `utils.GenerateMessageId` as written — `(seconds << 32) | (nanoseconds & -4)` with truncated `/` and `%`
on an int64 clock reading — is the model's `genId` (a multiple of four derived from the current time,
`genId_mult4`, `genId_time`, `genId_strict`) for every clock reading from the epoch to 2038-01-19 (2^31 seconds);
from then on `seconds << 32` reaches the sign bit: witness below -/
theorem generateMessageId_is_genId (ns : Nat) (h : ns < 2 ^ 31 * 1000000000) :
    (generateMessageId (BitVec.ofNat 64 ns)).toNat = Mtv.Client.genId ns := by
  unfold generateMessageId Mtv.Client.genId
  have hb : ((1000#64 * 1000#64) * 1000#64) = 1000000000#64 := by decide
  have hlt : ns < 2 ^ 63 := by omega
  have h1 : ns % 2 ^ 64 = ns := Nat.mod_eq_of_lt (by omega)
  try simp only [hb]
  rw [sdiv_nonneg _ _ (msb_ofNat ns hlt) (by decide), srem_nonneg _ _ (msb_ofNat ns hlt) (by decide)]
  have hs : (BitVec.ofNat 64 ns / 1000000000#64).toNat = ns / 1000000000 := by
    simp only [BitVec.toNat_udiv, BitVec.toNat_ofNat, h1]
  have hn : (BitVec.ofNat 64 ns % 1000000000#64).toNat = ns % 1000000000 := by
    simp only [BitVec.toNat_umod, BitVec.toNat_ofNat, h1]
  have hsec : ns / 1000000000 < 2 ^ 31 := by omega
  have hnano : ns % 1000000000 < 1000000000 := Nat.mod_lt _ (by decide)
  rw [BitVec.toNat_or, BitVec.toNat_shiftLeft, BitVec.toNat_and, hs, hn]
  have hneg : (-4#64).toNat = 2 ^ 64 - 4 := by decide
  rw [hneg, and_neg4 _ (by omega)]
  rw [Nat.shiftLeft_eq, Nat.mod_eq_of_lt (by omega)]
  have hlow : ns % 1000000000 / 4 * 4 < 2 ^ 32 := by omega
  rw [← Nat.shiftLeft_eq, ← Nat.shiftLeft_add_eq_or_of_lt hlow, Nat.shiftLeft_eq]
example : (generateMessageId 1700000000123456789#64).toNat = 1700000000 * 2 ^ 32 + 123456788 := by decide
/-- outside the range: at 2^31 seconds the int64 msg_id is negative (the sign bit is set), so the hypothesis is needed -/
theorem generateMessageId_after_2038_negative : (generateMessageId (BitVec.ofNat 64 (2 ^ 31 * 1000000000))).msb = true := by decide
/-- and a clock reading before the epoch does not give `genId` either (Go's `%` is negative there) -/
example : (generateMessageId (-1#64)).toNat ≠ Mtv.Client.genId 0 := by decide


/-- helper: `len(msg) / tl.WordLen` on a non-negative length -/
theorem words_eq (n : Nat) (h : n < 2 ^ 62) : (BitVec.sdiv (BitVec.ofNat 64 n) 4#64) = BitVec.ofNat 64 (n / 4) := by
  rw [sdiv_nonneg _ _ (msb_ofNat n (by omega)) (by decide)]
  apply BitVec.eq_of_toNat_eq
  have h1 : n % 2 ^ 64 = n := Nat.mod_eq_of_lt (by omega)
  have h2 : n / 4 % 2 ^ 64 = n / 4 := Nat.mod_eq_of_lt (by omega)
  simp only [BitVec.toNat_udiv, BitVec.toNat_ofNat, h1, h2]

/-- **C08** abridged `WriteMsg`: `msgLength := len(msg) / tl.WordLen` is the word count and the three bytes
`byte(msgLength), byte(msgLength >> 8), byte(msgLength >> 16)` of the long form are the model's `leBytes w 3`
(`abridgedFrame`) — for every length a Go slice can have -/
theorem abridged_length_bytes (n : Nat) (h : n < 2 ^ 62) :
    (abridgedWords (BitVec.ofNat 64 n)).toNat = n / 4 ∧
    [UInt8.ofNat (abridgedB1 (BitVec.ofNat 64 n)).toNat, UInt8.ofNat (abridgedB2 (BitVec.ofNat 64 n)).toNat,
     UInt8.ofNat (abridgedB3 (BitVec.ofNat 64 n)).toNat] = Mtv.leBytes (n / 4) 3 := by
  unfold abridgedWords abridgedB1 abridgedB2 abridgedB3
  simp only [words_eq n h]
  have hw : n / 4 < 2 ^ 63 := by omega
  have h2 : n / 4 % 2 ^ 64 = n / 4 := Nat.mod_eq_of_lt (by omega)
  rw [BitVec.sshiftRight_eq_of_msb_false (msb_ofNat _ hw), BitVec.sshiftRight_eq_of_msb_false (msb_ofNat _ hw)]
  refine ⟨by simp only [BitVec.toNat_ofNat, h2], ?_⟩
  simp only [Mtv.leBytes, BitVec.toNat_setWidth, BitVec.toNat_ushiftRight, BitVec.toNat_ofNat, h2, Nat.shiftRight_eq_div_pow]
  have e : n / 4 / 2 ^ 16 = n / 4 / 256 / 256 := by rw [Nat.div_div_eq_div_mul (n / 4) 256 256]
  simp [e]
example : (abridgedB1 1048576#64, abridgedB2 1048576#64, abridgedB3 1048576#64) = (0#8, 0#8, 4#8) := by decide


/-- Go's signed `<=` on non-negative operands -/
theorem sle_nonneg (x y : BitVec 64) (hx : x.toNat < 2 ^ 63) (hy : y.toNat < 2 ^ 63) :
    BitVec.sle x y = decide (x.toNat ≤ y.toNat) := by
  have e1 : x.toInt = x.toNat := by rw [BitVec.toInt_eq_toNat_cond]; split <;> omega
  have e2 : y.toInt = y.toNat := by rw [BitVec.toInt_eq_toNat_cond]; split <;> omega
  simp only [BitVec.sle, e1, e2]; congr 1; simp

/-- **C10** the msg_id `sendPacket` writes — `msgID = utils.GenerateMessageId(); if msgID <= m.lastMsgID { msgID = m.lastMsgID + 4 }`,
translated from network.go with the clock's id as a parameter — is the model's `nextId last ns` (`nextId_increasing`:
strictly above the last one written, a multiple of four) -/
theorem sendPacketMsgId_is_nextId (last ns : Nat) (hl : last + 4 < 2 ^ 63) (h : ns < 2 ^ 31 * 1000000000) :
    (sendPacketMsgId (generateMessageId (BitVec.ofNat 64 ns)) (BitVec.ofNat 64 last)).toNat = Mtv.Client.nextId last ns := by
  have hg := generateMessageId_is_genId ns h
  have hglt : Mtv.Client.genId ns < 2 ^ 63 := by unfold Mtv.Client.genId; omega
  have hl' : (BitVec.ofNat 64 last).toNat = last := by simp [BitVec.toNat_ofNat]; omega
  unfold sendPacketMsgId Mtv.Client.nextId
  rw [sle_nonneg _ _ (by rw [hg]; exact hglt) (by rw [hl']; omega), hg, hl']
  by_cases hc : Mtv.Client.genId ns ≤ last
  · simp only [hc, decide_true, if_true]
    simp [BitVec.toNat_add, BitVec.toNat_ofNat]; omega
  · simp only [hc, decide_false, if_false]; exact hg

/-- **C10** `serializePacket` writes `client.GetSeqNo() | 1` for a message that requires acknowledgement: odd for every
32-bit counter value -/
theorem seqNoContent_odd (s : BitVec 32) : (seqNoContent s).toNat % 2 = 1 := by
  unfold seqNoContent
  rw [BitVec.toNat_or]
  have : (s.toNat ||| (1#32).toNat).testBit 0 = true := by simp [Nat.testBit_or]
  rw [Nat.testBit_zero] at this
  simpa using this

/-- **C10** while the counter is even (it starts at 0 and `sendPacket` adds 2 per encrypted message) the two seq_nos written
are counter + 1 (content-related) and the counter itself (acknowledgements): the odd / even, non-decreasing numbers of
the machine's `send` / `ack` events -/
theorem seqNo_of_even (s : BitVec 32) (he : s.toNat % 2 = 0) :
    (seqNoContent s).toNat = s.toNat + 1 ∧ (seqNoService s).toNat = s.toNat := by
  refine ⟨?_, rfl⟩
  unfold seqNoContent
  rw [BitVec.toNat_or]
  have h2 : s.toNat = (s.toNat / 2) <<< 1 := by rw [Nat.shiftLeft_eq]; omega
  have h1 : (1#32).toNat = 1 := by decide
  rw [h1, h2, ← Nat.shiftLeft_add_eq_or_of_lt (by decide : 1 < 2 ^ 1)]
example : (seqNoContent 6#32, seqNoService 6#32) = (7#32, 6#32) := by decide
example : (sendPacketMsgId 1000#64 1000#64, sendPacketMsgId 1000#64 900#64) = (1004#64, 1000#64) := by decide


end Mtv.Arith
