/-
  C11 — salt rotation: pending requests are retried, nothing stalls, the salt is saved.
  Property theorems only. Model: Mtv/Client/Machine.lean (`saltStep`, `newsStep`, `send`, `store`).
-/
import Mtv.Lemmas.ClientInv2
namespace Mtv.Client

/-- **the client adopts the new salt and owes a save of it** — at any moment, whatever is pending -/
theorem salt_adopted (s : St) (bad : Nat) (ns : Int) :
    (saltStep s bad ns).salt = ns ∧ ns ∈ (saltStep s bad ns).owedStore ∧
    (saltStep s bad ns).adopted = s.adopted ++ [ns] := by
  simp only [saltStep]
  split <;> simp

theorem new_session_salt_adopted (s : St) (ns : Int) :
    (newsStep s ns).salt = ns ∧ ns ∈ (newsStep s ns).owedStore ∧ (newsStep s ns).adopted = s.adopted ++ [ns] := by
  simp [newsStep]

/-- **every adopted salt is handed to the session store, in order**: what has been handed over (written, or
refused by the store — an environment fault, `storeLost`) plus what is still owed is exactly the sequence of
salts adopted; a quiescent client has handed them all over; and when the store refused nothing, what is
written is exactly what was adopted -/
theorem salts_saved (s : St) (h : Reachable s) :
    s.storeLog.reverse ++ s.owedStore = s.adopted ∧
    (quiescent s = true → s.storeLog.reverse = s.adopted) ∧
    (quiescent s = true → s.failedStore = [] → s.stored.reverse = s.adopted) := by
  have hs := storeOk_reachable s h
  unfold StoreOk at hs
  have hqe : quiescent s = true → s.storeLog.reverse = s.adopted := by
    intro hq
    unfold quiescent at hq
    simp only [Bool.and_eq_true, List.isEmpty_iff] at hq
    have h1 := hs.1
    rw [hq.1.2] at h1
    simpa using h1
  exact ⟨hs.1, hqe, fun hq hf => by rw [hs.2 hf]; exact hqe hq⟩

/-- a store that refuses a salt does not stop the rotation: the salt is adopted, the refusal recorded, the
rejected request repeated under the new salt -/
example : (run {} [.send 0 1000 1 5, .recv 70 0 (.salt 1000 6), .storeLost 6, .send 0 1004 3 6,
    .recv 75 1 (.res 1004 "a"), .deliver 0 "a", .ack 1008 4 [75]]).map
    (fun s => (s.salt, s.stored, s.failedStore, s.adopted, quiescent s)) = some (6, [], [6], [6], true) := by decide +kernel

/-- **exactly the rejected request is re-sent**: bad_server_salt naming a registered request `bad` of
caller `c` removes that entry, tells `c` (and nobody else) to repeat, and leaves every other registered
request as it is -/
theorem resend_exactly_rejected (s : St) (bad c : Nat) (ns : Int) (h : lookupPending s.pending bad = some c) :
    (saltStep s bad ns).owedResend = s.owedResend ++ [c] ∧
    (saltStep s bad ns).pending = erasePending s.pending bad ∧
    (∀ e ∈ s.pending, e.1 ≠ bad → e ∈ (saltStep s bad ns).pending) ∧
    (saltStep s bad ns).owedDeliver = s.owedDeliver := by
  simp only [saltStep, h]
  refine ⟨trivial, trivial, ?_, trivial⟩
  intro e he hne
  simp [erasePending, he, hne]

/-- a bad_server_salt naming nothing that is registered (an acknowledgement, an unknown id) makes nobody
repeat anything -/
theorem salt_for_unknown_id (s : St) (bad : Nat) (ns : Int) (h : lookupPending s.pending bad = none) :
    (saltStep s bad ns).owedResend = s.owedResend ∧ (saltStep s bad ns).pending = s.pending := by
  simp [saltStep, h]

/-- **a request the server accepted is never sent a second time**: a caller whose request is registered
(written, neither answered nor rejected) cannot write another one -/
theorem accepted_not_resent (s : St) (h : Reachable s) (c id : Nat) (hp : (id, c) ∈ s.pending)
    (id' seq : Nat) (salt : Int) : step s (.send c id' seq salt) = none := by
  have hone := callerOnce_reachable s h c
  unfold inProgress at hone
  have h1 : 1 ≤ cntP c s.pending := cntP_pos_of_mem hp
  have hnotR : c ∉ s.owedResend := by
    intro hin
    have := cntR_pos_of_mem hin
    omega
  have hany : (s.pending.any fun e => e.2 == c) = true := by
    simp only [List.any_eq_true]
    exact ⟨(id, c), hp, by simp⟩
  have : mayCall s c = false := by
    unfold mayCall
    simp [hnotR, hany]
  simp [step, this]

/-- a repeated request carries the new salt -/
theorem resend_uses_new_salt (s s' : St) (c id seq : Nat) (salt : Int)
    (hr : c ∈ s.owedResend) (h : step s (.send c id seq salt) = some s') : salt = s.salt := by
  obtain ⟨_, _, _, _, _, hsalt, _⟩ := step_send_some h
  exact hsalt (by simpa using hr)

/-- **nothing stalls**: the receive loop can always process the next server message, and everything the
client owes can be carried out — the caller told to repeat can write (with any fresh id), the owed
value can be returned, the owed salt stored -/
theorem never_stalls (s : St) :
    (∀ mid seq m, (step s (.recv mid seq m)).isSome = true) ∧
    (∀ c, c ∈ s.owedResend → ∀ id seq, id % 4 = 0 → s.lastId < id → seq % 2 = 1 → s.lastSeq ≤ seq →
        (step s (.send c id seq s.salt)).isSome = true) ∧
    (∀ c rid v rest, s.owedDeliver = (c, rid, v) :: rest → (step s (.deliver c v)).isSome = true) ∧
    (∀ x rest, s.owedStore = x :: rest → (step s (.store x)).isSome = true) := by
  refine ⟨fun _ _ _ => rfl, ?_, ?_, ?_⟩
  · intro c hc id seq h1 h2 h3 h4
    have : mayCall s c = true := by unfold mayCall; simp [hc]
    simp [step, h1, h2, h3, h4, this]
  · intro c rid v rest hd
    simp [step, hd]
  · intro x rest hx
    simp [step, hx]

/-- every caller still receives its own answer after a rotation: the repeated request is registered
again and a result naming its new id is handed to the same caller -/
theorem answered_after_rotation (s s1 : St) (c id seq : Nat) (v : String)
    (h : step s (.send c id seq s.salt) = some s1) :
    (c, id, v) ∈ (resStep s1 id v).owedDeliver := by
  obtain ⟨_, _, _, _, _, _, rfl⟩ := step_send_some h
  simp [resStep, lookupPending]

/-! ## non-vacuity: two pending requests, the first rejected twice in a row, the second untouched -/
example :
    (run {} [.send 0 1000 1 5, .send 1 1004 3 5,
             .recv 70 0 (.salt 1000 6), .store 6, .send 0 1008 5 6,
             .recv 74 0 (.salt 1008 7), .store 7, .send 0 1012 7 7,
             .recv 79 1 (.res 1004 "b"), .recv 83 3 (.res 1012 "a"),
             .deliver 1 "b", .deliver 0 "a", .ack 1016 8 [79], .ack 1020 10 [83]]).map
      (fun s => (s.stored, s.rejected, quiescent s)) = some ([7, 6], [1008, 1000], true) := by decide +kernel
/-- the accepted request of caller 1 cannot be written again -/
example : (run {} [.send 0 1000 1 5, .send 1 1004 3 5, .recv 70 0 (.salt 1000 6), .send 1 1008 5 6]).isNone = true := by
  decide +kernel

end Mtv.Client
