import Mtv.Tlgen.Emit
namespace Mtv.Tlgen
end Mtv.Tlgen
