/-
  C14 — "Schema parser and code generator translate any schema faithfully, reproducibly".

  The theorems are about the model of internal/cmd/tlgen (Mtv/Tlgen/*.lean: cursor, parser with the
  repairs of /verif/pending_fixes/C14-parser-*.patch, classification, emitted declarations), which
  the check ties to the working tree on every run (real `tlparser.ParseSchema`, `gen.NewGenerator` and
  the `tlgen` binary against the compiled model on the same schemas). Clauses of the property:

    (P1) the parser extracts exactly the declared names, ids, parameters (order, type, vector and flag
         markers) and result types, for any schema of the documented subset — `parse_render`,
         `parse_document`, `parse_structure`, `parse_definition`; it terminates on every text —
         `parse_terminates`; the cursor model is cursor.go's index arithmetic — `cursor_index_arithmetic`;
    (P2) the generated package declares those constructors with those ids, field layouts and flag
         positions — classification and declarations: `classify_spec`, `classify_groups`,
         `ctor_name_rule`, `emit_ids`, `emit_fields`, `emit_flag_index`; that the *real* generator's files are this is translation
         validation by the harness (observed, not proved), as is "compiles";
    (P3) reproducible output, and the shipped input schema is accepted — observed by the harness.

  Helper lemmas are in Mtv/Lemmas/C14*.lean.
-/
import Mtv.Lemmas.C14Example
import Mtv.Lemmas.C14Progress
import Mtv.Lemmas.C14Emit
namespace Mtv.Tlgen

/-! ## (P1) the parser -/

/-- **Main theorem (P1).** Printing any well-formed schema — every constructor and function with its
name, id, parameters in order with type, `Vector<…>` and `flags.N?` markers, result (plain or
`Vector<…>`), both sections, and all four kinds of annotations (`@type`, `@constructor`, `@method`,
`@param`) — and parsing the text gives the schema back: the same constructors, the same functions
(field by field, comments included) and the same type comments (a Go map: compared by lookup). -/
theorem parse_render (a : Schema) (wf : WFAst a) :
    ∃ s, parseSchema (render a) = .ok s ∧ s.objects = a.objects ∧ s.methods = a.methods ∧
      ∀ t, mapGet s.typeComments t = mapGet a.typeComments t := by
  obtain ⟨st, hden, ho, hm, htc⟩ := denote_toItems a wf
  exact ⟨st.result, parseSchema_renderItems a.toItems (wf_toItems a wf) st hden, ho, hm, htc⟩

/-- the hypothesis holds for the example schema (`Mtv/Lemmas/C14Example.lean`: an enum constructor with a
type comment, a struct with `flags:#`, `flags.5?true` and `Vector<long>` fields and `@param` comments,
a namespaced function returning `Vector<PeerSettings>`), and the conclusion can be watched by evaluation -/
example : ∃ s, parseSchema (render exSchema) = .ok s ∧ s.objects = exSchema.objects ∧
    s.methods = exSchema.methods ∧ ∀ t, mapGet s.typeComments t = mapGet exSchema.typeComments t :=
  parse_render exSchema exSchema_wf

example : (parseSchema (render exSchema)).toOption = some exSchema := by decide +kernel

/-- what a printed schema looks like -/
example : String.ofList (render { objects := [exSettings], methods := [], typeComments := [] }) =
    "// @constructor\n// @param flags\n// @param silent no sound\n// @param user_ids\n" ++
    "peerSettings#733f2961 flags:# silent:flags.5?true user_ids:Vector<long> = PeerSettings;\n---functions---\n" := by
  decide +kernel

example : (parseSchema (render exSchema)).toOption = some exSchema := by decide +kernel

/-- **(P1), any layout.** A document is a list of lines — section markers, empty lines, comments
(plain or annotations, any text without a line end), definitions — in any order. The parser consumes
its text line by line: its result is the loop state `denoteItems` assigns to the lines, i.e. every
definition is read back exactly (`PState.define` receives the very `Def` that was printed) and every
comment line reaches the annotation logic with exactly its text. -/
theorem parse_document (items : List Item) (wf : WFItems items) (st : PState)
    (h : denoteItems items {} = some st) :
    parseSchema (renderItems items) = .ok st.result :=
  parseSchema_renderItems items wf st h

example : ∃ st, denoteItems exDoc {} = some st ∧ parseSchema (renderItems exDoc) = .ok st.result := by
  obtain ⟨st, h, -, -⟩ := denoteItems_structure exDoc exDoc_wf {} exDoc_noVector
  exact ⟨st, h, parse_document exDoc exDoc_wf st h⟩

/-- **(P1), structure.** Whatever comments, annotations, empty lines and section switches a document
contains, the parser extracts exactly the declared definitions: the constructors are the definitions
of the types sections, the functions those of the functions sections, in order, each with its name,
id, parameters (order, type, vector marker, flag marker and bit) and result; comments can only affect
the `comment` fields. (Hypothesis `NoVectorTypes`: no constructor is declared with a `Vector<…>`
result — the parser refuses such a schema with "type can't be a vector".) -/
theorem parse_structure (items : List Item) (wf : WFItems items) (hv : NoVectorTypes false items) :
    ∃ s, parseSchema (renderItems items) = .ok s ∧
      s.objects.map Obj.strip = declaredObjects false items ∧
      s.methods.map Method.strip = declaredMethods false items := by
  obtain ⟨st, hden, ho, hm⟩ := denoteItems_structure items wf {} hv
  refine ⟨st.result, parseSchema_renderItems items wf st hden, ?_, ?_⟩
  · simpa [PState.result] using ho
  · simpa [PState.result] using hm

/-- the example document (function first, plain comments, an unknown annotation, an empty line) declares
the two constructors and the function of the example schema -/
example : ∃ s, parseSchema (renderItems exDoc) = .ok s ∧
    s.objects.map Obj.strip = [exJpeg.toDef.toObj, exSettings.toDef.toObj] ∧
    s.methods.map Method.strip = [exGetPeers.toDef.toMethod] :=
  parse_structure exDoc exDoc_wf exDoc_noVector

/-- **(P1), one definition.** `parseDefinition` on a printed definition returns that definition and
leaves the cursor behind its `;` — for any well-formed definition, anything before it (`rev`) and
anything after it (`x :: tl`). -/
theorem parse_definition (d : Def) (wf : WFDef d) (rev : Str) (x : Char) (tl : Str) :
    parseDefinition (Cursor.atRem rev (renderDef d ++ x :: tl)) =
      .ok d (Cursor.atRem ((renderDef d).reverse ++ rev) (x :: tl)) :=
  parseDefinition_render d wf rev x tl

example : parseDefinition (Cursor.atRem [] (renderDef exSettings.toDef ++ ['\n'])) =
    .ok exSettings.toDef (Cursor.atRem ((renderDef exSettings.toDef).reverse ++ []) ['\n']) :=
  parse_definition exSettings.toDef exSettings_wf [] '\n' []

/-- **The cursor model is cursor.go's index arithmetic.** For the zipper representation
(`pos = rev.length`, `source = rev.reverse ++ cur :: rest`): `next()` fails exactly at `pos = len-1`
and otherwise increments `pos`; `Unread(n)` gives `max(pos-n, 0)`; `Skip(n)` gives
`min(pos+n, len-1)`; none of them changes the source. -/
theorem cursor_index_arithmetic (c : Cursor) (n : Nat) :
    (c.next = none ↔ c.pos + 1 = c.source.length) ∧
    (∀ c', c.next = some c' → c'.pos = c.pos + 1 ∧ c'.source = c.source) ∧
    ((c.unread n).pos = c.pos - n ∧ (c.unread n).source = c.source) ∧
    ((c.skip n).pos = min (c.pos + n) (c.source.length - 1) ∧ (c.skip n).source = c.source) :=
  ⟨Cursor.next_none_iff c, fun c' h => Cursor.next_pos c c' h, Cursor.unread_pos n c, Cursor.skip_pos n c⟩

/-- `Skip(5)` two runes before the end stops on the last rune; `Unread(9)` from there stops at 0 -/
example : ((Cursor.atRem [] (cs!"ab;\n")).skip 1 |>.skip 5).pos = 3 ∧
    (((Cursor.atRem [] (cs!"ab;\n")).skip 3).unread 9).pos = 0 := by decide +kernel

/-- **Termination, for every input** (not only for well-formed schemas). The model runs the two loops
of the parser on fuel (`2·len+2` iterations of the main loop — more would repeat a loop-head state —
and `runes left + 2` for the parameter loop) and answers `loop` when it runs out. It never does: every
cursor operation moves forward or not at all, the one backward move (`Unread` after the look-ahead
word of `parseDefinition`) returns exactly to where the look-ahead started, and every repeated
iteration has consumed at least one rune. This holds for the *repaired* cursor and parser: before
/verif/pending_fixes/C14-1-cursor-isnext-restore.patch and C14-3-parser-unread-runes.patch the Go code
did not terminate on `"//\n-"` (once plain comments are accepted) and on `"true#;€€€ "`; both texts are
replayed against the real code on every run (corpus/c14.ops). -/
theorem parse_terminates (src : Str) : parseSchema src ≠ .error .loop :=
  parseSchema_never_loops src

/-- the two former witnesses of non-termination now parse (to the empty schema) -/
example : (parseSchema (cs!"//\n-")).toOption = some { objects := [], methods := [], typeComments := [] } ∧
    (parseSchema (cs!"true#;€€€ ")).toOption = some { objects := [], methods := [], typeComments := [] } := by
  decide +kernel

/-! ## (P2) classification and declarations -/

/-- **Classification rule of `createInternalSchema`.** For a type `t` and its constructors in the
schema (`ctors = objs.filter (·.iface = t)`, in schema order): `t` is listed as an *enum* iff it has a constructor and none has a
parameter; as a *single-constructor struct* iff it has exactly one constructor and that one has a
parameter; as an *interface with one struct per constructor* iff it has several constructors and
some has a parameter — and in each class it is listed with exactly its constructors' names in order. -/
theorem classify_spec (objs : List Obj) (t : Str) (names : List Str) (ctors : List Obj)
    (hctors : ctors = objs.filter (·.iface = t)) :
    ((t, names) ∈ (classify objs).enums ↔
        ctors ≠ [] ∧ names = ctors.map (·.name) ∧ ∀ o ∈ ctors, o.params = []) ∧
    ((t, names) ∈ (classify objs).singles ↔
        names = ctors.map (·.name) ∧ ctors.length = 1 ∧ ∃ o ∈ ctors, o.params ≠ []) ∧
    ((t, names) ∈ (classify objs).types ↔
        names = ctors.map (·.name) ∧ 2 ≤ ctors.length ∧ ∃ o ∈ ctors, o.params ≠ []) := by
  have he := mem_classify objs .enum t names
  have hs := mem_classify objs .single t names
  have hi := mem_classify objs .iface t names
  simp only at he hs hi
  rw [kindOf_enum_iff, ← hctors] at he
  rw [kindOf_single_iff, ← hctors] at hs
  rw [kindOf_iface_iff, ← hctors] at hi
  refine ⟨he, ?_, ?_⟩
  · rw [hs]
    constructor
    · rintro ⟨-, h2, h3, h4⟩; exact ⟨h2, h4, h3⟩
    · rintro ⟨h2, h4, h3⟩
      exact ⟨by intro e; simp [e] at h4, h2, h3, h4⟩
  · rw [hi]
    constructor
    · rintro ⟨h1, h2, h3, h4⟩
      refine ⟨h2, ?_, h3⟩
      have : ctors.length ≠ 0 := by
        intro e; exact h1 (List.length_eq_zero_iff.mp e)
      omega
    · rintro ⟨h2, h4, h3⟩
      exact ⟨by intro e; simp [e] at h4, h2, h3, by omega⟩

/-- in the example schema `storage.FileType` (one constructor, no parameter) is an enum and
`PeerSettings` (one constructor with parameters) a single-constructor struct -/
example : (cs!"storage.FileType", [cs!"storage.fileJpeg"]) ∈ (classify exSchema.objects).enums ∧
    (cs!"PeerSettings", [cs!"peerSettings"]) ∈ (classify exSchema.objects).singles ∧
    (classify exSchema.objects).types = [] := by decide +kernel

/-- **The groups of `createInternalSchema`** (`reversedObjects`) are exactly: every type that has a
constructor, with its constructors in schema order — each constructor is in the group of its own
type and in no other. -/
theorem classify_groups (objs : List Obj) (t : Str) (os : List Obj) :
    (t, os) ∈ groupByIface objs ↔ os ≠ [] ∧ os = objs.filter (·.iface = t) :=
  mem_groupByIface objs t os

example : (cs!"PeerSettings", [exSettings]) ∈ groupByIface exSchema.objects :=
  (classify_groups _ _ _).mpr ⟨by simp, by decide +kernel⟩

/-- **The `Obj` suffix rule**, for any naming function: a struct (of a type with several
constructors) or an enum constant whose Go name would be the Go name of its own type is named after
`<constructor>Obj` instead; otherwise, and always for the struct of a single-constructor type, the
name is the constructor's. -/
theorem ctor_name_rule (goify : Str → Str) (k : Kind) (t ctor : Str) :
    (k = .single → ctorGoName goify k t ctor = goify ctor) ∧
    (k ≠ .single → goify ctor ≠ goify t → ctorGoName goify k t ctor = goify ctor) ∧
    (k ≠ .single → goify ctor = goify t → ctorGoName goify k t ctor = goify (ctor ++ "Obj".toList)) := by
  refine ⟨?_, ?_, ?_⟩
  · intro h; subst h; rfl
  · intro hk hne; cases k <;> simp_all [ctorGoName]
  · intro hk he; cases k <;> simp_all [ctorGoName]

/-- with a naming function that ignores the case of the first letter, constructor `foo` of the
several-constructor type `Foo` is declared as `fooObj`, constructor `bar` as `bar` -/
example :
    let g : Str → Str := fun s => s.map Char.toLower
    ctorGoName g .iface (cs!"Foo") (cs!"foo") = cs!"fooobj" ∧ ctorGoName g .iface (cs!"Foo") (cs!"bar") = cs!"bar" ∧
    ctorGoName g .single (cs!"Foo") (cs!"foo") = cs!"foo" := by decide +kernel

theorem allSome_map {α β} (f : α → Option β) (g : β → Nat) (h : α → Nat) (l : List α) (r : List β)
    (hfg : ∀ a b, f a = some b → g b = h a) (hr : allSome (l.map f) = some r) : r.map g = l.map h := by
  induction l generalizing r with
  | nil => simp [allSome] at hr; subst hr; rfl
  | cons a l ih =>
    simp only [List.map_cons] at hr
    cases hfa : f a with
    | none => simp [hfa, allSome] at hr
    | some b =>
      simp only [hfa, allSome] at hr
      cases hrest : allSome (l.map f) with
      | none => simp [hrest] at hr
      | some r' =>
        simp only [hrest, Option.map_some, Option.some.injEq] at hr
        subst hr
        simp [hfg a b hfa, ih r' hrest]

/-- **Every definition is declared with its id.** What the model of the generator emits for a schema
(when it does not panic) is one declaration per constructor and one parameter struct plus one client
method per function, in the schema's order, each carrying the definition's constructor id. -/
theorem emit_ids (goify : Str → Str) (s : Schema) (ds : List Decl) (ms : List (Decl × FnDecl))
    (h : emit goify s = some (ds, ms)) :
    ds.map (·.crc) = s.objects.map (·.crc) ∧
    ms.map (·.1.crc) = s.methods.map (·.crc) ∧ ms.map (·.2.crc) = s.methods.map (·.crc) := by
  simp only [emit] at h
  cases h1 : allSome (s.objects.map (declOfObj goify s.objects)) with
  | none => simp [h1] at h
  | some ds' =>
    cases h2 : allSome (s.methods.map (declsOfMethod s.objects)) with
    | none => simp [h1, h2] at h
    | some ms' =>
      simp only [h1, h2, Option.some.injEq, Prod.mk.injEq] at h
      obtain ⟨rfl, rfl⟩ := h
      refine ⟨allSome_map _ _ _ _ _ ?_ h1, allSome_map _ _ _ _ _ ?_ h2, allSome_map _ _ _ _ _ ?_ h2⟩
      · intro o d hd
        simp only [declOfObj] at hd
        split at hd
        · simp at hd; subst hd; rfl
        · split at hd
          · simp at hd; subst hd; rfl
          · simp at hd
      · intro m d hd
        simp only [declsOfMethod] at hd
        split at hd
        · simp at hd; subst hd; rfl
        · simp at hd
      · intro m d hd
        simp only [declsOfMethod] at hd
        split at hd
        · simp at hd; subst hd; rfl
        · simp at hd

/-- **Field layout.** The fields of a generated struct are the schema's parameters other than the
`flags:#` word, in the schema's order, each with its name, vector marker, `tl` tag (`flag:N` for a
conditional field, `,encoded_in_bitflags` appended for type `true`) and the Go type its schema type
maps to. -/
theorem emit_fields (objs : List Obj) (ps : List Param) (fs : List GoField) (h : fieldsOf objs ps = some fs) :
    fs.map (fun f => (f.name, f.vec, f.tag)) =
      (ps.filter fun p => p.type ≠ kwBitflags).map (fun p => (p.name, p.isVector, tagOf p)) ∧
    fs.map (fun f => some f.type) = (ps.filter fun p => p.type ≠ kwBitflags).map (fun p => goTypeOf objs p.type) :=
  fieldsOf_spec objs ps fs h

example : ∃ fs, fieldsOf exSchema.objects exSettings.params = some fs ∧
    fs.map (fun f => (f.name, f.vec, f.tag)) =
      [(cs!"silent", false, cs!"flag:5,encoded_in_bitflags"), (cs!"user_ids", true, [])] := by
  cases h : fieldsOf exSchema.objects exSettings.params with
  | none => exact absurd h (by decide +kernel)
  | some fs =>
    refine ⟨fs, rfl, ?_⟩
    rw [(emit_fields _ _ _ h).1]
    decide +kernel

/-- **Flag position.** `FlagIndex()` is generated exactly when some field is conditional, and its
value is the position of a `flags:#` parameter in the schema's parameter list. -/
theorem emit_flag_index (ps : List Param) :
    (flagIndexOf ps = some none ↔ ps.any (·.isOptional) = false) ∧
    (∀ i, flagIndexOf ps = some (some i) →
      ps.any (·.isOptional) = true ∧ ∃ p, ps[i]? = some p ∧ p.name = kwFlagsWord ∧ p.type = kwBitflags) :=
  flagIndexOf_spec ps

example : flagIndexOf exSettings.params = some (some 0) ∧ flagIndexOf exGetPeers.params = some none := by
  decide +kernel

/-- the model of the generator does emit for the example schema, and the ids are the schema's -/
example : ∃ ds ms, emit id exSchema = some (ds, ms) ∧ ds.map (·.crc) = [0x7efe0e, 0x733f2961] ∧
    ms.map (·.2.crc) = [0xf1a2b3c4] := by
  cases h : emit id exSchema with
  | none => exact absurd h (by decide +kernel)
  | some r =>
    obtain ⟨ds, ms⟩ := r
    obtain ⟨h1, -, h3⟩ := emit_ids id exSchema ds ms h
    exact ⟨ds, ms, rfl, h1, h3⟩

end Mtv.Tlgen
