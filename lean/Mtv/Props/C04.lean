/-
  C04 — forged or altered packets are refused, never accepted and never crash the client.
  Property theorems only. Model: Mtv/Envelope/Model.lean (`openClient` = `DeserializeEncrypted` after
  pending_fixes/C04-declared-length-bounds.patch, `openClientOrig` = as found), specification:
  Mtv/Envelope/Spec.lean, lemmas: Mtv/Lemmas/C03.lean, Mtv/Lemmas/C04.lean.

  What these theorems do NOT say: that somebody without the auth key cannot produce a packet that
  is accepted. They say the acceptance set is exactly the image of the specification's sealing
  function under this key; getting from there to "a forger fails" needs the unforgeability of the
  SHA-1/AES construction, which is cryptography and not a theorem here (DESIGN §4).
-/
import Mtv.Lemmas.C04
namespace Mtv.Envelope
open Mtv

/-! ## never a panic -/

/-- Clause "never panics": for every 256-byte key and EVERY byte string — shorter than the 24-byte
header, not block aligned, decrypting to any declared length incl. negative and 2^31−1 —
`DeserializeEncrypted` (repaired) returns a message or an error. No hypothesis on the primitives. -/
theorem openClient_no_panic (P : Prims) (key data : Bytes) :
    (openClient P key data).isPanic = false :=
  openClientG_fixed_no_panic P key data

example : (openClient toyPrims (zeros 256) [1, 2, 3]).isPanic = false :=
  openClient_no_panic toyPrims (zeros 256) [1, 2, 3]

/-- in particular for a session that has no key yet: the packet carrying the (publicly known) key id of the
empty key is refused with an error (D20) -/
example : openClient toyPrims [] (authKeyId toyPrims [] ++ zeros 16 ++ zeros 32) = .err "shortKey" := by
  decide +kernel

/-- … and so `transport.ReadMsg`'s dispatch never panics either, whatever the framing layer delivers -/
theorem route_no_panic (P : Prims) (key data : Bytes) :
    ∀ site, route P key data ≠ .panic site := by
  intro site h
  unfold route at h
  split at h
  · cases h
  · split at h
    · have hp := openClient_no_panic P key data
      split at h
      · rename_i s hs; rw [hs] at hp; cases hp
      · cases h
      · split at h <;> cases h
    · split at h
      · cases h
      · cases h
      · split at h <;> cases h

example : ∀ site, route toyPrims (zeros 256) [0, 0, 0, 0, 0, 0, 0, 0, 9] ≠ .panic site :=
  route_no_panic toyPrims (zeros 256) _

/-- Defect D3, on the model of the code as found: under any primitives satisfying the hypotheses
there is a 256-byte key and a packet — right key id, msg_key arbitrary, ciphertext decrypting to a
header with server-parity msg_id that declares −100 bytes — on which `DeserializeEncrypted` panics in
`decrypted[0:32+messageLen]`, before the msg_key is compared. (The negation of `openClient_no_panic`
for the unrepaired code; the harness replays such packets against the real code: corpus/c04.ops.) -/
theorem openClientOrig_panics {P : Prims} (hP : P.Ok) :
    ∃ key data, key.length = 256 ∧ openClientOrig P key data = .panic siteOpen := by
  refine ⟨zeros 256, authKeyId P (zeros 256) ++ zeros 16 ++
    P.igeE (Spec.keyIv P 8 (zeros 256) (zeros 16)).1 (Spec.keyIv P 8 (zeros 256) (zeros 16)).2 d3Plain,
    by simp, ?_⟩
  unfold openClientOrig
  rw [openClientG_sealed hP .orig (zeros 256) (zeros 16) d3Plain (by simp) (by simp) (by decide) (by decide)]
  exact openInner_orig_panics P _

example : ∃ key data, key.length = 256 ∧ openClientOrig toyPrims key data = .panic siteOpen :=
  openClientOrig_panics toyPrims_ok

/-- Defect D3, second face: the code as found *accepts* a packet whose declared length (−1) lies
outside the decrypted data, when the key holder computes the msg_key over the 31 bytes the slice
expression then takes. (Negation of the `0 ≤ declared length` clause of `openClient_sound` for the
unrepaired code.) -/
theorem openClientOrig_accepts_negative_length {P : Prims} (hP : P.Ok) :
    ∃ key data m, key.length = 256 ∧ openClientOrig P key data = .ok m ∧
      ∃ plain, data.drop 24 = P.igeE (Spec.keyIv P 8 key ((data.drop 8).take 16)).1
                   (Spec.keyIv P 8 key ((data.drop 8).take 16)).2 plain ∧
        toSigned 32 (fromLE (Spec.substr plain 28 4)) = -1 := by
  have hmk : (slice (P.H (d3PlainNeg1.take 31)) 4 20).length = 16 := by
    simp [slice, hP.H_len]
  have hA := authKeyId_length hP (zeros 256)
  refine ⟨zeros 256, authKeyId P (zeros 256) ++ slice (P.H (d3PlainNeg1.take 31)) 4 20 ++
    P.igeE (Spec.keyIv P 8 (zeros 256) (slice (P.H (d3PlainNeg1.take 31)) 4 20)).1
      (Spec.keyIv P 8 (zeros 256) (slice (P.H (d3PlainNeg1.take 31)) 4 20)).2 d3PlainNeg1,
    ⟨0, 0, 1, 0, []⟩, by simp, ?_, d3PlainNeg1, ?_, by decide⟩
  · unfold openClientOrig
    rw [openClientG_sealed hP .orig (zeros 256) _ d3PlainNeg1 (by simp) hmk (by decide) (by decide)]
    exact openInner_orig_neg1 P
  · obtain ⟨_, p2, p3⟩ := pkt_parts _ _ (P.igeE (Spec.keyIv P 8 (zeros 256) (slice (P.H (d3PlainNeg1.take 31)) 4 20)).1
      (Spec.keyIv P 8 (zeros 256) (slice (P.H (d3PlainNeg1.take 31)) 4 20)).2 d3PlainNeg1) hA hmk
    simp only [Spec.substr] at p2
    rw [p3, p2]

/-! ## an accepted packet is a valid one -/

/-- Clause "an incoming packet yields a message only if its key id matches the session's auth key,
its msg_key equals the SHA-1 digest of the decrypted header and body, its declared body length lies
inside the decrypted data and its msg_id has server parity": whenever `DeserializeEncrypted`
(repaired) returns a message `m` for any key and any bytes, then — with `plain` the IGE decryption
of `data[24:]` under the server-direction key/IV of `data[8:24]` — the key id matches, the declared
length is non-negative, equals `m`'s body length and `32 + length ≤ |plain|`, the msg_key field equals
`SHA1(plain[0 : 32+length])[4:20]`, the msg_id has server parity, and `m`'s fields are the ones in
`plain`. -/
theorem openClient_sound {P : Prims} (hP : P.Ok) (key data : Bytes) (m : Msg)
    (h : openClient P key data = .ok m) :
    data.take 8 = authKeyId P key ∧
    ∃ plain, plain = P.igeD (Spec.keyIv P 8 key (Spec.substr data 8 16)).1
                           (Spec.keyIv P 8 key (Spec.substr data 8 16)).2 (data.drop 24) ∧
      toSigned 32 (fromLE (Spec.substr plain 28 4)) = (m.body.length : Int) ∧
      32 + m.body.length ≤ plain.length ∧
      Spec.substr data 8 16 = Spec.substr (P.H (plain.take (32 + m.body.length))) 4 16 ∧
      serverParity m.mid ∧
      m = ⟨fromLE (Spec.substr plain 0 8), fromLE (Spec.substr plain 8 8), fromLE (Spec.substr plain 16 8),
           fromLE (Spec.substr plain 24 4), Spec.substr plain 32 m.body.length⟩ := by
  obtain ⟨dec, a⟩ := openClient_ok_elim hP key data m h
  refine ⟨a.keyid, dec, a.dec_eq, ?_, a.inside, ?_, a.parity, ?_⟩
  · rw [a.declared]; exact toSigned32_small _ a.len31
  · rw [← slice_eq_substr' _ 4 20 (by omega)]; exact a.msgkey.symm
  · have e1 := a.salt; have e2 := a.sid; have e3 := a.mid; have e4 := a.seq; have e5 := a.body
    revert e1 e2 e3 e4 e5
    cases m
    intro e1 e2 e3 e4 e5
    simp only [Msg.mk.injEq]
    exact ⟨e1, e2, e3, e4, e5⟩

example : openClient toyPrims (zeros 256) (Spec.serverSeal toyPrims (zeros 256) ⟨5, 6, 7, 9, [1, 2, 3]⟩ (zeros 13))
    = .ok ⟨5, 6, 7, 9, [1, 2, 3]⟩ :=
  openClient_sealDir8 toyPrims_ok _ _ _ (by simp) (by decide) (by decide) (by decide)

/-- Clause "it never produces a message different from the one the key holder sealed": every
accepted packet IS the specification's server-direction sealing, under this key, of exactly the
message returned (with some block-aligning padding). An altered, truncated or re-keyed packet is
therefore accepted only if it is itself such a sealing; that nobody without the key can make one is
the cryptographic step that is not a theorem. -/
theorem accepted_is_a_sealing {P : Prims} (hP : P.Ok) (key data : Bytes) (m : Msg)
    (h : openClient P key data = .ok m) :
    ∃ pad, data = Spec.serverSeal P key m pad ∧ (32 + m.body.length + pad.length) % 16 = 0 ∧
      m.WF ∧ serverParity m.mid := by
  obtain ⟨dec, a⟩ := openClient_ok_elim hP key data m h
  obtain ⟨h1, h2⟩ := accepted_sealing hP a
  exact ⟨_, h1, h2, accepted_wf a, a.parity⟩

/-- … and conversely (C03): the acceptance set of `DeserializeEncrypted` under a 256-byte key is
exactly the image of the specification's sealing on well-formed server-parity messages. -/
theorem accepted_iff_sealing {P : Prims} (hP : P.Ok) (key data : Bytes) (m : Msg) (hk : key.length = 256) :
    openClient P key data = .ok m ↔
      ∃ pad, data = Spec.serverSeal P key m pad ∧ (32 + m.body.length + pad.length) % 16 = 0 ∧
        m.WF ∧ serverParity m.mid := by
  constructor
  · exact accepted_is_a_sealing hP key data m
  · rintro ⟨pad, rfl, hal, hm, hpar⟩
    exact openClient_sealDir8 hP key m pad (by omega) hm hpar hal

example := (accepted_iff_sealing toyPrims_ok (zeros 256)
  (Spec.serverSeal toyPrims (zeros 256) ⟨5, 6, 7, 9, [1, 2, 3]⟩ (zeros 13)) ⟨5, 6, 7, 9, [1, 2, 3]⟩ (by simp)).mpr
  ⟨zeros 13, rfl, by decide, by decide, by decide⟩

/-! ## refusals that need no cryptography -/

/-- Clause "re-keyed": a packet whose first 8 bytes are not this key's id is refused as such. -/
theorem openClient_refuses_wrong_key (P : Prims) (key data : Bytes) (h : data.take 8 ≠ authKeyId P key)
    (h8 : 8 ≤ data.length) :
    openClient P key data = .err "wrongKey" := by
  unfold openClient openClientG
  simp only []
  rw [(outer_pops data).1]
  simp [h8, h]

example : openClient toyPrims (zeros 256) [1, 2, 3, 4, 5, 6, 7, 8, 9] = .err "wrongKey" :=
  openClient_refuses_wrong_key toyPrims _ _ (by decide) (by decide)

/-- Clause "truncated (including shorter than the 24-byte header)": whatever the bytes, a packet
shorter than key id + msg_key + two cipher blocks (the inner header alone is 32 bytes), or whose
ciphertext is not whole blocks, is refused with an error. -/
theorem openClient_refuses_short_or_unaligned {P : Prims} (hP : P.Ok) (key data : Bytes) (hk : key.length = 256)
    (h : data.length < 56 ∨ (data.length - 24) % 16 ≠ 0) :
    ∃ e, openClient P key data = .err e := by
  cases hres : openClient P key data with
  | err e => exact ⟨e, rfl⟩
  | panic s =>
    have := openClient_no_panic P key data
    rw [hres] at this; cases this
  | ok m =>
    exfalso
    obtain ⟨dec, a⟩ := openClient_ok_elim hP key data m hres
    have hkv := keyIv_length hP 8 key ((data.drop 8).take 16)
    have hdl : (data.drop 24).length = data.length - 24 := by simp
    have h40 := a.len40
    have hal := a.aligned
    have hdeclen : dec.length = (data.drop 24).length := by
      rw [a.dec_eq]; exact hP.igeD_len _ _ _ hkv.1 hkv.2 (by omega) a.aligned
    have := a.inside
    omega

example : ∃ e, openClient toyPrims (zeros 256) (zeros 55) = .err e :=
  openClient_refuses_short_or_unaligned toyPrims_ok _ _ (by simp) (Or.inl (by simp))

/-! ## unencrypted messages -/

/-- Clause `unenc_refuses`: `DeserializeUnencrypted` accepts a packet only if the length field equals
the number of bytes that follow it and the msg_id has server parity; the accepted message is
exactly what the packet holds. Hence an inconsistent length or a wrong parity is refused. -/
theorem unenc_refuses (data : Bytes) (mid : Nat) (body : Bytes)
    (h : Unenc.deserialize data = .ok (mid, body)) :
    data.take 8 ++ (leBytes mid 8 ++ (leBytes body.length 4 ++ body)) = data ∧
    serverParity mid ∧ mid < 2 ^ 64 ∧ body.length < 2 ^ 32 ∧ data.length = 20 + body.length := by
  have key : data.take 8 ++ (leBytes mid 8 ++ (leBytes body.length 4 ++ body)) = data ∧
      serverParity mid ∧ mid < 2 ^ 64 ∧ body.length < 2 ^ 32 := by
    unfold Unenc.deserialize at h
    split at h
    · cases h
    · rename_i h16
      simp only [] at h
      split at h
      · cases h
      · rename_i hpar
        split at h
        · cases h
        · rename_i h20
          split at h
          · cases h
          · rename_i hlen
            injection h with h
            injection h with hm hb
            have hlen' : data.length - 20 = fromLE ((data.drop 16).take 4) := by omega
            have l8 : ((data.drop 8).take 8).length = 8 := by simp; omega
            have l4 : ((data.drop 16).take 4).length = 4 := by simp; omega
            have hbl : body.length = fromLE ((data.drop 16).take 4) := by
              rw [← hb, ← hlen']; simp
            have r1 : leBytes mid 8 = (data.drop 8).take 8 := by
              rw [← hm]; have := leBytes_fromLE ((data.drop 8).take 8); rwa [l8] at this
            have r2 : leBytes body.length 4 = (data.drop 16).take 4 := by
              rw [hbl]; have := leBytes_fromLE ((data.drop 16).take 4); rwa [l4] at this
            refine ⟨?_, ?_, ?_, ?_⟩
            · rw [r1, r2, ← hb]
              have a := drop_eq_take_append_drop data 8 8
              have b := drop_eq_take_append_drop data 16 4
              simp only [Spec.substr] at a b
              rw [← b, ← a]; exact List.take_append_drop 8 data
            · unfold serverParity; rw [← hm]; omega
            · rw [← hm]; have := fromLE_lt ((data.drop 8).take 8); rw [l8] at this; simpa using this
            · rw [hbl]; have := fromLE_lt ((data.drop 16).take 4); rw [l4] at this; simpa using this
  refine ⟨key.1, key.2.1, key.2.2.1, key.2.2.2, ?_⟩
  have := congrArg List.length key.1
  simp at this
  omega

example := unenc_refuses (Unenc.serialize 5 [1, 2, 3]) 5 [1, 2, 3] (by rfl)

/-- the two refusals spelled out: a msg_id without server parity, or (with a whole 20-byte header
present) a length field different from the number of body bytes, is an error -/
theorem unenc_refuses_parity_and_length (data : Bytes) (h20 : 20 ≤ data.length)
    (h : ¬ serverParity (fromLE ((data.drop 8).take 8)) ∨
         fromLE ((data.drop 16).take 4) ≠ data.length - 20) :
    Unenc.deserialize data = .error .parity ∨ Unenc.deserialize data = .error .length := by
  unfold Unenc.deserialize serverParity at *
  have c1 : ¬ data.length < 16 := by omega
  have c2 : ¬ data.length < 20 := by omega
  simp only [c1, c2, if_false]
  by_cases hp : fromLE ((data.drop 8).take 8) % 4 ≠ 1 ∧ fromLE ((data.drop 8).take 8) % 4 ≠ 3
  · simp [hp]
  · simp only [hp, if_false]
    have : data.length - 20 ≠ fromLE ((data.drop 16).take 4) := by
      rcases h with h | h
      · exfalso; omega
      · exact fun e => h e.symm
    simp [this]

example : Unenc.deserialize (zeros 24) = .error .parity ∨ Unenc.deserialize (zeros 24) = .error .length :=
  unenc_refuses_parity_and_length (zeros 24) (by simp) (Or.inl (by decide))

/-! ## the session level: what `MTProto.readMsg` takes for a message -/

/-- **"yields a message only if its key id matches the session's auth key", for a client that works under its key**:
in encrypted mode (`m.encrypted`: a stored session was loaded or the key exchange has verified dh_gen_ok) no byte
string whatsoever comes out of `readMsg` as an unencrypted message — in particular not a well-formed plain-text
frame (zero key id, server-parity msg_id, true length), which anybody can write without the key. `ReadMsg` alone
(`route`) does return such a frame as a message: the transport cannot know the session's state. -/
theorem keyed_session_refuses_plain (P : Prims) (key data : Bytes) (mid : Nat) (body : Bytes) :
    clientRead true P key data ≠ .unenc mid body := by
  unfold clientRead
  split
  · simp
  · rename_i hr
    exact fun h => hr mid body h

/-- the well-formed plain-text frame is the witness: the transport hands it on, the keyed client refuses it -/
example : route toyPrims (zeros 256) (Unenc.serialize 5 [1, 2, 3]) = .unenc 5 [1, 2, 3] ∧
    clientRead true toyPrims (zeros 256) (Unenc.serialize 5 [1, 2, 3]) = .err "plainInEncryptedSession" := by
  decide +kernel

/-- … and whatever the keyed client does take for a message was opened under the key in force: the packet's first
eight bytes are the id of the session's key, `DeserializeEncrypted` accepted it under that key (so all of
`openClient_sound` / `accepted_is_a_sealing` applies), and its msg_id has server parity -/
theorem keyed_session_message_is_under_key (P : Prims) (key data : Bytes) (m : Msg)
    (h : clientRead true P key data = .enc m) :
    data.take 8 = authKeyId P key ∧ openClient P key data = .ok m ∧ (m.mid % 4 = 1 ∨ m.mid % 4 = 3) := by
  unfold clientRead at h
  split at h
  · simp at h
  · unfold route at h
    split at h
    · cases h
    · split at h
      · rename_i henc
        have h8 : 8 ≤ data.length := by
          unfold Unenc.isEncrypted at henc
          split at henc
          · cases henc
          · omega
        split at h
        · cases h
        · cases h
        · rename_i m' hm'
          split at h
          · cases h
          · rename_i hpar
            cases h
            refine ⟨?_, hm', by omega⟩
            by_cases hk : data.take 8 = authKeyId P key
            · exact hk
            · rw [openClient_refuses_wrong_key P key data hk h8] at hm'; cases hm'
      · split at h
        · cases h
        · cases h
        · split at h <;> cases h

/-- (toy primitives whose hash is not all zero, so that the key id is not the zero id of plain text) -/
example : clientRead true ⟨fun _ => List.replicate 20 1, fun _ _ x => x, fun _ _ x => x⟩ (zeros 256)
    (Spec.serverSeal ⟨fun _ => List.replicate 20 1, fun _ _ x => x, fun _ _ x => x⟩ (zeros 256) ⟨5, 6, 7, 9, [1, 2, 3]⟩ (zeros 13))
    = .enc ⟨5, 6, 7, 9, [1, 2, 3]⟩ := by decide +kernel

/-- while the client has no key — the key exchange — `readMsg` passes on what `ReadMsg` returns, plain text included:
the repair does not touch the handshake -/
theorem clientRead_before_key (P : Prims) (key data : Bytes) : clientRead false P key data = route P key data := by
  unfold clientRead
  split
  · rename_i heq; simp [heq]
  · rfl

/-- never a panic at this level either -/
theorem clientRead_no_panic (enc : Bool) (P : Prims) (key data : Bytes) :
    ∀ site, clientRead enc P key data ≠ .panic site := by
  intro site h
  unfold clientRead at h
  split at h
  · split at h <;> cases h
  · exact route_no_panic P key data site h

/-! ## the result contract, and inconsistent lengths at every size (session 9) -/

/-- **Result contract of `DeserializeEncrypted`** ("refused with an error" / "yields a message", nothing in between):
for every key and EVERY byte string of any length the call either returns an error, or returns a message `m`
together with the facts that make it usable — the packet is the specification's sealing of exactly `m`, `m`'s fields
fit the wire, its msg_id has server parity. There is no third outcome (no panic, no "no error and no message": the
seeded change C04-m15 returned `(nil, nil)` from a size guard; in Go that third outcome exists, and the harness
reports it as `ok-without-message`). -/
theorem openClient_result_contract {P : Prims} (hP : P.Ok) (key data : Bytes) :
    (∃ e, openClient P key data = .err e) ∨
    (∃ m pad, openClient P key data = .ok m ∧ data = Spec.serverSeal P key m pad ∧ m.WF ∧ serverParity m.mid) := by
  cases hres : openClient P key data with
  | err e => exact Or.inl ⟨e, rfl⟩
  | panic s =>
    have := openClient_no_panic P key data
    rw [hres] at this; cases this
  | ok m =>
    obtain ⟨pad, h1, _, h3, h4⟩ := accepted_is_a_sealing hP key data m hres
    exact Or.inr ⟨m, pad, rfl, h1, h3, h4⟩

example : (∃ e, openClient toyPrims (zeros 256) (zeros 100) = .err e) ∨
    (∃ m pad, openClient toyPrims (zeros 256) (zeros 100) = .ok m ∧ zeros 100 = Spec.serverSeal toyPrims (zeros 256) m pad ∧
      m.WF ∧ serverParity m.mid) := openClient_result_contract toyPrims_ok _ _

/-- **Result contract of `transport.ReadMsg`**: whatever the framing layer delivers, the call returns a transport
error code, an error, an encrypted message that `DeserializeEncrypted` returned for this very packet under the
session's key, or an unencrypted message that `DeserializeUnencrypted` returned for it — never a panic and never a
success that is not backed by a deserialiser's message. -/
theorem route_result_contract (P : Prims) (key data : Bytes) :
    (∃ c, route P key data = .code c) ∨ (∃ e, route P key data = .err e) ∨
    (∃ m, route P key data = .enc m ∧ openClient P key data = .ok m) ∨
    (∃ mid body, route P key data = .unenc mid body ∧ Unenc.deserialize data = .ok (mid, body)) := by
  cases hres : route P key data with
  | code c => exact Or.inl ⟨c, rfl⟩
  | err e => exact Or.inr (Or.inl ⟨e, rfl⟩)
  | panic s => exact absurd hres (route_no_panic P key data s)
  | enc m =>
    refine Or.inr (Or.inr (Or.inl ⟨m, rfl, ?_⟩))
    unfold route at hres
    split at hres
    · cases hres
    · split at hres
      · split at hres
        · cases hres
        · cases hres
        · rename_i m' hm'
          split at hres
          · cases hres
          · cases hres; exact hm'
      · split at hres
        · cases hres
        · cases hres
        · split at hres <;> cases hres
  | unenc mid body =>
    refine Or.inr (Or.inr (Or.inr ⟨mid, body, rfl, ?_⟩))
    unfold route at hres
    split at hres
    · cases hres
    · split at hres
      · split at hres
        · cases hres
        · cases hres
        · split at hres <;> cases hres
      · split at hres
        · cases hres
        · cases hres
        · rename_i mid' body' hd
          split at hres
          · cases hres
          · cases hres; exact hd

example := route_result_contract toyPrims (zeros 256) (Unenc.serialize 5 [1, 2, 3])

/-- Clause "declares an inconsistent (negative, oversized) length is refused with an error", for EVERY total packet
length (no bound on `data.length`: 56 bytes or 2^24 + 2^20 or more) and every key: when the length field of the
decrypted inner header — `plain[28:32]` as a signed 32-bit number, `plain` the IGE decryption of `data[24:]` under
the key/IV of `data[8:24]` — is negative or larger than `|plain| − 32`, `DeserializeEncrypted` returns an error. -/
theorem openClient_refuses_inconsistent_length {P : Prims} (hP : P.Ok) (key data : Bytes)
    (h : toSigned 32 (fromLE (Spec.substr (P.igeD (Spec.keyIv P 8 key (Spec.substr data 8 16)).1
            (Spec.keyIv P 8 key (Spec.substr data 8 16)).2 (data.drop 24)) 28 4)) < 0 ∨
         ((P.igeD (Spec.keyIv P 8 key (Spec.substr data 8 16)).1
            (Spec.keyIv P 8 key (Spec.substr data 8 16)).2 (data.drop 24)).length : Int) - 32 <
          toSigned 32 (fromLE (Spec.substr (P.igeD (Spec.keyIv P 8 key (Spec.substr data 8 16)).1
            (Spec.keyIv P 8 key (Spec.substr data 8 16)).2 (data.drop 24)) 28 4))) :
    ∃ e, openClient P key data = .err e := by
  cases hres : openClient P key data with
  | err e => exact ⟨e, rfl⟩
  | panic s =>
    have := openClient_no_panic P key data
    rw [hres] at this; cases this
  | ok m =>
    exfalso
    obtain ⟨_, plain, hpl, hdecl, hin, _⟩ := openClient_sound hP key data m hres
    rw [← hpl] at h
    rw [hdecl] at h
    omega

end Mtv.Envelope
