/-
  C01 — TL codec round trip: decoding an encoded value returns the same value.
  Property theorems only. Model: Mtv/TL/{Types,Encode,Decode,Typing}.lean (generic in the registry);
  the registry of the working tree is Mtv/Gen/Registry.lean, regenerated on every run.
-/
import Mtv.Lemmas.TLRoundTripMain
import Mtv.Gen.Registry
namespace Mtv.TL

/-! ## byte strings -/

/-- `PopMessage` undoes `PutMessage` for every byte string the encoder accepts (every length below
2^24: both header forms, every length mod 4), whatever follows in the stream. -/
theorem putMessage_popMessage (bs rest out : Bytes) (h : putMessage bs = .ok out) :
    popMessage (out ++ rest) = .ok (bs, rest) :=
  popMessage_putMessage bs rest out h

/-- an encoded byte string is 4-byte aligned -/
theorem putMessage_is_aligned (bs out : Bytes) (h : putMessage bs = .ok out) : out.length % 4 = 0 :=
  putMessage_aligned bs out h

/-- one-byte header below 254 bytes, `0xfe` + three little-endian length bytes from 254 on,
refusal from 2^24 on -/
theorem putMessage_header (bs : Bytes) :
    (bs.length < 254 → ∃ t, putMessage bs = .ok (UInt8.ofNat bs.length :: t)) ∧
    (254 ≤ bs.length → bs.length < 2 ^ 24 → ∃ t, putMessage bs = .ok (0xfe :: (leBytes bs.length 3 ++ t))) ∧
    (2 ^ 24 ≤ bs.length → putMessage bs = .err "tooLarge") := by
  refine ⟨?_, ?_, ?_⟩
  · intro h; exact ⟨bs ++ zeros (pad4 (1 + bs.length)), by simp [putMessage, h]⟩
  · intro h1 h2
    have : ¬ bs.length < 254 := by omega
    have h3 : ¬ 2 ^ 24 ≤ bs.length := by omega
    exact ⟨bs ++ zeros (pad4 bs.length), by simp only [putMessage, this, h3, if_false]⟩
  · intro h
    have : ¬ bs.length < 254 := by omega
    simp [putMessage, this, h]

/-! ## the round trip, for every registry of the shape `WFR`, every type, every value, any depth -/

/-- **Naming the expected type** (`tl.Decode(data, &T{})`): for every registered struct `id` and every
well-typed value of it, decoding the encoded bytes (followed by anything) returns the original value,
nil and empty slices identified. Unbounded nesting, vector sizes, string lengths. -/
theorem decode_encode_named (R : Registry) (gz : Bytes → Option Bytes) (hR : WFR R)
    (id : Nat) (v : Val) (bs rest : Bytes) (fuel : Nat)
    (hwt : WT R (.ptr id) v) (henc : marshal R v = .ok bs) (hf : need v ≤ fuel) :
    ∃ v', decodeNamed R gz fuel id (bs ++ rest) = .ok v' ∧ erase v' = erase v := by
  obtain ⟨v', hdec, her⟩ := rt_val R gz 0 hR v (.ptr id) bs rest [] fuel hwt henc hf
  exact ⟨v', by simp [decodeNamed, hdec], her⟩

/-- **Letting the decoder choose the type from the constructor id** (`tl.DecodeUnknownObject`). -/
theorem decode_encode_unknown (R : Registry) (gz : Bytes → Option Bytes) (hR : WFR R)
    (v : Val) (bs rest : Bytes) (fuel : Nat)
    (hwt : WT R (.iface "tl.Object") v) (henc : marshal R v = .ok bs) (hf : need v ≤ fuel + 1) :
    ∃ v', decodeUnknown R gz fuel [] (bs ++ rest) = .ok v' ∧ erase v' = erase v := by
  obtain ⟨v', hdec, her⟩ := rt_val R gz 0 hR v (.iface "tl.Object") bs rest [] (fuel + 1) hwt henc hf
  refine ⟨v', ?_, her⟩
  simp only [decVal] at hdec
  unfold decodeUnknown
  cases hreg : decRegistered R gz 0 fuel (bs ++ rest) [] with
  | err e => simp [hreg] at hdec
  | panic s => simp [hreg] at hdec
  | ok p =>
    obtain ⟨v0, r0, h0⟩ := p
    simp only [hreg] at hdec
    split at hdec
    · simp only [Outcome.ok.injEq, Prod.mk.injEq] at hdec
      obtain ⟨rfl, _, _⟩ := hdec
      rfl
    · cases hdec

/-- the same for a value in any typed position (field, vector element, interface) -/
theorem decode_encode_value (R : Registry) (gz : Bytes → Option Bytes) (dp : Nat) (hR : WFR R)
    (ty : Ty) (v : Val) (bs rest : Bytes) (hs : List Ty) (fuel : Nat)
    (hwt : WT R ty v) (henc : encVal R v = .ok bs) (hf : need v ≤ fuel) :
    ∃ v', decVal R gz dp fuel ty (bs ++ rest) hs = .ok (v', rest, hs) ∧ erase v' = erase v :=
  rt_val R gz dp hR v ty bs rest hs fuel hwt henc hf

/-! ## serialising twice -/

/-- **Determinism clause** ("serialising the same value twice gives identical bytes"): two serialisations of one
value that both succeed are the same bytes. In the model this is functionality - `marshal` reads nothing but the
registry and the value: no clock, no map order, no buffer kept from an earlier call, no record of objects seen
before -, so the content of the clause is the tie: the real `tl.Marshal` is compared with this function on every
operation, called twice on the same Go value (`nondeterministic` / `again=` of c01.rt, c01.dag, c01.wrap), and
operations are repeated later in the run (state carried from one call to the next). Values of the model are
trees: a Go value in which one object occurs at several places is the tree it unfolds to, and the harness
checks on the real code that it is serialised exactly like that tree built from separate objects (c01.dag). -/
theorem marshal_deterministic (R : Registry) (v : Val) (b₁ b₂ : Bytes)
    (h₁ : marshal R v = .ok b₁) (h₂ : marshal R v = .ok b₂) : b₁ = b₂ := by
  rw [h₁] at h₂
  exact Outcome.ok.inj h₂

/-- the hypotheses are satisfiable: the value of the non-vacuity example below is serialised -/
example : (marshal [⟨0x05086cf8, "WallPaperSettings", .struct, some 0, [], [
      ⟨"Blur", .bool, some ⟨1, true⟩⟩, ⟨"BackgroundColor", .int32, some ⟨0, false⟩⟩]⟩]
    (.obj 0x05086cf8 [.bool false, .word 7])).isOk = true := by decide

/-- An object used twice is written twice: the serialisation of a vector is the concatenation of the
serialisations of its elements, each a function of the element alone - the second occurrence of an element is
written exactly like the first, whatever was written in between (what a cycle guard that remembers every object
it has seen gets wrong). -/
theorem encList_append (R : Registry) : ∀ (xs ys : List Val) (a b : Bytes),
    encList R xs = .ok a → encList R ys = .ok b → encList R (xs ++ ys) = .ok (a ++ b)
  | [], ys, a, b, ha, hb => by
    simp only [encList, Outcome.ok.injEq] at ha
    subst ha
    simpa using hb
  | x :: xs, ys, a, b, ha, hb => by
    simp only [encList] at ha
    cases hx : encVal R x with
    | err e => simp [hx] at ha
    | panic s => simp [hx] at ha
    | ok ax =>
      cases hxs : encList R xs with
      | err e => simp [hx, hxs] at ha
      | panic s => simp [hx, hxs] at ha
      | ok axs =>
        simp only [hx, hxs, Outcome.ok.injEq] at ha
        subst ha
        have ih := encList_append R xs ys axs b hxs hb
        simp [encList, hx, ih, List.append_assoc]

/-- the same element at two places of a vector: its bytes occur twice -/
theorem encList_twice (R : Registry) (x : Val) (a : Bytes) (h : encVal R x = .ok a) :
    encList R [x, x] = .ok (a ++ a) := by
  simp [encList, h]

/-! ## flag groups -/

/-- A group of conditional fields sharing flag bit `b` counts as present — bit `b` of the flags word
is set — exactly when at least one field tagged `flag:b` is non-zero (bits below 32, as `wfDesc`
demands). -/
theorem flagWord_bit_iff : ∀ (fs : List FieldDesc) (vs : List Val) (b : Nat),
    (∀ f ∈ fs, ∀ fl, f.flag = some fl → fl.bit < 32) →
    (bitSet (flagWord fs vs) b = true ↔
      ∃ p ∈ List.zip fs vs, ∃ fl, p.1.flag = some fl ∧ fl.bit = b ∧ p.2.isZero = false)
  | [], vs, b, _ => by simp [flagWord, bitSet]
  | f :: fs, [], b, _ => by simp [flagWord, bitSet]
  | f :: fs, v :: vs, b, hbits => by
    have ih := flagWord_bit_iff fs vs b (fun g hg fl hfl => hbits g (by simp [hg]) fl hfl)
    simp only [List.zip_cons_cons, List.mem_cons, exists_eq_or_imp]
    rw [← ih]
    simp only [flagWord]
    have t2 : ∀ x : Nat, x.testBit b = true ↔ (x / 2 ^ b) % 2 = 1 := by
      intro x
      simp only [Nat.testBit, Nat.shiftRight_eq_div_pow, Nat.one_and_eq_mod_two, bne_iff_ne, ne_eq]
      omega
    cases hf : f.flag with
    | none => simp
    | some fl =>
      have hfl : fl.bit < 32 := hbits f (by simp) fl hf
      simp only [Option.some.injEq, exists_eq_left']
      cases hz : v.isZero with
      | true => simp
      | false =>
        simp only [Bool.not_false, if_true, and_true]
        have hmod : 2 ^ fl.bit % 2 ^ 32 = 2 ^ fl.bit :=
          Nat.mod_eq_of_lt (Nat.pow_lt_pow_right (by decide) hfl)
        rw [hmod]
        unfold bitSet
        simp only [decide_eq_true_eq]
        rw [← t2, ← t2, Nat.testBit_or, Bool.or_eq_true, Nat.testBit_two_pow]
        simp only [decide_eq_true_eq]
        exact Or.comm

/-! ## the registry of the working tree satisfies the shape conditions -/

/-- executable form of `WFR` for kernel evaluation -/
def wfrB (R : Registry) : Bool :=
  R.all fun d => wfDesc d && d.id != crcVector && d.id != crcTrue && d.id != crcFalse && d.id != crcNull
    && decide (d.id < 2 ^ 32)

theorem wfr_of_wfrB (R : Registry) (h : wfrB R = true) : WFR R := by
  intro d hd
  unfold wfrB at h
  have := List.all_eq_true.mp h d hd
  simp only [Bool.and_eq_true, bne_iff_ne, ne_eq, decide_eq_true_eq] at this
  obtain ⟨⟨⟨⟨⟨h1, h2⟩, h3⟩, h4⟩, h5⟩, h6⟩ := this
  exact ⟨h1, h2, h3, h4, h5, h6⟩

/-- **Regenerated-fact obligation**: every constructor registered in the working tree has the shape
the model of `encodeStruct`/`decodeObject` is written for (FlagIndex exactly when there are tagged
fields, flags word in front of the first conditional field, bits below 32, `encoded_in_bitflags`
only on bools, no collision with the vector/Bool/null ids). Re-checked by the kernel on every run. -/
theorem registry_wf : WFR Mtv.Gen.registry :=
  wfr_of_wfrB _ (by decide +kernel)

/-! ## non-vacuity -/

/-- a miniature registry with a shared flag group (the shape of `wallPaperSettings`) -/
def exampleRegistry : Registry :=
  [⟨0x05086cf8, "WallPaperSettings", .struct, some 0, [], [
      ⟨"Blur", .bool, some ⟨1, true⟩⟩, ⟨"BackgroundColor", .int32, some ⟨0, false⟩⟩,
      ⟨"SecondBackgroundColor", .int32, some ⟨4, false⟩⟩, ⟨"Rotation", .int32, some ⟨4, false⟩⟩]⟩]

/-- `SecondBackgroundColor = 5, Rotation = 0`: the group on bit 4 is present, its zero member is
well-typed and therefore survives the trip by `decode_encode_named` -/
example : WFR exampleRegistry ∧
    WT exampleRegistry (.ptr 0x05086cf8) (.obj 0x05086cf8 [.bool false, .word 0, .word 5, .word 0]) ∧
    (marshal exampleRegistry (.obj 0x05086cf8 [.bool false, .word 0, .word 5, .word 0])).isOk = true := by
  refine ⟨by decide, ?_, by decide⟩
  simp [WT, WTF, exampleRegistry, Registry.find, flagWord, Val.isZero, bitSet, erase, zeroOf]

end Mtv.TL
