/-
  Mtv.Handshake.Num — the `math/big` and byte-placement operations `makeAuthKey` uses, over `Nat`:
  modular exponentiation by square-and-multiply (what the driver executes; `Mtv.Lemmas.C06Num`
  proves it equal to `b ^ e % m`), `dry.BigIntBytes`, the 256-byte placement of the RSA result and
  of the auth key (as repaired), xor of the salt halves. Core-only.
-/
import Mtv.Ige.Wrap
namespace Mtv.Handshake
open Mtv Mtv.Ige

/-- square-and-multiply with explicit fuel (`fuel ≥` number of bits of `e` suffices) -/
def powModAux (m : Nat) : Nat → Nat → Nat → Nat
  | 0, _, _ => 1 % m
  | fuel + 1, b, e =>
    if e = 0 then 1 % m
    else
      let h := powModAux m fuel (b * b % m) (e / 2)
      if e % 2 = 1 then b * h % m else h

/-- `big.Int.Exp(b, e, m)` for non-negative arguments: `b ^ e mod m`; for `m = 0` Go computes the
plain power, and so does this (`x % 0 = x`). -/
def powMod (b e m : Nat) : Nat := powModAux m e b e

/-- `dry.BigIntBytes(v, 8*w)`: `w` big-endian bytes, panics when the value needs more -/
def bigIntBytes (x w : Nat) : Outcome Bytes :=
  if x < 256 ^ w then .ok (beBytes x w) else .panic "dry.BigIntBytes"

/-- `math.DoRSAencrypt(block, key)` as repaired: `c = block^e mod n` right-aligned in 256 bytes;
a block that is not 255 bytes long, or a result longer than 256 bytes, panics -/
def doRSAencrypt (block : Bytes) (n e : Nat) : Outcome Bytes :=
  if block.length ≠ 255 then .panic "internal/math.DoRSAencrypt"
  else
    let c := powMod (fromBE block) e n
    if c < 256 ^ 256 then .ok (beBytes c 256) else .panic "internal/math.DoRSAencrypt"

/-- the auth key as repaired: `gAB.Bytes()` left-padded with zeros to 256 bytes (longer stays) -/
def authKeyBytes (gab : Nat) : Bytes := fixedBytes gab 256

/-- `math.Xor(dst, src)` on equally long slices -/
def xorBytes (a b : Bytes) : Bytes := List.zipWith (· ^^^ ·) a b

/-- `big.NewInt(int64(g))` reduced into `[0, P)`: what `Exp` effectively raises (Go returns the
non-negative residue also for a negative base) -/
def baseOfG (gWord P : Nat) : Nat := ((toSigned 32 gWord) % (P : Int)).toNat

end Mtv.Handshake
