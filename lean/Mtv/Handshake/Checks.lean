/-
  Mtv.Handshake.Checks — the acceptance condition of the key exchange, stated on the reply bodies
  (what C07's theorems are about), and the model's check sequence in the order of handshake.go (what
  the regenerated fact `Mtv.Gen.hsChecks` is compared with). Core-only.
-/
import Mtv.Handshake.Client
import Mtv.Handshake.Reg
namespace Mtv.Handshake
open Mtv Mtv.TL Mtv.Ige

/-- `tl.DecodeUnknownObject` as the receive loop applies it to a reply body -/
def decodeReply (c : Cfg) (r : Bytes) : Outcome Val := decodeUnknown c.R c.P.gunzip (fuelFor r) [] r

/-- the `new_nonce_hash1` the client expects, from its own draws and the DH values it was given:
`SHA1(new_nonce ‖ 0x01 ‖ SHA1(auth_key)[0:8])[4:20]`, `auth_key = g_a^b mod dh_prime` as 256 bytes -/
def expectedHash1 (c : Cfg) (xi : Inner) : Bytes :=
  let authKey := authKeyBytes (powMod (fromBE xi.ga) (fromBE c.d.b) (fromBE xi.dhPrime))
  slice (c.P.H (beBytes (fromBE c.d.newNonce) 32 ++ [1] ++ slice (c.P.H authKey) 0 8)) 4 20

/-- **All checks** on a sequence of three reply bodies, for a client with configuration `c`:
the three expected constructors (`resPQ`, `server_DH_params_ok`, `dh_gen_ok`) and
`server_DH_inner_data` inside the decrypted answer; the SHA-1 prefix match of the decrypted answer
(`decryptTemp … = ok`); the seven nonce / server_nonce equalities; a fingerprint of the configured key
among the offered ones; the `new_nonce_hash1` equality. -/
def AllChecks (c : Cfg) (r1 r2 r3 : Bytes) : Prop :=
  ∃ (v1 : Val) (x1 : ResPQ) (v2 : Val) (x2 : DHOk) (answer : Bytes) (vi : Val) (xi : Inner)
    (v3 : Val) (x3 : DHGen),
    -- expected constructors
    decodeReply c r1 = .ok v1 ∧ asResPQ v1 = some x1 ∧
    decodeReply c r2 = .ok v2 ∧ asDHOk v2 = some x2 ∧
    decodeReply c r3 = .ok v3 ∧ asDHGenOk v3 = some x3 ∧
    -- SHA-1 prefix of the decrypted answer matches at one of the 16 cut points
    decryptTemp c.P.H c.P.D x2.enc (fromBE c.d.newNonce) x1.serverNonce = .ok answer ∧
    decodeUnknown c.R c.P.gunzip (fuelFor answer) [] answer = .ok vi ∧ asInner vi = some xi ∧
    -- the seven nonce / server_nonce equalities
    x1.nonce = fromBE c.d.nonce ∧
    x2.nonce = fromBE c.d.nonce ∧ x2.serverNonce = x1.serverNonce ∧
    xi.nonce = fromBE c.d.nonce ∧ xi.serverNonce = x1.serverNonce ∧
    x3.nonce = fromBE c.d.nonce ∧ x3.serverNonce = x1.serverNonce ∧
    -- a fingerprint of the configured key is offered
    rsaFingerprint c.P.H c.key ∈ x1.fps ∧
    -- new_nonce_hash1
    beBytes x3.hash 16 = expectedHash1 c xi

/-- What the no-panic clause assumes of the client's own configuration and draws (never of the
replies): the registry resolves the ids of the exchange; SHA-1 returns 20 bytes; the draws have the
lengths `crypto/rand` delivers (16, 32) and `dry.RandomBytes` can deliver 15 padding bytes; the
configured RSA modulus is positive and fits 256 bytes; the factoring result consists of numbers not
larger than the number factored. -/
structure ClientSane (c : Cfg) : Prop where
  reg : HsReg c.R
  hlen : ∀ x, (c.P.H x).length = 20
  nonce : c.d.nonce.length = 16
  newNonce : c.d.newNonce.length = 32
  rnd : 15 ≤ c.d.rnd.length
  keyPos : 0 < c.key.n
  keyFit : c.key.n ≤ 256 ^ 256
  split : ∀ n p q, c.P.split n = some (p, q) → p ≤ n ∧ q ≤ n

/-- is this action the storing of a session? -/
def Action.isSave : Action → Bool
  | .saveSession _ _ _ => true
  | _ => false

def Action.isSendEnc : Action → Bool
  | .sendEnc _ => true
  | _ => false

/-! ### the check sequence of `makeAuthKey`, in source order

One entry per statement of `makeAuthKey` that decides how the exchange goes on: requests, early
returns with their conditions (as the source text of the condition), the fingerprint loop, the
state changes at the end. `Mtv.Gen.hsChecks` is extracted from handshake.go by go/ast on every
run; `Mtv.Handshake.checks_match_source` (Props/C07) demands equality. The stage functions above
implement exactly these conditions, in this order. -/
def modelChecks : List String := [
  "set m.serviceModeActivated = true",
  "call m.reqPQ",
  "if err != nil: return error",
  "if nonceFirst.Cmp(res.Nonce.Int) != 0: return error",
  "set found = false",
  "range res.Fingerprints: if uint64(b) == binary.LittleEndian.Uint64(keys.RSAFingerprint(m.publicKey)): set found = true; break",
  "if !found: return error",
  "if pq.Cmp(big.NewInt(4)) < 0 || pq.ProbablyPrime(0): return error",
  "call math.SplitPQ",
  "call tl.Marshal",
  "call check",
  "call math.DoRSAencrypt",
  "call m.reqDHParams",
  "if err != nil: return error",
  "assert dhResponse.(*objects.ServerDHParamsOk)",
  "if !ok: return error",
  "if nonceFirst.Cmp(dhParams.Nonce.Int) != 0: return error",
  "if nonceServer.Cmp(dhParams.ServerNonce.Int) != 0: return error",
  "call decryptDHAnswer",
  "if err != nil: return error",
  "call tl.DecodeUnknownObject",
  "if err != nil: return error",
  "assert data.(*objects.ServerDHInnerData)",
  "if !ok: return error",
  "if nonceFirst.Cmp(dhi.Nonce.Int) != 0: return error",
  "if nonceServer.Cmp(dhi.ServerNonce.Int) != 0: return error",
  "if big.NewInt(0).SetBytes(dhi.DhPrime).Sign() == 0: return error",
  "call math.MakeGAB",
  "if len(authKey) < 256: set authKey = append(make([]byte, 256-len(authKey)), authKey...)",
  "call m.SetAuthKey",
  "set m.serverSalt = int64(binary.LittleEndian.Uint64(salt))",
  "call tl.Marshal",
  "call check",
  "call ige.EncryptMessageWithTempKeys",
  "call m.setClientDHParams",
  "if err != nil: return error",
  "assert dhGenStatus.(*objects.DHGenOk)",
  "if !ok: return error",
  "if nonceFirst.Cmp(dhg.Nonce.Int) != 0: return error",
  "if nonceServer.Cmp(dhg.ServerNonce.Int) != 0: return error",
  "if gotHash1 := dry.BigIntBytes(dhg.NewNonceHash1.Int, 128); !bytes.Equal(nonceHash1, gotHash1): return error",
  "set m.serviceModeActivated = false",
  "set m.encrypted = true",
  "call m.SaveSession",
  "return"
]

/-- the Go types implementing `objects.ServerDHParams` / `objects.SetClientDHParamsAnswer` (what the
interface assertions of the request wrappers let through), by constructor id -/
def modelServerDHParams : List Nat := [idDHFail, idDHOk]
def modelSetClientDHAnswer : List Nat := [idDHGenOk, idDHGenRetry, idDHGenFail]

/-- the type assertion each request wrapper of objects/methods.go applies to the answer -/
def modelWrapperAsserts : List String := [
  "ReqPQ: data.(*ResPQ)",
  "ReqDHParams: data.(ServerDHParams)",
  "SetClientDHParams: data.(SetClientDHParamsAnswer)"
]

/-- the cases of the type switch in `makeRequest`: an `rpc_error` is turned into an error (or a
migration), a changed session configuration repeats the request, a `bad_msg_notification` for the
request is returned as an error (`*BadMsgError`; produced by the dispatcher of ENCRYPTED messages only,
never in service mode), an undecodable answer is returned as an error; every other object is handed
to the caller -/
def modelServiceCases : List String := [
  "case *objects.RpcError: return m.makeRequest(data, expectedTypes...)",
  "case *errorSessionConfigsChanged: return m.makeRequest(data, expectedTypes...)",
  "case *BadMsgError: return nil, r",
  "case *errorUndecodableResponse: return nil, r"
]

end Mtv.Handshake
