/-
  Mtv.Handshake.Reg — what the handshake model expects of the TL registry: the constructor
  descriptors (id, Go type, field list) of the objects of the key exchange. `HsReg R` is a hypothesis
  of the theorems; that the registry regenerated from the working tree satisfies it is re-checked by
  the kernel on every run (`Mtv.Handshake.registry_hs`, Props/C07). Core-only.
-/
import Mtv.Handshake.Wire
namespace Mtv.Handshake
open Mtv Mtv.TL

def fI128 (nm : String) : FieldDesc := ⟨nm, .i128, none⟩
def fBytes (nm : String) : FieldDesc := ⟨nm, .bytes, none⟩

def dReqPQ : CtorDesc := ⟨idReqPQ, "objects.ReqPQParams", .struct, none, [], [fI128 "Nonce"]⟩
def dResPQ : CtorDesc := ⟨idResPQ, "objects.ResPQ", .struct, none, [],
  [fI128 "Nonce", fI128 "ServerNonce", fBytes "Pq", ⟨"Fingerprints", .vec .int64, none⟩]⟩
def dPQInner : CtorDesc := ⟨idPQInner, "objects.PQInnerData", .struct, none, [],
  [fBytes "Pq", fBytes "P", fBytes "Q", fI128 "Nonce", fI128 "ServerNonce", ⟨"NewNonce", .i256, none⟩]⟩
def dReqDH : CtorDesc := ⟨idReqDH, "objects.ReqDHParamsParams", .struct, none, [],
  [fI128 "Nonce", fI128 "ServerNonce", fBytes "P", fBytes "Q", ⟨"PublicKeyFingerprint", .int64, none⟩, fBytes "EncryptedData"]⟩
def dDHOk : CtorDesc := ⟨idDHOk, "objects.ServerDHParamsOk", .struct, none, [],
  [fI128 "Nonce", fI128 "ServerNonce", fBytes "EncryptedAnswer"]⟩
def dDHFail : CtorDesc := ⟨idDHFail, "objects.ServerDHParamsFail", .struct, none, [],
  [fI128 "Nonce", fI128 "ServerNonce", fI128 "NewNonceHash"]⟩
def dInner : CtorDesc := ⟨idInner, "objects.ServerDHInnerData", .struct, none, [],
  [fI128 "Nonce", fI128 "ServerNonce", ⟨"G", .int32, none⟩, fBytes "DhPrime", fBytes "GA", ⟨"ServerTime", .int32, none⟩]⟩
def dSetClientDH : CtorDesc := ⟨idSetClientDH, "objects.SetClientDHParamsParams", .struct, none, [],
  [fI128 "Nonce", fI128 "ServerNonce", fBytes "EncryptedData"]⟩
def dClientInner : CtorDesc := ⟨idClientInner, "objects.ClientDHInnerData", .struct, none, [],
  [fI128 "Nonce", fI128 "ServerNonce", ⟨"Retry", .int64, none⟩, fBytes "GB"]⟩
def dDHGenOk : CtorDesc := ⟨idDHGenOk, "objects.DHGenOk", .struct, none, [],
  [fI128 "Nonce", fI128 "ServerNonce", fI128 "NewNonceHash1"]⟩
def dDHGenRetry : CtorDesc := ⟨idDHGenRetry, "objects.DHGenRetry", .struct, none, [],
  [fI128 "Nonce", fI128 "ServerNonce", fI128 "NewNonceHash2"]⟩
def dDHGenFail : CtorDesc := ⟨idDHGenFail, "objects.DHGenFail", .struct, none, [],
  [fI128 "Nonce", fI128 "ServerNonce", fI128 "NewNonceHash3"]⟩
def dRpcError : CtorDesc := ⟨idRpcError, "objects.RpcError", .struct, none, [],
  [⟨"ErrorCode", .int32, none⟩, ⟨"ErrorMessage", .str, none⟩]⟩

def hsDescs : List CtorDesc :=
  [dReqPQ, dResPQ, dPQInner, dReqDH, dDHOk, dDHFail, dInner, dSetClientDH, dClientInner, dDHGenOk,
   dDHGenRetry, dDHGenFail, dRpcError]

/-- the registry resolves each id of the key exchange to the descriptor the model is written for -/
def HsReg (R : Registry) : Prop := ∀ d ∈ hsDescs, R.find d.id = some d

instance (R : Registry) : Decidable (HsReg R) := by unfold HsReg; exact inferInstance

end Mtv.Handshake
