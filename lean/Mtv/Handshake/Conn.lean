/-
  Mtv.Handshake.Conn — the life of a client object AROUND the key exchange: `(*MTProto).CreateConnection`
  (mtproto.go: dial, start the reading routine, `makeAuthKey` when the object holds no key, start the
  keep-alive routine) and what the reading routine started by `startReadingResponses` does when a read ends
  (a broken read is warned about and taken for an EOF; `switch err`: nil / context.Canceled / io.EOF → `Reconnect` / anything else → warning), as a step
  machine over NETWORK EVENTS that arrive once `CreateConnection` has returned.

  The point of this file is two rules of the code as repaired by pending_fixes/C07-failed-exchange-stops-routines.v2:
  (1) after an abandoned exchange the routines started for it are STOPPED (`m.stopRoutines()` on the error path of
  `CreateConnection`), and a stopped object enables no action at all: no dial, no frame, no store;
  (2) a reading routine that sees the server's EOF reconnects only when the object HOLDS A KEY (`keyAfterHangup`):
  without one it tells the waiting step of the exchange that no answer will come and ends - whenever the EOF is
  seen, also while `CreateConnection` is still on its way to returning the error. So the reading routine never
  starts a key exchange. The machine takes a flag `repaired`; `repaired = false` is the code before the repair (the
  reading routine stays, sees the server's EOF, reconnects and runs a NEW exchange behind the application's back)
  and is kept for the witness of the defect only.

  Modelled, not verified: what a RUNNING reading routine does with frames of an established encrypted session
  (other properties), goroutine scheduling, the 65 s read timeout, the keep-alive ticker (a `pinging` flag only).
  Core-only.
-/
import Mtv.Handshake.Client
namespace Mtv.Handshake
open Mtv

/-- what the network does to the client object after `CreateConnection` has returned -/
inductive NetEvent where
  /-- a frame arrives on the current connection -/
  | frame (body : Bytes)
  /-- the read returns `io.EOF`: the server closed (its side of) the connection. Should the reading routine
  dial again: `dialOk` says whether the server accepts, `next` holds the draws a new exchange would make -/
  | eof (dialOk : Bool) (next : Cfg)
  /-- the read fails otherwise (connection reset, read deadline, a frame cut short: `transport.ErrBroken`): a
  warning, then the routine goes on as after an EOF (`err = io.EOF` in front of the switch) -/
  | readError (dialOk : Bool) (next : Cfg)

/-- what the client object does on the network and to its store -/
inductive ConnAction where
  | dial
  | hs (a : Action)
  | warn
  deriving Repr, DecidableEq

structure ConnState where
  /-- configuration (draws) of the exchange `hs` belongs to -/
  cfg : Cfg
  /-- the exchange that ran last on this object (or is still waiting for replies) -/
  hs : HsState
  /-- the reading routine of the current connection runs (its context has not been cancelled) -/
  reading : Bool
  /-- the keep-alive routine runs -/
  pinging : Bool

/-- the end of `CreateConnection` after `makeAuthKey`: success → the keep-alive routine is started as well;
error → (repaired) `m.stopRoutines()`: nothing of this connection goes on working; a panic ends the process;
`none`: `makeAuthKey` is still waiting, the reading routine feeds it -/
def afterExchange (repaired : Bool) (cfg : Cfg) (st : HsState) : ConnState :=
  match st.result with
  | some (.ok ()) => { cfg := cfg, hs := st, reading := true, pinging := true }
  | some (.err _) => { cfg := cfg, hs := st, reading := !repaired, pinging := false }
  | some (.panic _) => { cfg := cfg, hs := st, reading := false, pinging := false }
  | none => { cfg := cfg, hs := st, reading := true, pinging := false }

/-- `CreateConnection` called by the application on an object that holds no key, the server answering the
exchange with `replies`: dial, reading routine, `makeAuthKey` -/
def createConnection (repaired : Bool) (c : Cfg) (replies : List Bytes) : ConnState × List ConnAction :=
  let r := hsRun c replies
  (afterExchange repaired c r.1, .dial :: r.2.map .hs)

/-- the `io.EOF` case of a RUNNING reading routine -/
def onEof (repaired : Bool) (s : ConnState) (dialOk : Bool) (next : Cfg) : ConnState × List ConnAction :=
  if repaired && !s.hs.encrypted then
    -- `keyAfterHangup`: no key, nothing to come back with. A step of the exchange that waits for an answer
    -- receives an error instead (`errorUndecodableResponse`), the exchange ends, the routines are stopped;
    -- otherwise the routine just ends
    if s.hs.serviceMode && s.hs.result.isNone then
      (afterExchange repaired s.cfg { s.hs with result := some (.err "badResponse") }, [])
    else ({ s with reading := false }, [])
  else
  -- `Reconnect`: `Disconnect` stops the routines of the connection, then `CreateConnection`
  if !dialOk then ({ s with reading := false, pinging := false }, [.dial, .warn]) else
  if s.hs.encrypted then ({ s with reading := true, pinging := true }, [.dial]) else
  let r := hsStart next
  (afterExchange repaired next r.1, .dial :: r.2.map .hs)

/-- one network event. A stopped object (`reading = false`) has nobody who would notice. -/
def connStep (repaired : Bool) (s : ConnState) : NetEvent → ConnState × List ConnAction
  | .frame body =>
    if !s.reading then (s, []) else
    if s.hs.serviceMode && s.hs.result.isNone then
      -- an exchange (started by `Reconnect` on the reading routine) waits for this reply
      let r := hsStep s.cfg s.hs body
      (afterExchange repaired s.cfg r.1, r.2.map .hs)
    else (s, [])
  | .eof dialOk next =>
    if !s.reading then (s, []) else onEof repaired s dialOk next
  | .readError dialOk next =>
    if !s.reading then (s, []) else
    let r := onEof repaired s dialOk next
    (r.1, .warn :: r.2)

def connFeed (repaired : Bool) : ConnState × List ConnAction → List NetEvent → ConnState × List ConnAction
  | sa, [] => sa
  | (s, acts), e :: es =>
    let r := connStep repaired s e
    connFeed repaired (r.1, acts ++ r.2) es

/-! ### the skeletons the source is compared with (`Mtv.Gen.hsCreateConn`, `Mtv.Gen.hsReaderCases`,
extracted by go/parser on every run; `Mtv.Handshake.conn_matches_source`) -/

/-- `CreateConnection`, in the notation of `modelChecks`: the reading routine is started BEFORE the exchange,
and the error path of the exchange stops the routines before it returns -/
def modelCreateConn : List String := [
  "set m.stopRoutines = cancelfunc",
  "call m.connect",
  "if err != nil: return error",
  "call m.startReadingResponses",
  "if !m.encrypted: set err = m.makeAuthKey(); if err != nil: do m.stopRoutines(); return error",
  "call m.startPinging",
  "return"
]

/-- the reading routine's `switch err`: EOF is answered with a `Reconnect` only when `keyAfterHangup` says so
(`reconnectAfterHangup`, D31: the `Reconnect` under the connection lock, skipped when somebody else has already
replaced the connection this routine was reading) -/
def modelReaderCases : List String := [
  "before switch: if errors.As(err, &broken): do m.warnError(broken); set err = io.EOF",
  "case nil: ",
  "case context.Canceled: return ",
  "case io.EOF: if !m.keyAfterHangup(ctx): return ; set err = m.reconnectAfterHangup(ctx); if err != nil: do m.warnError(errors.Wrap(err, \"can't reconnect\"))",
  "default: do m.warnError(err)"
]

/-- `keyAfterHangup`: true only once `m.encrypted` is set; until then: stopped → false; the waiting step of the
exchange told → false; otherwise look again -/
def modelKeyAfterHangup : List String := [
  "for !m.encrypted: stmt select { case <-ctx.Done(): return false case m.serviceChannel <- &errorUndecodableResponse{err: io.ErrUnexpectedEOF}: return false case <-time.After(50 * time.Millisecond): }",
  "return"
]

end Mtv.Handshake
