/-
  Mtv.Handshake.Wire — the TL objects of the key exchange as `Mtv.TL.Val`s (what `tl.Marshal` is given
  and what `tl.DecodeUnknownObject` returns), and the Go type assertions on decoded replies as
  views. Constructor ids as in internal/mtproto/objects; that the registry of the working tree
  gives these ids exactly these field lists is a regenerated-fact obligation (`Mtv.Props.C07`).
  Core-only.
-/
import Mtv.TL.Encode
import Mtv.TL.Decode
namespace Mtv.Handshake
open Mtv Mtv.TL

def idReqPQ : Nat := 0x60469778
def idResPQ : Nat := 0x05162463
def idPQInner : Nat := 0x83c95aec
def idReqDH : Nat := 0xd712e4be
def idDHOk : Nat := 0xd0e8075c
def idDHFail : Nat := 0x79cb045d
def idInner : Nat := 0xb5890dba
def idSetClientDH : Nat := 0xf5045f1f
def idClientInner : Nat := 0x6643b654
def idDHGenOk : Nat := 0x3bcbf734
def idDHGenRetry : Nat := 0x46dc1fb9
def idDHGenFail : Nat := 0xa69dae02
def idRpcError : Nat := 0x2144ca19

/-! ### what the client marshals -/

def vReqPQ (nonce : Nat) : Val := .obj idReqPQ [.big 16 nonce]

def vPQInner (pq p q : Bytes) (nonce sn nn : Nat) : Val :=
  .obj idPQInner [.bytes false pq, .bytes false p, .bytes false q, .big 16 nonce, .big 16 sn, .big 32 nn]

def vReqDH (nonce sn : Nat) (p q : Bytes) (fp : Nat) (enc : Bytes) : Val :=
  .obj idReqDH [.big 16 nonce, .big 16 sn, .bytes false p, .bytes false q, .long fp, .bytes false enc]

def vClientInner (nonce sn retry : Nat) (gb : Bytes) : Val :=
  .obj idClientInner [.big 16 nonce, .big 16 sn, .long retry, .bytes false gb]

def vSetClientDH (nonce sn : Nat) (enc : Bytes) : Val :=
  .obj idSetClientDH [.big 16 nonce, .big 16 sn, .bytes false enc]

/-! ### what a server marshals -/

def vResPQ (nonce sn : Nat) (pq : Bytes) (fps : List Nat) : Val :=
  .obj idResPQ [.big 16 nonce, .big 16 sn, .bytes false pq, .vec false (fps.map .long)]

def vDHOk (nonce sn : Nat) (enc : Bytes) : Val :=
  .obj idDHOk [.big 16 nonce, .big 16 sn, .bytes false enc]

def vInner (nonce sn g : Nat) (dhPrime ga : Bytes) (time : Nat) : Val :=
  .obj idInner [.big 16 nonce, .big 16 sn, .word g, .bytes false dhPrime, .bytes false ga, .word time]

def vDHGenOk (nonce sn h : Nat) : Val := .obj idDHGenOk [.big 16 nonce, .big 16 sn, .big 16 h]

/-! ### views: Go's type assertions and field reads on a decoded object

(`*tl.Int128` fields are `.big 16 _`: the decoder produces no other width for them.) -/

/-- the `[]int64` of `ResPQ.Fingerprints` as unsigned 64-bit patterns -/
def longsOf : List Val → List Nat
  | [] => []
  | .long n :: vs => n :: longsOf vs
  | _ :: vs => longsOf vs

structure ResPQ where
  nonce : Nat
  serverNonce : Nat
  pq : Bytes
  fps : List Nat
  deriving Repr, DecidableEq

/-- `data.(*objects.ResPQ)` -/
def asResPQ : Val → Option ResPQ
  | .obj id [.big 16 n, .big 16 s, .bytes _ pq, .vec _ fps] =>
    if id = idResPQ then some ⟨n, s, pq, longsOf fps⟩ else none
  | _ => none

structure DHOk where
  nonce : Nat
  serverNonce : Nat
  enc : Bytes
  deriving Repr, DecidableEq

/-- `dhResponse.(*objects.ServerDHParamsOk)` -/
def asDHOk : Val → Option DHOk
  | .obj id [.big 16 n, .big 16 s, .bytes _ enc] => if id = idDHOk then some ⟨n, s, enc⟩ else none
  | _ => none

structure Inner where
  nonce : Nat
  serverNonce : Nat
  g : Nat
  dhPrime : Bytes
  ga : Bytes
  deriving Repr, DecidableEq

/-- `data.(*objects.ServerDHInnerData)` -/
def asInner : Val → Option Inner
  | .obj id [.big 16 n, .big 16 s, .word g, .bytes _ dp, .bytes _ ga, .word _] =>
    if id = idInner then some ⟨n, s, g, dp, ga⟩ else none
  | _ => none

structure DHGen where
  nonce : Nat
  serverNonce : Nat
  hash : Nat
  deriving Repr, DecidableEq

/-- `dhGenStatus.(*objects.DHGenOk)` -/
def asDHGenOk : Val → Option DHGen
  | .obj id [.big 16 n, .big 16 s, .big 16 h] => if id = idDHGenOk then some ⟨n, s, h⟩ else none
  | _ => none

def objId : Val → Option Nat
  | .obj id _ => some id
  | _ => none

/-- `data.(objects.ServerDHParams)`: the two types implementing the interface -/
def isServerDHParams (v : Val) : Bool := objId v == some idDHFail || objId v == some idDHOk

/-- `data.(objects.SetClientDHParamsAnswer)`: the three types implementing the interface -/
def isSetClientDHAnswer (v : Val) : Bool :=
  objId v == some idDHGenOk || objId v == some idDHGenRetry || objId v == some idDHGenFail

/-- decoder fuel: far above what any object of the exchange needs -/
def fuelFor (bs : Bytes) : Nat := 64 * bs.length + 4096

end Mtv.Handshake
