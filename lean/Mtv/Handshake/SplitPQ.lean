/-
  Mtv.Handshake.SplitPQ — `math.SplitPQ` (internal/math/math.go), the Pollard-rho / Brent factoring of
  `pq` that `makeAuthKey` calls behind its guard, over `Nat`, statement by statement.

      SplitPQ(pq)                                     splitPQ fuel draws pq
      ── the inner double-and-add loop                mulAddLoop / mulAddMod
      ── one pass of `for j < lim && flag`            rhoStep
      ── `for j < lim && flag`                        rhoLoop          (lim = 1 << (uint(i)+18))
      ── `for !(g > 1 && g < what)` with fresh draws  outerLoop        (fuel = number of rounds)
      ── p1 = g, p2 = what / g, swap                  splitTail

  What stands for what:
    * `*big.Int` values are `Nat`s (all values of the function are non-negative: the only
      subtractions are `c - what` after `c >= what`, `a - what` after `a >= what`, `what + x - y` with
      `y < what`, `x - y` after `x >= y`, and `what - 1`, which is reached only for `what ≥ 1`);
      `Cmp` is `<`/`≥`, `And` is `&&&`, `Rsh(b, 1)` is `>>> 1`, `GCD(nil, nil, z, what)` is `Nat.gcd`
      (Go: `GCD(0, b) = b`, as `Nat.gcd 0 b = b`), `Div` is `/`, `Mod` is `%` — EXCEPT that a zero
      divisor is a run-time panic in Go ("division by zero") and a `.panic` outcome here, never the
      `x % 0 = x` of Lean.
    * `rnd` (math/rand seeded with the clock) is an arbitrary stream `draws : Nat → Nat × Nat`:
      round `i` of the outer loop takes `draws i = (r1, r2)` for its two `Rand(rnd, 2^64)` calls. The
      theorems quantify over ALL streams (also values ≥ 2^64, which Go cannot draw).
    * the outer loop has no bound in Go. `fuel` is the number of rounds the model runs; when the loop
      condition still holds after `fuel` rounds the outcome is `.running` ("the Go call has not
      returned yet"), which is neither a result nor an error. On a prime `pq ≥ 2` the Go call never
      returns (`splitPQ_prime_runs`, Props/C06); handshake.go refuses those before the call.
    * `lim := 1 << (uint(i) + 18)` is an `int` (64 bits on every platform the harness runs on):
      2^(i+18) up to i = 44; for i = 45 the shift gives −2^63 and from i = 46 on 0, and `j < lim` is
      false from the start (`j = 1`): the middle loop does not run and `g` keeps its value.
    * the middle and the inner loop terminate on their own; their `fuel` arguments are set to values
      that are never exhausted (`mulAddLoop`: `b` halves, `b < 2^b`; `rhoLoop`: `j` counts up to
      `lim`) — `rhoLoop_fuel`, `mulAddMod_spec` (Lemmas/C06SplitPQ).

  Inputs the guard in front of the call excludes (handshake.go: `pq.Cmp(big.NewInt(4)) < 0 ||
  pq.ProbablyPrime(0)` ⇒ "pq is not a product of two primes"): 0 and 1 (division by zero here), 2 and
  3 and every larger prime (never returns). `guardedSplit` is guard + call, the value the client
  machine's `split` parameter stands for.

  `modelSplitPQ` at the end is the statement skeleton of the Go function this file was written
  against; `Mtv.Gen.splitPQSource` is extracted from math.go on every run (harness/cmd/c06facts) and
  `Mtv.Handshake.splitpq_matches_source` (Props/C06) demands equality.
  Core-only.
-/
namespace Mtv.Handshake

/-- how a call of `math.SplitPQ` stands after `fuel` rounds of its outer loop -/
inductive SplitResult where
  /-- returned `(p1, p2)` -/
  | ok (r : Nat × Nat)
  /-- a Go run-time panic at `site` -/
  | panic (site : String)
  /-- the outer loop is still going round -/
  | running
  deriving Repr, DecidableEq

/-! ### the inner loop: `c + a·b mod what` by doubling and adding -/

/-- ```
for b.Cmp(big0) == 1 {
    b2 := big.NewInt(0)
    if b2.And(b, big1).Cmp(big0) == 1 { c.Add(c, a); if c.Cmp(what) >= 0 { c.Sub(c, what) } }
    a.Add(a, a); if a.Cmp(what) >= 0 { a.Sub(a, what) }
    b.Rsh(b, 1)
}
``` -/
def mulAddLoop (what : Nat) : Nat → Nat → Nat → Nat → Nat
  | 0, _, _, c => c
  | fuel + 1, a, b, c =>
    if b > 0 then
      let c := if b &&& 1 > 0 then (let c := c + a; if c ≥ what then c - what else c) else c
      let a := a + a
      let a := if a ≥ what then a - what else a
      mulAddLoop what fuel a (b >>> 1) c
    else c

/-- the loop run to its end (`b` is halved in every pass: `b` passes are more than it takes) -/
def mulAddMod (what a b c : Nat) : Nat := mulAddLoop what b a b c

/-! ### the middle loop: Brent's cycle search -/

/-- the variables of `for j < lim && flag` -/
structure Rho where
  x : Nat
  y : Nat
  g : Nat
  j : Nat
  flag : Bool
  deriving Repr, DecidableEq

/-- one pass: `a, b, c := x, x, q`; inner loop; `x.Set(c)`; `z = x − y` (`what + x − y` when `x < y`);
`g.GCD(nil, nil, z, what)`; `if j&(j-1) == 0 { y.Set(x) }`; `j++`; `if g.Cmp(big1) != 0 { flag = false }` -/
def rhoStep (what q : Nat) (s : Rho) : Rho :=
  let x := mulAddMod what s.x s.x q
  let z := if x < s.y then what + x - s.y else x - s.y
  let g := Nat.gcd z what
  let y := if s.j &&& (s.j - 1) = 0 then x else s.y
  { x := x, y := y, g := g, j := s.j + 1, flag := if g ≠ 1 then false else s.flag }

/-- `for j < lim && flag { … }`; the value is the state at the exit -/
def rhoLoop (what q lim : Nat) : Nat → Rho → Rho
  | 0, s => s
  | fuel + 1, s => if s.j < lim && s.flag then rhoLoop what q lim fuel (rhoStep what q s) else s

/-- `lim := 1 << (uint(i) + 18)` as a 64-bit `int`, as far as `j < lim` (with `j ≥ 1`) can tell:
−2^63 (i = 45) and 0 (i ≥ 46) both mean "the loop does not run" -/
def limOf (i : Nat) : Nat := if i + 18 ≤ 62 then 2 ^ (i + 18) else 0

/-! ### the tail and the outer loop -/

/-- `p1 = g; p2 = what / g; if p1.Cmp(p2) == 1 { p1, p2 = p2, p1 }` (reached with `g > 1` only) -/
def splitTail (what g : Nat) : Nat × Nat :=
  let p1 := g
  let p2 := what / g
  if p1 > p2 then (p2, p1) else (p1, p2)

def siteModWhat : String := "internal/math.SplitPQ: q.Mod(q, what): division by zero"
def siteModWhatnext : String := "internal/math.SplitPQ: x.Mod(x, whatnext): division by zero"

/-- `for !(g.Cmp(big1) == 1 && g.Cmp(what) == -1) { … i++ }`, `fuel` rounds of it, then the tail.
Round `i` draws `(r1, r2) = draws i`: `q = ((r1 & 15) + 17) mod what`, `x = r2 mod (what − 1) + 1`,
`y = x`, `j = 1`, `flag = true`. -/
def outerLoop (what : Nat) (draws : Nat → Nat × Nat) : Nat → Nat → Nat → SplitResult
  | 0, _, g => if g > 1 && g < what then .ok (splitTail what g) else .running
  | fuel + 1, i, g =>
    if g > 1 && g < what then .ok (splitTail what g)
    else
      let r := draws i
      if what = 0 then .panic siteModWhat
      else
        let q := ((r.1 &&& 15) + 17) % what
        let whatnext := what - 1
        if whatnext = 0 then .panic siteModWhatnext
        else
          let x := r.2 % whatnext + 1
          let s := rhoLoop what q (limOf i) (limOf i) { x := x, y := x, g := g, j := 1, flag := true }
          outerLoop what draws fuel (i + 1) s.g

/-- `math.SplitPQ(pq)`: `what = pq`, `g = 0`, `i = 0` -/
def splitPQ (fuel : Nat) (draws : Nat → Nat × Nat) (pq : Nat) : SplitResult :=
  outerLoop pq draws fuel 0 0

/-- The guard of handshake.go and the call behind it — what `Prims.split` stands for:
`if pq.Cmp(big.NewInt(4)) < 0 || pq.ProbablyPrime(0) { return error }; p, q := math.SplitPQ(pq)`.
`probablyPrime` is `big.Int.ProbablyPrime(0)` (math/big, not modelled: a Baillie-PSW test, exact
below 2^64 by its documentation). `none` = the exchange is refused. The client machine has no state
"still factoring": a call that has not returned within `fuel` rounds is mapped to `none` as well
(`guardedSplit_none`, Lemmas/C06SplitPQ, says exactly when); the theorems that rely on a result
(`hs_agree_splitPQ`) assume `.ok`, those of C07 hold for every `split`. A panic cannot occur behind the
guard (`splitPQ_no_panic`). -/
def guardedSplit (probablyPrime : Nat → Bool) (fuel : Nat) (draws : Nat → Nat × Nat) (pq : Nat) :
    Option (Nat × Nat) :=
  if pq < 4 || probablyPrime pq then none
  else
    match splitPQ fuel draws pq with
    | .ok r => some r
    | .panic _ => none
    | .running => none

/-! ### the statement skeleton of the source this model was written against

One entry per import and per package-level variable the function refers to, its signature, and one per
statement of its body in source order, nesting shown by the leading dots; extracted from internal/math/math.go by go/parser
on every run (`Mtv.Gen.splitPQSource`). -/
def modelSplitPQ : List String := [
  "import big math/big",
  "import rand math/rand",
  "import time time",
  "var big0 = big.NewInt(0)",
  "var big1 = big.NewInt(1)",
  "var big15 = big.NewInt(15)",
  "var big17 = big.NewInt(17)",
  "func SplitPQ(pq *big.Int) (p1, p2 *big.Int)",
  ". rndmax := big.NewInt(0).SetBit(big.NewInt(0), 64, 1)",
  ". what := big.NewInt(0).Set(pq)",
  ". rnd := rand.New(rand.NewSource(time.Now().UnixNano()))",
  ". g := big.NewInt(0)",
  ". i := 0",
  ". for !(g.Cmp(big1) == 1 && g.Cmp(what) == -1) {",
  ". . q := big.NewInt(0).Rand(rnd, rndmax)",
  ". . q = q.And(q, big15)",
  ". . q = q.Add(q, big17)",
  ". . q = q.Mod(q, what)",
  ". . x := big.NewInt(0).Rand(rnd, rndmax)",
  ". . whatnext := big.NewInt(0).Sub(what, big1)",
  ". . x = x.Mod(x, whatnext)",
  ". . x = x.Add(x, big1)",
  ". . y := big.NewInt(0).Set(x)",
  ". . lim := 1 << (uint(i) + 18)",
  ". . j := 1",
  ". . flag := true",
  ". . for j < lim && flag {",
  ". . . a := big.NewInt(0).Set(x)",
  ". . . b := big.NewInt(0).Set(x)",
  ". . . c := big.NewInt(0).Set(q)",
  ". . . for b.Cmp(big0) == 1 {",
  ". . . . b2 := big.NewInt(0)",
  ". . . . if b2.And(b, big1).Cmp(big0) == 1 {",
  ". . . . . c.Add(c, a)",
  ". . . . . if c.Cmp(what) >= 0 {",
  ". . . . . . c.Sub(c, what)",
  ". . . . . }",
  ". . . . }",
  ". . . . a.Add(a, a)",
  ". . . . if a.Cmp(what) >= 0 {",
  ". . . . . a.Sub(a, what)",
  ". . . . }",
  ". . . . b.Rsh(b, 1)",
  ". . . }",
  ". . . x.Set(c)",
  ". . . z := big.NewInt(0)",
  ". . . if x.Cmp(y) == -1 {",
  ". . . . z.Add(what, x)",
  ". . . . z.Sub(z, y)",
  ". . . } else {",
  ". . . . z.Sub(x, y)",
  ". . . }",
  ". . . g.GCD(nil, nil, z, what)",
  ". . . if (j & (j - 1)) == 0 {",
  ". . . . y.Set(x)",
  ". . . }",
  ". . . j++",
  ". . . if g.Cmp(big1) != 0 {",
  ". . . . flag = false",
  ". . . }",
  ". . }",
  ". . i++",
  ". }",
  ". p1 = big.NewInt(0).Set(g)",
  ". p2 = big.NewInt(0).Div(what, g)",
  ". if p1.Cmp(p2) == 1 {",
  ". . p1, p2 = p2, p1",
  ". }",
  ". return p1, p2"
]

end Mtv.Handshake
