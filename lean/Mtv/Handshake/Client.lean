/-
  Mtv.Handshake.Client — the pure content of `(*MTProto).makeAuthKey` (handshake.go) together with
  the service-mode path of `readMsg`/`makeRequest` (mtproto.go) and the request wrappers of
  internal/mtproto/objects/methods.go, as a step machine over the server's reply bodies:

      hsStart : Cfg → HsState × List Action                 -- up to the first request
      hsStep  : Cfg → HsState → Bytes → HsState × List Action   -- one reply body in
      hsRun   : Cfg → List Bytes → HsState × List Action

  in the code's order of statements, checks and early returns, for the code AS REPAIRED by
  pending_fixes/C06-*.patch and C07-*.patch. Where the Go code returns an error the machine ends
  with `Outcome.err kind`, where it panics with `Outcome.panic site`; `result = none` means that
  `makeAuthKey` is still waiting for a reply (Go: blocked on the service channel).

  Parameters (`Prims`): SHA-1 `H`, the AES-256 block functions `E D : key → block → block`, gzip
  decompression for the TL decoder, and `split`, the result of the pq guard + `math.SplitPQ`
  (`none`: pq is below 4 or prime and the exchange is refused; `some (p, q)`: the two factors).
  The client's random draws are data (`Draws`): the bytes `crypto/rand` delivers for nonce,
  new_nonce and the DH exponent, and the bytes `dry.RandomBytes` delivers for the padding.
  Core-only.
-/
import Mtv.Handshake.Num
import Mtv.Handshake.Wire
namespace Mtv.Handshake
open Mtv Mtv.TL Mtv.Ige

structure Prims where
  H : Bytes → Bytes
  E : Bytes → Bytes → Bytes
  D : Bytes → Bytes → Bytes
  split : Nat → Option (Nat × Nat)
  gunzip : Bytes → Option Bytes

structure PubKey where
  n : Nat
  e : Nat

structure Draws where
  nonce : Bytes      -- 16 bytes from crypto/rand (tl.RandomInt128)
  newNonce : Bytes   -- 32 bytes (tl.RandomInt256)
  b : Bytes          -- 256 bytes: crypto/rand.Int(Reader, 2^2048)
  rnd : Bytes        -- what dry.RandomBytes delivers (padding of the client's DH message)

structure Cfg where
  R : Registry
  P : Prims
  key : PubKey
  d : Draws

inductive Action where
  | sendPlain (body : Bytes)
  | sendEnc (body : Bytes)
  | saveSession (key hash : Bytes) (salt : Nat)
  | setEncrypted
  deriving Repr, DecidableEq

structure HsState where
  /-- replies consumed so far -/
  stage : Nat := 0
  serviceMode : Bool := false
  encrypted : Bool := false
  authKey : Bytes := []
  authKeyHash : Bytes := []
  /-- `serverSalt` as an unsigned 64-bit pattern -/
  salt : Nat := 0
  serverNonce : Nat := 0
  nonceHash1 : Bytes := []
  /-- `some o`: `makeAuthKey` has returned (`ok`, `err kind`) or panicked; `none`: still running -/
  result : Option (Outcome Unit) := none

/-- why a stage ends the exchange -/
inductive Abort where
  | err (kind : String)
  | panic (site : String)
  deriving Repr, DecidableEq

abbrev M := Except Abort

def Abort.toOutcome : Abort → Outcome Unit
  | .err k => .err k
  | .panic s => .panic s

/-- `tl.Marshal` followed by `check(err)` -/
def marshalCheck (R : Registry) (v : Val) : M Bytes :=
  match marshal R v with
  | .ok bs => .ok bs
  | .err _ => .error (.panic "check")
  | .panic s => .error (.panic s)

/-- `tl.Marshal` inside `sendPacket`: an error is returned ("encoding request message") -/
def marshalSend (R : Registry) (v : Val) : M Bytes :=
  match marshal R v with
  | .ok bs => .ok bs
  | .err _ => .error (.err "encodeRequest")
  | .panic s => .error (.panic s)

def liftPanic {α} : Outcome α → M α
  | .ok a => .ok a
  | .err e => .error (.err e)
  | .panic s => .error (.panic s)

/-- `keys.RSAFingerprint`: SHA-1 of the TL strings of `n` and `e` (the encoder's error is sticky: a
string it refuses leaves the buffer as it is), bytes 12..20 -/
def rsaFingerprintBytes (H : Bytes → Bytes) (k : PubKey) : Bytes :=
  let buf : Bytes :=
    match putMessage (bigBytes k.n) with
    | .ok a =>
      (match putMessage (bigBytes k.e) with
       | .ok b => a ++ b
       | _ => a)
    | _ => []
  slice (H buf) 12 20

/-- `binary.LittleEndian.Uint64(keys.RSAFingerprint(key))` -/
def rsaFingerprint (H : Bytes → Bytes) (k : PubKey) : Nat := fromLE (rsaFingerprintBytes H k)

/-- What reaches `makeRequest` from the service channel for one reply body: the receive loop decodes
it (`tl.DecodeUnknownObject`); a body it cannot decode is handed over as an error
(`errorUndecodableResponse`), which `makeRequest` returns; an `rpc_error` becomes an error as well.
(An rpc_error whose text is PHONE_MIGRATE_n makes the real client reconnect to another data centre;
that path is outside this model.) A panic of the decoder would end the process (`recv`). -/
def recvService (c : Cfg) (reply : Bytes) : M Val :=
  match decodeUnknown c.R c.P.gunzip (fuelFor reply) [] reply with
  | .err _ => .error (.err "badResponse")
  | .panic _ => .error (.panic "recv")
  | .ok v => if objId v = some idRpcError then .error (.err "rpcError") else .ok v

/-! ### stage 1: resPQ in, req_DH_params out -/

structure S1 where
  serverNonce : Nat
  req : Bytes

def stage1 (c : Cfg) (reply : Bytes) : M S1 := do
  let v ← recvService c reply
  -- objects.ReqPQ: data.(*ResPQ)
  let res ← match asResPQ v with
    | some r => pure r
    | none => throw (.err "invalidType")
  let nonce := fromBE c.d.nonce
  if nonce ≠ res.nonce then throw (.err "wrongNonce")
  let fp := rsaFingerprint c.P.H c.key
  if !res.fps.contains fp then throw (.err "noFingerprint")
  let pq := fromBE res.pq
  let (p, q) ← match c.P.split pq with
    | some x => pure x
    | none => throw (.err "badPQ")
  let nn := fromBE c.d.newNonce
  let sn := res.serverNonce
  let message ← marshalCheck c.R (vPQInner res.pq (bigBytes p) (bigBytes q) nonce sn nn)
  let hashAndMsg := copyAt (zeros 255) 0 (c.P.H message ++ message)
  let enc ← liftPanic (doRSAencrypt hashAndMsg c.key.n c.key.e)
  let req ← marshalSend c.R (vReqDH nonce sn (bigBytes p) (bigBytes q) fp enc)
  pure ⟨sn, req⟩

/-! ### stage 2: server_DH_params_ok in, set_client_DH_params out -/

structure S2 where
  authKey : Bytes
  authKeyHash : Bytes
  salt : Nat
  nonceHash1 : Bytes
  req : Bytes

/-- `decryptDHAnswer`: the panics of `DecryptMessageWithTempKeys` become an error -/
def decryptDHAnswer (c : Cfg) (enc : Bytes) (nn sn : Nat) : M Bytes :=
  match decryptTemp c.P.H c.P.D enc nn sn with
  | .ok a => .ok a
  | .err _ => .error (.err "badAnswer")
  | .panic _ => .error (.err "badAnswer")

def stage2 (c : Cfg) (sn : Nat) (reply : Bytes) : M S2 := do
  let v ← recvService c reply
  -- objects.ReqDHParams: data.(ServerDHParams)
  if !isServerDHParams v then throw (.err "invalidType")
  let dh ← match asDHOk v with
    | some r => pure r
    | none => throw (.err "needDHParamsOk")
  let nonce := fromBE c.d.nonce
  let nn := fromBE c.d.newNonce
  if nonce ≠ dh.nonce then throw (.err "wrongNonce")
  if sn ≠ dh.serverNonce then throw (.err "wrongServerNonce")
  let answer ← decryptDHAnswer c dh.enc nn sn
  let data ← match decodeUnknown c.R c.P.gunzip (fuelFor answer) [] answer with
    | .ok v => pure v
    | .err _ => throw (.err "decodeAnswer")
    | .panic s => throw (.panic s)
  let dhi ← match asInner data with
    | some r => pure r
    | none => throw (.err "needInnerData")
  if nonce ≠ dhi.nonce then throw (.err "wrongNonce")
  if sn ≠ dhi.serverNonce then throw (.err "wrongServerNonce")
  let P := fromBE dhi.dhPrime
  if P = 0 then throw (.err "badDH")
  -- math.MakeGAB
  let b := fromBE c.d.b
  let gB := powMod (baseOfG dhi.g P) b P
  let gAB := powMod (fromBE dhi.ga) b P
  let authKey := authKeyBytes gAB
  let keyHash := slice (c.P.H authKey) 12 20       -- m.SetAuthKey: utils.AuthKeyHash
  let nnB ← liftPanic (bigIntBytes nn 32)
  -- t4 (41 bytes): new_nonce (all 32 bytes), 1, SHA1(auth_key)[0:8] — the three copies fill it exactly
  let t4 := nnB ++ [1] ++ slice (c.P.H authKey) 0 8
  let nonceHash1 := slice (c.P.H t4) 4 20
  let snB ← liftPanic (bigIntBytes sn 16)
  let salt := fromLE (xorBytes (slice nnB 0 8) (slice snB 0 8))
  let clientDH ← marshalCheck c.R (vClientInner nonce sn 0 (bigBytes gB))
  let enc ← liftPanic (encryptTemp c.P.H c.P.E clientDH nn sn c.d.rnd)
  let req ← marshalSend c.R (vSetClientDH nonce sn enc)
  pure ⟨authKey, keyHash, salt, nonceHash1, req⟩

/-! ### stage 3: dh_gen_ok in -/

def stage3 (c : Cfg) (sn : Nat) (nonceHash1 : Bytes) (reply : Bytes) : M Unit := do
  let v ← recvService c reply
  -- objects.SetClientDHParams: data.(SetClientDHParamsAnswer)
  if !isSetClientDHAnswer v then throw (.err "invalidType")
  let dhg ← match asDHGenOk v with
    | some r => pure r
    | none => throw (.err "needDHGenOk")
  let nonce := fromBE c.d.nonce
  if nonce ≠ dhg.nonce then throw (.err "wrongNonce")
  if sn ≠ dhg.serverNonce then throw (.err "wrongServerNonce")
  let got ← liftPanic (bigIntBytes dhg.hash 16)
  if nonceHash1 ≠ got then throw (.err "wrongHash")
  pure ()

/-! ### the machine -/

/-- `sendPacket` wraps the body by the mode the client is in -/
def sendAction (st : HsState) (body : Bytes) : Action :=
  if st.encrypted then .sendEnc body else .sendPlain body

def finish (st : HsState) (o : Outcome Unit) : HsState × List Action :=
  ({ st with result := some o }, [])

/-- `makeAuthKey` up to the first request: service mode on, nonce drawn, `req_pq` sent -/
def hsStart (c : Cfg) : HsState × List Action :=
  let st : HsState := { serviceMode := true }
  match marshalSend c.R (vReqPQ (fromBE c.d.nonce)) with
  | .ok req => (st, [sendAction st req])
  | .error a => finish st a.toOutcome

/-- one reply body delivered to the waiting `makeAuthKey` -/
def hsStep (c : Cfg) (st : HsState) (reply : Bytes) : HsState × List Action :=
  match st.result with
  | some _ => (st, [])                      -- already returned: nobody is waiting
  | none =>
    match st.stage with
    | 0 =>
      match stage1 c reply with
      | .error a => finish { st with stage := 1 } a.toOutcome
      | .ok s => let st' := { st with stage := 1, serverNonce := s.serverNonce }
                 (st', [sendAction st' s.req])
    | 1 =>
      match stage2 c st.serverNonce reply with
      | .error a => finish { st with stage := 2 } a.toOutcome
      | .ok s =>
        let st' := { st with stage := 2, authKey := s.authKey, authKeyHash := s.authKeyHash,
                             salt := s.salt, nonceHash1 := s.nonceHash1 }
        (st', [sendAction st' s.req])
    | 2 =>
      match stage3 c st.serverNonce st.nonceHash1 reply with
      | .error a => finish { st with stage := 3 } a.toOutcome
      | .ok _ =>
        -- (all ok): service mode off, encrypted on, session saved
        let st' := { st with stage := 3, serviceMode := false, encrypted := true, result := some (.ok ()) }
        (st', [.setEncrypted, .saveSession st.authKey st.authKeyHash st.salt])
    | _ => (st, [])

def hsFeed (c : Cfg) : HsState × List Action → List Bytes → HsState × List Action
  | sa, [] => sa
  | (st, acts), r :: rs =>
    let (st', a) := hsStep c st r
    hsFeed c (st', acts ++ a) rs

/-- the whole run against a list of reply bodies -/
def hsRun (c : Cfg) (replies : List Bytes) : HsState × List Action := hsFeed c (hsStart c) replies

end Mtv.Handshake
