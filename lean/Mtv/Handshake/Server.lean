/-
  Mtv.Handshake.Server — `ServerSpec`: a CONFORMANT key-exchange server as functions of its own
  secrets, written from the protocol description (core.telegram.org/mtproto/auth_key), and the
  composition `exchange` of the client machine with it.

  The server: (1) answers `req_pq` with `resPQ(nonce, server_nonce, pq, fingerprints)`; (2) on
  `req_DH_params` checks nonce, server_nonce, p, q and the fingerprint, decrypts `encrypted_data` with
  its RSA private exponent (`c^d mod n`, the 255-byte `data_with_hash`), checks the SHA-1 prefix and
  that `p_q_inner_data` repeats pq, p, q, nonce, server_nonce, takes `new_nonce`, derives the temporary
  key/IV from the definition, and answers `server_DH_params_ok` with
  `IGE(SHA1(answer) ‖ answer ‖ 0..15 padding bytes)`, `answer = server_DH_inner_data(nonce,
  server_nonce, g, dh_prime, g_a, server_time)`; (3) on `set_client_DH_params` checks the nonces,
  decrypts, checks the SHA-1 prefix, at most 15 padding bytes, nonce, server_nonce, `retry_id = 0`,
  `1 < g_b < dh_prime - 1`, computes `auth_key = g_b^a mod dh_prime` as 256 big-endian bytes,
  `new_nonce_hash1 = SHA1(new_nonce ‖ 0x01 ‖ SHA1(auth_key)[0:8])[4:20]`, answers `dh_gen_ok`; its
  salt is `new_nonce[0:8] xor server_nonce[0:8]`.

  The TL layer is shared with the client model (`Mtv.TL`); cipher, key derivation and padding are
  the *specification* functions of `Mtv.Ige` (`tempKeySpec`, `igeEncBytes`, `conformantMsg`), not
  the models of the client's code. Core-only.
-/
import Mtv.Handshake.Client
import Mtv.Handshake.Reg
import Mtv.TL.Typing
namespace Mtv.Handshake
open Mtv Mtv.TL Mtv.Ige

structure Secrets where
  /-- RSA private exponent -/
  d : Nat
  serverNonce : Nat
  p : Nat
  q : Nat
  g : Nat
  a : Nat
  dhPrime : Nat
  time : Nat
  /-- source of the answer's padding bytes (at least 15) -/
  pad : Bytes
  /-- send dh_prime and g_a without leading zero bytes instead of as 256 bytes -/
  minimal : Bool
  /-- fingerprints of other keys, offered in front of the right one -/
  extraFps : List Nat
  /-- fingerprints of other keys, offered after the right one -/
  laterFps : List Nat := []

/-- the fingerprints the server lists in `resPQ`: that of its key (`fp`) with those of its other keys
before and after it — the right one may stand anywhere in the list -/
def Secrets.offered (s : Secrets) (fp : Nat) : List Nat := s.extraFps ++ fp :: s.laterFps

/-- TL string: length header (one byte below 254, else 0xfe + 3 bytes), content, zero padding to 4 -/
def tlString (bs : Bytes) : Bytes :=
  if bs.length < 254 then UInt8.ofNat bs.length :: (bs ++ zeros ((4 - (1 + bs.length) % 4) % 4))
  else 0xfe :: (leBytes bs.length 3 ++ (bs ++ zeros ((4 - bs.length % 4) % 4)))

/-- fingerprint of an RSA key by the description: the 64 lower-order bits of the SHA-1 of the key
serialised as `n:string e:string` (minimal big-endian numbers) -/
def specFingerprint (H : Bytes → Bytes) (k : PubKey) : Nat :=
  fromLE (((H (tlString (bigBytes k.n) ++ tlString (bigBytes k.e))).drop 12).take 8)

/-- a 2048-bit number on the wire -/
def intBytes (minimal : Bool) (x : Nat) : Bytes := if minimal then bigBytes x else fixedBytes x 256

def specSalt (newNonce serverNonce : Bytes) : Nat := fromLE (xorBytes (newNonce.take 8) (serverNonce.take 8))

def specNonceHash (H : Bytes → Bytes) (newNonce : Bytes) (n : UInt8) (authKey : Bytes) : Bytes :=
  ((H (newNonce ++ [n] ++ (H authKey).take 8)).drop 4).take 16

/-- (1) `req_pq` → `resPQ`; returns the client's nonce and the reply body -/
def srvResPQ (R : Registry) (P : Prims) (key : PubKey) (s : Secrets) (req : Bytes) : Option (Nat × Bytes) :=
  match decodeUnknown R P.gunzip (fuelFor req) [] req with
  | .ok (.obj id [.big _ nonce]) =>
    if id = idReqPQ then
      match marshal R (vResPQ nonce s.serverNonce (bigBytes (s.p * s.q)) (s.offered (specFingerprint P.H key))) with
      | .ok r => some (nonce, r)
      | _ => none
    else none
  | _ => none

/-- the object at the head of `data` and the bytes it occupies -/
def headObject (R : Registry) (P : Prims) (data : Bytes) : Option (Val × Bytes × Bytes) :=
  match decRegistered R P.gunzip 0 (fuelFor data) data [] with
  | .ok (v, rest, _) => some (v, data.take (data.length - rest.length), rest)
  | _ => none

/-- (2) `req_DH_params` → `server_DH_params_ok`; returns new_nonce and the reply body -/
def srvDH (R : Registry) (P : Prims) (key : PubKey) (s : Secrets) (nonce : Nat) (req : Bytes) : Option (Nat × Bytes) :=
  match decodeUnknown R P.gunzip (fuelFor req) [] req with
  | .ok (.obj id [.big _ n, .big _ sn, .bytes _ pB, .bytes _ qB, .long fp, .bytes _ enc]) =>
    if id ≠ idReqDH ∨ n ≠ nonce ∨ sn ≠ s.serverNonce ∨ fromBE pB ≠ s.p ∨ fromBE qB ≠ s.q
        ∨ fp ≠ specFingerprint P.H key ∨ enc.length ≠ 256 then none
    else
      let m := powMod (fromBE enc) s.d key.n
      if ¬ m < 256 ^ 255 then none
      else
        let block := beBytes m 255
        match headObject R P (block.drop 20) with
        | some (.obj iid [.bytes _ ipq, .bytes _ ip, .bytes _ iq, .big _ inonce, .big _ isn, .big _ inew], body, _) =>
          if iid ≠ idPQInner ∨ P.H body ≠ block.take 20 ∨ ipq ≠ bigBytes (s.p * s.q) ∨ ip ≠ pB ∨ iq ≠ qB
              ∨ inonce ≠ nonce ∨ isn ≠ s.serverNonce then none
          else
            let ga := powMod s.g s.a s.dhPrime
            match marshal R (vInner nonce s.serverNonce s.g (intBytes s.minimal s.dhPrime) (intBytes s.minimal ga) s.time) with
            | .ok answer =>
              let pad := s.pad.take (tempPadLen (20 + answer.length))
              let encAnswer := conformantMsg P.H P.E (beBytes inew 32) (beBytes s.serverNonce 16) answer pad
              match marshal R (vDHOk nonce s.serverNonce encAnswer) with
              | .ok r => some (inew, r)
              | _ => none
            | _ => none
        | _ => none
  | _ => none

structure SrvResult where
  authKey : Bytes
  salt : Nat
  hash : Bytes
  deriving Repr, DecidableEq

/-- (3) `set_client_DH_params` → `dh_gen_ok`; returns what the server now holds and the reply body -/
def srvGen (R : Registry) (P : Prims) (s : Secrets) (nonce newNonce : Nat) (req : Bytes) : Option (SrvResult × Bytes) :=
  match decodeUnknown R P.gunzip (fuelFor req) [] req with
  | .ok (.obj id [.big _ n, .big _ sn, .bytes _ enc]) =>
    if id ≠ idSetClientDH ∨ n ≠ nonce ∨ sn ≠ s.serverNonce ∨ enc.length = 0 ∨ enc.length % 16 ≠ 0 then none
    else
      let nnB := beBytes newNonce 32
      let snB := beBytes s.serverNonce 16
      let (key, iv) := tempKeySpec P.H nnB snB
      let plain := igeDecBytes (P.D key) iv enc
      match headObject R P (plain.drop 20) with
      | some (.obj iid [.big _ inonce, .big _ isn, .long retry, .bytes _ gb], body, rest) =>
        let gB := fromBE gb
        if iid ≠ idClientInner ∨ P.H body ≠ plain.take 20 ∨ 15 < rest.length ∨ inonce ≠ nonce ∨ isn ≠ s.serverNonce
            ∨ retry ≠ 0 ∨ ¬ (1 < gB ∧ gB < s.dhPrime - 1) then none
        else
          let authKey := beBytes (powMod gB s.a s.dhPrime) 256
          let hash := specNonceHash P.H nnB 1 authKey
          match marshal R (vDHGenOk nonce s.serverNonce (fromBE hash)) with
          | .ok r => some (⟨authKey, specSalt nnB snB, hash⟩, r)
          | _ => none
      | _ => none
  | _ => none

structure Exchange where
  client : HsState
  actions : List Action
  /-- what the server holds after sending `dh_gen_ok`; `none`: it refused a request (or the client
  stopped asking) -/
  server : Option SrvResult

/-- the client machine against the conformant server -/
def exchange (c : Cfg) (s : Secrets) : Exchange :=
  let (st0, a0) := hsStart c
  match a0 with
  | [.sendPlain req1] =>
    match srvResPQ c.R c.P c.key s req1 with
    | none => ⟨st0, a0, none⟩
    | some (nonce, r1) =>
      let (st1, a1) := hsStep c st0 r1
      match a1 with
      | [.sendPlain req2] =>
        match srvDH c.R c.P c.key s nonce req2 with
        | none => ⟨st1, a0 ++ a1, none⟩
        | some (nn, r2) =>
          let (st2, a2) := hsStep c st1 r2
          match a2 with
          | [.sendPlain req3] =>
            match srvGen c.R c.P s nonce nn req3 with
            | none => ⟨st2, a0 ++ a1 ++ a2, none⟩
            | some (res, r3) =>
              let (st3, a3) := hsStep c st2 r3
              ⟨st3, a0 ++ a1 ++ a2 ++ a3, some res⟩
          | _ => ⟨st2, a0 ++ a1 ++ a2, none⟩
      | _ => ⟨st1, a0 ++ a1, none⟩
  | _ => ⟨st0, a0, none⟩

/-! ### the hypotheses of the agreement theorem (C06) -/

/-- the server's `server_DH_inner_data` for a client with configuration `c` -/
def srvAnswerVal (c : Cfg) (s : Secrets) : Val :=
  vInner (fromBE c.d.nonce) s.serverNonce s.g (intBytes s.minimal s.dhPrime)
    (intBytes s.minimal (powMod s.g s.a s.dhPrime)) s.time

/-- the client's `client_DH_inner_data` in an exchange with a server holding `s` -/
def cliInnerVal (c : Cfg) (s : Secrets) : Val :=
  vClientInner (fromBE c.d.nonce) s.serverNonce 0 (bigBytes (powMod s.g (fromBE c.d.b) s.dhPrime))

/-- Everything `hs_agree` assumes. About the parameters: the registry resolves the ids of the
exchange and has the shape the TL model is written for; SHA-1 returns 20 bytes; the block cipher is
a pair of mutually inverse length-preserving maps on 16-byte blocks under every key; the two
messages wrapped with SHA-1 + padding satisfy the cut-point assumption of C05. About the client: its
draws have the lengths `crypto/rand` / `dry.RandomBytes` deliver; its key is an RSA-2048 public key
(`2^2047 ≤ n < 2^2048`, `e` an `int`). About the server: `d` inverts `e` (`(m^e)^d ≡ m` below `n`);
`server_nonce` is 128 bits; `pq` is the product of `p < 2^32` and `q < 2^32` and the factoring
parameter returns them; `g` is a positive `int32`; `0 < dh_prime < 2^2048`; the padding source has 15
bytes; the further fingerprints (before and after the right one) are 64-bit. And the protocol's own validity condition on `g_b`
(`1 < g^b mod dh_prime < dh_prime − 1`), without which a conformant server must refuse.
NO condition on the leading bytes of any value. -/
structure ExchangeHyps (c : Cfg) (s : Secrets) : Prop where
  reg : HsReg c.R
  wfr : WFR c.R
  hlen : ∀ x, (c.P.H x).length = 20
  cipher : ∀ k, IsBlockCipher (c.P.E k) (c.P.D k)
  nonce : c.d.nonce.length = 16
  newNonce : c.d.newNonce.length = 32
  rnd : 15 ≤ c.d.rnd.length
  keyLo : 2 ^ 2047 ≤ c.key.n
  keyHi : c.key.n < 2 ^ 2048
  keyE : c.key.e < 2 ^ 63
  rsa : ∀ m, m < c.key.n → (m ^ c.key.e) ^ s.d % c.key.n = m
  serverNonce : s.serverNonce < 2 ^ 128
  p32 : s.p < 2 ^ 32
  q32 : s.q < 2 ^ 32
  split : c.P.split (s.p * s.q) = some (s.p, s.q)
  g : s.g < 2 ^ 31
  dhPos : 0 < s.dhPrime
  dhFit : s.dhPrime < 2 ^ 2048
  time : s.time < 2 ^ 32
  pad : 15 ≤ s.pad.length
  fps : ∀ f ∈ s.extraFps ++ s.laterFps, f < 2 ^ 64
  fpsLen : s.extraFps.length + 1 + s.laterFps.length < 2 ^ 32
  gb : 1 < powMod s.g (fromBE c.d.b) s.dhPrime ∧ powMod s.g (fromBE c.d.b) s.dhPrime < s.dhPrime - 1
  colAnswer : ∀ answer, marshal c.R (srvAnswerVal c s) = .ok answer →
    NoLongerCollision c.P.H answer (s.pad.take (tempPadLen (20 + answer.length)))
  colClient : ∀ msg, marshal c.R (cliInnerVal c s) = .ok msg →
    NoLongerCollision c.P.H msg (c.d.rnd.take (tempPadLen (20 + msg.length)))

end Mtv.Handshake
