"""C03 — the encrypted message envelope follows the MTProto 1.0 layout and key schedule."""
import vlib

SUB = "c03"
MODULES = ["Mtv.Props.C03"]
THEOREMS = [
    "Mtv.Envelope.kdf_schedule",
    "Mtv.Envelope.sealClient_layout",
    "Mtv.Envelope.sealClient_is_spec_sealing",
    "Mtv.Envelope.serverOpen_sealClient",
    "Mtv.Envelope.openClient_serverSeal",
    "Mtv.Envelope.unenc_layout",
    "Mtv.Envelope.unenc_roundtrip",
    "Mtv.Envelope.seal_sequence_independent",
    "Mtv.Envelope.open_sequence_independent",
    "Mtv.Envelope.seal_in_sequence_opens",
    "Mtv.Envelope.open_in_sequence_opens",
]
RULE = ("operations: c03.seal = real Encrypted.Serialize (random 256-byte keys, salt/session/msg_id/seq_no at their "
        "extremes and random, ack on and off, body lengths covering every residue mod 16 at the magnitudes 0, 16, 32, 240, "
        "1008, 4080, 16368, 65516..65536 in the quick tier; every length 0..4096, 1200 samples up to 2^16, 2^17..2^20 in the "
        "thorough tier), judged by an independent MTProto 1.0 server written in Go (direction 0: key id, key schedule, IGE, "
        "declared length, fewer than 16 padding bytes, msg_key, recovered fields); c03.open = a packet sealed by that server "
        "(direction 8, 0-15 random padding bytes) given to the real DeserializeEncrypted, which must return exactly the sealed "
        "fields; c03.kdf/msgkey/keyid = generateAESIGE (both offsets; key lengths around 128/136), MessageKey, AuthKeyHash "
        "against the specification; c03.userial/urt/udeser = Unencrypted.Serialize / DeserializeUnencrypted; c03.route / "
        "c03.uroute = a server-sealed packet / unencrypted message as one frame over loopback through the real "
        "transport.ReadMsg, msg_ids over the whole 64-bit range (every boundary value with both server parities and a "
        "client parity, random ids); c03.session = ONE transport reading a sequence of 2..12 server packets (the same packet "
        "twice and three times in a row, again later, the same msg_id sealed anew with other content, unencrypted "
        "messages and refused msg_ids in between; fixed shapes and random walks), each packet judged as a c03.route of "
        "its own — also with every frame written by the loopback peer in 1..k pieces (cuts inside the 4-byte length prefix, between "
        "prefix and packet, inside key id / msg_key / ciphertext, before the last byte, one byte at a time; 4 KB bodies in three "
        "pieces, 64 KB bodies in two and in one), a short pause after each piece, several packets per connection, and with 4-byte "
        "transport error-code frames (-404, -429, -444, other values, int32 extremes) before, between and after the packets in "
        "every order (fixed shapes and random walks mixing all of it): every conformant packet must come out of ReadMsg with its "
        "content; c03.par = 2 / 8 / 32 clients of one process sealing and opening at the same time, "
        "every packet judged by the specification's server (a fixed line when no call disturbs another); c03.mix = ONE process, one "
        "goroutine, a sequence of 2..18 envelope operations of two or three clients (own auth key, salt, session id each) mixing "
        "REFUSED and accepted ones on both sides — Serialize refused inside ige.Encrypt (nil / empty / 1..127-byte keys: no key "
        "yet, a damaged session file) before, between and several in a row before good-key sends (every residue of the accepted "
        "body mod 16, empty / 1 KB / 4 KB / 64 KB bodies refused or accepted), packets of 17 refusal classes (foreign or damaged key "
        "id, no ciphertext, not whole blocks, declared length beyond / negative, client-parity msg_id, msg_key not matching, "
        "flipped ciphertext / msg_key bit, auth key too short to open with, no key, fewer than 24 bytes, empty, client "
        "direction) given to DeserializeEncrypted before conformant server packets, refused and accepted unencrypted messages in "
        "between; fixed shapes and random walks, each in the modes nogc (debug.SetGCPercent(-1), goroutine locked to its thread: "
        "a sync.Pool keeps what a refused call put back), p1 (the same under GOMAXPROCS(1)) and gc (two collections before every "
        "step) — every accepted step judged by the specification's server / opener exactly as a c03.seal / c03.open of its own, "
        "every step compared with the model's answer for that step alone (seal_sequence_independent). distinct = "
        "distinct operation lines; every line is also run through the Lean model (executable SHA-1/AES/IGE) and compared")


def run(ctx):
    ctx.assumptions += [
        "SHA-1 and AES-256-IGE are parameters of the theorems (hypotheses Prims.Ok: digest length 20; IGE length-preserving and "
        "each direction inverting the other on non-empty block-aligned input under a 32-byte key and IV); C05 proves the IGE "
        "clauses for the model of the repository's loop, crypto/sha1 and crypto/aes are standard library",
        "the specification side (Spec.lean, and the Go oracle in x_envelope.go) was written from the MTProto 1.0 description; "
        "the two are compared with each other on every c03.open line",
        "the theorems speak about 256-byte auth keys (generateAESIGE panics below 128+x bytes; the model has that panic)",
    ]
    return vlib.generic_check(ctx, SUB, MODULES, THEOREMS, RULE,
                              extra_trusted=["the Go specification server of harness/cmd/vh/x_envelope.go (crypto/sha1, crypto/aes, own IGE loop)"])


def replay(ctx, path):
    return vlib.replay(ctx, SUB, path)
