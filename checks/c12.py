"""C12 — stored sessions are read back intact and let a restarted client resume."""
import vlib

SUB = "c12"
MODULES = ["Mtv.Props.C12"]
THEOREMS = [
    "Mtv.Session.base64_roundtrip",
    "Mtv.Session.salt_roundtrip",
    "Mtv.Session.read_write_session",
    "Mtv.Session.torn_is_error",
    "Mtv.Session.missing_is_notFound",
    "Mtv.Session.last_store_wins",
    "Mtv.Session.stale_cache_before_repair",
    "Mtv.Session.path_forms",
    "Mtv.Session.bare_name_before_repair",
    "Mtv.Session.resume_skips_exchange",
    "Mtv.Session.fresh_or_torn_start",
    "Mtv.Session.start_on_any_storage",
    "Mtv.Session.given_storage_is_used",
]
RULE = ("operations on real files in a per-run scratch directory through session.NewFromFile(...).Store/Load and "
        "mtproto.NewMTProto: round trips on six path shapes (absolute, relative, ./name, bare name; missing directory), "
        "also in a process whose TMPDIR names no directory / a regular file / a directory on another filesystem, "
        "Config with SessionStorage (file loader or an in-memory implementation, holding a session or nothing) and "
        "AuthKeyFile (unset / no file / another session's file / that file cut short / no directory) in every "
        "combination (c12.cfg: the client resumes with what the given storage holds, SaveSession lands in it, the "
        "other path stays as it was), store/load histories with forced (equal) modification "
        "times and up to three loaders (a loader whose last successful Load saw another modification time must "
        "behave like a fresh one), a loaded long-lived loader under another writer cut short at every byte, "
        "clients started one after another on ONE long-lived loader (item C: NewMTProto on it; item H: every "
        "session a Load returned and every started client looked at again - nothing handed out may have changed), "
        "round trips of ~340 host names made of JSON-significant text (the literal text of every escape sequence "
        "the JSON writer emits, alone / embedded / behind further backslashes, escaped forms of other host names, "
        "quotes, long names), "
        "histories on the real clock, every strict prefix of written files, files of "
        "other shapes, restart on a present / missing / torn store; distinct = distinct operation lines; each is "
        "compared with the Lean model and judged by the property's own reading")


def run(ctx):
    ctx.assumptions += [
        "encoding/json, encoding/base64, path/filepath.Split and the filesystem are modelled; agreement with them is sampled by the correspondence, not proved",
        "the key exchange itself is not run here: that CreateConnection skips it iff the client is in the encrypted state is read from mtproto.go; the end-to-end resume against a scripted server belongs to the client-machine checks",
    ]
    return vlib.generic_check(ctx, SUB, MODULES, THEOREMS, RULE)


def replay(ctx, path):
    return vlib.replay(ctx, SUB, path)
