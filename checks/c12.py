"""C12 — stored sessions are read back intact and let a restarted client resume."""
import vlib

SUB = "c12"
MODULES = ["Mtv.Props.C12"]
THEOREMS = [
    "Mtv.Session.base64_roundtrip",
    "Mtv.Session.salt_roundtrip",
    "Mtv.Session.read_write_session",
    "Mtv.Session.torn_is_error",
    "Mtv.Session.cut_store_is_prefix_of_new",
    "Mtv.Session.cut_store_error_or_new",
    "Mtv.Session.overwrite_in_place_third_session",
    "Mtv.Session.missing_is_notFound",
    "Mtv.Session.last_store_wins",
    "Mtv.Session.stale_cache_before_repair",
    "Mtv.Session.path_forms",
    "Mtv.Session.bare_name_before_repair",
    "Mtv.Session.resume_skips_exchange",
    "Mtv.Session.fresh_or_torn_start",
    "Mtv.Session.start_on_any_storage",
    "Mtv.Session.given_storage_is_used",
    "Mtv.Session.resume_on_the_wire",
    "Mtv.Session.loads_unaffected_by_holders",
    "Mtv.Session.shared_cache_object_is_mutable",
]
RULE = ("operations on real files in a per-run scratch directory through session.NewFromFile(...).Store/Load and "
        "mtproto.NewMTProto: round trips on six path shapes (absolute, relative, ./name, bare name; missing directory), "
        "also in a process whose TMPDIR names no directory / a regular file / a directory on another filesystem, "
        "Config with SessionStorage (file loader or an in-memory implementation, holding a session or nothing) and "
        "AuthKeyFile (unset / no file / another session's file / that file cut short / no directory) in every "
        "combination (c12.cfg: the client resumes with what the given storage holds, SaveSession lands in it, the "
        "other path stays as it was), store/load histories with forced (equal) modification "
        "times and up to three loaders (a loader whose last successful Load saw another modification time must "
        "behave like a fresh one), a loaded long-lived loader under another writer cut short at every byte, "
        "clients started one after another on ONE long-lived loader (item C: NewMTProto on it; item H: every "
        "session a Load returned and every started client looked at again - nothing handed out may have changed), "
        "round trips of ~340 host names made of JSON-significant text (the literal text of every escape sequence "
        "the JSON writer emits, alone / embedded / behind further backslashes, escaped forms of other host names, "
        "quotes, long names), "
        "histories on the real clock, every strict prefix of written files, a Store of a newer session over an OLDER "
        "one cut by the operating system itself (RLIMIT_FSIZE, SIGXFSZ ignored) at every byte 0..n of the new file "
        "(c12.cut: older/newer differing in the salt only / in key, hash or host name of the same length / shorter / "
        "longer / unrelated, small and real 256-byte-key sessions; the storing loader and a fresh one must report an "
        "error or return one of the two stored sessions), files of "
        "other shapes, restart on a present / missing / torn store; the started client as the server sees it "
        "(c12.wire: session stored with a 256-byte key and a hash field that is the key's id / 8 other bytes / of "
        "another length / empty, store named by AuthKeyFile, a file loader or an in-memory storage; NewMTProto + "
        "CreateConnection + one request against loopback listeners for the stored and the configured address; the "
        "first frame is opened by an independent envelope reader holding only the stored key: it arrived at the "
        "stored address, is not plain text, auth_key_id = SHA1(key)[12:20], decrypts, carries the stored salt and "
        "the request); what callers do with their own objects AFTERWARDS (history items MS / MG / MC / V: the object "
        "passed to Store - key and hash bytes rewritten in place, wiped, re-sliced, appended within capacity, other "
        "salt and host -, a session a Load returned, a started client's key through GetAuthKey / key id / salt, the "
        "client's SaveSession; two loaders and two Stores of equal-length sessions inside one tick of the file's "
        "clock; forced times and the real clock): every later Load by the same, another and a fresh loader, every "
        "client started later and everything handed out to somebody else must be as if the caller had done nothing; "
        "distinct = distinct operation lines; each is "
        "compared with the Lean model and judged by the property's own reading")


def run(ctx):
    ctx.assumptions += [
        "encoding/json, encoding/base64, path/filepath.Split and the filesystem are modelled; agreement with them is sampled by the correspondence, not proved",
        "the key exchange itself is not run here: that CreateConnection skips it iff the client is in the encrypted state is read from mtproto.go and observed for the first frame only (c12.wire: encrypted under the stored key on a store that holds a session, plain text on an empty one); the rest of the end-to-end resume against a scripted server belongs to the client-machine checks",
        "SHA-1 is a parameter of resume_on_the_wire; the driver instantiates it with the executable Mtv.Crypto.sha1, compared with Go's on every c12.wire line",
    ]
    return vlib.generic_check(ctx, SUB, MODULES, THEOREMS, RULE)


def replay(ctx, path):
    return vlib.replay(ctx, SUB, path)
