"""C09 — see DESIGN.md §7 and docs/CLIENT_MACHINE.md."""
import rpcflow

SUB = "c09"
MODULES = ["Mtv.Props.C09", "Mtv.Props.ClientImpl"]
THEOREMS = [
    "Mtv.Client.own_result",
    "Mtv.Client.request_owner_unique",
    "Mtv.Client.own_result_pending",
    "Mtv.Client.never_twice",
    "Mtv.Client.deliver_consumes",
    "Mtv.Client.one_call_per_caller",
    "Mtv.Client.container_like_plain",
    # the goroutine-level model and its refinement of the machine above (Props/ClientImpl.lean)
    "Mtv.Impl.impl_refines_spec",
    "Mtv.Impl.impl_matches_source",
    "Mtv.Impl.impl_order_matches_source",
    "Mtv.Impl.recv_flatten",
    "Mtv.Impl.impl_refinement_needs_causal_server",
    "Mtv.Impl.impl_own_result",
]
RULE = ('scenarios on the real client (resumed session, scripted peer over loopback TCP): 1..8 (thorough 16) concurrent callers expecting an object, Bool, Vector<long>, Vector<future_salt> (decoder hints) or rpc_error; answers in a random permutation, randomly partitioned into plain messages and containers with pong / msgs_ack noise, a random subset gzip-packed; second rounds and stray duplicate results; rpc_errors of the API parametrised families (FLOOD_WAIT_n, SLOWMODE_WAIT_n, FILE_MIGRATE_n, FILE_PART_n_MISSING, TAKEOUT_INIT_DELAY_n, USER_MIGRATE_n) with a different parameter for every caller, in one round and in successive rounds of one process, the delivered error compared in full (code, family name, parameter, the numbers its text mentions); results of about and beyond 2^20 bytes (an object with a bytes field of 2^20-300 .. 2^21 bytes, thorough 16 MB) as plain messages followed by answers of other callers; requests encoded while the write of another caller is in progress and the receive loop acknowledges a message (all goroutines on one processor, and on all) - the peer checks every request and every msgs_ack it receives byte for byte.; a request in flight rejected with bad_server_salt while the session store fails at exactly that save (in-memory and file store, other callers pending, back to back, in a container, repeatedly); server msg_ids anywhere in the unsigned 64-bit range (plan step I<msg_id>: bit 63 set, across 2^63, just below 2^64, near zero, 1 and 3 modulo 4; a server clock far ahead); calls that send other requests than ping (msgs_state_req, msg_resend_req, ping_delay_disconnect, req_pq, req_DH_params, set_client_DH_params, rpc_drop_answer, get_future_salts, destroy_session). Each trace is judged by the Go oracle (each call returns the result addressed to its own request, once) and replayed through the Lean machine. distinct = distinct scenarios')


def run(ctx):
    ctx.assumptions += ["the Go runtime's scheduling during a run decides the interleaving actually exercised (sampled, not enumerated)", 'warnings are drained by the harness (a full user warning channel would block the receive loop: environment assumption)']
    return rpcflow.run(ctx, SUB, MODULES, THEOREMS, RULE, gen_hook=rpcflow.regen_skeleton)


def replay(ctx, path):
    return rpcflow.replay(ctx, SUB, path)
