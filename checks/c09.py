"""C09 — see DESIGN.md §7 and docs/CLIENT_MACHINE.md."""
import rpcflow

SUB = "c09"
MODULES = ["Mtv.Props.C09"]
THEOREMS = [
    "Mtv.Client.own_result",
    "Mtv.Client.request_owner_unique",
    "Mtv.Client.own_result_pending",
    "Mtv.Client.never_twice",
    "Mtv.Client.deliver_consumes",
    "Mtv.Client.one_call_per_caller",
    "Mtv.Client.container_like_plain",
]
RULE = ('scenarios on the real client (resumed session, scripted peer over loopback TCP): 1..8 (thorough 16) concurrent callers expecting an object, Bool, Vector<long>, Vector<future_salt> (decoder hints) or rpc_error; answers in a random permutation, randomly partitioned into plain messages and containers with pong / msgs_ack noise, a random subset gzip-packed; second rounds and stray duplicate results. Each trace is judged by the Go oracle (each call returns the result addressed to its own request, once) and replayed through the Lean machine. distinct = distinct scenarios')


def run(ctx):
    ctx.assumptions += ["the Go runtime's scheduling during a run decides the interleaving actually exercised (sampled, not enumerated)", 'warnings are drained by the harness (a full user warning channel would block the receive loop: environment assumption)']
    return rpcflow.run(ctx, SUB, MODULES, THEOREMS, RULE)


def replay(ctx, path):
    return rpcflow.replay(ctx, SUB, path)
